/- `lake env lean --run RunAsmMany2.lean < cases.txt`: one answer of `B3.AsmSem.Many2.Run.runLine` per input line -/
import B3.Asm.RunMany2
open B3.AsmSem.Many2.Run

partial def loop (h : IO.FS.Stream) (out : IO.FS.Stream) : IO Unit := do
  let line ← h.getLine
  if line.isEmpty then return
  let clean := String.ofList (line.toList.filter fun c => c ≠ '\n' ∧ c ≠ '\r')
  let toks := (clean.splitOn " ").filter (· ≠ "")
  out.putStrLn ((runLine toks).getD "ERR")
  out.flush
  loop h out

def main : IO Unit := do
  loop (← IO.getStdin) (← IO.getStdout)
