import B3.Tree.Basic
import B3.Tree.Stack
import B3.Tree.Blocks
import B3.Tree.Arith
import B3.Tree.Hasher
import B3.Tree.Wide
import B3.Tree.Final
