/-
  B3.B3sum.RustPrim — the Lean side of the (trusted) mapping table of gen/ext_b3sum.py.

  The translator turns `b3sum/src/main.rs` into Lean statement by statement; every Rust library
  operation it meets is looked up in the explicit table `PRIMS` of gen/ext_b3sum.py and replaced by
  one of the model's primitives (B3.B3sum.Model: `byteLen`, `findChar`, `takeBytes`, `dropBytes`,
  `splitOnce`, `rsplitOnce`, `replaceChar`, `lossyDecode`, `isAscii`, `utf8Encode`, ...) or by one
  of the small definitions below.  Nothing here knows what b3sum does with them.

  Conventions (the same as the model's): `&str`/`String` = `Str = List Char`; `usize`/`u64`/`u8` =
  `Nat` with *checked* operations (the harness builds with overflow-checks); a Rust computation is
  a value of `Res ε α` = ok / err (the `Err` of an `anyhow::Result`) / panic.
-/
import B3.B3sum.Model

namespace B3.B3sum

instance {ε : Type} : Monad (Res ε) where
  pure := Res.ok
  bind := Res.bind

namespace RustPrim

/-! ## checked integer arithmetic -/

/-- `usize`/`u64` `+` with overflow-checks -/
def usizeAdd {ε : Type} (a b : Nat) : Res ε Nat :=
  if a + b < 18446744073709551616 then .ok (a + b) else .panic
/-- `usize`/`u64` `-` with overflow-checks -/
def usizeSub {ε : Type} (a b : Nat) : Res ε Nat := usub a b
/-- `usize`/`u64` `*` with overflow-checks -/
def usizeMul {ε : Type} (a b : Nat) : Res ε Nat :=
  if a * b < 18446744073709551616 then .ok (a * b) else .panic
/-- `u8` `-` with overflow-checks -/
def u8sub {ε : Type} (a b : Nat) : Res ε Nat := usub a b
/-- `u64::saturating_add` -/
def satAdd64 (a b : Nat) : Nat := if a + b < 18446744073709551616 then a + b else 18446744073709551615
/-- `char as u8` (truncation of the code point) -/
def charToU8 (c : Char) : Nat := c.toNat % 256
/-- comparison of two `char`s = comparison of their code points -/
def charLe (a b : Char) : Bool := decide (a.toNat ≤ b.toNat)
def charLt (a b : Char) : Bool := decide (a.toNat < b.toNat)
/-- `u64 as i32` (two's complement truncation); guarded so that the kernel never reduces `%` on an open term -/
def castI32 (n : Nat) : Int :=
  if n < 2147483648 then (n : Int)
  else if n % 4294967296 < 2147483648 then ((n % 4294967296 : Nat) : Int)
  else ((n % 4294967296 : Nat) : Int) - 4294967296
/-- `[u8; N]` → `blake3::Hash` (`From<[u8; 32]>`): the same bytes -/
def u8sToBytes (l : List Nat) : List UInt8 := l.map Nat.toUInt8

/-! ## strings -/

/-- `String::with_capacity(n)`: an empty string; panics ("capacity overflow") when `n > isize::MAX` -/
def withCapacity {ε : Type} (n : Nat) : Res ε Str :=
  if n < 9223372036854775808 then .ok [] else .panic
/-- `&s[a..]` (panics when out of range or not on a character boundary) -/
def sliceFrom {ε : Type} (s : Str) (a : Nat) : Res ε Str := Res.ofOption (dropBytes a s)
/-- `&s[..b]` -/
def sliceTo {ε : Type} (s : Str) (b : Nat) : Res ε Str := Res.ofOption (takeBytes b s)
/-- `&s[a..b]` -/
def sliceRange {ε : Type} (s : Str) (a b : Nat) : Res ε Str :=
  if a ≤ b then (Res.ofOption (dropBytes a s)).bind fun t => Res.ofOption (takeBytes (b - a) t) else .panic
/-- `Option::unwrap` -/
def unwrap {ε α : Type} (o : Option α) : Res ε α := Res.ofOption o
/-- `str::contains([c1, c2, ..])` -/
def strContainsAny (s : Str) (cs : List Char) : Bool := s.any fun c => cs.contains c
/-- `str::trim_end_matches([c1, c2, ..])` -/
def trimEndMatches (cs : List Char) : Str → Str
  | [] => []
  | c :: rest =>
    match trimEndMatches cs rest with
    | [] => if cs.contains c then [] else [c]
    | t => c :: t
/-- `str::replace(&str, &str)`: non-overlapping matches, left to right (`fuel` ≥ length + 1) -/
def replaceStrLoop (pat rep : Str) : Nat → Str → Str
  | 0, s => s
  | _ + 1, [] => if pat = [] then rep else []
  | fuel + 1, c :: cs =>
    if pat = [] then rep ++ c :: replaceStrLoop pat rep fuel cs
    else if pat.isPrefixOf (c :: cs) then rep ++ replaceStrLoop pat rep fuel ((c :: cs).drop pat.length)
    else c :: replaceStrLoop pat rep fuel cs
def replaceStr (pat rep : Str) (s : Str) : Str := replaceStrLoop pat rep (s.length + 1) s
/-- `Chars::next()` on an iterator that is the rest of the string: `(item, iterator afterwards)` -/
def charsNext (it : Str) : Option Char × Str := (it.head?, it.tail)

/-! ## results as values, stdout, `BufRead::read_line` -/

/-- a `Result` kept as a value (`let r = f(..); if let Err(e) = r ..`): a panic inside `f` is still a panic -/
def catchErr {ε ε' α : Type} (x : Res ε α) : Res ε' (Except ε α) :=
  match x with
  | .ok a => .ok (.ok a)
  | .err e => .ok (.error e)
  | .panic => .panic

/-- what is written to stdout: characters (from `print!`) and raw bytes (from `io::copy`) -/
inductive OutTok where
  | ch (c : Char)
  | byte (b : UInt8)
  deriving DecidableEq, Repr

def outText (s : Str) : List OutTok := s.map .ch
def outRaw (b : List UInt8) : List OutTok := b.map .byte

/-- `bufreader.read_line(&mut line)` on a reader given as the list of its future results
(`Model.ReadLine`): `Err(e)`, or the line is appended to `line` and its byte length returned; an
exhausted reader keeps returning `Ok(0)`.  Result: `(n, reader afterwards, line afterwards)`. -/
def readLine (rd : List ReadLine) (line : Str) : Res String (Nat × List ReadLine × Str) :=
  match rd with
  | [] => .ok (0, [], line)
  | .error e :: _ => .err e
  | .ok s :: rest => .ok (byteLen s, rest, line ++ s)

end RustPrim
end B3.B3sum
