/-
  B3.B3sum.IoPrim — the Lean side of the (trusted) mapping tables of gen/ext_b3sum2.py (artefact
  G28-b3sum-io): the vocabulary into which the I/O half of `b3sum/src/main.rs` is translated.

  The abstractions are those of B3.B3sum.Model:
  * a `blake3::OutputReader` is an output stream `S : Nat → UInt8` and a position (`Reader`);
    `fill(buf)` delivers `fillAt S pos buf.len()` and advances the position;
  * a `blake3::Hasher` is the mode it was constructed in and the bytes absorbed so far (`Hasher`);
    what `finalize_xof` yields is the abstract `World.xof mode input` (that the library computes the
    specified stream is the subject of the other properties);
  * the file system is `World.fs : path ↦ Err(message) | contents` (exactly `Model.Env.fs`; opening and
    reading are not distinguished, and reading a file with or without `mmap` gives the same bytes);
    `World.stdin` is what a read of standard input delivers (stateless: the interplay of two readers
    of stdin inside one process is not modelled);
  * a process writes to two streams (`Streams`); `Io α` is a computation that can write to them
    and ends in one of the three outcomes of `Res String α`.  What has been written survives an
    `Err` and a panic (unlike a functional threading of stdout through `Res`).

  Nothing here knows what b3sum does with these operations.
-/
import B3.B3sum.RustPrim

namespace B3.B3sum
namespace IoPrim
open RustPrim

/-! ## hasher, output reader, world -/

/-- the three constructors of `blake3::Hasher` -/
inductive Mode where
  | hash
  | keyed (key : List UInt8)
  | deriveKey (context : Str)
  deriving DecidableEq, Repr

/-- `blake3::Hasher` -/
structure Hasher where
  mode : Mode
  input : List UInt8
  deriving DecidableEq, Repr

/-- `blake3::OutputReader` -/
structure Reader where
  S : Nat → UInt8
  pos : Nat

/-- something that implements `io::Read`: the bytes it will deliver, or the error it fails with -/
abbrev ByteSrc := Except String (List UInt8)

structure World where
  /-- `File::open(path)` + reading it: OS path bytes ↦ `Err(message)` or the contents -/
  fs : List UInt8 → Except String (List UInt8)
  /-- standard input -/
  stdin : ByteSrc
  /-- the extended output of the library for a mode and an input -/
  xof : Mode → List UInt8 → Nat → UInt8

/-- `blake3::Hasher::new()` -/
def hasherNew : Hasher := { mode := .hash, input := [] }
/-- `blake3::Hasher::new_keyed(&key)` -/
def hasherNewKeyed (key : List UInt8) : Hasher := { mode := .keyed key, input := [] }
/-- `blake3::Hasher::new_derive_key(context)` -/
def hasherNewDeriveKey (context : Str) : Hasher := { mode := .deriveKey context, input := [] }

/-- `hasher.update_reader(src)`: absorbs everything `src` delivers -/
def hasherUpdateReader (h : Hasher) (src : ByteSrc) : Res String Hasher :=
  match src with
  | .error e => .err e
  | .ok bytes => .ok { h with input := h.input ++ bytes }

/-- `hasher.update_mmap_rayon(path)`: opens the file and absorbs its contents -/
def hasherUpdateMmap (w : World) (h : Hasher) (path : List UInt8) : Res String Hasher :=
  match w.fs path with
  | .error e => .err e
  | .ok bytes => .ok { h with input := h.input ++ bytes }

/-- `hasher.finalize_xof()` -/
def hasherFinalizeXof (w : World) (h : Hasher) : Reader := { S := w.xof h.mode h.input, pos := 0 }

/-- `output_reader.set_position(p)` -/
def readerSetPosition (rd : Reader) (p : Nat) : Reader := { rd with pos := p }

/-- `output.fill(&mut buf)` with `buf.len() = n`: `(new contents of buf, reader afterwards)` -/
def readerFill (rd : Reader) (n : Nat) : List UInt8 × Reader :=
  (fillAt rd.S rd.pos n, { rd with pos := rd.pos + n })

/-- `output.take(limit)` (`io::Read::take` on an `OutputReader`) -/
structure TakeReader where
  rd : Reader
  limit : Nat

def readerTake (rd : Reader) (limit : Nat) : TakeReader := { rd := rd, limit := limit }

/-- `blake3::Hash == blake3::Hash` (`constant_time_eq`) -/
def hashEq (a b : List UInt8) : Bool := decide (a = b)

/-! ## byte sources and buffers -/

/-- `File::open(path)?` -/
def fileOpen (w : World) (path : List UInt8) : Res String ByteSrc :=
  match w.fs path with
  | .error e => .err e
  | .ok bytes => .ok (.ok bytes)

/-- `io::stdin()` / `.lock()` -/
def stdinOf (w : World) : ByteSrc := w.stdin

/-- `reader.take(n)` on a byte source -/
def srcTake (src : ByteSrc) (n : Nat) : ByteSrc :=
  match src with
  | .error e => .error e
  | .ok bytes => .ok (bytes.take n)

/-- `src.read_to_end(&mut buf)?`: `(number of bytes read, buf afterwards)` -/
def readToEnd (src : ByteSrc) (buf : List UInt8) : Res String (Nat × List UInt8) :=
  match src with
  | .error e => .err e
  | .ok bytes => .ok (bytes.length, buf ++ bytes)

/-- `Vec::<u8>::with_capacity(n)`: panics ("capacity overflow") when `n > isize::MAX` -/
def vecWithCapacity {ε : Type} (n : Nat) : Res ε (List UInt8) :=
  if n < 9223372036854775808 then .ok [] else .panic

/-- `&bytes[..n]` -/
def sliceBytesTo {ε : Type} (b : List UInt8) (n : Nat) : Res ε (List UInt8) :=
  if n ≤ b.length then .ok (b.take n) else .panic

/-- `slice.try_into().unwrap()` into `[u8; n]` -/
def arrayFromSlice {ε : Type} (n : Nat) (b : List UInt8) : Res ε (List UInt8) :=
  if b.length = n then .ok b else .panic

/-- `io::BufReader::new(src)` seen through `read_line`: the future results of `read_line` -/
def bufReaderNew (src : ByteSrc) : List ReadLine :=
  match src with
  | .error e => [.error e]
  | .ok bytes => readLines bytes

/-- `{}` applied to an unsigned integer -/
def natToStr (n : Nat) : Str := (toString n).toList

/-! ## the two output streams -/

structure Streams where
  out : List OutTok
  err : Str

/-- a computation that writes to stdout / stderr and ends in `Ok`, `Err` or a panic -/
def Io (α : Type) : Type := Streams → Res String α × Streams

def Io.bind {α β : Type} (x : Io α) (f : α → Io β) : Io β := fun s =>
  match x s with
  | (.ok a, s') => f a s'
  | (.err e, s') => (.err e, s')
  | (.panic, s') => (.panic, s')

instance : Monad Io where
  pure a := fun s => (.ok a, s)
  bind := Io.bind

/-- a computation without output -/
def liftR {α : Type} (x : Res String α) : Io α := fun s => (x, s)

/-- `print!` / `println!` -/
def printOut (t : Str) : Io Unit := fun s => (.ok (), { s with out := s.out ++ outText t })
/-- `eprint!` / `eprintln!` -/
def printErr (t : Str) : Io Unit := fun s => (.ok (), { s with err := s.err ++ t })

/-- a `Result` kept as a value (what was written stays written; a panic is still a panic) -/
def catchIo {α : Type} (x : Io α) : Io (Except String α) := fun s =>
  match x s with
  | (.ok a, s') => (.ok (.ok a), s')
  | (.err e, s') => (.ok (.error e), s')
  | (.panic, s') => (.panic, s')

/-- `std::io::copy(&mut output.take(limit), &mut stdout.lock())?`: the number of bytes copied -/
def copyToStdout (t : TakeReader) : Io Nat := fun s =>
  (.ok t.limit, { s with out := s.out ++ outRaw (fillAt t.rd.S t.rd.pos t.limit) })

end IoPrim
end B3.B3sum
