/-
Models of src/traits.rs (RustCrypto trait impls) and src/guts.rs, as compositions of the inherent
operations of the hasher model, exactly as the trait method bodies are written.
-/
import B3.Model.Rs
namespace B3.Traits
open B3 B3.Rs

variable (K : Kern)

/-- `digest::Update::update` -/
def update (sd : Nat) (h : Hasher) (data : List UInt8) : Option Hasher := h.update K sd data

/-- `digest::Reset::reset` -/
def reset (h : Hasher) : Hasher := h.reset

/-- `digest::FixedOutput::finalize_into` (consumes `self`) -/
def finalizeInto (h : Hasher) : Option (List UInt8) := h.finalize K

/-- `digest::FixedOutputReset::finalize_into_reset`: `out.copy_from_slice(finalize()); self.reset()` -/
def finalizeIntoReset (h : Hasher) : Option (List UInt8 × Hasher) :=
  match h.finalize K with
  | some out => some (out, h.reset)
  | none => none

/-- `digest::ExtendableOutput::finalize_xof` -/
def finalizeXof (h : Hasher) : Option OutputReader :=
  if h.t0 ≠ 0 then none else some (OutputReader.new (h.finalOutput K))

/-- `digest::ExtendableOutputReset::finalize_xof_reset` -/
def finalizeXofReset (h : Hasher) : Option (OutputReader × Hasher) :=
  match finalizeXof K h with
  | some r => some (r, h.reset)
  | none => none

/-- `digest::XofReader::read` -/
def xofRead (r : OutputReader) (n : Nat) : List UInt8 × OutputReader := r.fill K n

/-- `digest::KeyInit::new` -/
def keyInitNew (key : List UInt8) : Hasher := Hasher.newInternal (wordsOfBytes 8 key) Spec.KEYED_HASH

/-- `KeyInit::new_from_slice` (provided method: length check, then `new`) -/
def keyInitNewFromSlice (key : List UInt8) : Option Hasher :=
  if key.length = 32 then some (keyInitNew key) else none

/-- `Mac::verify_slice`: the tag must have the full output length and equal the computed tag -/
def macVerifySlice (h : Hasher) (tag : List UInt8) : Option Bool :=
  match h.finalize K with
  | some out => some (decide (tag.length = 32 ∧ tag = out))
  | none => none

/-- guts::ChunkState (deprecated API): hash mode (IV, no flags), any chunk counter -/
def gutsNew (counter : Nat) : ChunkState := ChunkState.new Spec.IV counter 0
def gutsUpdate (cs : ChunkState) (input : List UInt8) : ChunkState := cs.update K input
def gutsLen (cs : ChunkState) : Nat := cs.count
/-- `finalize(is_root)`: root hash or chaining value (the root hash ignores the chunk counter: the
code computes it with counter 0, and a debug assertion requires the counter to be 0) -/
def gutsFinalize (cs : ChunkState) (isRoot : Bool) : Option (List UInt8) :=
  if isRoot then (if cs.t = 0 then some (rootHash K cs.output) else none)
  else some (bytesOfWords (chain K cs.output))

/-- `guts::parent_cv` -/
def gutsParentCv (l r : CV) (isRoot : Bool) : List UInt8 :=
  let o := parentOutput Spec.IV 0 l r
  if isRoot then rootHash K o else bytesOfWords (chain K o)

end B3.Traits
