/-
Executable model of reference_impl/reference_impl.rs, following the code's own control flow:
`Output` (chaining_value, root_output_bytes), `ChunkState` (new, len, start_flag, update, output),
`parent_output`, `parent_cv`, `Hasher` (new_internal, new, new_keyed, new_derive_key, push_stack,
pop_stack, add_chunk_chaining_value, update, finalize).

Conventions
* the compression function is a parameter `cmp` (argument order of the reference's `compress`:
  chaining value, block words, counter, block_len, flags); `Ref.specCmp = Spec.compress` is the
  instance every theorem is stated for, through a hypothesis `cmp = Spec.compress` that a
  generated translation of the reference's `compress` discharges;
* flags are `u32` as in the reference; chunk counters, the output block counter and all lengths
  are `Nat` and are converted with `UInt64.ofNat` / `UInt32.ofNat` at the compression call (the
  reference's `u64` chunk counter reaches at most 2^54 for inputs shorter than 2^64 bytes, its
  `u8` `block_len` at most 64 and its `u8` `blocks_compressed` at most 15);
* `ChunkState.block` holds the `block_len` bytes buffered so far; the rest of the reference's
  64-byte buffer is zero (it is zeroed after every compression and only ever appended to), which
  is what `wordsOfBytes 16` pads with;
* `cv_stack` is the list of its `cv_stack_len` live entries, bottom first (top = last); the fixed
  capacity 54 is explicit: `pushStack` on a full stack and `popStack` on an empty one are the
  panics of the reference (index out of bounds / `u8` underflow) and yield `none`.
-/
import B3.Prim
import B3.Spec
namespace B3.Ref
open B3

/-- type of the reference's `compress` -/
abbrev Cmp := CV → St → UInt64 → UInt32 → UInt32 → St

def specCmp : Cmp := Spec.compress

abbrev OUT_LEN : Nat := 32
abbrev KEY_LEN : Nat := 32
abbrev BLOCK_LEN : Nat := 64
abbrev CHUNK_LEN : Nat := 1024
/-- `cv_stack: [[u32; 8]; 54]` -/
abbrev STACK_CAP : Nat := 54

def CHUNK_START : UInt32 := (1 : UInt32) <<< 0
def CHUNK_END : UInt32 := (1 : UInt32) <<< 1
def PARENT : UInt32 := (1 : UInt32) <<< 2
def ROOT : UInt32 := (1 : UInt32) <<< 3
def KEYED_HASH : UInt32 := (1 : UInt32) <<< 4
def DERIVE_KEY_CONTEXT : UInt32 := (1 : UInt32) <<< 5
def DERIVE_KEY_MATERIAL : UInt32 := (1 : UInt32) <<< 6

def IV : CV := #v[0x6A09E667, 0xBB67AE85, 0x3C6EF372, 0xA54FF53A, 0x510E527F, 0x9B05688C, 0x1F83D9AB, 0x5BE0CD19]

/-- `first_8_words` -/
def first8Words (s : St) : CV := first8 s

/-- `words_from_little_endian_bytes` into `n` words (`bytes.len() == 4 * n` in every call) -/
def wordsFromLittleEndianBytes (n : Nat) (bytes : List UInt8) : Vector UInt32 n := wordsOfBytes n bytes

/-- `struct Output` -/
structure Output where
  inputChainingValue : CV
  blockWords : St
  counter : Nat
  blockLen : Nat
  flags : UInt32
deriving DecidableEq

/-- the inner loop of `root_output_bytes`: `words.iter().zip(out_block.chunks_mut(4))` with
`out_word.copy_from_slice(&word.to_le_bytes()[..out_word.len()])`, for an `out_block` of `n` bytes -/
def writeWords : List UInt32 → Nat → List UInt8
  | [], _ => []
  | w :: ws, n => if n = 0 then [] else (wordBytes w).take n ++ writeWords ws (n - 4)

section
variable (cmp : Cmp)

/-- `Output::chaining_value` -/
def Output.chainingValue (o : Output) : CV :=
  first8Words (cmp o.inputChainingValue o.blockWords (UInt64.ofNat o.counter) (UInt32.ofNat o.blockLen) o.flags)

/-- the outer loop of `Output::root_output_bytes` from `output_block_counter = k` with `rem` bytes
of `out_slice` left (`chunks_mut(2 * OUT_LEN)`: blocks of 64 bytes, the last one possibly short) -/
def Output.rootOutputLoop (o : Output) (k : Nat) (rem : Nat) : List UInt8 :=
  if _h : rem = 0 then [] else
    let words := cmp o.inputChainingValue o.blockWords (UInt64.ofNat k) (UInt32.ofNat o.blockLen) (o.flags ||| ROOT)
    writeWords words.toList (min (2 * OUT_LEN) rem) ++ Output.rootOutputLoop o (k + 1) (rem - 2 * OUT_LEN)
termination_by rem
decreasing_by simp [OUT_LEN]; omega

/-- `Output::root_output_bytes` for an `out_slice` of `outLen` bytes -/
def Output.rootOutputBytes (o : Output) (outLen : Nat) : List UInt8 := o.rootOutputLoop cmp 0 outLen

end

/-- `struct ChunkState` -/
structure ChunkState where
  chainingValue : CV
  chunkCounter : Nat
  block : List UInt8          -- the `block_len` buffered bytes
  blocksCompressed : Nat
  flags : UInt32
deriving DecidableEq

/-- `ChunkState::new` -/
def ChunkState.new (keyWords : CV) (chunkCounter : Nat) (flags : UInt32) : ChunkState :=
  { chainingValue := keyWords, chunkCounter := chunkCounter, block := [], blocksCompressed := 0, flags := flags }

abbrev ChunkState.blockLen (cs : ChunkState) : Nat := cs.block.length

/-- `ChunkState::len` -/
def ChunkState.len (cs : ChunkState) : Nat := BLOCK_LEN * cs.blocksCompressed + cs.blockLen

/-- `ChunkState::start_flag` -/
def ChunkState.startFlag (cs : ChunkState) : UInt32 := if cs.blocksCompressed = 0 then CHUNK_START else 0

section
variable (cmp : Cmp)

/-- the `if self.block_len as usize == BLOCK_LEN { … }` at the head of the loop body of
`ChunkState::update` -/
def ChunkState.compressFullBlock (cs : ChunkState) : ChunkState :=
  if cs.blockLen = BLOCK_LEN then
    { cs with
      chainingValue := first8Words (cmp cs.chainingValue (wordsFromLittleEndianBytes 16 cs.block)
        (UInt64.ofNat cs.chunkCounter) (UInt32.ofNat BLOCK_LEN) (cs.flags ||| cs.startFlag)),
      blocksCompressed := cs.blocksCompressed + 1,
      block := [] }
  else cs

set_option linter.unusedVariables false in
/-- `ChunkState::update`: `while !input.is_empty()`.  The branch `take = 0` cannot be taken when
`block_len ≤ 64` (preserved: `Proofs.Ref.cs_update_wf`); in the reference `BLOCK_LEN - block_len`
would underflow there.  It only makes the definition total. -/
def ChunkState.update (cs : ChunkState) (input : List UInt8) : ChunkState :=
  if hi : input = [] then cs else
    let cs := cs.compressFullBlock cmp
    let want := BLOCK_LEN - cs.blockLen
    let take := min want input.length
    if ht : take = 0 then cs else
      ChunkState.update { cs with block := cs.block ++ input.take take } (input.drop take)
termination_by input.length
decreasing_by
  have h1 : 0 < take := Nat.pos_of_ne_zero ht
  have h2 := List.length_pos_iff.mpr hi
  simp only [List.length_drop]
  exact Nat.sub_lt h2 h1

end

/-- `ChunkState::output` -/
def ChunkState.output (cs : ChunkState) : Output :=
  { inputChainingValue := cs.chainingValue,
    blockWords := wordsFromLittleEndianBytes 16 cs.block,
    counter := cs.chunkCounter,
    blockLen := cs.blockLen,
    flags := cs.flags ||| cs.startFlag ||| CHUNK_END }

/-- `parent_output` -/
def parentOutput (leftChildCv rightChildCv : CV) (keyWords : CV) (flags : UInt32) : Output :=
  { inputChainingValue := keyWords,
    blockWords := catCV leftChildCv rightChildCv,
    counter := 0,
    blockLen := BLOCK_LEN,
    flags := PARENT ||| flags }

section
variable (cmp : Cmp)

/-- `parent_cv` -/
def parentCv (leftChildCv rightChildCv : CV) (keyWords : CV) (flags : UInt32) : CV :=
  (parentOutput leftChildCv rightChildCv keyWords flags).chainingValue cmp

end

/-- `struct Hasher` -/
structure Hasher where
  chunkState : ChunkState
  keyWords : CV
  cvStack : List CV           -- `cv_stack[0 .. cv_stack_len]`, bottom first
  flags : UInt32
deriving DecidableEq

/-- `Hasher::new_internal` -/
def Hasher.new (key : CV) (flags : UInt32) : Hasher :=
  { chunkState := ChunkState.new key 0 flags, keyWords := key, cvStack := [], flags := flags }

/-- `Hasher::new` -/
def Hasher.newHash : Hasher := Hasher.new IV 0

/-- `Hasher::new_keyed` (`key: &[u8; 32]`) -/
def Hasher.newKeyed (key : List UInt8) : Hasher := Hasher.new (wordsFromLittleEndianBytes 8 key) KEYED_HASH

/-- `push_stack`; `none` = index 54 out of bounds -/
def pushStack (stack : List CV) (cv : CV) : Option (List CV) :=
  if stack.length < STACK_CAP then some (stack ++ [cv]) else none

/-- `pop_stack`; `none` = `cv_stack_len -= 1` on an empty stack -/
def popStack (stack : List CV) : Option (CV × List CV) :=
  if h : stack = [] then none else some (stack.getLast h, stack.dropLast)

theorem popStack_length {stack rest : List CV} {top : CV} (h : popStack stack = some (top, rest)) :
    rest.length < stack.length := by
  unfold popStack at h
  split at h
  · cases h
  · rename_i hne
    simp only [Option.some.injEq, Prod.mk.injEq] at h
    have := List.length_pos_iff.mpr hne
    rw [← h.2, List.length_dropLast]; omega

section
variable (cmp : Cmp)

/-- `add_chunk_chaining_value` on the stack: `while total_chunks & 1 == 0 { new_cv = parent_cv(pop
…); total_chunks >>= 1 }; push(new_cv)`.  Every iteration pops, so the loop ends (with the pop
panic at the latest) also for `total_chunks = 0`. -/
def addChunkChainingValue (keyWords : CV) (flags : UInt32) (stack : List CV) (newCv : CV) (totalChunks : Nat) :
    Option (List CV) :=
  if totalChunks % 2 = 0 then
    match h : popStack stack with
    | none => none
    | some (top, rest) =>
      addChunkChainingValue keyWords flags rest (parentCv cmp top newCv keyWords flags) (totalChunks / 2)
  else pushStack stack newCv
termination_by stack.length
decreasing_by exact popStack_length h

/-- the `if self.chunk_state.len() == CHUNK_LEN { … }` at the head of the loop body of
`Hasher::update` -/
def Hasher.finishChunk (h : Hasher) : Option Hasher :=
  if h.chunkState.len = CHUNK_LEN then
    let chunkCv := h.chunkState.output.chainingValue cmp
    let totalChunks := h.chunkState.chunkCounter + 1
    match addChunkChainingValue cmp h.keyWords h.flags h.cvStack chunkCv totalChunks with
    | none => none
    | some stack =>
      some { h with cvStack := stack, chunkState := ChunkState.new h.keyWords totalChunks h.flags }
  else some h

set_option linter.unusedVariables false in
/-- `Hasher::update`: `while !input.is_empty()`; `none` = a panic of `push_stack` / `pop_stack`.
The branch `take = 0` cannot be taken when the chunk state holds at most 1024 bytes
(`CHUNK_LEN - len` would underflow in the reference); it makes the definition total. -/
def Hasher.update (h : Hasher) (input : List UInt8) : Option Hasher :=
  if hi : input = [] then some h else
    match h.finishChunk cmp with
    | none => none
    | some h =>
      let want := CHUNK_LEN - h.chunkState.len
      let take := min want input.length
      if ht : take = 0 then none else
        Hasher.update { h with chunkState := h.chunkState.update cmp (input.take take) } (input.drop take)
termination_by input.length
decreasing_by
  have h1 : 0 < take := Nat.pos_of_ne_zero ht
  have h2 := List.length_pos_iff.mpr hi
  simp only [List.length_drop]
  exact Nat.sub_lt h2 h1

/-- a sequence of `update` calls -/
def Hasher.updates (h : Hasher) : List (List UInt8) → Option Hasher
  | [] => some h
  | x :: xs => match h.update cmp x with
    | none => none
    | some h => h.updates xs

/-- the loop of `Hasher::finalize`: `while parent_nodes_remaining > 0` -/
def finalizeLoop (keyWords : CV) (flags : UInt32) (stack : List CV) : Nat → Output → Output
  | 0, output => output
  | n + 1, output =>
    finalizeLoop keyWords flags stack n (parentOutput (stack.getD n keyWords) (output.chainingValue cmp) keyWords flags)

/-- the root `Output` computed by `Hasher::finalize` -/
def Hasher.finalOutput (h : Hasher) : Output :=
  finalizeLoop cmp h.keyWords h.flags h.cvStack h.cvStack.length h.chunkState.output

/-- `Hasher::finalize` into an `out_slice` of `outLen` bytes (never panics) -/
def Hasher.finalizeBytes (h : Hasher) (outLen : Nat) : List UInt8 := (h.finalOutput cmp).rootOutputBytes cmp outLen

/-- `Hasher::finalize` in the shape of the other operations (`none` = panic; `finalize` itself has
no panicking path, the stack overflow panic is an outcome of `update`) -/
def Hasher.finalize (h : Hasher) (outLen : Nat) : Option (List UInt8) := some (h.finalizeBytes cmp outLen)

/-- `Hasher::new_derive_key` on the bytes of the context string -/
def newDeriveKey (context : List UInt8) : Option Hasher :=
  match (Hasher.new IV DERIVE_KEY_CONTEXT).update cmp context with
  | none => none
  | some contextHasher =>
    let contextKey := contextHasher.finalizeBytes cmp KEY_LEN
    some (Hasher.new (wordsFromLittleEndianBytes 8 contextKey) DERIVE_KEY_MATERIAL)

/-- the three constructors, selected by a specification mode -/
def newMode : Spec.Mode → Option Hasher
  | .hash => some Hasher.newHash
  | .keyed k => some (Hasher.newKeyed k)
  | .derive ctx => newDeriveKey cmp ctx

/-- a whole history: constructor, updates, finalize -/
def run (mode : Spec.Mode) (updates : List (List UInt8)) (outLen : Nat) : Option (List UInt8) :=
  match newMode cmp mode with
  | none => none
  | some h => match h.updates cmp updates with
    | none => none
    | some h => h.finalize cmp outLen

end

end B3.Ref
