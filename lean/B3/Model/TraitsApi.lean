/-
The interface against which src/traits.rs and src/guts.rs are translated (Gen/RsTraits.lean).

Those two files contain no algorithm of their own: every method body is a short sequence of calls to
the crate's inherent operations (`Hasher::update`, `Hasher::finalize`, `ChunkState::new`,
`Output::root_hash`, ...).  The translator turns each body, statement by statement, into a term over
the fields of `Api` below - one field per inherent operation that the two files call, with the
operation's Rust signature (checked against src/lib.rs / src/platform.rs by the translator) in its
docstring.  Operations that can panic in a build with debug assertions return in the panic monad `R`.
`Proofs/RsTraits.lean` instantiates `Api` with the executable model (`Model/Rs.lean`).

Conventions of the translation (the same for `Api` fields and for generated functions):
  * a `&mut self` receiver / `&mut` parameter is passed in and its new value is returned;
    a function returns (return value if any, `self` if `&mut self`, the `&mut` parameters in order);
  * `&[u8]`, `[u8; N]`, `Array<u8, N>` are `List UInt8`; `u64` / `usize` are `Nat`; `u8` is `UInt8`.
-/
import B3.Prim
import B3.Arith
namespace B3.RsApi
open B3

/-- documented panics of the model are `Option`s; the translated code lives in `R` -/
def ofOption {α : Type} : Option α → R α
  | some a => .ok a
  | none => .panic

def toOption {α : Type} : R α → Option α
  | .ok a => some a
  | .panic => none

@[simp] theorem toOption_ofOption {α : Type} (o : Option α) : toOption (ofOption o) = o := by
  cases o <;> rfl

@[simp] theorem ofOption_some {α : Type} (a : α) : ofOption (some a) = R.ok a := rfl
@[simp] theorem ofOption_none {α : Type} : ofOption (none : Option α) = R.panic := rfl

/-- `<[u8]>::copy_from_slice(&mut self, src: &[u8])`: panics when the two lengths differ; otherwise the
destination holds `src` -/
def copy_from_slice (dst src : List UInt8) : R (List UInt8) :=
  if dst.length = src.length then .ok src else .panic

structure Api where
  Hasher : Type
  OutputReader : Type
  Hash : Type
  Output : Type
  ChunkState : Type
  Platform : Type
  /-- `pub fn update(&mut self, input: &[u8]) -> &mut Self` (inherent, `impl Hasher`) -/
  hasher_update : Hasher → List UInt8 → R Hasher
  /-- `pub fn reset(&mut self) -> &mut Self` -/
  hasher_reset : Hasher → Hasher
  /-- `pub fn finalize(&self) -> Hash` (asserts `initial_chunk_counter == 0`) -/
  hasher_finalize : Hasher → R Hash
  /-- `pub fn finalize_xof(&self) -> OutputReader` (asserts `initial_chunk_counter == 0`) -/
  hasher_finalize_xof : Hasher → R OutputReader
  /-- `pub fn new_keyed(key: &[u8; KEY_LEN]) -> Self` -/
  hasher_new_keyed : List UInt8 → Hasher
  /-- `impl Default for Hasher` (what `core::mem::take` leaves behind) -/
  hasher_default : Hasher
  /-- `pub fn fill(&mut self, mut buf: &mut [u8])`: the reader afterwards, the buffer afterwards -/
  reader_fill : OutputReader → List UInt8 → OutputReader × List UInt8
  /-- `pub const fn as_bytes(&self) -> &[u8; OUT_LEN]` -/
  hash_as_bytes : Hash → List UInt8
  /-- `impl From<[u8; OUT_LEN]> for Hash` -/
  hash_from_bytes : List UInt8 → Hash
  /-- `fn new(key: &CVWords, chunk_counter: u64, flags: u8, platform: Platform) -> Self` (`impl ChunkState`) -/
  chunk_state_new : CV → Nat → UInt8 → Platform → ChunkState
  /-- `fn count(&self) -> usize` -/
  chunk_state_count : ChunkState → Nat
  /-- `fn update(&mut self, mut input: &[u8]) -> &mut Self` -/
  chunk_state_update : ChunkState → List UInt8 → ChunkState
  /-- `fn output(&self) -> Output` -/
  chunk_state_output : ChunkState → Output
  /-- `fn chaining_value(&self) -> CVBytes` (`impl Output`) -/
  output_chaining_value : Output → List UInt8
  /-- `fn root_hash(&self) -> Hash` (`debug_assert_eq!(self.counter, 0)`) -/
  output_root_hash : Output → R Hash
  /-- `fn parent_node_output(left_child: &CVBytes, right_child: &CVBytes, key: &CVWords, flags: u8, platform: Platform) -> Output` -/
  parent_node_output : List UInt8 → List UInt8 → CV → UInt8 → Platform → Output
  /-- `pub fn detect() -> Self` (`impl Platform`) -/
  platform_detect : Platform

end B3.RsApi
