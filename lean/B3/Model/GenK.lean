/-
The kernels the executable model runs with: the functions generated from src/portable.rs.
-/
import B3.Model.Rs
import B3.Gen.RsPortable
namespace B3

def genK : Kern := { cip := Gen.Rs.compress_in_place, cxof := Gen.Rs.compress_xof }

end B3
