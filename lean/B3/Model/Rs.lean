/-
Executable model of the Rust crate's tree layer (src/lib.rs, src/hazmat.rs), following the code's
own control flow.  Counters and lengths are `Nat`; the machine width enters the theorems as explicit
hypotheses.  The two single-block kernels are parameters (`Kern`), so every theorem about this model
holds for whatever compression function is plugged in; `Kern.spec` is the specification's.
-/
import B3.Prim
import B3.Spec
import B3.Tree.Blocks
import B3.Tree.Arith
import B3.Tree.Hasher
import B3.Tree.Wide
import B3.Tree.Pair
namespace B3

/-- the two single-block kernels of `Platform` (`compress_in_place`, `compress_xof`), on words -/
structure Kern where
  cip : CV → St → UInt8 → UInt64 → UInt8 → CV
  cxof : CV → St → UInt8 → UInt64 → UInt8 → St

def Kern.spec : Kern where
  cip cv m bl t fl := first8 (Spec.compress cv m t bl.toUInt32 fl.toUInt32)
  cxof cv m bl t fl := Spec.compress cv m t bl.toUInt32 fl.toUInt32

namespace Rs
open Spec (Node CHUNK_START CHUNK_END PARENT ROOT)

variable (K : Kern)

/-- `Output::chaining_value` -/
def chain (o : Node) : CV := K.cip o.cv o.block (UInt8.ofNat o.blen) (UInt64.ofNat o.t) o.flags

/-- `Output::root_output_block` with the counter set to `k` -/
def rootBlock (o : Node) (k : Nat) : St := K.cxof o.cv o.block (UInt8.ofNat o.blen) (UInt64.ofNat k) (o.flags ||| ROOT)

/-- `Output::root_hash` (counter 0; the code has `debug_assert_eq!(self.counter, 0)`) -/
def rootHash (o : Node) : List UInt8 :=
  bytesOfWords (K.cip o.cv o.block (UInt8.ofNat o.blen) 0 (o.flags ||| ROOT))

/-- `struct ChunkState`; `buf` holds the `buf_len` bytes buffered so far (the rest of the real
64-byte buffer is zero: it is re-zeroed after every compression and only ever appended to) -/
structure ChunkState where
  cv : CV
  t : Nat
  buf : List UInt8
  blocks : Nat
  flags : UInt8
deriving DecidableEq

def ChunkState.new (key : CV) (t : Nat) (flags : UInt8) : ChunkState :=
  { cv := key, t := t, buf := [], blocks := 0, flags := flags }

def ChunkState.count (cs : ChunkState) : Nat := 64 * cs.blocks + cs.buf.length

def ChunkState.startFlag (cs : ChunkState) : UInt8 := if cs.blocks = 0 then CHUNK_START else 0

/-- `fill_buf`: returns the new state and the unconsumed input -/
def ChunkState.fillBuf (cs : ChunkState) (input : List UInt8) : ChunkState × List UInt8 :=
  let want := 64 - cs.buf.length
  let take := min want input.length
  ({ cs with buf := cs.buf ++ input.take take }, input.drop take)

/-- one `compress_in_place` of a full block into the chunk's chaining value -/
def ChunkState.compressBlock (cs : ChunkState) (block : List UInt8) : ChunkState :=
  { cs with cv := K.cip cs.cv (wordsOfBytes 16 block) 64 (UInt64.ofNat cs.t) (cs.flags ||| cs.startFlag),
            blocks := cs.blocks + 1 }

/-- the `while input.len() > BLOCK_LEN` loop of `ChunkState::update` -/
def ChunkState.blockLoop (cs : ChunkState) (input : List UInt8) : ChunkState × List UInt8 :=
  if h : 64 < input.length then
    ChunkState.blockLoop (cs.compressBlock K (input.take 64)) (input.drop 64)
  else (cs, input)
termination_by input.length
decreasing_by simp [List.length_drop]; omega

/-- `ChunkState::update` -/
def ChunkState.update (cs : ChunkState) (input : List UInt8) : ChunkState :=
  let (cs, input) :=
    if 0 < cs.buf.length then
      let (cs, input) := cs.fillBuf input
      if !input.isEmpty then ({ cs.compressBlock K cs.buf with buf := [] }, input) else (cs, input)
    else (cs, input)
  let (cs, input) := cs.blockLoop K input
  (cs.fillBuf input).1

/-- `ChunkState::output` -/
def ChunkState.output (cs : ChunkState) : Node :=
  { cv := cs.cv, block := wordsOfBytes 16 cs.buf, blen := cs.buf.length, t := cs.t,
    flags := cs.flags ||| cs.startFlag ||| CHUNK_END }

/-- `parent_node_output` -/
def parentOutput (key : CV) (flags : UInt8) (l r : CV) : Node :=
  { cv := key, block := catCV l r, blen := 64, t := 0, flags := flags ||| PARENT }

def parentCV (key : CV) (flags : UInt8) (l r : CV) : CV := chain K (parentOutput key flags l r)

/-- `portable::hash1` on an input that is a whole number of blocks: the loop
`while slice.len() >= BLOCK_LEN` with `flags_start` on the first and `flags_end` on the last block -/
def hash1Loop (t : Nat) (flags fend : UInt8) (cv : CV) (bflags : UInt8) (s : List UInt8) : CV :=
  if h : 64 ≤ s.length then
    let bflags := if s.length = 64 then bflags ||| fend else bflags
    hash1Loop t flags fend (K.cip cv (wordsOfBytes 16 (s.take 64)) 64 (UInt64.ofNat t) bflags) flags (s.drop 64)
  else cv
termination_by s.length
decreasing_by simp [List.length_drop]; omega

def hash1 (key : CV) (t : Nat) (flags fstart fend : UInt8) (s : List UInt8) : CV :=
  hash1Loop K t flags fend key (flags ||| fstart) s

/-- chaining value of one chunk through a fresh `ChunkState` (partial last chunk of
`compress_chunks_parallel`, single chunks in `update_with_join`) -/
def leafCS (key : CV) (flags : UInt8) (t : Nat) (s : List UInt8) : CV :=
  chain K ((ChunkState.new key t flags).update K s).output

/-- chaining value of one chunk as `compress_chunks_parallel` computes it: whole chunks go through
`hash_many` (one `hash1` per lane, counter incremented), the partial one through a `ChunkState` -/
def leafCV (key : CV) (flags : UInt8) (t : Nat) (s : List UInt8) : CV :=
  if s.length = 1024 then hash1 K key t flags CHUNK_START CHUNK_END s else leafCS K key flags t s

/-- `compress_subtree_wide` at SIMD degree `sd`: the list of chaining values written to `out` -/
def wide (key : CV) (flags : UInt8) (sd : Nat) (t : Nat) (input : List UInt8) : List CV :=
  Hs.wide (parentCV K key flags) 10 (leafCV K key flags) sd t input

/-- the `while num_cvs > 2` loop of `compress_subtree_to_parent_node` -/
def condense (key : CV) (flags : UInt8) (cvs : List CV) : List CV :=
  Hs.condense (parentCV K key flags) cvs

/-- `compress_subtree_to_parent_node`: the two children of the subtree's top parent node -/
def toParentNode (key : CV) (flags : UInt8) (sd : Nat) (t : Nat) (input : List UInt8) : CV × CV :=
  Hs.toPair (parentCV K key flags) key 10 (leafCV K key flags) sd t input

/-- `hash_all_at_once` -/
def hashAllAtOnce (key : CV) (flags : UInt8) (sd : Nat) (input : List UInt8) : Node :=
  if input.length ≤ 1024 then ((ChunkState.new key 0 flags).update K input).output
  else
    let p := toParentNode K key flags sd 0 input
    parentOutput key flags p.1 p.2

/-- key words as the crate's entry points compute them for each mode (`IV`,
`words_from_le_bytes_32(key)`, or the context key hashed with `DERIVE_KEY_CONTEXT`) -/
def modeKeyWords (sd : Nat) : Spec.Mode → CV
  | .hash => Spec.IV
  | .keyed k => wordsOfBytes 8 k
  | .derive ctx => wordsOfBytes 8 (rootHash K (hashAllAtOnce K Spec.IV Spec.DERIVE_KEY_CONTEXT sd ctx))

def modeFlags : Spec.Mode → UInt8
  | .hash => 0
  | .keyed _ => Spec.KEYED_HASH
  | .derive _ => Spec.DERIVE_KEY_MATERIAL

/-- the one-shot functions `hash`, `keyed_hash`, `derive_key` -/
def oneShot (sd : Nat) (mode : Spec.Mode) (m : List UInt8) : List UInt8 :=
  rootHash K (hashAllAtOnce K (modeKeyWords K sd mode) (modeFlags mode) sd m)

/-- `struct Hasher` (the platform is the pair `K`, `sd` of model parameters) -/
structure Hasher where
  key : CV
  cs : ChunkState
  t0 : Nat
  stack : List CV
deriving DecidableEq

def Hasher.newInternal (key : CV) (flags : UInt8) : Hasher :=
  { key := key, cs := ChunkState.new key 0 flags, t0 := 0, stack := [] }

/-- `Hasher::count` (the code computes `(chunk_counter - initial_chunk_counter) * 1024 + count`
in `u64`; `none` = the subtraction or the multiplication overflows, which panics in a build with
overflow checks) -/
def Hasher.count? (h : Hasher) : Option Nat :=
  if h.t0 ≤ h.cs.t ∧ (h.cs.t - h.t0) * 1024 + h.cs.count < 2 ^ 64 then
    some ((h.cs.t - h.t0) * 1024 + h.cs.count) else none

def Hasher.count (h : Hasher) : Nat := (h.cs.t - h.t0) * 1024 + h.cs.count

/-- `merge_cv_stack` -/
def Hasher.mergeCvStack (h : Hasher) (t : Nat) : Hasher :=
  { h with stack := Hs.mergeStack (parentCV K h.key h.cs.flags) h.key (St.popcount (t - h.t0)) h.stack }

/-- `push_cv` -/
def Hasher.pushCv (h : Hasher) (cv : CV) (t : Nat) : Hasher :=
  let h := h.mergeCvStack K t
  { h with stack := h.stack ++ [cv] }

/-- `u64::trailing_zeros` for a non-zero argument -/
def tz (n : Nat) : Nat := if h : n = 0 then 0 else if n % 2 = 1 then 0 else 1 + tz (n / 2)
decreasing_by omega

/-- `hazmat::max_subtree_len` on a chunk counter (`None` for 0) -/
def maxSubtreeLen (t0 : Nat) : Option Nat :=
  if t0 = 0 then none else some (2 ^ tz t0 * 1024)

/-- the view of a hasher on which the multi-chunk loop works -/
def Hasher.toH (h : Hasher) : Hs.H CV UInt8 := { stack := h.stack, cc := h.cs.t, tail := [], t0 := h.t0 }

/-- phases 2 and 3 of `update_with_join`: the chunk state is empty here -/
def Hasher.updateWhole (sd : Nat) (h : Hasher) (input : List UInt8) : Hasher :=
  -- phase 2: whole subtrees (`while input.len() > CHUNK_LEN`)
  let (hh, input) := Hs.loop (parentCV K h.key h.cs.flags) h.key 10 (leafCS K h.key h.cs.flags)
      (toParentNode K h.key h.cs.flags sd) h.toH input
  let h := { h with stack := hh.stack, cs := { h.cs with t := hh.cc } }
  -- phase 3: at most one chunk remains
  if !input.isEmpty then
    let h := { h with cs := h.cs.update K input }
    h.mergeCvStack K h.cs.t
  else h

/-- `update_with_join` after its assertion -/
def Hasher.updateOk (sd : Nat) (h : Hasher) (input : List UInt8) : Hasher :=
  -- phase 1: finish a partial chunk
  if 0 < h.cs.count then
    let want := 1024 - h.cs.count
    let take := min want input.length
    let h1 := { h with cs := h.cs.update K (input.take take) }
    let input := input.drop take
    if !input.isEmpty then
      let cv := chain K h1.cs.output
      let h2 := h1.pushCv K cv h1.cs.t
      Hasher.updateWhole K sd { h2 with cs := ChunkState.new h2.key (h2.cs.t + 1) h2.cs.flags } input
    else h1
  else Hasher.updateWhole K sd h input

/-- `update_with_join`; `none` = the `max_subtree_len` assertion fails (documented panic) -/
def Hasher.update (sd : Nat) (h : Hasher) (input : List UInt8) : Option Hasher :=
  let ok : Bool := match maxSubtreeLen h.t0 with
    | none => true
    | some mx => match h.count? with
      | none => false     -- `self.count()` overflows: panic
      | some c => decide (c ≤ mx ∧ input.length ≤ mx - c)
  if ok then some (h.updateOk K sd input) else none

/-- `final_output`: the loop `while num_cvs_remaining > 0` takes the stack entries from index
`num_cvs_remaining - 1` down to 0, i.e. it is a right fold over the first `rem` entries -/
def Hasher.finalOutput (h : Hasher) : Node :=
  if h.stack.isEmpty then h.cs.output
  else
    let n := h.stack.length
    let (out, rem) : Node × Nat :=
      if 0 < h.cs.count then (h.cs.output, n)
      else (parentOutput h.key h.cs.flags (h.stack.getD (n - 2) h.key) (h.stack.getD (n - 1) h.key), n - 2)
    (h.stack.take rem).foldr (fun cv out => parentOutput h.key h.cs.flags cv (chain K out)) out

/-- `Hasher::reset` -/
def Hasher.reset (h : Hasher) : Hasher :=
  { h with cs := ChunkState.new h.key 0 h.cs.flags, t0 := 0, stack := [] }

/-- hazmat `set_input_offset`; `none` = one of its two assertions fails -/
def Hasher.setInputOffset (h : Hasher) (offset : Nat) : Option Hasher :=
  if h.count? ≠ some 0 ∨ offset % 1024 ≠ 0 then none
  else some { h with cs := { h.cs with t := offset / 1024 }, t0 := offset / 1024 }

/-- `finalize`: `none` = the `initial_chunk_counter == 0` assertion fails -/
def Hasher.finalize (h : Hasher) : Option (List UInt8) :=
  if h.t0 ≠ 0 then none else some (rootHash K (h.finalOutput K))

/-- hazmat `finalize_non_root`; `none` = empty subtree (assertion) -/
def Hasher.finalizeNonRoot (h : Hasher) : Option CV :=
  match h.count? with
  | none => none
  | some c => if c = 0 then none else some (chain K (h.finalOutput K))

/-- `struct OutputReader` -/
structure OutputReader where
  inner : Node
  pwb : Nat          -- position_within_block
deriving DecidableEq

def OutputReader.new (o : Node) : OutputReader := { inner := o, pwb := 0 }

/-- `fill_one_block`: returns the bytes written and the new reader, for a destination of `want` bytes -/
def OutputReader.fillOneBlock (r : OutputReader) (want : Nat) : List UInt8 × OutputReader :=
  let block := bytesOfWords (rootBlock K r.inner r.inner.t)
  let avail := block.drop r.pwb
  let take := min want avail.length
  let pwb := r.pwb + take
  (avail.take take,
   if pwb = 64 then { inner := { r.inner with t := r.inner.t + 1 }, pwb := 0 } else { r with pwb := pwb })

/-- contract of `Platform::xof_many` (and its portable fallback loop): blocks `t … t+n-1` -/
def xofMany (o : Node) (t n : Nat) : List UInt8 :=
  (List.range n).flatMap fun i => bytesOfWords (rootBlock K o (t + i))

/-- first part of `fill`: if we are partway through a block, get to the block boundary -/
def OutputReader.fillFirst (r : OutputReader) (n : Nat) : List UInt8 × OutputReader × Nat :=
  if r.pwb ≠ 0 then
    let o := r.fillOneBlock K n
    (o.1, o.2, n - o.1.length)
  else ([], r, n)

/-- middle part: whole blocks through `xof_many` -/
def OutputReader.fillMiddle (r : OutputReader) (n : Nat) : List UInt8 × OutputReader × Nat :=
  if 0 < n / 64 then
    (xofMany K r.inner r.inner.t (n / 64), { r with inner := { r.inner with t := r.inner.t + n / 64 } }, n - n / 64 * 64)
  else ([], r, n)

/-- last part: a final partial block -/
def OutputReader.fillLast (r : OutputReader) (n : Nat) : List UInt8 × OutputReader :=
  if 0 < n then r.fillOneBlock K n else ([], r)

/-- `OutputReader::fill` for a buffer of `n` bytes -/
def OutputReader.fill (r : OutputReader) (n : Nat) : List UInt8 × OutputReader :=
  if n = 0 then ([], r) else
  let p1 := r.fillFirst K n
  let p2 := p1.2.1.fillMiddle K p1.2.2
  let p3 := p2.2.1.fillLast K p2.2.2
  (p1.1 ++ p2.1 ++ p3.1, p3.2)

def OutputReader.position (r : OutputReader) : Nat := r.inner.t * 64 + r.pwb

def OutputReader.setPosition (r : OutputReader) (p : Nat) : OutputReader :=
  { inner := { r.inner with t := p / 64 }, pwb := p % 64 }

inductive SeekFrom where
  | start (x : Nat)       -- u64
  | current (x : Int)     -- i64
  | «end» (x : Int)

/-- `impl Seek`: `none` = `Err(InvalidInput)`, reader unchanged -/
def OutputReader.seek (r : OutputReader) (pos : SeekFrom) : Option (OutputReader × Nat) :=
  let maxPos : Int := 2 ^ 64 - 1
  let target : Option Int := match pos with
    | .start x => some (x : Int)
    | .current x => some ((r.position : Int) + x)
    | .end _ => none
  match target with
  | none => none
  | some tp =>
    if tp < 0 then none
    else
      let r' := r.setPosition (min tp maxPos).toNat
      some (r', r'.position)

end Rs
end B3
