/-
Checked machine arithmetic used by the generated arithmetic helpers (Gen/Arith.lean).
u64 / usize values are `Nat`s below 2^64; every operation that can overflow returns `R.panic`
when it does (the harness builds the crate with overflow checks and debug assertions, so that is
what the real code does too).
-/
namespace B3

inductive R (α : Type) where
  | ok (a : α)
  | panic
deriving DecidableEq, Repr

instance : Monad R where
  pure := R.ok
  bind x f := match x with
    | .ok a => f a
    | .panic => .panic

namespace Arith

def W : Nat := 2 ^ 64

def cadd (a b : Nat) : R Nat := if a + b < W then .ok (a + b) else .panic
def csub (a b : Nat) : R Nat := if b ≤ a then .ok (a - b) else .panic
def cmul (a b : Nat) : R Nat := if a * b < W then .ok (a * b) else .panic
/-- `a << b` on u64: panics when the shift amount is >= 64 (bits shifted out are simply lost) -/
def cshl (a b : Nat) : R Nat := if b < 64 then .ok (a * 2 ^ b % W) else .panic
/-- C unsigned arithmetic: wraps modulo 2^64, never traps -/
def wadd (a b : Nat) : R Nat := if a + b < W then .ok (a + b) else .ok ((a + b) % W)
def wsub (a b : Nat) : R Nat := if b ≤ a then .ok (a - b) else .ok ((a + W - b) % W)
def wmul (a b : Nat) : R Nat := if a * b < W then .ok (a * b) else .ok (a * b % W)
/-- the same as plain functions (no monad), for generated code that never traps
(guarded like the monadic ones, so that the kernel never tries to evaluate `% 2^64` on an open term) -/
def w64add (a b : Nat) : Nat := if a + b < 18446744073709551616 then a + b else (a + b) % 18446744073709551616
def w64sub (a b : Nat) : Nat := if b ≤ a then a - b else (a + 18446744073709551616 - b % 18446744073709551616) % 18446744073709551616
def w64mul (a b : Nat) : Nat := if a * b < 18446744073709551616 then a * b else (a * b) % 18446744073709551616
def cdiv (a b : Nat) : R Nat := if b = 0 then .panic else .ok (a / b)
def cmod (a b : Nat) : R Nat := if b = 0 then .panic else .ok (a % b)

/-- smallest power of two >= n (`0` and `1` give 1) -/
def nextPow2 (n : Nat) : Nat := if n ≤ 1 then 1 else 2 ^ (Nat.log2 (n - 1) + 1)

/-- `u64::next_power_of_two`: panics (debug) when the result does not fit -/
def npow2 (n : Nat) : R Nat := if nextPow2 n < W then .ok (nextPow2 n) else .panic

/-- `u64::trailing_zeros` (64 for 0) -/
def tz (n : Nat) : Nat := if h : n = 0 then 64 else if n % 2 = 1 then 0 else 1 + tz (n / 2)
decreasing_by omega

/-- `u64::count_ones` -/
def popcnt (n : Nat) : Nat := if h : n = 0 then 0 else n % 2 + popcnt (n / 2)
decreasing_by omega

/-- index of the highest set bit (C `highest_one`, argument non-zero) -/
def highestOne (n : Nat) : Nat := Nat.log2 n

/-- `Vec::pop().unwrap()` / `ArrayVec::pop().unwrap()`: the last element and the rest; panics on an empty stack -/
def pop {α : Type} (s : List α) : R (α × List α) :=
  match s.getLast? with
  | some x => .ok (x, s.dropLast)
  | none => .panic

/-- slice indexing `s[i]`: panics when out of bounds -/
def getIdx {α : Type} (s : List α) (i : Nat) : R α :=
  match s[i]? with
  | some x => .ok x
  | none => .panic

def assertEq (a b : Nat) : R Unit := if a = b then .ok () else .panic
def assertTrue (c : Bool) : R Unit := if c then .ok () else .panic

end Arith
end B3
