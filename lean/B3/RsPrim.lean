/-
Primitive vocabulary of the statement-level translation of the state machines of src/lib.rs
(`Gen/RsState.lean`, translator `gen/ext_cs.py`): checked `u8` arithmetic, slices and sub-slices with
Rust's bounds checks, `copy_from_slice` into a window of an array, and a `&mut [u8]` destination that
is advanced by re-borrowing its tail.  Everything that can panic in a release build with overflow
checks returns `R.panic` (monad `R` of `B3/Arith.lean`).  Hand-written, trusted like `Arith.lean`.
-/
import B3.Arith
namespace B3.RsPrim
open B3

/-- `u8 + u8` with overflow checks -/
def cadd8 (a b : UInt8) : R UInt8 := if a.toNat + b.toNat < 256 then .ok (a + b) else .panic
/-- `u8 - u8` with overflow checks -/
def csub8 (a b : UInt8) : R UInt8 := if b.toNat ≤ a.toNat then .ok (a - b) else .panic
/-- `u8 * u8` with overflow checks -/
def cmul8 (a b : UInt8) : R UInt8 := if a.toNat * b.toNat < 256 then .ok (a * b) else .panic

/-- `x as u8` for a `usize` / `u64` value: truncation to the low eight bits -/
def asU8 (n : Nat) : UInt8 := UInt8.ofNat n

/-- `&s[a..]` -/
def sliceFrom {α : Type} (s : List α) (a : Nat) : R (List α) := if a ≤ s.length then .ok (s.drop a) else .panic
/-- `&s[..b]` -/
def sliceTo {α : Type} (s : List α) (b : Nat) : R (List α) := if b ≤ s.length then .ok (s.take b) else .panic
/-- `&s[a..b]` -/
def sliceRange {α : Type} (s : List α) (a b : Nat) : R (List α) :=
  if a ≤ b ∧ b ≤ s.length then .ok ((s.take b).drop a) else .panic
/-- `array_ref!(s, off, len)` = `&s[off..off + len]` as an array reference -/
def arrayRef {α : Type} (s : List α) (off len : Nat) : R (List α) :=
  if off + len ≤ s.length then .ok ((s.drop off).take len) else .panic

/-- a window of an array or slice that is the target of a write: offset and length -/
structure Win where
  off : Nat
  len : Nat
deriving DecidableEq, Repr

/-- the whole of `s` -/
def Win.all {α : Type} (s : List α) : Win := ⟨0, s.length⟩
/-- `w[a..]` -/
def Win.from (w : Win) (a : Nat) : R Win := if a ≤ w.len then .ok ⟨w.off + a, w.len - a⟩ else .panic
/-- `w[..b]` -/
def Win.to (w : Win) (b : Nat) : R Win := if b ≤ w.len then .ok ⟨w.off, b⟩ else .panic
/-- `w[a..b]` -/
def Win.range (w : Win) (a b : Nat) : R Win := if a ≤ b ∧ b ≤ w.len then .ok ⟨w.off + a, b - a⟩ else .panic

/-- `s[window].copy_from_slice(src)`: panics when the lengths differ -/
def copyFromSlice {α : Type} (s : List α) (w : Win) (src : List α) : R (List α) :=
  if src.length = w.len then .ok (s.take w.off ++ src ++ s.drop (w.off + w.len)) else .panic

/-- a `&mut [u8]` destination: `cur` is the slice the variable currently denotes, `done` the bytes
of the caller's buffer that lie before it (left behind by `buf = &mut buf[n..]`).  The caller's
buffer is `done ++ cur` at every moment. -/
structure MutSlice where
  done : List UInt8
  cur : List UInt8
deriving DecidableEq, Repr

def MutSlice.len (b : MutSlice) : Nat := b.cur.length
def MutSlice.isEmpty (b : MutSlice) : Bool := b.cur.isEmpty
/-- `buf = &mut buf[n..]` (also `*buf = &mut core::mem::take(buf)[n..]`) -/
def MutSlice.advance (b : MutSlice) (n : Nat) : R MutSlice :=
  if n ≤ b.cur.length then .ok ⟨b.done ++ b.cur.take n, b.cur.drop n⟩ else .panic
/-- `buf[window].copy_from_slice(src)`, and a callee that fills `&mut buf[window]` with `src` -/
def MutSlice.write (b : MutSlice) (w : Win) (src : List UInt8) : R MutSlice :=
  match copyFromSlice b.cur w src with
  | .ok c => .ok { b with cur := c }
  | .panic => .panic

def assertNe (a b : Nat) : R Unit := if a ≠ b then .ok () else .panic

end B3.RsPrim
