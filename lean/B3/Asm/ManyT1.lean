/- the 1-input tail of `blake3_hash_many_sse41` (instructions 1640..1745 of the generated list), evaluated in the kernel on the
frame machine, piece by piece (same cuts as the single-block routine `blake3_compress_in_place_sse41`, whose round it repeats):
  1640..1650  key rows, the counter row from lane 0 of the counter vectors, ROT8 / ROT16, the input pointer, `eax`, `edx := 0`
  1651..1672  flags word of the block, `rdx += 64`, IV row, counter row with the flags, the block loaded and grouped, `mov al, 7`
  1673..1718  one round on the rows             1719 `dec al`      1720 `jz 9f`
  1721..1737  message permutation, `jmp 9b`     1738..1741 feed-forward, `mov eax, r13d`, `cmp rdx, r15`   1742 `jne 2b`
  1743..1745  two stores at `[rbx]`, `jmp 4b` -/
import B3.Asm.ManyViews
import B3.Asm.ManyGpr
namespace B3.AsmSem.Many
open B3 B3.Simd B3.AsmSem B3.Gen.AsmSse41Many

/-- everything but the scratch registers XMM8 .. XMM12 -/
structure TView where
  x0 : V4
  x1 : V4
  x2 : V4
  x3 : V4
  x4 : V4
  x5 : V4
  x6 : V4
  x7 : V4
  x13 : V4
  x14 : V4
  x15 : V4
  gpr : Vector UInt64 16
  zf : Bool
  cf : Bool
  frame : Vector V4 22
  mem : Memory
  pc : Nat
  status : Status
  ok : Bool
  log : List Ref
  spOk : Bool

def tview (a : FState) : TView :=
  ⟨a.s.xmm[0], a.s.xmm[1], a.s.xmm[2], a.s.xmm[3], a.s.xmm[4], a.s.xmm[5], a.s.xmm[6], a.s.xmm[7], a.s.xmm[13], a.s.xmm[14],
   a.s.xmm[15], a.s.gpr, a.s.zf, a.s.cf, a.s.mem.frame, a.s.mem.mem, a.s.pc, a.s.status, a.s.ok, a.log, a.spOk⟩

theorem of_tview {a : FState} {v : TView} (h : tview a = v) :
    a = ⟨⟨#v[v.x0, v.x1, v.x2, v.x3, v.x4, v.x5, v.x6, v.x7, a.s.xmm[8], a.s.xmm[9], a.s.xmm[10], a.s.xmm[11], a.s.xmm[12],
            v.x13, v.x14, v.x15], v.gpr, v.zf, v.cf, ⟨v.frame, v.mem⟩, v.pc, v.status, v.ok⟩, v.log, v.spOk⟩ := by
  subst h
  obtain ⟨⟨x, g, z, c, ⟨F, m⟩, p, st, ok⟩, l, b⟩ := a
  simp only [tview]
  congr 2
  exact vec16_eta x

theorem run_of_tview {rb : UInt64} {n : Nat} {s : StateG FMem} {x0 x1 x2 x3 x4 x5 x6 x7 x13 x14 x15 : V4} {g : Vector UInt64 16}
    {z c : Bool} {F : Vector V4 22} {m : Memory} {pc : Nat} {l : List Ref}
    (h : tview (frun rodata rb hash_many n ⟨s, [], true⟩)
      = ⟨x0, x1, x2, x3, x4, x5, x6, x7, x13, x14, x15, g, z, c, F, m, pc, .running, true, l, true⟩) :
    ∃ j8 j9 j10 j11 j12, Run rodata rb hash_many n s l
      (mkS #v[x0, x1, x2, x3, x4, x5, x6, x7, j8, j9, j10, j11, j12, x13, x14, x15] g z c F m pc) :=
  ⟨_, _, _, _, _, of_tview h⟩

/-! ### 1640..1650 -/

def t1SetupLog (gcx gdi gbp : UInt64) : List Ref :=
  [(false, gcx + dispU 0, 16), (false, gcx + dispU 16, 16), (false, gdi + dispU 0, 8), (false, gbp + dispU 64, 1)]

theorem t1_setup_raw (rb : UInt64) (x0 x1 x2 x3 x4 x5 x6 x7 x8 x9 x10 x11 x12 x13 x14 x15 : V4) (g0 g1 g2 g3 g4 g5 g6 g7 g8 g9 g10 g11 g12 g13 g14 g15 : UInt64) (z c : Bool) (f0 f1 f2 f3 f4 f5 f6 f7 f8 f9 f10 f11 f12 f13 f14 f15 f16 f17 f18 f19 f20 f21 : V4) (m : Memory) :
    frun rodata rb hash_many 11 ⟨mkS #v[x0, x1, x2, x3, x4, x5, x6, x7, x8, x9, x10, x11, x12, x13, x14, x15] #v[g0, g1, g2, g3, g4, g5, g6, g7, g8, g9, g10, g11, g12, g13, g14, g15] z c #v[f0, f1, f2, f3, f4, f5, f6, f7, f8, f9, f10, f11, f12, f13, f14, f15, f16, f17, f18, f19, f20, f21] m 1640, [], true⟩
      = ⟨mkS #v[load128 m (g1 + dispU 0), load128 m (g1 + dispU 16), x2, x3, x4, x5, x6, x7, x8, x9, x10, x11, x12, #v[f17[0], f18[0], 64, 0], ROT8, ROT16]
          #v[headRax m g5 g13, g1, trunc .d32 (trunc .d32 g2 ^^^ trunc .d32 g2), g3, g4, g5, g6, g7, load64 m (g7 + dispU 0), g9, g10, g11, g12, g13, g14, g15]
          (trunc .d32 g2 ^^^ trunc .d32 g2 == 0) false #v[f0, f1, f2, f3, f4, f5, f6, f7, f8, f9, f10, f11, f12, f13, f14, f15, f16, f17, f18, f19, f20, f21] m 1651,
         t1SetupLog g1 g7 g5, true⟩ := by
  kernel_rfl

/-! ### 1651..1672 -/

/-- the grouped message words as the loads and shuffles leave them (`p` = `r8 + rdx`) -/
def t1Grp0 (m : Memory) (p : UInt64) : V4 := #v[m.word (p + dispU (-64)), m.word (p + dispU (-64) + 8), m.word (p + dispU (-48)), m.word (p + dispU (-48) + 8)]
def t1Grp1 (m : Memory) (p : UInt64) : V4 := #v[m.word (p + dispU (-64) + 4), m.word (p + dispU (-64) + 12), m.word (p + dispU (-48) + 4), m.word (p + dispU (-48) + 12)]
def t1Grp2 (m : Memory) (p : UInt64) : V4 := #v[m.word (p + dispU (-16) + 8), m.word (p + dispU (-32)), m.word (p + dispU (-32) + 8), m.word (p + dispU (-16))]
def t1Grp3 (m : Memory) (p : UInt64) : V4 := #v[m.word (p + dispU (-16) + 12), m.word (p + dispU (-32) + 4), m.word (p + dispU (-32) + 12), m.word (p + dispU (-16) + 4)]

def t1HeadLog (p : UInt64) : List Ref :=
  [(false, p + dispU (-64), 16), (false, p + dispU (-48), 16), (false, p + dispU (-32), 16), (false, p + dispU (-16), 16)]

theorem t1_head_raw (rb : UInt64) (c0 c1 x2 x3 x4 x5 x6 x7 x8 x9 x10 x11 x12 x14 x15 : V4) (lo hi bl j3 : UInt32) (g0 g1 g2 g3 g4 g5 g6 g7 g8 g9 g10 g11 g12 g13 g14 g15 : UInt64) (z c : Bool)
    (F : Vector V4 22) (m : Memory) :
    tview (frun rodata rb hash_many 22 ⟨mkS #v[c0, c1, x2, x3, x4, x5, x6, x7, x8, x9, x10, x11, x12, #v[lo, hi, bl, j3], x14, x15]
        #v[g0, g1, g2, g3, g4, g5, g6, g7, g8, g9, g10, g11, g12, g13, g14, g15] z c F m 1651, [], true⟩)
      = ⟨c0, c1, BLAKE3_IV, #v[lo, hi, bl, (p0Rax g0 g12 (lastBlock g2 g15)).toUInt32],
         t1Grp0 m (g8 + (g2 + UInt64.ofNat 64)), t1Grp1 m (g8 + (g2 + UInt64.ofNat 64)), t1Grp2 m (g8 + (g2 + UInt64.ofNat 64)),
         t1Grp3 m (g8 + (g2 + UInt64.ofNat 64)), #v[lo, hi, bl, j3], x14, x15,
         #v[merge .b8 (p0Rax g0 g12 (lastBlock g2 g15)) (UInt64.ofNat 7), g1, g2 + UInt64.ofNat 64, g3, g4, g5, g6, g7, g8, g9, g10, g11, g12, g13, trunc .d32 (trunc .d32 g0), g15],
         lastBlock g2 g15, decide (g2 + UInt64.ofNat 64 < g15), F, m, 1673, .running, true,
         t1HeadLog (g8 + (g2 + UInt64.ofNat 64)), true⟩ := by
  kernel_rfl

/-! ### 1673..1718: one round -/

theorem t1_round_raw (rb : UInt64) (S W : St) (j8 j9 j10 j11 j12 x13 : V4) (g : Vector UInt64 16) (z c : Bool) (F : Vector V4 22)
    (m : Memory) :
    tview (frun rodata rb hash_many 46 ⟨mkS #v[row S 0, row S 1, row S 2, row S 3, grp0 W, grp1 W, grp2 W, grp3 W, j8, j9, j10, j11, j12,
        x13, ROT8, ROT16] g z c F m 1673, [], true⟩)
      = ⟨row (roundP a16 a12 a8 a7 (eta16 S) (fun i => (eta16 W)[i])) 0, row (roundP a16 a12 a8 a7 (eta16 S) (fun i => (eta16 W)[i])) 1,
         row (roundP a16 a12 a8 a7 (eta16 S) (fun i => (eta16 W)[i])) 2, row (roundP a16 a12 a8 a7 (eta16 S) (fun i => (eta16 W)[i])) 3,
         grp0 W, grp1 W, grp2 W, grp3 W, x13, ROT8, ROT16, g, z, c, F, m, 1719, .running, true, [], true⟩ := by
  kernel_rfl

/-! ### 1719, 1720 -/

theorem t1_dec (rb : UInt64) (x : Vector V4 16) (g : Vector UInt64 16) (z c : Bool) (F : Vector V4 22) (m : Memory) :
    frun rodata rb hash_many 1 ⟨mkS x g z c F m 1719, [], true⟩
      = ⟨mkS x (decAl g) (trunc .b8 (trunc .b8 g[rax] - 1) == 0) c F m 1720, [], true⟩ := by
  kernel_rfl

theorem t1_jz_taken (rb : UInt64) (x : Vector V4 16) (g : Vector UInt64 16) (c : Bool) (F : Vector V4 22) (m : Memory) :
    frun rodata rb hash_many 1 ⟨mkS x g true c F m 1720, [], true⟩ = ⟨mkS x g true c F m 1738, [], true⟩ := by
  kernel_rfl

theorem t1_jz_not_taken (rb : UInt64) (x : Vector V4 16) (g : Vector UInt64 16) (c : Bool) (F : Vector V4 22) (m : Memory) :
    frun rodata rb hash_many 1 ⟨mkS x g false c F m 1720, [], true⟩ = ⟨mkS x g false c F m 1721, [], true⟩ := by
  kernel_rfl

/-! ### 1721..1737: the message permutation -/

theorem t1_perm_raw (rb : UInt64) (r0 r1 r2 r3 : V4) (W : St) (j8 j9 j10 j11 j12 x13 x14 x15 : V4) (g : Vector UInt64 16) (z c : Bool)
    (F : Vector V4 22) (m : Memory) :
    tview (frun rodata rb hash_many 17 ⟨mkS #v[r0, r1, r2, r3, grp0 W, grp1 W, grp2 W, grp3 W, j8, j9, j10, j11, j12, x13, x14, x15]
        g z c F m 1721, [], true⟩)
      = ⟨r0, r1, r2, r3, grp0 (Spec.permute (eta16 W)), grp1 (Spec.permute (eta16 W)), grp2 (Spec.permute (eta16 W)),
         grp3 (Spec.permute (eta16 W)), x13, x14, x15, g, z, c, F, m, 1673, .running, true, [], true⟩ := by
  kernel_rfl

/-! ### 1738..1742 -/

theorem t1_exit_raw (rb : UInt64) (x0 x1 x2 x3 x4 x5 x6 x7 x8 x9 x10 x11 x12 x13 x14 x15 : V4) (g0 g1 g2 g3 g4 g5 g6 g7 g8 g9 g10 g11 g12 g13 g14 g15 : UInt64) (z c : Bool) (F : Vector V4 22) (m : Memory) :
    frun rodata rb hash_many 4 ⟨mkS #v[x0, x1, x2, x3, x4, x5, x6, x7, x8, x9, x10, x11, x12, x13, x14, x15] #v[g0, g1, g2, g3, g4, g5, g6, g7, g8, g9, g10, g11, g12, g13, g14, g15] z c F m 1738, [], true⟩
      = ⟨mkS #v[_mm_xor_si128 x0 x2, _mm_xor_si128 x1 x3, x2, x3, x4, x5, x6, x7, x8, x9, x10, x11, x12, x13, x14, x15] #v[trunc .d32 (trunc .d32 g13), g1, g2, g3, g4, g5, g6, g7, g8, g9, g10, g11, g12, g13, g14, g15]
          (g2 - g15 == 0) (decide (g2 < g15)) F m 1742, [], true⟩ := by
  kernel_rfl

theorem t1_jnz_taken (rb : UInt64) (x : Vector V4 16) (g : Vector UInt64 16) (c : Bool) (F : Vector V4 22) (m : Memory) :
    frun rodata rb hash_many 1 ⟨mkS x g false c F m 1742, [], true⟩ = ⟨mkS x g false c F m 1651, [], true⟩ := by
  kernel_rfl

theorem t1_jnz_not_taken (rb : UInt64) (x : Vector V4 16) (g : Vector UInt64 16) (c : Bool) (F : Vector V4 22) (m : Memory) :
    frun rodata rb hash_many 1 ⟨mkS x g true c F m 1742, [], true⟩ = ⟨mkS x g true c F m 1743, [], true⟩ := by
  kernel_rfl

/-! ### 1743..1745 -/

theorem t1_store_raw (rb : UInt64) (x0 x1 x2 x3 x4 x5 x6 x7 x8 x9 x10 x11 x12 x13 x14 x15 : V4) (g : Vector UInt64 16) (z c : Bool) (F : Vector V4 22) (m : Memory) :
    frun rodata rb hash_many 3 ⟨mkS #v[x0, x1, x2, x3, x4, x5, x6, x7, x8, x9, x10, x11, x12, x13, x14, x15] g z c F m 1743, [], true⟩
      = ⟨mkS #v[x0, x1, x2, x3, x4, x5, x6, x7, x8, x9, x10, x11, x12, x13, x14, x15] g z c F (store128 (store128 m (g[rbx] + dispU 0) x0) (g[rbx] + dispU 16) x1) 1413,
         [(true, g[rbx] + dispU 0, 16), (true, g[rbx] + dispU 16, 16)], true⟩ := by
  kernel_rfl

/-! ### 1638, 1639 -/

theorem t1_test (rb : UInt64) (x : Vector V4 16) (g0 g1 g2 g3 g4 g5 g6 g7 g8 g9 g10 g11 g12 g13 g14 g15 : UInt64) (z c : Bool) (F : Vector V4 22) (m : Memory) :
    frun rodata rb hash_many 1 ⟨mkS x #v[g0, g1, g2, g3, g4, g5, g6, g7, g8, g9, g10, g11, g12, g13, g14, g15] z c F m 1638, [], true⟩
      = ⟨mkS x #v[g0, g1, g2, g3, g4, g5, g6, g7, g8, g9, g10, g11, g12, g13, g14, g15] (trunc .d32 g6 &&& trunc .d32 (UInt64.ofNat 1) == 0) false F m 1639, [], true⟩ := by
  kernel_rfl

theorem t1_skip (rb : UInt64) (x : Vector V4 16) (g : Vector UInt64 16) (c : Bool) (F : Vector V4 22) (m : Memory) :
    frun rodata rb hash_many 1 ⟨mkS x g true c F m 1639, [], true⟩ = ⟨mkS x g true c F m 1413, [], true⟩ := by
  kernel_rfl

theorem t1_enter (rb : UInt64) (x : Vector V4 16) (g : Vector UInt64 16) (c : Bool) (F : Vector V4 22) (m : Memory) :
    frun rodata rb hash_many 1 ⟨mkS x g false c F m 1639, [], true⟩ = ⟨mkS x g false c F m 1640, [], true⟩ := by
  kernel_rfl

end B3.AsmSem.Many
