/-
`blake3_compress_xof_sse2` (generated instruction list `B3.Gen.AsmSse2.compress_xof`): the machine
semantics executed symbolically on each straight-line piece of the routine, cut BY POSITION:
  0..24   prologue (`movzx eax, r8b; movzx edx, dl` first)     25..78  one round (54 instructions)
  79 `dec al`   80 `jz 9f`    81..102 message permutation + `jmp 9b`
  103..113 reload cv, feed-forward, four stores at r9, `ret`
Same method as B3/Asm/Sse2Body.lean.
-/
import B3.Asm.Sse2Body
namespace B3.AsmSem.Sse2Xof
open B3 B3.Simd B3.AsmSem B3.Gen.AsmSse2 B3.AsmSem.Sse2

theorem prologue_raw (rb : UInt64) (x0 x1 x2 x3 x4 x5 x6 x7 x8 x9 x10 x11 x12 x13 x14 x15 : V4)
    (g0 g1 g2 g3 g4 g5 g6 g7 g8 g9 g10 g11 g12 g13 g14 g15 : UInt64) (z : Bool) (m : Memory) :
    view2 (run rb compress_xof 25
      ⟨#v[x0, x1, x2, x3, x4, x5, x6, x7, x8, x9, x10, x11, x12, x13, x14, x15],
       #v[g0, g1, g2, g3, g4, g5, g6, g7, g8, g9, g10, g11, g12, g13, g14, g15], z, m, 0, .running, true⟩)
    = ⟨load128 m (g7 + UInt64.ofNat 0), load128 m (g7 + UInt64.ofNat 16), load128 m (rb + UInt64.ofNat 0),
       #v[g1.toUInt32, (g1 >>> 32).toUInt32, (lenFlagsRaw g2 g8).toUInt32, (lenFlagsRaw g2 g8 >>> 32).toUInt32],
       grp0 (blockRaw m g6), grp1 (blockRaw m g6), grp2 (blockRaw m g6), grp3 (blockRaw m g6),
       #v[merge .b8 (trunc .d32 (trunc .b8 g8) <<< 32) 7, g1, lenFlagsRaw g2 g8, g3, g4, g5, g6, g7, g8, g9, g10, g11, g12, g13, g14, g15],
       m, 25, .running, true && aligned16 (rb + UInt64.ofNat 0)⟩ := by
  kernel_rfl

theorem body_raw (rb : UInt64) (S W : St) (j8 j9 j10 j11 j12 j13 j14 j15 : V4) (g : Vector UInt64 16) (z : Bool) (m : Memory) :
    view2 (run rb compress_xof 54
      ⟨#v[row S 0, row S 1, row S 2, row S 3, grp0 W, grp1 W, grp2 W, grp3 W, j8, j9, j10, j11, j12, j13, j14, j15],
       g, z, m, 25, .running, true⟩)
    = ⟨row (roundP s16 s12 s8 s7 S (fun i => W[i])) 0, row (roundP s16 s12 s8 s7 S (fun i => W[i])) 1,
       row (roundP s16 s12 s8 s7 S (fun i => W[i])) 2, row (roundP s16 s12 s8 s7 S (fun i => W[i])) 3,
       grp0 W, grp1 W, grp2 W, grp3 W, g, m, 79, .running, true⟩ := by
  atoms16 S; atoms16 W
  kernel_rfl

theorem dec_raw (rb : UInt64) (x : Vector V4 16) (g : Vector UInt64 16) (z : Bool) (m : Memory) (ok : Bool) :
    step rb compress_xof ⟨x, g, z, m, 79, .running, ok⟩
      = ⟨x, decAl g, trunc .b8 (trunc .b8 g[rax] - 1) == 0, m, 80, .running, ok⟩ := by
  kernel_rfl

theorem jz_taken (rb : UInt64) (x : Vector V4 16) (g : Vector UInt64 16) (m : Memory) (ok : Bool) :
    step rb compress_xof ⟨x, g, true, m, 80, .running, ok⟩ = ⟨x, g, true, m, 103, .running, ok⟩ := by
  kernel_rfl

theorem jz_not_taken (rb : UInt64) (x : Vector V4 16) (g : Vector UInt64 16) (m : Memory) (ok : Bool) :
    step rb compress_xof ⟨x, g, false, m, 80, .running, ok⟩ = ⟨x, g, false, m, 81, .running, ok⟩ := by
  kernel_rfl

/-- instructions 79..100 with whatever the four mask loads return -/
theorem perm_raw (rb : UInt64) (r0 r1 r2 r3 m0 m1 m2 m3 : V4) (j8 j9 j10 j11 j12 j13 j14 j15 : V4)
    (g : Vector UInt64 16) (z : Bool) (m : Memory) :
    view2 (run rb compress_xof 22
      ⟨#v[r0, r1, r2, r3, m0, m1, m2, m3, j8, j9, j10, j11, j12, j13, j14, j15], g, z, m, 81, .running, true⟩)
    = ⟨r0, r1, r2, r3,
       (permMasked m0 m1 m2 m3 (load128 m (rb + UInt64.ofNat 144)) (load128 m (rb + UInt64.ofNat 160))
          (load128 m (rb + UInt64.ofNat 176)) (load128 m (rb + UInt64.ofNat 192))).1,
       (permMasked m0 m1 m2 m3 (load128 m (rb + UInt64.ofNat 144)) (load128 m (rb + UInt64.ofNat 160))
          (load128 m (rb + UInt64.ofNat 176)) (load128 m (rb + UInt64.ofNat 192))).2.1,
       (permMasked m0 m1 m2 m3 (load128 m (rb + UInt64.ofNat 144)) (load128 m (rb + UInt64.ofNat 160))
          (load128 m (rb + UInt64.ofNat 176)) (load128 m (rb + UInt64.ofNat 192))).2.2.1,
       (permMasked m0 m1 m2 m3 (load128 m (rb + UInt64.ofNat 144)) (load128 m (rb + UInt64.ofNat 160))
          (load128 m (rb + UInt64.ofNat 176)) (load128 m (rb + UInt64.ofNat 192))).2.2.2,
       g, m, 25, .running,
       (((true && aligned16 (rb + UInt64.ofNat 144)) && aligned16 (rb + UInt64.ofNat 160)) && aligned16 (rb + UInt64.ofNat 176))
         && aligned16 (rb + UInt64.ofNat 192)⟩ := by
  kernel_rfl

theorem epilogue_raw (rb : UInt64) (r0 r1 r2 r3 m0 m1 m2 m3 j8 j9 j10 j11 j12 j13 j14 j15 : V4)
    (g : Vector UInt64 16) (z : Bool) (m : Memory) :
    view2 (run rb compress_xof 11
      ⟨#v[r0, r1, r2, r3, m0, m1, m2, m3, j8, j9, j10, j11, j12, j13, j14, j15], g, z, m, 103, .running, true⟩)
    = ⟨_mm_xor_si128 r0 r2, _mm_xor_si128 r1 r3, _mm_xor_si128 r2 (load128 m (g[rdi] + UInt64.ofNat 0)),
       _mm_xor_si128 r3 (load128 m (g[rdi] + UInt64.ofNat 16)),
       load128 m (g[rdi] + UInt64.ofNat 0), load128 m (g[rdi] + UInt64.ofNat 16), m2, m3,
       g.set rsp (g[rsp] + 8),
       store128 (store128 (store128 (store128 m (g[r9] + UInt64.ofNat 0) (_mm_xor_si128 r0 r2))
         (g[r9] + UInt64.ofNat 16) (_mm_xor_si128 r1 r3))
         (g[r9] + UInt64.ofNat 32) (_mm_xor_si128 r2 (load128 m (g[rdi] + UInt64.ofNat 0))))
         (g[r9] + UInt64.ofNat 48) (_mm_xor_si128 r3 (load128 m (g[rdi] + UInt64.ofNat 16))),
       113, .returned, true⟩ := by
  kernel_rfl

end B3.AsmSem.Sse2Xof
