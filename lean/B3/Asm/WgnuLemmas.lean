/-
Routine-independent facts for the Windows-GNU flavours of the compress routines (semantics
`B3/Asm/WinSem.lean`): running, the sticky fault flag, the tracked part of the state (now including
the callee-saved XMM registers the routines never touch), the counted loop, and the stack frame:
non-overlap of byte ranges (`Apart`), the seven stores of the prologue as one `writeBytes`, reading
the frame back, reading through the frame (cv / block / tables / stack arguments lie elsewhere),
alignment of the frame, and the general purpose registers at the end.
-/
import B3.Asm.Compress
import B3.Asm.WinSem
namespace B3.AsmSem.Win
open B3 B3.Simd B3.AsmSem

/-! ### running -/

theorem run_add (rb : UInt64) (p : List WInstr) (a b : Nat) (s : State) :
    run rb p (a + b) s = run rb p b (run rb p a s) := by
  induction a generalizing s with
  | zero => simp [run]
  | succ n ih => rw [Nat.add_right_comm]; exact ih _

theorem run_returned (rb : UInt64) (p : List WInstr) (n : Nat) (s : State) (h : s.status = .returned) :
    run rb p n s = s := by
  induction n with
  | zero => rfl
  | succ n ih =>
    show run rb p n (step rb p s) = s
    have : step rb p s = s := by unfold step; rw [h]
    rw [this, ih]

/-! ### the fault flag is sticky -/

theorem exec_ok_mono (rb : UInt64) (i : WInstr) (s : State) (h : (exec rb i s).ok = true) : s.ok = true := by
  cases i with
  | base i => exact AsmSem.exec_ok_mono rb i s h
  | sub_ri d k => exact h
  | add_ri d k => exact h
  | movzx_rm8 d b disp => exact h
  | mov_rm64 d b disp => exact h

theorem step_ok_mono (rb : UInt64) (prog : List WInstr) (s : State) (h : (step rb prog s).ok = true) : s.ok = true := by
  unfold step at h
  split at h
  · exact h
  · split at h
    · exact exec_ok_mono _ _ _ h
    · simp at h

theorem run_ok_mono (rb : UInt64) (prog : List WInstr) (n : Nat) (s : State) (h : (run rb prog n s).ok = true) : s.ok = true := by
  induction n generalizing s with
  | zero => exact h
  | succ n ih => exact step_ok_mono _ _ _ (ih _ h)

/-- `ok = true` at the end means that no step of the run faulted -/
theorem run_ok_prefix (rb : UInt64) (prog : List WInstr) (a b : Nat) (s : State) (h : (run rb prog (a + b) s).ok = true) :
    (run rb prog a s).ok = true := by
  rw [run_add] at h
  exact run_ok_mono _ _ _ _ h

/-! ### the tracked part of the machine state

The Win64 convention makes XMM6-15 callee-saved.  The routines save / restore XMM6-9, 11, 14, 15 and never touch
XMM10, 12, 13: these three are tracked through the loop (`k10 k12 k13`), XMM8, 9, 11 (and ZF) are scratch. -/

/-- SSE4.1: everything but XMM8, 9, 11 and ZF (XMM14/15 hold the two rotation tables inside the loop) -/
structure WView where
  r0 : V4
  r1 : V4
  r2 : V4
  r3 : V4
  m0 : V4
  m1 : V4
  m2 : V4
  m3 : V4
  k10 : V4
  k12 : V4
  k13 : V4
  t14 : V4
  t15 : V4
  gpr : Vector UInt64 16
  mem : Memory
  pc : Nat
  status : Status
  ok : Bool

def wview (s : State) : WView :=
  ⟨s.xmm[0], s.xmm[1], s.xmm[2], s.xmm[3], s.xmm[4], s.xmm[5], s.xmm[6], s.xmm[7], s.xmm[10], s.xmm[12], s.xmm[13],
   s.xmm[14], s.xmm[15], s.gpr, s.mem, s.pc, s.status, s.ok⟩

theorem of_wview {s : State} {v : WView} (h : wview s = v) :
    s = ⟨#v[v.r0, v.r1, v.r2, v.r3, v.m0, v.m1, v.m2, v.m3, s.xmm[8], s.xmm[9], v.k10, s.xmm[11], v.k12, v.k13,
          v.t14, v.t15], v.gpr, s.zf, v.mem, v.pc, v.status, v.ok⟩ := by
  subst h
  cases s with
  | mk x g z m p st ok =>
    simp only [wview]
    congr 1
    exact vec16_eta x

/-- SSE2 (no table is kept in a register; XMM14 is a scratch register, XMM15 is saved and restored but never
written in between): everything but XMM8, 9, 11, 14 and ZF -/
structure WView2 where
  r0 : V4
  r1 : V4
  r2 : V4
  r3 : V4
  m0 : V4
  m1 : V4
  m2 : V4
  m3 : V4
  k10 : V4
  k12 : V4
  k13 : V4
  k15 : V4
  gpr : Vector UInt64 16
  mem : Memory
  pc : Nat
  status : Status
  ok : Bool

def wview2 (s : State) : WView2 :=
  ⟨s.xmm[0], s.xmm[1], s.xmm[2], s.xmm[3], s.xmm[4], s.xmm[5], s.xmm[6], s.xmm[7], s.xmm[10], s.xmm[12], s.xmm[13],
   s.xmm[15], s.gpr, s.mem, s.pc, s.status, s.ok⟩

theorem of_wview2 {s : State} {v : WView2} (h : wview2 s = v) :
    s = ⟨#v[v.r0, v.r1, v.r2, v.r3, v.m0, v.m1, v.m2, v.m3, s.xmm[8], s.xmm[9], v.k10, s.xmm[11], v.k12, v.k13,
          s.xmm[14], v.k15], v.gpr, s.zf, v.mem, v.pc, v.status, v.ok⟩ := by
  subst h
  cases s with
  | mk x g z m p st ok =>
    simp only [wview2]
    congr 1
    exact vec16_eta x

/-- a state with known program counter, status and fault flag, spelled out register by register -/
theorem state_eta' (s : State) (pc : Nat) (hpc : s.pc = pc) (hst : s.status = .running) (hok : s.ok = true) :
    s = ⟨#v[s.xmm[0], s.xmm[1], s.xmm[2], s.xmm[3], s.xmm[4], s.xmm[5], s.xmm[6], s.xmm[7], s.xmm[8], s.xmm[9],
            s.xmm[10], s.xmm[11], s.xmm[12], s.xmm[13], s.xmm[14], s.xmm[15]],
         #v[s.gpr[rax], s.gpr[rcx], s.gpr[rdx], s.gpr[rbx], s.gpr[rsp], s.gpr[rbp], s.gpr[rsi], s.gpr[rdi],
            s.gpr[r8], s.gpr[r9], s.gpr[r10], s.gpr[r11], s.gpr[r12], s.gpr[r13], s.gpr[r14], s.gpr[r15]],
         s.zf, s.mem, pc, .running, true⟩ := by
  cases s with
  | mk x g z m p st ok =>
    simp only at hpc hst hok
    subst hpc hst hok
    congr 1
    · exact vec16_eta x
    · exact vec16_eta g

/-! ### the counted loop (as `AsmSem.loop7`, for `Win.run`) -/

theorem loop7 {V : Type} (vw : State → V) (rb : UInt64) (prog : List WInstr) (nIter nLast : Nat)
    (head exit : St → St → Vector UInt64 16 → Memory → V)
    (iter : ∀ (s : State) (S W : St) (g : Vector UInt64 16) (m : Memory), vw s = head S W g m →
      (g[rax].toUInt8 - 1 == 0) = false → vw (run rb prog nIter s) = head (Spec.round S W) (Spec.permute W) (decAl g) m)
    (last : ∀ (s : State) (S W : St) (g : Vector UInt64 16) (m : Memory), vw s = head S W g m →
      (g[rax].toUInt8 - 1 == 0) = true → vw (run rb prog nLast s) = exit (Spec.round S W) W (decAl g) m)
    (s : State) (S W : St) (g : Vector UInt64 16) (m : Memory) (h0 : vw s = head S W g m) (a0 : g[rax].toUInt8 = 7) :
    vw (run rb prog (nIter + (nIter + (nIter + (nIter + (nIter + (nIter + nLast)))))) s)
      = exit (Spec.rounds7 S W)
          (Spec.permute (Spec.permute (Spec.permute (Spec.permute (Spec.permute (Spec.permute W)))))) (dec7 g) m := by
  have h1 := iter _ _ _ _ _ h0 (by rw [a0]; decide)
  have a1 : (decAl g)[rax].toUInt8 = 6 := by rw [decAl_low, a0]; decide
  have h2 := iter _ _ _ _ _ h1 (by rw [a1]; decide)
  have a2 := decAl_low (decAl g); rw [a1] at a2
  have h3 := iter _ _ _ _ _ h2 (by rw [a2]; decide)
  have a3 := decAl_low (decAl (decAl g)); rw [a2] at a3
  have h4 := iter _ _ _ _ _ h3 (by rw [a3]; decide)
  have a4 := decAl_low (decAl (decAl (decAl g))); rw [a3] at a4
  have h5 := iter _ _ _ _ _ h4 (by rw [a4]; decide)
  have a5 := decAl_low (decAl (decAl (decAl (decAl g)))); rw [a4] at a5
  have h6 := iter _ _ _ _ _ h5 (by rw [a5]; decide)
  have a6 := decAl_low (decAl (decAl (decAl (decAl (decAl g))))); rw [a5] at a6
  have h7 := last _ _ _ _ _ h6 (by rw [a6]; decide)
  rw [run_add, run_add, run_add, run_add, run_add, run_add]
  exact h7

/-! ### byte ranges that do not overlap -/

/-- the byte ranges `[a, a + la)` and `[b, b + lb)` (addresses mod 2^64) have no byte in common:
`b` is at least `la` bytes above `a` and `a` is at least `lb` bytes above `b`, going upwards round the address space -/
def Apart (a : UInt64) (la : Nat) (b : UInt64) (lb : Nat) : Prop := la ≤ (b - a).toNat ∧ lb ≤ (a - b).toNat

instance (a : UInt64) (la : Nat) (b : UInt64) (lb : Nat) : Decidable (Apart a la b lb) := by unfold Apart; infer_instance

theorem Apart.symm {a : UInt64} {la : Nat} {b : UInt64} {lb : Nat} (h : Apart a la b lb) : Apart b lb a la := ⟨h.2, h.1⟩

/-- shrinking the second range from above keeps it apart -/
theorem Apart.mono {a : UInt64} {la : Nat} {b : UInt64} {lb lb' : Nat} (h : Apart a la b lb) (hl : lb' ≤ lb) : Apart a la b lb' :=
  ⟨h.1, Nat.le_trans hl h.2⟩

/-- no byte of the second range is in the first -/
theorem Apart.byte {a : UInt64} {la : Nat} {b : UInt64} {lb : Nat} (h : Apart a la b lb) (k : Nat) (hk : k < lb) :
    la ≤ (b + UInt64.ofNat k - a).toNat := by
  obtain ⟨h1, h2⟩ := h
  rw [UInt64.toNat_sub] at h1 h2
  rw [UInt64.toNat_sub, UInt64.toNat_add, UInt64.toNat_ofNat']
  have := a.toNat_lt
  have := b.toNat_lt
  omega

/-- the definition says what it should: a byte of the first range is not a byte of the second -/
theorem Apart.disjoint {a : UInt64} {la : Nat} {b : UInt64} {lb : Nat} (h : Apart a la b lb) (q : UInt64)
    (ha : (q - a).toNat < la) : lb ≤ (q - b).toNat := by
  obtain ⟨h1, h2⟩ := h
  rw [UInt64.toNat_sub] at h1 h2 ha
  rw [UInt64.toNat_sub]
  have := a.toNat_lt
  have := b.toNat_lt
  have := q.toNat_lt
  omega

theorem writeBytes_apart (m : Memory) (p : UInt64) (bs : List UInt8) (b : UInt64) (lb : Nat) (h : Apart p bs.length b lb)
    (k : Nat) (hk : k < lb) : writeBytes m p bs (b + UInt64.ofNat k) = m (b + UInt64.ofNat k) :=
  writeBytes_frame m p bs _ (h.byte k hk)

theorem word_writeBytes_apart (m : Memory) (p : UInt64) (bs : List UInt8) (b : UInt64) (lb : Nat) (h : Apart p bs.length b lb)
    (k : Nat) (hk : k + 4 ≤ lb) : (writeBytes m p bs).word (b + UInt64.ofNat k) = m.word (b + UInt64.ofNat k) := by
  have e1 : b + UInt64.ofNat k + 1 = b + UInt64.ofNat (k + 1) := addr_add b k 1
  have e2 : b + UInt64.ofNat k + 2 = b + UInt64.ofNat (k + 2) := addr_add b k 2
  have e3 : b + UInt64.ofNat k + 3 = b + UInt64.ofNat (k + 3) := addr_add b k 3
  simp only [Memory.word, e1, e2, e3]
  rw [writeBytes_apart m p bs b lb h k (by omega), writeBytes_apart m p bs b lb h (k + 1) (by omega),
    writeBytes_apart m p bs b lb h (k + 2) (by omega), writeBytes_apart m p bs b lb h (k + 3) (by omega)]

/-- words read from a range apart from the written one are the old words -/
theorem readWords_writeBytes_apart (m : Memory) (p : UInt64) (bs : List UInt8) (b : UInt64) (n : Nat)
    (h : Apart p bs.length b (4 * n)) : readWords (writeBytes m p bs) b n = readWords m b n := by
  apply Vector.ext
  intro i hi
  simp only [readWords, Vector.getElem_ofFn]
  exact word_writeBytes_apart m p bs b (4 * n) h (4 * i) (by omega)

/-- a 16-byte load from a range apart from the written one -/
theorem load128_writeBytes_apart (m : Memory) (p : UInt64) (bs : List UInt8) (b : UInt64) (lb : Nat) (h : Apart p bs.length b lb)
    (o : Nat) (ho : o + 16 ≤ lb) : load128 (writeBytes m p bs) (b + UInt64.ofNat o) = load128 m (b + UInt64.ofNat o) := by
  have e4 : b + UInt64.ofNat o + 4 = b + UInt64.ofNat (o + 4) := addr_add b o 4
  have e8 : b + UInt64.ofNat o + 8 = b + UInt64.ofNat (o + 8) := addr_add b o 8
  have e12 : b + UInt64.ofNat o + 12 = b + UInt64.ofNat (o + 12) := addr_add b o 12
  have w0 := word_writeBytes_apart m p bs b lb h o (by omega)
  have w4 := word_writeBytes_apart m p bs b lb h (o + 4) (by omega)
  have w8 := word_writeBytes_apart m p bs b lb h (o + 8) (by omega)
  have w12 := word_writeBytes_apart m p bs b lb h (o + 12) (by omega)
  simp only [load128, e4, e8, e12, w0, w4, w8, w12]

/-- a byte list held in a range apart from the written one is still held -/
theorem holdsAt_writeBytes_apart (m : Memory) (p : UInt64) (bs : List UInt8) (b : UInt64) (ro : List UInt8)
    (h : Apart p bs.length b ro.length) (hh : HoldsAt m b ro) : HoldsAt (writeBytes m p bs) b ro := by
  intro i hi
  rw [writeBytes_apart m p bs b ro.length h i hi]
  exact hh i hi

theorem rodata_writeBytes_apart {ro : List UInt8} {al : Nat} {rb : UInt64} {m : Memory} (p : UInt64) (bs : List UInt8)
    (h : Apart p bs.length rb ro.length) (hr : RodataLoaded ro al rb m) : RodataLoaded ro al rb (writeBytes m p bs) :=
  ⟨hr.aligned, holdsAt_writeBytes_apart m p bs rb ro h hr.holds⟩

/-! ### the frame: `sub rsp, 120`, seven `movdqa [rsp + 16 i], xmmN` -/

/-- the seven saved registers, in frame order: the 112 bytes the prologue writes at `rsp - 120` -/
def frameBytes (x6 x7 x8 x9 x11 x14 x15 : V4) : List UInt8 :=
  bytes128 x6 ++ bytes128 x7 ++ bytes128 x8 ++ bytes128 x9 ++ bytes128 x11 ++ bytes128 x14 ++ bytes128 x15

theorem frameBytes_length (x6 x7 x8 x9 x11 x14 x15 : V4) : (frameBytes x6 x7 x8 x9 x11 x14 x15).length = 112 := rfl

/-- memory after the seven stores of the prologue (`p` = the new stack pointer) -/
def frameStores (m : Memory) (p : UInt64) (x6 x7 x8 x9 x11 x14 x15 : V4) : Memory :=
  store128 (store128 (store128 (store128 (store128 (store128 (store128 m (p + UInt64.ofNat 0) x6) (p + UInt64.ofNat 16) x7)
    (p + UInt64.ofNat 32) x8) (p + UInt64.ofNat 48) x9) (p + UInt64.ofNat 64) x11) (p + UInt64.ofNat 80) x14) (p + UInt64.ofNat 96) x15

/-- the alignment checks of the seven `movdqa` (stores in the prologue, loads in the epilogue) -/
def frameAligned (p : UInt64) : Bool :=
  ((((((true && aligned16 (p + UInt64.ofNat 0)) && aligned16 (p + UInt64.ofNat 16)) && aligned16 (p + UInt64.ofNat 32))
    && aligned16 (p + UInt64.ofNat 48)) && aligned16 (p + UInt64.ofNat 64)) && aligned16 (p + UInt64.ofNat 80))
    && aligned16 (p + UInt64.ofNat 96)

theorem frameStores_eq (m : Memory) (p : UInt64) (x6 x7 x8 x9 x11 x14 x15 : V4) :
    frameStores m p x6 x7 x8 x9 x11 x14 x15 = writeBytes m p (frameBytes x6 x7 x8 x9 x11 x14 x15) := by
  have e0 := store128_append m p [] x6 (by decide)
  rw [writeBytes_nil] at e0
  have e1 := store128_append m p (bytes128 x6) x7 (by show 16 + 16 ≤ 2 ^ 64; decide)
  have e2 := store128_append m p (bytes128 x6 ++ bytes128 x7) x8 (by show 32 + 16 ≤ 2 ^ 64; decide)
  have e3 := store128_append m p (bytes128 x6 ++ bytes128 x7 ++ bytes128 x8) x9 (by show 48 + 16 ≤ 2 ^ 64; decide)
  have e4 := store128_append m p (bytes128 x6 ++ bytes128 x7 ++ bytes128 x8 ++ bytes128 x9) x11 (by show 64 + 16 ≤ 2 ^ 64; decide)
  have e5 := store128_append m p (bytes128 x6 ++ bytes128 x7 ++ bytes128 x8 ++ bytes128 x9 ++ bytes128 x11) x14
    (by show 80 + 16 ≤ 2 ^ 64; decide)
  have e6 := store128_append m p (bytes128 x6 ++ bytes128 x7 ++ bytes128 x8 ++ bytes128 x9 ++ bytes128 x11 ++ bytes128 x14) x15
    (by show 96 + 16 ≤ 2 ^ 64; decide)
  simp only [List.nil_append] at e0
  have l0 : ([] : List UInt8).length = 0 := rfl
  have l1 : (bytes128 x6).length = 16 := rfl
  have l2 : (bytes128 x6 ++ bytes128 x7).length = 32 := rfl
  have l3 : (bytes128 x6 ++ bytes128 x7 ++ bytes128 x8).length = 48 := rfl
  have l4 : (bytes128 x6 ++ bytes128 x7 ++ bytes128 x8 ++ bytes128 x9).length = 64 := rfl
  have l5 : (bytes128 x6 ++ bytes128 x7 ++ bytes128 x8 ++ bytes128 x9 ++ bytes128 x11).length = 80 := rfl
  have l6 : (bytes128 x6 ++ bytes128 x7 ++ bytes128 x8 ++ bytes128 x9 ++ bytes128 x11 ++ bytes128 x14).length = 96 := rfl
  rw [l0] at e0; rw [l1] at e1; rw [l2] at e2; rw [l3] at e3; rw [l4] at e4; rw [l5] at e5; rw [l6] at e6
  unfold frameStores frameBytes
  rw [e0, e1, e2, e3, e4, e5, e6]

/-! reading the frame back -/

theorem holdsAt_left {m : Memory} {p : UInt64} {l1 l2 : List UInt8} (h : HoldsAt m p (l1 ++ l2)) : HoldsAt m p l1 := by
  intro i hi
  have := h i (by rw [List.length_append]; omega)
  rw [this, List.getD_eq_getElem?_getD, List.getD_eq_getElem?_getD, List.getElem?_append_left hi]

theorem holdsAt_right {m : Memory} {p : UInt64} {l1 l2 : List UInt8} (h : HoldsAt m p (l1 ++ l2)) :
    HoldsAt m (p + UInt64.ofNat l1.length) l2 := by
  intro i hi
  have := h (l1.length + i) (by rw [List.length_append]; omega)
  rw [addr_add, this, List.getD_eq_getElem?_getD, List.getD_eq_getElem?_getD, List.getElem?_append_right (by omega)]
  congr 2
  omega

theorem ofBytes_byte128 (v : V4) :
    (#v[le32 (byte128 v 0) (byte128 v 1) (byte128 v 2) (byte128 v 3), le32 (byte128 v 4) (byte128 v 5) (byte128 v 6) (byte128 v 7),
       le32 (byte128 v 8) (byte128 v 9) (byte128 v 10) (byte128 v 11),
       le32 (byte128 v 12) (byte128 v 13) (byte128 v 14) (byte128 v 15)] : V4) = v := by
  show (#v[le32 (byteOf v[0] 0) (byteOf v[0] 1) (byteOf v[0] 2) (byteOf v[0] 3),
           le32 (byteOf v[1] 0) (byteOf v[1] 1) (byteOf v[1] 2) (byteOf v[1] 3),
           le32 (byteOf v[2] 0) (byteOf v[2] 1) (byteOf v[2] 2) (byteOf v[2] 3),
           le32 (byteOf v[3] 0) (byteOf v[3] 1) (byteOf v[3] 2) (byteOf v[3] 3)] : V4) = v
  rw [le32_bytes, le32_bytes, le32_bytes, le32_bytes]
  exact (vec4_eta v).symm

/-- sixteen bytes of a register held in memory load as that register -/
theorem load128_of_bytes128 (m : Memory) (a : UInt64) (v : V4) (h : HoldsAt m a (bytes128 v)) : load128 m a = v := by
  have e := load128_of_holds m a (bytes128 v) 0 h (by show 0 + 15 < 16; decide)
  have e0 : a + UInt64.ofNat 0 = a := by simp
  rw [e0] at e
  rw [e]
  exact ofBytes_byte128 v

/-- the seven loads of the epilogue return the seven saved registers -/
theorem frame_readback (m : Memory) (p : UInt64) (x6 x7 x8 x9 x11 x14 x15 : V4)
    (h : HoldsAt m p (frameBytes x6 x7 x8 x9 x11 x14 x15)) :
    load128 m (p + UInt64.ofNat 0) = x6 ∧ load128 m (p + UInt64.ofNat 16) = x7 ∧ load128 m (p + UInt64.ofNat 32) = x8 ∧
    load128 m (p + UInt64.ofNat 48) = x9 ∧ load128 m (p + UInt64.ofNat 64) = x11 ∧ load128 m (p + UInt64.ofNat 80) = x14 ∧
    load128 m (p + UInt64.ofNat 96) = x15 := by
  unfold frameBytes at h
  have h15 := holdsAt_right h
  have h' := holdsAt_left h
  have h14 := holdsAt_right h'
  have h' := holdsAt_left h'
  have h11 := holdsAt_right h'
  have h' := holdsAt_left h'
  have h9 := holdsAt_right h'
  have h' := holdsAt_left h'
  have h8 := holdsAt_right h'
  have h' := holdsAt_left h'
  have h7 := holdsAt_right h'
  have h6 := holdsAt_left h'
  have e0 : p + UInt64.ofNat 0 = p := by simp
  rw [e0]
  exact ⟨load128_of_bytes128 _ _ _ h6, load128_of_bytes128 _ _ _ h7, load128_of_bytes128 _ _ _ h8,
    load128_of_bytes128 _ _ _ h9, load128_of_bytes128 _ _ _ h11, load128_of_bytes128 _ _ _ h14, load128_of_bytes128 _ _ _ h15⟩

/-! alignment: at entry `rsp ≡ 8 (mod 16)` (the `call` pushed the return address on a 16-byte aligned stack) -/

theorem sub120_mod16 (r : UInt64) (h : r.toNat % 16 = 8) : (r - UInt64.ofNat 120).toNat % 16 = 0 := by
  rw [UInt64.toNat_sub, UInt64.toNat_ofNat']
  have := r.toNat_lt
  omega

theorem frameAligned_of (p : UInt64) (h : p.toNat % 16 = 0) : frameAligned p = true := by
  unfold frameAligned
  rw [aligned16_of p 16 0 (by decide) h (by decide), aligned16_of p 16 16 (by decide) h (by decide),
    aligned16_of p 16 32 (by decide) h (by decide), aligned16_of p 16 48 (by decide) h (by decide),
    aligned16_of p 16 64 (by decide) h (by decide), aligned16_of p 16 80 (by decide) h (by decide),
    aligned16_of p 16 96 (by decide) h (by decide)]
  rfl

/-! the stack arguments: the caller's slots at `rsp + 0x28`, `rsp + 0x30` (entry `rsp`), above the frame -/

/-- an address `k ≥ 120` bytes above the new stack pointer `r - 120`, in terms of the entry stack pointer `r` -/
theorem frame_addr (r : UInt64) (k : Nat) (hk : 120 ≤ k) : r - UInt64.ofNat 120 + UInt64.ofNat k = r + UInt64.ofNat (k - 120) := by
  obtain ⟨j, rfl⟩ : ∃ j, k = 120 + j := ⟨k - 120, by omega⟩
  rw [UInt64.ofNat_add, ← UInt64.add_assoc, UInt64.sub_add_cancel, Nat.add_sub_cancel_left]

/-- bytes above the 112 written ones are untouched -/
theorem writeBytes_above (m : Memory) (p : UInt64) (bs : List UInt8) (k : Nat) (h1 : bs.length ≤ k) (h2 : k < 2 ^ 64) :
    writeBytes m p bs (p + UInt64.ofNat k) = m (p + UInt64.ofNat k) := by
  apply writeBytes_frame
  rw [UInt64.add_comm, UInt64.add_sub_cancel, UInt64.toNat_ofNat', Nat.mod_eq_of_lt h2]
  exact h1

theorem frame_slot8 (m : Memory) (r : UInt64) (bs : List UInt8) (hl : bs.length = 112) (k : Nat) (hk : 120 ≤ k) (hk' : k < 2 ^ 64) :
    writeBytes m (r - UInt64.ofNat 120) bs (r - UInt64.ofNat 120 + UInt64.ofNat k) = m (r + UInt64.ofNat (k - 120)) := by
  rw [writeBytes_above m _ bs k (by omega) hk', frame_addr r k hk]

theorem load64_bytes (m : Memory) (a : UInt64) :
    load64 m a = (m (a + UInt64.ofNat 0)).toUInt64 ||| ((m (a + UInt64.ofNat 1)).toUInt64 <<< 8)
      ||| ((m (a + UInt64.ofNat 2)).toUInt64 <<< 16) ||| ((m (a + UInt64.ofNat 3)).toUInt64 <<< 24)
      ||| ((m (a + UInt64.ofNat 4)).toUInt64 <<< 32) ||| ((m (a + UInt64.ofNat 5)).toUInt64 <<< 40)
      ||| ((m (a + UInt64.ofNat 6)).toUInt64 <<< 48) ||| ((m (a + UInt64.ofNat 7)).toUInt64 <<< 56) := by
  have e0 : a + UInt64.ofNat 0 = a := by simp
  rw [e0]
  rfl

theorem frame_slot64 (m : Memory) (r : UInt64) (bs : List UInt8) (hl : bs.length = 112) (k : Nat) (hk : 120 ≤ k) (hk' : k + 7 < 2 ^ 64) :
    load64 (writeBytes m (r - UInt64.ofNat 120) bs) (r - UInt64.ofNat 120 + UInt64.ofNat k) = load64 m (r + UInt64.ofNat (k - 120)) := by
  rw [load64_bytes, load64_bytes]
  simp only [addr_add]
  rw [frame_slot8 m r bs hl (k + 0) (by omega) (by omega), frame_slot8 m r bs hl (k + 1) (by omega) (by omega),
    frame_slot8 m r bs hl (k + 2) (by omega) (by omega), frame_slot8 m r bs hl (k + 3) (by omega) (by omega),
    frame_slot8 m r bs hl (k + 4) (by omega) (by omega), frame_slot8 m r bs hl (k + 5) (by omega) (by omega),
    frame_slot8 m r bs hl (k + 6) (by omega) (by omega), frame_slot8 m r bs hl (k + 7) (by omega) (by omega)]
  have a0 : k + 0 - 120 = k - 120 + 0 := by omega
  have a1 : k + 1 - 120 = k - 120 + 1 := by omega
  have a2 : k + 2 - 120 = k - 120 + 2 := by omega
  have a3 : k + 3 - 120 = k - 120 + 3 := by omega
  have a4 : k + 4 - 120 = k - 120 + 4 := by omega
  have a5 : k + 5 - 120 = k - 120 + 5 := by omega
  have a6 : k + 6 - 120 = k - 120 + 6 := by omega
  have a7 : k + 7 - 120 = k - 120 + 7 := by omega
  rw [a0, a1, a2, a3, a4, a5, a6, a7]

/-! ### the block-length / flags words: `movzx eax, byte ptr [flags slot]; movzx r8d, r8b; shl rax, 32; add r8, rax` -/

/-- what these four instructions leave in r8 (`g8` = r8 at entry, `fl` = the byte in the fifth argument's slot) -/
def lenFlagsW (g8 : UInt64) (fl : UInt8) : UInt64 :=
  trunc .d32 (trunc .b8 g8) + (trunc .d32 fl.toUInt64 <<< 32)

/-- the two words are exactly `r8b` and the byte of the stack slot: nothing above the 8-bit arguments is used -/
theorem lenFlagsW_words (g8 : UInt64) (fl : UInt8) :
    (lenFlagsW g8 fl).toUInt32 = g8.toUInt8.toUInt32 ∧ (lenFlagsW g8 fl >>> 32).toUInt32 = fl.toUInt32 := by
  unfold lenFlagsW
  have hb := g8.toUInt8.toNat_lt
  have hr := fl.toNat_lt
  have h32 : (32 : UInt64).toNat % 64 = 32 := by decide
  constructor
  · apply UInt32.toNat_inj.mp
    simp only [trunc, UInt64.toNat_toUInt32, UInt64.toNat_add, UInt64.toNat_shiftLeft, UInt8.toNat_toUInt64, UInt8.toNat_toUInt32,
      UInt32.toNat_toUInt64, h32, Nat.shiftLeft_eq]
    omega
  · apply UInt32.toNat_inj.mp
    simp only [trunc, UInt64.toNat_toUInt32, UInt64.toNat_add, UInt64.toNat_shiftLeft, UInt64.toNat_shiftRight, UInt8.toNat_toUInt64,
      UInt8.toNat_toUInt32, UInt32.toNat_toUInt64, h32, Nat.shiftLeft_eq, Nat.shiftRight_eq_div_pow]
    omega

/-! ### the stack pointer at the end: `sub rsp, 120 .. add rsp, 120; ret` -/

theorem rsp_restored (r : UInt64) : r - UInt64.ofNat 120 + UInt64.ofNat 120 + 8 = r + 8 := by
  rw [UInt64.sub_add_cancel]

/-! ### the quantities of the entry state the theorems talk about -/

/-- the stack pointer inside the routine: entry `rsp - 120`; the frame is the 112 bytes from here -/
def frameBase (s : State) : UInt64 := s.gpr[rsp] - UInt64.ofNat 120

/-- the 112 bytes the prologue writes at `frameBase`: XMM6, 7, 8, 9, 11, 14, 15 of the entry state -/
def savedBytes (s : State) : List UInt8 := frameBytes s.xmm[6] s.xmm[7] s.xmm[8] s.xmm[9] s.xmm[11] s.xmm[14] s.xmm[15]

/-- memory once the frame is written: entry memory with `savedBytes` at `[rsp - 120, rsp - 8)` -/
def frameMem (s : State) : Memory := writeBytes s.mem (frameBase s) (savedBytes s)

/-- the fifth argument (`flags`): the byte at `[rsp + 0x28]` (entry `rsp`) -/
def flagsArg (s : State) : UInt8 := s.mem (s.gpr[rsp] + UInt64.ofNat 40)

/-- the sixth argument (`out`, compress_xof only): the quadword at `[rsp + 0x30]` (entry `rsp`) -/
def outArg (s : State) : UInt64 := load64 s.mem (s.gpr[rsp] + UInt64.ofNat 48)

theorem frameBase_eq (s : State) : frameBase s = s.gpr[rsp] - 120 := rfl

theorem savedBytes_length (s : State) : (savedBytes s).length = 112 := rfl

theorem frameMem_holds (s : State) : HoldsAt (frameMem s) (frameBase s) (savedBytes s) :=
  holdsAt_writeBytes _ _ _ (by rw [savedBytes_length]; decide)

theorem frameMem_flags (s : State) : frameMem s (frameBase s + UInt64.ofNat 160) = flagsArg s :=
  frame_slot8 s.mem s.gpr[rsp] (savedBytes s) (savedBytes_length s) 160 (by decide) (by decide)

theorem frameMem_out (s : State) : load64 (frameMem s) (frameBase s + UInt64.ofNat 168) = outArg s :=
  frame_slot64 s.mem s.gpr[rsp] (savedBytes s) (savedBytes_length s) 168 (by decide) (by decide)

/-- the register file after the prologue of compress_in_place -/
def gprAfterPrologueW (s : State) : Vector UInt64 16 :=
  #v[merge .b8 (trunc .d32 (flagsArg s).toUInt64 <<< 32) 7, s.gpr[rcx], s.gpr[rdx], s.gpr[rbx], frameBase s, s.gpr[rbp], s.gpr[rsi],
     s.gpr[rdi], lenFlagsW s.gpr[r8] (flagsArg s), s.gpr[r9], s.gpr[r10], s.gpr[r11], s.gpr[r12], s.gpr[r13], s.gpr[r14], s.gpr[r15]]

/-- the register file after the prologue of compress_xof (`mov r10, [out slot]`) -/
def gprAfterPrologueWXof (s : State) : Vector UInt64 16 :=
  #v[merge .b8 (trunc .d32 (flagsArg s).toUInt64 <<< 32) 7, s.gpr[rcx], s.gpr[rdx], s.gpr[rbx], frameBase s, s.gpr[rbp], s.gpr[rsi],
     s.gpr[rdi], lenFlagsW s.gpr[r8] (flagsArg s), s.gpr[r9], outArg s, s.gpr[r11], s.gpr[r12], s.gpr[r13], s.gpr[r14], s.gpr[r15]]

/-- what `add rsp, 120; ret` do to the register file -/
def gprEpilogue (g : Vector UInt64 16) : Vector UInt64 16 :=
  (g.set rsp (g[rsp] + UInt64.ofNat 120)).set rsp ((g.set rsp (g[rsp] + UInt64.ofNat 120))[rsp] + 8)

/-- the register file at the end: seven `dec al`, `add rsp, 120`, `ret` -/
def gprFinal (G : Vector UInt64 16) : Vector UInt64 16 := gprEpilogue (dec7 G)

theorem gprFinal_rsp (G : Vector UInt64 16) : (gprFinal G)[rsp] = G[rsp] + UInt64.ofNat 120 + 8 := by
  unfold gprFinal gprEpilogue
  simp only [Fin.getElem_fin, Vector.getElem_set_self]
  have := dec7_ne G rsp (by decide)
  simp only [Fin.getElem_fin] at this
  rw [this]

theorem gprFinal_ne (G : Vector UInt64 16) (r : Reg) (h0 : r ≠ rax) (h4 : r ≠ rsp) : (gprFinal G)[r] = G[r] := by
  unfold gprFinal gprEpilogue
  simp only [Fin.getElem_fin]
  rw [Vector.getElem_set_ne _ _ (fun e => h4 (Fin.ext e.symm)), Vector.getElem_set_ne _ _ (fun e => h4 (Fin.ext e.symm))]
  have := dec7_ne G r h0
  simp only [Fin.getElem_fin] at this
  exact this

theorem final_rspW (s : State) : (gprFinal (gprAfterPrologueW s))[rsp] = s.gpr[rsp] + 8 := by
  rw [gprFinal_rsp]
  exact rsp_restored s.gpr[rsp]

theorem final_rspWXof (s : State) : (gprFinal (gprAfterPrologueWXof s))[rsp] = s.gpr[rsp] + 8 := by
  rw [gprFinal_rsp]
  exact rsp_restored s.gpr[rsp]

theorem final_frameW (s : State) (r : Reg) (h0 : r ≠ rax) (h8 : r ≠ r8) (h4 : r ≠ rsp) :
    (gprFinal (gprAfterPrologueW s))[r] = s.gpr[r] := by
  rw [gprFinal_ne _ r h0 h4]
  obtain ⟨n, hn⟩ := r
  have c0 : n ≠ 0 := fun e => h0 (Fin.ext e)
  have c8 : n ≠ 8 := fun e => h8 (Fin.ext e)
  have c4 : n ≠ 4 := fun e => h4 (Fin.ext e)
  have : n = 1 ∨ n = 2 ∨ n = 3 ∨ n = 5 ∨ n = 6 ∨ n = 7 ∨ n = 9 ∨ n = 10 ∨ n = 11 ∨ n = 12 ∨ n = 13 ∨ n = 14 ∨ n = 15 := by omega
  rcases this with rfl | rfl | rfl | rfl | rfl | rfl | rfl | rfl | rfl | rfl | rfl | rfl | rfl <;> rfl

theorem final_frameWXof (s : State) (r : Reg) (h0 : r ≠ rax) (h8 : r ≠ r8) (h10 : r ≠ r10) (h4 : r ≠ rsp) :
    (gprFinal (gprAfterPrologueWXof s))[r] = s.gpr[r] := by
  rw [gprFinal_ne _ r h0 h4]
  obtain ⟨n, hn⟩ := r
  have c0 : n ≠ 0 := fun e => h0 (Fin.ext e)
  have c8 : n ≠ 8 := fun e => h8 (Fin.ext e)
  have c10 : n ≠ 10 := fun e => h10 (Fin.ext e)
  have c4 : n ≠ 4 := fun e => h4 (Fin.ext e)
  have : n = 1 ∨ n = 2 ∨ n = 3 ∨ n = 5 ∨ n = 6 ∨ n = 7 ∨ n = 9 ∨ n = 11 ∨ n = 12 ∨ n = 13 ∨ n = 14 ∨ n = 15 := by omega
  rcases this with rfl | rfl | rfl | rfl | rfl | rfl | rfl | rfl | rfl | rfl | rfl | rfl <;> rfl

/-! ### entry conditions -/

/-- The state on entry to a Windows-GNU compress routine (`ro`, `al` = the file's `.rdata` bytes and alignment, `rb` =
where the loader put them): at the first instruction, no fault so far, the section loaded, and
* `rsp ≡ 8 (mod 16)`: the Win64 convention (16-byte aligned stack before the `call`); the routine's `movdqa` to and
  from `[rsp - 120 + 16 i]` fault otherwise;
* the FRAME `[rsp - 120, rsp - 8)` -- the 112 bytes the routine writes below the entry stack pointer BEFORE it reads
  its inputs -- has no byte in common with the `.rdata` section, the 32 bytes at `cv` (rcx), the 64 bytes at `block` (rdx).
Nothing is assumed about the XMM registers, ZF, the other general purpose registers, or about how cv, block, the tables and
the argument slots lie relative to each other (they may overlap; the slots `[rsp + 0x28 ..]` are above the frame by
construction). -/
structure EntryW (ro : List UInt8) (al : Nat) (rb : UInt64) (s : State) : Prop where
  pc : s.pc = 0
  running : s.status = .running
  ok : s.ok = true
  rodata : RodataLoaded ro al rb s.mem
  rsp_aligned : s.gpr[rsp].toNat % 16 = 8
  frame_rodata : Apart (frameBase s) 112 rb ro.length
  frame_cv : Apart (frameBase s) 112 s.gpr[rcx] 32
  frame_block : Apart (frameBase s) 112 s.gpr[rdx] 64

/-- for compress_xof additionally: the frame has no byte in common with the 64 bytes at `out` (the pointer in the
sixth argument's stack slot): the output is stored before the saved registers are reloaded from the frame -/
structure EntryWXof (ro : List UInt8) (al : Nat) (rb : UInt64) (s : State) : Prop extends EntryW ro al rb s where
  frame_out : Apart (frameBase s) 112 (outArg s) 64

theorem frame_aligned_of_entry {ro : List UInt8} {al : Nat} {rb : UInt64} {s : State} (h : EntryW ro al rb s) :
    frameAligned (frameBase s) = true :=
  frameAligned_of _ (sub120_mod16 _ h.rsp_aligned)

theorem frameMem_rodata {ro : List UInt8} {al : Nat} {rb : UInt64} {s : State} (h : EntryW ro al rb s) :
    RodataLoaded ro al rb (frameMem s) :=
  rodata_writeBytes_apart _ _ (by rw [savedBytes_length]; exact h.frame_rodata) h.rodata

theorem frameMem_cv {ro : List UInt8} {al : Nat} {rb : UInt64} {s : State} (h : EntryW ro al rb s) :
    readWords (frameMem s) s.gpr[rcx] 8 = readWords s.mem s.gpr[rcx] 8 :=
  readWords_writeBytes_apart _ _ _ _ 8 (by rw [savedBytes_length]; exact h.frame_cv)

theorem frameMem_block {ro : List UInt8} {al : Nat} {rb : UInt64} {s : State} (h : EntryW ro al rb s) :
    readWords (frameMem s) s.gpr[rdx] 16 = readWords s.mem s.gpr[rdx] 16 :=
  readWords_writeBytes_apart _ _ _ _ 16 (by rw [savedBytes_length]; exact h.frame_block)

/-- the seven reloads of the epilogue, after `bs` (the output) has been written at `a`, apart from the frame -/
theorem frame_reload (s : State) (a : UInt64) (bs : List UInt8) (h : Apart (frameBase s) 112 a bs.length) :
    load128 (writeBytes (frameMem s) a bs) (frameBase s + UInt64.ofNat 0) = s.xmm[6] ∧
    load128 (writeBytes (frameMem s) a bs) (frameBase s + UInt64.ofNat 16) = s.xmm[7] ∧
    load128 (writeBytes (frameMem s) a bs) (frameBase s + UInt64.ofNat 32) = s.xmm[8] ∧
    load128 (writeBytes (frameMem s) a bs) (frameBase s + UInt64.ofNat 48) = s.xmm[9] ∧
    load128 (writeBytes (frameMem s) a bs) (frameBase s + UInt64.ofNat 64) = s.xmm[11] ∧
    load128 (writeBytes (frameMem s) a bs) (frameBase s + UInt64.ofNat 80) = s.xmm[14] ∧
    load128 (writeBytes (frameMem s) a bs) (frameBase s + UInt64.ofNat 96) = s.xmm[15] := by
  have hs := h.symm
  rw [load128_writeBytes_apart _ a bs _ 112 hs 0 (by decide), load128_writeBytes_apart _ a bs _ 112 hs 16 (by decide),
    load128_writeBytes_apart _ a bs _ 112 hs 32 (by decide), load128_writeBytes_apart _ a bs _ 112 hs 48 (by decide),
    load128_writeBytes_apart _ a bs _ 112 hs 64 (by decide), load128_writeBytes_apart _ a bs _ 112 hs 80 (by decide),
    load128_writeBytes_apart _ a bs _ 112 hs 96 (by decide)]
  exact frame_readback _ _ _ _ _ _ _ _ _ (frameMem_holds s)

/-- the register file `x` agrees with the entry state on the callee-saved XMM6-15 -/
theorem xmm_saved (s : State) (a0 a1 a2 a3 a4 a5 : V4) (i : Fin 16) (hi : 6 ≤ i.val) :
    (#v[a0, a1, a2, a3, a4, a5, s.xmm[6], s.xmm[7], s.xmm[8], s.xmm[9], s.xmm[10], s.xmm[11], s.xmm[12], s.xmm[13],
        s.xmm[14], s.xmm[15]] : Vector V4 16)[i] = s.xmm[i] := by
  obtain ⟨n, hn⟩ := i
  simp only at hi
  have : n = 6 ∨ n = 7 ∨ n = 8 ∨ n = 9 ∨ n = 10 ∨ n = 11 ∨ n = 12 ∨ n = 13 ∨ n = 14 ∨ n = 15 := by omega
  rcases this with rfl | rfl | rfl | rfl | rfl | rfl | rfl | rfl | rfl | rfl <;> rfl

end B3.AsmSem.Win
