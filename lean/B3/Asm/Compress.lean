/-
Program-independent material for the four compress routines (SSE4.1 / SSE2, in_place / xof): how the
prologue reads the chaining value and the block, what it leaves in the general purpose registers,
the entry conditions, the register frame, and the output bytes of the two epilogues.
-/
import B3.Asm.Lemmas
namespace B3.AsmSem
open B3 B3.Simd

/-! ### entry conditions -/

/-- the loader placed the `.rodata` section `ro` (a byte list translated from the source) at address `rb`,
aligned to `al` -/
structure RodataLoaded (ro : List UInt8) (al : Nat) (rb : UInt64) (m : Memory) : Prop where
  aligned : rb.toNat % al = 0
  holds : HoldsAt m rb ro

/-- the state on entry to a routine: at its first instruction, no fault so far, the file's `.rodata` section
loaded at `rb`.  Nothing is assumed about the XMM registers, ZF, the general purpose registers (the argument
registers: whatever they hold is what the theorems talk about), the stack, or where `cv`, `block`, `out` lie
(they may overlap each other or the tables: every load of the routines precedes their stores). -/
structure Entry (ro : List UInt8) (al : Nat) (rb : UInt64) (s : State) : Prop where
  pc : s.pc = 0
  running : s.status = .running
  ok : s.ok = true
  rodata : RodataLoaded ro al rb s.mem

/-- a state at the entry point, spelled out register by register -/
theorem state_eta (s : State) (hpc : s.pc = 0) (hst : s.status = .running) (hok : s.ok = true) :
    s = ⟨#v[s.xmm[0], s.xmm[1], s.xmm[2], s.xmm[3], s.xmm[4], s.xmm[5], s.xmm[6], s.xmm[7], s.xmm[8], s.xmm[9],
            s.xmm[10], s.xmm[11], s.xmm[12], s.xmm[13], s.xmm[14], s.xmm[15]],
         #v[s.gpr[rax], s.gpr[rcx], s.gpr[rdx], s.gpr[rbx], s.gpr[rsp], s.gpr[rbp], s.gpr[rsi], s.gpr[rdi],
            s.gpr[r8], s.gpr[r9], s.gpr[r10], s.gpr[r11], s.gpr[r12], s.gpr[r13], s.gpr[r14], s.gpr[r15]],
         s.zf, s.mem, 0, .running, true⟩ := by
  cases s with
  | mk x g z m p st ok =>
    simp only at hpc hst hok
    subst hpc hst hok
    congr 1
    · exact vec16_eta x
    · exact vec16_eta g

/-! ### what the prologues read -/

/-- the chaining value as the prologue reads it: two 16-byte loads at `p`, `p + 16` -/
def cvRaw (m : Memory) (p : UInt64) : CV :=
  #v[(load128 m (p + UInt64.ofNat 0))[0], (load128 m (p + UInt64.ofNat 0))[1], (load128 m (p + UInt64.ofNat 0))[2], (load128 m (p + UInt64.ofNat 0))[3],
     (load128 m (p + UInt64.ofNat 16))[0], (load128 m (p + UInt64.ofNat 16))[1], (load128 m (p + UInt64.ofNat 16))[2], (load128 m (p + UInt64.ofNat 16))[3]]

/-- the block as the prologue reads it: four 16-byte loads at `p`, `p + 16`, `p + 32`, `p + 48` -/
def blockRaw (m : Memory) (p : UInt64) : St :=
  #v[(load128 m (p + UInt64.ofNat 0))[0], (load128 m (p + UInt64.ofNat 0))[1], (load128 m (p + UInt64.ofNat 0))[2], (load128 m (p + UInt64.ofNat 0))[3],
     (load128 m (p + UInt64.ofNat 16))[0], (load128 m (p + UInt64.ofNat 16))[1], (load128 m (p + UInt64.ofNat 16))[2], (load128 m (p + UInt64.ofNat 16))[3],
     (load128 m (p + UInt64.ofNat 32))[0], (load128 m (p + UInt64.ofNat 32))[1], (load128 m (p + UInt64.ofNat 32))[2], (load128 m (p + UInt64.ofNat 32))[3],
     (load128 m (p + UInt64.ofNat 48))[0], (load128 m (p + UInt64.ofNat 48))[1], (load128 m (p + UInt64.ofNat 48))[2], (load128 m (p + UInt64.ofNat 48))[3]]

theorem cvRaw_eq (m : Memory) (p : UInt64) : cvRaw m p = readWords m p 8 := by
  apply Vector.ext
  intro i hi
  simp only [readWords, Vector.getElem_ofFn]
  match i, hi with
  | 0, _ | 1, _ | 2, _ | 3, _ | 4, _ | 5, _ | 6, _ | 7, _ =>
    simp only [cvRaw, load128, Vector.getElem_mk, List.getElem_toArray, List.getElem_cons_zero, List.getElem_cons_succ,
      UInt64.add_assoc, UInt64.reduceAdd, UInt64.reduceOfNat, UInt64.add_zero, Nat.reduceMul]
  | n + 8, h => omega

theorem blockRaw_eq (m : Memory) (p : UInt64) : blockRaw m p = readWords m p 16 := by
  apply Vector.ext
  intro i hi
  simp only [readWords, Vector.getElem_ofFn]
  match i, hi with
  | 0, _ | 1, _ | 2, _ | 3, _ | 4, _ | 5, _ | 6, _ | 7, _ | 8, _ | 9, _ | 10, _ | 11, _ | 12, _ | 13, _ | 14, _ | 15, _ =>
    simp only [blockRaw, load128, Vector.getElem_mk, List.getElem_toArray, List.getElem_cons_zero, List.getElem_cons_succ,
      UInt64.add_assoc, UInt64.reduceAdd, UInt64.reduceOfNat, UInt64.add_zero, Nat.reduceMul]
  | n + 16, h => omega

theorem load_cv_lo (m : Memory) (p : UInt64) :
    load128 m (p + UInt64.ofNat 0) = #v[(cvRaw m p)[0], (cvRaw m p)[1], (cvRaw m p)[2], (cvRaw m p)[3]] := vec4_eta _
theorem load_cv_hi (m : Memory) (p : UInt64) :
    load128 m (p + UInt64.ofNat 16) = #v[(cvRaw m p)[4], (cvRaw m p)[5], (cvRaw m p)[6], (cvRaw m p)[7]] := vec4_eta _

/-! ### general purpose registers: compress_in_place (`shl r8, 32; add rdx, r8`) -/

/-- the 64-bit value the prologue leaves in rdx: `rdx + (r8 << 32)`; its low half becomes the block-length
word of the state, its high half the flags word -/
def lenFlags (s : State) : UInt64 := s.gpr[rdx] + (s.gpr[r8] <<< 32)

/-- the register file after the prologue -/
def gprAfterPrologue (s : State) : Vector UInt64 16 :=
  #v[merge .b8 s.gpr[rax] 7, s.gpr[rcx], lenFlags s, s.gpr[rbx], s.gpr[rsp], s.gpr[rbp], s.gpr[rsi], s.gpr[rdi],
     s.gpr[r8] <<< 32, s.gpr[r9], s.gpr[r10], s.gpr[r11], s.gpr[r12], s.gpr[r13], s.gpr[r14], s.gpr[r15]]

/-- with the 8-bit arguments zero-extended the way compilers do it (block_len to the whole of rdx, flags to the
low 32 bits of r8; bits 63:32 of r8 are shifted out), the two words are `block_len` and `flags` -/
theorem lenFlags_abi (s : State) (bl fl : UInt8) (hbl : s.gpr[rdx] = bl.toUInt64) (hfl : s.gpr[r8].toUInt32 = fl.toUInt32) :
    (lenFlags s).toUInt32 = bl.toUInt32 ∧ (lenFlags s >>> 32).toUInt32 = fl.toUInt32 := by
  unfold lenFlags
  rw [hbl, ← hfl]
  generalize s.gpr[r8] = r
  have hb := bl.toNat_lt
  have hr := r.toNat_lt
  have h32 : (32 : UInt64).toNat % 64 = 32 := by decide
  constructor
  · apply UInt32.toNat_inj.mp
    simp only [UInt64.toNat_toUInt32, UInt64.toNat_add, UInt64.toNat_shiftLeft, UInt8.toNat_toUInt64, UInt8.toNat_toUInt32, h32,
      Nat.shiftLeft_eq]
    omega
  · apply UInt32.toNat_inj.mp
    simp only [UInt64.toNat_toUInt32, UInt64.toNat_add, UInt64.toNat_shiftLeft, UInt64.toNat_shiftRight, UInt8.toNat_toUInt64, h32,
      Nat.shiftLeft_eq, Nat.shiftRight_eq_div_pow]
    omega

/-! ### general purpose registers: compress_xof (`movzx eax, r8b; movzx edx, dl; shl rax, 32; add rdx, rax`) -/

/-- what `movzx eax, r8b; movzx edx, dl; shl rax, 32; add rdx, rax` leaves in rdx -/
def lenFlagsRaw (gdx g8 : UInt64) : UInt64 :=
  trunc .d32 (trunc .b8 gdx) + (trunc .d32 (trunc .b8 g8) <<< 32)

/-- the register file after the prologue -/
def gprAfterPrologueXof (s : State) : Vector UInt64 16 :=
  #v[merge .b8 (trunc .d32 (trunc .b8 s.gpr[r8]) <<< 32) 7, s.gpr[rcx], lenFlagsRaw s.gpr[rdx] s.gpr[r8], s.gpr[rbx], s.gpr[rsp],
     s.gpr[rbp], s.gpr[rsi], s.gpr[rdi], s.gpr[r8], s.gpr[r9], s.gpr[r10], s.gpr[r11], s.gpr[r12], s.gpr[r13], s.gpr[r14], s.gpr[r15]]

/-- `movzx` of the two byte registers: the words are exactly `dl` and `r8b` -/
theorem lenFlagsRaw_words (gdx g8 : UInt64) :
    (lenFlagsRaw gdx g8).toUInt32 = gdx.toUInt8.toUInt32 ∧ (lenFlagsRaw gdx g8 >>> 32).toUInt32 = g8.toUInt8.toUInt32 := by
  unfold lenFlagsRaw
  have hb := gdx.toUInt8.toNat_lt
  have hr := g8.toUInt8.toNat_lt
  have h32 : (32 : UInt64).toNat % 64 = 32 := by decide
  constructor
  · apply UInt32.toNat_inj.mp
    simp only [trunc, UInt64.toNat_toUInt32, UInt64.toNat_add, UInt64.toNat_shiftLeft, UInt8.toNat_toUInt64, UInt8.toNat_toUInt32,
      UInt32.toNat_toUInt64, h32, Nat.shiftLeft_eq]
    omega
  · apply UInt32.toNat_inj.mp
    simp only [trunc, UInt64.toNat_toUInt32, UInt64.toNat_add, UInt64.toNat_shiftLeft, UInt64.toNat_shiftRight, UInt8.toNat_toUInt64,
      UInt8.toNat_toUInt32, UInt32.toNat_toUInt64, h32, Nat.shiftLeft_eq, Nat.shiftRight_eq_div_pow]
    omega

/-! ### the loop counter and the register frame -/

/-- `dec al` seven times -/
def dec7 (g : Vector UInt64 16) : Vector UInt64 16 := decAl (decAl (decAl (decAl (decAl (decAl (decAl g))))))

theorem dec7_ne (g : Vector UInt64 16) (r : Reg) (h : r ≠ rax) : (dec7 g)[r] = g[r] := by
  unfold dec7
  rw [decAl_ne _ r h, decAl_ne _ r h, decAl_ne _ r h, decAl_ne _ r h, decAl_ne _ r h, decAl_ne _ r h, decAl_ne _ r h]

/-- Seven trips round a loop counted down in `al` from 7, as a function of what one trip does to the tracked part
`vw` of the state: `iter` = a trip that does not leave the loop (`nIter` instructions), `last` = the trip that does
(`nLast` instructions).  `head S W g m` is the tracked state at the loop head holding state rows `S` and message `W`. -/
theorem loop7 {V : Type} (vw : State → V) (rb : UInt64) (prog : List Instr) (nIter nLast : Nat)
    (head exit : St → St → Vector UInt64 16 → Memory → V)
    (iter : ∀ (s : State) (S W : St) (g : Vector UInt64 16) (m : Memory), vw s = head S W g m →
      (g[rax].toUInt8 - 1 == 0) = false → vw (run rb prog nIter s) = head (Spec.round S W) (Spec.permute W) (decAl g) m)
    (last : ∀ (s : State) (S W : St) (g : Vector UInt64 16) (m : Memory), vw s = head S W g m →
      (g[rax].toUInt8 - 1 == 0) = true → vw (run rb prog nLast s) = exit (Spec.round S W) W (decAl g) m)
    (s : State) (S W : St) (g : Vector UInt64 16) (m : Memory) (h0 : vw s = head S W g m) (a0 : g[rax].toUInt8 = 7) :
    vw (run rb prog (nIter + (nIter + (nIter + (nIter + (nIter + (nIter + nLast)))))) s)
      = exit (Spec.rounds7 S W)
          (Spec.permute (Spec.permute (Spec.permute (Spec.permute (Spec.permute (Spec.permute W)))))) (dec7 g) m := by
  have h1 := iter _ _ _ _ _ h0 (by rw [a0]; decide)
  have a1 : (decAl g)[rax].toUInt8 = 6 := by rw [decAl_low, a0]; decide
  have h2 := iter _ _ _ _ _ h1 (by rw [a1]; decide)
  have a2 := decAl_low (decAl g); rw [a1] at a2
  have h3 := iter _ _ _ _ _ h2 (by rw [a2]; decide)
  have a3 := decAl_low (decAl (decAl g)); rw [a2] at a3
  have h4 := iter _ _ _ _ _ h3 (by rw [a3]; decide)
  have a4 := decAl_low (decAl (decAl (decAl g))); rw [a3] at a4
  have h5 := iter _ _ _ _ _ h4 (by rw [a4]; decide)
  have a5 := decAl_low (decAl (decAl (decAl (decAl g)))); rw [a4] at a5
  have h6 := iter _ _ _ _ _ h5 (by rw [a5]; decide)
  have a6 := decAl_low (decAl (decAl (decAl (decAl (decAl g))))); rw [a5] at a6
  have h7 := last _ _ _ _ _ h6 (by rw [a6]; decide)
  rw [run_add, run_add, run_add, run_add, run_add, run_add]
  exact h7

theorem final_frame (s : State) (r : Reg) (h0 : r ≠ rax) (h2 : r ≠ rdx) (h8 : r ≠ r8) (h4 : r ≠ rsp) :
    ((dec7 (gprAfterPrologue s)).set rsp ((dec7 (gprAfterPrologue s))[rsp] + 8))[r] = s.gpr[r] := by
  simp only [Fin.getElem_fin]
  rw [Vector.getElem_set_ne _ _ (fun e => h4 (Fin.ext e.symm))]
  have := dec7_ne (gprAfterPrologue s) r h0
  simp only [Fin.getElem_fin] at this
  rw [this]
  obtain ⟨n, hn⟩ := r
  have c0 : n ≠ 0 := fun e => h0 (Fin.ext e)
  have c2 : n ≠ 2 := fun e => h2 (Fin.ext e)
  have c8 : n ≠ 8 := fun e => h8 (Fin.ext e)
  have c4 : n ≠ 4 := fun e => h4 (Fin.ext e)
  have : n = 1 ∨ n = 3 ∨ n = 5 ∨ n = 6 ∨ n = 7 ∨ n = 9 ∨ n = 10 ∨ n = 11 ∨ n = 12 ∨ n = 13 ∨ n = 14 ∨ n = 15 := by omega
  rcases this with rfl | rfl | rfl | rfl | rfl | rfl | rfl | rfl | rfl | rfl | rfl | rfl <;> rfl

theorem final_rsp (s : State) : ((dec7 (gprAfterPrologue s)).set rsp ((dec7 (gprAfterPrologue s))[rsp] + 8))[rsp] = s.gpr[rsp] + 8 := by
  simp only [Fin.getElem_fin, Vector.getElem_set_self]
  have := dec7_ne (gprAfterPrologue s) rsp (by decide)
  simp only [Fin.getElem_fin] at this
  rw [this]
  rfl


theorem finalXof_frame (s : State) (r : Reg) (h0 : r ≠ rax) (h2 : r ≠ rdx) (h4 : r ≠ rsp) :
    ((dec7 (gprAfterPrologueXof s)).set rsp ((dec7 (gprAfterPrologueXof s))[rsp] + 8))[r] = s.gpr[r] := by
  simp only [Fin.getElem_fin]
  rw [Vector.getElem_set_ne _ _ (fun e => h4 (Fin.ext e.symm))]
  have := dec7_ne (gprAfterPrologueXof s) r h0
  simp only [Fin.getElem_fin] at this
  rw [this]
  obtain ⟨n, hn⟩ := r
  have c0 : n ≠ 0 := fun e => h0 (Fin.ext e)
  have c2 : n ≠ 2 := fun e => h2 (Fin.ext e)
  have c4 : n ≠ 4 := fun e => h4 (Fin.ext e)
  have : n = 1 ∨ n = 3 ∨ n = 5 ∨ n = 6 ∨ n = 7 ∨ n = 8 ∨ n = 9 ∨ n = 10 ∨ n = 11 ∨ n = 12 ∨ n = 13 ∨ n = 14 ∨ n = 15 := by omega
  rcases this with rfl | rfl | rfl | rfl | rfl | rfl | rfl | rfl | rfl | rfl | rfl | rfl | rfl <;> rfl

theorem finalXof_rsp (s : State) : ((dec7 (gprAfterPrologueXof s)).set rsp ((dec7 (gprAfterPrologueXof s))[rsp] + 8))[rsp] = s.gpr[rsp] + 8 := by
  simp only [Fin.getElem_fin, Vector.getElem_set_self]
  have := dec7_ne (gprAfterPrologueXof s) rsp (by decide)
  simp only [Fin.getElem_fin] at this
  rw [this]
  rfl

/-! ### the epilogues -/

theorem first8_feedForward (h : CV) (v : St) :
    first8 (Spec.feedForward h v)
      = #v[v[0] ^^^ v[8], v[1] ^^^ v[9], v[2] ^^^ v[10], v[3] ^^^ v[11], v[4] ^^^ v[12], v[5] ^^^ v[13], v[6] ^^^ v[14], v[7] ^^^ v[15]] := by
  rfl

theorem xor_rows_lo (v : St) : _mm_xor_si128 (row v 0) (row v 2) = #v[v[0] ^^^ v[8], v[1] ^^^ v[9], v[2] ^^^ v[10], v[3] ^^^ v[11]] := rfl
theorem xor_rows_hi (v : St) : _mm_xor_si128 (row v 1) (row v 3) = #v[v[4] ^^^ v[12], v[5] ^^^ v[13], v[6] ^^^ v[14], v[7] ^^^ v[15]] := rfl

/-- the 64 output bytes as the four stores write them -/
theorem xof_bytes (h : CV) (v : St) :
    bytes128 (_mm_xor_si128 (row v 0) (row v 2)) ++ bytes128 (_mm_xor_si128 (row v 1) (row v 3))
      ++ bytes128 (_mm_xor_si128 (row v 2) #v[h[0], h[1], h[2], h[3]]) ++ bytes128 (_mm_xor_si128 (row v 3) #v[h[4], h[5], h[6], h[7]])
      = bytesOfWords (Spec.feedForward h v) := by
  rw [vec16_eta v, vec8_eta h]
  rfl

end B3.AsmSem
