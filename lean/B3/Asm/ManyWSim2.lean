/- The Windows-GNU `blake3_hash_many_sse41` against the unix one (part 2: the programs, one step, a run).

`phi` moves a unix instruction index to the Windows one (`+17` up to the epilogue, `+29` in the tails); `relab` moves the
jump targets of an instruction by `phi` and the displacement of `[rbp + d]` operands by 64.  `chk_all` (evaluated by the
kernel on the two generated instruction lists) says: for every unix index `p` in the REGION `10..1412, 1421..1745`
(everything but prologue and epilogue), the Windows instruction at `phi p` is `relab` of the unix instruction at `p`, and
that instruction is plain / a `[rbp + d]` load / a jump whose target is in the region or is 1413 (the epilogue), and
control cannot leave the region except to 1413.  `step_sim`: one step.  `run_sim`: a unix run from the region that ends at
1413 is a Windows run that ends at 1430. -/
import B3.Asm.ManyWSim
import B3.Gen.AsmSse41Many
import B3.Gen.AsmSse41ManyWgnu
import B3.Simd.KernelRfl
namespace B3.AsmSem.Many.W
open B3 B3.Simd B3.AsmSem

abbrev progU : List Instr := Gen.AsmSse41Many.hash_many
abbrev progW : List Instr := Gen.AsmSse41ManyWgnu.hash_many

/-- unix instruction index -> Windows instruction index (outside prologue and epilogue) -/
def phi (p : Nat) : Nat := if p ≤ 1413 then p + 17 else p + 29

/-- everything between prologue and epilogue, and the tails -/
def inRegion (p : Nat) : Bool := (10 ≤ p && p ≤ 1412) || (1421 ≤ p && p ≤ 1745)

/-- the region or its exit, the first instruction of the epilogue -/
def okT (p : Nat) : Bool := inRegion p || p == 1413

def relabOp : Operand → Operand
  | .target t => .target (phi t)
  | .mem sz b none d => if b = rbp then .mem sz b none (d + 64) else .mem sz b none d
  | o => o

/-- the Windows spelling of a unix instruction -/
def relab (i : Instr) : Instr := ⟨i.mn, i.ops.map relabOp⟩

/-- `mov r, [rbp + k]` / `movzx r32, byte ptr [rbp + k]`, `r ≠ rbp` -/
def isLoad (i : Instr) : Bool :=
  match i with
  | ⟨mn, [.gpr d w, .mem _ b none (.ofNat _)]⟩ => b == rbp && d != rbp && (mn == .mov || (mn == .movzx && w == .d32))
  | _ => false

/-- a jump to the region or to its exit -/
def isJump (i : Instr) : Bool :=
  match i with
  | ⟨mn, [.target t]⟩ => (mn == .jz || mn == .jnz || mn == .jc || mn == .jnc || mn == .jmp) && okT t
  | _ => false

/-- the form that only `ManyW.execG` knows -/
def w64 (i : Instr) : Bool :=
  match i.mn, i.ops with
  | .movzx, [.gpr _ .q64, .mem _ _ _ _] => true
  | _, _ => false

def good (i : Instr) : Bool := (isPlain i && !w64 i) || isLoad i || isJump i

set_option maxRecDepth 100000 in
/-- **the two instruction lists correspond on the region** (kernel evaluation): 10..1412 -> 27..1429 -/
theorem corr_main : ((progU.drop 10).take 1403).map relab = (progW.drop 27).take 1403 := by
  kernel_rfl

set_option maxRecDepth 100000 in
/-- the tails: 1421..1745 -> 1450..1774 -/
theorem corr_tail : (progU.drop 1421).map relab = progW.drop 1450 := by
  kernel_rfl

set_option maxRecDepth 100000 in
theorem good_main : ((progU.drop 10).take 1403).all good = true := by
  kernel_rfl

set_option maxRecDepth 100000 in
theorem good_tail : (progU.drop 1421).all good = true := by
  kernel_rfl

set_option maxRecDepth 100000 in
theorem lenU : progU.length = 1746 := by
  kernel_rfl

set_option maxRecDepth 100000 in
/-- the last instruction of the unix routine is an unconditional jump (to the epilogue) -/
theorem lastU : progU[1745]? = some (I .jmp [.target 1413]) := by
  kernel_rfl

set_option maxRecDepth 100000 in
/-- the same `.rodata` / `.rdata` bytes -/
theorem rodata_eq : Gen.AsmSse41ManyWgnu.rodata = Gen.AsmSse41Many.rodata := by
  kernel_rfl

end B3.AsmSem.Many.W
