/-
Running the machine semantics `B3/Asm/Avx2Sem.lean` on the generated instruction list of
`blake3_hash_many_avx2` (G46) with concrete inputs, so that it can be compared with the real routine
running on the CPU (/verif/harness/c/build/cdriver, `CK hmany avx2_asm ...`), and the READ LOG of the
model evaluated on concrete cases (the C07 known finding as a fact about the translated code, at the
end of the file).

  hmany <n> <blocks> <seed> <key hex, 32 bytes> <counter> <r9> <flags> <fstart> <fend> <inoff> <outoff> <flat|fast|sep>
    -> the 32*n bytes at `out` afterwards, then ` ok` / ` FAULT` (the sticky fault flag), the status, the number of
       steps, ` reads` / ` READS!<k>` (every logged load lies inside the pointer array, the key, `.rodata`, the input
       area, the stack arguments + return address, or the routine's own frame; k = number of loads that do not),
       ` regs` / ` REGS!` (rbx rbp r12-r15 restored, rsp = entry rsp + 8) and ` frame` / ` FRAME!` (no byte of memory
       outside `out`, outside the 791 bytes below the entry rsp (6 pushes + 680 + at most 63 of alignment) and outside
       the stack-argument slot of `out` (entry rsp + 32, 8 bytes: the routine keeps the advancing pointer there) differs
       from the initial memory, checked on the windows that hold data and on 64 bytes around each of them)
The arguments and the layout are those of `B3/Asm/RunMany.lean` (G34), i.e. of `CK hmany` of the C harness.  Mode `sep`
= `fast` with the inputs 4096 bytes apart instead of adjacent (each input is then its own region for the ` reads`
check: this is the layout of `CK hmanysep`, where the over-read of the tail groups becomes visible).
-/
import B3.Gen.AsmAvx2Many
import B3.Asm.RunMany
namespace B3.AsmSem.Avx2.Run
open B3 B3.Simd B3.AsmSem B3.AsmSem.Avx2
open B3.AsmSem.Many.Run (hexOfBytes bytesOfHex u64 lcgFill ptrBase keyBase roBase inBase outBase rsp0 le64 Win lookup FastMem
  readBytes regsOk)

/-- bytes below the entry rsp the routine may use: 6 pushes, `sub rsp, 680`, `and rsp, -64` -/
def frameLen : Nat := 48 + 680 + 63

/-- address of input `i` (`gap` bytes between consecutive inputs) -/
def inAddr (blocks gap : Nat) (inoff : UInt64) (i : Nat) : UInt64 := inBase + inoff + UInt64.ofNat (i * (blocks * 64 + gap))

/-- the windows of the initial memory: pointer array, key, .rodata, out (prefilled), stack arguments, one per input -/
def initWins (n blocks gap : Nat) (seed : UInt64) (key : Array UInt8) (flags fs fe : UInt8) (inoff outoff : UInt64) : Array Win :=
  let len := blocks * 64
  let ptrs : Array UInt8 := (Array.range n).foldl (fun acc i => acc ++ le64 (inAddr blocks gap inoff i)) #[]
  let args : Array UInt8 :=
    le64 (0xA5C3A5C3A5C3A500 ||| flags.toUInt64) ++ le64 (0xA5C3A5C3A5C3A500 ||| fs.toUInt64)
      ++ le64 (0xA5C3A5C3A5C3A500 ||| fe.toUInt64) ++ le64 (outBase + outoff)
  #[⟨ptrBase, ⟨ptrs⟩⟩, ⟨keyBase, ⟨key⟩⟩, ⟨roBase, ⟨Gen.AsmAvx2Many.rodata.toArray⟩⟩,
    ⟨outBase + outoff, ⟨Array.replicate (32 * n) 0x55⟩⟩, ⟨rsp0 + 8, ⟨args⟩⟩]
    ++ (Array.range n).map fun i => ⟨inAddr blocks gap inoff i, ⟨lcgFill len (seed + UInt64.ofNat i)⟩⟩

def junkY : Y := ⟨#v[0xDEADBEEF, 0x01234567, 0x89ABCDEF, 0xFEEDFACE], #v[0x0BADF00D, 0x76543210, 0x13579BDF, 0xCAFEBABE]⟩

def initGpr (n blocks : Nat) (counter r9v : UInt64) : Vector UInt64 16 :=
  #v[0x1111111111111111, keyBase, UInt64.ofNat blocks, 0x3333333333333333, rsp0, 0x5555555555555555, UInt64.ofNat n, ptrBase,
     counter, r9v, 0xAAAAAAAAAAAAAAAA, 0xBBBBBBBBBBBBBBBB, 0xCCCCCCCCCCCCCCCC, 0xDDDDDDDDDDDDDDDD,
     0xEEEEEEEEEEEEEEEE, 0xFFFFFFFFFFFFFFFF]

def initState {μ : Type} (m : μ) (n blocks : Nat) (counter r9v : UInt64) : StateG μ :=
  { ymm := Vector.replicate 16 junkY, gpr := initGpr n blocks counter r9v, zf := true, cf := true, mem := m, reads := [],
    pc := 0, status := .running, ok := true }

/-- run until `ret` (at most `fuel` steps); returns the state and the number of steps -/
def runCount {μ : Type} (A : MemAcc μ) (rb : UInt64) (prog : Array Instr) : Nat → Nat → StateG μ → StateG μ × Nat
  | 0, n, s => (s, n)
  | fuel + 1, n, s =>
    if s.status = .returned then (s, n) else
    -- `stepG` with the instruction list held in an array (`prog[pc]?` of a list is linear in `pc`)
    runCount A rb prog fuel (n + 1)
      (match prog[s.pc]? with
       | some i => execG A rb i s
       | none => { s with ok := false, status := .returned })

/-- the array form of the fetch above is `stepG` on the list -/
example (A : MemAcc μ) (rb : UInt64) (prog : List Instr) (s : StateG μ) (h : s.status = .running) :
    stepG A rb prog s = (match prog.toArray[s.pc]? with
       | some i => execG A rb i s
       | none => { s with ok := false, status := .returned }) := by
  cases hp : prog[s.pc]? <;> simp [stepG, h, hp]

/-! ### the memory with the written bytes kept apart (the `FastMem` of G34's runner) -/

def fastAcc : MemAcc FastMem where
  ld8 m _ a := m.view a
  ld32 m _ a := m.view.word a
  ld64 m _ a := Many.load64 m.view a
  ld128 m _ a := load128 m.view a
  st32 m _ a v := (List.range 4).foldl (fun m k => m.set (a + UInt64.ofNat k) (v >>> (8 * UInt32.ofNat k)).toUInt8) m
  st64 m _ a v := (List.range 8).foldl (fun m k => m.set (a + UInt64.ofNat k) (v >>> (8 * UInt64.ofNat k)).toUInt8) m
  st128 m _ a v := (List.range 16).foldl (fun m k => m.set (a + UInt64.ofNat k) (byte128 v k)) m
  al16 _ a := aligned16 a
  al32 _ a := aligned32 a

def mkFast (base : Memory) (outLo : UInt64) (outLen : Nat) : FastMem :=
  -- the stack: 832 bytes below the entry rsp and the 48 bytes of return address + stack arguments above it
  let w1 : Win := ⟨rsp0 - 832, ⟨(Array.range 880).map fun k => base (rsp0 - 832 + UInt64.ofNat k)⟩⟩
  let w2 : Win := ⟨outLo, ⟨(Array.range outLen).map fun k => base (outLo + UInt64.ofNat k)⟩⟩
  { base := base, wins := #[w1, w2], stray := [] }

/-- the final memory equals the initial one outside `out` and outside the `frameLen` bytes below the entry rsp, on every
window of the initial memory extended by 64 bytes on both sides, and on 64 bytes above and below the frame area -/
def frameOk (ws : Array Win) (m0 m1 : Memory) (outLo : UInt64) (outLen : Nat) : Bool :=
  let inOut (p : UInt64) : Bool := p - outLo < UInt64.ofNat outLen
  let inFrame (p : UInt64) : Bool := p - (rsp0 - UInt64.ofNat frameLen) < UInt64.ofNat frameLen
  -- the 8-way loop keeps the advancing `out` pointer in its own stack-argument slot (`mov qword ptr [rbp+0x50], rbx`):
  -- the 8 bytes at entry rsp + 32 belong to the callee (System V: the argument area is the callee's to modify)
  let inArg (p : UInt64) : Bool := p - (rsp0 + 32) < 8
  let okAt (p : UInt64) : Bool := inOut p || inFrame p || inArg p || m0 p == m1 p
  ws.all (fun w => (List.range (w.bytes.size + 128)).all fun k => okAt (w.lo - 64 + UInt64.ofNat k))
    && (List.range 960).all (fun k => okAt (rsp0 - 896 + UInt64.ofNat k))

/-! ### the read log -/

/-- the load of `n` bytes at `a` lies inside the region `[lo, lo + len)` -/
def inside (a : UInt64) (n : Nat) (r : UInt64 × Nat) : Bool := (a - r.1).toNat + n ≤ r.2

/-- what the routine may read: the pointer array, the key, `.rodata`, the stack arguments with the return address, its own
frame, and the inputs (adjacent inputs = one region: the buffer the caller owns; separate inputs = one region each) -/
def regions (n blocks gap : Nat) (inoff : UInt64) : List (UInt64 × Nat) :=
  [(ptrBase, 8 * n), (keyBase, 32), (roBase, Gen.AsmAvx2Many.rodata.length), (rsp0, 40), (rsp0 - UInt64.ofNat frameLen, frameLen)]
    ++ (if gap = 0 then [(inAddr blocks 0 inoff 0, n * blocks * 64)]
        else (List.range n).map fun i => (inAddr blocks gap inoff i, blocks * 64))

/-- the logged loads that are not inside any region -/
def strayReads (reads : List (UInt64 × Nat)) (rs : List (UInt64 × Nat)) : List (UInt64 × Nat) :=
  reads.filter fun (a, n) => !(rs.any (inside a n))

def report (out : List UInt8) (ok : Bool) (st : Status) (steps : Nat) (stray : Nat) (regs frame : Bool) : String :=
  hexOfBytes out ++ (if ok then " ok " else " FAULT ") ++ (if st = .returned then "returned " else "running ")
    ++ toString steps ++ (if stray = 0 then " reads" else " READS!" ++ toString stray)
    ++ (if regs then " regs" else " REGS!") ++ (if frame then " frame" else " FRAME!")

def prog : Array Instr := Gen.AsmAvx2Many.hash_many.toArray

def fuelFor (n blocks : Nat) : Nat := 2000 + 4000 * (n + 8) * (blocks + 1)

/-- the fast run: final state and number of steps -/
def runFast (n blocks gap : Nat) (seed : UInt64) (key : Array UInt8) (flags fs fe : UInt8) (inoff outoff counter r9v : UInt64) :
    StateG FastMem × Nat :=
  let ws := initWins n blocks gap seed key flags fs fe inoff outoff
  runCount fastAcc roBase prog (fuelFor n blocks) 0 (initState (mkFast (lookup ws) (outBase + outoff) (32 * n)) n blocks counter r9v)

def runLine (toks : List String) : Option String :=
  match toks with
  | ["hmany", n, blocks, seed, key, counter, r9v, flags, fs, fe, inoff, outoff, mode] => do
    let n ← n.toNat?
    let blocks ← blocks.toNat?
    let key ← bytesOfHex key
    if key.size ≠ 32 ∨ n > 64 ∨ blocks > 64 then none
    let flags ← u64 flags; let fs ← u64 fs; let fe ← u64 fe
    let inoff ← u64 inoff; let outoff ← u64 outoff
    let counter ← u64 counter; let r9v ← u64 r9v
    let seed ← u64 seed
    let gap := if mode = "sep" then 4096 else 0
    let ws := initWins n blocks gap seed key flags.toUInt8 fs.toUInt8 fe.toUInt8 inoff outoff
    let m0 : Memory := lookup ws
    let outLo := outBase + outoff
    let g0 := initGpr n blocks counter r9v
    let rs := regions n blocks gap inoff
    if mode = "flat" then
      let (s, steps) := runCount flat roBase prog (fuelFor n blocks) 0 (initState m0 n blocks counter r9v)
      some (report (readBytes s.mem outLo (32 * n)) s.ok s.status steps (strayReads s.reads rs).length (regsOk g0 s.gpr)
        (frameOk ws m0 s.mem outLo (32 * n)))
    else if mode = "fast" ∨ mode = "sep" then
      let (s, steps) := runFast n blocks gap seed key flags.toUInt8 fs.toUInt8 fe.toUInt8 inoff outoff counter r9v
      some (report (readBytes s.mem.view outLo (32 * n)) s.ok s.status steps (strayReads s.reads rs).length (regsOk g0 s.gpr)
        (frameOk ws m0 s.mem.view outLo (32 * n) && s.mem.stray.isEmpty))
    else none
  | _ => none

/-! ### the known finding of C07 (DESIGN.md §8.3) as a fact about the translated code

`overreads n blocks`: run the translated routine under the semantics on `n` inputs of `blocks` blocks that lie 4096
bytes apart, and list, for every logged load that is not inside a region the routine may read, the index of the input in
which the load STARTS and the number of bytes by which it runs past that input's end (sorted, duplicates removed).
The `#guard`s below are evaluated by the compiler's evaluator on the generated instruction list: whenever
`num_inputs % 8` is in 2..7 the first input of each 2-input pair handled by the tail code (the 4-input group is two such
pairs: `vmovups ymm, [r8+rdx-0x10]` / `[r10+rdx-0x10]`, 32 bytes, of which the upper 16 are then overwritten by
`vinsertf128`) is read 16 bytes past its end -- and nothing else is ever read outside the regions; for
`num_inputs % 8` in {0, 1} nothing is. -/

def overreadsOf (n blocks : Nat) (reads : List (UInt64 × Nat)) : List (Nat × Nat) :=
  let gap := 4096
  let strays := strayReads reads (regions n blocks gap 0)
  let tagged := strays.map fun (a, len) =>
    match (List.range n).find? (fun i => a - inAddr blocks gap 0 i < UInt64.ofNat (blocks * 64)) with
    | some i => (i, (a - inAddr blocks gap 0 i).toNat + len - blocks * 64)
    | none => (1000, 0)       -- a stray load that does not even start inside an input
  (tagged.foldl (fun acc x => if acc.contains x then acc else acc ++ [x]) []).mergeSort (fun x y => x.1 < y.1 || (x.1 == y.1 && x.2 ≤ y.2))

def overreads (n blocks : Nat) (counter : UInt64 := 5) (incr : UInt64 := 1) : List (Nat × Nat) :=
  let key : Array UInt8 := (Array.range 32).map fun k => UInt8.ofNat (3 * k + 1)
  let (s, _) := runFast n blocks 4096 77 key 0x10 0x01 0x02 0 0 counter incr
  if s.ok && s.status == .returned then overreadsOf n blocks s.reads else [(2000, 0)]

#guard overreads 0 1 == []
#guard overreads 1 1 == []
#guard overreads 2 1 == [(0, 16)]
#guard overreads 3 1 == [(0, 16)]
#guard overreads 4 1 == [(0, 16), (2, 16)]
#guard overreads 5 1 == [(0, 16), (2, 16)]
#guard overreads 6 1 == [(0, 16), (2, 16), (4, 16)]
#guard overreads 7 1 == [(0, 16), (2, 16), (4, 16)]
#guard overreads 8 1 == []
#guard overreads 9 1 == []
#guard overreads 10 1 == [(8, 16)]
#guard overreads 15 1 == [(8, 16), (10, 16), (12, 16)]
#guard overreads 16 1 == []
#guard overreads 6 2 == [(0, 16), (2, 16), (4, 16)]
#guard overreads 3 16 == [(0, 16)]

end B3.AsmSem.Avx2.Run
