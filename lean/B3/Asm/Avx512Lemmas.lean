/-
Facts about the machine semantics `B3/Asm/Avx512Sem.lean` that do not depend on a particular routine
(the counterparts of the `run` lemmas of B3/Asm/Lemmas.lean and of `loop7` of B3/Asm/Compress.lean for
`runV`; everything about `State` / `Memory` alone is reused from those files): running, the four
rotations as `vprord` computes them, the sticky fault flag, seven trips round the loop.
-/
import B3.Asm.Compress
import B3.Asm.Avx512Sem
namespace B3.AsmSem.Avx512
open B3 B3.Simd B3.AsmSem

/-! ### running -/

theorem runV_add (rb : UInt64) (p : List VInstr) (a b : Nat) (s : State) :
    runV rb p (a + b) s = runV rb p b (runV rb p a s) := by
  induction a generalizing s with
  | zero => simp [runV]
  | succ n ih => rw [Nat.add_right_comm]; exact ih _

theorem runV_returned (rb : UInt64) (p : List VInstr) (n : Nat) (s : State) (h : s.status = .returned) :
    runV rb p n s = s := by
  induction n with
  | zero => rfl
  | succ n ih =>
    show runV rb p n (stepV rb p s) = s
    have : stepV rb p s = s := by unfold stepV; rw [h]
    rw [this, ih]

/-! ### rotations: `vprord x, x, n` is the specification's `rotr · n` -/

def ror16 (x : UInt32) : UInt32 := C512.ror32 x 16
def ror12 (x : UInt32) : UInt32 := C512.ror32 x 12
def ror8 (x : UInt32) : UInt32 := C512.ror32 x 8
def ror7 (x : UInt32) : UInt32 := C512.ror32 x 7

theorem ror16_eq (x : UInt32) : ror16 x = rotr x 16 := rfl
theorem ror12_eq (x : UInt32) : ror12 x = rotr x 12 := rfl
theorem ror8_eq (x : UInt32) : ror8 x = rotr x 8 := rfl
theorem ror7_eq (x : UInt32) : ror7 x = rotr x 7 := rfl

/-! ### the fault flag is sticky -/

theorem v3_ok (rb : UInt64) (f : V4 → V4 → V4) (ops : List Operand) (s : State) (h : (v3 rb f ops s).ok = true) : s.ok = true := by
  unfold v3 at h
  split at h
  · split at h <;> simp_all
  · simp at h

theorem v3i_ok (rb : UInt64) (f : V4 → V4 → Nat → V4) (ops : List Operand) (s : State) (h : (v3i rb f ops s).ok = true) :
    s.ok = true := by
  unfold v3i at h
  split at h
  · split at h <;> simp_all
  · simp at h

theorem v2i_ok (rb : UInt64) (f : V4 → Nat → V4) (ops : List Operand) (s : State) (h : (v2i rb f ops s).ok = true) : s.ok = true := by
  unfold v2i at h
  split at h
  · split at h <;> simp_all
  · simp at h

/-- an instruction never sets the fault flag again -/
theorem execV_ok_mono (rb : UInt64) (i : VInstr) (s : State) (h : (execV rb i s).ok = true) : s.ok = true := by
  cases i with
  | base b => exact exec_ok_mono rb b s h
  | v mn ops =>
    unfold execV at h
    cases mn
    all_goals simp only at h
    all_goals first
      | exact mov128_ok _ _ _ _ h
      | exact v3_ok _ _ _ _ h
      | exact v3i_ok _ _ _ _ h
      | exact v2i_ok _ _ _ _ h
      | (split at h <;> first | (exact h) | (simp at h; done) | (simp at h; exact h))

theorem stepV_ok_mono (rb : UInt64) (prog : List VInstr) (s : State) (h : (stepV rb prog s).ok = true) : s.ok = true := by
  unfold stepV at h
  split at h
  · exact h
  · split at h
    · exact execV_ok_mono _ _ _ h
    · simp at h

theorem runV_ok_mono (rb : UInt64) (prog : List VInstr) (n : Nat) (s : State) (h : (runV rb prog n s).ok = true) : s.ok = true := by
  induction n generalizing s with
  | zero => exact h
  | succ n ih => exact stepV_ok_mono _ _ _ (ih _ h)

/-- so `ok = true` at the end means that no step of the run faulted -/
theorem runV_ok_prefix (rb : UInt64) (prog : List VInstr) (a b : Nat) (s : State) (h : (runV rb prog (a + b) s).ok = true) :
    (runV rb prog a s).ok = true := by
  rw [runV_add] at h
  exact runV_ok_mono _ _ _ _ h

/-! ### seven trips round a loop counted down in `al` from 7 (as `AsmSem.loop7`, for `runV`) -/

theorem loop7V {V : Type} (vw : State → V) (rb : UInt64) (prog : List VInstr) (nIter nLast : Nat)
    (head exit : St → St → Vector UInt64 16 → Memory → V)
    (iter : ∀ (s : State) (S W : St) (g : Vector UInt64 16) (m : Memory), vw s = head S W g m →
      (g[rax].toUInt8 - 1 == 0) = false → vw (runV rb prog nIter s) = head (Spec.round S W) (Spec.permute W) (decAl g) m)
    (last : ∀ (s : State) (S W : St) (g : Vector UInt64 16) (m : Memory), vw s = head S W g m →
      (g[rax].toUInt8 - 1 == 0) = true → vw (runV rb prog nLast s) = exit (Spec.round S W) W (decAl g) m)
    (s : State) (S W : St) (g : Vector UInt64 16) (m : Memory) (h0 : vw s = head S W g m) (a0 : g[rax].toUInt8 = 7) :
    vw (runV rb prog (nIter + (nIter + (nIter + (nIter + (nIter + (nIter + nLast)))))) s)
      = exit (Spec.rounds7 S W)
          (Spec.permute (Spec.permute (Spec.permute (Spec.permute (Spec.permute (Spec.permute W)))))) (dec7 g) m := by
  have h1 := iter _ _ _ _ _ h0 (by rw [a0]; decide)
  have a1 : (decAl g)[rax].toUInt8 = 6 := by rw [decAl_low, a0]; decide
  have h2 := iter _ _ _ _ _ h1 (by rw [a1]; decide)
  have a2 := decAl_low (decAl g); rw [a1] at a2
  have h3 := iter _ _ _ _ _ h2 (by rw [a2]; decide)
  have a3 := decAl_low (decAl (decAl g)); rw [a2] at a3
  have h4 := iter _ _ _ _ _ h3 (by rw [a3]; decide)
  have a4 := decAl_low (decAl (decAl (decAl g))); rw [a3] at a4
  have h5 := iter _ _ _ _ _ h4 (by rw [a4]; decide)
  have a5 := decAl_low (decAl (decAl (decAl (decAl g)))); rw [a4] at a5
  have h6 := iter _ _ _ _ _ h5 (by rw [a5]; decide)
  have a6 := decAl_low (decAl (decAl (decAl (decAl (decAl g))))); rw [a5] at a6
  have h7 := last _ _ _ _ _ h6 (by rw [a6]; decide)
  rw [runV_add, runV_add, runV_add, runV_add, runV_add, runV_add]
  exact h7

end B3.AsmSem.Avx512
