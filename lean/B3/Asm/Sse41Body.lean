/-
`blake3_compress_in_place_sse41` (generated instruction list `B3.Gen.AsmSse41.compress_in_place`):
the machine semantics executed symbolically on each straight-line piece of the routine, cut BY
POSITION (instruction indices of the generated list):
  0..24   prologue (loads, row 3 from rcx / rdx / r8, message grouping, tables, `mov al, 7`)
  25..70  one round (46 instructions)           71 `dec al`     72 `jz 9f`
  73..89  message permutation + `jmp 9b`        90..94 feed-forward, two stores, `ret`
Each lemma is an equation between the tracked part (`view`) of the state after `run`ning the piece
from a symbolic state and an explicit value; it is closed by `kernel_rfl`, i.e. by evaluation of
`run` in the kernel (see B3/Simd/KernelRfl.lean; nothing is assumed, a wrong equation is rejected).
-/
import B3.Asm.Compress
import B3.Simd.KernelRfl
import B3.Gen.AsmSse41
namespace B3.AsmSem.Sse41
open B3 B3.Simd B3.AsmSem B3.Gen.AsmSse41

/-! ### the four rotations as the SSE4.1 code computes them (`pshufb` with ROT16 / ROT8, shift-shift-or) -/
def a16 (x : UInt32) : UInt32 := le32 (byteOf x 2) (byteOf x 3) (byteOf x 0) (byteOf x 1)
def a12 (x : UInt32) : UInt32 := sll32 x 20 ||| srl32 x 12
def a8 (x : UInt32) : UInt32 := le32 (byteOf x 1) (byteOf x 2) (byteOf x 3) (byteOf x 0)
def a7 (x : UInt32) : UInt32 := sll32 x 25 ||| srl32 x 7

theorem a16_eq (x : UInt32) : a16 x = rotr x 16 := rot_bytes16 x
theorem a12_eq (x : UInt32) : a12 x = rotr x 12 := rot_shift12 x
theorem a8_eq (x : UInt32) : a8 x = rotr x 8 := rot_bytes8 x
theorem a7_eq (x : UInt32) : a7 x = rotr x 7 := rot_shift7 x

/-- instructions 0..24 from ANY state at `pc = 0` -/
theorem prologue_raw (rb : UInt64) (x0 x1 x2 x3 x4 x5 x6 x7 x8 x9 x10 x11 x12 x13 x14 x15 : V4)
    (g0 g1 g2 g3 g4 g5 g6 g7 g8 g9 g10 g11 g12 g13 g14 g15 : UInt64) (z : Bool) (m : Memory) :
    view (run rb compress_in_place 25
      ⟨#v[x0, x1, x2, x3, x4, x5, x6, x7, x8, x9, x10, x11, x12, x13, x14, x15],
       #v[g0, g1, g2, g3, g4, g5, g6, g7, g8, g9, g10, g11, g12, g13, g14, g15], z, m, 0, .running, true⟩)
    = ⟨load128 m (g7 + UInt64.ofNat 0), load128 m (g7 + UInt64.ofNat 16), load128 m (rb + UInt64.ofNat 0),
       #v[g1.toUInt32, (g1 >>> 32).toUInt32, (g2 + (g8 <<< 32)).toUInt32, ((g2 + (g8 <<< 32)) >>> 32).toUInt32],
       grp0 (blockRaw m g6), grp1 (blockRaw m g6), grp2 (blockRaw m g6), grp3 (blockRaw m g6),
       load128 m (rb + UInt64.ofNat 32), load128 m (rb + UInt64.ofNat 16),
       #v[merge .b8 g0 7, g1, g2 + (g8 <<< 32), g3, g4, g5, g6, g7, g8 <<< 32, g9, g10, g11, g12, g13, g14, g15], m, 25, .running,
       ((true && aligned16 (rb + UInt64.ofNat 0)) && aligned16 (rb + UInt64.ofNat 32)) && aligned16 (rb + UInt64.ofNat 16)⟩ := by
  kernel_rfl

/-- instructions 25..70: one round on the rows, message registers unchanged -/
theorem body_raw (rb : UInt64) (S W : St) (j8 j9 j10 j11 j12 j13 : V4) (g : Vector UInt64 16) (z : Bool) (m : Memory) :
    view (run rb compress_in_place 46
      ⟨#v[row S 0, row S 1, row S 2, row S 3, grp0 W, grp1 W, grp2 W, grp3 W, j8, j9, j10, j11, j12, j13, ROT8, ROT16],
       g, z, m, 25, .running, true⟩)
    = ⟨row (roundP a16 a12 a8 a7 S (fun i => W[i])) 0, row (roundP a16 a12 a8 a7 S (fun i => W[i])) 1,
       row (roundP a16 a12 a8 a7 S (fun i => W[i])) 2, row (roundP a16 a12 a8 a7 S (fun i => W[i])) 3,
       grp0 W, grp1 W, grp2 W, grp3 W, ROT8, ROT16, g, m, 71, .running, true⟩ := by
  atoms16 S; atoms16 W
  kernel_rfl

/-- instruction 71, `dec al` -/
theorem dec_raw (rb : UInt64) (x : Vector V4 16) (g : Vector UInt64 16) (z : Bool) (m : Memory) (ok : Bool) :
    step rb compress_in_place ⟨x, g, z, m, 71, .running, ok⟩
      = ⟨x, decAl g, trunc .b8 (trunc .b8 g[rax] - 1) == 0, m, 72, .running, ok⟩ := by
  kernel_rfl

/-- instruction 72, `jz 9f`, ZF set -/
theorem jz_taken (rb : UInt64) (x : Vector V4 16) (g : Vector UInt64 16) (m : Memory) (ok : Bool) :
    step rb compress_in_place ⟨x, g, true, m, 72, .running, ok⟩ = ⟨x, g, true, m, 90, .running, ok⟩ := by
  kernel_rfl

/-- instruction 72, `jz 9f`, ZF clear -/
theorem jz_not_taken (rb : UInt64) (x : Vector V4 16) (g : Vector UInt64 16) (m : Memory) (ok : Bool) :
    step rb compress_in_place ⟨x, g, false, m, 72, .running, ok⟩ = ⟨x, g, false, m, 73, .running, ok⟩ := by
  kernel_rfl

/-- instructions 73..89: the message registers go from the grouped words of `W` to those of `permute W`; back to 25 -/
theorem perm_raw (rb : UInt64) (r0 r1 r2 r3 : V4) (W : St) (j8 j9 j10 j11 j12 j13 t14 t15 : V4)
    (g : Vector UInt64 16) (z : Bool) (m : Memory) :
    view (run rb compress_in_place 17
      ⟨#v[r0, r1, r2, r3, grp0 W, grp1 W, grp2 W, grp3 W, j8, j9, j10, j11, j12, j13, t14, t15], g, z, m, 73, .running, true⟩)
    = ⟨r0, r1, r2, r3, grp0 (Spec.permute W), grp1 (Spec.permute W), grp2 (Spec.permute W), grp3 (Spec.permute W),
       t14, t15, g, m, 25, .running, true⟩ := by
  atoms16 W
  kernel_rfl

/-- instructions 90..94: feed-forward of the low half, two stores at `[rdi]`, `[rdi+16]`, `ret` -/
theorem epilogue_raw (rb : UInt64) (r0 r1 r2 r3 m0 m1 m2 m3 j8 j9 j10 j11 j12 j13 t14 t15 : V4)
    (g : Vector UInt64 16) (z : Bool) (m : Memory) :
    view (run rb compress_in_place 5
      ⟨#v[r0, r1, r2, r3, m0, m1, m2, m3, j8, j9, j10, j11, j12, j13, t14, t15], g, z, m, 90, .running, true⟩)
    = ⟨_mm_xor_si128 r0 r2, _mm_xor_si128 r1 r3, r2, r3, m0, m1, m2, m3, t14, t15,
       g.set rsp (g[rsp] + 8),
       store128 (store128 m (g[rdi] + UInt64.ofNat 0) (_mm_xor_si128 r0 r2)) (g[rdi] + UInt64.ofNat 16) (_mm_xor_si128 r1 r3),
       94, .returned, true⟩ := by
  kernel_rfl

end B3.AsmSem.Sse41
