/- round 5 of the 8-way loop of `blake3_hash_many_avx2`: instructions 756..907 of the generated list, evaluated in the
kernel on the frame machine over symbolic lanes -/
import B3.Asm.Avx2RBase
namespace B3.AsmSem.Avx2
open B3 B3.Simd B3.AsmSem B3.Gen.AsmAvx2Many

theorem r5_raw (rb : UInt64) (S M : L8) (j8 : Y) (f : Vector V4 8) (g : Vector UInt64 16) (z c : Bool) (bl : UInt64) (m : Memory)
    (rd : List (UInt64 × Nat)) :
    rview8 (frun rodata rb hash_many 152 (roundS8 S M j8 f g z c bl m rd 756))
      = roundV8 (roundL 4 S M) M f g z c bl m 908 := by
  kernel_rfl

end B3.AsmSem.Avx2
