/-
Running the machine semantics on the instruction lists translated from the MSVC (MASM) files
c/blake3_sse2_x86-64_windows_msvc.asm (`B3.Gen.AsmSse2Msvc`, semantics B3/Asm/WinSem.lean) and
c/blake3_avx512_x86-64_windows_msvc.asm (`B3.Gen.AsmAvx512Msvc`, semantics B3/Asm/Avx512Sem.lean) with concrete inputs.
There is no MASM assembler on the machine, hence no assembled MSVC object: the answers are compared with those of the CPU
running the Windows-GNU objects on the same inputs (/verif/harness/c/build/cdriver, `CK cip|cxof win_sse2_asm|win_avx512_asm ..`,
called through an `ms_abi` trampoline that checks the callee-saved registers).

  cip  <sse2msvc|avx512msvc> <cv hex, 32 bytes> <block hex, 64 bytes> <r8> <r9> <slot5>   -> the 32 bytes at `cv` afterwards
  cxof <sse2msvc|avx512msvc> <cv hex, 32 bytes> <block hex, 64 bytes> <r8> <r9> <slot5>   -> the 64 bytes at `out` afterwards
followed by ` ok` / ` FAULT` (the sticky fault flag), the status, the number of steps used, and `saved` / `REGS` (whether rsp
is popped and xmm6-15, rbx, rbp, rdi, rsi, r12-r15 hold their entry values).  Same line format, same memory layout and same
initial registers as lean/RunAsmWin.lean (B3/Asm/WgnuRun.lean) for `sse2msvc` and as the Windows rows of lean/RunAsm512.lean
(B3/Asm/Run512.lean) for `avx512msvc`: cv at 0x10008 (only 8-byte aligned), block at 0x20001 (unaligned), the file's `_RDATA`
segment at 0x30040, out at 0x40004, rsp = 0x7fff0008, `[rsp+0x28]` = slot5 (the full 64-bit content of the fifth argument's
slot; the routines read its low byte), `[rsp+0x30]` = the address of out, `r8 r9` the full 64-bit register values (decimal).
-/
import B3.Gen.AsmSse2Msvc
import B3.Gen.AsmAvx512Msvc
import B3.Asm.WgnuRun
import B3.Asm.Run512
namespace B3.AsmSem.MsvcRun
open B3 B3.Simd B3.AsmSem B3.AsmSem.Run

def runLine (toks : List String) : Option String :=
  match toks with
  | [op, isa, cv, block, r8v, r9v, slot5] => do
    let cv ← bytesOfHex cv
    let block ← bytesOfHex block
    if cv.size ≠ 32 ∨ block.size ≠ 64 then none
    let a ← u64 r8v
    let b ← u64 r9v
    let c ← u64 slot5
    let (base, n) ← (if op = "cip" then some (cvBase, 32) else if op = "cxof" then some (outBase, 64) else none)
    let (s, steps, saved) ← (
      if isa = "sse2msvc" then
        let s0 := WgnuRun.initState cv block Gen.AsmSse2Msvc.rodata.toArray a b c
        let prog := if op = "cip" then Gen.AsmSse2Msvc.compress_in_place else Gen.AsmSse2Msvc.compress_xof
        let (s, steps) := WgnuRun.runCount roBase prog 2000 0 s0
        some (s, steps, WgnuRun.savedOk s0 s)
      else if isa = "avx512msvc" then
        let s0 := Run512.initStateW cv block Gen.AsmAvx512Msvc.rodata.toArray a b c
        let prog := if op = "cip" then Gen.AsmAvx512Msvc.compress_in_place else Gen.AsmAvx512Msvc.compress_xof
        let (s, steps) := Run512.runCountV roBase prog 2000 0 s0
        some (s, steps, s.gpr[rsp] == s0.gpr[rsp] + 8 && Run512.keptGpr s0 s [rbx, rbp, rsi, rdi, r12, r13, r14, r15]
          && Run512.keptXmm s0 s 6)
      else none)
    some (hexOfBytes (readBytes s.mem base n) ++ (if s.ok then " ok " else " FAULT ")
      ++ (if s.status = .returned then "returned " else "running ") ++ toString steps
      ++ (if saved then " saved" else " REGS"))
  | _ => none

end B3.AsmSem.MsvcRun
