/-
`blake3_compress_in_place_avx512` (c/blake3_avx512_x86-64_unix.S): the pieces of B3/Asm/Avx512Body.lean
composed along the control flow of the routine (prologue, six trips round the loop with the branch not
taken, the seventh with the branch taken, epilogue; 22 + 6*50 + 36 + 5 = 363 instructions executed), and
the result related to `Spec.compress`.  Unlike its SSE4.1 / SSE2 siblings, this routine zero-extends `dl`
and `r8b` itself (`movzx eax, r8b; movzx edx, dl`), so nothing is assumed about the upper bits of rdx, r8.
-/
import B3.Asm.Avx512Body
namespace B3.AsmSem.Avx512.Unix
open B3 B3.Simd B3.AsmSem B3.AsmSem.Avx512 B3.Gen.AsmAvx512

/-! ### the `.rodata` section of c/blake3_avx512_x86-64_unix.S in memory -/

abbrev Rodata (rb : UInt64) (m : Memory) : Prop := RodataLoaded rodata rodataAlign rb m

set_option maxRecDepth 8000 in
theorem table_IV {rb : UInt64} {m : Memory} (h : Rodata rb m) : load128 m (rb + UInt64.ofNat 256) = BLAKE3_IV := by
  rw [load128_of_holds m rb rodata 256 h.holds (by decide)]; decide

theorem tables_aligned {rb : UInt64} {m : Memory} (h : Rodata rb m) :
    (true && aligned16 (rb + UInt64.ofNat 256)) = true := by
  rw [aligned16_of rb rodataAlign 256 (by decide) h.aligned (by decide)]
  rfl

/-! ### the stages -/

/-- the tracked state at instruction `pc`: rows of `S` in XMM0-3, grouped words of `W` in XMM4-7 -/
abbrev atPc (pc : Nat) (S W : St) (g : Vector UInt64 16) (m : Memory) : View2 :=
  ⟨row S 0, row S 1, row S 2, row S 3, grp0 W, grp1 W, grp2 W, grp3 W, g, m, pc, .running, true⟩

theorem prologue_stage (rb : UInt64) (s : State) (hpc : s.pc = 0) (hst : s.status = .running) (hok : s.ok = true)
    (hro : Rodata rb s.mem) :
    view2 (runV rb compress_in_place 22 s)
      = atPc 22 (Spec.initState (readWords s.mem s.gpr[rdi] 8) s.gpr[rcx] s.gpr[rdx].toUInt8.toUInt32 s.gpr[r8].toUInt8.toUInt32)
          (readWords s.mem s.gpr[rsi] 16) (gprAfterPrologueXof s) s.mem := by
  have hs := state_eta s hpc hst hok
  obtain ⟨e1, e2⟩ := lenFlagsRaw_words s.gpr[rdx] s.gpr[r8]
  rw [← e1, ← e2]
  rw [hs, prologue_raw, table_IV hro, tables_aligned hro, ← hs, ← cvRaw_eq, ← blockRaw_eq]
  simp only [atPc]
  congr 1

theorem body_stage (rb : UInt64) (s : State) (S W : St) (g : Vector UInt64 16) (m : Memory)
    (h : view2 s = atPc 22 S W g m) :
    view2 (runV rb compress_in_place 34 s) = atPc 56 (Spec.round S W) W g m := by
  rw [of_view2 h]
  have := body_raw rb S W s.xmm[8] s.xmm[9] s.xmm[10] s.xmm[11] s.xmm[12] s.xmm[13] s.xmm[14] s.xmm[15] g s.zf m
  rw [roundP_eq _ _ _ _ ror16_eq ror12_eq ror8_eq ror7_eq] at this
  exact this

theorem decjz_stage (rb : UInt64) (s : State) (S W : St) (g : Vector UInt64 16) (m : Memory)
    (h : view2 s = atPc 56 S W g m) :
    view2 (runV rb compress_in_place 2 s) = atPc (if g[rax].toUInt8 - 1 == 0 then 72 else 58) S W (decAl g) m := by
  rw [of_view2 h]
  show view2 (stepV rb compress_in_place (stepV rb compress_in_place _)) = _
  rw [dec_raw, dec_b8_zf]
  cases hz : (g[rax].toUInt8 - 1 == 0)
  · rw [jz_not_taken]; rfl
  · rw [jz_taken]; rfl

theorem perm_stage (rb : UInt64) (s : State) (S W : St) (g : Vector UInt64 16) (m : Memory)
    (h : view2 s = atPc 58 S W g m) :
    view2 (runV rb compress_in_place 14 s) = atPc 22 S (Spec.permute W) g m := by
  rw [of_view2 h]
  exact perm_raw rb _ _ _ _ W s.xmm[8] s.xmm[9] s.xmm[10] s.xmm[11] s.xmm[12] s.xmm[13] s.xmm[14] s.xmm[15] g s.zf m

/-- one trip round the loop while `al - 1 ≠ 0`: 34 + 2 + 14 instructions -/
theorem iteration (rb : UInt64) (s : State) (S W : St) (g : Vector UInt64 16) (m : Memory)
    (h : view2 s = atPc 22 S W g m) (hal : (g[rax].toUInt8 - 1 == 0) = false) :
    view2 (runV rb compress_in_place 50 s) = atPc 22 (Spec.round S W) (Spec.permute W) (decAl g) m := by
  rw [show 50 = 34 + (2 + 14) from rfl, runV_add, runV_add]
  have h2 := decjz_stage rb _ _ _ _ _ (body_stage rb s S W g m h)
  rw [hal] at h2
  exact perm_stage rb _ _ _ _ _ h2

/-- the last trip: `al - 1 = 0`, the branch to the epilogue is taken: 34 + 2 instructions -/
theorem last_iteration (rb : UInt64) (s : State) (S W : St) (g : Vector UInt64 16) (m : Memory)
    (h : view2 s = atPc 22 S W g m) (hal : (g[rax].toUInt8 - 1 == 0) = true) :
    view2 (runV rb compress_in_place 36 s) = atPc 72 (Spec.round S W) W (decAl g) m := by
  rw [show 36 = 34 + 2 from rfl, runV_add]
  have h2 := decjz_stage rb _ _ _ _ _ (body_stage rb s S W g m h)
  rw [hal] at h2
  exact h2

theorem epilogue_stage (rb : UInt64) (s : State) (S W : St) (g : Vector UInt64 16) (m : Memory)
    (h : view2 s = atPc 72 S W g m) :
    (runV rb compress_in_place 5 s).status = .returned ∧ (runV rb compress_in_place 5 s).ok = true ∧
    (runV rb compress_in_place 5 s).mem
      = store128 (store128 m (g[rdi] + UInt64.ofNat 0) (_mm_xor_si128 (row S 0) (row S 2))) (g[rdi] + UInt64.ofNat 16)
          (_mm_xor_si128 (row S 1) (row S 3)) ∧
    (runV rb compress_in_place 5 s).gpr = g.set rsp (g[rsp] + 8) := by
  rw [of_view2 h]
  exact fields_of_view2 (epilogue_raw rb _ _ _ _ _ _ _ _ s.xmm[8] s.xmm[9] s.xmm[10] s.xmm[11] s.xmm[12] s.xmm[13] s.xmm[14] s.xmm[15]
    g s.zf m)

/-! ### the whole routine -/

/-- from any state at the entry point (363 instructions are executed) -/
theorem run_compress_in_place (rb : UInt64) (s : State) (hpc : s.pc = 0) (hst : s.status = .running) (hok : s.ok = true)
    (hro : Rodata rb s.mem) :
    (runV rb compress_in_place 363 s).status = .returned ∧
    (runV rb compress_in_place 363 s).ok = true ∧
    (runV rb compress_in_place 363 s).mem
      = writeBytes s.mem s.gpr[rdi] (bytesOfWords (first8 (Spec.compress (readWords s.mem s.gpr[rdi] 8) (readWords s.mem s.gpr[rsi] 16)
            s.gpr[rcx] s.gpr[rdx].toUInt8.toUInt32 s.gpr[r8].toUInt8.toUInt32))) ∧
    (runV rb compress_in_place 363 s).gpr
      = (dec7 (gprAfterPrologueXof s)).set rsp ((dec7 (gprAfterPrologueXof s))[rsp] + 8) := by
  have h0 := prologue_stage rb s hpc hst hok hro
  have a0 : (gprAfterPrologueXof s)[rax].toUInt8 = 7 := by
    show (merge .b8 _ 7).toUInt8 = 7
    rw [merge_b8_low]; rfl
  have h7 := loop7V view2 rb compress_in_place 50 36 (atPc 22) (atPc 72) (iteration rb) (last_iteration rb) _ _ _ _ _ h0 a0
  obtain ⟨e1, e2, e3, e4⟩ := epilogue_stage rb _ _ _ _ _ h7
  rw [show 363 = 22 + ((50 + (50 + (50 + (50 + (50 + (50 + 36)))))) + 5) by omega, runV_add, runV_add]
  refine ⟨e1, e2, ?_, e4⟩
  rw [e3]
  have hrdi : (dec7 (gprAfterPrologueXof s))[rdi] = s.gpr[rdi] := by rw [dec7_ne _ rdi (by decide)]; rfl
  rw [hrdi, xor_rows_lo, xor_rows_hi, store2_eq]
  rfl

/-! ### main theorems -/

/-- the state on entry: see `B3.AsmSem.Entry`, with the `.rodata` section of c/blake3_avx512_x86-64_unix.S -/
abbrev Entry (rb : UInt64) (s : State) : Prop := AsmSem.Entry rodata rodataAlign rb s

/-- `blake3_compress_in_place_avx512(cv, block, block_len, counter, flags)` with the System V argument registers
rdi, rsi, rdx, rcx, r8, ANY register contents (only `dl` and `r8b` are read of rdx, r8): after exactly 363
instructions the routine has returned without a fault; memory is the initial memory with the 32 bytes at `cv` (rdi)
replaced by the first eight words of `Spec.compress cv block counter block_len flags`; `rsp` is popped; every register
other than rax, rdx, rsp is unchanged.  `cv`, `block` and the tables may overlap arbitrarily (all loads precede the stores). -/
theorem compress_in_place_correct (rb : UInt64) (s : State) (h : Entry rb s) :
    (runV rb compress_in_place 363 s).status = .returned ∧
    (runV rb compress_in_place 363 s).ok = true ∧
    (runV rb compress_in_place 363 s).mem
      = writeBytes s.mem s.gpr[rdi] (bytesOfWords (first8 (Spec.compress (readWords s.mem s.gpr[rdi] 8) (readWords s.mem s.gpr[rsi] 16)
            s.gpr[rcx] s.gpr[rdx].toUInt8.toUInt32 s.gpr[r8].toUInt8.toUInt32))) ∧
    (runV rb compress_in_place 363 s).gpr[rsp] = s.gpr[rsp] + 8 ∧
    ∀ r : Reg, r ≠ rax → r ≠ rdx → r ≠ rsp → (runV rb compress_in_place 363 s).gpr[r] = s.gpr[r] := by
  obtain ⟨h1, h2, h3, h4⟩ := run_compress_in_place rb s h.pc h.running h.ok h.rodata
  refine ⟨h1, h2, h3, ?_, ?_⟩
  · rw [h4]; exact finalXof_rsp s
  · intro r a b c; rw [h4]; exact finalXof_frame s r a b c

/-- the same in the words of the C prototype: whatever the caller left above the two `uint8_t` arguments -/
theorem compress_in_place_abi (rb : UInt64) (s : State) (h : Entry rb s) (bl fl : UInt8)
    (hbl : s.gpr[rdx].toUInt8 = bl) (hfl : s.gpr[r8].toUInt8 = fl) :
    (runV rb compress_in_place 363 s).status = .returned ∧
    (runV rb compress_in_place 363 s).ok = true ∧
    (runV rb compress_in_place 363 s).mem
      = writeBytes s.mem s.gpr[rdi] (bytesOfWords (first8 (Spec.compress (readWords s.mem s.gpr[rdi] 8) (readWords s.mem s.gpr[rsi] 16)
            s.gpr[rcx] bl.toUInt32 fl.toUInt32))) := by
  obtain ⟨h1, h2, h3, _⟩ := compress_in_place_correct rb s h
  rw [hbl, hfl] at h3
  exact ⟨h1, h2, h3⟩

/-- read back: the eight words at `cv` afterwards, and the frame condition byte by byte -/
theorem compress_in_place_correct_words (rb : UInt64) (s : State) (h : Entry rb s) :
    readWords (runV rb compress_in_place 363 s).mem s.gpr[rdi] 8
      = first8 (Spec.compress (readWords s.mem s.gpr[rdi] 8) (readWords s.mem s.gpr[rsi] 16) s.gpr[rcx]
          s.gpr[rdx].toUInt8.toUInt32 s.gpr[r8].toUInt8.toUInt32) ∧
    ∀ q : UInt64, 32 ≤ (q - s.gpr[rdi]).toNat → (runV rb compress_in_place 363 s).mem q = s.mem q := by
  obtain ⟨_, _, h3, _⟩ := compress_in_place_correct rb s h
  rw [h3]
  refine ⟨readWords_writeBytes _ _ _, ?_⟩
  intro q hq
  exact writeBytes_frame _ _ _ _ (by rw [bytesOfWords8_length]; exact hq)

/-- more fuel changes nothing: the routine has returned -/
theorem compress_in_place_fuel (rb : UInt64) (s : State) (h : Entry rb s) (n : Nat) :
    runV rb compress_in_place (363 + n) s = runV rb compress_in_place 363 s := by
  rw [runV_add]
  exact runV_returned _ _ _ _ (compress_in_place_correct rb s h).1

/-! the hypotheses are satisfiable: a concrete entry state (data section at 0x30040, cv at 0x10008, block at 0x20001,
`block_len = 64`, `flags = 11`, garbage above both 8-bit arguments) -/

def exampleState : State :=
  { xmm := Vector.replicate 16 #v[0xDEADBEEF, 1, 2, 3]
    gpr := #v[0x1111111111111111, 5, 0xA5C3A5C3A5C3A540, 3, 0x7fff0000, 5, 0x20001, 0x10008, 0xA5C3A5C3A5C3A50B, 9, 10, 11, 12, 13, 14, 15]
    zf := true, mem := writeBytes (fun _ => 0x5A) 0x30040 rodata, pc := 0, status := .running, ok := true }

set_option maxRecDepth 8000 in
example : Entry 0x30040 exampleState :=
  ⟨rfl, rfl, rfl, by decide, holdsAt_writeBytes _ _ _ (by decide)⟩

example : exampleState.gpr[rdx].toUInt8 = 64 ∧ exampleState.gpr[r8].toUInt8 = 11 := by decide

end B3.AsmSem.Avx512.Unix
