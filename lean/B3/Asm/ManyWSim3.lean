/- The Windows-GNU `blake3_hash_many_sse41` against the unix one (part 3: one step, a run).
`region_instr`: the instruction at a unix index of the region and its Windows twin.  `step_sim`: one step of the unix
routine in the region is one step of the Windows routine in the state `T v s` (`rbp` 64 lower, `pc` moved by `phi`).
`epi_exit`: a unix run cannot pass through 1413 and be at 1413 again.  **`run_sim`**: a unix run from the region that ends
(running) at 1413 is a Windows run that ends at 1430. -/
import B3.Asm.ManyWSim2
namespace B3.AsmSem.Many.W
open B3 B3.Simd B3.AsmSem

/-! ### the instruction at an index of the region -/

theorem phi_lo (p : Nat) (h : p ≤ 1413) : phi p = p + 17 := by unfold phi; rw [if_pos h]
theorem phi_hi (p : Nat) (h : 1421 ≤ p) : phi p = p + 29 := by unfold phi; rw [if_neg (by omega)]

theorem inRegion_iff (p : Nat) : inRegion p = true ↔ (10 ≤ p ∧ p ≤ 1412) ∨ (1421 ≤ p ∧ p ≤ 1745) := by
  simp only [inRegion, Bool.or_eq_true, Bool.and_eq_true, decide_eq_true_eq]

theorem okT_iff (p : Nat) : okT p = true ↔ inRegion p = true ∨ p = 1413 := by
  simp only [okT, Bool.or_eq_true, beq_iff_eq]

theorem phi_succ (p : Nat) (h : inRegion p = true) : phi (p + 1) = phi p + 1 := by
  rcases (inRegion_iff p).mp h with h | h
  · rw [phi_lo p (by omega), phi_lo (p + 1) (by omega)]
  · rw [phi_hi p (by omega), phi_hi (p + 1) (by omega)]

theorem region_instr (p : Nat) (h : inRegion p = true) :
    ∃ i, progU[p]? = some i ∧ progW[phi p]? = some (relab i) ∧ good i = true ∧ (i.mn = .jmp ∨ okT (p + 1) = true) := by
  rcases (inRegion_iff p).mp h with h | h
  · have hlt : p < progU.length := by rw [lenU]; omega
    have hi : progU[p]? = some progU[p] := List.getElem?_eq_getElem hlt
    have e1 : ((progU.drop 10).take 1403)[p - 10]? = some progU[p] := by
      rw [List.getElem?_take_of_lt (by omega), List.getElem?_drop, ← hi, show 10 + (p - 10) = p by omega]
    have e2 : (((progU.drop 10).take 1403).map relab)[p - 10]? = some (relab progU[p]) := by
      rw [List.getElem?_map, e1]
      rfl
    rw [corr_main, List.getElem?_take_of_lt (by omega), List.getElem?_drop] at e2
    refine ⟨progU[p], hi, ?_, List.all_eq_true.mp good_main _ (List.mem_of_getElem? e1), Or.inr ?_⟩
    · rw [phi_lo p (by omega), ← e2, show 27 + (p - 10) = p + 17 by omega]
    · rw [okT_iff, inRegion_iff]
      omega
  · have hlt : p < progU.length := by rw [lenU]; omega
    have hi : progU[p]? = some progU[p] := List.getElem?_eq_getElem hlt
    have e1 : (progU.drop 1421)[p - 1421]? = some progU[p] := by
      rw [List.getElem?_drop, ← hi, show 1421 + (p - 1421) = p by omega]
    have e2 : ((progU.drop 1421).map relab)[p - 1421]? = some (relab progU[p]) := by
      rw [List.getElem?_map, e1]
      rfl
    rw [corr_tail, List.getElem?_drop] at e2
    refine ⟨progU[p], hi, ?_, List.all_eq_true.mp good_tail _ (List.mem_of_getElem? e1), ?_⟩
    · rw [phi_hi p (by omega), ← e2, show 1450 + (p - 1421) = p + 29 by omega]
    · by_cases h5 : p = 1745
      · left
        subst h5
        have := lastU
        rw [hi] at this
        rw [Option.some.inj this]
      · right
        rw [okT_iff, inRegion_iff]
        omega

/-! ### the three kinds of instruction -/

variable (rb : UInt64) (q : Nat) (v : UInt64) (s : State)

theorem execW_eq (i : Instr) (h : w64 i = false) : ManyW.execG flat rb i s = execG flat rb i s := by
  unfold ManyW.execG
  unfold w64 at h
  split
  · simp_all
  · rfl

theorem relabOp_id (o : Operand) (h : opNoRbp o = true) : relabOp o = o := by
  cases o with
  | mem sz b x d =>
    cases x with
    | none =>
      simp only [opNoRbp, Bool.and_eq_true] at h
      simp only [relabOp]
      rw [if_neg (ne_of_bne h.1)]
    | some i => rfl
  | target t => simp [opNoRbp] at h
  | _ => rfl

theorem relab_plain (i : Instr) (h : isPlain i = true) : relab i = i := by
  obtain ⟨mn, ops⟩ := i
  simp only [isPlain, Bool.and_eq_true] at h
  unfold relab
  congr 1
  have : ∀ o ∈ ops, relabOp o = o := fun o ho => relabOp_id o (List.all_eq_true.mp h.2 o ho)
  simp only []
  rw [List.map_congr_left this, List.map_id']

theorem tau_gpr_self : (tau q v s).gpr[rbp] = v := by
  unfold tau
  simp only [Fin.getElem_fin]
  rw [Vector.getElem_set_self]

theorem tau_self : tau s.pc s.gpr[rbp] s = s := by
  obtain ⟨x, g, z, c, m, p, st, ok⟩ := s
  unfold tau
  simp only [Fin.getElem_fin]
  congr 1
  exact Vector.set_getElem_self _

theorem disp64 (k : Nat) : dispU (Int.ofNat k + 64) = UInt64.ofNat k + 64 := by
  show dispU (Int.ofNat (k + 64)) = _
  show UInt64.ofNat (k + 64) = _
  rw [UInt64.ofNat_add]
  rfl

theorem ea_load (sz : Size) (k : Nat) (hs : s.gpr[rbp] = v + 64) :
    ea rb (tau q v s).gpr (.mem sz rbp none (Int.ofNat k + 64)) = ea rb s.gpr (.mem sz rbp none (Int.ofNat k)) := by
  simp only [ea]
  rw [tau_gpr_self, hs, disp64]
  congr 1
  show v + (UInt64.ofNat k + 64) = v + 64 + UInt64.ofNat k
  rw [UInt64.add_assoc, UInt64.add_comm 64]

theorem rdG_load (w : Width) (sz : Size) (k : Nat) (hs : s.gpr[rbp] = v + 64) :
    rdG flat rb (tau q v s) w (.mem sz rbp none (Int.ofNat k + 64)) = rdG flat rb s w (.mem sz rbp none (Int.ofNat k)) := by
  unfold rdG ldG
  simp only [Operand.size]
  rw [ea_load rb q v s sz k hs]
  rfl

/-- **a load from `[rbp + k]`** is, with `rbp` 64 lower, the load from `[rbp + k + 64]` -/
theorem exec_load (mn : Mn) (d : Reg) (w : Width) (sz : Size) (k : Nat) (hd : d ≠ rbp)
    (hm : mn = .mov ∨ (mn = .movzx ∧ w = .d32)) (hs : s.gpr[rbp] = v + 64) :
    execG flat rb ⟨mn, [.gpr d w, .mem sz rbp none (Int.ofNat k + 64)]⟩ (tau q v s)
      = tau (q + 1) v (execG flat rb ⟨mn, [.gpr d w, .mem sz rbp none (Int.ofNat k)]⟩ s) := by
  rcases hm with rfl | ⟨rfl, rfl⟩
  · simp only [execG]
    rw [rdG_load rb q v s w sz k hs]
    cases rdG flat rb s w (.mem sz rbp none (Int.ofNat k)) with
    | none => rfl
    | some x => simp only []; rw [tau_writeGpr q v s d w _ hd]; rfl
  · simp only [execG]
    rw [rdG_load rb q v s .b8 sz k hs]
    cases rdG flat rb s .b8 (.mem sz rbp none (Int.ofNat k)) with
    | none => rfl
    | some x => simp only []; rw [tau_writeGpr q v s d .d32 _ hd]; rfl

theorem isLoad_shape (i : Instr) (h : isLoad i = true) :
    ∃ mn d w sz k, i = ⟨mn, [.gpr d w, .mem sz rbp none (Int.ofNat k)]⟩ ∧ d ≠ rbp ∧ (mn = .mov ∨ (mn = .movzx ∧ w = .d32)) := by
  unfold isLoad at h
  split at h
  · rename_i mn d w sz b k
    simp only [Bool.and_eq_true, Bool.or_eq_true, beq_iff_eq] at h
    obtain ⟨⟨hb, hd⟩, hm⟩ := h
    subst hb
    exact ⟨mn, d, w, sz, k, rfl, ne_of_bne hd, hm⟩
  · cases h

theorem isJump_shape (i : Instr) (h : isJump i = true) :
    ∃ mn t, i = ⟨mn, [.target t]⟩ ∧ (mn = .jz ∨ mn = .jnz ∨ mn = .jc ∨ mn = .jnc ∨ mn = .jmp) ∧ okT t = true := by
  unfold isJump at h
  split at h
  · rename_i mn t
    simp only [Bool.and_eq_true, Bool.or_eq_true, beq_iff_eq] at h
    obtain ⟨hm, ht⟩ := h
    refine ⟨mn, t, rfl, ?_, ht⟩
    rcases hm with (((h | h) | h) | h) | h
    · exact Or.inl h
    · exact Or.inr (Or.inl h)
    · exact Or.inr (Or.inr (Or.inl h))
    · exact Or.inr (Or.inr (Or.inr (Or.inl h)))
    · exact Or.inr (Or.inr (Or.inr (Or.inr h)))
  · cases h

theorem jcc_tau (c : Bool) (t t' : Nat) :
    jcc c [.target t'] (tau q v s) = if c then tau t' v (jcc c [.target t] s) else tau (q + 1) v (jcc c [.target t] s) := by
  cases c <;> rfl

theorem writeGpr_rbp (d : Reg) (w : Width) (x : UInt64) (hd : d ≠ rbp) : (s.writeGpr d w x).gpr[rbp] = s.gpr[rbp] := by
  unfold StateG.writeGpr
  simp only [Fin.getElem_fin]
  rw [Vector.getElem_set_ne]
  intro e
  exact hd (Fin.ext e)

theorem gpr_rbp_match (x : Option UInt64) (f : UInt64 → State) (g : State) (c : UInt64) :
    (∀ a, (f a).gpr[rbp] = c) → g.gpr[rbp] = c → (match x with | some v => f v | none => g).gpr[rbp] = c := by
  intro hf hg
  cases x
  · exact hg
  · exact hf _

theorem load_pc (mn : Mn) (d : Reg) (w : Width) (o : Operand) (hm : mn = .mov ∨ (mn = .movzx ∧ w = .d32)) :
    (execG flat rb ⟨mn, [.gpr d w, o]⟩ s).pc = s.pc + 1 := by
  rcases hm with rfl | ⟨rfl, rfl⟩
  · simp only [execG]
    split <;> rfl
  · simp only [execG]
    split <;> rfl

theorem load_rbp (mn : Mn) (d : Reg) (w : Width) (o : Operand) (hd : d ≠ rbp) (hm : mn = .mov ∨ (mn = .movzx ∧ w = .d32)) :
    (execG flat rb ⟨mn, [.gpr d w, o]⟩ s).gpr[rbp] = s.gpr[rbp] := by
  rcases hm with rfl | ⟨rfl, rfl⟩
  · simp only [execG]
    exact gpr_rbp_match _ (fun v => (s.writeGpr d w v).next) s.fault _ (fun a => writeGpr_rbp s d w a hd) rfl
  · simp only [execG]
    exact gpr_rbp_match _ (fun v => (s.writeGpr d .d32 v).next) s.fault _ (fun a => writeGpr_rbp s d .d32 a hd) rfl

/-! ### one step -/

/-- the Windows state that stands for the unix state `s`: `rbp := v` (64 below the unix `rbp`), `pc` moved -/
def T (v : UInt64) (s : State) : State := tau (phi s.pc) v s

theorem step_sim (hp : inRegion s.pc = true) (hs : s.gpr[rbp] = v + 64) :
    ManyW.step rb progW (T v s) = T v (step rb progU s) ∧ (step rb progU s).gpr[rbp] = v + 64
      ∧ okT (step rb progU s).pc = true := by
  cases hst : s.status with
  | returned =>
    have e1 : step rb progU s = s := by unfold step stepG; rw [hst]
    have e2 : ManyW.step rb progW (T v s) = T v s := by
      unfold ManyW.step ManyW.stepG
      rw [show (T v s).status = s.status from rfl, hst]
    rw [e1, e2]
    exact ⟨rfl, hs, (okT_iff _).mpr (Or.inl hp)⟩
  | running =>
    obtain ⟨i, hiU, hiW, hg, hft⟩ := region_instr s.pc hp
    have eU : step rb progU s = execG flat rb i s := by
      unfold step stepG
      rw [hst]
      simp only []
      rw [hiU]
    have eW : ManyW.step rb progW (T v s) = ManyW.execG flat rb (relab i) (T v s) := by
      unfold ManyW.step ManyW.stepG
      rw [show (T v s).status = s.status from rfl, hst]
      simp only []
      rw [show (T v s).pc = phi s.pc from rfl, hiW]
    rw [eU, eW]
    simp only [good, Bool.or_eq_true, Bool.and_eq_true, Bool.not_eq_true'] at hg
    rcases hg with (⟨hpl, hw⟩ | hl) | hj
    · -- plain
      rw [relab_plain i hpl, execW_eq rb _ i hw]
      have h1 := exec_plain rb (phi s.pc) v s i hpl
      have h2 := exec_plain rb s.pc s.gpr[rbp] s i hpl
      rw [tau_self] at h2
      have hpc : (execG flat rb i s).pc = s.pc + 1 := by rw [h2]; rfl
      have hbp : (execG flat rb i s).gpr[rbp] = s.gpr[rbp] := by rw [h2]; exact tau_gpr_self _ _ _
      have hnj : i.mn ≠ .jmp := by
        intro e
        simp only [isPlain, Bool.and_eq_true] at hpl
        rw [e] at hpl
        simp [plainMn] at hpl
      refine ⟨?_, by rw [hbp, hs], ?_⟩
      · unfold T
        rw [h1, hpc, phi_succ s.pc hp]
      · rw [hpc]
        rcases hft with h | h
        · exact absurd h hnj
        · exact h
    · -- load
      obtain ⟨mn, d, w, sz, k, rfl, hd, hm⟩ := isLoad_shape i hl
      have hr : relab ⟨mn, [.gpr d w, .mem sz rbp none (Int.ofNat k)]⟩ = ⟨mn, [.gpr d w, .mem sz rbp none (Int.ofNat k + 64)]⟩ := by
        simp [relab, relabOp]
      have hw : w64 ⟨mn, [.gpr d w, .mem sz rbp none (Int.ofNat k + 64)]⟩ = false := by
        rcases hm with rfl | ⟨rfl, rfl⟩ <;> rfl
      rw [hr, execW_eq rb _ _ hw]
      have h1 := exec_load rb (phi s.pc) v s mn d w sz k hd hm hs
      have hpc := load_pc rb s mn d w (.mem sz rbp none (Int.ofNat k)) hm
      have hbp := load_rbp rb s mn d w (.mem sz rbp none (Int.ofNat k)) hd hm
      have hnj : mn ≠ .jmp := by rcases hm with rfl | ⟨rfl, rfl⟩ <;> simp
      refine ⟨?_, by rw [hbp, hs], ?_⟩
      · unfold T
        rw [h1, hpc, phi_succ s.pc hp]
      · rw [hpc]
        rcases hft with h | h
        · exact absurd h hnj
        · exact h
    · -- jump
      obtain ⟨mn, t, rfl, hm, ht⟩ := isJump_shape i hj
      have hr : relab ⟨mn, [.target t]⟩ = ⟨mn, [.target (phi t)]⟩ := rfl
      have hw : w64 ⟨mn, [.target (phi t)]⟩ = false := by
        rcases hm with rfl | rfl | rfl | rfl | rfl <;> rfl
      rw [hr, execW_eq rb _ _ hw]
      have key : ∀ c : Bool, jcc c [.target (phi t)] (T v s) = T v (jcc c [.target t] s)
          ∧ (jcc c [.target t] s).gpr[rbp] = v + 64 ∧ (c = true ∨ mn ≠ .jmp → okT (jcc c [.target t] s).pc = true) := by
        intro c
        cases c
        · refine ⟨?_, hs, ?_⟩
          · show tau (phi s.pc + 1) v s.next = tau (phi (s.pc + 1)) v s.next
            rw [phi_succ s.pc hp]
          · intro h
            rcases h with h | h
            · cases h
            · rcases hft with h' | h'
              · exact absurd h' h
              · exact h'
        · exact ⟨rfl, hs, fun _ => ht⟩
      rcases hm with rfl | rfl | rfl | rfl | rfl
      · obtain ⟨k1, k2, k3⟩ := key s.zf
        exact ⟨k1, k2, k3 (by cases s.zf <;> simp)⟩
      · obtain ⟨k1, k2, k3⟩ := key (!s.zf)
        exact ⟨k1, k2, k3 (by cases s.zf <;> simp)⟩
      · obtain ⟨k1, k2, k3⟩ := key s.cf
        exact ⟨k1, k2, k3 (by cases s.cf <;> simp)⟩
      · obtain ⟨k1, k2, k3⟩ := key (!s.cf)
        exact ⟨k1, k2, k3 (by cases s.cf <;> simp)⟩
      · obtain ⟨k1, k2, k3⟩ := key true
        exact ⟨k1, k2, k3 (Or.inl rfl)⟩

end B3.AsmSem.Many.W
