/-
`blake3_compress_in_place_avx512`, Windows-GNU flavour (generated instruction list
`B3.Gen.AsmAvx512Wgnu.compress_in_place`): the machine semantics executed symbolically on each
straight-line piece of the routine, cut BY POSITION (instruction indices of the generated list):
  0..25   prologue (`sub rsp, 72`, XMM6-9 saved at [rsp..rsp+63], loads, `flags` from the caller's stack,
          row 3 from r9 / r8, message grouping, `mov al, 7`)
  26..59  one round (34 instructions)           60 `dec al`     61 `jz 9f`
  62..75  message permutation + `jmp 9b`        76..85 feed-forward, two stores, XMM6-9 restored, `add rsp, 72`, `ret`
Each lemma is an equation between (the tracked part `viewW` of) the state after `runV`ning the piece from a
symbolic state and an explicit value, closed by `kernel_rfl` (evaluation of `runV` in the kernel).
-/
import B3.Asm.Avx512WinLemmas
import B3.Simd.KernelRfl
import B3.Gen.AsmAvx512Wgnu
namespace B3.AsmSem.Avx512.Win
open B3 B3.Simd B3.AsmSem B3.AsmSem.Avx512 B3.Gen.AsmAvx512Wgnu

/-- instructions 0..25 from ANY state at `pc = 0` -/
theorem prologue_raw (rb : UInt64) (x0 x1 x2 x3 x4 x5 x6 x7 x8 x9 x10 x11 x12 x13 x14 x15 : V4)
    (g0 g1 g2 g3 g4 g5 g6 g7 g8 g9 g10 g11 g12 g13 g14 g15 : UInt64) (z : Bool) (m : Memory) :
    viewW (runV rb compress_in_place 26
      ⟨#v[x0, x1, x2, x3, x4, x5, x6, x7, x8, x9, x10, x11, x12, x13, x14, x15],
       #v[g0, g1, g2, g3, g4, g5, g6, g7, g8, g9, g10, g11, g12, g13, g14, g15], z, m, 0, .running, true⟩)
    = ⟨load128 (saveMem m (spW g4) x6 x7 x8 x9) (g1 + UInt64.ofNat 0), load128 (saveMem m (spW g4) x6 x7 x8 x9) (g1 + UInt64.ofNat 16),
       load128 (saveMem m (spW g4) x6 x7 x8 x9) (rb + UInt64.ofNat 256),
       #v[g9.toUInt32, (g9 >>> 32).toUInt32,
          (lenFlagsW g8 (saveMem m (spW g4) x6 x7 x8 x9 (spW g4 + UInt64.ofNat 112))).toUInt32,
          (lenFlagsW g8 (saveMem m (spW g4) x6 x7 x8 x9 (spW g4 + UInt64.ofNat 112)) >>> 32).toUInt32],
       grp0 (blockRaw (saveMem m (spW g4) x6 x7 x8 x9) g2), grp1 (blockRaw (saveMem m (spW g4) x6 x7 x8 x9) g2),
       grp2 (blockRaw (saveMem m (spW g4) x6 x7 x8 x9) g2), grp3 (blockRaw (saveMem m (spW g4) x6 x7 x8 x9) g2),
       x10, x11, x12, x13, x14, x15,
       #v[merge .b8 (trunc .d32 (saveMem m (spW g4) x6 x7 x8 x9 (spW g4 + UInt64.ofNat 112)).toUInt64 <<< 32) 7, g1, g2, g3, spW g4, g5, g6, g7,
          lenFlagsW g8 (saveMem m (spW g4) x6 x7 x8 x9 (spW g4 + UInt64.ofNat 112)), g9, g10, g11, g12, g13, g14, g15],
       saveMem m (spW g4) x6 x7 x8 x9, 26, .running,
       ((((true && aligned16 (spW g4 + UInt64.ofNat 0)) && aligned16 (spW g4 + UInt64.ofNat 16)) && aligned16 (spW g4 + UInt64.ofNat 32))
         && aligned16 (spW g4 + UInt64.ofNat 48)) && aligned16 (rb + UInt64.ofNat 256)⟩ := by
  kernel_rfl

/-- instructions 26..59: one round on the rows, message registers and XMM10-15 unchanged -/
theorem body_raw (rb : UInt64) (S W : St) (j8 j9 x10 x11 x12 x13 x14 x15 : V4) (g : Vector UInt64 16) (z : Bool) (m : Memory) :
    viewW (runV rb compress_in_place 34
      ⟨#v[row S 0, row S 1, row S 2, row S 3, grp0 W, grp1 W, grp2 W, grp3 W, j8, j9, x10, x11, x12, x13, x14, x15],
       g, z, m, 26, .running, true⟩)
    = ⟨row (roundP ror16 ror12 ror8 ror7 S (fun i => W[i])) 0, row (roundP ror16 ror12 ror8 ror7 S (fun i => W[i])) 1,
       row (roundP ror16 ror12 ror8 ror7 S (fun i => W[i])) 2, row (roundP ror16 ror12 ror8 ror7 S (fun i => W[i])) 3,
       grp0 W, grp1 W, grp2 W, grp3 W, x10, x11, x12, x13, x14, x15, g, m, 60, .running, true⟩ := by
  atoms16 S; atoms16 W
  kernel_rfl

/-- instruction 60, `dec al` -/
theorem dec_raw (rb : UInt64) (x : Vector V4 16) (g : Vector UInt64 16) (z : Bool) (m : Memory) (ok : Bool) :
    stepV rb compress_in_place ⟨x, g, z, m, 60, .running, ok⟩
      = ⟨x, decAl g, trunc .b8 (trunc .b8 g[rax] - 1) == 0, m, 61, .running, ok⟩ := by
  kernel_rfl

/-- instruction 61, `jz 9f`, ZF set -/
theorem jz_taken (rb : UInt64) (x : Vector V4 16) (g : Vector UInt64 16) (m : Memory) (ok : Bool) :
    stepV rb compress_in_place ⟨x, g, true, m, 61, .running, ok⟩ = ⟨x, g, true, m, 76, .running, ok⟩ := by
  kernel_rfl

/-- instruction 61, `jz 9f`, ZF clear -/
theorem jz_not_taken (rb : UInt64) (x : Vector V4 16) (g : Vector UInt64 16) (m : Memory) (ok : Bool) :
    stepV rb compress_in_place ⟨x, g, false, m, 61, .running, ok⟩ = ⟨x, g, false, m, 62, .running, ok⟩ := by
  kernel_rfl

/-- instructions 62..75: the message registers go from the grouped words of `W` to those of `permute W`; back to 26 -/
theorem perm_raw (rb : UInt64) (r0 r1 r2 r3 : V4) (W : St) (j8 j9 x10 x11 x12 x13 x14 x15 : V4)
    (g : Vector UInt64 16) (z : Bool) (m : Memory) :
    viewW (runV rb compress_in_place 14
      ⟨#v[r0, r1, r2, r3, grp0 W, grp1 W, grp2 W, grp3 W, j8, j9, x10, x11, x12, x13, x14, x15], g, z, m, 62, .running, true⟩)
    = ⟨r0, r1, r2, r3, grp0 (Spec.permute W), grp1 (Spec.permute W), grp2 (Spec.permute W), grp3 (Spec.permute W),
       x10, x11, x12, x13, x14, x15, g, m, 26, .running, true⟩ := by
  atoms16 W
  kernel_rfl

/-- memory after the two stores of the epilogue -/
def outMem (m : Memory) (p : UInt64) (r0 r1 r2 r3 : V4) : Memory :=
  store128 (store128 m (p + UInt64.ofNat 0) (_mm_xor_si128 r0 r2)) (p + UInt64.ofNat 16) (_mm_xor_si128 r1 r3)

/-- instructions 76..85: feed-forward of the low half, two stores at `[rcx]`, `[rcx+16]`, XMM6-9 reloaded from
`[rsp + 0/16/32/48]`, `add rsp, 72`, `ret`: the WHOLE final state -/
theorem epilogue_raw (rb : UInt64) (r0 r1 r2 r3 m0 m1 m2 m3 j8 j9 x10 x11 x12 x13 x14 x15 : V4)
    (g : Vector UInt64 16) (z : Bool) (m : Memory) :
    runV rb compress_in_place 10
      ⟨#v[r0, r1, r2, r3, m0, m1, m2, m3, j8, j9, x10, x11, x12, x13, x14, x15], g, z, m, 76, .running, true⟩
    = ⟨#v[_mm_xor_si128 r0 r2, _mm_xor_si128 r1 r3, r2, r3, m0, m1,
          load128 (outMem m g[rcx] r0 r1 r2 r3) (g[rsp] + UInt64.ofNat 0), load128 (outMem m g[rcx] r0 r1 r2 r3) (g[rsp] + UInt64.ofNat 16),
          load128 (outMem m g[rcx] r0 r1 r2 r3) (g[rsp] + UInt64.ofNat 32), load128 (outMem m g[rcx] r0 r1 r2 r3) (g[rsp] + UInt64.ofNat 48),
          x10, x11, x12, x13, x14, x15],
       (g.set rsp (g[rsp] + UInt64.ofNat 72)).set rsp ((g.set rsp (g[rsp] + UInt64.ofNat 72))[rsp] + 8),
       g[rsp] + UInt64.ofNat 72 == 0,
       outMem m g[rcx] r0 r1 r2 r3, 85, .returned,
       (((true && aligned16 (g[rsp] + UInt64.ofNat 0)) && aligned16 (g[rsp] + UInt64.ofNat 16)) && aligned16 (g[rsp] + UInt64.ofNat 32))
         && aligned16 (g[rsp] + UInt64.ofNat 48)⟩ := by
  kernel_rfl

end B3.AsmSem.Avx512.Win
