/-
Shared definitions for the kernel-evaluated pieces of `blake3_hash_many_avx2` on the frame machine
(`B3/Asm/Avx2Frame.lean`): eight lanes, the 8-way ("wide") reading of the YMM registers, the frame
during the rounds, and the view of the state the round pieces talk about.  The half rounds
`halfA` / `halfB`, the rotations as the code computes them and `permN` are those of the SSE4.1 proof
(`B3/Asm/ManyBase.lean`): the AVX2 code computes every lane with the same operations in the same order.
-/
import B3.Asm.Avx2Frame
import B3.Asm.ManyBase
namespace B3.AsmSem.Avx2
open B3 B3.Simd B3.AsmSem B3.Gen.AsmAvx2Many
open B3.AsmSem.Many (halfA halfB permN eta16 eta16_eq half_round)

/-- one 16-word vector per input lane (lane `i` = input `i` of the group of eight) -/
structure L8 where
  l0 : St
  l1 : St
  l2 : St
  l3 : St
  l4 : St
  l5 : St
  l6 : St
  l7 : St

def L8.map2 (f : St → St → St) (S M : L8) : L8 :=
  ⟨f S.l0 M.l0, f S.l1 M.l1, f S.l2 M.l2, f S.l3 M.l3, f S.l4 M.l4, f S.l5 M.l5, f S.l6 M.l6, f S.l7 M.l7⟩

def L8.get (S : L8) (i : Fin 8) : St :=
  match i with
  | 0 => S.l0 | 1 => S.l1 | 2 => S.l2 | 3 => S.l3 | 4 => S.l4 | 5 => S.l5 | 6 => S.l6 | 7 => S.l7

/-- word `k` of the eight lanes as a 256-bit register: lanes 0..3 in the low half, 4..7 in the high half -/
def wideY (S : L8) (k : Nat) (h : k < 16 := by decide) : Y :=
  ⟨#v[S.l0[k], S.l1[k], S.l2[k], S.l3[k]], #v[S.l4[k], S.l5[k], S.l6[k], S.l7[k]]⟩

/-- the frame during the rounds: `[rsp + 0x20 k]` = message word `k` of the eight lanes (k = 0..15), `[rsp+0x200]` the
spilled state word 8, `[rsp+0x220 .. 0x2A0)` eight more slots (increment vector, counter low / high, increment mask) -/
def frame8 (M : L8) (v8 : Y) (f : Vector V4 8) : Vector V4 42 :=
  #v[(wideY M 0).lo, (wideY M 0).hi, (wideY M 1).lo, (wideY M 1).hi, (wideY M 2).lo, (wideY M 2).hi, (wideY M 3).lo, (wideY M 3).hi, (wideY M 4).lo, (wideY M 4).hi, (wideY M 5).lo, (wideY M 5).hi, (wideY M 6).lo, (wideY M 6).hi, (wideY M 7).lo, (wideY M 7).hi, (wideY M 8).lo, (wideY M 8).hi, (wideY M 9).lo, (wideY M 9).hi, (wideY M 10).lo, (wideY M 10).hi, (wideY M 11).lo, (wideY M 11).hi, (wideY M 12).lo, (wideY M 12).hi, (wideY M 13).lo, (wideY M 13).hi, (wideY M 14).lo, (wideY M 14).hi, (wideY M 15).lo, (wideY M 15).hi, v8.lo, v8.hi, f[0], f[1], f[2], f[3], f[4], f[5], f[6], f[7]]

/-- a running, fault-free state of the frame machine -/
def mkS8 (y : Vector Y 16) (g : Vector UInt64 16) (z c : Bool) (F : Vector V4 42) (bl : UInt64) (m : Memory)
    (rd : List (UInt64 × Nat)) (pc : Nat) : StateG FMem :=
  ⟨y, g, z, c, ⟨F, bl, m⟩, rd, pc, .running, true⟩

/-- the machine at a round boundary of the 8-way loop: state words 0..7, 9..15 of the eight lanes in YMM0-7, YMM9-15,
word 8 spilled at `[rsp+0x200]`, YMM8 scratch -/
def roundS8 (S M : L8) (j8 : Y) (f : Vector V4 8) (g : Vector UInt64 16) (z c : Bool) (bl : UInt64) (m : Memory)
    (rd : List (UInt64 × Nat)) (pc : Nat) : StateG FMem :=
  mkS8 #v[wideY S 0, wideY S 1, wideY S 2, wideY S 3, wideY S 4, wideY S 5, wideY S 6, wideY S 7, j8, wideY S 9, wideY S 10, wideY S 11, wideY S 12, wideY S 13, wideY S 14, wideY S 15] g z c (frame8 M (wideY S 8) f) bl m rd pc

/-- everything but the scratch register YMM8 and the read log -/
structure RView8 where
  y0 : Y
  y1 : Y
  y2 : Y
  y3 : Y
  y4 : Y
  y5 : Y
  y6 : Y
  y7 : Y
  y9 : Y
  y10 : Y
  y11 : Y
  y12 : Y
  y13 : Y
  y14 : Y
  y15 : Y
  gpr : Vector UInt64 16
  zf : Bool
  cf : Bool
  frame : Vector V4 42
  blen : UInt64
  mem : Memory
  pc : Nat
  status : Status
  ok : Bool

def rview8 (a : StateG FMem) : RView8 :=
  ⟨a.ymm[0], a.ymm[1], a.ymm[2], a.ymm[3], a.ymm[4], a.ymm[5], a.ymm[6], a.ymm[7], a.ymm[9], a.ymm[10], a.ymm[11], a.ymm[12], a.ymm[13], a.ymm[14], a.ymm[15],
   a.gpr, a.zf, a.cf, a.mem.frame, a.mem.blen, a.mem.mem, a.pc, a.status, a.ok⟩

/-- what a round piece leaves -/
def roundV8 (S M : L8) (f : Vector V4 8) (g : Vector UInt64 16) (z c : Bool) (bl : UInt64) (m : Memory) (pc : Nat) : RView8 :=
  ⟨wideY S 0, wideY S 1, wideY S 2, wideY S 3, wideY S 4, wideY S 5, wideY S 6, wideY S 7, wideY S 9, wideY S 10, wideY S 11, wideY S 12, wideY S 13, wideY S 14, wideY S 15,
   g, z, c, frame8 M (wideY S 8) f, bl, m, pc, .running, true⟩

theorem of_rview8 {a : StateG FMem} {v : RView8} (h : rview8 a = v) :
    a = ⟨#v[v.y0, v.y1, v.y2, v.y3, v.y4, v.y5, v.y6, v.y7, a.ymm[8], v.y9, v.y10, v.y11, v.y12, v.y13, v.y14, v.y15],
         v.gpr, v.zf, v.cf, ⟨v.frame, v.blen, v.mem⟩, a.reads, v.pc, v.status, v.ok⟩ := by
  subst h
  obtain ⟨y, g, z, c, ⟨F, bl, m⟩, rd, p, st, ok⟩ := a
  simp only [rview8]
  congr 1
  exact vec16_eta y

/-- a round piece as a statement about states: some scratch YMM8, some extended read log -/
theorem run_of_roundV8 {rb : UInt64} {n : Nat} {s : StateG FMem} {S M : L8} {f : Vector V4 8}
    {g : Vector UInt64 16} {z c : Bool} {bl : UInt64} {m : Memory} {pc : Nat}
    (h : rview8 (frun rodata rb hash_many n s) = roundV8 S M f g z c bl m pc) :
    ∃ j8 rd, frun rodata rb hash_many n s = roundS8 S M j8 f g z c bl m rd pc :=
  ⟨_, _, of_rview8 h⟩

/-- `G` as the 8-way AVX2 code computes it for the column / diagonal whose `c` word is state word 8: that word lives in
the spill slot `[rsp+0x200]` and is updated by `vpaddd ymm8, ymm<d>, [rsp+0x200]`, i.e. as `d + c` where every other
column computes `c + d` (`gP` of `B3/Asm/Base.lean`) -/
def gX (f : UInt32 → UInt32 → UInt32) (r16 r12 r8 r7 : UInt32 → UInt32) (s : St) (a b c d : Fin 16) (x y : UInt32) : St :=
  let s := s.set a (s[a] + x + s[b])
  let s := s.set d (r16 (s[d] ^^^ s[a]))
  let s := s.set c (f s[c] s[d])
  let s := s.set b (r12 (s[b] ^^^ s[c]))
  let s := s.set a (s[a] + y + s[b])
  let s := s.set d (r8 (s[d] ^^^ s[a]))
  let s := s.set c (f s[c] s[d])
  let s := s.set b (r7 (s[b] ^^^ s[c]))
  s

def gQ (r16 r12 r8 r7 : UInt32 → UInt32) (s : St) (a b c d : Fin 16) (x y : UInt32) : St :=
  gX (fun c d => d + c) r16 r12 r8 r7 s a b c d x y

theorem gQ_eq (r16 r12 r8 r7 : UInt32 → UInt32) (s : St) (a b c d : Fin 16) (x y : UInt32) :
    gQ r16 r12 r8 r7 s a b c d x y = gP r16 r12 r8 r7 s a b c d x y := by
  have h : (fun c d : UInt32 => d + c) = (fun c d => c + d) := by funext c d; exact UInt32.add_comm d c
  show gX (fun c d => d + c) r16 r12 r8 r7 s a b c d x y = gX (fun c d => c + d) r16 r12 r8 r7 s a b c d x y
  rw [h]

open B3.AsmSem.Many (a16 a12 a8 a7) in
/-- the column step as the 8-way code computes it -/
def halfA8 (s : St) (m : St) : St :=
  let s := gQ a16 a12 a8 a7 s 0 4 8 12 m[0] m[1]
  let s := gP a16 a12 a8 a7 s 1 5 9 13 m[2] m[3]
  let s := gP a16 a12 a8 a7 s 2 6 10 14 m[4] m[5]
  let s := gP a16 a12 a8 a7 s 3 7 11 15 m[6] m[7]
  s

open B3.AsmSem.Many (a16 a12 a8 a7) in
/-- the diagonal step as the 8-way code computes it -/
def halfB8 (s : St) (m : St) : St :=
  let s := gP a16 a12 a8 a7 s 0 5 10 15 m[8] m[9]
  let s := gP a16 a12 a8 a7 s 1 6 11 12 m[10] m[11]
  let s := gQ a16 a12 a8 a7 s 2 7 8 13 m[12] m[13]
  let s := gP a16 a12 a8 a7 s 3 4 9 14 m[14] m[15]
  s

theorem halfA8_eq (s m : St) : halfA8 s m = halfA s m := by
  unfold halfA8 halfA
  simp only [gQ_eq]

theorem halfB8_eq (s m : St) : halfB8 s m = halfB s m := by
  unfold halfB8 halfB
  simp only [gQ_eq]

/-- one round on every lane, as the code computes it (message permuted `r` times) -/
def roundL (r : Nat) (S M : L8) : L8 :=
  S.map2 (fun s m => halfB8 (halfA8 (eta16 s) (permN r (eta16 m))) (permN r (eta16 m))) M

theorem roundL_get (r : Nat) (S M : L8) (i : Fin 8) : (roundL r S M).get i = Spec.round (S.get i) (permN r (M.get i)) := by
  match i with
  | 0 | 1 | 2 | 3 | 4 | 5 | 6 | 7 => simp only [roundL, L8.map2, L8.get, eta16_eq, halfA8_eq, halfB8_eq, half_round]

end B3.AsmSem.Avx2
