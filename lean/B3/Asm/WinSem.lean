/-
Extension of the machine semantics `B3/Asm/Sse.lean` for the Windows-GNU flavours of the hand
written assembly routines `blake3_compress_in_place_sse41/sse2`, `blake3_compress_xof_sse41/sse2`
(c/blake3_sse41_x86-64_windows_gnu.S, c/blake3_sse2_x86-64_windows_gnu.S).  These are the unix
routines with the Win64 calling convention: a stack frame (`sub rsp, 120` .. `add rsp, 120`), the
callee-saved XMM registers the routine uses stored to / reloaded from the frame (`movdqa
[rsp+disp], xmmN` / `movdqa xmmN, [rsp+disp]`: already instructions of `Sse.lean`), and the fifth
and sixth argument read from the caller's stack (`movzx eax, byte ptr [rsp+0xA0]`,
`mov r10, qword ptr [rsp+0xA8]`).

THIS FILE IS TRUSTED (like `Sse.lean`, whose `State`, `Memory`, register file and `exec` it reuses
unchanged): it is the statement of what the four added instruction forms do, each with the
pseudo-code of the Intel SDM (Vol. 2, "Operation").  It is validated at run time by
`RunAsmWin.lean` (this `exec`, evaluated on random inputs, against the real routines running on
the CPU through the `ms_abi` trampoline of /verif/harness/c/cdriver, which also checks the
callee-saved registers).

What is added
* `sub r64, imm` / `add r64, imm` with `0 ≤ imm < 2^31` (the translator refuses anything else: the
  encodings sign-extend an imm8 / imm32).  Like the arithmetic instructions of `Sse.lean` they set
  ZF (the only modelled flag) from the result.
* `movzx r32, byte ptr [base + disp]`: one byte of memory, zero-extended to the full 64-bit
  register (a 32-bit write clears bits 63:32).  No alignment requirement.
* `mov r64, qword ptr [base + disp]`: eight bytes of memory, little-endian.  No alignment
  requirement (an unaligned access is not a fault outside of alignment checking).
Everything else (`State`, flat byte memory with wrapping addresses, sticky fault flag `ok`, `pc` =
index into the instruction list, `ret` = `status := returned; rsp += 8`) is as in `Sse.lean`.
Not modelled (as there): page permissions -- in particular nothing says that the bytes below `rsp`
are writable stack; the theorems state which bytes the routine writes --, the other flags, MXCSR.
-/
import B3.Asm.Sse
namespace B3.AsmSem.Win
open B3 B3.Simd B3.AsmSem

/-- the quadword at address `a`: `MEM[a+7 : a]`, little-endian -/
def load64 (m : Memory) (a : UInt64) : UInt64 :=
  (m a).toUInt64 ||| ((m (a + 1)).toUInt64 <<< 8) ||| ((m (a + 2)).toUInt64 <<< 16) ||| ((m (a + 3)).toUInt64 <<< 24)
    ||| ((m (a + 4)).toUInt64 <<< 32) ||| ((m (a + 5)).toUInt64 <<< 40) ||| ((m (a + 6)).toUInt64 <<< 48)
    ||| ((m (a + 7)).toUInt64 <<< 56)

/-- an instruction of the Windows-GNU routines -/
inductive WInstr where
  /-- an instruction of `B3/Asm/Sse.lean`, with the meaning given there -/
  | base (i : Instr)
  /-- `sub r64, imm` -/
  | sub_ri (d : Reg) (k : Nat)
  /-- `add r64, imm` -/
  | add_ri (d : Reg) (k : Nat)
  /-- `movzx r32, byte ptr [b + disp]` (`d` = the 64-bit register containing the destination) -/
  | movzx_rm8 (d : Reg) (b : Reg) (disp : Nat)
  /-- `mov r64, qword ptr [b + disp]` -/
  | mov_rm64 (d : Reg) (b : Reg) (disp : Nat)
deriving DecidableEq, Repr

/-- shorthand used by the generated instruction lists -/
abbrev B (mn : Mn) (ops : List Operand) : WInstr := .base (I mn ops)

/-- one instruction (`rb` = run-time address of the start of the translated `.rdata` section) -/
def exec (rb : UInt64) (i : WInstr) (s : State) : State :=
  match i with
  | .base i => AsmSem.exec rb i s
  /- SUB r/m64, imm: `DEST := (DEST - SignExtend(SRC))`; ZF reflects the result -/
  | .sub_ri d k =>
    let res := s.gpr[d] - UInt64.ofNat k
    ({ s.writeGpr d .q64 res with zf := res == 0 }).next
  /- ADD r/m64, imm: `DEST := DEST + SignExtend(SRC)`; ZF reflects the result -/
  | .add_ri d k =>
    let res := s.gpr[d] + UInt64.ofNat k
    ({ s.writeGpr d .q64 res with zf := res == 0 }).next
  /- MOVZX r32, r/m8: `DEST := ZeroExtend(SRC)` -/
  | .movzx_rm8 d b disp => (s.writeGpr d .d32 (s.mem (s.gpr[b] + UInt64.ofNat disp)).toUInt64).next
  /- MOV r64, r/m64: `DEST := SRC` -/
  | .mov_rm64 d b disp => (s.writeGpr d .q64 (load64 s.mem (s.gpr[b] + UInt64.ofNat disp))).next

/-- fetch and execute; running off the instruction list is a fault -/
def step (rb : UInt64) (prog : List WInstr) (s : State) : State :=
  match s.status with
  | .returned => s
  | .running =>
    match prog[s.pc]? with
    | some i => exec rb i s
    | none => { s with ok := false, status := .returned }

/-- `n` steps -/
def run (rb : UInt64) (prog : List WInstr) : Nat → State → State
  | 0, s => s
  | n + 1, s => run rb prog n (step rb prog s)

end B3.AsmSem.Win
