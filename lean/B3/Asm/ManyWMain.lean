/- The Windows-GNU `blake3_hash_many_sse41`: `EntryW -> MidOK` (`midOK`), and what the final state (`hash_many_w_final`) says
about memory and `rsp` (`hash_many_w_correct_partial`). -/
import B3.Asm.ManyWEntry
namespace B3.AsmSem.Many.W
open B3 B3.Simd B3.AsmSem B3.Gen.AsmSse41Many

section
variable {rb : UInt64} {s : State} {A : HmArgs} (E : EntryW rb s A)
include E

set_option maxRecDepth 20000 in
/-- the entry conditions give everything the middle part needs -/
theorem midOK : MidOK rb s A where
  al := okSave_true _ E.hsp
  C := {
    hfb := by
      have := (frameBaseW_spec s.gpr[rsp] E.hsp).1
      omega
    hrb := by
      have := E.ro.aligned
      have e : rodataAlign = 64 := rfl
      rw [e] at this
      omega
    hlen := by decide
    hro := outside_frame_of_scratchW _ E.hsp rb _ E.sep_ro.1 }
  holds := by
    intro i hi
    rw [← E.ro.holds i hi]
    exact MW_outside s E.hsp _ (E.sep_ro.1 i hi)
  R := entry_reads E
  hb := E.hb
  hb0 := E.hb0
  hn := E.hn
  ctr := by
    have e : rbpW s.gpr[rsp] + dispU 104 = s.gpr[rsp] + UInt64.ofNat (104 - 64) := rbpW_disp _ 104 (by omega)
    rw [e, (entry_M1_arg E 40 8 (by omega) (by omega)).load64 (by omega)]
    exact E.arg5
  inc := by
    have e : rbpW s.gpr[rsp] + dispU 112 = s.gpr[rsp] + UInt64.ofNat (112 - 64) := rbpW_disp _ 112 (by omega)
    rw [e, (entry_M1_arg E 48 1 (by omega) (by omega)).byte (by omega)]
    have := E.arg6
    rw [this]
    cases A.incr <;> rfl
  hout := by
    have e : rbpW s.gpr[rsp] + 64 + dispU 80 = s.gpr[rsp] + UInt64.ofNat 80 := rbp_dispW _ 80
    rw [e, (entry_M1_arg E 80 8 (by omega) (by omega)).load64 (by omega)]
    exact E.arg10
  hfl := by
    have e : rbpW s.gpr[rsp] + 64 + dispU 56 = s.gpr[rsp] + UInt64.ofNat 56 := rbp_dispW _ 56
    rw [e, (entry_M1_arg E 56 1 (by omega) (by omega)).byte (by omega)]
    exact E.arg7
  hfe := by
    have e : rbpW s.gpr[rsp] + 64 + dispU 72 = s.gpr[rsp] + UInt64.ofNat 72 := rbp_dispW _ 72
    rw [e, (entry_M1_arg E 72 1 (by omega) (by omega)).byte (by omega)]
    exact E.arg9
  hpro := proLog_ok E
  hlog := fun q hq => outerLog_ok E q hq _ (by rw [outBytes_length]; omega)
  hlog2 := fun i hi => t2Log_ok E i hi _ (by rw [outBytes_length]; omega)
  hlog1 := fun j hj => t1Log_ok E j (by omega) _ (by rw [outBytes_length]; omega)

set_option maxRecDepth 20000 in
/-- the final memory, outside the scratch area: the entry memory with the output bytes at `out` -/
theorem final_memW (F' : Vector V4 22) (p : UInt64) (hp : 656 ≤ (p - scratchW s.gpr[rsp]).toNat) :
    MF s A F' p = writeBytes s.mem A.out (A.outBytes s.mem) p := by
  have hf : 352 ≤ (p - frameBaseW s.gpr[rsp]).toNat := by
    by_cases h : (p - frameBaseW s.gpr[rsp]).toNat < 528
    · have := frame_in_scratchW _ E.hsp p h
      omega
    · omega
  unfold MF
  rw [frameMem_out _ _ _ _ hf]
  unfold writeBytes
  split
  · rfl
  · exact MW_outside s E.hsp p hp

end

theorem rsp_restoredW (sp : UInt64) : rbpW sp + 8 + 8 + 8 + 8 + 8 + 8 + 8 + 8 + 8 = sp + 8 := by
  unfold rbpW
  simp only [UInt64.sub_add_cancel]

/-! ### main theorems -/

/-- **blake3_hash_many_sse41, Windows-GNU flavour (memory, stack pointer, no fault).**  For every state satisfying `EntryW`
(any number of inputs, any block count `≥ 1`, any counter, any flags): after some number `N` of instructions the routine has
returned without fault; every byte of memory outside the 656 bytes below the entry `rsp` is what it was, except that the
`32 * num_inputs` bytes at `out` hold the chaining values of the inputs in order (`HmArgs.outBytes`, the same function of
the specification as for the unix routine); `rsp` is the entry `rsp + 8`.
(The clause "rbx rbp rdi rsi r12-r15 and xmm6-xmm15 are restored" is added in B3/Asm/ManyWFinal.lean, `hash_many_w_correct`,
which subsumes this statement; it is kept as the intermediate step it was.) -/
theorem hash_many_w_correct_partial {rb : UInt64} {s : State} {A : HmArgs} (E : EntryW rb s A) :
    ∃ N, (ManyW.run rb progW N s).status = .returned ∧ (ManyW.run rb progW N s).ok = true ∧
      (∀ p, 656 ≤ (p - scratchW s.gpr[rsp]).toNat →
        (ManyW.run rb progW N s).mem p = writeBytes s.mem A.out (A.outBytes s.mem) p) ∧
      (ManyW.run rb progW N s).gpr[rsp] = s.gpr[rsp] + 8 := by
  obtain ⟨N, x', ax, dx, a8, a9, a10, a11, z', c', F', h⟩ :=
    hash_many_w_final E.pc E.running E.ok E.rcx E.rdx E.r8 E.r9 (midOK E)
  refine ⟨N, ?_⟩
  rw [h]
  exact ⟨rfl, rfl, fun p hp => final_memW E F' p hp, rsp_restoredW _⟩

end B3.AsmSem.Many.W
