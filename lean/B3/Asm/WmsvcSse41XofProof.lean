/-
`blake3_compress_xof_sse41`, MSVC (MASM) flavour: the pieces of B3/Asm/WmsvcSse41XofBody.lean composed
along the control flow (8 + 27 + 6*65 + 48 + 19 = 492 instructions executed), and the result related
to `Spec.compress`, the frame, the stack pointer and the callee-saved registers.
-/
import B3.Asm.WmsvcSse41CompressProof
import B3.Asm.WmsvcSse41XofBody
namespace B3.AsmSem.Win.MsvcSse41Xof
open B3 B3.Simd B3.AsmSem B3.AsmSem.Win B3.Gen.AsmSse41Msvc B3.AsmSem.Sse41 B3.AsmSem.Win.MsvcSse41

theorem frame_stage (rb : UInt64) (s : State) (h : MsvcSse41.Entry rb s) :
    run rb compress_xof 8 s
      = ⟨#v[s.xmm[0], s.xmm[1], s.xmm[2], s.xmm[3], s.xmm[4], s.xmm[5], s.xmm[6], s.xmm[7], s.xmm[8], s.xmm[9],
            s.xmm[10], s.xmm[11], s.xmm[12], s.xmm[13], s.xmm[14], s.xmm[15]],
         #v[s.gpr[rax], s.gpr[rcx], s.gpr[rdx], s.gpr[rbx], frameBase s, s.gpr[rbp], s.gpr[rsi], s.gpr[rdi],
            s.gpr[r8], s.gpr[r9], s.gpr[r10], s.gpr[r11], s.gpr[r12], s.gpr[r13], s.gpr[r14], s.gpr[r15]],
         frameBase s == 0, frameMem s, 8, .running, true⟩ := by
  have hs := state_eta s h.pc h.running h.ok
  conv => lhs; rw [hs]
  rw [frame_raw, frameStores_eq]
  have := frame_aligned_of_entry h
  unfold frameBase at this
  rw [this]
  rfl

theorem prologue_stage (rb : UInt64) (s : State) (h : MsvcSse41.Entry rb s) :
    wview (run rb compress_xof 35 s)
      = atPc 35 s.xmm[10] s.xmm[12] s.xmm[13]
          (Spec.initState (readWords s.mem s.gpr[rcx] 8) s.gpr[r9] s.gpr[r8].toUInt8.toUInt32 (flagsArg s).toUInt32)
          (readWords s.mem s.gpr[rdx] 16) (gprAfterPrologueWXof s) (frameMem s) := by
  have hro := frameMem_rodata h
  obtain ⟨e1, e2⟩ := lenFlagsW_words s.gpr[r8] (flagsArg s)
  rw [← e1, ← e2, ← frameMem_cv h, ← frameMem_block h]
  rw [show 35 = 8 + 27 from rfl, run_add, frame_stage rb s h, prologue_raw, table_IV hro, table_ROT16 hro, table_ROT8 hro,
    tables_aligned hro, frameMem_flags, frameMem_out, ← cvRaw_eq, ← blockRaw_eq]
  simp only [atPc]
  congr 1

theorem body_stage (rb : UInt64) (s : State) (k10 k12 k13 : V4) (S W : St) (g : Vector UInt64 16) (m : Memory)
    (h : wview s = atPc 35 k10 k12 k13 S W g m) :
    wview (run rb compress_xof 46 s) = atPc 81 k10 k12 k13 (Spec.round S W) W g m := by
  rw [of_wview h]
  have := body_raw rb S W s.xmm[8] s.xmm[9] k10 s.xmm[11] k12 k13 g s.zf m
  rw [roundP_eq _ _ _ _ a16_eq a12_eq a8_eq a7_eq] at this
  exact this

theorem decjz_stage (rb : UInt64) (s : State) (k10 k12 k13 : V4) (S W : St) (g : Vector UInt64 16) (m : Memory)
    (h : wview s = atPc 81 k10 k12 k13 S W g m) :
    wview (run rb compress_xof 2 s) = atPc (if g[rax].toUInt8 - 1 == 0 then 100 else 83) k10 k12 k13 S W (decAl g) m := by
  rw [of_wview h]
  show wview (step rb compress_xof (step rb compress_xof _)) = _
  rw [dec_raw, dec_b8_zf]
  cases hz : (g[rax].toUInt8 - 1 == 0)
  · rw [jz_not_taken]; rfl
  · rw [jz_taken]; rfl

theorem perm_stage (rb : UInt64) (s : State) (k10 k12 k13 : V4) (S W : St) (g : Vector UInt64 16) (m : Memory)
    (h : wview s = atPc 83 k10 k12 k13 S W g m) :
    wview (run rb compress_xof 17 s) = atPc 35 k10 k12 k13 S (Spec.permute W) g m := by
  rw [of_wview h]
  exact perm_raw rb _ _ _ _ W s.xmm[8] s.xmm[9] k10 s.xmm[11] k12 k13 _ _ g s.zf m

theorem iteration (rb : UInt64) (k10 k12 k13 : V4) (s : State) (S W : St) (g : Vector UInt64 16) (m : Memory)
    (h : wview s = atPc 35 k10 k12 k13 S W g m) (hal : (g[rax].toUInt8 - 1 == 0) = false) :
    wview (run rb compress_xof 65 s) = atPc 35 k10 k12 k13 (Spec.round S W) (Spec.permute W) (decAl g) m := by
  rw [show 65 = 46 + (2 + 17) from rfl, run_add, run_add]
  have h2 := decjz_stage rb _ _ _ _ _ _ _ _ (body_stage rb s k10 k12 k13 S W g m h)
  rw [hal] at h2
  exact perm_stage rb _ _ _ _ _ _ _ _ h2

theorem last_iteration (rb : UInt64) (k10 k12 k13 : V4) (s : State) (S W : St) (g : Vector UInt64 16) (m : Memory)
    (h : wview s = atPc 35 k10 k12 k13 S W g m) (hal : (g[rax].toUInt8 - 1 == 0) = true) :
    wview (run rb compress_xof 48 s) = atPc 100 k10 k12 k13 (Spec.round S W) W (decAl g) m := by
  rw [show 48 = 46 + 2 from rfl, run_add]
  have h2 := decjz_stage rb _ _ _ _ _ _ _ _ (body_stage rb s k10 k12 k13 S W g m h)
  rw [hal] at h2
  exact h2

/-- instructions 100..118, the whole state -/
theorem epilogue_stage (rb : UInt64) (s : State) (k10 k12 k13 : V4) (S W : St) (g : Vector UInt64 16) (m : Memory)
    (h : wview s = atPc 100 k10 k12 k13 S W g m) :
    run rb compress_xof 19 s
      = ⟨#v[_mm_xor_si128 (row S 0) (row S 2), _mm_xor_si128 (row S 1) (row S 3),
            _mm_xor_si128 (row S 2) (load128 m (g[rcx] + UInt64.ofNat 0)), _mm_xor_si128 (row S 3) (load128 m (g[rcx] + UInt64.ofNat 16)),
            load128 m (g[rcx] + UInt64.ofNat 0), load128 m (g[rcx] + UInt64.ofNat 16),
            load128 (outMem m g (row S 0) (row S 1) (row S 2) (row S 3)) (g[rsp] + UInt64.ofNat 0),
            load128 (outMem m g (row S 0) (row S 1) (row S 2) (row S 3)) (g[rsp] + UInt64.ofNat 16),
            load128 (outMem m g (row S 0) (row S 1) (row S 2) (row S 3)) (g[rsp] + UInt64.ofNat 32),
            load128 (outMem m g (row S 0) (row S 1) (row S 2) (row S 3)) (g[rsp] + UInt64.ofNat 48),
            k10,
            load128 (outMem m g (row S 0) (row S 1) (row S 2) (row S 3)) (g[rsp] + UInt64.ofNat 64),
            k12, k13,
            load128 (outMem m g (row S 0) (row S 1) (row S 2) (row S 3)) (g[rsp] + UInt64.ofNat 80),
            load128 (outMem m g (row S 0) (row S 1) (row S 2) (row S 3)) (g[rsp] + UInt64.ofNat 96)],
         gprEpilogue g, g[rsp] + UInt64.ofNat 120 == 0, outMem m g (row S 0) (row S 1) (row S 2) (row S 3),
         118, .returned, frameAligned g[rsp]⟩ := by
  rw [of_wview h]
  exact epilogue_raw rb _ _ _ _ _ _ _ _ s.xmm[8] s.xmm[9] k10 s.xmm[11] k12 k13 _ _ g s.zf m

/-! ### the whole routine -/

/-- from any entry state (492 instructions are executed) -/
theorem run_compress_xof (rb : UInt64) (s : State) (h : MsvcSse41.EntryXof rb s) :
    (run rb compress_xof 492 s).status = .returned ∧
    (run rb compress_xof 492 s).ok = true ∧
    (run rb compress_xof 492 s).mem
      = writeBytes (frameMem s) (outArg s) (bytesOfWords (Spec.compress (readWords s.mem s.gpr[rcx] 8)
          (readWords s.mem s.gpr[rdx] 16) s.gpr[r9] s.gpr[r8].toUInt8.toUInt32 (flagsArg s).toUInt32)) ∧
    (run rb compress_xof 492 s).gpr = gprFinal (gprAfterPrologueWXof s) ∧
    ∀ i : Fin 16, 6 ≤ i.val → (run rb compress_xof 492 s).xmm[i] = s.xmm[i] := by
  have he : MsvcSse41.Entry rb s := h.toEntryW
  have h0 := prologue_stage rb s he
  have a0 : (gprAfterPrologueWXof s)[rax].toUInt8 = 7 := by
    show (merge .b8 _ 7).toUInt8 = 7
    rw [merge_b8_low]; rfl
  have h7 := loop7 wview rb compress_xof 65 48 (atPc 35 s.xmm[10] s.xmm[12] s.xmm[13]) (atPc 100 s.xmm[10] s.xmm[12] s.xmm[13])
    (iteration rb _ _ _) (last_iteration rb _ _ _) _ _ _ _ _ h0 a0
  have e := epilogue_stage rb _ _ _ _ _ _ _ _ h7
  rw [show 492 = 35 + ((65 + (65 + (65 + (65 + (65 + (65 + 48)))))) + 19) by omega, run_add, run_add, e]
  have hrcx : (dec7 (gprAfterPrologueWXof s))[rcx] = s.gpr[rcx] := by rw [dec7_ne _ rcx (by decide)]; rfl
  have hr10 : (dec7 (gprAfterPrologueWXof s))[r10] = outArg s := by rw [dec7_ne _ r10 (by decide)]; rfl
  have hrsp : (dec7 (gprAfterPrologueWXof s))[rsp] = frameBase s := by rw [dec7_ne _ rsp (by decide)]; rfl
  unfold outMem out4
  rw [hrcx, hr10, hrsp, store4_eq, load_cv_lo, load_cv_hi, xof_bytes, cvRaw_eq, frameMem_cv he]
  have fr := fun (w : St) => frame_reload s (outArg s) (bytesOfWords w) (by rw [bytesOfWords16_length]; exact h.frame_out)
  rw [(fr _).1, (fr _).2.1, (fr _).2.2.1, (fr _).2.2.2.1, (fr _).2.2.2.2.1, (fr _).2.2.2.2.2.1, (fr _).2.2.2.2.2.2]
  refine ⟨rfl, frame_aligned_of_entry he, rfl, rfl, ?_⟩
  intro i hi
  exact xmm_saved s _ _ _ _ _ _ i hi

/-! ### main theorems -/

/-- `blake3_compress_xof_sse41(cv, block, block_len, counter, flags, out)`, MSVC (MASM) flavour, Win64 arguments
rcx = cv, rdx = block, r8b = block_len, r9 = counter, `[rsp+0x28]` = flags, `[rsp+0x30]` = out; ANY register and memory
contents satisfying `EntryXof` (tables loaded, `rsp ≡ 8 mod 16`, the frame `[rsp-120, rsp-8)` apart from the tables, cv,
block and the 64 bytes at out).  After exactly 492 instructions the routine has returned without a fault; memory is
the entry memory with the frame bytes replaced by the seven saved registers and then the 64 bytes at `out` replaced by the
sixteen words of the specification's compression; `rsp` is popped; every general purpose register other than rax, r8, r10,
rsp is unchanged (in particular the Win64 callee-saved rbx, rbp, rdi, rsi, r12-r15); XMM6-15 hold their entry values.
cv, block, out and the tables may overlap each other arbitrarily. -/
theorem compress_xof_correct (rb : UInt64) (s : State) (h : MsvcSse41.EntryXof rb s) :
    (run rb compress_xof 492 s).status = .returned ∧
    (run rb compress_xof 492 s).ok = true ∧
    (run rb compress_xof 492 s).mem
      = writeBytes (frameMem s) (outArg s) (bytesOfWords (Spec.compress (readWords s.mem s.gpr[rcx] 8)
          (readWords s.mem s.gpr[rdx] 16) s.gpr[r9] s.gpr[r8].toUInt8.toUInt32 (flagsArg s).toUInt32)) ∧
    (run rb compress_xof 492 s).gpr[rsp] = s.gpr[rsp] + 8 ∧
    (∀ r : Reg, r ≠ rax → r ≠ r8 → r ≠ r10 → r ≠ rsp → (run rb compress_xof 492 s).gpr[r] = s.gpr[r]) ∧
    ∀ i : Fin 16, 6 ≤ i.val → (run rb compress_xof 492 s).xmm[i] = s.xmm[i] := by
  obtain ⟨h1, h2, h3, h4, h5⟩ := run_compress_xof rb s h
  refine ⟨h1, h2, h3, ?_, ?_, h5⟩
  · rw [h4]; exact final_rspWXof s
  · intro r a b c d; rw [h4]; exact final_frameWXof s r a b c d

/-- the memory clause read back: the sixteen words at `out` afterwards; every byte outside `out` and outside the 112
frame bytes `[rsp-120, rsp-8)` is unchanged; the frame bytes hold the saved registers -/
theorem compress_xof_correct_words (rb : UInt64) (s : State) (h : MsvcSse41.EntryXof rb s) :
    readWords (run rb compress_xof 492 s).mem (outArg s) 16
      = Spec.compress (readWords s.mem s.gpr[rcx] 8) (readWords s.mem s.gpr[rdx] 16) s.gpr[r9]
          s.gpr[r8].toUInt8.toUInt32 (flagsArg s).toUInt32 ∧
    (∀ q : UInt64, 64 ≤ (q - outArg s).toNat → 112 ≤ (q - frameBase s).toNat →
      (run rb compress_xof 492 s).mem q = s.mem q) ∧
    ∀ k : Nat, k < 112 → (run rb compress_xof 492 s).mem (frameBase s + UInt64.ofNat k) = (savedBytes s).getD k 0 := by
  obtain ⟨_, _, h3, _⟩ := compress_xof_correct rb s h
  rw [h3]
  refine ⟨readWords_writeBytes16 _ _ _, ?_, ?_⟩
  · intro q hq hf
    rw [writeBytes_frame _ _ _ _ (by rw [bytesOfWords16_length]; exact hq)]
    exact writeBytes_frame _ _ _ _ (by rw [savedBytes_length]; exact hf)
  · intro k hk
    have := writeBytes_apart (frameMem s) (outArg s) (bytesOfWords (Spec.compress (readWords s.mem s.gpr[rcx] 8)
      (readWords s.mem s.gpr[rdx] 16) s.gpr[r9] s.gpr[r8].toUInt8.toUInt32 (flagsArg s).toUInt32)) (frameBase s) 112
      (by rw [bytesOfWords16_length]; exact h.frame_out.symm) k hk
    rw [this]
    exact frameMem_holds s k (by rw [savedBytes_length]; exact hk)

/-- more fuel changes nothing: the routine has returned -/
theorem compress_xof_fuel (rb : UInt64) (s : State) (h : MsvcSse41.EntryXof rb s) (n : Nat) :
    run rb compress_xof (492 + n) s = run rb compress_xof 492 s := by
  rw [run_add]
  exact run_returned _ _ _ _ (compress_xof_correct rb s h).1

end B3.AsmSem.Win.MsvcSse41Xof
