/- The Windows-GNU `blake3_hash_many_sse41` against the unix one, instruction by instruction (part 1: one instruction).

Between the prologue and the epilogue the two routines have the same text, except that the stack arguments are read at
`[rbp + d + 0x40]` instead of `[rbp + d]` (two more pushes, and 32 bytes of shadow space + two more stack arguments under them)
and that all instruction indices are shifted.  So a state of the Windows routine there is a state of the unix routine with
`rbp` 64 bytes lower and the `pc` moved (`tau`), and executing a Windows instruction is executing the unix instruction:
  * `exec_plain` (this file): an instruction that does not mention `rbp` and is not a jump / `push` / `pop` / `ret` commutes
    with `tau`;
  * `exec_load` (B3/Asm/ManyWSim3.lean): `mov r, [rbp + d]` / `movzx r32, byte ptr [rbp + d]` with the displacement moved by 64;
  * jumps, with the target moved (`jcc_tau`, inside `step_sim`, ManyWSim3.lean).
(`ManyW.execG` = `Many.execG` on all of these: `execW_eq`, ManyWSim3.lean.) -/
import B3.Asm.ManyWSem
namespace B3.AsmSem.Many.W
open B3 B3.Simd B3.AsmSem

/-- the state `s` with `rbp := v` and `pc := q` -/
def tau (q : Nat) (v : UInt64) (s : State) : State := { s with gpr := s.gpr.set rbp v, pc := q }

/-- an operand that does not involve `rbp` (and is not a jump target) -/
def opNoRbp : Operand → Bool
  | .gpr r _ => r != rbp
  | .mem _ b x _ => b != rbp && x != some rbp
  | .target _ => false
  | _ => true

variable (rb : UInt64) (q : Nat) (v : UInt64) (s : State)

theorem ne_of_bne {a b : Reg} (h : (a != b) = true) : a ≠ b := by
  intro e
  subst e
  simp at h

theorem tau_gpr_ne (r : Reg) (h : r ≠ rbp) : (tau q v s).gpr[r] = s.gpr[r] := by
  unfold tau
  simp only [Fin.getElem_fin]
  rw [Vector.getElem_set_ne]
  intro e
  exact h (Fin.ext e.symm)

theorem tau_readGpr (r : Reg) (w : Width) (h : r ≠ rbp) : (tau q v s).readGpr r w = s.readGpr r w := by
  unfold StateG.readGpr
  rw [tau_gpr_ne q v s r h]

theorem tau_writeGpr (d : Reg) (w : Width) (x : UInt64) (h : d ≠ rbp) :
    (tau q v s).writeGpr d w x = tau q v (s.writeGpr d w x) := by
  unfold StateG.writeGpr
  rw [tau_gpr_ne q v s d h]
  unfold tau
  simp only [Fin.getElem_fin]
  congr 1
  rw [Vector.set_comm]
  intro e
  exact h (Fin.ext e.symm)

theorem ea_tau (o : Operand) (h : opNoRbp o = true) : ea rb (tau q v s).gpr o = ea rb s.gpr o := by
  cases o with
  | mem sz b x d =>
    simp only [opNoRbp, Bool.and_eq_true] at h
    have hb := ne_of_bne h.1
    cases x with
    | none => simp only [ea]; rw [tau_gpr_ne q v s b hb]
    | some i =>
      have hi : i ≠ rbp := by
        intro e
        subst e
        simp at h
      simp only [ea]
      rw [tau_gpr_ne q v s b hb, tau_gpr_ne q v s i hi]
  | _ => rfl

theorem ldV_tau (o : Operand) (h : opNoRbp o = true) : ldV flat rb (tau q v s) o = ldV flat rb s o := by
  unfold ldV
  rw [ea_tau rb q v s o h]
  rfl

theorem rdV_tau (o : Operand) (h : opNoRbp o = true) : rdV flat rb (tau q v s) o = rdV flat rb s o := by
  unfold rdV
  split
  · rfl
  · exact ldV_tau rb q v s _ h

theorem ldG_tau (w : Width) (o : Operand) (h : opNoRbp o = true) : ldG flat rb (tau q v s) w o = ldG flat rb s w o := by
  unfold ldG
  rw [ea_tau rb q v s o h]
  rfl

theorem ldD_tau (o : Operand) (h : opNoRbp o = true) : ldD flat rb (tau q v s) o = ldD flat rb s o := by
  unfold ldD
  rw [ea_tau rb q v s o h]
  rfl

theorem rd32_tau (o : Operand) (h : opNoRbp o = true) : rd32 flat rb (tau q v s) o = rd32 flat rb s o := by
  unfold rd32
  split
  · rename_i r
    simp only [opNoRbp] at h
    rw [tau_gpr_ne q v s r (ne_of_bne h)]
  · exact ldD_tau rb q v s _ h

theorem rdG_tau (w : Width) (o : Operand) (h : opNoRbp o = true) : rdG flat rb (tau q v s) w o = rdG flat rb s w o := by
  unfold rdG
  split
  · rename_i r w'
    simp only [opNoRbp] at h
    rw [tau_readGpr q v s r w (ne_of_bne h)]
  · rfl
  · exact ldG_tau rb q v s w _ h

/-! ### instruction classes -/

theorem vbin_tau (f : V4 → V4 → V4) (ops : List Operand) (h : ops.all opNoRbp = true) :
    vbin flat rb f ops (tau q v s) = tau (q + 1) v (vbin flat rb f ops s) := by
  unfold vbin
  split
  · rename_i d o
    have ho : opNoRbp o = true := by simpa [opNoRbp] using h
    rw [rdV_tau rb q v s o ho]
    cases rdV flat rb s o with
    | none => rfl
    | some p => rfl
  · rfl

theorem vbinImm_tau (f : V4 → V4 → Nat → V4) (ops : List Operand) (h : ops.all opNoRbp = true) :
    vbinImm flat rb f ops (tau q v s) = tau (q + 1) v (vbinImm flat rb f ops s) := by
  unfold vbinImm
  split
  · rename_i d o k
    have ho : opNoRbp o = true := by simpa [opNoRbp] using h
    rw [rdV_tau rb q v s o ho]
    cases rdV flat rb s o with
    | none => rfl
    | some p => rfl
  · rfl

theorem vImm_tau (f : V4 → Nat → V4) (ops : List Operand) :
    vImm f ops (tau q v s) = tau (q + 1) v (vImm f ops s) := by
  unfold vImm
  split <;> rfl

theorem mov128_tau (al : Bool) (ops : List Operand) (h : ops.all opNoRbp = true) :
    mov128 flat rb al ops (tau q v s) = tau (q + 1) v (mov128 flat rb al ops s) := by
  unfold mov128
  split
  · rename_i d o
    have ho : opNoRbp o = true := by simpa [opNoRbp] using h
    rw [rdV_tau rb q v s o ho]
    cases rdV flat rb s o with
    | none => rfl
    | some p => rfl
  · rename_i o r _
    have ho : opNoRbp o = true := by simpa [opNoRbp] using h
    rw [ea_tau rb q v s o ho]
    split
    · cases ea rb s.gpr o with
      | none => rfl
      | some a => rfl
    · rfl
  · rfl

theorem gbin_tau (f : Width → UInt64 → UInt64 → UInt64 × Bool) (wr : Bool) (ops : List Operand) (h : ops.all opNoRbp = true) :
    gbin flat rb f wr ops (tau q v s) = tau (q + 1) v (gbin flat rb f wr ops s) := by
  unfold gbin
  split
  · rename_i d w o
    have hd : d ≠ rbp := by
      have : opNoRbp (.gpr d w) = true := by simp only [List.all_cons, Bool.and_eq_true] at h; exact h.1
      exact ne_of_bne (by simpa [opNoRbp] using this)
    have ho : opNoRbp o = true := by simp only [List.all_cons, Bool.and_eq_true] at h; exact h.2.1
    rw [rdG_tau rb q v s w o ho, tau_readGpr q v s d w hd]
    cases rdG flat rb s w o with
    | none => rfl
    | some b =>
      cases wr
      · rfl
      · simp only [if_true]
        rw [tau_writeGpr q v s d w _ hd]
        rfl
  · rfl

/-- the mnemonics of `exec_plain`: everything but the jumps, `push`, `pop`, `ret` -/
def plainMn : Mn → Bool
  | .jz | .jnz | .jc | .jnc | .jmp | .push | .pop | .ret => false
  | _ => true

/-- an instruction without `rbp`, jump target, `push`, `pop`, `ret` -/
def isPlain (i : Instr) : Bool := plainMn i.mn && i.ops.all opNoRbp

theorem dest_ne {d : Reg} {w : Width} {rest : List Operand} (h : (Operand.gpr d w :: rest).all opNoRbp = true) : d ≠ rbp := by
  simp only [List.all_cons, Bool.and_eq_true] at h
  exact ne_of_bne (by simpa [opNoRbp] using h.1)

/-- **an instruction that does not involve `rbp`** does the same in a state with another `rbp` and `pc`, and goes to the
next instruction -/
theorem exec_plain (i : Instr) (h : isPlain i = true) :
    execG flat rb i (tau q v s) = tau (q + 1) v (execG flat rb i s) := by
  obtain ⟨mn, ops⟩ := i
  simp only [isPlain, Bool.and_eq_true] at h
  obtain ⟨hm, h⟩ := h
  cases mn
  case endbr64 => simp only [execG]; split <;> rfl
  case prefetcht0 => simp only [execG]; split <;> rfl
  case movups => exact mov128_tau rb q v s false ops h
  case movdqu => exact mov128_tau rb q v s false ops h
  case movaps => exact mov128_tau rb q v s true ops h
  case movdqa => exact mov128_tau rb q v s true ops h
  case movd =>
    simp only [execG]
    split
    · rename_i d o
      have ho : opNoRbp o = true := by simpa [opNoRbp] using h
      rw [rd32_tau rb q v s o ho]
      cases rd32 flat rb s o with
      | none => rfl
      | some x => rfl
    · rfl
  case pinsrd =>
    simp only [execG]
    split
    · rename_i d o k
      have ho : opNoRbp o = true := by simpa [opNoRbp] using h
      rw [rd32_tau rb q v s o ho]
      cases rd32 flat rb s o with
      | none => rfl
      | some x => rfl
    · rfl
  case paddd => exact vbin_tau rb q v s _mm_add_epi32 ops h
  case psubd => exact vbin_tau rb q v s psubd ops h
  case pxor => exact vbin_tau rb q v s _mm_xor_si128 ops h
  case por => exact vbin_tau rb q v s _mm_or_si128 ops h
  case pand => exact vbin_tau rb q v s pand ops h
  case pcmpgtd => exact vbin_tau rb q v s pcmpgtd ops h
  case pshufb => exact vbin_tau rb q v s pshufb ops h
  case pslld => exact vImm_tau q v s _mm_slli_epi32 ops
  case psrld => exact vImm_tau q v s _mm_srli_epi32 ops
  case pshufd => exact vbinImm_tau rb q v s (fun _ src k => _mm_shuffle_epi32 src k) ops h
  case shufps => exact vbinImm_tau rb q v s _mm_shuffle_ps ops h
  case pblendw => exact vbinImm_tau rb q v s _mm_blend_epi16 ops h
  case blendvps => exact vbin_tau rb q v s (blendvps s.xmm[(0 : Fin 16)]) ops h
  case punpckldq => exact vbin_tau rb q v s _mm_unpacklo_epi32 ops h
  case punpckhdq => exact vbin_tau rb q v s _mm_unpackhi_epi32 ops h
  case punpcklqdq => exact vbin_tau rb q v s _mm_unpacklo_epi64 ops h
  case punpckhqdq => exact vbin_tau rb q v s _mm_unpackhi_epi64 ops h
  case push => simp [plainMn] at hm
  case pop => simp [plainMn] at hm
  case ret => simp [plainMn] at hm
  case jz => simp [plainMn] at hm
  case jnz => simp [plainMn] at hm
  case jc => simp [plainMn] at hm
  case jnc => simp [plainMn] at hm
  case jmp => simp [plainMn] at hm
  case mov =>
    simp only [execG]
    split
    · rename_i d w o
      have hd := dest_ne h
      have ho : opNoRbp o = true := by simp only [List.all_cons, Bool.and_eq_true] at h; exact h.2.1
      rw [rdG_tau rb q v s w o ho]
      cases rdG flat rb s w o with
      | none => rfl
      | some x => simp only []; rw [tau_writeGpr q v s d w _ hd]; rfl
    · rfl
  case movzx =>
    simp only [execG]
    split
    · rename_i d o
      have hd := dest_ne h
      have ho : opNoRbp o = true := by simp only [List.all_cons, Bool.and_eq_true] at h; exact h.2.1
      rw [rdG_tau rb q v s .b8 o ho]
      cases rdG flat rb s .b8 o with
      | none => rfl
      | some x => simp only []; rw [tau_writeGpr q v s d .d32 _ hd]; rfl
    · rfl
  case cmovne =>
    simp only [execG]
    split
    · rename_i d w r w'
      have hd := dest_ne h
      have hr : r ≠ rbp := by
        simp only [List.all_cons, Bool.and_eq_true] at h
        exact ne_of_bne (by simpa [opNoRbp] using h.2.1)
      split
      · rw [tau_readGpr q v s d w hd, tau_readGpr q v s r w hr, tau_writeGpr q v s d w _ hd]; rfl
      · rfl
    · rfl
  case add => exact gbin_tau rb q v s aluAdd true ops h
  case sub => exact gbin_tau rb q v s aluSub true ops h
  case and => exact gbin_tau rb q v s aluAnd true ops h
  case or => exact gbin_tau rb q v s aluOr true ops h
  case xor => exact gbin_tau rb q v s aluXor true ops h
  case cmp => exact gbin_tau rb q v s aluSub false ops h
  case test => exact gbin_tau rb q v s aluAnd false ops h
  case neg =>
    simp only [execG]
    split
    · rename_i d w
      have hd := dest_ne h
      rw [tau_readGpr q v s d w hd, tau_writeGpr q v s d w _ hd]; rfl
    · rfl
  case dec =>
    simp only [execG]
    split
    · rename_i d w
      have hd := dest_ne h
      rw [tau_readGpr q v s d w hd, tau_writeGpr q v s d w _ hd]; rfl
    · rfl
  case shl =>
    simp only [execG]
    split
    · rename_i d w k
      have hd := dest_ne h
      rw [tau_readGpr q v s d w hd]
      split
      · rfl
      · rw [tau_writeGpr q v s d w _ hd]
        repeat' split
        all_goals rfl
    · rfl
  case shr =>
    simp only [execG]
    split
    · rename_i d w k
      have hd := dest_ne h
      rw [tau_readGpr q v s d w hd]
      split
      · rfl
      · rw [tau_writeGpr q v s d w _ hd]
        repeat' split
        all_goals rfl
    · rfl

end B3.AsmSem.Many.W
