/-
`blake3_compress_in_place_sse2`: the pieces of B3/Asm/Sse2Body.lean composed along the control flow
(23 + 6*78 + 56 + 5 = 552 instructions executed), and the result related to `Spec.compress`.
-/
import B3.Asm.Sse2Body
namespace B3.AsmSem.Sse2
open B3 B3.Simd B3.AsmSem B3.Gen.AsmSse2

/-! ### the `.rodata` section in memory -/

abbrev Rodata (rb : UInt64) (m : Memory) : Prop := RodataLoaded rodata rodataAlign rb m

set_option maxRecDepth 8000 in
theorem table_IV {rb : UInt64} {m : Memory} (h : Rodata rb m) : load128 m (rb + UInt64.ofNat 0) = BLAKE3_IV := by
  rw [load128_of_holds m rb rodata 0 h.holds (by decide)]; decide

set_option maxRecDepth 8000 in
theorem table_33 {rb : UInt64} {m : Memory} (h : Rodata rb m) : load128 m (rb + UInt64.ofNat 144) = PBLENDW_0x33_MASK := by
  rw [load128_of_holds m rb rodata 144 h.holds (by decide)]; decide

set_option maxRecDepth 8000 in
theorem table_CC {rb : UInt64} {m : Memory} (h : Rodata rb m) : load128 m (rb + UInt64.ofNat 160) = PBLENDW_0xCC_MASK := by
  rw [load128_of_holds m rb rodata 160 h.holds (by decide)]; decide

set_option maxRecDepth 8000 in
theorem table_3F {rb : UInt64} {m : Memory} (h : Rodata rb m) : load128 m (rb + UInt64.ofNat 176) = PBLENDW_0x3F_MASK := by
  rw [load128_of_holds m rb rodata 176 h.holds (by decide)]; decide

set_option maxRecDepth 8000 in
theorem table_C0 {rb : UInt64} {m : Memory} (h : Rodata rb m) : load128 m (rb + UInt64.ofNat 192) = PBLENDW_0xC0_MASK := by
  rw [load128_of_holds m rb rodata 192 h.holds (by decide)]; decide

theorem iv_aligned {rb : UInt64} {m : Memory} (h : Rodata rb m) : (true && aligned16 (rb + UInt64.ofNat 0)) = true := by
  rw [aligned16_of rb rodataAlign 0 (by decide) h.aligned (by decide)]; rfl

theorem masks_aligned {rb : UInt64} {m : Memory} (h : Rodata rb m) :
    ((((true && aligned16 (rb + UInt64.ofNat 144)) && aligned16 (rb + UInt64.ofNat 160)) && aligned16 (rb + UInt64.ofNat 176))
         && aligned16 (rb + UInt64.ofNat 192)) = true := by
  rw [aligned16_of rb rodataAlign 144 (by decide) h.aligned (by decide), aligned16_of rb rodataAlign 160 (by decide) h.aligned (by decide),
    aligned16_of rb rodataAlign 176 (by decide) h.aligned (by decide), aligned16_of rb rodataAlign 192 (by decide) h.aligned (by decide)]
  rfl

/-! ### `pand`/`pand`/`por` with the tables = the two `pblendw` of the SSE4.1 code -/

theorem blend_33CC (a b : V4) : blendM a b PBLENDW_0x33_MASK PBLENDW_0xCC_MASK = #v[a[0], b[1], a[2], b[3]] := by
  simp [blendM, pand, _mm_or_si128, PBLENDW_0x33_MASK, PBLENDW_0xCC_MASK, and_ones]

theorem blend_3FC0 (a b : V4) : blendM a b PBLENDW_0x3F_MASK PBLENDW_0xC0_MASK = #v[a[0], a[1], a[2], b[3]] := by
  simp [blendM, pand, _mm_or_si128, PBLENDW_0x3F_MASK, PBLENDW_0xC0_MASK, and_ones]

theorem permMasked_eq (W : St) :
    permMasked (grp0 W) (grp1 W) (grp2 W) (grp3 W) PBLENDW_0x33_MASK PBLENDW_0xCC_MASK PBLENDW_0x3F_MASK PBLENDW_0xC0_MASK
      = (grp0 (Spec.permute W), grp1 (Spec.permute W), grp2 (Spec.permute W), grp3 (Spec.permute W)) := by
  unfold permMasked
  rw [blend_33CC, blend_3FC0]
  atoms16 W
  kernel_rfl

/-! ### the stages -/

/-- the tracked state at instruction `pc`: rows of `S`, grouped words of `W` -/
abbrev atPc (pc : Nat) (S W : St) (g : Vector UInt64 16) (m : Memory) : View2 :=
  ⟨row S 0, row S 1, row S 2, row S 3, grp0 W, grp1 W, grp2 W, grp3 W, g, m, pc, .running, true⟩

theorem prologue_stage (rb : UInt64) (s : State) (hpc : s.pc = 0) (hst : s.status = .running) (hok : s.ok = true)
    (hro : Rodata rb s.mem) :
    view2 (run rb compress_in_place 23 s)
      = atPc 23 (Spec.initState (readWords s.mem s.gpr[rdi] 8) s.gpr[rcx] (lenFlags s).toUInt32 (lenFlags s >>> 32).toUInt32)
          (readWords s.mem s.gpr[rsi] 16) (gprAfterPrologue s) s.mem := by
  have hs := state_eta s hpc hst hok
  rw [hs, prologue_raw, table_IV hro, iv_aligned hro, ← hs, ← cvRaw_eq, ← blockRaw_eq]
  simp only [atPc]
  congr 1

theorem body_stage (rb : UInt64) (s : State) (S W : St) (g : Vector UInt64 16) (m : Memory)
    (h : view2 s = atPc 23 S W g m) :
    view2 (run rb compress_in_place 54 s) = atPc 77 (Spec.round S W) W g m := by
  rw [of_view2 h]
  have := body_raw rb S W s.xmm[8] s.xmm[9] s.xmm[10] s.xmm[11] s.xmm[12] s.xmm[13] s.xmm[14] s.xmm[15] g s.zf m
  rw [roundP_eq _ _ _ _ s16_eq s12_eq s8_eq s7_eq] at this
  exact this

theorem decjz_stage (rb : UInt64) (s : State) (S W : St) (g : Vector UInt64 16) (m : Memory)
    (h : view2 s = atPc 77 S W g m) :
    view2 (run rb compress_in_place 2 s) = atPc (if g[rax].toUInt8 - 1 == 0 then 101 else 79) S W (decAl g) m := by
  rw [of_view2 h]
  show view2 (step rb compress_in_place (step rb compress_in_place _)) = _
  rw [dec_raw, dec_b8_zf]
  cases hz : (g[rax].toUInt8 - 1 == 0)
  · rw [jz_not_taken]; rfl
  · rw [jz_taken]; rfl

theorem perm_stage (rb : UInt64) (s : State) (S W : St) (g : Vector UInt64 16) (m : Memory) (hro : Rodata rb m)
    (h : view2 s = atPc 79 S W g m) :
    view2 (run rb compress_in_place 22 s) = atPc 23 S (Spec.permute W) g m := by
  rw [of_view2 h]
  have := perm_raw rb (row S 0) (row S 1) (row S 2) (row S 3) (grp0 W) (grp1 W) (grp2 W) (grp3 W)
    s.xmm[8] s.xmm[9] s.xmm[10] s.xmm[11] s.xmm[12] s.xmm[13] s.xmm[14] s.xmm[15] g s.zf m
  rw [table_33 hro, table_CC hro, table_3F hro, table_C0 hro, masks_aligned hro, permMasked_eq] at this
  exact this

/-- one trip round the loop while `al - 1 ≠ 0`: 54 + 2 + 22 instructions -/
theorem iteration (rb : UInt64) (s : State) (S W : St) (g : Vector UInt64 16) (m : Memory) (hro : Rodata rb m)
    (h : view2 s = atPc 23 S W g m) (hal : (g[rax].toUInt8 - 1 == 0) = false) :
    view2 (run rb compress_in_place 78 s) = atPc 23 (Spec.round S W) (Spec.permute W) (decAl g) m := by
  rw [show 78 = 54 + (2 + 22) from rfl, run_add, run_add]
  have h2 := decjz_stage rb _ _ _ _ _ (body_stage rb s S W g m h)
  rw [hal] at h2
  exact perm_stage rb _ _ _ _ _ hro h2

/-- the last trip: `al - 1 = 0`, the branch to the epilogue is taken: 54 + 2 instructions -/
theorem last_iteration (rb : UInt64) (s : State) (S W : St) (g : Vector UInt64 16) (m : Memory)
    (h : view2 s = atPc 23 S W g m) (hal : (g[rax].toUInt8 - 1 == 0) = true) :
    view2 (run rb compress_in_place 56 s) = atPc 101 (Spec.round S W) W (decAl g) m := by
  rw [show 56 = 54 + 2 from rfl, run_add]
  have h2 := decjz_stage rb _ _ _ _ _ (body_stage rb s S W g m h)
  rw [hal] at h2
  exact h2

theorem epilogue_stage (rb : UInt64) (s : State) (S W : St) (g : Vector UInt64 16) (m : Memory)
    (h : view2 s = atPc 101 S W g m) :
    (run rb compress_in_place 5 s).status = .returned ∧ (run rb compress_in_place 5 s).ok = true ∧
    (run rb compress_in_place 5 s).mem
      = store128 (store128 m (g[rdi] + UInt64.ofNat 0) (_mm_xor_si128 (row S 0) (row S 2))) (g[rdi] + UInt64.ofNat 16)
          (_mm_xor_si128 (row S 1) (row S 3)) ∧
    (run rb compress_in_place 5 s).gpr = g.set rsp (g[rsp] + 8) := by
  rw [of_view2 h]
  exact fields_of_view2 (epilogue_raw rb _ _ _ _ _ _ _ _ s.xmm[8] s.xmm[9] s.xmm[10] s.xmm[11] s.xmm[12] s.xmm[13]
    s.xmm[14] s.xmm[15] g s.zf m)

/-! ### the whole routine -/

/-- from any state at the entry point (552 instructions are executed) -/
theorem run_compress_in_place (rb : UInt64) (s : State) (hpc : s.pc = 0) (hst : s.status = .running) (hok : s.ok = true)
    (hro : Rodata rb s.mem) :
    (run rb compress_in_place 552 s).status = .returned ∧
    (run rb compress_in_place 552 s).ok = true ∧
    (run rb compress_in_place 552 s).mem
      = writeBytes s.mem s.gpr[rdi] (bytesOfWords (first8 (Spec.compress (readWords s.mem s.gpr[rdi] 8) (readWords s.mem s.gpr[rsi] 16)
            s.gpr[rcx] (lenFlags s).toUInt32 (lenFlags s >>> 32).toUInt32))) ∧
    (run rb compress_in_place 552 s).gpr
      = (dec7 (gprAfterPrologue s)).set rsp ((dec7 (gprAfterPrologue s))[rsp] + 8) := by
  have h0 := prologue_stage rb s hpc hst hok hro
  have a0 : (gprAfterPrologue s)[rax].toUInt8 = 7 := by
    show (merge .b8 s.gpr[rax] 7).toUInt8 = 7
    rw [merge_b8_low]; rfl
  have h7 := loop7 view2 rb compress_in_place 78 56 (fun S W g m => atPc 23 S W g s.mem) (fun S W g m => atPc 101 S W g s.mem)
    (fun s' S W g _ h hal => iteration rb s' S W g s.mem hro h hal) (fun s' S W g _ h hal => last_iteration rb s' S W g s.mem h hal)
    _ _ _ _ s.mem h0 a0
  obtain ⟨e1, e2, e3, e4⟩ := epilogue_stage rb _ _ _ _ _ h7
  rw [show 552 = 23 + ((78 + (78 + (78 + (78 + (78 + (78 + 56)))))) + 5) by omega, run_add, run_add]
  refine ⟨e1, e2, ?_, e4⟩
  rw [e3]
  have hrdi : (dec7 (gprAfterPrologue s))[rdi] = s.gpr[rdi] := by rw [dec7_ne _ rdi (by decide)]; rfl
  rw [hrdi, xor_rows_lo, xor_rows_hi, store2_eq]
  rfl

/-! ### main theorems -/

/-- the state on entry: see `B3.AsmSem.Entry`, with the `.rodata` section of c/blake3_sse2_x86-64_unix.S -/
abbrev Entry (rb : UInt64) (s : State) : Prop := AsmSem.Entry rodata rodataAlign rb s

/-- `blake3_compress_in_place_sse2`, ANY register contents: after exactly 552 instructions the routine has
returned without a fault; memory is the initial memory with the 32 bytes at `rdi` replaced by the first eight
words of the specification's compression of (the 8 words at `rdi`, the 16 words at `rsi`, counter `rcx`,
block length := low half of `rdx + (r8 << 32)`, flags := its high half); `rsp` is popped; every register
other than rax, rdx, r8, rsp is unchanged. -/
theorem compress_in_place_general (rb : UInt64) (s : State) (h : Entry rb s) :
    (run rb compress_in_place 552 s).status = .returned ∧
    (run rb compress_in_place 552 s).ok = true ∧
    (run rb compress_in_place 552 s).mem
      = writeBytes s.mem s.gpr[rdi] (bytesOfWords (first8 (Spec.compress (readWords s.mem s.gpr[rdi] 8) (readWords s.mem s.gpr[rsi] 16)
            s.gpr[rcx] (lenFlags s).toUInt32 (lenFlags s >>> 32).toUInt32))) ∧
    (run rb compress_in_place 552 s).gpr[rsp] = s.gpr[rsp] + 8 ∧
    ∀ r : Reg, r ≠ rax → r ≠ rdx → r ≠ r8 → r ≠ rsp → (run rb compress_in_place 552 s).gpr[r] = s.gpr[r] := by
  obtain ⟨h1, h2, h3, h4⟩ := run_compress_in_place rb s h.pc h.running h.ok h.rodata
  refine ⟨h1, h2, h3, ?_, ?_⟩
  · rw [h4]; exact final_rsp s
  · intro r a b c d; rw [h4]; exact final_frame s r a b c d

/-- `blake3_compress_in_place_sse2(cv, block, block_len, counter, flags)` with the System V argument registers
rdi, rsi, rdx, rcx, r8 and the two `uint8_t` arguments zero-extended by the caller (`block_len` to all of rdx,
`flags` to the low 32 bits of r8): the 32 bytes at `cv` become `first8 (Spec.compress cv block counter block_len flags)`,
nothing else in memory changes. -/
theorem compress_in_place_correct (rb : UInt64) (s : State) (h : Entry rb s) (bl fl : UInt8)
    (hbl : s.gpr[rdx] = bl.toUInt64) (hfl : s.gpr[r8].toUInt32 = fl.toUInt32) :
    (run rb compress_in_place 552 s).status = .returned ∧
    (run rb compress_in_place 552 s).ok = true ∧
    (run rb compress_in_place 552 s).mem
      = writeBytes s.mem s.gpr[rdi] (bytesOfWords (first8 (Spec.compress (readWords s.mem s.gpr[rdi] 8) (readWords s.mem s.gpr[rsi] 16)
            s.gpr[rcx] bl.toUInt32 fl.toUInt32))) := by
  obtain ⟨h1, h2, h3, _⟩ := run_compress_in_place rb s h.pc h.running h.ok h.rodata
  obtain ⟨e1, e2⟩ := lenFlags_abi s bl fl hbl hfl
  rw [e1, e2] at h3
  exact ⟨h1, h2, h3⟩

/-- the same, read back: the eight words at `cv` afterwards, and the frame condition byte by byte -/
theorem compress_in_place_correct_words (rb : UInt64) (s : State) (h : Entry rb s) (bl fl : UInt8)
    (hbl : s.gpr[rdx] = bl.toUInt64) (hfl : s.gpr[r8].toUInt32 = fl.toUInt32) :
    readWords (run rb compress_in_place 552 s).mem s.gpr[rdi] 8
      = first8 (Spec.compress (readWords s.mem s.gpr[rdi] 8) (readWords s.mem s.gpr[rsi] 16) s.gpr[rcx] bl.toUInt32 fl.toUInt32) ∧
    ∀ q : UInt64, 32 ≤ (q - s.gpr[rdi]).toNat → (run rb compress_in_place 552 s).mem q = s.mem q := by
  obtain ⟨_, _, h3⟩ := compress_in_place_correct rb s h bl fl hbl hfl
  rw [h3]
  refine ⟨readWords_writeBytes _ _ _, ?_⟩
  intro q hq
  exact writeBytes_frame _ _ _ _ (by rw [bytesOfWords8_length]; exact hq)

/-- more fuel changes nothing: the routine has returned -/
theorem compress_in_place_fuel (rb : UInt64) (s : State) (h : Entry rb s) (n : Nat) :
    run rb compress_in_place (552 + n) s = run rb compress_in_place 552 s := by
  rw [run_add]
  exact run_returned _ _ _ _ (compress_in_place_general rb s h).1

end B3.AsmSem.Sse2
