/- The Windows-GNU `blake3_hash_many_sse41`, the whole routine on THE semantics `ManyW.run`: prologue (`prologue_w_flat`),
everything between (`mid_w`, carried over from the unix routine), epilogue (`epilogue_w_flat`).
`hash_many_w_final`: the state in which the routine returns, under the conditions `MidOK` on the memory after the prologue
(`MW s`).  `B3/Asm/ManyWEntry.lean` / `ManyWMain.lean` derive `MidOK` from the entry conditions `EntryW`;
`B3/Asm/ManyWFinal.lean` reads the final state (`hash_many_w_correct`). -/
import B3.Asm.ManyWMid
import B3.Asm.ManyWEnds
namespace B3.AsmSem.Many.W
open B3 B3.Simd B3.AsmSem B3.Gen.AsmSse41Many

/-- the memory after the prologue: eight pushed registers below the entry `rsp`, XMM6..XMM15 at `frame base + 0x170 ..` -/
def MW (s : State) : Memory :=
  saveMem (pushMemW s.mem s.gpr[rsp] s.gpr[r15] s.gpr[r14] s.gpr[r13] s.gpr[r12] s.gpr[rsi] s.gpr[rdi] s.gpr[rbx] s.gpr[rbp])
    (frameBaseW s.gpr[rsp]) s.xmm[6] s.xmm[7] s.xmm[8] s.xmm[9] s.xmm[10] s.xmm[11] s.xmm[12] s.xmm[13] s.xmm[14] s.xmm[15]

/-- the bytes that the routine must write at `out` (as `HmArgs.outBytes`) -/
abbrev OutB (A : HmArgs) (s : State) : List UInt8 := A.outBytes s.mem

/-- what `mid_w` needs, for the call `A` in the entry state `s` (Win64: `rcx rdx r8 r9` + stack) -/
structure MidOK (rb : UInt64) (s : State) (A : HmArgs) : Prop where
  al : okSave (frameBaseW s.gpr[rsp]) = true
  C : Ctx rodata rb (frameBaseW s.gpr[rsp])
  holds : HoldsAt (MW s) rb rodata
  R : Reads (MW s) A.out A.key (rbpW s.gpr[rsp] + 64) A.inputs A.n A.blocks (readWords s.mem A.key 8) (A.ptr s.mem)
    (fun i b => memBlock s.mem (A.ptr s.mem i) b) A.flagsStart
  hb : 64 * A.blocks < 2 ^ 64
  hb0 : 0 < A.blocks
  hn : 32 * A.n < 2 ^ 64
  ctr : load64 (MW s) (rbpW s.gpr[rsp] + dispU 104) = A.counter
  inc : ((MW s) (rbpW s.gpr[rsp] + dispU 112)).toUInt64.toUInt32 = if A.incr then 1 else 0
  hout : load64 (MW s) (rbpW s.gpr[rsp] + 64 + dispU 80) = A.out
  hfl : (MW s) (rbpW s.gpr[rsp] + 64 + dispU 56) = A.flags
  hfe : (MW s) (rbpW s.gpr[rsp] + 64 + dispU 72) = A.flagsEnd
  hpro : ∀ r ∈ proLog (rbpW s.gpr[rsp] + 64), RefOk rodata rb (frameBaseW s.gpr[rsp]) r
  hlog : ∀ q, 4 * q + 4 ≤ A.n → ∀ r ∈ outerLog (writeBytes (MW s) A.out (outBytes (readWords s.mem A.key 8)
      (fun i b => memBlock s.mem (A.ptr s.mem i) b) A.blocks A.counter A.incr A.flags A.flagsStart A.flagsEnd (4 * q))) A.key
      (rbpW s.gpr[rsp] + 64) (A.out + UInt64.ofNat (128 * q)) (A.inputs + UInt64.ofNat (32 * q)) A.blocks,
      RefOk rodata rb (frameBaseW s.gpr[rsp]) r
  hlog2 : ∀ i, i + 2 ≤ A.n → ∀ r ∈ t2Log (writeBytes (MW s) A.out (outBytes (readWords s.mem A.key 8)
      (fun i b => memBlock s.mem (A.ptr s.mem i) b) A.blocks A.counter A.incr A.flags A.flagsStart A.flagsEnd i)) A.key
      (rbpW s.gpr[rsp] + 64) (A.out + UInt64.ofNat (32 * i)) (A.inputs + UInt64.ofNat (8 * i)) A.blocks,
      RefOk rodata rb (frameBaseW s.gpr[rsp]) r
  hlog1 : ∀ j, j + 1 = A.n → ∀ r ∈ t1Log (writeBytes (MW s) A.out (outBytes (readWords s.mem A.key 8)
      (fun i b => memBlock s.mem (A.ptr s.mem i) b) A.blocks A.counter A.incr A.flags A.flagsStart A.flagsEnd j)) A.key
      (rbpW s.gpr[rsp] + 64) (A.out + UInt64.ofNat (32 * j)) (A.inputs + UInt64.ofNat (8 * j)) A.blocks,
      RefOk rodata rb (frameBaseW s.gpr[rsp]) r

/-- the final memory: some frame content over the memory after the prologue with the output bytes at `out` -/
def MF (s : State) (A : HmArgs) (F' : Vector V4 22) : Memory :=
  frameMem (frameBaseW s.gpr[rsp]) F' (writeBytes (MW s) A.out (A.outBytes s.mem))

/-- `epilogue_w_flat` for a vector of XMM registers that is not given by its components -/
theorem epilogue_w_flat' (rb : UInt64) (x : Vector V4 16)
    (g0 g1 g2 g3 g4 g5 g6 g7 g8 g9 g10 g11 g12 g13 g14 g15 : UInt64) (z c : Bool) (m : Memory) (hal : okSave g4 = true) :
    ManyW.run rb progW 20 ⟨x, #v[g0, g1, g2, g3, g4, g5, g6, g7, g8, g9, g10, g11, g12, g13, g14, g15], z, c, m, 1430, .running, true⟩
      = ⟨#v[x[0], x[1], x[2], x[3], x[4], x[5], load128 m (g4 + dispU 368), load128 m (g4 + dispU 384), load128 m (g4 + dispU 400),
            load128 m (g4 + dispU 416), load128 m (g4 + dispU 432), load128 m (g4 + dispU 448), load128 m (g4 + dispU 464),
            load128 m (g4 + dispU 480), load128 m (g4 + dispU 496), load128 m (g4 + dispU 512)],
         #v[g0, g1, g2, load64 m (g5 + 8), g5 + 8 + 8 + 8 + 8 + 8 + 8 + 8 + 8 + 8, load64 m g5,
            load64 m (g5 + 8 + 8 + 8), load64 m (g5 + 8 + 8), g8, g9, g10, g11,
            load64 m (g5 + 8 + 8 + 8 + 8), load64 m (g5 + 8 + 8 + 8 + 8 + 8), load64 m (g5 + 8 + 8 + 8 + 8 + 8 + 8),
            load64 m (g5 + 8 + 8 + 8 + 8 + 8 + 8 + 8)],
         z, c, m, 1449, .returned, true⟩ := by
  have h := epilogue_w_flat rb x[0] x[1] x[2] x[3] x[4] x[5] x[6] x[7] x[8] x[9] x[10] x[11] x[12] x[13] x[14] x[15]
    g0 g1 g2 g3 g4 g5 g6 g7 g8 g9 g10 g11 g12 g13 g14 g15 z c m
  rw [← vec16_eta x, hal] at h
  exact h

set_option maxRecDepth 100000 in
set_option maxHeartbeats 2000000 in
/-- **the state in which the Windows routine returns** -/
theorem hash_many_w_final {rb : UInt64} {s : State} {A : HmArgs} (hpc : s.pc = 0) (hst : s.status = .running) (hok : s.ok = true)
    (hcx : s.gpr[rcx] = A.inputs) (hdx : s.gpr[rdx] = UInt64.ofNat A.n) (h8 : s.gpr[r8] = UInt64.ofNat A.blocks)
    (h9 : s.gpr[r9] = A.key) (H : MidOK rb s A) :
    ∃ (N : Nat) (x' : Vector V4 16) (ax dx a8 a9 a10 a11 : UInt64) (z' c' : Bool) (F' : Vector V4 22),
      ManyW.run rb progW N s =
        ⟨#v[x'[0], x'[1], x'[2], x'[3], x'[4], x'[5],
            load128 (MF s A F') (frameBaseW s.gpr[rsp] + dispU 368), load128 (MF s A F') (frameBaseW s.gpr[rsp] + dispU 384),
            load128 (MF s A F') (frameBaseW s.gpr[rsp] + dispU 400), load128 (MF s A F') (frameBaseW s.gpr[rsp] + dispU 416),
            load128 (MF s A F') (frameBaseW s.gpr[rsp] + dispU 432), load128 (MF s A F') (frameBaseW s.gpr[rsp] + dispU 448),
            load128 (MF s A F') (frameBaseW s.gpr[rsp] + dispU 464), load128 (MF s A F') (frameBaseW s.gpr[rsp] + dispU 480),
            load128 (MF s A F') (frameBaseW s.gpr[rsp] + dispU 496), load128 (MF s A F') (frameBaseW s.gpr[rsp] + dispU 512)],
         #v[ax, A.key, dx, load64 (MF s A F') (rbpW s.gpr[rsp] + 8), rbpW s.gpr[rsp] + 8 + 8 + 8 + 8 + 8 + 8 + 8 + 8 + 8,
            load64 (MF s A F') (rbpW s.gpr[rsp]), load64 (MF s A F') (rbpW s.gpr[rsp] + 8 + 8 + 8),
            load64 (MF s A F') (rbpW s.gpr[rsp] + 8 + 8), a8, a9, a10, a11,
            load64 (MF s A F') (rbpW s.gpr[rsp] + 8 + 8 + 8 + 8), load64 (MF s A F') (rbpW s.gpr[rsp] + 8 + 8 + 8 + 8 + 8),
            load64 (MF s A F') (rbpW s.gpr[rsp] + 8 + 8 + 8 + 8 + 8 + 8),
            load64 (MF s A F') (rbpW s.gpr[rsp] + 8 + 8 + 8 + 8 + 8 + 8 + 8)],
         z', c', MF s A F', 1449, .returned, true⟩ := by
  -- epilogue (stated first: elaboration is slow once the big hypotheses are in the context)
  have hepF := fun (x' : Vector V4 16) (ax dx bx si di a8 a9 a10 a11 r14' : UInt64) (z' c' : Bool) (F' : Vector V4 22) =>
    epilogue_w_flat' rb x' ax A.key dx bx (frameBaseW s.gpr[rsp]) (rbpW s.gpr[rsp]) si di a8 a9 a10 a11
      (trunc .d32 A.flagsEnd.toUInt64) (trunc .d32 A.flags.toUInt64) r14' (UInt64.ofNat (64 * A.blocks)) z' c' (MF s A F') H.al
  -- prologue
  have h27 := prologue_w_flat rb s.xmm[0] s.xmm[1] s.xmm[2] s.xmm[3] s.xmm[4] s.xmm[5] s.xmm[6] s.xmm[7] s.xmm[8] s.xmm[9]
    s.xmm[10] s.xmm[11] s.xmm[12] s.xmm[13] s.xmm[14] s.xmm[15] s.gpr[rax] s.gpr[rcx] s.gpr[rdx] s.gpr[rbx] s.gpr[rsp] s.gpr[rbp]
    s.gpr[rsi] s.gpr[rdi] s.gpr[r8] s.gpr[r9] s.gpr[r10] s.gpr[r11] s.gpr[r12] s.gpr[r13] s.gpr[r14] s.gpr[r15] s.zf s.cf s.mem
  rw [← state_eta s hpc hst hok] at h27
  have eM : saveMem (pushMemW s.mem s.gpr[rsp] s.gpr[r15] s.gpr[r14] s.gpr[r13] s.gpr[r12] s.gpr[rsi] s.gpr[rdi] s.gpr[rbx] s.gpr[rbp])
      (frameBaseW s.gpr[rsp]) s.xmm[6] s.xmm[7] s.xmm[8] s.xmm[9] s.xmm[10] s.xmm[11] s.xmm[12] s.xmm[13] s.xmm[14] s.xmm[15] = MW s := rfl
  rw [eM] at h27
  rw [H.al, hcx, hdx, h8, h9] at h27
  have hctr : load64 (MW s) (rbpW s.gpr[rsp] + dispU 104) = A.counter := H.ctr
  -- 27..1429 and the tails
  obtain ⟨k, x', ax, bx, dx, si, di, a8, a9, a10, a11, r14', z', c', F', hmid⟩ :=
    mid_w H.C H.holds H.R H.hb H.hb0 H.hn A.counter ((MW s) (rbpW s.gpr[rsp] + dispU 112)).toUInt64 A.incr H.inc H.hout H.hfl H.hfe
      H.hpro H.hlog H.hlog2 H.hlog1 s.xmm[0] s.xmm[1] s.xmm[2] s.xmm[3] s.xmm[4] s.xmm[5] s.xmm[6] s.xmm[7] s.xmm[8] s.xmm[9]
      s.xmm[10] s.xmm[11] s.xmm[12] s.xmm[13] s.xmm[14] s.xmm[15] s.gpr[rax] s.gpr[rbx] s.gpr[r10] s.gpr[r11] s.gpr[r12] s.gpr[r13]
      s.gpr[r14] s.gpr[r15] (frameBaseW s.gpr[rsp] == 0) false
  -- epilogue
  refine ⟨27 + k + 20, x', ax, dx, a8, a9, a10, a11, z', c', F', ?_⟩
  rw [runW_add, runW_add, h27]
  rw [hctr]
  rw [hmid]
  exact hepF x' ax dx bx si di a8 a9 a10 a11 r14' z' c' F'

end B3.AsmSem.Many.W
