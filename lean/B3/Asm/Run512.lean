/-
Running the machine semantics `B3/Asm/Avx512Sem.lean` on the generated instruction lists
(`B3.Gen.AsmAvx512`, `B3.Gen.AsmAvx512Wgnu`) with concrete inputs, so that it can be compared with the
real routines running on the CPU (/verif/harness/c/build/cdriver, `CK cip|cxof avx512_asm|win_avx512_asm ...`).

  cip  <avx512|avx512_wgnu> <cv hex, 32 bytes> <block hex, 64 bytes> <block_len> <counter> <flags>  -> the 32 bytes at `cv` afterwards
  cxof <avx512|avx512_wgnu> <cv hex, 32 bytes> <block hex, 64 bytes> <block_len> <counter> <flags>  -> the 64 bytes at `out` afterwards
followed by ` ok` / ` FAULT` (the sticky fault flag), the status, the number of steps used, and `frame` / `FRAME-BROKEN`
(System V: rsp popped, rbx rbp r12-r15 unchanged; Windows: rsp popped, rbx rbp rsi rdi r12-r15 and xmm6-xmm15 unchanged).
`block_len counter flags` are full 64-bit values (decimal): they are put whole into the argument register (or 8-byte
stack slot), so that garbage in the bits above the 8-bit arguments can be supplied.
Layout: cv at 0x10008 (only 8-byte aligned), block at 0x20001 (unaligned), the file's data section at 0x30040,
out at 0x40004; System V: rsp = 0x7fff0000; Windows: rsp = 0x7fff0008 (the ABI's `rsp % 16 = 8` at entry), the fifth
and sixth argument in the 8-byte slots at rsp+0x28 (flags) and rsp+0x30 (out); all other memory reads 0; the other
registers hold junk.
-/
import B3.Asm.Run
import B3.Gen.AsmAvx512
import B3.Gen.AsmAvx512Wgnu
namespace B3.AsmSem.Run512
open B3 B3.Simd B3.AsmSem B3.AsmSem.Avx512 B3.AsmSem.Run

def le64 (v : UInt64) : Array UInt8 := (Array.range 8).map fun i => (v >>> UInt64.ofNat (8 * i)).toUInt8

def winRsp : UInt64 := 0x7fff0008

def initMemW (cv block ro : Array UInt8) (flagsSlot outSlot : Array UInt8) : Memory := fun p =>
  if p - cvBase < 32 then cv.getD (p - cvBase).toNat 0
  else if p - blockBase < 64 then block.getD (p - blockBase).toNat 0
  else if p - roBase < UInt64.ofNat ro.size then ro.getD (p - roBase).toNat 0
  else if p - (winRsp + 0x28) < 8 then flagsSlot.getD (p - (winRsp + 0x28)).toNat 0
  else if p - (winRsp + 0x30) < 8 then outSlot.getD (p - (winRsp + 0x30)).toNat 0
  else 0

def xmmInit : Vector V4 16 := Vector.ofFn fun i => #v[0xDEADBEEF + UInt32.ofNat i.val, 0x01234567, 0x89ABCDEF, 0xFEEDFACE]

/-- Windows x64: rcx = cv, rdx = block, r8 = block_len, r9 = counter, [rsp+0x28] = flags, [rsp+0x30] = out -/
def initStateW (cv block ro : Array UInt8) (blv ctr flv : UInt64) : State :=
  { xmm := xmmInit
    gpr := #v[0x1111111111111111, cvBase, blockBase, 0x3333333333333333, winRsp, 0x5555555555555555, 0x6666666666666666,
              0x7777777777777777, blv, ctr, 0xAAAAAAAAAAAAAAAA, 0xBBBBBBBBBBBBBBBB, 0xCCCCCCCCCCCCCCCC, 0xDDDDDDDDDDDDDDDD,
              0xEEEEEEEEEEEEEEEE, 0xFFFFFFFFFFFFFFFF]
    zf := false, mem := initMemW cv block ro (le64 flv) (le64 outBase), pc := 0, status := .running, ok := true }

/-- System V: as `Run.initState`, with distinguishable XMM contents -/
def initStateU (cv block ro : Array UInt8) (rdxv rcxv r8v : UInt64) : State :=
  { Run.initState cv block ro rdxv rcxv r8v with xmm := xmmInit }

def runCountV (rb : UInt64) (prog : List VInstr) : Nat → Nat → State → State × Nat
  | 0, n, s => (s, n)
  | fuel + 1, n, s => if s.status = .returned then (s, n) else runCountV rb prog fuel (n + 1) (stepV rb prog s)

def keptGpr (s0 s : State) (rs : List Reg) : Bool := rs.all fun r => s.gpr[r] == s0.gpr[r]
def keptXmm (s0 s : State) (lo : Nat) : Bool := (List.range 16).all fun i => i < lo || s.xmm[i]! == s0.xmm[i]!

def runLine (toks : List String) : Option String :=
  match toks with
  | [op, isa, cv, block, blv, ctr, flv] => do
    let cv ← bytesOfHex cv
    let block ← bytesOfHex block
    if cv.size ≠ 32 ∨ block.size ≠ 64 then none
    let (win, ro, pi, px) ← (if isa = "avx512" then some (false, Gen.AsmAvx512.rodata, Gen.AsmAvx512.compress_in_place, Gen.AsmAvx512.compress_xof)
      else if isa = "avx512_wgnu" then
        some (true, Gen.AsmAvx512Wgnu.rodata, Gen.AsmAvx512Wgnu.compress_in_place, Gen.AsmAvx512Wgnu.compress_xof)
      else none)
    let a ← u64 blv
    let b ← u64 ctr
    let c ← u64 flv
    let s0 := if win then initStateW cv block ro.toArray a b c else initStateU cv block ro.toArray a b c
    let (prog, base, n) ← (if op = "cip" then some (pi, cvBase, 32) else if op = "cxof" then some (px, outBase, 64) else none)
    let (s, steps) := runCountV roBase prog 2000 0 s0
    let frame := s.gpr[rsp] == s0.gpr[rsp] + 8 &&
      (if win then keptGpr s0 s [rbx, rbp, rsi, rdi, r12, r13, r14, r15] && keptXmm s0 s 6
       else keptGpr s0 s [rbx, rbp, r12, r13, r14, r15])
    some (hexOfBytes (readBytes s.mem base n) ++ (if s.ok then " ok " else " FAULT ")
      ++ (if s.status = .returned then "returned " else "running ") ++ toString steps ++ (if frame then " frame" else " FRAME-BROKEN"))
  | _ => none

end B3.AsmSem.Run512
