/- the counter vectors of `blake3_hash_many_avx2`: what the prologue (instructions 10..28 of the generated list) stores at
`[rsp+0x240]` / `[rsp+0x260]` are the low / high words of the 64-bit counters `counter + i` (lane i = 0..7, wrapping), or
`counter` in every lane when `increment_counter` is false -- for EVERY 64-bit counter.  The arithmetic lemmas (signed compare
of biased words = unsigned compare, carry into the high word) are those of `B3/Asm/ManyCtr.lean` (G34), repeated here so
that this file does not depend on the SSE4.1 proof. -/
import B3.Asm.Avx2RBase
namespace B3.AsmSem.Avx2
open B3 B3.Simd B3.AsmSem B3.Gen.AsmAvx2Many
open B3.AsmSem.Many (sint gts32 psubd pcmpgtd)

/-! ### signed compare of biased words = unsigned compare -/

theorem xor_msb_nat (n : Nat) (h : n < 2 ^ 32) : n ^^^ 2 ^ 31 = if n < 2 ^ 31 then n + 2 ^ 31 else n - 2 ^ 31 := by
  have e31 : (2 : Nat) ^ 31 = 1 <<< 31 := by decide
  by_cases hn : n < 2 ^ 31
  · rw [if_pos hn, e31, xor_eq_or_disjoint n 1 31 hn, Nat.or_comm, ← Nat.shiftLeft_add_eq_or_of_lt hn, Nat.add_comm]
  · rw [if_neg hn]
    have hy : n - 2 ^ 31 < 2 ^ 31 := by omega
    have e : n = (n - 2 ^ 31) ^^^ 2 ^ 31 := by
      conv => lhs; rw [show n = 1 <<< 31 + (n - 2 ^ 31) by omega]
      rw [Nat.shiftLeft_add_eq_or_of_lt hy, Nat.or_comm, e31, ← xor_eq_or_disjoint (n - 1 <<< 31) 1 31 (by rw [← e31]; exact hy)]
    conv => lhs; rw [e]
    rw [Nat.xor_assoc, Nat.xor_self, Nat.xor_zero]

theorem sint_bias (x : UInt32) : sint (x ^^^ 0x80000000) = (x.toNat : Int) - 2 ^ 31 := by
  unfold sint
  have hm : (0x80000000 : UInt32).toNat = 2 ^ 31 := by decide
  rw [UInt32.toNat_xor, hm, xor_msb_nat x.toNat x.toNat_lt]
  have := x.toNat_lt
  by_cases hx : x.toNat < 2 ^ 31
  · rw [if_pos hx, if_neg (by omega)]
    omega
  · rw [if_neg hx, if_pos (by omega)]
    omega

/-- `pcmpgtd` of two words xor-ed with `CMP_MSB_MASK`: all ones iff the first is above the second, unsigned -/
theorem gts32_bias (a b : UInt32) : gts32 (a ^^^ 0x80000000) (b ^^^ 0x80000000) = if b < a then 0xFFFFFFFF else 0 := by
  unfold gts32
  rw [sint_bias, sint_bias]
  by_cases h : b < a
  · have := UInt32.lt_iff_toNat_lt.mp h
    rw [if_pos (by omega), if_pos h]
  · have : ¬ b.toNat < a.toNat := fun hc => h (UInt32.lt_iff_toNat_lt.mpr hc)
    rw [if_neg (by omega), if_neg h]

/-! ### adding a 32-bit quantity to a 64-bit counter held as two words -/

theorem lo_add (t : UInt64) (d : UInt32) : (t + d.toUInt64).toUInt32 = t.toUInt32 + d := by
  rw [UInt64.toUInt32_add, UInt32.toUInt32_toUInt64]

theorem hi_nat (t : UInt64) : ((t >>> 32).toUInt32).toNat = t.toNat / 2 ^ 32 := by
  have h32 : (32 : UInt64).toNat % 64 = 32 := by decide
  rw [UInt64.toNat_toUInt32, UInt64.toNat_shiftRight, h32, Nat.shiftRight_eq_div_pow]
  have := t.toNat_lt
  omega

/-- the high word after the addition: plus one exactly when the low word wrapped, which shows as `lo' < lo` -/
theorem hi_add (t : UInt64) (d : UInt32) :
    ((t + d.toUInt64) >>> 32).toUInt32
      = (t >>> 32).toUInt32 - (if t.toUInt32 + d < t.toUInt32 then 0xFFFFFFFF else 0) := by
  apply UInt32.toNat_inj.mp
  rw [hi_nat, UInt64.toNat_add, UInt32.toNat_toUInt64, UInt32.toNat_sub, hi_nat]
  have ht := t.toNat_lt
  have hd := d.toNat_lt
  have hlo : (t.toUInt32 + d).toNat = (t.toNat % 2 ^ 32 + d.toNat) % 2 ^ 32 := by
    rw [UInt32.toNat_add, UInt64.toNat_toUInt32]
  have hl : t.toUInt32.toNat = t.toNat % 2 ^ 32 := UInt64.toNat_toUInt32 t
  by_cases h : t.toUInt32 + d < t.toUInt32
  · have h' := UInt32.lt_iff_toNat_lt.mp h
    rw [hlo, hl] at h'
    rw [if_pos h]
    have : (0xFFFFFFFF : UInt32).toNat = 2 ^ 32 - 1 := by decide
    rw [this]
    omega
  · have h' : ¬ (t.toUInt32 + d).toNat < t.toUInt32.toNat := fun hc => h (UInt32.lt_iff_toNat_lt.mpr hc)
    rw [hlo, hl] at h'
    rw [if_neg h]
    have : (0 : UInt32).toNat = 0 := rfl
    rw [this]
    omega

/-- the same carry seen from the addend: `lo' < d` -/
theorem wrap_iff (a d : UInt32) : (a + d < d) = (a + d < a) := by
  apply propext
  rw [UInt32.lt_iff_toNat_lt, UInt32.lt_iff_toNat_lt, UInt32.toNat_add]
  have := a.toNat_lt
  have := d.toNat_lt
  omega

theorem wrap_ite (a d x y : UInt32) : (if a + d < d then x else y) = if a + d < a then x else y := by
  have h := wrap_iff a d
  by_cases h1 : a + d < d
  · rw [if_pos h1, if_pos (h ▸ h1)]
  · rw [if_neg h1, if_neg (fun hc => h1 (h ▸ hc))]

/-! ### the mask `0 - increment_counter` (`neg r9d; vmovd xmm0, r9d`) -/

def incMask (g9 : UInt64) : UInt32 := (trunc .d32 (trunc .d32 (0 - trunc .d32 g9))).toUInt32

theorem trunc_d32_toUInt32' (x : UInt64) : (trunc .d32 x).toUInt32 = x.toUInt32 := by
  show x.toUInt32.toUInt64.toUInt32 = x.toUInt32
  exact UInt32.toUInt32_toUInt64 _

theorem incMask_eq (g9 : UInt64) : incMask g9 = 0 - g9.toUInt32 := by
  unfold incMask
  rw [trunc_d32_toUInt32', trunc_d32_toUInt32', UInt64.toUInt32_sub, trunc_d32_toUInt32']
  rfl

/-- the mask `0 - increment_counter` for a clean boolean -/
theorem incMask_bool (g9 : UInt64) (incr : Bool) (h : g9.toUInt32 = if incr then 1 else 0) :
    incMask g9 = if incr then 0xFFFFFFFF else 0 := by
  rw [incMask_eq, h]
  cases incr <;> rfl

/-! ### the vectors -/

def set1Y (x : UInt32) : Y := ⟨#v[x, x, x, x], #v[x, x, x, x]⟩

/-- `vpand ymm1, ymm0, [ADD0]`: lane i = i when incrementing, 0 otherwise -/
def maskY (g9 : UInt64) : Y := Y.map2 pand (set1Y (incMask g9)) ADD0

/-- the low counter words (`[rsp+0x240]`) -/
def proLo8 (g8 g9 : UInt64) : Y := Y.map2 _mm_add_epi32 (set1Y g8.toUInt32) (maskY g9)

/-- the high counter words (`[rsp+0x260]`): `counter.hi`, plus one where the low word wrapped -/
def proHi8 (g8 g9 : UInt64) : Y :=
  Y.map2 psubd (set1Y (g8 >>> UInt64.ofNat 32).toUInt32)
    (Y.map2 pcmpgtd (Y.map2 _mm_xor_si128 (maskY g9) CMP_MSB_MASK) (Y.map2 _mm_xor_si128 (proLo8 g8 g9) CMP_MSB_MASK))

/-- lane `l` (0..7) of a 256-bit register -/
def laneY (v : Y) (l : Fin 8) : UInt32 :=
  match l with
  | 0 => v.lo[0] | 1 => v.lo[1] | 2 => v.lo[2] | 3 => v.lo[3] | 4 => v.hi[0] | 5 => v.hi[1] | 6 => v.hi[2] | 7 => v.hi[3]

/-- lane `l` of the prologue's counter vectors = the halves of `counter + l` (incrementing) / of `counter` (not), for every
64-bit `counter` = `g8` and a clean boolean in the low half of `r9` -/
theorem pro_ctr8 (g8 g9 : UInt64) (incr : Bool) (h : g9.toUInt32 = if incr then 1 else 0) (l : Fin 8) :
    laneY (proLo8 g8 g9) l = (g8 + (if incr then UInt64.ofNat l.val else 0)).toUInt32
      ∧ laneY (proHi8 g8 g9) l = ((g8 + (if incr then UInt64.ofNat l.val else 0)) >>> 32).toUInt32 := by
  have hm := incMask_bool g9 incr h
  cases incr
  · simp only [Bool.false_eq_true, if_false] at hm
    have hlo : laneY (proLo8 g8 g9) l = g8.toUInt32 + 0 := by
      unfold proLo8 maskY; rw [hm]
      match l with | 0 | 1 | 2 | 3 | 4 | 5 | 6 | 7 => rfl
    have hhi : laneY (proHi8 g8 g9) l
        = (g8 >>> UInt64.ofNat 32).toUInt32 - gts32 ((0 : UInt32) ^^^ 0x80000000) ((g8.toUInt32 + 0) ^^^ 0x80000000) := by
      unfold proHi8 proLo8 maskY; rw [hm]
      match l with | 0 | 1 | 2 | 3 | 4 | 5 | 6 | 7 => rfl
    simp only [Bool.false_eq_true, if_false, UInt64.add_zero]
    rw [hlo, hhi, gts32_bias, if_neg (by intro hc; exact absurd (UInt32.lt_iff_toNat_lt.mp hc) (by simp)), UInt32.sub_zero,
      UInt32.add_zero]
    exact ⟨rfl, rfl⟩
  · simp only [if_true] at hm
    have hlo : laneY (proLo8 g8 g9) l = g8.toUInt32 + UInt32.ofNat l.val := by
      unfold proLo8 maskY; rw [hm]
      match l with | 0 | 1 | 2 | 3 | 4 | 5 | 6 | 7 => rfl
    have hhi : laneY (proHi8 g8 g9) l
        = (g8 >>> UInt64.ofNat 32).toUInt32
            - gts32 (UInt32.ofNat l.val ^^^ 0x80000000) ((g8.toUInt32 + UInt32.ofNat l.val) ^^^ 0x80000000) := by
      unfold proHi8 proLo8 maskY; rw [hm]
      match l with | 0 | 1 | 2 | 3 | 4 | 5 | 6 | 7 => rfl
    have hd : UInt64.ofNat l.val = (UInt32.ofNat l.val).toUInt64 := by
      match l with | 0 | 1 | 2 | 3 | 4 | 5 | 6 | 7 => rfl
    simp only [if_true]
    rw [hlo, hhi, gts32_bias, hd, lo_add, hi_add, wrap_ite]
    exact ⟨rfl, rfl⟩

/-! ### the instructions compute these vectors -/

/-- instructions 10..28 (`neg r9d` .. `vmovdqa [rsp+0x260], ymm3`) on the frame machine, from any state: the slots
`[rsp+0x240]`, `[rsp+0x260]` receive `proLo8`, `proHi8` of the entry values of `r8` (counter) and `r9` (increment flag),
no fault, `pc` = 29 -/
theorem ctr_raw (rb : UInt64) (y : Vector Y 16) (g : Vector UInt64 16) (z c : Bool) (F : Vector V4 42) (bl : UInt64) (m : Memory)
    (rd : List (UInt64 × Nat)) :
    let t := frun rodata rb hash_many 19 (mkS8 #v[y[0], y[1], y[2], y[3], y[4], y[5], y[6], y[7], y[8], y[9], y[10], y[11], y[12], y[13], y[14], y[15]] #v[g[0], g[1], g[2], g[3], g[4], g[5], g[6], g[7], g[8], g[9], g[10], g[11], g[12], g[13], g[14], g[15]] z c #v[F[0], F[1], F[2], F[3], F[4], F[5], F[6], F[7], F[8], F[9], F[10], F[11], F[12], F[13], F[14], F[15], F[16], F[17], F[18], F[19], F[20], F[21], F[22], F[23], F[24], F[25], F[26], F[27], F[28], F[29], F[30], F[31], F[32], F[33], F[34], F[35], F[36], F[37], F[38], F[39], F[40], F[41]] bl m rd 10)
    (t.mem.frame[36], t.mem.frame[37], t.mem.frame[38], t.mem.frame[39], t.ok, t.pc, t.status)
      = ((proLo8 g[8] g[9]).lo, (proLo8 g[8] g[9]).hi, (proHi8 g[8] g[9]).lo, (proHi8 g[8] g[9]).hi, true, 29, Status.running) := by
  kernel_rfl

end B3.AsmSem.Avx2
