/-
`blake3_compress_xof_avx512` (generated instruction list `B3.Gen.AsmAvx512.compress_xof`): the machine
semantics executed symbolically on each straight-line piece of the routine, cut BY POSITION:
  0..21   prologue (the same text as in compress_in_place)
  22..55  one round (34 instructions)           56 `dec al`     57 `jz 9f`
  58..71  message permutation + `jmp 9b`        72..80 feed-forward (`vpxor xmm2, xmm2, [rdi]` reads the
                                                chaining value again), four stores at r9, `ret`
Same method as B3/Asm/Avx512Body.lean (`kernel_rfl`: evaluation of `runV` in the kernel).
-/
import B3.Asm.Avx512Body
namespace B3.AsmSem.Avx512.UnixXof
open B3 B3.Simd B3.AsmSem B3.AsmSem.Avx512 B3.Gen.AsmAvx512

theorem prologue_raw (rb : UInt64) (x0 x1 x2 x3 x4 x5 x6 x7 x8 x9 x10 x11 x12 x13 x14 x15 : V4)
    (g0 g1 g2 g3 g4 g5 g6 g7 g8 g9 g10 g11 g12 g13 g14 g15 : UInt64) (z : Bool) (m : Memory) :
    view2 (runV rb compress_xof 22
      ⟨#v[x0, x1, x2, x3, x4, x5, x6, x7, x8, x9, x10, x11, x12, x13, x14, x15],
       #v[g0, g1, g2, g3, g4, g5, g6, g7, g8, g9, g10, g11, g12, g13, g14, g15], z, m, 0, .running, true⟩)
    = ⟨load128 m (g7 + UInt64.ofNat 0), load128 m (g7 + UInt64.ofNat 16), load128 m (rb + UInt64.ofNat 256),
       #v[g1.toUInt32, (g1 >>> 32).toUInt32, (lenFlagsRaw g2 g8).toUInt32, (lenFlagsRaw g2 g8 >>> 32).toUInt32],
       grp0 (blockRaw m g6), grp1 (blockRaw m g6), grp2 (blockRaw m g6), grp3 (blockRaw m g6),
       #v[merge .b8 (trunc .d32 (trunc .b8 g8) <<< 32) 7, g1, lenFlagsRaw g2 g8, g3, g4, g5, g6, g7, g8, g9, g10, g11, g12, g13, g14, g15],
       m, 22, .running, true && aligned16 (rb + UInt64.ofNat 256)⟩ := by
  kernel_rfl

theorem body_raw (rb : UInt64) (S W : St) (j8 j9 j10 j11 j12 j13 j14 j15 : V4) (g : Vector UInt64 16) (z : Bool) (m : Memory) :
    view2 (runV rb compress_xof 34
      ⟨#v[row S 0, row S 1, row S 2, row S 3, grp0 W, grp1 W, grp2 W, grp3 W, j8, j9, j10, j11, j12, j13, j14, j15],
       g, z, m, 22, .running, true⟩)
    = ⟨row (roundP ror16 ror12 ror8 ror7 S (fun i => W[i])) 0, row (roundP ror16 ror12 ror8 ror7 S (fun i => W[i])) 1,
       row (roundP ror16 ror12 ror8 ror7 S (fun i => W[i])) 2, row (roundP ror16 ror12 ror8 ror7 S (fun i => W[i])) 3,
       grp0 W, grp1 W, grp2 W, grp3 W, g, m, 56, .running, true⟩ := by
  atoms16 S; atoms16 W
  kernel_rfl

theorem dec_raw (rb : UInt64) (x : Vector V4 16) (g : Vector UInt64 16) (z : Bool) (m : Memory) (ok : Bool) :
    stepV rb compress_xof ⟨x, g, z, m, 56, .running, ok⟩
      = ⟨x, decAl g, trunc .b8 (trunc .b8 g[rax] - 1) == 0, m, 57, .running, ok⟩ := by
  kernel_rfl

theorem jz_taken (rb : UInt64) (x : Vector V4 16) (g : Vector UInt64 16) (m : Memory) (ok : Bool) :
    stepV rb compress_xof ⟨x, g, true, m, 57, .running, ok⟩ = ⟨x, g, true, m, 72, .running, ok⟩ := by
  kernel_rfl

theorem jz_not_taken (rb : UInt64) (x : Vector V4 16) (g : Vector UInt64 16) (m : Memory) (ok : Bool) :
    stepV rb compress_xof ⟨x, g, false, m, 57, .running, ok⟩ = ⟨x, g, false, m, 58, .running, ok⟩ := by
  kernel_rfl

theorem perm_raw (rb : UInt64) (r0 r1 r2 r3 : V4) (W : St) (j8 j9 j10 j11 j12 j13 j14 j15 : V4)
    (g : Vector UInt64 16) (z : Bool) (m : Memory) :
    view2 (runV rb compress_xof 14
      ⟨#v[r0, r1, r2, r3, grp0 W, grp1 W, grp2 W, grp3 W, j8, j9, j10, j11, j12, j13, j14, j15], g, z, m, 58, .running, true⟩)
    = ⟨r0, r1, r2, r3, grp0 (Spec.permute W), grp1 (Spec.permute W), grp2 (Spec.permute W), grp3 (Spec.permute W),
       g, m, 22, .running, true⟩ := by
  atoms16 W
  kernel_rfl

/-- instructions 72..80: feed-forward of both halves (the chaining value is read again from `[rdi]`, `[rdi+16]`, before any
store), four stores at `[r9 + 0/16/32/48]`, `ret` -/
theorem epilogue_raw (rb : UInt64) (r0 r1 r2 r3 m0 m1 m2 m3 j8 j9 j10 j11 j12 j13 j14 j15 : V4)
    (g : Vector UInt64 16) (z : Bool) (m : Memory) :
    view2 (runV rb compress_xof 9
      ⟨#v[r0, r1, r2, r3, m0, m1, m2, m3, j8, j9, j10, j11, j12, j13, j14, j15], g, z, m, 72, .running, true⟩)
    = ⟨_mm_xor_si128 r0 r2, _mm_xor_si128 r1 r3, _mm_xor_si128 r2 (load128 m (g[rdi] + UInt64.ofNat 0)),
       _mm_xor_si128 r3 (load128 m (g[rdi] + UInt64.ofNat 16)), m0, m1, m2, m3,
       g.set rsp (g[rsp] + 8),
       store128 (store128 (store128 (store128 m (g[r9] + UInt64.ofNat 0) (_mm_xor_si128 r0 r2))
         (g[r9] + UInt64.ofNat 16) (_mm_xor_si128 r1 r3))
         (g[r9] + UInt64.ofNat 32) (_mm_xor_si128 r2 (load128 m (g[rdi] + UInt64.ofNat 0))))
         (g[r9] + UInt64.ofNat 48) (_mm_xor_si128 r3 (load128 m (g[rdi] + UInt64.ofNat 16))),
       80, .returned, true⟩ := by
  kernel_rfl

end B3.AsmSem.Avx512.UnixXof
