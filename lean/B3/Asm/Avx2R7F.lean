/- round 7 of the 8-way loop of `blake3_hash_many_avx2` together with the feed-forward that the code fuses into its last
quarter: instructions 1060..1218 of the generated list (159), evaluated in the kernel on the frame machine over symbolic
lanes.  Afterwards YMM0-7 hold the new chaining values of the eight lanes (transposed): `v[k] ^ v[k+8]`, k = 0..7. -/
import B3.Asm.Avx2RBase
namespace B3.AsmSem.Avx2
open B3 B3.Simd B3.AsmSem B3.Gen.AsmAvx2Many

/-- the first eight words of the feed-forward, `v[k] ^ v[k+8]` (words 8..15 kept: they are not used afterwards) -/
def ffS (v : St) : St :=
  #v[v[0] ^^^ v[8], v[1] ^^^ v[9], v[2] ^^^ v[10], v[3] ^^^ v[11], v[4] ^^^ v[12], v[5] ^^^ v[13], v[6] ^^^ v[14], v[7] ^^^ v[15],
     v[8], v[9], v[10], v[11], v[12], v[13], v[14], v[15]]

def ffL (S : L8) : L8 := ⟨ffS S.l0, ffS S.l1, ffS S.l2, ffS S.l3, ffS S.l4, ffS S.l5, ffS S.l6, ffS S.l7⟩

theorem ffL_get (S : L8) (i : Fin 8) : (ffL S).get i = ffS (S.get i) := by
  match i with
  | 0 | 1 | 2 | 3 | 4 | 5 | 6 | 7 => rfl

/-- word `k < 8` of `ffS` is word `k` of `Spec.feedForward` (whatever the old chaining value) -/
theorem ffS_spec (h : CV) (v : St) (k : Fin 8) : (ffS v)[k.val]'(by omega) = (Spec.feedForward h v)[k.val]'(by omega) := by
  match k with
  | 0 | 1 | 2 | 3 | 4 | 5 | 6 | 7 => rfl

theorem r7f_raw (rb : UInt64) (S M : L8) (j8 : Y) (f : Vector V4 8) (g : Vector UInt64 16) (z c : Bool) (bl : UInt64) (m : Memory)
    (rd : List (UInt64 × Nat)) :
    (let t := frun rodata rb hash_many 159 (roundS8 S M j8 f g z c bl m rd 1060)
     (t.ymm[0], t.ymm[1], t.ymm[2], t.ymm[3], t.ymm[4], t.ymm[5], t.ymm[6], t.ymm[7], t.gpr, t.zf, t.cf, t.mem.mem, t.mem.blen, t.pc, t.status, t.ok))
      = (wideY (ffL (roundL 6 S M)) 0, wideY (ffL (roundL 6 S M)) 1, wideY (ffL (roundL 6 S M)) 2, wideY (ffL (roundL 6 S M)) 3, wideY (ffL (roundL 6 S M)) 4, wideY (ffL (roundL 6 S M)) 5, wideY (ffL (roundL 6 S M)) 6, wideY (ffL (roundL 6 S M)) 7, g, z, c, m, bl, 1219, Status.running, true) := by
  kernel_rfl

end B3.AsmSem.Avx2
