/-
`blake3_compress_in_place_sse41`: the pieces of B3/Asm/Sse41Body.lean composed along the control
flow of the routine (prologue, six trips round the loop with the branch not taken, the seventh with
the branch taken, epilogue; 25 + 6*65 + 48 + 5 = 468 instructions executed), and the result related
to `Spec.compress`.
-/
import B3.Asm.Sse41Body
namespace B3.AsmSem.Sse41
open B3 B3.Simd B3.AsmSem B3.Gen.AsmSse41

/-! ### the `.rodata` section of c/blake3_sse41_x86-64_unix.S in memory -/

abbrev Rodata (rb : UInt64) (m : Memory) : Prop := RodataLoaded rodata rodataAlign rb m

set_option maxRecDepth 8000 in
theorem table_IV {rb : UInt64} {m : Memory} (h : Rodata rb m) : load128 m (rb + UInt64.ofNat 0) = BLAKE3_IV := by
  rw [load128_of_holds m rb rodata 0 h.holds (by decide)]; decide

set_option maxRecDepth 8000 in
theorem table_ROT16 {rb : UInt64} {m : Memory} (h : Rodata rb m) : load128 m (rb + UInt64.ofNat 16) = ROT16 := by
  rw [load128_of_holds m rb rodata 16 h.holds (by decide)]; decide

set_option maxRecDepth 8000 in
theorem table_ROT8 {rb : UInt64} {m : Memory} (h : Rodata rb m) : load128 m (rb + UInt64.ofNat 32) = ROT8 := by
  rw [load128_of_holds m rb rodata 32 h.holds (by decide)]; decide

theorem tables_aligned {rb : UInt64} {m : Memory} (h : Rodata rb m) :
    (((true && aligned16 (rb + UInt64.ofNat 0)) && aligned16 (rb + UInt64.ofNat 32)) && aligned16 (rb + UInt64.ofNat 16)) = true := by
  rw [aligned16_of rb rodataAlign 0 (by decide) h.aligned (by decide), aligned16_of rb rodataAlign 32 (by decide) h.aligned (by decide),
    aligned16_of rb rodataAlign 16 (by decide) h.aligned (by decide)]
  rfl

/-! ### the stages -/

/-- the tracked state at instruction `pc`: rows of `S`, grouped words of `W`, the two tables in XMM14/15 -/
abbrev atPc (pc : Nat) (S W : St) (g : Vector UInt64 16) (m : Memory) : View :=
  ⟨row S 0, row S 1, row S 2, row S 3, grp0 W, grp1 W, grp2 W, grp3 W, ROT8, ROT16, g, m, pc, .running, true⟩

theorem prologue_stage (rb : UInt64) (s : State) (hpc : s.pc = 0) (hst : s.status = .running) (hok : s.ok = true)
    (hro : Rodata rb s.mem) :
    view (run rb compress_in_place 25 s)
      = atPc 25 (Spec.initState (readWords s.mem s.gpr[rdi] 8) s.gpr[rcx] (lenFlags s).toUInt32 (lenFlags s >>> 32).toUInt32)
          (readWords s.mem s.gpr[rsi] 16) (gprAfterPrologue s) s.mem := by
  have hs := state_eta s hpc hst hok
  rw [hs, prologue_raw, table_IV hro, table_ROT16 hro, table_ROT8 hro, tables_aligned hro, ← hs, ← cvRaw_eq, ← blockRaw_eq]
  simp only [atPc]
  congr 1

theorem body_stage (rb : UInt64) (s : State) (S W : St) (g : Vector UInt64 16) (m : Memory)
    (h : view s = atPc 25 S W g m) :
    view (run rb compress_in_place 46 s) = atPc 71 (Spec.round S W) W g m := by
  rw [of_view h]
  have := body_raw rb S W s.xmm[8] s.xmm[9] s.xmm[10] s.xmm[11] s.xmm[12] s.xmm[13] g s.zf m
  rw [roundP_eq _ _ _ _ a16_eq a12_eq a8_eq a7_eq] at this
  exact this

theorem decjz_stage (rb : UInt64) (s : State) (S W : St) (g : Vector UInt64 16) (m : Memory)
    (h : view s = atPc 71 S W g m) :
    view (run rb compress_in_place 2 s) = atPc (if g[rax].toUInt8 - 1 == 0 then 90 else 73) S W (decAl g) m := by
  rw [of_view h]
  show view (step rb compress_in_place (step rb compress_in_place _)) = _
  rw [dec_raw, dec_b8_zf]
  cases hz : (g[rax].toUInt8 - 1 == 0)
  · rw [jz_not_taken]; rfl
  · rw [jz_taken]; rfl

theorem perm_stage (rb : UInt64) (s : State) (S W : St) (g : Vector UInt64 16) (m : Memory)
    (h : view s = atPc 73 S W g m) :
    view (run rb compress_in_place 17 s) = atPc 25 S (Spec.permute W) g m := by
  rw [of_view h]
  exact perm_raw rb _ _ _ _ W s.xmm[8] s.xmm[9] s.xmm[10] s.xmm[11] s.xmm[12] s.xmm[13] _ _ g s.zf m

/-- one trip round the loop while `al - 1 ≠ 0`: 46 + 2 + 17 instructions -/
theorem iteration (rb : UInt64) (s : State) (S W : St) (g : Vector UInt64 16) (m : Memory)
    (h : view s = atPc 25 S W g m) (hal : (g[rax].toUInt8 - 1 == 0) = false) :
    view (run rb compress_in_place 65 s) = atPc 25 (Spec.round S W) (Spec.permute W) (decAl g) m := by
  rw [show 65 = 46 + (2 + 17) from rfl, run_add, run_add]
  have h2 := decjz_stage rb _ _ _ _ _ (body_stage rb s S W g m h)
  rw [hal] at h2
  exact perm_stage rb _ _ _ _ _ h2

/-- the last trip: `al - 1 = 0`, the branch to the epilogue is taken: 46 + 2 instructions -/
theorem last_iteration (rb : UInt64) (s : State) (S W : St) (g : Vector UInt64 16) (m : Memory)
    (h : view s = atPc 25 S W g m) (hal : (g[rax].toUInt8 - 1 == 0) = true) :
    view (run rb compress_in_place 48 s) = atPc 90 (Spec.round S W) W (decAl g) m := by
  rw [show 48 = 46 + 2 from rfl, run_add]
  have h2 := decjz_stage rb _ _ _ _ _ (body_stage rb s S W g m h)
  rw [hal] at h2
  exact h2

theorem epilogue_stage (rb : UInt64) (s : State) (S W : St) (g : Vector UInt64 16) (m : Memory)
    (h : view s = atPc 90 S W g m) :
    (run rb compress_in_place 5 s).status = .returned ∧ (run rb compress_in_place 5 s).ok = true ∧
    (run rb compress_in_place 5 s).mem
      = store128 (store128 m (g[rdi] + UInt64.ofNat 0) (_mm_xor_si128 (row S 0) (row S 2))) (g[rdi] + UInt64.ofNat 16)
          (_mm_xor_si128 (row S 1) (row S 3)) ∧
    (run rb compress_in_place 5 s).gpr = g.set rsp (g[rsp] + 8) := by
  rw [of_view h]
  exact fields_of_view (epilogue_raw rb _ _ _ _ _ _ _ _ s.xmm[8] s.xmm[9] s.xmm[10] s.xmm[11] s.xmm[12] s.xmm[13] _ _ g s.zf m)

/-! ### the whole routine -/

/-- from any state at the entry point (468 instructions are executed) -/
theorem run_compress_in_place (rb : UInt64) (s : State) (hpc : s.pc = 0) (hst : s.status = .running) (hok : s.ok = true)
    (hro : Rodata rb s.mem) :
    (run rb compress_in_place 468 s).status = .returned ∧
    (run rb compress_in_place 468 s).ok = true ∧
    (run rb compress_in_place 468 s).mem
      = writeBytes s.mem s.gpr[rdi] (bytesOfWords (first8 (Spec.compress (readWords s.mem s.gpr[rdi] 8) (readWords s.mem s.gpr[rsi] 16)
            s.gpr[rcx] (lenFlags s).toUInt32 (lenFlags s >>> 32).toUInt32))) ∧
    (run rb compress_in_place 468 s).gpr
      = (dec7 (gprAfterPrologue s)).set rsp ((dec7 (gprAfterPrologue s))[rsp] + 8) := by
  have h0 := prologue_stage rb s hpc hst hok hro
  have a0 : (gprAfterPrologue s)[rax].toUInt8 = 7 := by
    show (merge .b8 s.gpr[rax] 7).toUInt8 = 7
    rw [merge_b8_low]; rfl
  have h7 := loop7 view rb compress_in_place 65 48 (atPc 25) (atPc 90) (iteration rb) (last_iteration rb) _ _ _ _ _ h0 a0
  obtain ⟨e1, e2, e3, e4⟩ := epilogue_stage rb _ _ _ _ _ h7
  rw [show 468 = 25 + ((65 + (65 + (65 + (65 + (65 + (65 + 48)))))) + 5) by omega, run_add, run_add]
  refine ⟨e1, e2, ?_, e4⟩
  rw [e3]
  have hrdi : (dec7 (gprAfterPrologue s))[rdi] = s.gpr[rdi] := by rw [dec7_ne _ rdi (by decide)]; rfl
  rw [hrdi, xor_rows_lo, xor_rows_hi, store2_eq]
  rfl

/-! ### main theorems -/

/-- the state on entry: see `B3.AsmSem.Entry`, with the `.rodata` section of c/blake3_sse41_x86-64_unix.S -/
abbrev Entry (rb : UInt64) (s : State) : Prop := AsmSem.Entry rodata rodataAlign rb s

/-- `blake3_compress_in_place_sse41`, ANY register contents: after exactly 468 instructions the routine has
returned without a fault; memory is the initial memory with the 32 bytes at `rdi` replaced by the first eight
words of the specification's compression of (the 8 words at `rdi`, the 16 words at `rsi`, counter `rcx`,
block length := low half of `rdx + (r8 << 32)`, flags := its high half); `rsp` is popped; every register
other than rax, rdx, r8, rsp is unchanged. -/
theorem compress_in_place_general (rb : UInt64) (s : State) (h : Entry rb s) :
    (run rb compress_in_place 468 s).status = .returned ∧
    (run rb compress_in_place 468 s).ok = true ∧
    (run rb compress_in_place 468 s).mem
      = writeBytes s.mem s.gpr[rdi] (bytesOfWords (first8 (Spec.compress (readWords s.mem s.gpr[rdi] 8) (readWords s.mem s.gpr[rsi] 16)
            s.gpr[rcx] (lenFlags s).toUInt32 (lenFlags s >>> 32).toUInt32))) ∧
    (run rb compress_in_place 468 s).gpr[rsp] = s.gpr[rsp] + 8 ∧
    ∀ r : Reg, r ≠ rax → r ≠ rdx → r ≠ r8 → r ≠ rsp → (run rb compress_in_place 468 s).gpr[r] = s.gpr[r] := by
  obtain ⟨h1, h2, h3, h4⟩ := run_compress_in_place rb s h.pc h.running h.ok h.rodata
  refine ⟨h1, h2, h3, ?_, ?_⟩
  · rw [h4]; exact final_rsp s
  · intro r a b c d; rw [h4]; exact final_frame s r a b c d

/-- `blake3_compress_in_place_sse41(cv, block, block_len, counter, flags)` with the System V argument registers
rdi, rsi, rdx, rcx, r8 and the two `uint8_t` arguments zero-extended by the caller (`block_len` to all of rdx --
the routine adds the whole of rdx --, `flags` to the low 32 bits of r8): the 32 bytes at `cv` become
`first8 (Spec.compress cv block counter block_len flags)`, nothing else in memory changes. -/
theorem compress_in_place_correct (rb : UInt64) (s : State) (h : Entry rb s) (bl fl : UInt8)
    (hbl : s.gpr[rdx] = bl.toUInt64) (hfl : s.gpr[r8].toUInt32 = fl.toUInt32) :
    (run rb compress_in_place 468 s).status = .returned ∧
    (run rb compress_in_place 468 s).ok = true ∧
    (run rb compress_in_place 468 s).mem
      = writeBytes s.mem s.gpr[rdi] (bytesOfWords (first8 (Spec.compress (readWords s.mem s.gpr[rdi] 8) (readWords s.mem s.gpr[rsi] 16)
            s.gpr[rcx] bl.toUInt32 fl.toUInt32))) := by
  obtain ⟨h1, h2, h3, _⟩ := run_compress_in_place rb s h.pc h.running h.ok h.rodata
  obtain ⟨e1, e2⟩ := lenFlags_abi s bl fl hbl hfl
  rw [e1, e2] at h3
  exact ⟨h1, h2, h3⟩

/-- the same, read back: the eight words at `cv` afterwards, and the frame condition byte by byte -/
theorem compress_in_place_correct_words (rb : UInt64) (s : State) (h : Entry rb s) (bl fl : UInt8)
    (hbl : s.gpr[rdx] = bl.toUInt64) (hfl : s.gpr[r8].toUInt32 = fl.toUInt32) :
    readWords (run rb compress_in_place 468 s).mem s.gpr[rdi] 8
      = first8 (Spec.compress (readWords s.mem s.gpr[rdi] 8) (readWords s.mem s.gpr[rsi] 16) s.gpr[rcx] bl.toUInt32 fl.toUInt32) ∧
    ∀ q : UInt64, 32 ≤ (q - s.gpr[rdi]).toNat → (run rb compress_in_place 468 s).mem q = s.mem q := by
  obtain ⟨_, _, h3⟩ := compress_in_place_correct rb s h bl fl hbl hfl
  rw [h3]
  refine ⟨readWords_writeBytes _ _ _, ?_⟩
  intro q hq
  exact writeBytes_frame _ _ _ _ (by rw [bytesOfWords8_length]; exact hq)

/-- more fuel changes nothing: the routine has returned -/
theorem compress_in_place_fuel (rb : UInt64) (s : State) (h : Entry rb s) (n : Nat) :
    run rb compress_in_place (468 + n) s = run rb compress_in_place 468 s := by
  rw [run_add]
  exact run_returned _ _ _ _ (compress_in_place_general rb s h).1

/-! the hypotheses are satisfiable: a concrete entry state (tables at 0x30040, cv at 0x10008, block at 0x20001,
`block_len = 64`, `flags = 11`, upper half of r8 dirty) -/

def exampleState : State :=
  { xmm := Vector.replicate 16 #v[0xDEADBEEF, 1, 2, 3]
    gpr := #v[0x1111111111111111, 5, 64, 3, 0x7fff0000, 5, 0x20001, 0x10008, 0xA5C3A5C30000000B, 9, 10, 11, 12, 13, 14, 15]
    zf := true, mem := writeBytes (fun _ => 0x5A) 0x30040 rodata, pc := 0, status := .running, ok := true }

set_option maxRecDepth 8000 in
example : Entry 0x30040 exampleState :=
  ⟨rfl, rfl, rfl, by decide, holdsAt_writeBytes _ _ _ (by decide)⟩

example : exampleState.gpr[rdx] = (64 : UInt8).toUInt64 ∧ exampleState.gpr[r8].toUInt32 = (11 : UInt8).toUInt32 := by decide

/-- what the general theorem says when the caller leaves garbage above the 8-bit arguments (the psABI does not
forbid it): bits 63:32 of rdx are ADDED to the flags word, bits 31:8 of rdx go into the block-length word -/
example (s : State) (h2 : s.gpr[rdx] = 0xA5C3A5C300000040) (h8 : s.gpr[r8] = 0x0B) :
    (lenFlags s).toUInt32 = 0x40 ∧ (lenFlags s >>> 32).toUInt32 = 0xA5C3A5C3 + 0x0B := by
  unfold lenFlags; rw [h2, h8]; decide

end B3.AsmSem.Sse41
