/-
Running the machine semantics `B3/Asm/ManyWSem.lean` on the generated instruction list of the Windows-GNU
`blake3_hash_many_sse41` with concrete inputs, so that it can be compared with the real routine running on the CPU
(/verif/harness/c/build/cdriver, `CK hmany win_sse41_asm ...`: the Windows-GNU object called through `ms_abi`).

  hmanyw <n> <blocks> <seed> <key hex, 32 bytes> <counter> <incr slot> <flags> <fstart> <fend> <inoff> <outoff> <flat|fast>
    -> the 32*n bytes at `out` afterwards, then ` ok` / ` FAULT` (the sticky fault flag), the status, the number of
       steps, ` regs` / ` REGS!` (rbx rbp rdi rsi r12-r15 and xmm6-xmm15 restored, rsp = entry rsp + 8) and ` frame` /
       ` FRAME!` (no byte of memory outside `out` and outside the 656 bytes below the entry rsp differs from the initial
       memory, checked on the windows that hold data and on 64 bytes around each of them)
The arguments are those of `CK hmany` of the C harness (see `B3/Asm/RunMany.lean`, whose helpers and memory layout are
reused); `<incr slot>` is the full 64-bit value of the stack slot that carries `increment_counter` (0 or 1 for a clean
call; `CK dirty 1|2` put garbage above the low byte).  Win64 call: rcx = inputs, rdx = num_inputs, r8 = blocks, r9 = key;
on the stack the 32 bytes of shadow space at `rsp+8`, then counter, increment_counter, flags, flags_start, flags_end, out
as qwords at `rsp+0x28 .. rsp+0x50` (the bytes above the low byte of the three flag slots hold junk).  Entry
rsp = 0x7fff0008 (8 mod 16, as after a `call`); the other registers, XMM included, hold junk.
-/
import B3.Gen.AsmSse41ManyWgnu
import B3.Asm.ManyWSem
import B3.Asm.RunMany
namespace B3.AsmSem.ManyW.Run
open B3 B3.Simd B3.AsmSem B3.AsmSem.Many B3.AsmSem.Many.Run

/-- the windows of the initial memory: pointer array, key, .rdata, inputs, out (prefilled), stack arguments -/
def initWinsW (n blocks : Nat) (seed : UInt64) (key : Array UInt8) (counter incrSlot : UInt64) (flags fs fe : UInt8)
    (inoff outoff : UInt64) : Array Win :=
  let len := blocks * 64
  let inp : Array UInt8 := (Array.range n).foldl (fun acc i => acc ++ lcgFill len (seed + UInt64.ofNat i)) #[]
  let ptrs : Array UInt8 := (Array.range n).foldl (fun acc i => acc ++ le64 (inBase + inoff + UInt64.ofNat (i * len))) #[]
  let args : Array UInt8 :=
    le64 counter ++ le64 incrSlot ++ le64 (0xA5C3A5C3A5C3A500 ||| flags.toUInt64) ++ le64 (0xA5C3A5C3A5C3A500 ||| fs.toUInt64)
      ++ le64 (0xA5C3A5C3A5C3A500 ||| fe.toUInt64) ++ le64 (outBase + outoff)
  #[⟨ptrBase, ⟨ptrs⟩⟩, ⟨keyBase, ⟨key⟩⟩, ⟨roBase, ⟨Gen.AsmSse41ManyWgnu.rodata.toArray⟩⟩, ⟨inBase + inoff, ⟨inp⟩⟩,
    ⟨outBase + outoff, ⟨Array.replicate (32 * n) 0x55⟩⟩, ⟨rsp0 + 0x28, ⟨args⟩⟩]

/-- rcx = inputs, rdx = num_inputs, r8 = blocks, r9 = key; everything else junk -/
def initGprW (n blocks : Nat) : Vector UInt64 16 :=
  #v[0x1111111111111111, ptrBase, UInt64.ofNat n, 0x3333333333333333, rsp0, 0x5555555555555555, 0x6666666666666666,
     0x7777777777777777, UInt64.ofNat blocks, keyBase, 0xAAAAAAAAAAAAAAAA, 0xBBBBBBBBBBBBBBBB, 0xCCCCCCCCCCCCCCCC,
     0xDDDDDDDDDDDDDDDD, 0xEEEEEEEEEEEEEEEE, 0xFFFFFFFFFFFFFFFF]

def junkW (i : Nat) : V4 := #v[0xDEADBEEF + UInt32.ofNat i, 0x01234567, 0x89ABCDEF, 0xFEEDFACE - UInt32.ofNat i]

def initStateW {μ : Type} (m : μ) (n blocks : Nat) : StateG μ :=
  { xmm := Vector.ofFn fun i => junkW i.val, gpr := initGprW n blocks, zf := true, cf := true, mem := m, pc := 0,
    status := .running, ok := true }

/-- run until `ret` (at most `fuel` steps); returns the state and the number of steps -/
def runCountW {μ : Type} (A : MemAcc μ) (rb : UInt64) (prog : List Many.Instr) : Nat → Nat → StateG μ → StateG μ × Nat
  | 0, n, s => (s, n)
  | fuel + 1, n, s => if s.status = .returned then (s, n) else runCountW A rb prog fuel (n + 1) (ManyW.stepG A rb prog s)

def mkFastW (base : Memory) (outLo : UInt64) (outLen : Nat) : FastMem :=
  let w1 : Win := ⟨rsp0 - 768, ⟨(Array.range 768).map fun k => base (rsp0 - 768 + UInt64.ofNat k)⟩⟩
  let w2 : Win := ⟨outLo, ⟨(Array.range outLen).map fun k => base (outLo + UInt64.ofNat k)⟩⟩
  { base := base, wins := #[w1, w2], stray := [] }

/-- the final memory equals the initial one outside `out` and outside the 656 bytes below the entry rsp, on every window
of the initial memory extended by 64 bytes on both sides, and on the 896 bytes from `rsp - 832` to `rsp + 64` -/
def frameOkW (ws : Array Win) (m0 m1 : Memory) (outLo : UInt64) (outLen : Nat) : Bool :=
  let inOut (p : UInt64) : Bool := p - outLo < UInt64.ofNat outLen
  let inFrame (p : UInt64) : Bool := p - (rsp0 - 656) < 656
  let okAt (p : UInt64) : Bool := inOut p || inFrame p || m0 p == m1 p
  ws.all (fun w => (List.range (w.bytes.size + 128)).all fun k => okAt (w.lo - 64 + UInt64.ofNat k))
    && (List.range 896).all (fun k => okAt (rsp0 - 832 + UInt64.ofNat k))

/-- Win64 callee-saved registers: rbx rbp rdi rsi r12-r15, xmm6-xmm15; rsp popped -/
def regsOkW {μ : Type} (s0 s1 : StateG μ) : Bool :=
  s1.gpr[rbx] == s0.gpr[rbx] && s1.gpr[rbp] == s0.gpr[rbp] && s1.gpr[rdi] == s0.gpr[rdi] && s1.gpr[rsi] == s0.gpr[rsi]
    && s1.gpr[r12] == s0.gpr[r12] && s1.gpr[r13] == s0.gpr[r13] && s1.gpr[r14] == s0.gpr[r14] && s1.gpr[r15] == s0.gpr[r15]
    && s1.gpr[rsp] == s0.gpr[rsp] + 8
    && (List.range 10).all (fun k => s1.xmm[(6 + k) % 16]! == s0.xmm[(6 + k) % 16]!)

def runLine (toks : List String) : Option String :=
  match toks with
  | ["hmanyw", n, blocks, seed, key, counter, incr, flags, fs, fe, inoff, outoff, mode] => do
    let n ← n.toNat?
    let blocks ← blocks.toNat?
    let key ← bytesOfHex key
    if key.size ≠ 32 ∨ n > 64 ∨ blocks > 64 then none
    let flags ← u64 flags; let fs ← u64 fs; let fe ← u64 fe
    let inoff ← u64 inoff; let outoff ← u64 outoff
    let counter ← u64 counter; let incr ← u64 incr
    let ws := initWinsW n blocks (← u64 seed) key counter incr flags.toUInt8 fs.toUInt8 fe.toUInt8 inoff outoff
    let m0 : Memory := lookup ws
    let outLo := outBase + outoff
    let fuel := 2000 + 6000 * (n + 4) * (blocks + 1)
    if mode = "flat" then
      let s0 := initStateW m0 n blocks
      let (s, steps) := runCountW flat roBase Gen.AsmSse41ManyWgnu.hash_many fuel 0 s0
      some (report (readBytes s.mem outLo (32 * n)) s.ok s.status steps (regsOkW s0 s) (frameOkW ws m0 s.mem outLo (32 * n)))
    else if mode = "fast" then
      let s0 := initStateW (mkFastW m0 outLo (32 * n)) n blocks
      let (s, steps) := runCountW fastAcc roBase Gen.AsmSse41ManyWgnu.hash_many fuel 0 s0
      some (report (readBytes s.mem.view outLo (32 * n)) s.ok s.status steps (regsOkW s0 s)
        (frameOkW ws m0 s.mem.view outLo (32 * n) && s.mem.stray.isEmpty))
    else none
  | _ => none

end B3.AsmSem.ManyW.Run
