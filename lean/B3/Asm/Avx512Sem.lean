/-
A machine semantics for the VEX / EVEX encoded 128-bit instructions (and four more general purpose
forms) that the hand written assembly routines `blake3_compress_in_place_avx512` and
`blake3_compress_xof_avx512` use (c/blake3_avx512_x86-64_unix.S and its Windows-GNU flavour
c/blake3_avx512_x86-64_windows_gnu.S).  It EXTENDS `B3/Asm/Sse.lean` (same `State`, `Memory`,
`Operand`, lane helpers; the general purpose / control instructions `endbr64 mov movzx shl add dec
jz jmp ret` are executed by `AsmSem.exec` through the constructor `VInstr.base`).

THIS FILE IS TRUSTED: it is the statement of what the instructions do.  Every case carries the
pseudo-code of the Intel SDM (Vol. 2, "Operation" sections, VEX.128 / EVEX.128 forms) that it
transcribes.  The model is validated at run time by `RunAsm512.lean` (this `execV`, evaluated on
random inputs, is compared with the real routines running on the CPU).

What is modelled, in addition to what `Sse.lean` says about registers, ZF, memory, faults and control:
* ONLY THE LOW 128 BITS of the vector registers (`State.xmm`, sixteen `V4`), and only registers
  xmm0..xmm15 (the translator rejects xmm16..xmm31).  A VEX.128 / EVEX.128 encoded instruction
  zeroes bits MAXVL-1:128 of its destination register (`DEST[MAXVL-1:128] := 0` ends every
  "Operation" section transcribed below); those bits are not part of the state here, so that line
  has no counterpart.  Consequently nothing is claimed about the upper parts of ymm/zmm0..15 after
  the routines (they are zeroed for every register the routines write; both the System V and the
  Windows x64 ABI make those bits volatile).
* No opmask: the EVEX instructions of the routines (`vpxord`, `vprord`) are used without `{k}`
  (k0 = no masking), without broadcast and without `{z}`; the translator rejects such decorations.
* Memory operands of VEX / EVEX computational instructions and of `vmovdqu`/`vmovups` have NO
  alignment requirement (SDM Vol. 1 14.9, exception classes 4 / E4 without alignment check);
  `vmovdqa`/`vmovaps` fault (#GP) on an address that is not a multiple of 16.
* `sub r64, imm` / `add r64, imm` (the stack frame of the Windows flavour), `movzx r32, byte ptr [m]`
  and `mov r64, qword ptr [m]` (its two stack arguments).
-/
import B3.Asm.Sse
import B3.Simd.Prim512
namespace B3.AsmSem.Avx512
open B3 B3.Simd B3.AsmSem

/-! ### instruction syntax -/

inductive VMn where
  | vmovdqu | vmovups | vmovdqa | vmovaps | vmovq
  | vpaddd | vpxor | vpxord | vprord
  | vpshufd | vshufps | vpblendd
  | vpunpcklqdq | vpunpckldq | vpunpckhdq
  /-- `sub r64, imm` -/
  | sub_imm
  /-- `add r64, imm` -/
  | add_imm
  /-- `movzx r32, byte ptr [m]` -/
  | movzx_m8
  /-- `mov r64, qword ptr [m]` -/
  | mov_m64
deriving DecidableEq, Repr

inductive VInstr where
  /-- an instruction of `B3/Asm/Sse.lean` (the translator uses this for `endbr64 mov movzx shl add dec jz jmp ret` only) -/
  | base (i : Instr)
  | v (mn : VMn) (ops : List Operand)
deriving DecidableEq, Repr

/-- shorthands used by the generated instruction lists -/
abbrev B (mn : Mn) (ops : List Operand) : VInstr := .base ⟨mn, ops⟩
abbrev V (mn : VMn) (ops : List Operand) : VInstr := .v mn ops

/-! ### operations -/

/-- VPBLENDD xmm1, xmm2, xmm3/m128, imm8 (VEX.128):
```
IF (imm8[0] == 1) THEN DEST[31:0] := SRC2[31:0] ELSE DEST[31:0] := SRC1[31:0]
IF (imm8[1] == 1) THEN DEST[63:32] := SRC2[63:32] ELSE DEST[63:32] := SRC1[63:32]
IF (imm8[2] == 1) THEN DEST[95:64] := SRC2[95:64] ELSE DEST[95:64] := SRC1[95:64]
IF (imm8[3] == 1) THEN DEST[127:96] := SRC2[127:96] ELSE DEST[127:96] := SRC1[127:96]
DEST[MAXVL-1:128] := 0
``` -/
def vpblendd (a b : V4) (imm8 : Nat) : V4 :=
  #v[if imm8.testBit 0 then b[0] else a[0], if imm8.testBit 1 then b[1] else a[1],
     if imm8.testBit 2 then b[2] else a[2], if imm8.testBit 3 then b[3] else a[3]]

/-- the quadword at address `a`, little-endian -/
def load64 (m : Memory) (a : UInt64) : UInt64 :=
  (m a).toUInt64 ||| ((m (a + 1)).toUInt64 <<< 8) ||| ((m (a + 2)).toUInt64 <<< 16) ||| ((m (a + 3)).toUInt64 <<< 24)
    ||| ((m (a + 4)).toUInt64 <<< 32) ||| ((m (a + 5)).toUInt64 <<< 40) ||| ((m (a + 6)).toUInt64 <<< 48)
    ||| ((m (a + 7)).toUInt64 <<< 56)

/-- the second source operand `xmm3/m128` of a VEX / EVEX instruction: no alignment requirement -/
def src128 (rb : UInt64) (s : State) : Operand → Option V4
  | .xmm r => some s.xmm[r]
  | o => (s.ea rb o).map (load128 s.mem)

/-- `xmm1 := f xmm2 (xmm3/m128)` -/
def v3 (rb : UInt64) (f : V4 → V4 → V4) (ops : List Operand) (s : State) : State :=
  match ops with
  | [.xmm d, .xmm a, o] =>
    match src128 rb s o with
    | some v => (s.setXmm d (f s.xmm[a] v)).next
    | none => s.fault
  | _ => s.fault

/-- `xmm1 := f xmm2 (xmm3/m128) imm8` -/
def v3i (rb : UInt64) (f : V4 → V4 → Nat → V4) (ops : List Operand) (s : State) : State :=
  match ops with
  | [.xmm d, .xmm a, o, .imm k] =>
    match src128 rb s o with
    | some v => (s.setXmm d (f s.xmm[a] v k)).next
    | none => s.fault
  | _ => s.fault

/-- `xmm1 := f (xmm2/m128) imm8` -/
def v2i (rb : UInt64) (f : V4 → Nat → V4) (ops : List Operand) (s : State) : State :=
  match ops with
  | [.xmm d, o, .imm k] =>
    match src128 rb s o with
    | some v => (s.setXmm d (f v k)).next
    | none => s.fault
  | _ => s.fault

/-! ### execution of one instruction -/

/-- one instruction (`rb` = run-time address of the start of the translated `.rodata` / `.rdata` section) -/
def execV (rb : UInt64) (i : VInstr) (s : State) : State :=
  match i with
  | .base b => exec rb b s
  | .v mn ops =>
    match mn with
    /- VMOVDQU / VMOVUPS xmm1, xmm2/m128 and xmm2/m128, xmm1 (VEX.128): `DEST[127:0] := SRC[127:0]; DEST[MAXVL-1:128] := 0`
       (load / register form), `DEST[127:0] := SRC[127:0]` (store form); no alignment requirement -/
    | .vmovdqu | .vmovups => mov128 rb false ops s
    /- VMOVDQA / VMOVAPS: the same data movement; #GP if the memory operand is not aligned to 16 bytes -/
    | .vmovdqa | .vmovaps => mov128 rb true ops s
    /- VMOVQ xmm1, r64 (VEX.128.66.0F.W1 6E): `DEST[63:0] := SRC[63:0]; DEST[MAXVL-1:64] := 0` -/
    | .vmovq =>
      (match ops with
       | [.xmm d, .gpr r .q64] => (s.setXmm d #v[s.gpr[r].toUInt32, (s.gpr[r] >>> 32).toUInt32, 0, 0]).next
       | _ => s.fault)
    /- VPADDD xmm1, xmm2, xmm3/m128: `DEST[31:0] := SRC1[31:0] + SRC2[31:0]; (* 2nd-4th doubleword *); DEST[MAXVL-1:128] := 0` -/
    | .vpaddd => v3 rb _mm_add_epi32 ops s
    /- VPXOR xmm1, xmm2, xmm3/m128 (VEX.128): `DEST := SRC1 XOR SRC2; DEST[MAXVL-1:128] := 0` -/
    | .vpxor => v3 rb _mm_xor_si128 ops s
    /- VPXORD xmm1 {k1}{z}, xmm2, xmm3/m128/m32bcst (EVEX.128), here without mask and broadcast:
       `FOR j := 0 TO 3: DEST[i+31:i] := SRC1[i+31:i] BITWISE XOR SRC2[i+31:i]; DEST[MAXVL-1:128] := 0` -/
    | .vpxord => v3 rb _mm_xor_si128 ops s
    /- VPRORD xmm1 {k1}{z}, xmm2/m128/m32bcst, imm8 (EVEX.128), here without mask and broadcast:
       `RIGHT_ROTATE_DWORDS(SRC, COUNT_SRC): COUNT := COUNT_SRC modulo 32; DEST[31:0] := (SRC >> COUNT) | (SRC << (32 - COUNT))`
       `FOR j := 0 TO 3: DEST[i+31:i] := RIGHT_ROTATE_DWORDS(SRC1[i+31:i], imm8); DEST[MAXVL-1:128] := 0` -/
    | .vprord => v2i rb C512._mm_ror_epi32 ops s
    /- VPSHUFD xmm1, xmm2/m128, imm8 (VEX.128): `DEST[31:0] := (SRC >> (ORDER[1:0] * 32))[31:0]; DEST[63:32] := (SRC >> (ORDER[3:2] * 32))[31:0];
       DEST[95:64] := (SRC >> (ORDER[5:4] * 32))[31:0]; DEST[127:96] := (SRC >> (ORDER[7:6] * 32))[31:0]; DEST[MAXVL-1:128] := 0` -/
    | .vpshufd => v2i rb _mm_shuffle_epi32 ops s
    /- VSHUFPS xmm1, xmm2, xmm3/m128, imm8 (VEX.128): `DEST[31:0] := Select4(SRC1[127:0], imm8[1:0]); DEST[63:32] := Select4(SRC1[127:0], imm8[3:2]);
       DEST[95:64] := Select4(SRC2[127:0], imm8[5:4]); DEST[127:96] := Select4(SRC2[127:0], imm8[7:6]); DEST[MAXVL-1:128] := 0` -/
    | .vshufps => v3i rb _mm_shuffle_ps ops s
    | .vpblendd => v3i rb vpblendd ops s
    /- VPUNPCKLQDQ xmm1, xmm2, xmm3/m128: `DEST[63:0] := SRC1[63:0]; DEST[127:64] := SRC2[63:0]; DEST[MAXVL-1:128] := 0` -/
    | .vpunpcklqdq => v3 rb _mm_unpacklo_epi64 ops s
    /- VPUNPCKLDQ xmm1, xmm2, xmm3/m128: `DEST[31:0] := SRC1[31:0]; DEST[63:32] := SRC2[31:0]; DEST[95:64] := SRC1[63:32];
       DEST[127:96] := SRC2[63:32]; DEST[MAXVL-1:128] := 0` -/
    | .vpunpckldq => v3 rb _mm_unpacklo_epi32 ops s
    /- VPUNPCKHDQ xmm1, xmm2, xmm3/m128: `DEST[31:0] := SRC1[95:64]; DEST[63:32] := SRC2[95:64]; DEST[95:64] := SRC1[127:96];
       DEST[127:96] := SRC2[127:96]; DEST[MAXVL-1:128] := 0` -/
    | .vpunpckhdq => v3 rb _mm_unpackhi_epi32 ops s
    /- SUB r64, imm8/imm32 (sign-extended; the translator accepts only non-negative immediates below 2^31):
       `DEST := DEST - SRC`; ZF reflects the result -/
    | .sub_imm =>
      (match ops with
       | [.gpr d .q64, .imm k] =>
         let res := s.gpr[d] - UInt64.ofNat k
         ({ s.writeGpr d .q64 res with zf := res == 0 }).next
       | _ => s.fault)
    /- ADD r64, imm8/imm32 (as SUB): `DEST := DEST + SRC`; ZF reflects the result -/
    | .add_imm =>
      (match ops with
       | [.gpr d .q64, .imm k] =>
         let res := s.gpr[d] + UInt64.ofNat k
         ({ s.writeGpr d .q64 res with zf := res == 0 }).next
       | _ => s.fault)
    /- MOVZX r32, m8: `DEST := ZeroExtend(SRC)` (and bits 63:32 of the register are zeroed, as for every 32-bit write) -/
    | .movzx_m8 =>
      (match ops with
       | [.gpr d .d32, .mem b disp] => (s.writeGpr d .d32 (s.mem (s.gpr[b] + UInt64.ofNat disp)).toUInt64).next
       | _ => s.fault)
    /- MOV r64, m64: `DEST := SRC` -/
    | .mov_m64 =>
      (match ops with
       | [.gpr d .q64, .mem b disp] => (s.writeGpr d .q64 (load64 s.mem (s.gpr[b] + UInt64.ofNat disp))).next
       | _ => s.fault)

/-- fetch and execute; running off the instruction list is a fault -/
def stepV (rb : UInt64) (prog : List VInstr) (s : State) : State :=
  match s.status with
  | .returned => s
  | .running =>
    match prog[s.pc]? with
    | some i => execV rb i s
    | none => { s with ok := false, status := .returned }

/-- `n` steps -/
def runV (rb : UInt64) (prog : List VInstr) : Nat → State → State
  | 0, s => s
  | n + 1, s => runV rb prog n (stepV rb prog s)

end B3.AsmSem.Avx512
