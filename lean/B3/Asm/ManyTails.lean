/- the tails of `blake3_hash_many_sse41` (instructions 1421..1745) in terms of the specification: after the groups of four,
the remaining `num_inputs % 4` inputs are hashed two at a time, then one -/
import B3.Asm.ManyT2Tail
import B3.Asm.ManyFramePart
namespace B3.AsmSem.Many
open B3 B3.Simd B3.AsmSem B3.Gen.AsmSse41Many

section
variable {M1 : Memory} {out g1 g5 inputs : UInt64} {n B : Nat} {K : CV} {P : Nat → UInt64} {Blk : Nat → Nat → St}
  {fl fs fe : UInt8}

/-- the chaining value the machine computes for lane `l` when `rdi` points at pointer `i` is the specification's for input `i + l` -/
theorem laneCV_spec (R : Reads M1 out g1 g5 inputs n B K P Blk fs) (g12 g13 : UInt64) (counter : UInt64) (incr : Bool)
    (i : Nat) (l : Fin 4) (hi : i + l.val < n) (lo hi' : V4)
    (hlo : lo[l] = (ctrOf counter incr (i + l.val)).toUInt32) (hhi : hi'[l] = (ctrOf counter incr (i + l.val) >>> 32).toUInt32)
    (h12 : g12.toUInt32 = fe.toUInt32) (h13 : g13.toUInt32 = fl.toUInt32)
    (bs : List UInt8) (hbs : bs.length ≤ 32 * n) :
    groupCV (writeBytes M1 out bs) g1 g5 g12 g13 (inputs + UInt64.ofNat (8 * i)) lo hi' B l
      = manyCV K Blk B counter incr fl fs fe (i + l.val) := by
  unfold groupCV manyCV
  have hp : ptrAt (writeBytes M1 out bs) (inputs + UInt64.ofNat (8 * i)) l.val = P (i + l.val) := by
    unfold ptrAt
    have e : inputs + UInt64.ofNat (8 * i) + dispU (8 * (l.val : Int)) = inputs + UInt64.ofNat (8 * (i + l.val)) := by
      have : dispU (8 * (l.val : Int)) = UInt64.ofNat (8 * l.val) := by
        match l with | 0 | 1 | 2 | 3 => rfl
      rw [this, addr_add]
      congr 2
      omega
    rw [e]
    exact R.ptr bs hbs _ hi
  rw [hp, loopCV_eq, R.key bs hbs, headRax_flags _ g5 g13 fs fl (R.fs bs hbs) h13, h12, h13,
    hashBlocksW_congr K _ (Blk (i + l.val)) B _ _ _ (fun b hb => R.blk bs hbs _ hi b hb), hlo, hhi, hashBlocksW_eq]
  rfl

theorem outBytes_succ (K : CV) (Blk : Nat → Nat → St) (B : Nat) (counter : UInt64) (incr : Bool) (fl fs fe : UInt8) (k : Nat) :
    outBytes K Blk B counter incr fl fs fe (k + 1)
      = outBytes K Blk B counter incr fl fs fe k ++ bytesOfWords (manyCV K Blk B counter incr fl fs fe k) := by
  unfold outBytes
  rw [List.range_succ, List.flatMap_append]
  simp

/-- the state between the groups / tails: `i` inputs done; the counter lanes of the inputs still to come are valid -/
def TailInv (M1 : Memory) (out g1 g4 g5 g12 g13 inputs : UInt64) (n B : Nat) (K : CV) (Blk : Nat → Nat → St)
    (counter : UInt64) (incr : Bool) (fl fs fe : UInt8) (f19 f20 inc : V4) (i : Nat) (pc : Nat) (s : StateG FMem) : Prop :=
  ∃ (lo hi : V4) (z c : Bool),
    (∀ l : Fin 4, i + l.val < n → lo[l] = (ctrOf counter incr (i + l.val)).toUInt32 ∧
      hi[l] = (ctrOf counter incr (i + l.val) >>> 32).toUInt32) ∧
    OuterState (out + UInt64.ofNat (32 * i)) (UInt64.ofNat (n - i)) (inputs + UInt64.ofNat (8 * i)) g1 g4 g5 g12 g13
      (UInt64.ofNat (64 * B)) lo hi f19 f20 inc (writeBytes M1 out (outBytes K Blk B counter incr fl fs fe i)) z c pc s


theorem sub_ofNat (a k : Nat) (h : k ≤ a) : UInt64.ofNat a - UInt64.ofNat k = UInt64.ofNat (a - k) := by
  have : a = (a - k) + k := by omega
  conv => lhs; rw [this, UInt64.ofNat_add, UInt64.add_sub_cancel]

/-- the 2-input tail in terms of the specification -/
theorem tail2_step (rb : UInt64) (Q : Ref → Prop) (R : Reads M1 out g1 g5 inputs n B K P Blk fs) (hB : 64 * B < 2 ^ 64) (hB0 : 0 < B)
    (hn : 32 * n < 2 ^ 64) (g4 g12 g13 : UInt64) (counter : UInt64) (incr : Bool) (mk : UInt32) (f20 inc : V4)
    (hmk : mk = if incr then 0xFFFFFFFF else 0)
    (h12 : g12.toUInt32 = fe.toUInt32) (h13 : g13.toUInt32 = fl.toUInt32)
    (i : Nat) (hi2 : i + 2 ≤ n) (hi4 : n - i ≤ 3)
    (hlog : ∀ r ∈ t2Log (writeBytes M1 out (outBytes K Blk B counter incr fl fs fe i)) g1 g5
      (out + UInt64.ofNat (32 * i)) (inputs + UInt64.ofNat (8 * i)) B, Q r)
    (s : StateG FMem)
    (hs : TailInv M1 out g1 g4 g5 g12 g13 inputs n B K Blk counter incr fl fs fe (set1 mk) f20 inc i 1423 s) :
    ∃ t, RunP rb Q s t ∧
      TailInv M1 out g1 g4 g5 g12 g13 inputs n B K Blk counter incr fl fs fe (set1 mk) f20 inc (i + 2) 1638 t := by
  obtain ⟨lo, hi, z, c, hc, hst⟩ := hs
  obtain ⟨k, t, z', c', hrun, ht⟩ := t2_tail rb B hB hB0 _ _ _ g1 g4 g5 g12 g13 lo hi (set1 mk) f20 inc _ z c s hst
  refine ⟨t, ⟨_, _, hrun, hlog⟩, shiftLo (set1 mk) lo hi, shiftHi (set1 mk) hi, z', c', ?_, ?_⟩
  · -- the counter lanes of what is left (at most one input)
    intro l hl
    have hl0 : l = 0 := by
      apply Fin.ext
      show l.val = 0
      omega
    subst hl0
    have e0 : (shiftLo (set1 mk) lo hi)[(0 : Fin 4)] = if mk >>> 31 == 1 then lo[(2 : Fin 4)] else lo[(0 : Fin 4)] := rfl
    have e1 : (shiftHi (set1 mk) hi)[(0 : Fin 4)] = if mk >>> 31 == 1 then hi[(2 : Fin 4)] else hi[(0 : Fin 4)] := rfl
    rw [e0, e1, hmk]
    cases incr
    · have : ((0 : UInt32) >>> 31 == 1) = false := by decide
      simp only [Bool.false_eq_true, if_false, this]
      have h0 := hc 0 (by show i + 0 < n; omega)
      have : ctrOf counter false (i + 2 + (0 : Fin 4).val) = ctrOf counter false (i + (0 : Fin 4).val) := rfl
      rw [this]
      exact h0
    · have : ((0xFFFFFFFF : UInt32) >>> 31 == 1) = true := by decide
      simp only [if_true, this]
      exact hc 2 (by show i + 2 < n; omega)
  · -- registers and memory
    have hlen := outBytes_length K Blk B counter incr fl fs fe i
    have hbs : (outBytes K Blk B counter incr fl fs fe i).length ≤ 32 * n := by rw [hlen]; omega
    have e1 : out + UInt64.ofNat (32 * i) + UInt64.ofNat 64 = out + UInt64.ofNat (32 * (i + 2)) := by
      rw [addr_add]; congr 2
    have e2 : inputs + UInt64.ofNat (8 * i) + UInt64.ofNat 16 = inputs + UInt64.ofNat (8 * (i + 2)) := by
      rw [addr_add]; congr 2
    have e3 : UInt64.ofNat (n - i) - UInt64.ofNat 2 = UInt64.ofNat (n - (i + 2)) := by
      rw [sub_ofNat _ _ (by omega)]
      congr 1
    rw [e1, e2, e3] at ht
    rw [laneCV_spec R g12 g13 counter incr i 0 (by show i + 0 < n; omega) lo hi (hc 0 (by show i + 0 < n; omega)).1
        (hc 0 (by show i + 0 < n; omega)).2 h12 h13 _ hbs,
      laneCV_spec R g12 g13 counter incr i 1 (by show i + 1 < n; omega) lo hi (hc 1 (by show i + 1 < n; omega)).1
        (hc 1 (by show i + 1 < n; omega)).2 h12 h13 _ hbs] at ht
    have e4 : out + UInt64.ofNat (32 * i) = out + UInt64.ofNat (outBytes K Blk B counter incr fl fs fe i).length := by
      rw [hlen]
    rw [e4, writeBytes_append _ _ _ _ (by rw [hlen]; simp [bytesOfWords8_length]; omega)] at ht
    rw [outBytes_succ, outBytes_succ, List.append_assoc]
    exact ht

/-- the machine at the epilogue: everything that `OuterState` tracks, with the output of the first `k` inputs in memory -/
def DoneState (M1 : Memory) (out g1 g4 g5 g12 g13 : UInt64) (B : Nat) (K : CV) (Blk : Nat → Nat → St)
    (counter : UInt64) (incr : Bool) (fl fs fe : UInt8) (k : Nat) (s : StateG FMem) : Prop :=
  ∃ (bx si di : UInt64) (lo hi f19 f20 inc : V4) (z c : Bool),
    OuterState bx si di g1 g4 g5 g12 g13 (UInt64.ofNat (64 * B)) lo hi f19 f20 inc
      (writeBytes M1 out (outBytes K Blk B counter incr fl fs fe k)) z c 1413 s

/-- the 1-input tail in terms of the specification -/
theorem tail1_step (rb : UInt64) (Q : Ref → Prop) (R : Reads M1 out g1 g5 inputs n B K P Blk fs) (hB : 64 * B < 2 ^ 64) (hB0 : 0 < B)
    (hn : 32 * n < 2 ^ 64) (g4 g12 g13 : UInt64) (counter : UInt64) (incr : Bool) (f19 f20 inc : V4)
    (h12 : g12.toUInt32 = fe.toUInt32) (h13 : g13.toUInt32 = fl.toUInt32)
    (i : Nat) (hi1 : i + 1 ≤ n)
    (hlog : ∀ r ∈ t1Log (writeBytes M1 out (outBytes K Blk B counter incr fl fs fe i)) g1 g5
      (out + UInt64.ofNat (32 * i)) (inputs + UInt64.ofNat (8 * i)) B, Q r)
    (s : StateG FMem)
    (hs : TailInv M1 out g1 g4 g5 g12 g13 inputs n B K Blk counter incr fl fs fe f19 f20 inc i 1640 s) :
    ∃ t, RunP rb Q s t ∧ DoneState M1 out g1 g4 g5 g12 g13 B K Blk counter incr fl fs fe (i + 1) t := by
  obtain ⟨lo, hi, z, c, hc, hst⟩ := hs
  obtain ⟨k, t, z', c', hrun, ht⟩ := t1_tail rb B hB hB0 _ _ _ g1 g4 g5 g12 g13 lo hi f19 f20 inc _ z c s hst
  refine ⟨t, ⟨_, _, hrun, hlog⟩, out + UInt64.ofNat (32 * i), UInt64.ofNat (n - i), inputs + UInt64.ofNat (8 * i), lo, hi, f19, f20,
    inc, z', c', ?_⟩
  have hlen := outBytes_length K Blk B counter incr fl fs fe i
  have hbs : (outBytes K Blk B counter incr fl fs fe i).length ≤ 32 * n := by rw [hlen]; omega
  rw [laneCV_spec R g12 g13 counter incr i 0 (by show i + 0 < n; omega) lo hi (hc 0 (by show i + 0 < n; omega)).1
    (hc 0 (by show i + 0 < n; omega)).2 h12 h13 _ hbs] at ht
  have e4 : out + UInt64.ofNat (32 * i) = out + UInt64.ofNat (outBytes K Blk B counter incr fl fs fe i).length := by
    rw [hlen]
  rw [e4, writeBytes_append _ _ _ _ (by rw [hlen, bytesOfWords8_length]; omega)] at ht
  rw [← e4] at ht
  rw [outBytes_succ]
  exact ht


/-- `test esi, 2; je 3f` -/
theorem TailInv.branch2 {rb : UInt64} {Q : Ref → Prop} {g4 g12 g13 counter : UInt64} {incr : Bool} {f19 f20 inc : V4} {i : Nat}
    {s : StateG FMem} (b : Bool)
    (hb : (trunc .d32 (UInt64.ofNat (n - i)) &&& trunc .d32 (UInt64.ofNat 2) == 0) = b)
    (hs : TailInv M1 out g1 g4 g5 g12 g13 inputs n B K Blk counter incr fl fs fe f19 f20 inc i 1421 s) :
    ∃ t, RunP rb Q s t ∧
      TailInv M1 out g1 g4 g5 g12 g13 inputs n B K Blk counter incr fl fs fe f19 f20 inc i (if b then 1638 else 1423) t := by
  obtain ⟨lo, hi, z, c, hc, x0, x1, x2, x3, x4, x5, x6, x7, x8, x9, x10, x11, x12, x13, x14, x15, f0, f1, f2, f3, f4, f5, f6, f7, f8, f9,
    f10, f11, f12, f13, f14, f15, f16, ax, dx, a8, a9, a10, a11, r14, rfl⟩ := hs
  have h1 : RunP rb Q _ _ := RunP.of_run (t2_test rb #v[x0, x1, x2, x3, x4, x5, x6, x7, x8, x9, x10, x11, x12, x13, x14, x15] ax g1 dx (out + UInt64.ofNat (32 * i)) g4 g5 (UInt64.ofNat (n - i)) (inputs + UInt64.ofNat (8 * i)) a8 a9 a10 a11 g12 g13 r14 (UInt64.ofNat (64 * B)) z c #v[f0, f1, f2, f3, f4, f5, f6, f7, f8, f9, f10, f11, f12, f13, f14, f15, f16, lo, hi, f19, f20, inc] (writeBytes M1 out (outBytes K Blk B counter incr fl fs fe i)))
  rw [hb] at h1
  cases b
  · have h2 := h1.step (t2_enter rb _ _ _ _ _)
    exact ⟨_, h2, lo, hi, _, _, hc, x0, x1, x2, x3, x4, x5, x6, x7, x8, x9, x10, x11, x12, x13, x14, x15, f0, f1, f2, f3, f4, f5, f6, f7,
      f8, f9, f10, f11, f12, f13, f14, f15, f16, ax, dx, a8, a9, a10, a11, r14, rfl⟩
  · have h2 := h1.step (t2_skip rb _ _ _ _ _)
    exact ⟨_, h2, lo, hi, _, _, hc, x0, x1, x2, x3, x4, x5, x6, x7, x8, x9, x10, x11, x12, x13, x14, x15, f0, f1, f2, f3, f4, f5, f6, f7,
      f8, f9, f10, f11, f12, f13, f14, f15, f16, ax, dx, a8, a9, a10, a11, r14, rfl⟩

/-- `test esi, 1; je 4b` -/
theorem TailInv.branch1 {rb : UInt64} {Q : Ref → Prop} {g4 g12 g13 counter : UInt64} {incr : Bool} {f19 f20 inc : V4} {i : Nat}
    {s : StateG FMem} (b : Bool)
    (hb : (trunc .d32 (UInt64.ofNat (n - i)) &&& trunc .d32 (UInt64.ofNat 1) == 0) = b)
    (hs : TailInv M1 out g1 g4 g5 g12 g13 inputs n B K Blk counter incr fl fs fe f19 f20 inc i 1638 s) :
    ∃ t, RunP rb Q s t ∧
      TailInv M1 out g1 g4 g5 g12 g13 inputs n B K Blk counter incr fl fs fe f19 f20 inc i (if b then 1413 else 1640) t := by
  obtain ⟨lo, hi, z, c, hc, x0, x1, x2, x3, x4, x5, x6, x7, x8, x9, x10, x11, x12, x13, x14, x15, f0, f1, f2, f3, f4, f5, f6, f7, f8, f9,
    f10, f11, f12, f13, f14, f15, f16, ax, dx, a8, a9, a10, a11, r14, rfl⟩ := hs
  have h1 : RunP rb Q _ _ := RunP.of_run (t1_test rb #v[x0, x1, x2, x3, x4, x5, x6, x7, x8, x9, x10, x11, x12, x13, x14, x15] ax g1 dx (out + UInt64.ofNat (32 * i)) g4 g5 (UInt64.ofNat (n - i)) (inputs + UInt64.ofNat (8 * i)) a8 a9 a10 a11 g12 g13 r14 (UInt64.ofNat (64 * B)) z c #v[f0, f1, f2, f3, f4, f5, f6, f7, f8, f9, f10, f11, f12, f13, f14, f15, f16, lo, hi, f19, f20, inc] (writeBytes M1 out (outBytes K Blk B counter incr fl fs fe i)))
  rw [hb] at h1
  cases b
  · have h2 := h1.step (t1_enter rb _ _ _ _ _)
    exact ⟨_, h2, lo, hi, _, _, hc, x0, x1, x2, x3, x4, x5, x6, x7, x8, x9, x10, x11, x12, x13, x14, x15, f0, f1, f2, f3, f4, f5, f6, f7,
      f8, f9, f10, f11, f12, f13, f14, f15, f16, ax, dx, a8, a9, a10, a11, r14, rfl⟩
  · have h2 := h1.step (t1_skip rb _ _ _ _ _)
    exact ⟨_, h2, lo, hi, _, _, hc, x0, x1, x2, x3, x4, x5, x6, x7, x8, x9, x10, x11, x12, x13, x14, x15, f0, f1, f2, f3, f4, f5, f6, f7,
      f8, f9, f10, f11, f12, f13, f14, f15, f16, ax, dx, a8, a9, a10, a11, r14, rfl⟩

theorem TailInv.done {g4 g12 g13 counter : UInt64} {incr : Bool} {f19 f20 inc : V4} {s : StateG FMem}
    (hs : TailInv M1 out g1 g4 g5 g12 g13 inputs n B K Blk counter incr fl fs fe f19 f20 inc n 1413 s) :
    DoneState M1 out g1 g4 g5 g12 g13 B K Blk counter incr fl fs fe n s := by
  obtain ⟨lo, hi, z, c, _, hst⟩ := hs
  exact ⟨_, _, _, lo, hi, f19, f20, inc, z, c, hst⟩

/-- **the tails**: from 1421 with `i` inputs done and at most three to go, to the epilogue with all `n` outputs written -/
theorem tails (rb : UInt64) (Q : Ref → Prop) (R : Reads M1 out g1 g5 inputs n B K P Blk fs) (hB : 64 * B < 2 ^ 64) (hB0 : 0 < B)
    (hn : 32 * n < 2 ^ 64) (g4 g12 g13 : UInt64) (counter : UInt64) (incr : Bool) (mk : UInt32) (f20 inc : V4)
    (hmk : mk = if incr then 0xFFFFFFFF else 0)
    (h12 : g12.toUInt32 = fe.toUInt32) (h13 : g13.toUInt32 = fl.toUInt32)
    (i : Nat) (hi : i ≤ n) (hr : n - i ≤ 3)
    (hlog2 : i + 2 ≤ n → ∀ r ∈ t2Log (writeBytes M1 out (outBytes K Blk B counter incr fl fs fe i)) g1 g5
      (out + UInt64.ofNat (32 * i)) (inputs + UInt64.ofNat (8 * i)) B, Q r)
    (hlog1 : ∀ j, j + 1 = n → ∀ r ∈ t1Log (writeBytes M1 out (outBytes K Blk B counter incr fl fs fe j)) g1 g5
      (out + UInt64.ofNat (32 * j)) (inputs + UInt64.ofNat (8 * j)) B, Q r)
    (s : StateG FMem)
    (hs : TailInv M1 out g1 g4 g5 g12 g13 inputs n B K Blk counter incr fl fs fe (set1 mk) f20 inc i 1421 s) :
    ∃ t, RunP rb Q s t ∧ DoneState M1 out g1 g4 g5 g12 g13 B K Blk counter incr fl fs fe n t := by
  have hcases : n - i = 0 ∨ n - i = 1 ∨ n - i = 2 ∨ n - i = 3 := by omega
  rcases hcases with h0 | h1 | h2 | h3
  · -- nothing left
    have hin : i = n := by omega
    obtain ⟨t1, r1, ht1⟩ := TailInv.branch2 (rb := rb) (Q := Q) true (by rw [h0]; decide) hs
    obtain ⟨t2, r2, ht2⟩ := TailInv.branch1 (rb := rb) (Q := Q) true (by rw [h0]; decide) ht1
    subst hin
    exact ⟨t2, r1.trans r2, TailInv.done ht2⟩
  · -- one input
    obtain ⟨t1, r1, ht1⟩ := TailInv.branch2 (rb := rb) (Q := Q) true (by rw [h1]; decide) hs
    obtain ⟨t2, r2, ht2⟩ := TailInv.branch1 (rb := rb) (Q := Q) false (by rw [h1]; decide) ht1
    obtain ⟨t3, r3, ht3⟩ := tail1_step rb Q R hB hB0 hn g4 g12 g13 counter incr (set1 mk) f20 inc h12 h13 i (by omega)
      (hlog1 i (by omega)) t2 ht2
    have : i + 1 = n := by omega
    rw [this] at ht3
    exact ⟨t3, (r1.trans r2).trans r3, ht3⟩
  · -- two inputs
    obtain ⟨t1, r1, ht1⟩ := TailInv.branch2 (rb := rb) (Q := Q) false (by rw [h2]; decide) hs
    obtain ⟨t2, r2, ht2⟩ := tail2_step rb Q R hB hB0 hn g4 g12 g13 counter incr mk f20 inc hmk h12 h13 i (by omega) (by omega)
      (hlog2 (by omega)) t1 ht1
    obtain ⟨t3, r3, ht3⟩ := TailInv.branch1 (rb := rb) (Q := Q) true (by rw [show n - (i + 2) = 0 by omega]; decide) ht2
    have : i + 2 = n := by omega
    rw [this] at ht3
    exact ⟨t3, (r1.trans r2).trans r3, TailInv.done ht3⟩
  · -- three inputs
    obtain ⟨t1, r1, ht1⟩ := TailInv.branch2 (rb := rb) (Q := Q) false (by rw [h3]; decide) hs
    obtain ⟨t2, r2, ht2⟩ := tail2_step rb Q R hB hB0 hn g4 g12 g13 counter incr mk f20 inc hmk h12 h13 i (by omega) (by omega)
      (hlog2 (by omega)) t1 ht1
    obtain ⟨t3, r3, ht3⟩ := TailInv.branch1 (rb := rb) (Q := Q) false (by rw [show n - (i + 2) = 1 by omega]; decide) ht2
    obtain ⟨t4, r4, ht4⟩ := tail1_step rb Q R hB hB0 hn g4 g12 g13 counter incr (set1 mk) f20 inc h12 h13 (i + 2) (by omega)
      (hlog1 (i + 2) (by omega)) t3 ht3
    have : i + 2 + 1 = n := by omega
    rw [this] at ht4
    exact ⟨t4, ((r1.trans r2).trans r3).trans r4, ht4⟩

end
end B3.AsmSem.Many
