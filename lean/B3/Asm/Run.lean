/-
Running the machine semantics `B3/Asm/Sse.lean` on the generated instruction lists with concrete
inputs, so that it can be compared with the real routines running on the CPU
(/verif/harness/c/build/cdriver, `CK cip|cxof sse41_asm|sse2_asm ...`).

  cip  <sse41|sse2> <cv hex, 32 bytes> <block hex, 64 bytes> <rdx> <rcx> <r8>   -> the 32 bytes at `cv` afterwards
  cxof <sse41|sse2> <cv hex, 32 bytes> <block hex, 64 bytes> <rdx> <rcx> <r8>   -> the 64 bytes at `out` afterwards
followed by ` ok` / ` FAULT` (the sticky fault flag), the status and the number of steps used.
`rdx rcx r8` are the full 64-bit register values (decimal), so that garbage in the bits above the
8-bit arguments can be supplied.  Layout: cv at 0x10008 (deliberately only 8-byte aligned), block at
0x20001 (unaligned), the file's `.rodata` at 0x30040, out at 0x40004, stack at 0x7fff0000; all other memory
reads 0; the other registers hold junk.
-/
import B3.Gen.AsmSse41
import B3.Gen.AsmSse2
namespace B3.AsmSem.Run
open B3 B3.Simd B3.AsmSem

def hexDigit (n : Nat) : Char := if n < 10 then Char.ofNat (48 + n) else Char.ofNat (87 + n)

def hexOfBytes (bs : List UInt8) : String :=
  String.ofList (bs.flatMap fun b => [hexDigit (b.toNat / 16), hexDigit (b.toNat % 16)])

def hexVal (c : Char) : Option Nat :=
  if '0' ≤ c ∧ c ≤ '9' then some (c.toNat - 48)
  else if 'a' ≤ c ∧ c ≤ 'f' then some (c.toNat - 87)
  else none

def bytesOfHexAux : List Char → Array UInt8 → Option (Array UInt8)
  | [], acc => some acc
  | [_], _ => none
  | a :: b :: rest, acc => do
    let x ← hexVal a
    let y ← hexVal b
    bytesOfHexAux rest (acc.push (UInt8.ofNat (16 * x + y)))

def bytesOfHex (s : String) : Option (Array UInt8) := bytesOfHexAux s.toList #[]

def u64 (s : String) : Option UInt64 := do
  let n ← s.toNat?
  if n < 2 ^ 64 then some (UInt64.ofNat n) else none

def cvBase : UInt64 := 0x10008
def blockBase : UInt64 := 0x20001
def roBase : UInt64 := 0x30040
def outBase : UInt64 := 0x40004

def initMem (cv block ro : Array UInt8) : Memory := fun p =>
  if p - cvBase < 32 then cv.getD (p - cvBase).toNat 0
  else if p - blockBase < 64 then block.getD (p - blockBase).toNat 0
  else if p - roBase < UInt64.ofNat ro.size then ro.getD (p - roBase).toNat 0
  else 0

def junk : V4 := #v[0xDEADBEEF, 0x01234567, 0x89ABCDEF, 0xFEEDFACE]

def initState (cv block ro : Array UInt8) (rdxv rcxv r8v : UInt64) : State :=
  { xmm := Vector.replicate 16 junk
    gpr := #v[0x1111111111111111, rcxv, rdxv, 0x3333333333333333, 0x7fff0000, 0x5555555555555555, blockBase, cvBase,
              r8v, outBase, 0xAAAAAAAAAAAAAAAA, 0xBBBBBBBBBBBBBBBB, 0xCCCCCCCCCCCCCCCC, 0xDDDDDDDDDDDDDDDD,
              0xEEEEEEEEEEEEEEEE, 0xFFFFFFFFFFFFFFFF]
    zf := false, mem := initMem cv block ro, pc := 0, status := .running, ok := true }

/-- run until `ret` (at most `fuel` steps); returns the state and the number of steps -/
def runCount (rb : UInt64) (prog : List Instr) : Nat → Nat → State → State × Nat
  | 0, n, s => (s, n)
  | fuel + 1, n, s => if s.status = .returned then (s, n) else runCount rb prog fuel (n + 1) (step rb prog s)

def readBytes (m : Memory) (a : UInt64) (n : Nat) : List UInt8 := (List.range n).map fun i => m (a + UInt64.ofNat i)

def runLine (toks : List String) : Option String :=
  match toks with
  | [op, isa, cv, block, rdxv, rcxv, r8v] => do
    let cv ← bytesOfHex cv
    let block ← bytesOfHex block
    if cv.size ≠ 32 ∨ block.size ≠ 64 then none
    let (ro, pi, px) ← (if isa = "sse41" then some (Gen.AsmSse41.rodata, Gen.AsmSse41.compress_in_place, Gen.AsmSse41.compress_xof)
      else if isa = "sse2" then some (Gen.AsmSse2.rodata, Gen.AsmSse2.compress_in_place, Gen.AsmSse2.compress_xof) else none)
    let s0 := initState cv block ro.toArray (← u64 rdxv) (← u64 rcxv) (← u64 r8v)
    let (prog, base, n) ← (if op = "cip" then some (pi, cvBase, 32) else if op = "cxof" then some (px, outBase, 64) else none)
    let (s, steps) := runCount roBase prog 2000 0 s0
    some (hexOfBytes (readBytes s.mem base n) ++ (if s.ok then " ok " else " FAULT ")
      ++ (if s.status = .returned then "returned " else "running ") ++ toString steps)
  | _ => none

end B3.AsmSem.Run
