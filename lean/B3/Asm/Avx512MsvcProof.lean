/-
`blake3_compress_in_place_avx512`, `blake3_compress_xof_avx512`, MSVC (MASM) flavour
(c/blake3_avx512_x86-64_windows_msvc.asm, generated lists `B3.Gen.AsmAvx512Msvc`).

The two instruction lists translated from the .asm file ARE the lists translated from the Windows-GNU file
(c/blake3_avx512_x86-64_windows_gnu.S, `B3.Gen.AsmAvx512Wgnu`), instruction for instruction and operand for operand,
and the `_RDATA` segment is, byte for byte, the `.rdata` section of the GNU file (272 bytes, `BLAKE3_IV` at offset 256
behind the 52 zero bytes of the inner `ALIGN 64`): `lists_eq`, checked by `decide` on the generated data.  So nothing is
re-evaluated here: the theorems of B3/Asm/Avx512WinCompressProof.lean / Avx512WinXofProof.lean (proved for the GNU
lists by symbolic execution of the machine semantics B3/Asm/Avx512Sem.lean) are transported along these equalities.
The entry conditions are restated for THIS file's data segment (`EntryW`, `EntryWX`), so that the statements below
mention nothing generated from the GNU file.
Any change to one of the two routines or to the data segment of the .asm file that is not made identically in the .S
file makes `lists_eq` fail.
-/
import B3.Asm.Avx512WinXofProof
import B3.Gen.AsmAvx512Msvc
namespace B3.AsmSem.Avx512.Msvc
open B3 B3.Simd B3.AsmSem B3.AsmSem.Avx512

/-! ### the MSVC file's routines and data are the Windows-GNU file's -/

set_option maxRecDepth 20000 in
/-- instruction lists, data segment, its alignment and the IV table of the two files are equal -/
theorem lists_eq :
    Gen.AsmAvx512Msvc.compress_in_place = Gen.AsmAvx512Wgnu.compress_in_place ∧
    Gen.AsmAvx512Msvc.compress_xof = Gen.AsmAvx512Wgnu.compress_xof ∧
    Gen.AsmAvx512Msvc.rodata = Gen.AsmAvx512Wgnu.rodata ∧
    Gen.AsmAvx512Msvc.rodataAlign = Gen.AsmAvx512Wgnu.rodataAlign ∧
    Gen.AsmAvx512Msvc.BLAKE3_IV = Gen.AsmAvx512Wgnu.BLAKE3_IV := by
  refine ⟨by decide, by decide, by decide, by decide, by decide⟩

/-! ### entry conditions (those of B3/Asm/Avx512WinCompressProof.lean with this file's data segment) -/

/-- the `_RDATA` segment of c/blake3_avx512_x86-64_windows_msvc.asm in memory at `rb` (64-byte aligned) -/
abbrev Rodata (rb : UInt64) (m : Memory) : Prop := RodataLoaded Gen.AsmAvx512Msvc.rodata Gen.AsmAvx512Msvc.rodataAlign rb m

/-- The state on entry to `blake3_compress_in_place_avx512` (Windows x64): at the first instruction, no fault so far, the
file's `_RDATA` segment (272 bytes) loaded at `rb`, `rsp + 8` a multiple of 16 (the ABI's stack alignment at a
function's first instruction; XMM6-9 are saved with `vmovdqa`), and the 64 bytes `[rsp - 72, rsp - 8)` of the routine's
own frame that it writes are not part of `cv` (rcx, 32 bytes), `block` (rdx, 64 bytes) or the data segment.  Nothing is
assumed about the XMM registers, ZF, the other registers, or whether `cv`, `block` and the tables overlap each other. -/
structure EntryW (rb : UInt64) (s : State) : Prop where
  pc : s.pc = 0
  running : s.status = .running
  ok : s.ok = true
  rodata : Rodata rb s.mem
  rsp_aligned : s.gpr[rsp].toNat % 16 = 8
  frame_cv : Disjoint s.gpr[rcx] 32 (spW s.gpr[rsp]) 64
  frame_block : Disjoint s.gpr[rdx] 64 (spW s.gpr[rsp]) 64
  frame_rodata : Disjoint rb 272 (spW s.gpr[rsp]) 64

/-- entry conditions of `blake3_compress_xof_avx512`: also the output buffer (the pointer in the stack slot
`[rsp + 0x30]`, 64 bytes) has no byte in the routine's frame -/
structure EntryWX (rb : UInt64) (s : State) : Prop extends EntryW rb s where
  frame_out : Disjoint (WinXof.outArg s) 64 (spW s.gpr[rsp]) 64

theorem EntryW.toWgnu {rb : UInt64} {s : State} (h : EntryW rb s) : Win.EntryW rb s :=
  { pc := h.pc, running := h.running, ok := h.ok
    rodata := by
      have := h.rodata
      unfold Rodata at this
      rw [lists_eq.2.2.1, lists_eq.2.2.2.1] at this
      exact this
    rsp_aligned := h.rsp_aligned, frame_cv := h.frame_cv, frame_block := h.frame_block, frame_rodata := h.frame_rodata }

theorem EntryWX.toWgnu {rb : UInt64} {s : State} (h : EntryWX rb s) : WinXof.EntryWX rb s :=
  { toEntryW := h.toEntryW.toWgnu, frame_out := h.frame_out }

/-- conversely: an entry state of the GNU file's routines is one of this file's -/
theorem EntryWX.ofWgnu {rb : UInt64} {s : State} (h : WinXof.EntryWX rb s) : EntryWX rb s :=
  { pc := h.pc, running := h.running, ok := h.ok
    rodata := by
      unfold Rodata
      rw [lists_eq.2.2.1, lists_eq.2.2.2.1]
      exact h.rodata
    rsp_aligned := h.rsp_aligned, frame_cv := h.frame_cv, frame_block := h.frame_block, frame_rodata := h.frame_rodata
    frame_out := h.frame_out }

set_option maxRecDepth 8000 in
/-- the table the routines load: the four words at offset 256 of this file's data segment are the IV constants -/
theorem table_IV {rb : UInt64} {m : Memory} (h : Rodata rb m) : load128 m (rb + UInt64.ofNat 256) = Gen.AsmAvx512Msvc.BLAKE3_IV := by
  rw [load128_of_holds m rb Gen.AsmAvx512Msvc.rodata 256 h.holds (by decide)]; decide

/-! ### main theorems -/

/-- `blake3_compress_in_place_avx512(cv, block, block_len, counter, flags)`, MSVC flavour, Windows x64 calling convention
(rcx = cv, rdx = block, r8 = block_len, r9 = counter, flags = the byte at [rsp + 0x28]), ANY register contents: the statement
of `B3.AsmSem.Avx512.Win.compress_in_place_correct` for the list translated from the .asm file -/
theorem compress_in_place_correct (rb : UInt64) (s : State) (h : EntryW rb s) :
    (runV rb Gen.AsmAvx512Msvc.compress_in_place 372 s).status = .returned ∧
    (runV rb Gen.AsmAvx512Msvc.compress_in_place 372 s).ok = true ∧
    (runV rb Gen.AsmAvx512Msvc.compress_in_place 372 s).mem
      = writeBytes (writeBytes s.mem (s.gpr[rsp] - 72) (saved s.xmm[6] s.xmm[7] s.xmm[8] s.xmm[9])) s.gpr[rcx]
          (bytesOfWords (first8 (Spec.compress (readWords s.mem s.gpr[rcx] 8) (readWords s.mem s.gpr[rdx] 16) s.gpr[r9]
            s.gpr[r8].toUInt8.toUInt32 (s.mem (s.gpr[rsp] + 40)).toUInt32))) ∧
    (runV rb Gen.AsmAvx512Msvc.compress_in_place 372 s).gpr[rsp] = s.gpr[rsp] + 8 ∧
    (∀ r : Reg, r ≠ rax → r ≠ r8 → r ≠ rsp → (runV rb Gen.AsmAvx512Msvc.compress_in_place 372 s).gpr[r] = s.gpr[r]) ∧
    (∀ i : Fin 16, 6 ≤ i.val → (runV rb Gen.AsmAvx512Msvc.compress_in_place 372 s).xmm[i] = s.xmm[i]) := by
  rw [lists_eq.1]
  exact Win.compress_in_place_correct rb s h.toWgnu

/-- read back as words, and the frame condition byte by byte -/
theorem compress_in_place_correct_words (rb : UInt64) (s : State) (h : EntryW rb s) :
    readWords (runV rb Gen.AsmAvx512Msvc.compress_in_place 372 s).mem s.gpr[rcx] 8
      = first8 (Spec.compress (readWords s.mem s.gpr[rcx] 8) (readWords s.mem s.gpr[rdx] 16) s.gpr[r9]
          s.gpr[r8].toUInt8.toUInt32 (s.mem (s.gpr[rsp] + 40)).toUInt32) ∧
    ∀ q : UInt64, 32 ≤ (q - s.gpr[rcx]).toNat → 64 ≤ (q - (s.gpr[rsp] - 72)).toNat →
      (runV rb Gen.AsmAvx512Msvc.compress_in_place 372 s).mem q = s.mem q := by
  rw [lists_eq.1]
  exact Win.compress_in_place_correct_words rb s h.toWgnu

/-- more fuel changes nothing: the routine has returned -/
theorem compress_in_place_fuel (rb : UInt64) (s : State) (h : EntryW rb s) (n : Nat) :
    runV rb Gen.AsmAvx512Msvc.compress_in_place (372 + n) s = runV rb Gen.AsmAvx512Msvc.compress_in_place 372 s := by
  rw [lists_eq.1]
  exact Win.compress_in_place_fuel rb s h.toWgnu n

/-- `blake3_compress_xof_avx512(cv, block, block_len, counter, flags, out)`, MSVC flavour (out = the quadword at
[rsp + 0x30]): the statement of `B3.AsmSem.Avx512.WinXof.compress_xof_correct` for the list translated from the .asm file -/
theorem compress_xof_correct (rb : UInt64) (s : State) (h : EntryWX rb s) :
    (runV rb Gen.AsmAvx512Msvc.compress_xof 377 s).status = .returned ∧
    (runV rb Gen.AsmAvx512Msvc.compress_xof 377 s).ok = true ∧
    (runV rb Gen.AsmAvx512Msvc.compress_xof 377 s).mem
      = writeBytes (writeBytes s.mem (s.gpr[rsp] - 72) (saved s.xmm[6] s.xmm[7] s.xmm[8] s.xmm[9])) (load64 s.mem (s.gpr[rsp] + 48))
          (bytesOfWords (Spec.compress (readWords s.mem s.gpr[rcx] 8) (readWords s.mem s.gpr[rdx] 16) s.gpr[r9]
            s.gpr[r8].toUInt8.toUInt32 (s.mem (s.gpr[rsp] + 40)).toUInt32)) ∧
    (runV rb Gen.AsmAvx512Msvc.compress_xof 377 s).gpr[rsp] = s.gpr[rsp] + 8 ∧
    (∀ r : Reg, r ≠ rax → r ≠ r8 → r ≠ r10 → r ≠ rsp → (runV rb Gen.AsmAvx512Msvc.compress_xof 377 s).gpr[r] = s.gpr[r]) ∧
    (∀ i : Fin 16, 6 ≤ i.val → (runV rb Gen.AsmAvx512Msvc.compress_xof 377 s).xmm[i] = s.xmm[i]) := by
  rw [lists_eq.2.1]
  exact WinXof.compress_xof_correct rb s h.toWgnu

theorem compress_xof_correct_words (rb : UInt64) (s : State) (h : EntryWX rb s) :
    readWords (runV rb Gen.AsmAvx512Msvc.compress_xof 377 s).mem (load64 s.mem (s.gpr[rsp] + 48)) 16
      = Spec.compress (readWords s.mem s.gpr[rcx] 8) (readWords s.mem s.gpr[rdx] 16) s.gpr[r9]
          s.gpr[r8].toUInt8.toUInt32 (s.mem (s.gpr[rsp] + 40)).toUInt32 ∧
    ∀ q : UInt64, 64 ≤ (q - load64 s.mem (s.gpr[rsp] + 48)).toNat → 64 ≤ (q - (s.gpr[rsp] - 72)).toNat →
      (runV rb Gen.AsmAvx512Msvc.compress_xof 377 s).mem q = s.mem q := by
  rw [lists_eq.2.1]
  exact WinXof.compress_xof_correct_words rb s h.toWgnu

theorem compress_xof_fuel (rb : UInt64) (s : State) (h : EntryWX rb s) (n : Nat) :
    runV rb Gen.AsmAvx512Msvc.compress_xof (377 + n) s = runV rb Gen.AsmAvx512Msvc.compress_xof 377 s := by
  rw [lists_eq.2.1]
  exact WinXof.compress_xof_fuel rb s h.toWgnu n

/-! the hypotheses are satisfiable: the concrete entry state of B3/Asm/Avx512WinXofProof.lean with THIS file's data segment at
0x30040 (cv at 0x10008, block at 0x20001, `rsp = 0x7fff0008`, `out = 0x40004` in the stack slot at [rsp + 0x30]) -/

def exampleStateX : State :=
  { Win.exampleState with
    mem := writeBytes (writeBytes (fun _ => 0x5A) 0x30040 Gen.AsmAvx512Msvc.rodata) (0x7fff0008 + 48) [0x04, 0x00, 0x04, 0, 0, 0, 0, 0] }

set_option maxRecDepth 8000 in
theorem rodata_length : Gen.AsmAvx512Msvc.rodata.length = 272 := by decide

set_option maxRecDepth 8000 in
theorem exampleStateX_entry : EntryWX 0x30040 exampleStateX :=
  { pc := rfl, running := rfl, ok := rfl
    rodata := ⟨by decide, by
      intro i hi
      show writeBytes (writeBytes (fun _ => 0x5A) 0x30040 Gen.AsmAvx512Msvc.rodata) (0x7fff0008 + 48) [0x04, 0x00, 0x04, 0, 0, 0, 0, 0] _ = _
      rw [writeBytes_disjoint _ _ _ 0x30040 272 (disjoint_of_far _ _ _ _ (by decide) (by decide)) i (rodata_length ▸ hi)]
      exact holdsAt_writeBytes _ _ _ (by decide) i hi⟩
    rsp_aligned := by decide
    frame_cv := disjoint_of_far _ _ _ _ (by decide) (by decide)
    frame_block := disjoint_of_far _ _ _ _ (by decide) (by decide)
    frame_rodata := disjoint_of_far _ _ _ _ (by decide) (by decide)
    frame_out := disjoint_of_far _ _ _ _ (by decide) (by decide) }

end B3.AsmSem.Avx512.Msvc
