/-
Program-independent material for the Windows-x64 flavour of the two AVX-512 compress routines
(c/blake3_avx512_x86-64_windows_gnu.S): these routines have a stack frame (`sub rsp, 72`, XMM6-XMM9 saved in
it and restored before `ret`) and read their fifth and sixth argument from the caller's stack, so the proofs
need: disjointness of byte ranges, loads from a memory into which the save area has been written, the
alignment of the save area, the tracked part of the state (now including XMM10-15, which the Windows ABI
makes callee-saved), the entry conditions.
-/
import B3.Asm.Avx512Lemmas
namespace B3.AsmSem.Avx512
open B3 B3.Simd B3.AsmSem

/-! ### disjoint byte ranges (addresses mod 2^64) -/

/-- the `n` bytes at `a` and the `k` bytes at `b` have no address in common -/
def Disjoint (a : UInt64) (n : Nat) (b : UInt64) (k : Nat) : Prop :=
  ∀ i j, i < n → j < k → a + UInt64.ofNat i ≠ b + UInt64.ofNat j

theorem Disjoint.symm {a b : UInt64} {n k : Nat} (h : Disjoint a n b k) : Disjoint b k a n :=
  fun i j hi hj e => h j i hj hi e.symm

/-- a sub-range of the first range -/
theorem Disjoint.shift {a b : UInt64} {n k : Nat} (h : Disjoint a n b k) (o n' : Nat) (ho : o + n' ≤ n) :
    Disjoint (a + UInt64.ofNat o) n' b k := by
  intro i j hi hj
  rw [addr_add]
  exact h (o + i) j (by omega) hj

theorem Disjoint.outside {a b : UInt64} {n k : Nat} (h : Disjoint a n b k) (i : Nat) (hi : i < n) :
    k ≤ (a + UInt64.ofNat i - b).toNat := by
  apply Nat.le_of_not_lt
  intro hj
  apply h i _ hi hj
  rw [UInt64.ofNat_toNat, UInt64.add_comm b, UInt64.sub_add_cancel]

/-- a sufficient condition on concrete addresses: `b` lies `d` bytes after `a` (mod 2^64) with `n ≤ d` and `d + k ≤ 2^64` -/
theorem disjoint_of_far (a b : UInt64) (n k : Nat) (h1 : n ≤ (b - a).toNat) (h2 : (b - a).toNat + k ≤ 2 ^ 64) : Disjoint a n b k := by
  intro i j hi hj e
  have e' := congrArg UInt64.toNat e
  rw [UInt64.toNat_add, UInt64.toNat_add, UInt64.toNat_ofNat', UInt64.toNat_ofNat'] at e'
  rw [UInt64.toNat_sub] at h1 h2
  have := a.toNat_lt
  have := b.toNat_lt
  omega

theorem writeBytes_disjoint (m : Memory) (b : UInt64) (bs : List UInt8) (a : UInt64) (n : Nat) (h : Disjoint a n b bs.length)
    (i : Nat) (hi : i < n) : writeBytes m b bs (a + UInt64.ofNat i) = m (a + UInt64.ofNat i) :=
  writeBytes_frame _ _ _ _ (h.outside i hi)

/-- a 16-byte load outside a range that has been written sees the old memory -/
theorem load128_writeBytes_disjoint (m : Memory) (b : UInt64) (bs : List UInt8) (a : UInt64) (h : Disjoint a 16 b bs.length) :
    load128 (writeBytes m b bs) a = load128 m a := by
  rw [load128_bytes, load128_bytes]
  simp only [writeBytes_disjoint m b bs a 16 h _ (by decide : 0 < 16), writeBytes_disjoint m b bs a 16 h _ (by decide : 1 < 16),
    writeBytes_disjoint m b bs a 16 h _ (by decide : 2 < 16), writeBytes_disjoint m b bs a 16 h _ (by decide : 3 < 16),
    writeBytes_disjoint m b bs a 16 h _ (by decide : 4 < 16), writeBytes_disjoint m b bs a 16 h _ (by decide : 5 < 16),
    writeBytes_disjoint m b bs a 16 h _ (by decide : 6 < 16), writeBytes_disjoint m b bs a 16 h _ (by decide : 7 < 16),
    writeBytes_disjoint m b bs a 16 h _ (by decide : 8 < 16), writeBytes_disjoint m b bs a 16 h _ (by decide : 9 < 16),
    writeBytes_disjoint m b bs a 16 h _ (by decide : 10 < 16), writeBytes_disjoint m b bs a 16 h _ (by decide : 11 < 16),
    writeBytes_disjoint m b bs a 16 h _ (by decide : 12 < 16), writeBytes_disjoint m b bs a 16 h _ (by decide : 13 < 16),
    writeBytes_disjoint m b bs a 16 h _ (by decide : 14 < 16), writeBytes_disjoint m b bs a 16 h _ (by decide : 15 < 16)]

/-- the same for a load at `a + o`, `a` the start of a longer range disjoint from the written one -/
theorem load128_writeBytes_disjoint_at (m : Memory) (b : UInt64) (bs : List UInt8) (a : UInt64) (n o : Nat)
    (h : Disjoint a n b bs.length) (ho : o + 16 ≤ n) :
    load128 (writeBytes m b bs) (a + UInt64.ofNat o) = load128 m (a + UInt64.ofNat o) :=
  load128_writeBytes_disjoint m b bs _ (h.shift o 16 ho)

theorem blockRaw_writeBytes_disjoint (m : Memory) (b : UInt64) (bs : List UInt8) (a : UInt64) (h : Disjoint a 64 b bs.length) :
    blockRaw (writeBytes m b bs) a = blockRaw m a := by
  unfold blockRaw
  rw [load128_writeBytes_disjoint_at m b bs a 64 0 h (by decide), load128_writeBytes_disjoint_at m b bs a 64 16 h (by decide),
    load128_writeBytes_disjoint_at m b bs a 64 32 h (by decide), load128_writeBytes_disjoint_at m b bs a 64 48 h (by decide)]

/-! ### the save area: four 16-byte stores at `p`, `p+16`, `p+32`, `p+48`, read back later -/

/-- the 64 bytes the prologue writes below the caller's stack pointer: XMM6, XMM7, XMM8, XMM9 -/
def saved (v0 v1 v2 v3 : V4) : List UInt8 := bytes128 v0 ++ bytes128 v1 ++ bytes128 v2 ++ bytes128 v3

theorem saved_length (v0 v1 v2 v3 : V4) : (saved v0 v1 v2 v3).length = 64 := rfl

theorem le32_byte128 (v : V4) :
    #v[le32 (byte128 v 0) (byte128 v 1) (byte128 v 2) (byte128 v 3), le32 (byte128 v 4) (byte128 v 5) (byte128 v 6) (byte128 v 7),
       le32 (byte128 v 8) (byte128 v 9) (byte128 v 10) (byte128 v 11), le32 (byte128 v 12) (byte128 v 13) (byte128 v 14) (byte128 v 15)] = v := by
  rw [vec4_eta v]
  show #v[le32 (byteOf _ 0) (byteOf _ 1) (byteOf _ 2) (byteOf _ 3), le32 (byteOf _ 0) (byteOf _ 1) (byteOf _ 2) (byteOf _ 3),
          le32 (byteOf _ 0) (byteOf _ 1) (byteOf _ 2) (byteOf _ 3), le32 (byteOf _ 0) (byteOf _ 1) (byteOf _ 2) (byteOf _ 3)] = _
  rw [le32_bytes, le32_bytes, le32_bytes, le32_bytes]
  rfl

/-- reading the save area back, from a memory in which only bytes outside it have been written since -/
theorem load_saved (m : Memory) (p : UInt64) (v0 v1 v2 v3 : V4) :
    load128 (writeBytes m p (saved v0 v1 v2 v3)) (p + UInt64.ofNat 0) = v0 ∧
    load128 (writeBytes m p (saved v0 v1 v2 v3)) (p + UInt64.ofNat 16) = v1 ∧
    load128 (writeBytes m p (saved v0 v1 v2 v3)) (p + UInt64.ofNat 32) = v2 ∧
    load128 (writeBytes m p (saved v0 v1 v2 v3)) (p + UInt64.ofNat 48) = v3 := by
  have hh := holdsAt_writeBytes m p (saved v0 v1 v2 v3) (by rw [saved_length]; decide)
  refine ⟨?_, ?_, ?_, ?_⟩
  · rw [load128_of_holds _ p _ 0 hh (by rw [saved_length]; decide)]; exact le32_byte128 v0
  · rw [load128_of_holds _ p _ 16 hh (by rw [saved_length]; decide)]; exact le32_byte128 v1
  · rw [load128_of_holds _ p _ 32 hh (by rw [saved_length]; decide)]; exact le32_byte128 v2
  · rw [load128_of_holds _ p _ 48 hh (by rw [saved_length]; decide)]; exact le32_byte128 v3

/-! ### the stack pointer: `sub rsp, 72` from an entry value with `rsp % 16 = 8` (Windows x64 ABI) -/

theorem frame_aligned (g : UInt64) (h : g.toNat % 16 = 8) (o : Nat) (ho : o % 16 = 0) :
    aligned16 (g - UInt64.ofNat 72 + UInt64.ofNat o) = true := by
  unfold aligned16
  rw [beq_iff_eq]
  apply UInt64.toNat_inj.mp
  rw [UInt64.toNat_mod, UInt64.toNat_add, UInt64.toNat_sub, UInt64.toNat_ofNat', UInt64.toNat_ofNat']
  have := g.toNat_lt
  show _ % 16 = 0
  omega

/-- `[rsp_after_sub + k]` in terms of the stack pointer at entry -/
theorem frame_addr (g : UInt64) (k : Nat) (hk : 72 ≤ k) (hk' : k < 2 ^ 32) :
    g - UInt64.ofNat 72 + UInt64.ofNat k = g + UInt64.ofNat (k - 72) := by
  apply UInt64.toNat_inj.mp
  rw [UInt64.toNat_add, UInt64.toNat_sub, UInt64.toNat_add, UInt64.toNat_ofNat', UInt64.toNat_ofNat', UInt64.toNat_ofNat']
  have := g.toNat_lt
  omega

theorem frame_pop (g : UInt64) : g - UInt64.ofNat 72 + UInt64.ofNat 72 + 8 = g + 8 := by
  rw [UInt64.sub_add_cancel]

/-- the caller's stack (from the entry stack pointer upwards) lies outside the save area -/
theorem above_frame (g : UInt64) (k : Nat) (hk : k < 2 ^ 32) :
    64 ≤ (g + UInt64.ofNat k - (g - UInt64.ofNat 72)).toNat := by
  rw [UInt64.toNat_sub, UInt64.toNat_sub, UInt64.toNat_add, UInt64.toNat_ofNat', UInt64.toNat_ofNat']
  have := g.toNat_lt
  omega

/-- the stack pointer after `sub rsp, 72` -/
def spW (g4 : UInt64) : UInt64 := g4 - UInt64.ofNat 72

/-- memory after the four stores of XMM6-XMM9 into the save area at `sp` -/
def saveMem (m : Memory) (sp : UInt64) (v0 v1 v2 v3 : V4) : Memory :=
  store128 (store128 (store128 (store128 m (sp + UInt64.ofNat 0) v0) (sp + UInt64.ofNat 16) v1) (sp + UInt64.ofNat 32) v2)
    (sp + UInt64.ofNat 48) v3

theorem saveMem_eq (m : Memory) (sp : UInt64) (v0 v1 v2 v3 : V4) :
    saveMem m sp v0 v1 v2 v3 = writeBytes m sp (saved v0 v1 v2 v3) := store4_eq m sp v0 v1 v2 v3


/-! ### what the prologue leaves in r8: `movzx eax, byte ptr [flags]; movzx r8d, r8b; shl rax, 32; add r8, rax` -/

def lenFlagsW (g8 : UInt64) (fb : UInt8) : UInt64 :=
  trunc .d32 (trunc .b8 g8) + (trunc .d32 fb.toUInt64 <<< 32)

theorem lenFlagsW_words (g8 : UInt64) (fb : UInt8) :
    (lenFlagsW g8 fb).toUInt32 = g8.toUInt8.toUInt32 ∧ (lenFlagsW g8 fb >>> 32).toUInt32 = fb.toUInt32 := by
  unfold lenFlagsW
  have hb := g8.toUInt8.toNat_lt
  have hr := fb.toNat_lt
  have h32 : (32 : UInt64).toNat % 64 = 32 := by decide
  constructor
  · apply UInt32.toNat_inj.mp
    simp only [trunc, UInt64.toNat_toUInt32, UInt64.toNat_add, UInt64.toNat_shiftLeft, UInt8.toNat_toUInt64, UInt8.toNat_toUInt32,
      UInt32.toNat_toUInt64, h32, Nat.shiftLeft_eq]
    omega
  · apply UInt32.toNat_inj.mp
    simp only [trunc, UInt64.toNat_toUInt32, UInt64.toNat_add, UInt64.toNat_shiftLeft, UInt64.toNat_shiftRight, UInt8.toNat_toUInt64,
      UInt8.toNat_toUInt32, UInt32.toNat_toUInt64, h32, Nat.shiftLeft_eq, Nat.shiftRight_eq_div_pow]
    omega

/-- `load64` depends only on the eight bytes it reads -/
theorem load64_congr (m1 m2 : Memory) (a : UInt64) (h : ∀ i, i < 8 → m1 (a + UInt64.ofNat i) = m2 (a + UInt64.ofNat i)) :
    load64 m1 a = load64 m2 a := by
  have h0 := h 0 (by decide); have h1 := h 1 (by decide); have h2 := h 2 (by decide); have h3 := h 3 (by decide)
  have h4 := h 4 (by decide); have h5 := h 5 (by decide); have h6 := h 6 (by decide); have h7 := h 7 (by decide)
  have e0 : a + UInt64.ofNat 0 = a := by simp
  rw [e0] at h0
  unfold load64
  show _ = (m2 a).toUInt64 ||| ((m2 (a + UInt64.ofNat 1)).toUInt64 <<< 8) ||| ((m2 (a + UInt64.ofNat 2)).toUInt64 <<< 16)
    ||| ((m2 (a + UInt64.ofNat 3)).toUInt64 <<< 24) ||| ((m2 (a + UInt64.ofNat 4)).toUInt64 <<< 32) ||| ((m2 (a + UInt64.ofNat 5)).toUInt64 <<< 40)
    ||| ((m2 (a + UInt64.ofNat 6)).toUInt64 <<< 48) ||| ((m2 (a + UInt64.ofNat 7)).toUInt64 <<< 56)
  rw [← h0, ← h1, ← h2, ← h3, ← h4, ← h5, ← h6, ← h7]
  rfl

/-! ### the tracked part of the machine state: everything but the scratch registers XMM8, XMM9 and ZF -/

structure ViewW where
  r0 : V4
  r1 : V4
  r2 : V4
  r3 : V4
  m0 : V4
  m1 : V4
  m2 : V4
  m3 : V4
  x10 : V4
  x11 : V4
  x12 : V4
  x13 : V4
  x14 : V4
  x15 : V4
  gpr : Vector UInt64 16
  mem : Memory
  pc : Nat
  status : Status
  ok : Bool

def viewW (s : State) : ViewW :=
  ⟨s.xmm[0], s.xmm[1], s.xmm[2], s.xmm[3], s.xmm[4], s.xmm[5], s.xmm[6], s.xmm[7],
   s.xmm[10], s.xmm[11], s.xmm[12], s.xmm[13], s.xmm[14], s.xmm[15], s.gpr, s.mem, s.pc, s.status, s.ok⟩

theorem of_viewW {s : State} {v : ViewW} (h : viewW s = v) :
    s = ⟨#v[v.r0, v.r1, v.r2, v.r3, v.m0, v.m1, v.m2, v.m3, s.xmm[8], s.xmm[9], v.x10, v.x11, v.x12, v.x13, v.x14, v.x15],
         v.gpr, s.zf, v.mem, v.pc, v.status, v.ok⟩ := by
  subst h
  cases s with
  | mk x g z m p st ok =>
    simp only [viewW]
    congr 1
    exact vec16_eta x

end B3.AsmSem.Avx512
