/-
`blake3_compress_in_place_sse2`, MSVC (MASM) flavour: the pieces of B3/Asm/WmsvcSse2Body.lean composed
along the control flow (8 + 24 + 6*78 + 56 + 13 = 569 instructions executed), and the result related
to `Spec.compress`, the frame, the stack pointer and the callee-saved registers.
-/
import B3.Asm.WmsvcSse2Body
import B3.Asm.Sse2CompressProof
namespace B3.AsmSem.Win.MsvcSse2
open B3 B3.Simd B3.AsmSem B3.AsmSem.Win B3.Gen.AsmSse2Msvc B3.AsmSem.Sse2

/-! ### the `.rdata` section of c/blake3_sse2_x86-64_windows_msvc.asm in memory -/

abbrev Rodata (rb : UInt64) (m : Memory) : Prop := RodataLoaded rodata rodataAlign rb m

set_option maxRecDepth 8000 in
theorem table_IV {rb : UInt64} {m : Memory} (h : Win.MsvcSse2.Rodata rb m) : load128 m (rb + UInt64.ofNat 0) = BLAKE3_IV := by
  rw [load128_of_holds m rb rodata 0 h.holds (by decide)]; decide

set_option maxRecDepth 8000 in
theorem table_33 {rb : UInt64} {m : Memory} (h : Win.MsvcSse2.Rodata rb m) : load128 m (rb + UInt64.ofNat 160) = PBLENDW_0x33_MASK := by
  rw [load128_of_holds m rb rodata 160 h.holds (by decide)]; decide

set_option maxRecDepth 8000 in
theorem table_CC {rb : UInt64} {m : Memory} (h : Win.MsvcSse2.Rodata rb m) : load128 m (rb + UInt64.ofNat 176) = PBLENDW_0xCC_MASK := by
  rw [load128_of_holds m rb rodata 176 h.holds (by decide)]; decide

set_option maxRecDepth 8000 in
theorem table_3F {rb : UInt64} {m : Memory} (h : Win.MsvcSse2.Rodata rb m) : load128 m (rb + UInt64.ofNat 192) = PBLENDW_0x3F_MASK := by
  rw [load128_of_holds m rb rodata 192 h.holds (by decide)]; decide

set_option maxRecDepth 8000 in
theorem table_C0 {rb : UInt64} {m : Memory} (h : Win.MsvcSse2.Rodata rb m) : load128 m (rb + UInt64.ofNat 208) = PBLENDW_0xC0_MASK := by
  rw [load128_of_holds m rb rodata 208 h.holds (by decide)]; decide

theorem iv_aligned {rb : UInt64} {m : Memory} (h : Win.MsvcSse2.Rodata rb m) : (true && aligned16 (rb + UInt64.ofNat 0)) = true := by
  rw [aligned16_of rb rodataAlign 0 (by decide) h.aligned (by decide)]; rfl

theorem masks_aligned {rb : UInt64} {m : Memory} (h : Win.MsvcSse2.Rodata rb m) :
    ((((true && aligned16 (rb + UInt64.ofNat 160)) && aligned16 (rb + UInt64.ofNat 176)) && aligned16 (rb + UInt64.ofNat 192))
         && aligned16 (rb + UInt64.ofNat 208)) = true := by
  rw [aligned16_of rb rodataAlign 160 (by decide) h.aligned (by decide), aligned16_of rb rodataAlign 176 (by decide) h.aligned (by decide),
    aligned16_of rb rodataAlign 192 (by decide) h.aligned (by decide), aligned16_of rb rodataAlign 208 (by decide) h.aligned (by decide)]
  rfl

/-- with the four masks of this file's `.rdata`, `pand`/`pand`/`por` compute the message permutation (the masks have the
values of the unix file's, for which `B3.AsmSem.Sse2.permMasked_eq` was proved) -/
theorem permMasked_eq (W : St) :
    permMasked (grp0 W) (grp1 W) (grp2 W) (grp3 W) PBLENDW_0x33_MASK PBLENDW_0xCC_MASK PBLENDW_0x3F_MASK PBLENDW_0xC0_MASK
      = (grp0 (Spec.permute W), grp1 (Spec.permute W), grp2 (Spec.permute W), grp3 (Spec.permute W)) :=
  AsmSem.Sse2.permMasked_eq W

/-- the state on entry: see `B3.AsmSem.Win.EntryW`, with the `.rdata` section of c/blake3_sse2_x86-64_windows_msvc.asm -/
abbrev Entry (rb : UInt64) (s : State) : Prop := EntryW rodata rodataAlign rb s
/-- the same for compress_xof: also `out` apart from the frame -/
abbrev EntryXof (rb : UInt64) (s : State) : Prop := EntryWXof rodata rodataAlign rb s

/-! ### the stages -/

/-- the tracked state at instruction `pc`: rows of `S`, grouped words of `W`, XMM10/12/13/15 as at entry -/
abbrev atPc (pc : Nat) (k10 k12 k13 k15 : V4) (S W : St) (g : Vector UInt64 16) (m : Memory) : WView2 :=
  ⟨row S 0, row S 1, row S 2, row S 3, grp0 W, grp1 W, grp2 W, grp3 W, k10, k12, k13, k15, g, m, pc, .running, true⟩

theorem frame_stage (rb : UInt64) (s : State) (h : Win.MsvcSse2.Entry rb s) :
    run rb compress_in_place 8 s
      = ⟨#v[s.xmm[0], s.xmm[1], s.xmm[2], s.xmm[3], s.xmm[4], s.xmm[5], s.xmm[6], s.xmm[7], s.xmm[8], s.xmm[9],
            s.xmm[10], s.xmm[11], s.xmm[12], s.xmm[13], s.xmm[14], s.xmm[15]],
         #v[s.gpr[rax], s.gpr[rcx], s.gpr[rdx], s.gpr[rbx], frameBase s, s.gpr[rbp], s.gpr[rsi], s.gpr[rdi],
            s.gpr[r8], s.gpr[r9], s.gpr[r10], s.gpr[r11], s.gpr[r12], s.gpr[r13], s.gpr[r14], s.gpr[r15]],
         frameBase s == 0, frameMem s, 8, .running, true⟩ := by
  have hs := state_eta s h.pc h.running h.ok
  conv => lhs; rw [hs]
  rw [frame_raw, frameStores_eq]
  have := frame_aligned_of_entry h
  unfold frameBase at this
  rw [this]
  rfl

theorem prologue_stage (rb : UInt64) (s : State) (h : Win.MsvcSse2.Entry rb s) :
    wview2 (run rb compress_in_place 32 s)
      = atPc 32 s.xmm[10] s.xmm[12] s.xmm[13] s.xmm[15]
          (Spec.initState (readWords s.mem s.gpr[rcx] 8) s.gpr[r9] s.gpr[r8].toUInt8.toUInt32 (flagsArg s).toUInt32)
          (readWords s.mem s.gpr[rdx] 16) (gprAfterPrologueW s) (frameMem s) := by
  have hro := frameMem_rodata h
  obtain ⟨e1, e2⟩ := lenFlagsW_words s.gpr[r8] (flagsArg s)
  rw [← e1, ← e2, ← frameMem_cv h, ← frameMem_block h]
  rw [show 32 = 8 + 24 from rfl, run_add, frame_stage rb s h, prologue_raw, table_IV hro, iv_aligned hro, frameMem_flags,
    ← cvRaw_eq, ← blockRaw_eq]
  simp only [atPc]
  congr 1

theorem body_stage (rb : UInt64) (s : State) (k10 k12 k13 k15 : V4) (S W : St) (g : Vector UInt64 16) (m : Memory)
    (h : wview2 s = atPc 32 k10 k12 k13 k15 S W g m) :
    wview2 (run rb compress_in_place 54 s) = atPc 86 k10 k12 k13 k15 (Spec.round S W) W g m := by
  rw [of_wview2 h]
  have := body_raw rb S W s.xmm[8] s.xmm[9] k10 s.xmm[11] k12 k13 s.xmm[14] k15 g s.zf m
  rw [roundP_eq _ _ _ _ s16_eq s12_eq s8_eq s7_eq] at this
  exact this

theorem decjz_stage (rb : UInt64) (s : State) (k10 k12 k13 k15 : V4) (S W : St) (g : Vector UInt64 16) (m : Memory)
    (h : wview2 s = atPc 86 k10 k12 k13 k15 S W g m) :
    wview2 (run rb compress_in_place 2 s) = atPc (if g[rax].toUInt8 - 1 == 0 then 110 else 88) k10 k12 k13 k15 S W (decAl g) m := by
  rw [of_wview2 h]
  show wview2 (step rb compress_in_place (step rb compress_in_place _)) = _
  rw [dec_raw, dec_b8_zf]
  cases hz : (g[rax].toUInt8 - 1 == 0)
  · rw [jz_not_taken]; rfl
  · rw [jz_taken]; rfl

theorem perm_stage (rb : UInt64) (s : State) (k10 k12 k13 k15 : V4) (S W : St) (g : Vector UInt64 16) (m : Memory)
    (hro : Win.MsvcSse2.Rodata rb m) (h : wview2 s = atPc 88 k10 k12 k13 k15 S W g m) :
    wview2 (run rb compress_in_place 22 s) = atPc 32 k10 k12 k13 k15 S (Spec.permute W) g m := by
  rw [of_wview2 h]
  have := perm_raw rb (row S 0) (row S 1) (row S 2) (row S 3) (grp0 W) (grp1 W) (grp2 W) (grp3 W)
    s.xmm[8] s.xmm[9] k10 s.xmm[11] k12 k13 s.xmm[14] k15 g s.zf m
  rw [table_33 hro, table_CC hro, table_3F hro, table_C0 hro, masks_aligned hro, Win.MsvcSse2.permMasked_eq] at this
  exact this

/-- one trip round the loop while `al - 1 ≠ 0`: 54 + 2 + 22 instructions -/
theorem iteration (rb : UInt64) (k10 k12 k13 k15 : V4) (s : State) (S W : St) (g : Vector UInt64 16) (m : Memory)
    (hro : Win.MsvcSse2.Rodata rb m) (h : wview2 s = atPc 32 k10 k12 k13 k15 S W g m) (hal : (g[rax].toUInt8 - 1 == 0) = false) :
    wview2 (run rb compress_in_place 78 s) = atPc 32 k10 k12 k13 k15 (Spec.round S W) (Spec.permute W) (decAl g) m := by
  rw [show 78 = 54 + (2 + 22) from rfl, run_add, run_add]
  have h2 := decjz_stage rb _ _ _ _ _ _ _ _ _ (body_stage rb s k10 k12 k13 k15 S W g m h)
  rw [hal] at h2
  exact perm_stage rb _ _ _ _ _ _ _ _ _ hro h2

/-- the last trip: `al - 1 = 0`, the branch to the epilogue is taken: 54 + 2 instructions -/
theorem last_iteration (rb : UInt64) (k10 k12 k13 k15 : V4) (s : State) (S W : St) (g : Vector UInt64 16) (m : Memory)
    (h : wview2 s = atPc 32 k10 k12 k13 k15 S W g m) (hal : (g[rax].toUInt8 - 1 == 0) = true) :
    wview2 (run rb compress_in_place 56 s) = atPc 110 k10 k12 k13 k15 (Spec.round S W) W (decAl g) m := by
  rw [show 56 = 54 + 2 from rfl, run_add]
  have h2 := decjz_stage rb _ _ _ _ _ _ _ _ _ (body_stage rb s k10 k12 k13 k15 S W g m h)
  rw [hal] at h2
  exact h2

/-- instructions 110..122, the whole state -/
theorem epilogue_stage (rb : UInt64) (s : State) (k10 k12 k13 k15 : V4) (S W : St) (g : Vector UInt64 16) (m : Memory)
    (h : wview2 s = atPc 110 k10 k12 k13 k15 S W g m) :
    run rb compress_in_place 13 s
      = ⟨#v[_mm_xor_si128 (row S 0) (row S 2), _mm_xor_si128 (row S 1) (row S 3), row S 2, row S 3, grp0 W, grp1 W,
            load128 (out2 m g[rcx] (_mm_xor_si128 (row S 0) (row S 2)) (_mm_xor_si128 (row S 1) (row S 3))) (g[rsp] + UInt64.ofNat 0),
            load128 (out2 m g[rcx] (_mm_xor_si128 (row S 0) (row S 2)) (_mm_xor_si128 (row S 1) (row S 3))) (g[rsp] + UInt64.ofNat 16),
            load128 (out2 m g[rcx] (_mm_xor_si128 (row S 0) (row S 2)) (_mm_xor_si128 (row S 1) (row S 3))) (g[rsp] + UInt64.ofNat 32),
            load128 (out2 m g[rcx] (_mm_xor_si128 (row S 0) (row S 2)) (_mm_xor_si128 (row S 1) (row S 3))) (g[rsp] + UInt64.ofNat 48),
            k10,
            load128 (out2 m g[rcx] (_mm_xor_si128 (row S 0) (row S 2)) (_mm_xor_si128 (row S 1) (row S 3))) (g[rsp] + UInt64.ofNat 64),
            k12, k13,
            load128 (out2 m g[rcx] (_mm_xor_si128 (row S 0) (row S 2)) (_mm_xor_si128 (row S 1) (row S 3))) (g[rsp] + UInt64.ofNat 80),
            load128 (out2 m g[rcx] (_mm_xor_si128 (row S 0) (row S 2)) (_mm_xor_si128 (row S 1) (row S 3))) (g[rsp] + UInt64.ofNat 96)],
         gprEpilogue g, g[rsp] + UInt64.ofNat 120 == 0,
         out2 m g[rcx] (_mm_xor_si128 (row S 0) (row S 2)) (_mm_xor_si128 (row S 1) (row S 3)),
         122, .returned, frameAligned g[rsp]⟩ := by
  rw [of_wview2 h]
  exact epilogue_raw rb _ _ _ _ _ _ _ _ s.xmm[8] s.xmm[9] k10 s.xmm[11] k12 k13 s.xmm[14] k15 g s.zf m

/-! ### the whole routine -/

/-- from any entry state (569 instructions are executed) -/
theorem run_compress_in_place (rb : UInt64) (s : State) (h : Win.MsvcSse2.Entry rb s) :
    (run rb compress_in_place 569 s).status = .returned ∧
    (run rb compress_in_place 569 s).ok = true ∧
    (run rb compress_in_place 569 s).mem
      = writeBytes (frameMem s) s.gpr[rcx] (bytesOfWords (first8 (Spec.compress (readWords s.mem s.gpr[rcx] 8)
          (readWords s.mem s.gpr[rdx] 16) s.gpr[r9] s.gpr[r8].toUInt8.toUInt32 (flagsArg s).toUInt32))) ∧
    (run rb compress_in_place 569 s).gpr = gprFinal (gprAfterPrologueW s) ∧
    ∀ i : Fin 16, 6 ≤ i.val → (run rb compress_in_place 569 s).xmm[i] = s.xmm[i] := by
  have hro := frameMem_rodata h
  have h0 := prologue_stage rb s h
  have a0 : (gprAfterPrologueW s)[rax].toUInt8 = 7 := by
    show (merge .b8 _ 7).toUInt8 = 7
    rw [merge_b8_low]; rfl
  have h7 := loop7 wview2 rb compress_in_place 78 56
    (fun S W g _ => atPc 32 s.xmm[10] s.xmm[12] s.xmm[13] s.xmm[15] S W g (frameMem s))
    (fun S W g _ => atPc 110 s.xmm[10] s.xmm[12] s.xmm[13] s.xmm[15] S W g (frameMem s))
    (fun s' S W g _ h hal => iteration rb s.xmm[10] s.xmm[12] s.xmm[13] s.xmm[15] s' S W g (frameMem s) hro h hal)
    (fun s' S W g _ h hal => last_iteration rb s.xmm[10] s.xmm[12] s.xmm[13] s.xmm[15] s' S W g (frameMem s) h hal)
    _ _ _ _ (frameMem s) h0 a0
  have e := epilogue_stage rb _ _ _ _ _ _ _ _ _ h7
  rw [show 569 = 32 + ((78 + (78 + (78 + (78 + (78 + (78 + 56)))))) + 13) by omega, run_add, run_add, e]
  have hrcx : (dec7 (gprAfterPrologueW s))[rcx] = s.gpr[rcx] := by rw [dec7_ne _ rcx (by decide)]; rfl
  have hrsp : (dec7 (gprAfterPrologueW s))[rsp] = frameBase s := by rw [dec7_ne _ rsp (by decide)]; rfl
  rw [hrcx, hrsp]
  unfold out2
  rw [xor_rows_lo, xor_rows_hi, store2_eq]
  have fr := fun (w : CV) => frame_reload s s.gpr[rcx] (bytesOfWords w) (by rw [bytesOfWords8_length]; exact h.frame_cv)
  rw [(fr _).1, (fr _).2.1, (fr _).2.2.1, (fr _).2.2.2.1, (fr _).2.2.2.2.1, (fr _).2.2.2.2.2.1, (fr _).2.2.2.2.2.2]
  refine ⟨rfl, frame_aligned_of_entry h, rfl, rfl, ?_⟩
  intro i hi
  exact xmm_saved s _ _ _ _ _ _ i hi

/-! ### main theorems -/

/-- `blake3_compress_in_place_sse2`, MSVC (MASM) flavour (569 instructions): the statement of
`B3.AsmSem.Win.Sse41.compress_in_place_correct` for the SSE2 file -/
theorem compress_in_place_correct (rb : UInt64) (s : State) (h : Win.MsvcSse2.Entry rb s) :
    (run rb compress_in_place 569 s).status = .returned ∧
    (run rb compress_in_place 569 s).ok = true ∧
    (run rb compress_in_place 569 s).mem
      = writeBytes (frameMem s) s.gpr[rcx] (bytesOfWords (first8 (Spec.compress (readWords s.mem s.gpr[rcx] 8)
          (readWords s.mem s.gpr[rdx] 16) s.gpr[r9] s.gpr[r8].toUInt8.toUInt32 (flagsArg s).toUInt32))) ∧
    (run rb compress_in_place 569 s).gpr[rsp] = s.gpr[rsp] + 8 ∧
    (∀ r : Reg, r ≠ rax → r ≠ r8 → r ≠ rsp → (run rb compress_in_place 569 s).gpr[r] = s.gpr[r]) ∧
    ∀ i : Fin 16, 6 ≤ i.val → (run rb compress_in_place 569 s).xmm[i] = s.xmm[i] := by
  obtain ⟨h1, h2, h3, h4, h5⟩ := run_compress_in_place rb s h
  refine ⟨h1, h2, h3, ?_, ?_, h5⟩
  · rw [h4]; exact final_rspW s
  · intro r a b c; rw [h4]; exact final_frameW s r a b c

/-- the memory clause read back (as `B3.AsmSem.Win.Sse41.compress_in_place_correct_words`) -/
theorem compress_in_place_correct_words (rb : UInt64) (s : State) (h : Win.MsvcSse2.Entry rb s) :
    readWords (run rb compress_in_place 569 s).mem s.gpr[rcx] 8
      = first8 (Spec.compress (readWords s.mem s.gpr[rcx] 8) (readWords s.mem s.gpr[rdx] 16) s.gpr[r9]
          s.gpr[r8].toUInt8.toUInt32 (flagsArg s).toUInt32) ∧
    (∀ q : UInt64, 32 ≤ (q - s.gpr[rcx]).toNat → 112 ≤ (q - frameBase s).toNat →
      (run rb compress_in_place 569 s).mem q = s.mem q) ∧
    ∀ k : Nat, k < 112 → (run rb compress_in_place 569 s).mem (frameBase s + UInt64.ofNat k) = (savedBytes s).getD k 0 := by
  obtain ⟨_, _, h3, _⟩ := compress_in_place_correct rb s h
  rw [h3]
  refine ⟨readWords_writeBytes _ _ _, ?_, ?_⟩
  · intro q hq hf
    rw [writeBytes_frame _ _ _ _ (by rw [bytesOfWords8_length]; exact hq)]
    exact writeBytes_frame _ _ _ _ (by rw [savedBytes_length]; exact hf)
  · intro k hk
    have := writeBytes_apart (frameMem s) s.gpr[rcx] (bytesOfWords (first8 (Spec.compress (readWords s.mem s.gpr[rcx] 8)
      (readWords s.mem s.gpr[rdx] 16) s.gpr[r9] s.gpr[r8].toUInt8.toUInt32 (flagsArg s).toUInt32))) (frameBase s) 112
      (by rw [bytesOfWords8_length]; exact h.frame_cv.symm) k hk
    rw [this]
    exact frameMem_holds s k (by rw [savedBytes_length]; exact hk)

/-- more fuel changes nothing: the routine has returned -/
theorem compress_in_place_fuel (rb : UInt64) (s : State) (h : Win.MsvcSse2.Entry rb s) (n : Nat) :
    run rb compress_in_place (569 + n) s = run rb compress_in_place 569 s := by
  rw [run_add]
  exact run_returned _ _ _ _ (compress_in_place_correct rb s h).1

/-! the hypotheses are satisfiable (same layout as `B3.AsmSem.Win.Sse41.exampleState`) -/

def exampleState : State :=
  { xmm := Vector.replicate 16 #v[0xDEADBEEF, 1, 2, 3]
    gpr := #v[0x1111111111111111, 0x10008, 0x20001, 3, 0x7fff0008, 5, 6, 7, 0xA5C3A5C3A5C3A540, 9, 10, 11, 12, 13, 14, 15]
    zf := true
    mem := writeBytes (writeBytes (writeBytes (fun _ => 0x5A) 0x30040 rodata) 0x7fff0030 [11]) 0x7fff0038 [0x04, 0x00, 0x04, 0, 0, 0, 0, 0]
    pc := 0, status := .running, ok := true }

set_option maxRecDepth 8000 in
theorem exampleState_entry : Win.MsvcSse2.EntryXof 0x30040 exampleState :=
  { pc := rfl, running := rfl, ok := rfl
    rodata := ⟨by decide, by
      intro i hi
      show writeBytes (writeBytes (writeBytes (fun _ => 0x5A) 0x30040 rodata) 0x7fff0030 [11]) 0x7fff0038 _ _ = _
      have hi' : i < 224 := hi
      rw [writeBytes_frame, writeBytes_frame]
      · exact holdsAt_writeBytes _ _ _ (by decide) i hi
      · show 1 ≤ _
        rw [UInt64.toNat_sub, UInt64.toNat_add, UInt64.toNat_ofNat']
        have a : (0x30040 : UInt64).toNat = 0x30040 := rfl
        have b : (0x7fff0030 : UInt64).toNat = 0x7fff0030 := rfl
        rw [a, b]; omega
      · show 8 ≤ _
        rw [UInt64.toNat_sub, UInt64.toNat_add, UInt64.toNat_ofNat']
        have a : (0x30040 : UInt64).toNat = 0x30040 := rfl
        have b : (0x7fff0038 : UInt64).toNat = 0x7fff0038 := rfl
        rw [a, b]; omega⟩
    rsp_aligned := by decide
    frame_rodata := by decide
    frame_cv := by decide
    frame_block := by decide
    frame_out := by decide }

end B3.AsmSem.Win.MsvcSse2
