/-
`blake3_compress_in_place_sse41`, MSVC (MASM) flavour: the pieces of B3/Asm/WmsvcSse41Body.lean
composed along the control flow of the routine (frame + prologue, six trips round the loop with the
branch not taken, the seventh with the branch taken, epilogue; 8 + 26 + 6*65 + 48 + 13 = 485
instructions executed), and the result related to `Spec.compress`, the frame, the stack pointer
and the callee-saved registers.
-/
import B3.Asm.WmsvcSse41Body
namespace B3.AsmSem.Win.MsvcSse41
open B3 B3.Simd B3.AsmSem B3.AsmSem.Win B3.Gen.AsmSse41Msvc B3.AsmSem.Sse41

/-! ### the `.rdata` section of c/blake3_sse41_x86-64_windows_msvc.asm in memory -/

abbrev Rodata (rb : UInt64) (m : Memory) : Prop := RodataLoaded rodata rodataAlign rb m

set_option maxRecDepth 8000 in
theorem table_IV {rb : UInt64} {m : Memory} (h : Rodata rb m) : load128 m (rb + UInt64.ofNat 0) = BLAKE3_IV := by
  rw [load128_of_holds m rb rodata 0 h.holds (by decide)]; decide

set_option maxRecDepth 8000 in
theorem table_ROT16 {rb : UInt64} {m : Memory} (h : Rodata rb m) : load128 m (rb + UInt64.ofNat 128) = ROT16 := by
  rw [load128_of_holds m rb rodata 128 h.holds (by decide)]; decide

set_option maxRecDepth 8000 in
theorem table_ROT8 {rb : UInt64} {m : Memory} (h : Rodata rb m) : load128 m (rb + UInt64.ofNat 144) = ROT8 := by
  rw [load128_of_holds m rb rodata 144 h.holds (by decide)]; decide

theorem tables_aligned {rb : UInt64} {m : Memory} (h : Rodata rb m) :
    (((true && aligned16 (rb + UInt64.ofNat 0)) && aligned16 (rb + UInt64.ofNat 144)) && aligned16 (rb + UInt64.ofNat 128)) = true := by
  rw [aligned16_of rb rodataAlign 0 (by decide) h.aligned (by decide), aligned16_of rb rodataAlign 144 (by decide) h.aligned (by decide),
    aligned16_of rb rodataAlign 128 (by decide) h.aligned (by decide)]
  rfl

/-- the state on entry: see `B3.AsmSem.Win.EntryW`, with the `.rdata` section of c/blake3_sse41_x86-64_windows_msvc.asm -/
abbrev Entry (rb : UInt64) (s : State) : Prop := EntryW rodata rodataAlign rb s
/-- the same for compress_xof: also `out` apart from the frame -/
abbrev EntryXof (rb : UInt64) (s : State) : Prop := EntryWXof rodata rodataAlign rb s

/-! ### the stages -/

/-- the tracked state at instruction `pc`: rows of `S`, grouped words of `W`, XMM10/12/13 as at entry, the two tables in XMM14/15 -/
abbrev atPc (pc : Nat) (k10 k12 k13 : V4) (S W : St) (g : Vector UInt64 16) (m : Memory) : WView :=
  ⟨row S 0, row S 1, row S 2, row S 3, grp0 W, grp1 W, grp2 W, grp3 W, k10, k12, k13, ROT8, ROT16, g, m, pc, .running, true⟩

/-- instructions 0..7: the frame is written, nothing else changes but `rsp` (and ZF) -/
theorem frame_stage (rb : UInt64) (s : State) (h : Entry rb s) :
    run rb compress_in_place 8 s
      = ⟨#v[s.xmm[0], s.xmm[1], s.xmm[2], s.xmm[3], s.xmm[4], s.xmm[5], s.xmm[6], s.xmm[7], s.xmm[8], s.xmm[9],
            s.xmm[10], s.xmm[11], s.xmm[12], s.xmm[13], s.xmm[14], s.xmm[15]],
         #v[s.gpr[rax], s.gpr[rcx], s.gpr[rdx], s.gpr[rbx], frameBase s, s.gpr[rbp], s.gpr[rsi], s.gpr[rdi],
            s.gpr[r8], s.gpr[r9], s.gpr[r10], s.gpr[r11], s.gpr[r12], s.gpr[r13], s.gpr[r14], s.gpr[r15]],
         frameBase s == 0, frameMem s, 8, .running, true⟩ := by
  have hs := state_eta s h.pc h.running h.ok
  conv => lhs; rw [hs]
  rw [frame_raw, frameStores_eq]
  have := frame_aligned_of_entry h
  unfold frameBase at this
  rw [this]
  rfl

theorem prologue_stage (rb : UInt64) (s : State) (h : Entry rb s) :
    wview (run rb compress_in_place 34 s)
      = atPc 34 s.xmm[10] s.xmm[12] s.xmm[13]
          (Spec.initState (readWords s.mem s.gpr[rcx] 8) s.gpr[r9] s.gpr[r8].toUInt8.toUInt32 (flagsArg s).toUInt32)
          (readWords s.mem s.gpr[rdx] 16) (gprAfterPrologueW s) (frameMem s) := by
  have hro := frameMem_rodata h
  obtain ⟨e1, e2⟩ := lenFlagsW_words s.gpr[r8] (flagsArg s)
  rw [← e1, ← e2, ← frameMem_cv h, ← frameMem_block h]
  rw [show 34 = 8 + 26 from rfl, run_add, frame_stage rb s h, prologue_raw, table_IV hro, table_ROT16 hro, table_ROT8 hro,
    tables_aligned hro, frameMem_flags, ← cvRaw_eq, ← blockRaw_eq]
  simp only [atPc]
  congr 1

theorem body_stage (rb : UInt64) (s : State) (k10 k12 k13 : V4) (S W : St) (g : Vector UInt64 16) (m : Memory)
    (h : wview s = atPc 34 k10 k12 k13 S W g m) :
    wview (run rb compress_in_place 46 s) = atPc 80 k10 k12 k13 (Spec.round S W) W g m := by
  rw [of_wview h]
  have := body_raw rb S W s.xmm[8] s.xmm[9] k10 s.xmm[11] k12 k13 g s.zf m
  rw [roundP_eq _ _ _ _ a16_eq a12_eq a8_eq a7_eq] at this
  exact this

theorem decjz_stage (rb : UInt64) (s : State) (k10 k12 k13 : V4) (S W : St) (g : Vector UInt64 16) (m : Memory)
    (h : wview s = atPc 80 k10 k12 k13 S W g m) :
    wview (run rb compress_in_place 2 s) = atPc (if g[rax].toUInt8 - 1 == 0 then 99 else 82) k10 k12 k13 S W (decAl g) m := by
  rw [of_wview h]
  show wview (step rb compress_in_place (step rb compress_in_place _)) = _
  rw [dec_raw, dec_b8_zf]
  cases hz : (g[rax].toUInt8 - 1 == 0)
  · rw [jz_not_taken]; rfl
  · rw [jz_taken]; rfl

theorem perm_stage (rb : UInt64) (s : State) (k10 k12 k13 : V4) (S W : St) (g : Vector UInt64 16) (m : Memory)
    (h : wview s = atPc 82 k10 k12 k13 S W g m) :
    wview (run rb compress_in_place 17 s) = atPc 34 k10 k12 k13 S (Spec.permute W) g m := by
  rw [of_wview h]
  exact perm_raw rb _ _ _ _ W s.xmm[8] s.xmm[9] k10 s.xmm[11] k12 k13 _ _ g s.zf m

/-- one trip round the loop while `al - 1 ≠ 0`: 46 + 2 + 17 instructions -/
theorem iteration (rb : UInt64) (k10 k12 k13 : V4) (s : State) (S W : St) (g : Vector UInt64 16) (m : Memory)
    (h : wview s = atPc 34 k10 k12 k13 S W g m) (hal : (g[rax].toUInt8 - 1 == 0) = false) :
    wview (run rb compress_in_place 65 s) = atPc 34 k10 k12 k13 (Spec.round S W) (Spec.permute W) (decAl g) m := by
  rw [show 65 = 46 + (2 + 17) from rfl, run_add, run_add]
  have h2 := decjz_stage rb _ _ _ _ _ _ _ _ (body_stage rb s k10 k12 k13 S W g m h)
  rw [hal] at h2
  exact perm_stage rb _ _ _ _ _ _ _ _ h2

/-- the last trip: `al - 1 = 0`, the branch to the epilogue is taken: 46 + 2 instructions -/
theorem last_iteration (rb : UInt64) (k10 k12 k13 : V4) (s : State) (S W : St) (g : Vector UInt64 16) (m : Memory)
    (h : wview s = atPc 34 k10 k12 k13 S W g m) (hal : (g[rax].toUInt8 - 1 == 0) = true) :
    wview (run rb compress_in_place 48 s) = atPc 99 k10 k12 k13 (Spec.round S W) W (decAl g) m := by
  rw [show 48 = 46 + 2 from rfl, run_add]
  have h2 := decjz_stage rb _ _ _ _ _ _ _ _ (body_stage rb s k10 k12 k13 S W g m h)
  rw [hal] at h2
  exact h2

/-- instructions 99..111, the whole state -/
theorem epilogue_stage (rb : UInt64) (s : State) (k10 k12 k13 : V4) (S W : St) (g : Vector UInt64 16) (m : Memory)
    (h : wview s = atPc 99 k10 k12 k13 S W g m) :
    run rb compress_in_place 13 s
      = ⟨#v[_mm_xor_si128 (row S 0) (row S 2), _mm_xor_si128 (row S 1) (row S 3), row S 2, row S 3, grp0 W, grp1 W,
            load128 (out2 m g[rcx] (_mm_xor_si128 (row S 0) (row S 2)) (_mm_xor_si128 (row S 1) (row S 3))) (g[rsp] + UInt64.ofNat 0),
            load128 (out2 m g[rcx] (_mm_xor_si128 (row S 0) (row S 2)) (_mm_xor_si128 (row S 1) (row S 3))) (g[rsp] + UInt64.ofNat 16),
            load128 (out2 m g[rcx] (_mm_xor_si128 (row S 0) (row S 2)) (_mm_xor_si128 (row S 1) (row S 3))) (g[rsp] + UInt64.ofNat 32),
            load128 (out2 m g[rcx] (_mm_xor_si128 (row S 0) (row S 2)) (_mm_xor_si128 (row S 1) (row S 3))) (g[rsp] + UInt64.ofNat 48),
            k10,
            load128 (out2 m g[rcx] (_mm_xor_si128 (row S 0) (row S 2)) (_mm_xor_si128 (row S 1) (row S 3))) (g[rsp] + UInt64.ofNat 64),
            k12, k13,
            load128 (out2 m g[rcx] (_mm_xor_si128 (row S 0) (row S 2)) (_mm_xor_si128 (row S 1) (row S 3))) (g[rsp] + UInt64.ofNat 80),
            load128 (out2 m g[rcx] (_mm_xor_si128 (row S 0) (row S 2)) (_mm_xor_si128 (row S 1) (row S 3))) (g[rsp] + UInt64.ofNat 96)],
         gprEpilogue g, g[rsp] + UInt64.ofNat 120 == 0,
         out2 m g[rcx] (_mm_xor_si128 (row S 0) (row S 2)) (_mm_xor_si128 (row S 1) (row S 3)),
         111, .returned, frameAligned g[rsp]⟩ := by
  rw [of_wview h]
  exact epilogue_raw rb _ _ _ _ _ _ _ _ s.xmm[8] s.xmm[9] k10 s.xmm[11] k12 k13 _ _ g s.zf m

/-! ### the whole routine -/

/-- from any entry state (485 instructions are executed) -/
theorem run_compress_in_place (rb : UInt64) (s : State) (h : Entry rb s) :
    (run rb compress_in_place 485 s).status = .returned ∧
    (run rb compress_in_place 485 s).ok = true ∧
    (run rb compress_in_place 485 s).mem
      = writeBytes (frameMem s) s.gpr[rcx] (bytesOfWords (first8 (Spec.compress (readWords s.mem s.gpr[rcx] 8)
          (readWords s.mem s.gpr[rdx] 16) s.gpr[r9] s.gpr[r8].toUInt8.toUInt32 (flagsArg s).toUInt32))) ∧
    (run rb compress_in_place 485 s).gpr = gprFinal (gprAfterPrologueW s) ∧
    ∀ i : Fin 16, 6 ≤ i.val → (run rb compress_in_place 485 s).xmm[i] = s.xmm[i] := by
  have h0 := prologue_stage rb s h
  have a0 : (gprAfterPrologueW s)[rax].toUInt8 = 7 := by
    show (merge .b8 _ 7).toUInt8 = 7
    rw [merge_b8_low]; rfl
  have h7 := loop7 wview rb compress_in_place 65 48 (atPc 34 s.xmm[10] s.xmm[12] s.xmm[13]) (atPc 99 s.xmm[10] s.xmm[12] s.xmm[13])
    (iteration rb _ _ _) (last_iteration rb _ _ _) _ _ _ _ _ h0 a0
  have e := epilogue_stage rb _ _ _ _ _ _ _ _ h7
  rw [show 485 = 34 + ((65 + (65 + (65 + (65 + (65 + (65 + 48)))))) + 13) by omega, run_add, run_add, e]
  have hrcx : (dec7 (gprAfterPrologueW s))[rcx] = s.gpr[rcx] := by rw [dec7_ne _ rcx (by decide)]; rfl
  have hrsp : (dec7 (gprAfterPrologueW s))[rsp] = frameBase s := by rw [dec7_ne _ rsp (by decide)]; rfl
  rw [hrcx, hrsp]
  unfold out2
  rw [xor_rows_lo, xor_rows_hi, store2_eq]
  have fr := fun (w : CV) => frame_reload s s.gpr[rcx] (bytesOfWords w) (by rw [bytesOfWords8_length]; exact h.frame_cv)
  rw [(fr _).1, (fr _).2.1, (fr _).2.2.1, (fr _).2.2.2.1, (fr _).2.2.2.2.1, (fr _).2.2.2.2.2.1, (fr _).2.2.2.2.2.2]
  refine ⟨rfl, frame_aligned_of_entry h, rfl, rfl, ?_⟩
  intro i hi
  exact xmm_saved s _ _ _ _ _ _ i hi

/-! ### main theorems -/

/-- `blake3_compress_in_place_sse41(cv, block, block_len, counter, flags)`, MSVC (MASM) flavour, Win64 arguments
rcx = cv, rdx = block, r8b = block_len, r9 = counter, `[rsp+0x28]` = flags; ANY register and memory contents satisfying
`Entry` (tables loaded, `rsp ≡ 8 mod 16`, the frame `[rsp-120, rsp-8)` apart from the tables, cv and block).
After exactly 485 instructions the routine has returned without a fault; memory is the entry memory with the frame bytes
replaced by the seven saved registers and then the 32 bytes at `cv` replaced by the first eight words of the
specification's compression (block length = `r8b`, flags = the byte at `[rsp+0x28]`: nothing above the 8-bit arguments is
used); `rsp` is popped; every general purpose register other than rax, r8, rsp is unchanged (in particular the Win64
callee-saved rbx, rbp, rdi, rsi, r12-r15); XMM6-15 hold their entry values. -/
theorem compress_in_place_correct (rb : UInt64) (s : State) (h : Entry rb s) :
    (run rb compress_in_place 485 s).status = .returned ∧
    (run rb compress_in_place 485 s).ok = true ∧
    (run rb compress_in_place 485 s).mem
      = writeBytes (frameMem s) s.gpr[rcx] (bytesOfWords (first8 (Spec.compress (readWords s.mem s.gpr[rcx] 8)
          (readWords s.mem s.gpr[rdx] 16) s.gpr[r9] s.gpr[r8].toUInt8.toUInt32 (flagsArg s).toUInt32))) ∧
    (run rb compress_in_place 485 s).gpr[rsp] = s.gpr[rsp] + 8 ∧
    (∀ r : Reg, r ≠ rax → r ≠ r8 → r ≠ rsp → (run rb compress_in_place 485 s).gpr[r] = s.gpr[r]) ∧
    ∀ i : Fin 16, 6 ≤ i.val → (run rb compress_in_place 485 s).xmm[i] = s.xmm[i] := by
  obtain ⟨h1, h2, h3, h4, h5⟩ := run_compress_in_place rb s h
  refine ⟨h1, h2, h3, ?_, ?_, h5⟩
  · rw [h4]; exact final_rspW s
  · intro r a b c; rw [h4]; exact final_frameW s r a b c

/-- the memory clause read back: the eight words at `cv` afterwards; every byte outside `cv` and outside the 112 frame
bytes `[rsp-120, rsp-8)` is unchanged; the frame bytes hold the saved registers (so exactly these 112 bytes below the
entry stack pointer may differ from the entry memory, and the 8 bytes `[rsp-8, rsp)` do not) -/
theorem compress_in_place_correct_words (rb : UInt64) (s : State) (h : Entry rb s) :
    readWords (run rb compress_in_place 485 s).mem s.gpr[rcx] 8
      = first8 (Spec.compress (readWords s.mem s.gpr[rcx] 8) (readWords s.mem s.gpr[rdx] 16) s.gpr[r9]
          s.gpr[r8].toUInt8.toUInt32 (flagsArg s).toUInt32) ∧
    (∀ q : UInt64, 32 ≤ (q - s.gpr[rcx]).toNat → 112 ≤ (q - frameBase s).toNat →
      (run rb compress_in_place 485 s).mem q = s.mem q) ∧
    ∀ k : Nat, k < 112 → (run rb compress_in_place 485 s).mem (frameBase s + UInt64.ofNat k) = (savedBytes s).getD k 0 := by
  obtain ⟨_, _, h3, _⟩ := compress_in_place_correct rb s h
  rw [h3]
  refine ⟨readWords_writeBytes _ _ _, ?_, ?_⟩
  · intro q hq hf
    rw [writeBytes_frame _ _ _ _ (by rw [bytesOfWords8_length]; exact hq)]
    exact writeBytes_frame _ _ _ _ (by rw [savedBytes_length]; exact hf)
  · intro k hk
    have := writeBytes_apart (frameMem s) s.gpr[rcx] (bytesOfWords (first8 (Spec.compress (readWords s.mem s.gpr[rcx] 8)
      (readWords s.mem s.gpr[rdx] 16) s.gpr[r9] s.gpr[r8].toUInt8.toUInt32 (flagsArg s).toUInt32))) (frameBase s) 112
      (by rw [bytesOfWords8_length]; exact h.frame_cv.symm) k hk
    rw [this]
    exact frameMem_holds s k (by rw [savedBytes_length]; exact hk)

/-- more fuel changes nothing: the routine has returned -/
theorem compress_in_place_fuel (rb : UInt64) (s : State) (h : Entry rb s) (n : Nat) :
    run rb compress_in_place (485 + n) s = run rb compress_in_place 485 s := by
  rw [run_add]
  exact run_returned _ _ _ _ (compress_in_place_correct rb s h).1

/-! the hypotheses are satisfiable: a concrete entry state (tables at 0x30040, cv at 0x10008, block at 0x20001,
`rsp = 0x7fff0008`, so the frame is `[0x7ffeff90, 0x7fff0000)`, `flags = 11` in the slot at 0x7fff0030, `out` = 0x40004 in the
slot at 0x7fff0038, garbage above `block_len = 64` in r8) -/

def exampleState : State :=
  { xmm := Vector.replicate 16 #v[0xDEADBEEF, 1, 2, 3]
    gpr := #v[0x1111111111111111, 0x10008, 0x20001, 3, 0x7fff0008, 5, 6, 7, 0xA5C3A5C3A5C3A540, 9, 10, 11, 12, 13, 14, 15]
    zf := true
    mem := writeBytes (writeBytes (writeBytes (fun _ => 0x5A) 0x30040 rodata) 0x7fff0030 [11]) 0x7fff0038 [0x04, 0x00, 0x04, 0, 0, 0, 0, 0]
    pc := 0, status := .running, ok := true }

set_option maxRecDepth 8000 in
theorem exampleState_entry : EntryXof 0x30040 exampleState :=
  { pc := rfl, running := rfl, ok := rfl
    rodata := ⟨by decide, by
      intro i hi
      show writeBytes (writeBytes (writeBytes (fun _ => 0x5A) 0x30040 rodata) 0x7fff0030 [11]) 0x7fff0038 _ _ = _
      have hi' : i < 192 := hi
      rw [writeBytes_frame, writeBytes_frame]
      · exact holdsAt_writeBytes _ _ _ (by decide) i hi
      · show 1 ≤ _
        rw [UInt64.toNat_sub, UInt64.toNat_add, UInt64.toNat_ofNat']
        have a : (0x30040 : UInt64).toNat = 0x30040 := rfl
        have b : (0x7fff0030 : UInt64).toNat = 0x7fff0030 := rfl
        rw [a, b]; omega
      · show 8 ≤ _
        rw [UInt64.toNat_sub, UInt64.toNat_add, UInt64.toNat_ofNat']
        have a : (0x30040 : UInt64).toNat = 0x30040 := rfl
        have b : (0x7fff0038 : UInt64).toNat = 0x7fff0038 := rfl
        rw [a, b]; omega⟩
    rsp_aligned := by decide
    frame_rodata := by decide
    frame_cv := by decide
    frame_block := by decide
    frame_out := by decide }

example : flagsArg exampleState = 11 ∧ outArg exampleState = 0x40004 ∧ exampleState.gpr[r8].toUInt8 = 64 := by decide

end B3.AsmSem.Win.MsvcSse41
