/-
A machine semantics for the part of x86-64 (general purpose + SSE2) that the hand written assembly
routine `blake3_hash_many_sse2` (c/blake3_sse2_x86-64_unix.S) uses.

THIS FILE IS TRUSTED: it is the statement of what the instructions do.  It is the text of
`B3/Asm/ManySem.lean` (the semantics for `blake3_hash_many_sse41`; read its header for the
conventions: state, flags, flat little-endian memory with wrapping addresses, sticky fault flag,
alignment faults, `pc` = index into the instruction list, one semantics `execG` written over a record
of memory access functions whose instance at the flat byte memory is THE semantics `exec`), copied
into its own namespace -- the types `Operand`, `Mn`, `MemAcc` of that file are closed and its
definitions are left as they are -- WITH THESE ADDITIONS, each marked `(SSE2 routine)` below:

* operand form `.memS sz base index scale disp` = `<size> ptr [base + scale*index + disp]`
  (`mov r10d, dword ptr [rsp+0x110+8*rax]`); effective address `gpr[base] + scale * gpr[index] + disp`
  (mod 2^64);
* `pshuflw` / `pshufhw xmm1, xmm2/m128, imm8` (lane functions `pshuflw`, `pshufhw` of `B3/Asm/Sse.lean`,
  which the single-block SSE2 routines already use);
* `movq xmm, r64`: `DEST[63:0] := SRC; DEST[127:64] := 0` (as in `B3/Asm/Sse.lean`);
* `mov m32, r32`: a general purpose 4-byte store (`store32` below);
* the memory access record has two more fields: `st32` (4-byte store) and `ld32s` (4-byte load through a
  scaled-index operand; it is also given the value of the index register); at the flat memory they are
  `store32 m a v` and `m.word a`.
The SSE4.1-only mnemonics `pshufb pblendw pinsrd blendvps` are kept (the SSE2 routine does not contain them
and the translator `gen/ext_asm_many2.py` refuses them).

The model is validated at run time by `RunMany2.lean`: this `exec`, evaluated on random inputs, is
compared with the real routine running on the CPU (`cdriver`, `CK hmany sse2_asm ...`).
-/
import B3.Asm.Sse
namespace B3.AsmSem.Many2
open B3 B3.Simd

/-! ### instruction syntax (the generated file is data of these types) -/

/-- declared size of a memory operand (`byte ptr`, `dword ptr`, `qword ptr`, `xmmword ptr`, or none) -/
inductive Size where
  | byte | dword | qword | xmmword | unsized
deriving DecidableEq, Repr

inductive Operand where
  | xmm (n : Fin 16)
  | gpr (r : Reg) (w : Width)
  /-- `<size> ptr [base + index + disp]` (index optional, scale 1, `disp` signed) -/
  | mem (sz : Size) (base : Reg) (idx : Option Reg) (disp : Int)
  /-- (SSE2 routine) `<size> ptr [base + scale*index + disp]` (`disp` signed) -/
  | memS (sz : Size) (base : Reg) (idx : Reg) (scale : Nat) (disp : Int)
  /-- `<size> ptr [label + rip]`: `off` = offset of `label` from the start of the translated `.rodata` section -/
  | rip (sz : Size) (off : Nat)
  /-- immediate, as the bit pattern of the operand width (`and rsp, 0xFFFFFFFFFFFFFFC0`) -/
  | imm (v : Nat)
  /-- jump target: index into the instruction list -/
  | target (idx : Nat)
deriving DecidableEq, Repr

inductive Mn where
  | endbr64 | prefetcht0
  | movups | movdqu | movaps | movdqa | movd | pinsrd | movq
  | paddd | psubd | pxor | por | pand | pcmpgtd
  | pshufb | pslld | psrld
  | pshufd | shufps | pblendw | blendvps | pshuflw | pshufhw
  | punpckldq | punpckhdq | punpcklqdq | punpckhqdq
  | push | pop | mov | movzx | cmovne
  | add | sub | and | or | xor | cmp | test | neg | dec | shl | shr
  | jz | jnz | jc | jnc | jmp | ret
deriving DecidableEq, Repr

structure Instr where
  mn : Mn
  ops : List Operand
deriving DecidableEq, Repr

/-- shorthand used by the generated instruction list -/
abbrev I := Instr.mk

/-! ### machine state (`μ` = the memory; `Memory` for THE semantics) -/

structure StateG (μ : Type) where
  xmm : Vector V4 16
  gpr : Vector UInt64 16
  zf : Bool
  cf : Bool
  mem : μ
  pc : Nat
  status : Status
  ok : Bool

abbrev State := StateG Memory

/-! ### memory access -/

/-- the quadword at address `a` (little-endian) -/
def load64 (m : Memory) (a : UInt64) : UInt64 := (m.word a).toUInt64 ||| ((m.word (a + 4)).toUInt64 <<< 32)

/-- `MEM[a+7 : a] := v`: the 8 addresses `a .. a+7` (mod 2^64) get the bytes of `v`, lowest first -/
def store64 (m : Memory) (a : UInt64) (v : UInt64) : Memory :=
  fun p => if p - a < 8 then (v >>> (8 * (p - a))).toUInt8 else m p

/-- (SSE2 routine) `MEM[a+3 : a] := v`: the 4 addresses `a .. a+3` (mod 2^64) get the bytes of `v`, lowest first -/
def store32 (m : Memory) (a : UInt64) (v : UInt32) : Memory :=
  fun p => if p - a < 4 then byteOf v (p - a).toNat else m p

/-- the memory access functions the instruction semantics uses; `o` is the operand as written (syntax), `a` its
effective address.  THE semantics uses `flat` below. -/
structure MemAcc (μ : Type) where
  ld8 : μ → Operand → UInt64 → UInt8
  ld32 : μ → Operand → UInt64 → UInt32
  /-- (SSE2 routine) 4-byte load through a scaled-index operand: operand, value of the index register, effective address -/
  ld32s : μ → Operand → UInt64 → UInt64 → UInt32
  ld64 : μ → Operand → UInt64 → UInt64
  ld128 : μ → Operand → UInt64 → V4
  /-- (SSE2 routine) -/
  st32 : μ → Operand → UInt64 → UInt32 → μ
  st64 : μ → Operand → UInt64 → UInt64 → μ
  st128 : μ → Operand → UInt64 → V4 → μ
  /-- is the 16-byte operand at `a` aligned -/
  al16 : Operand → UInt64 → Bool

/-- the flat byte memory -/
def flat : MemAcc Memory where
  ld8 m _ a := m a
  ld32 m _ a := m.word a
  ld32s m _ _ a := m.word a
  ld64 m _ a := load64 m a
  ld128 m _ a := load128 m a
  st32 m _ a v := store32 m a v
  st64 m _ a v := store64 m a v
  st128 m _ a v := store128 m a v
  al16 _ a := aligned16 a

/-- a signed displacement as a 64-bit quantity (two's complement) -/
def dispU : Int → UInt64
  | .ofNat n => UInt64.ofNat n
  | .negSucc n => 0 - UInt64.ofNat (n + 1)

/-- effective address of a memory operand (`rb` = run-time address of the start of the translated `.rodata`) -/
def ea (rb : UInt64) (g : Vector UInt64 16) : Operand → Option UInt64
  | .mem _ b none d => some (g[b] + dispU d)
  | .mem _ b (some i) d => some (g[b] + g[i] + dispU d)
  | .memS _ b i sc d => some (g[b] + UInt64.ofNat sc * g[i] + dispU d)
  | .rip _ off => some (rb + UInt64.ofNat off)
  | _ => none

/-- declared size of a memory operand -/
def Operand.size : Operand → Option Size
  | .mem sz _ _ _ => some sz
  | .memS sz _ _ _ _ => some sz
  | .rip sz _ => some sz
  | _ => none

/-! ### 128-bit operations not already in `Simd/Prim.lean` / `Asm/Sse.lean` -/

/-- a doubleword as a signed integer (two's complement) -/
def sint (x : UInt32) : Int := if x.toNat < 2 ^ 31 then (x.toNat : Int) else (x.toNat : Int) - 2 ^ 32

/-- PSUBD: `DEST[31:0] := DEST[31:0] - SRC[31:0]; (* repeat for 2nd through 4th doubleword *)` -/
def psubd (a b : V4) : V4 := #v[a[0] - b[0], a[1] - b[1], a[2] - b[2], a[3] - b[3]]

/-- `IF a > b (signed) THEN FFFFFFFFH ELSE 0` -/
def gts32 (a b : UInt32) : UInt32 := if sint b < sint a then 0xFFFFFFFF else 0

/-- PCMPGTD: `IF DEST[31:0] > SRC[31:0] THEN DEST[31:0] := FFFFFFFFH ELSE DEST[31:0] := 0; (* 2nd-4th; signed compare *)` -/
def pcmpgtd (a b : V4) : V4 := #v[gts32 a[0] b[0], gts32 a[1] b[1], gts32 a[2] b[2], gts32 a[3] b[3]]

/-- BLENDVPS xmm1, xmm2/m128, <XMM0>: `MASK := XMM0; IF (MASK[31] = 0) THEN DEST[31:0] := DEST[31:0]
ELSE DEST[31:0] := SRC[31:0]; (* likewise for bits 63, 95, 127 *)` -/
def blendvps (mask a b : V4) : V4 :=
  #v[if mask[0] >>> 31 == 1 then b[0] else a[0], if mask[1] >>> 31 == 1 then b[1] else a[1],
     if mask[2] >>> 31 == 1 then b[2] else a[2], if mask[3] >>> 31 == 1 then b[3] else a[3]]

/-- PINSRD xmm1, r/m32, imm8: `SEL := imm8[1:0]; DEST[32*SEL+31 : 32*SEL] := SRC; the rest of DEST unchanged` -/
def pinsrd (a : V4) (v : UInt32) (imm : Nat) : V4 :=
  match imm % 4 with
  | 0 => #v[v, a[1], a[2], a[3]]
  | 1 => #v[a[0], v, a[2], a[3]]
  | 2 => #v[a[0], a[1], v, a[3]]
  | _ => #v[a[0], a[1], a[2], v]

/-! ### state helpers -/

variable {μ : Type}

def StateG.next (s : StateG μ) : StateG μ := { s with pc := s.pc + 1 }
def StateG.fault (s : StateG μ) : StateG μ := { s with ok := false, pc := s.pc + 1 }
def StateG.setXmm (s : StateG μ) (d : Fin 16) (v : V4) : StateG μ := { s with xmm := s.xmm.set d v }
def StateG.readGpr (s : StateG μ) (r : Reg) (w : Width) : UInt64 := trunc w s.gpr[r]
/-- 64-bit: replaced; 32-bit: zero-extended; 8-bit: bits 63:8 kept (`merge` of `Sse.lean`) -/
def StateG.writeGpr (s : StateG μ) (r : Reg) (w : Width) (v : UInt64) : StateG μ :=
  { s with gpr := s.gpr.set r (merge w s.gpr[r] v) }

/-- the declared size that a general purpose operand of width `w` needs in a memory operand -/
def sizeOfWidth : Width → Size
  | .b8 => .byte
  | .d32 => .dword
  | .q64 => .qword

/-! ### reading operands -/

/-- a 16-byte memory operand: its value and whether its address is 16-byte aligned -/
def ldV (A : MemAcc μ) (rb : UInt64) (s : StateG μ) (o : Operand) : Option (V4 × Bool) :=
  if o.size = some .xmmword then
    match ea rb s.gpr o with
    | some a => some (A.ld128 s.mem o a, A.al16 o a)
    | none => none
  else none

/-- a 128-bit source operand: an XMM register (counts as aligned) or a 16-byte memory operand -/
def rdV (A : MemAcc μ) (rb : UInt64) (s : StateG μ) (o : Operand) : Option (V4 × Bool) :=
  match o with
  | .xmm r => some (s.xmm[r], true)
  | _ => ldV A rb s o

/-- (SSE2 routine) a 4-byte load at the effective address `a` of operand `o`; through a scaled-index operand the access
function is also given the value of the index register (at the flat memory both are `m.word a`) -/
def ld32o (A : MemAcc μ) (s : StateG μ) (o : Operand) (a : UInt64) : UInt32 :=
  match o with
  | .memS _ _ i _ _ => A.ld32s s.mem o s.gpr[i] a
  | _ => A.ld32 s.mem o a

/-- a memory operand of the size that goes with width `w`, zero-extended to 64 bits -/
def ldG (A : MemAcc μ) (rb : UInt64) (s : StateG μ) (w : Width) (o : Operand) : Option UInt64 :=
  if o.size = some (sizeOfWidth w) then
    match ea rb s.gpr o with
    | some a =>
      some (match w with
        | .b8 => (A.ld8 s.mem o a).toUInt64
        | .d32 => (ld32o A s o a).toUInt64
        | .q64 => A.ld64 s.mem o a)
    | none => none
  else none

/-- a 4-byte memory operand -/
def ldD (A : MemAcc μ) (rb : UInt64) (s : StateG μ) (o : Operand) : Option UInt32 :=
  if o.size = some .dword then
    match ea rb s.gpr o with
    | some a => some (ld32o A s o a)
    | none => none
  else none

/-- a 32-bit source operand of an SSE instruction: a 32-bit register or a 4-byte memory operand -/
def rd32 (A : MemAcc μ) (rb : UInt64) (s : StateG μ) (o : Operand) : Option UInt32 :=
  match o with
  | .gpr r .d32 => some s.gpr[r].toUInt32
  | _ => ldD A rb s o

/-- a general purpose source operand of width `w`: a register of that width, an immediate (its low `w` bits),
or a memory operand of that size; zero-extended to 64 bits -/
def rdG (A : MemAcc μ) (rb : UInt64) (s : StateG μ) (w : Width) (o : Operand) : Option UInt64 :=
  match o with
  | .gpr r w' => if w' = w then some (s.readGpr r w) else none
  | .imm k => some (trunc w (UInt64.ofNat k))
  | _ => ldG A rb s w o

/-! ### instruction classes -/

/-- `xmm1 := f xmm1 (xmm2/m128)`; an `m128` source must be 16-byte aligned (legacy SSE encoding) -/
def vbin (A : MemAcc μ) (rb : UInt64) (f : V4 → V4 → V4) (ops : List Operand) (s : StateG μ) : StateG μ :=
  match ops with
  | [.xmm d, o] =>
    match rdV A rb s o with
    | some (v, al) => ({ s with ok := s.ok && al }.setXmm d (f s.xmm[d] v)).next
    | none => s.fault
  | _ => s.fault

/-- `xmm1 := f xmm1 (xmm2/m128) imm8`, same alignment rule -/
def vbinImm (A : MemAcc μ) (rb : UInt64) (f : V4 → V4 → Nat → V4) (ops : List Operand) (s : StateG μ) : StateG μ :=
  match ops with
  | [.xmm d, o, .imm k] =>
    match rdV A rb s o with
    | some (v, al) => ({ s with ok := s.ok && al }.setXmm d (f s.xmm[d] v k)).next
    | none => s.fault
  | _ => s.fault

/-- `xmm1 := f xmm1 imm8` -/
def vImm (f : V4 → Nat → V4) (ops : List Operand) (s : StateG μ) : StateG μ :=
  match ops with
  | [.xmm d, .imm k] => (s.setXmm d (f s.xmm[d] k)).next
  | _ => s.fault

/-- MOVUPS/MOVDQU (`al = false`) and MOVAPS/MOVDQA (`al = true`): `DEST[127:0] := SRC[127:0]`,
register-register, load or store; the aligned forms #GP on a misaligned memory operand -/
def mov128 (A : MemAcc μ) (rb : UInt64) (al : Bool) (ops : List Operand) (s : StateG μ) : StateG μ :=
  match ops with
  | [.xmm d, o] =>
    match rdV A rb s o with
    | some (v, a16) => ({ s with ok := s.ok && (!al || a16) }.setXmm d v).next
    | none => s.fault
  | [o, .xmm r] =>
    if o.size = some .xmmword then
      match ea rb s.gpr o with
      | some a => { s with ok := s.ok && (!al || A.al16 o a), mem := A.st128 s.mem o a s.xmm[r] }.next
      | none => s.fault
    else s.fault
  | _ => s.fault

/-- a two-operand general purpose instruction `op r, r/imm/m` of the width of its first operand:
`f w dest src = (result, CF)`; ZF reflects the result; the result is written iff `wr` (`cmp`, `test` do not) -/
def gbin (A : MemAcc μ) (rb : UInt64) (f : Width → UInt64 → UInt64 → UInt64 × Bool) (wr : Bool)
    (ops : List Operand) (s : StateG μ) : StateG μ :=
  match ops with
  | [.gpr d w, o] =>
    match rdG A rb s w o with
    | some b =>
      let r := f w (s.readGpr d w) b
      { (if wr then s.writeGpr d w r.1 else s) with zf := r.1 == 0, cf := r.2 }.next
    | none => s.fault
  | _ => s.fault

/-- ADD: `DEST := DEST + SRC`; CF = carry out of the top bit (the truncated sum is below an operand) -/
def aluAdd (w : Width) (a b : UInt64) : UInt64 × Bool := (trunc w (a + b), decide (trunc w (a + b) < a))
/-- SUB / CMP: `DEST := DEST - SRC` / `temp := SRC1 - SRC2`; CF = borrow (DEST below SRC, unsigned) -/
def aluSub (w : Width) (a b : UInt64) : UInt64 × Bool := (trunc w (a - b), decide (a < b))
/-- AND / TEST, OR, XOR: bitwise; `CF := 0` -/
def aluAnd (_ : Width) (a b : UInt64) : UInt64 × Bool := (a &&& b, false)
def aluOr (_ : Width) (a b : UInt64) : UInt64 × Bool := (a ||| b, false)
def aluXor (_ : Width) (a b : UInt64) : UInt64 × Bool := (a ^^^ b, false)

/-- `IF cond THEN pc := target` -/
def jcc (cond : Bool) (ops : List Operand) (s : StateG μ) : StateG μ :=
  match ops with
  | [.target t] => if cond then { s with pc := t } else s.next
  | _ => s.fault

/-! ### execution of one instruction -/

/-- one instruction, over the memory access functions `A` (`rb` = run-time address of the start of the
translated `.rodata` section).  Operands of the arithmetic below are already truncated to the operand width. -/
def execG (A : MemAcc μ) (rb : UInt64) (i : Instr) (s : StateG μ) : StateG μ :=
  match i.mn with
  /- ENDBR64: a NOP outside of indirect-branch tracking -/
  | .endbr64 => (match i.ops with | [] => s.next | _ => s.fault)
  /- PREFETCHT0 m8: a hint; no architectural state changes, never faults -/
  | .prefetcht0 => (match i.ops with | [.mem _ _ _ _] => s.next | _ => s.fault)
  | .movups | .movdqu => mov128 A rb false i.ops s
  | .movaps | .movdqa => mov128 A rb true i.ops s
  /- MOVD xmm, r/m32: `DEST[31:0] := SRC; DEST[127:32] := 0` -/
  | .movd =>
    (match i.ops with
     | [.xmm d, o] =>
       (match rd32 A rb s o with
        | some v => (s.setXmm d #v[v, 0, 0, 0]).next
        | none => s.fault)
     | _ => s.fault)
  /- (SSE2 routine) MOVQ xmm, r64: `DEST[63:0] := SRC[63:0]; DEST[127:64] := 0` -/
  | .movq =>
    (match i.ops with
     | [.xmm d, .gpr r .q64] =>
       (s.setXmm d #v[s.gpr[r].toUInt32, (s.gpr[r] >>> 32).toUInt32, 0, 0]).next
     | _ => s.fault)
  /- PINSRD xmm1, r/m32, imm8 -/
  | .pinsrd =>
    (match i.ops with
     | [.xmm d, o, .imm k] =>
       (match rd32 A rb s o with
        | some v => (s.setXmm d (pinsrd s.xmm[d] v k)).next
        | none => s.fault)
     | _ => s.fault)
  /- PADDD: `DEST[31:0] := DEST[31:0] + SRC[31:0]; (* repeat for 2nd through 4th doubleword *)` -/
  | .paddd => vbin A rb _mm_add_epi32 i.ops s
  | .psubd => vbin A rb psubd i.ops s
  /- PXOR / POR / PAND: `DEST := DEST XOR / OR / AND SRC` -/
  | .pxor => vbin A rb _mm_xor_si128 i.ops s
  | .por => vbin A rb _mm_or_si128 i.ops s
  | .pand => vbin A rb pand i.ops s
  | .pcmpgtd => vbin A rb pcmpgtd i.ops s
  /- PSHUFB: see `pshufb` in `Sse.lean` -/
  | .pshufb => vbin A rb pshufb i.ops s
  /- PSLLD / PSRLD xmm1, imm8: `IF COUNT > 31 THEN DEST := 0 ELSE DEST[31:0] := ZeroExtend(DEST[31:0] << / >> COUNT); (* 2nd-4th *)` -/
  | .pslld => vImm _mm_slli_epi32 i.ops s
  | .psrld => vImm _mm_srli_epi32 i.ops s
  /- PSHUFD xmm1, xmm2/m128, imm8: `DEST[31:0] := (SRC >> (ORDER[1:0] * 32))[31:0]; DEST[63:32] := (SRC >> (ORDER[3:2] * 32))[31:0];
     DEST[95:64] := (SRC >> (ORDER[5:4] * 32))[31:0]; DEST[127:96] := (SRC >> (ORDER[7:6] * 32))[31:0]` -/
  | .pshufd => vbinImm A rb (fun _ src k => _mm_shuffle_epi32 src k) i.ops s
  /- SHUFPS xmm1, xmm2/m128, imm8: `DEST[31:0] := Select4(SRC1, imm8[1:0]); DEST[63:32] := Select4(SRC1, imm8[3:2]);
     DEST[95:64] := Select4(SRC2, imm8[5:4]); DEST[127:96] := Select4(SRC2, imm8[7:6])` (SRC1 = old DEST) -/
  | .shufps => vbinImm A rb _mm_shuffle_ps i.ops s
  /- PBLENDW xmm1, xmm2/m128, imm8: `IF (imm8[j] = 1) THEN DEST[16j+15:16j] := SRC[16j+15:16j] ELSE unchanged`, j = 0..7 -/
  | .pblendw => vbinImm A rb _mm_blend_epi16 i.ops s
  /- (SSE2 routine) PSHUFLW / PSHUFHW xmm1, xmm2/m128, imm8: see `pshuflw`, `pshufhw` in `Sse.lean` -/
  | .pshuflw => vbinImm A rb (fun _ src k => pshuflw src k) i.ops s
  | .pshufhw => vbinImm A rb (fun _ src k => pshufhw src k) i.ops s
  /- BLENDVPS xmm1, xmm2/m128, <XMM0> (the mask register is implicit) -/
  | .blendvps => vbin A rb (blendvps s.xmm[(0 : Fin 16)]) i.ops s
  /- PUNPCKLDQ: `DEST[31:0] := DEST[31:0]; DEST[63:32] := SRC[31:0]; DEST[95:64] := DEST[63:32]; DEST[127:96] := SRC[63:32]` -/
  | .punpckldq => vbin A rb _mm_unpacklo_epi32 i.ops s
  /- PUNPCKHDQ: `DEST[31:0] := DEST[95:64]; DEST[63:32] := SRC[95:64]; DEST[95:64] := DEST[127:96]; DEST[127:96] := SRC[127:96]` -/
  | .punpckhdq => vbin A rb _mm_unpackhi_epi32 i.ops s
  /- PUNPCKLQDQ: `DEST[63:0] := DEST[63:0]; DEST[127:64] := SRC[63:0]` -/
  | .punpcklqdq => vbin A rb _mm_unpacklo_epi64 i.ops s
  /- PUNPCKHQDQ: `DEST[63:0] := DEST[127:64]; DEST[127:64] := SRC[127:64]` -/
  | .punpckhqdq => vbin A rb _mm_unpackhi_epi64 i.ops s
  /- PUSH r64: `RSP := RSP - 8; Memory[RSP] := SRC` (the value of the register before the instruction) -/
  | .push =>
    (match i.ops with
     | [.gpr r .q64] =>
       let sp := s.gpr[rsp] - 8
       { s with gpr := s.gpr.set rsp sp, mem := A.st64 s.mem (.mem .qword rsp none (-8)) sp s.gpr[r] }.next
     | _ => s.fault)
  /- POP r64: `DEST := Memory[RSP]; RSP := RSP + 8` (for `pop rsp` the loaded value wins) -/
  | .pop =>
    (match i.ops with
     | [.gpr r .q64] =>
       let v := A.ld64 s.mem (.mem .qword rsp none 0) s.gpr[rsp]
       { s with gpr := (s.gpr.set rsp (s.gpr[rsp] + 8)).set r v }.next
     | _ => s.fault)
  /- MOV r, r/imm/m: `DEST := SRC`; no flags.
     (SSE2 routine) MOV m32, r32: `DEST := SRC` (the low half of the register), the memory operand declared `dword ptr` -/
  | .mov =>
    (match i.ops with
     | [.gpr d w, o] =>
       (match rdG A rb s w o with
        | some v => (s.writeGpr d w v).next
        | none => s.fault)
     | [o, .gpr r .d32] =>
       if o.size = some .dword then
         match ea rb s.gpr o with
         | some a => { s with mem := A.st32 s.mem o a s.gpr[r].toUInt32 }.next
         | none => s.fault
       else s.fault
     | _ => s.fault)
  /- MOVZX r32, r/m8: `DEST := ZeroExtend(SRC)`; no flags -/
  | .movzx =>
    (match i.ops with
     | [.gpr d .d32, o] =>
       (match rdG A rb s .b8 o with
        | some v => (s.writeGpr d .d32 v).next
        | none => s.fault)
     | _ => s.fault)
  /- CMOVNE r, r (same width): `temp := SRC; IF ZF = 0 THEN DEST := temp ELSE DEST := DEST`; with a 32-bit operand
     size bits 63:32 of the destination register are cleared in both cases; no flags -/
  | .cmovne =>
    (match i.ops with
     | [.gpr d w, .gpr r w'] =>
       if w = w' then (s.writeGpr d w (if s.zf then s.readGpr d w else s.readGpr r w)).next else s.fault
     | _ => s.fault)
  | .add => gbin A rb aluAdd true i.ops s
  | .sub => gbin A rb aluSub true i.ops s
  | .cmp => gbin A rb aluSub false i.ops s
  | .and => gbin A rb aluAnd true i.ops s
  | .test => gbin A rb aluAnd false i.ops s
  | .or => gbin A rb aluOr true i.ops s
  | .xor => gbin A rb aluXor true i.ops s
  /- NEG r: `IF DEST = 0 THEN CF := 0 ELSE CF := 1; DEST := 0 - DEST`; ZF reflects the result -/
  | .neg =>
    (match i.ops with
     | [.gpr d w] =>
       let a := s.readGpr d w
       let res := trunc w (0 - a)
       ({ s.writeGpr d w res with zf := res == 0, cf := a != 0 }).next
     | _ => s.fault)
  /- DEC r: `DEST := DEST - 1`; ZF reflects the result; CF is not affected -/
  | .dec =>
    (match i.ops with
     | [.gpr d w] =>
       let res := trunc w (s.readGpr d w - 1)
       ({ s.writeGpr d w res with zf := res == 0 }).next
     | _ => s.fault)
  /- SHL / SHR r, imm8 (32- and 64-bit operands only): `countMASK := (64-bit operand) ? 3FH : 1FH;
     tempCOUNT := COUNT AND countMASK; WHILE tempCOUNT ≠ 0: CF := MSB(DEST) / LSB(DEST); DEST := DEST * 2 / DEST div 2`;
     so CF = the last bit shifted out; flags unchanged if `tempCOUNT = 0`, else ZF reflects the result -/
  | .shl =>
    (match i.ops with
     | [.gpr d w, .imm k] =>
       if w = .b8 then s.fault else
       let c := if w = .q64 then k % 64 else k % 32
       let a := s.readGpr d w
       let res := trunc w (a <<< UInt64.ofNat c)
       if c = 0 then s.next else
       ({ s.writeGpr d w res with zf := res == 0, cf := (a >>> UInt64.ofNat (w.bits - c)) &&& 1 == 1 }).next
     | _ => s.fault)
  | .shr =>
    (match i.ops with
     | [.gpr d w, .imm k] =>
       if w = .b8 then s.fault else
       let c := if w = .q64 then k % 64 else k % 32
       let a := s.readGpr d w
       let res := a >>> UInt64.ofNat c
       if c = 0 then s.next else
       ({ s.writeGpr d w res with zf := res == 0, cf := (a >>> UInt64.ofNat (c - 1)) &&& 1 == 1 }).next
     | _ => s.fault)
  /- Jcc rel: JZ/JE `ZF = 1`, JNZ/JNE `ZF = 0`, JC/JB `CF = 1`, JNC/JAE `CF = 0`; JMP rel -/
  | .jz => jcc s.zf i.ops s
  | .jnz => jcc (!s.zf) i.ops s
  | .jc => jcc s.cf i.ops s
  | .jnc => jcc (!s.cf) i.ops s
  | .jmp => jcc true i.ops s
  /- RET (near): `RIP := Pop()`: end of the routine -/
  | .ret =>
    (match i.ops with
     | [] => { s with status := .returned, gpr := s.gpr.set rsp (s.gpr[rsp] + 8) }
     | _ => s.fault)

/-- fetch and execute; running off the instruction list is a fault -/
def stepG (A : MemAcc μ) (rb : UInt64) (prog : List Instr) (s : StateG μ) : StateG μ :=
  match s.status with
  | .returned => s
  | .running =>
    match prog[s.pc]? with
    | some i => execG A rb i s
    | none => { s with ok := false, status := .returned }

/-- `n` steps -/
def runG (A : MemAcc μ) (rb : UInt64) (prog : List Instr) : Nat → StateG μ → StateG μ
  | 0, s => s
  | n + 1, s => runG A rb prog n (stepG A rb prog s)

/-! ### THE semantics: the instance at the flat byte memory -/

def exec (rb : UInt64) (i : Instr) (s : State) : State := execG flat rb i s
def step (rb : UInt64) (prog : List Instr) (s : State) : State := stepG flat rb prog s
def run (rb : UInt64) (prog : List Instr) (n : Nat) (s : State) : State := runG flat rb prog n s

end B3.AsmSem.Many2
