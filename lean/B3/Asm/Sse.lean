/-
A machine semantics for the part of x86-64 (general purpose + SSE2/SSSE3/SSE4.1) that the hand
written assembly routines `blake3_compress_in_place_sse41/sse2`, `blake3_compress_xof_sse41/sse2`
(c/blake3_sse41_x86-64_unix.S, c/blake3_sse2_x86-64_unix.S) use.

THIS FILE IS TRUSTED: it is the statement of what the instructions do.  Every case carries the
pseudo-code of the Intel SDM (Vol. 2, "Operation" sections, non-VEX 128-bit legacy SSE forms) that
it transcribes.  Where an instruction is the same operation as an intrinsic already modelled in
`B3/Simd/Prim.lean` (also trusted, also SDM pseudo-code), that lane function is reused.  The model
is validated at run time by `RunAsm.lean` (this `exec`, evaluated on random inputs, is compared
with the real routine running on the CPU).

What is modelled
* 16 XMM registers, each a `V4` = four 32-bit lanes, lane 0 = bits 31:0.
* 16 general purpose registers as `UInt64`, numbered as in the instruction encoding
  (rax rcx rdx rbx rsp rbp rsi rdi r8..r15), with 8-bit (al, cl, dl, bl, spl.., r8b..), 32-bit and
  64-bit operand widths: a 64-bit write replaces the register, a 32-bit write zero-extends into
  bits 63:32, an 8-bit write leaves bits 63:8 unchanged (SDM Vol. 1, 3.4.1.1).
* ZF only, of RFLAGS: every modelled instruction that writes the arithmetic flags (`add`, `shl`,
  `dec`) sets `zf`; the only instruction that reads a flag is `jz`.  Instructions that read any
  other flag are not in the instruction set below.
* Memory: ONE flat byte memory `UInt64 → UInt8`; effective addresses wrap modulo 2^64; data is
  little-endian.  `[reg + disp]` is `gpr[reg] + disp`; `[label + rip]` is the run-time address of
  `label`, which is `rodataBase + (offset of the label in the translated .rodata section)`,
  `rodataBase` being a parameter of the semantics (chosen by the loader); the CONTENT of that
  section is NOT built into the semantics: the theorems assume that memory holds the section's
  bytes at `rodataBase` and that `rodataBase` has the section's alignment.
* Faults: a sticky flag `ok`.  A 16-byte memory operand of an instruction that requires alignment
  (`movaps`, `movdqa`, and every legacy-SSE computational instruction with an `m128` source) on an
  address that is not a multiple of 16 clears `ok` (#GP); so do operand shapes outside the
  modelled set and running off the end of the instruction list.  Execution continues after `ok`
  is cleared but nothing is claimed about such runs: every theorem proves `ok = true` at the end,
  and `ok` is never set again once cleared (`step_ok_mono`, `run_ok_mono` in B3/Asm/Lemmas.lean).
* Control: `pc` is an index into the routine's instruction list; jump operands are instruction
  indices (the translator resolves the GNU-as local labels `9b` / `9f`).  `ret` ends the routine
  (`status := returned`, `rsp += 8`); the return address itself is not modelled.

What is NOT modelled: page permissions/faults other than alignment, the other flags, MXCSR,
the upper halves of YMM/ZMM registers (legacy SSE leaves them unchanged), timing, `rip` itself.
-/
import B3.Simd.Prim
namespace B3.AsmSem
open B3 B3.Simd

/-! ### instruction syntax (the generated files are data of these types) -/

/-- operand width of a general purpose register operand -/
inductive Width where
  | b8   -- al cl dl bl spl bpl sil dil r8b..r15b (low byte; `ah` etc. are not modelled)
  | d32  -- eax .. r15d
  | q64  -- rax .. r15
deriving DecidableEq, Repr

/-- register number as in the instruction encoding -/
abbrev Reg := Fin 16
def rax : Reg := 0
def rcx : Reg := 1
def rdx : Reg := 2
def rbx : Reg := 3
def rsp : Reg := 4
def rbp : Reg := 5
def rsi : Reg := 6
def rdi : Reg := 7
def r8 : Reg := 8
def r9 : Reg := 9
def r10 : Reg := 10
def r11 : Reg := 11
def r12 : Reg := 12
def r13 : Reg := 13
def r14 : Reg := 14
def r15 : Reg := 15

inductive Operand where
  | xmm (n : Fin 16)
  | gpr (r : Reg) (w : Width)
  /-- `[base + disp]`, `disp ≥ 0` -/
  | mem (base : Reg) (disp : Nat)
  /-- `[label + rip]`: `off` = offset of `label` from the start of the translated `.rodata` section -/
  | rip (off : Nat)
  | imm (v : Nat)
  /-- jump target: index into the instruction list -/
  | target (idx : Nat)
deriving DecidableEq, Repr

inductive Mn where
  | endbr64
  | movups | movdqu | movaps | movdqa | movq
  | paddd | pxor | por | pand
  | pshufb | pslld | psrld
  | pshufd | pshuflw | pshufhw | shufps | pblendw
  | punpcklqdq | punpckldq | punpckhdq
  | mov | movzx | shl | add | dec
  | jz | jmp | ret
deriving DecidableEq, Repr

structure Instr where
  mn : Mn
  ops : List Operand
deriving DecidableEq, Repr

/-- shorthand used by the generated instruction lists -/
abbrev I := Instr.mk

/-! ### machine state -/

inductive Status where
  | running
  | returned
deriving DecidableEq, Repr

abbrev Memory := UInt64 → UInt8

structure State where
  xmm : Vector V4 16
  gpr : Vector UInt64 16
  zf : Bool
  mem : Memory
  pc : Nat
  status : Status
  ok : Bool

/-! ### memory access (little-endian, addresses wrap) -/

/-- the doubleword at address `a` -/
def Memory.word (m : Memory) (a : UInt64) : UInt32 := le32 (m a) (m (a + 1)) (m (a + 2)) (m (a + 3))

/-- `DEST[127:0] := MEM[a+15 : a]` -/
def load128 (m : Memory) (a : UInt64) : V4 := #v[m.word a, m.word (a + 4), m.word (a + 8), m.word (a + 12)]

/-- byte `k` (0..15, 0 = bits 7:0) of a 128-bit value; 0 for `k ≥ 16` -/
def byte128 (v : V4) (k : Nat) : UInt8 :=
  match k / 4 with
  | 0 => byteOf v[0] (k % 4)
  | 1 => byteOf v[1] (k % 4)
  | 2 => byteOf v[2] (k % 4)
  | 3 => byteOf v[3] (k % 4)
  | _ => 0

/-- `MEM[a+15 : a] := v[127:0]`: the 16 addresses `a, a+1, .., a+15` (mod 2^64) get the bytes of `v` -/
def store128 (m : Memory) (a : UInt64) (v : V4) : Memory :=
  fun p => if p - a < 16 then byte128 v (p - a).toNat else m p

/-- 16-byte alignment (`movaps`/`movdqa` and legacy-SSE `m128` source operands: #GP otherwise) -/
def aligned16 (a : UInt64) : Bool := a % 16 == 0

/-! ### 128-bit operations not already in `Simd/Prim.lean` -/

/-- build a 128-bit value from its 16 bytes -/
def ofBytes128 (f : Nat → UInt8) : V4 :=
  #v[le32 (f 0) (f 1) (f 2) (f 3), le32 (f 4) (f 5) (f 6) (f 7),
     le32 (f 8) (f 9) (f 10) (f 11), le32 (f 12) (f 13) (f 14) (f 15)]

/-- PSHUFB xmm1, xmm2/m128 (SSSE3):
```
for i = 0 to 15 {
  if (SRC2[(i * 8)+7] = 1) then DEST[(i*8)+7..(i*8)+0] := 0;
  else index[3..0] := SRC2[(i*8)+3 .. (i*8)+0];
       DEST[(i*8)+7..(i*8)+0] := SRC1[(index*8+7)..(index*8+0)];
}
``` (SRC1 = the old DEST) -/
def pshufb (dst src : V4) : V4 :=
  ofBytes128 fun i =>
    let c := byte128 src i
    if c &&& 0x80 != 0 then 0 else byte128 dst (c &&& 0x0F).toNat

/-- 16-bit word `k` (0 = low) of a doubleword -/
def half (x : UInt32) (k : Nat) : UInt32 := if k % 2 = 0 then x &&& 0xFFFF else x >>> 16

/-- `SRC[63:0] >> (sel * 16)` `[15:0]` for the 64-bit quantity `hi:lo` -/
def word64 (lo hi : UInt32) (sel : Nat) : UInt32 :=
  match sel &&& 3 with
  | 0 => half lo 0
  | 1 => half lo 1
  | 2 => half hi 0
  | _ => half hi 1

/-- a doubleword from two 16-bit words (each `< 2^16`) -/
def mk32 (lo hi : UInt32) : UInt32 := lo ||| (hi <<< 16)

/-- PSHUFLW xmm1, xmm2/m128, imm8:
```
DEST[15:0] := (SRC >> (imm[1:0] * 16))[15:0]
DEST[31:16] := (SRC >> (imm[3:2] * 16))[15:0]
DEST[47:32] := (SRC >> (imm[5:4] * 16))[15:0]
DEST[63:48] := (SRC >> (imm[7:6] * 16))[15:0]
DEST[127:64] := SRC[127:64]
``` -/
def pshuflw (src : V4) (imm : Nat) : V4 :=
  #v[mk32 (word64 src[0] src[1] imm) (word64 src[0] src[1] (imm >>> 2)),
     mk32 (word64 src[0] src[1] (imm >>> 4)) (word64 src[0] src[1] (imm >>> 6)),
     src[2], src[3]]

/-- PSHUFHW xmm1, xmm2/m128, imm8:
```
DEST[63:0] := SRC[63:0]
DEST[79:64] := (SRC >> (imm[1:0] * 16))[79:64]
DEST[95:80] := (SRC >> (imm[3:2] * 16))[79:64]
DEST[111:96] := (SRC >> (imm[5:4] * 16))[79:64]
DEST[127:112] := (SRC >> (imm[7:6] * 16))[79:64]
``` -/
def pshufhw (src : V4) (imm : Nat) : V4 :=
  #v[src[0], src[1],
     mk32 (word64 src[2] src[3] imm) (word64 src[2] src[3] (imm >>> 2)),
     mk32 (word64 src[2] src[3] (imm >>> 4)) (word64 src[2] src[3] (imm >>> 6))]

/-- `DEST[127:0] := (DEST[127:0] AND SRC[127:0])` -/
def pand (a b : V4) : V4 := #v[a[0] &&& b[0], a[1] &&& b[1], a[2] &&& b[2], a[3] &&& b[3]]

/-! ### general purpose registers -/

/-- the low `w` bits, zero-extended -/
def trunc (w : Width) (v : UInt64) : UInt64 :=
  match w with
  | .b8 => v.toUInt8.toUInt64
  | .d32 => v.toUInt32.toUInt64
  | .q64 => v

def State.readGpr (s : State) (r : Reg) (w : Width) : UInt64 := trunc w s.gpr[r]

/-- new content of a 64-bit register whose `w`-wide part is written with `v`:
64-bit: replaced; 32-bit: zero-extended; 8-bit: bits 63:8 kept (SDM Vol. 1, 3.4.1.1) -/
def merge (w : Width) (old v : UInt64) : UInt64 :=
  match w with
  | .b8 => (old &&& 0xFFFFFFFFFFFFFF00) ||| trunc .b8 v
  | .d32 => trunc .d32 v
  | .q64 => v

def State.writeGpr (s : State) (r : Reg) (w : Width) (v : UInt64) : State :=
  { s with gpr := s.gpr.set r (merge w s.gpr[r] v) }

def Width.bits : Width → Nat
  | .b8 => 8
  | .d32 => 32
  | .q64 => 64

/-! ### execution of one instruction -/

def State.next (s : State) : State := { s with pc := s.pc + 1 }
def State.fault (s : State) : State := { s with ok := false, pc := s.pc + 1 }
def State.setXmm (s : State) (d : Fin 16) (v : V4) : State := { s with xmm := s.xmm.set d v }

/-- effective address of a memory operand -/
def State.ea (rb : UInt64) (s : State) : Operand → Option UInt64
  | .mem b d => some (s.gpr[b] + UInt64.ofNat d)
  | .rip off => some (rb + UInt64.ofNat off)
  | _ => none

/-- `xmm1 := f xmm1 (xmm2/m128)`; an `m128` source must be 16-byte aligned (legacy SSE encoding) -/
def vbin (rb : UInt64) (f : V4 → V4 → V4) (ops : List Operand) (s : State) : State :=
  match ops with
  | [.xmm d, .xmm r] => (s.setXmm d (f s.xmm[d] s.xmm[r])).next
  | [.xmm d, o] =>
    match s.ea rb o with
    | some a => ({ s with ok := s.ok && aligned16 a }.setXmm d (f s.xmm[d] (load128 s.mem a))).next
    | none => s.fault
  | _ => s.fault

/-- `xmm1 := f xmm1 (xmm2/m128) imm8` -/
def vbinImm (rb : UInt64) (f : V4 → V4 → Nat → V4) (ops : List Operand) (s : State) : State :=
  match ops with
  | [.xmm d, .xmm r, .imm k] => (s.setXmm d (f s.xmm[d] s.xmm[r] k)).next
  | [.xmm d, o, .imm k] =>
    match s.ea rb o with
    | some a => ({ s with ok := s.ok && aligned16 a }.setXmm d (f s.xmm[d] (load128 s.mem a) k)).next
    | none => s.fault
  | _ => s.fault

/-- `xmm1 := f xmm1 imm8` -/
def vImm (f : V4 → Nat → V4) (ops : List Operand) (s : State) : State :=
  match ops with
  | [.xmm d, .imm k] => (s.setXmm d (f s.xmm[d] k)).next
  | _ => s.fault

/-- MOVUPS/MOVDQU (`al = false`) and MOVAPS/MOVDQA (`al = true`): `DEST[127:0] := SRC[127:0]`,
register-register, load or store; the aligned forms #GP on a misaligned memory operand -/
def mov128 (rb : UInt64) (al : Bool) (ops : List Operand) (s : State) : State :=
  match ops with
  | [.xmm d, .xmm r] => (s.setXmm d s.xmm[r]).next
  | [.xmm d, o] =>
    match s.ea rb o with
    | some a =>
      if al then ({ s with ok := s.ok && aligned16 a }.setXmm d (load128 s.mem a)).next
      else (s.setXmm d (load128 s.mem a)).next
    | none => s.fault
  | [o, .xmm r] =>
    match s.ea rb o with
    | some a =>
      if al then { s with ok := s.ok && aligned16 a, mem := store128 s.mem a s.xmm[r] }.next
      else { s with mem := store128 s.mem a s.xmm[r] }.next
    | none => s.fault
  | _ => s.fault

/-- one instruction (`rb` = run-time address of the start of the translated `.rodata` section) -/
def exec (rb : UInt64) (i : Instr) (s : State) : State :=
  match i.mn with
  /- ENDBR64: a NOP outside of indirect-branch tracking -/
  | .endbr64 => (match i.ops with | [] => s.next | _ => s.fault)
  | .movups | .movdqu => mov128 rb false i.ops s
  | .movaps | .movdqa => mov128 rb true i.ops s
  /- MOVQ xmm, r64: `DEST[63:0] := SRC[63:0]; DEST[127:64] := 0` -/
  | .movq =>
    (match i.ops with
     | [.xmm d, .gpr r .q64] =>
       (s.setXmm d #v[s.gpr[r].toUInt32, (s.gpr[r] >>> 32).toUInt32, 0, 0]).next
     | _ => s.fault)
  /- PADDD: `DEST[31:0] := DEST[31:0] + SRC[31:0]; (* repeat for 2nd through 4th doubleword *)` -/
  | .paddd => vbin rb _mm_add_epi32 i.ops s
  /- PXOR: `DEST := DEST XOR SRC` -/
  | .pxor => vbin rb _mm_xor_si128 i.ops s
  /- POR: `DEST := DEST OR SRC` -/
  | .por => vbin rb _mm_or_si128 i.ops s
  /- PAND: `DEST := DEST AND SRC` -/
  | .pand => vbin rb pand i.ops s
  | .pshufb => vbin rb pshufb i.ops s
  /- PSLLD xmm1, imm8: `IF COUNT > 31 THEN DEST := 0 ELSE DEST[31:0] := ZeroExtend(DEST[31:0] << COUNT); (* 2nd-4th *)` -/
  | .pslld => vImm _mm_slli_epi32 i.ops s
  /- PSRLD xmm1, imm8: `IF COUNT > 31 THEN DEST := 0 ELSE DEST[31:0] := ZeroExtend(DEST[31:0] >> COUNT); (* 2nd-4th *)` -/
  | .psrld => vImm _mm_srli_epi32 i.ops s
  /- PSHUFD xmm1, xmm2/m128, imm8: `DEST[31:0] := (SRC >> (ORDER[1:0] * 32))[31:0]; DEST[63:32] := (SRC >> (ORDER[3:2] * 32))[31:0];
     DEST[95:64] := (SRC >> (ORDER[5:4] * 32))[31:0]; DEST[127:96] := (SRC >> (ORDER[7:6] * 32))[31:0]` -/
  | .pshufd => vbinImm rb (fun _ src k => _mm_shuffle_epi32 src k) i.ops s
  | .pshuflw => vbinImm rb (fun _ src k => pshuflw src k) i.ops s
  | .pshufhw => vbinImm rb (fun _ src k => pshufhw src k) i.ops s
  /- SHUFPS xmm1, xmm2/m128, imm8: `DEST[31:0] := Select4(SRC1, imm8[1:0]); DEST[63:32] := Select4(SRC1, imm8[3:2]);
     DEST[95:64] := Select4(SRC2, imm8[5:4]); DEST[127:96] := Select4(SRC2, imm8[7:6])` (SRC1 = old DEST) -/
  | .shufps => vbinImm rb _mm_shuffle_ps i.ops s
  /- PBLENDW xmm1, xmm2/m128, imm8: `IF (imm8[j] = 1) THEN DEST[16j+15:16j] := SRC[16j+15:16j] ELSE unchanged`, j = 0..7 -/
  | .pblendw => vbinImm rb _mm_blend_epi16 i.ops s
  /- PUNPCKLQDQ: `DEST[63:0] := DEST[63:0]; DEST[127:64] := SRC[63:0]` -/
  | .punpcklqdq => vbin rb _mm_unpacklo_epi64 i.ops s
  /- PUNPCKLDQ: `DEST[31:0] := DEST[31:0]; DEST[63:32] := SRC[31:0]; DEST[95:64] := DEST[63:32]; DEST[127:96] := SRC[63:32]` -/
  | .punpckldq => vbin rb _mm_unpacklo_epi32 i.ops s
  /- PUNPCKHDQ: `DEST[31:0] := DEST[95:64]; DEST[63:32] := SRC[95:64]; DEST[95:64] := DEST[127:96]; DEST[127:96] := SRC[127:96]` -/
  | .punpckhdq => vbin rb _mm_unpackhi_epi32 i.ops s
  /- MOV r, imm: `DEST := SRC` -/
  | .mov =>
    (match i.ops with
     | [.gpr d w, .imm k] => (s.writeGpr d w (UInt64.ofNat k)).next
     | _ => s.fault)
  /- MOVZX r32, r8: `DEST := ZeroExtend(SRC)` -/
  | .movzx =>
    (match i.ops with
     | [.gpr d .d32, .gpr r .b8] => (s.writeGpr d .d32 (s.readGpr r .b8)).next
     | _ => s.fault)
  /- SHL r, imm8: `countMASK := (64-bit operand) ? 3FH : 1FH; tempCOUNT := COUNT AND countMASK;
     DEST := DEST << tempCOUNT`; the flags are unchanged if `tempCOUNT = 0`, else ZF reflects the result.
     Only 32- and 64-bit operands are modelled. -/
  | .shl =>
    (match i.ops with
     | [.gpr d w, .imm k] =>
       if w = .b8 then s.fault else
       let c := if w = .q64 then k % 64 else k % 32
       let res := trunc w (s.readGpr d w <<< UInt64.ofNat c)
       ({ s.writeGpr d w res with zf := if c = 0 then s.zf else res == 0 }).next
     | _ => s.fault)
  /- ADD r, r (same width): `DEST := DEST + SRC`; ZF reflects the result -/
  | .add =>
    (match i.ops with
     | [.gpr d w, .gpr r w'] =>
       if w = w' then
         let res := trunc w (s.readGpr d w + s.readGpr r w)
         ({ s.writeGpr d w res with zf := res == 0 }).next
       else s.fault
     | _ => s.fault)
  /- DEC r: `DEST := DEST - 1`; ZF reflects the result (CF is not affected) -/
  | .dec =>
    (match i.ops with
     | [.gpr d w] =>
       let res := trunc w (s.readGpr d w - 1)
       ({ s.writeGpr d w res with zf := res == 0 }).next
     | _ => s.fault)
  /- JZ rel: `IF ZF = 1 THEN RIP := target` -/
  | .jz =>
    (match i.ops with
     | [.target t] => if s.zf then { s with pc := t } else s.next
     | _ => s.fault)
  /- JMP rel: `RIP := target` -/
  | .jmp =>
    (match i.ops with
     | [.target t] => { s with pc := t }
     | _ => s.fault)
  /- RET (near): `RIP := Pop()`: end of the routine -/
  | .ret =>
    (match i.ops with
     | [] => { s with status := .returned, gpr := s.gpr.set rsp (s.gpr[rsp] + 8) }
     | _ => s.fault)

/-- fetch and execute; running off the instruction list is a fault -/
def step (rb : UInt64) (prog : List Instr) (s : State) : State :=
  match s.status with
  | .returned => s
  | .running =>
    match prog[s.pc]? with
    | some i => exec rb i s
    | none => { s with ok := false, status := .returned }

/-- `n` steps -/
def run (rb : UInt64) (prog : List Instr) : Nat → State → State
  | 0, s => s
  | n + 1, s => run rb prog n (step rb prog s)

end B3.AsmSem
