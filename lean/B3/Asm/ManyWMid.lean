/- The Windows-GNU `blake3_hash_many_sse41` between its prologue and its epilogue (instructions 27..1429 and the tails
1450..1774), on THE semantics, for any number of inputs: `mid_w`.  NOTHING is re-evaluated here: the statement is the unix
one (`frame_part_all`: instructions 10..1412 + tails of the unix routine on the frame machine, in terms of the specification;
`frun_sim`: the frame machine is the flat machine), carried over by `run_sim` (B3/Asm/ManyWRun.lean). -/
import B3.Asm.ManyAll
import B3.Asm.ManyWRun
namespace B3.AsmSem.Many.W
open B3 B3.Simd B3.AsmSem B3.Gen.AsmSse41Many

variable {M : Memory} {out g1 g5w inputs : UInt64} {n B : Nat} {K : CV} {P : Nat → UInt64} {Blk : Nat → Nat → St}
  {fl fs fe : UInt8}

/-- **instructions 27..1429 and the tails of the Windows routine**: from the state after the prologue (`rsp = fb` the aligned
frame base, `rbp = g5w`, the arguments in the unix registers) to instruction 1430 (the first reload of the epilogue) with the
chaining values of all inputs written at `out`; `rsp`, `rbp` are what they were; the memory is the initial one with some
frame content at `[fb, fb + 352)` and the output bytes at `out`.  Hypotheses as for the unix routine (`frame_part_all`,
`frun_sim`), with the stack arguments at `[rbp + 64 + ..]`. -/
theorem mid_w {rb fb : UInt64} (C : Ctx rodata rb fb) (hholds : HoldsAt M rb rodata)
    (R : Reads M out g1 (g5w + 64) inputs n B K P Blk fs) (hB : 64 * B < 2 ^ 64) (hB0 : 0 < B) (hn : 32 * n < 2 ^ 64)
    (counter g9 : UInt64) (incr : Bool) (h9 : g9.toUInt32 = if incr then 1 else 0)
    (hout : load64 M (g5w + 64 + dispU 80) = out) (hfl : M (g5w + 64 + dispU 56) = fl) (hfe : M (g5w + 64 + dispU 72) = fe)
    (hpro : ∀ r ∈ proLog (g5w + 64), RefOk rodata rb fb r)
    (hlog : ∀ q, 4 * q + 4 ≤ n → ∀ r ∈ outerLog (writeBytes M out (outBytes K Blk B counter incr fl fs fe (4 * q))) g1 (g5w + 64)
      (out + UInt64.ofNat (128 * q)) (inputs + UInt64.ofNat (32 * q)) B, RefOk rodata rb fb r)
    (hlog2 : ∀ i, i + 2 ≤ n → ∀ r ∈ t2Log (writeBytes M out (outBytes K Blk B counter incr fl fs fe i)) g1 (g5w + 64)
      (out + UInt64.ofNat (32 * i)) (inputs + UInt64.ofNat (8 * i)) B, RefOk rodata rb fb r)
    (hlog1 : ∀ j, j + 1 = n → ∀ r ∈ t1Log (writeBytes M out (outBytes K Blk B counter incr fl fs fe j)) g1 (g5w + 64)
      (out + UInt64.ofNat (32 * j)) (inputs + UInt64.ofNat (8 * j)) B, RefOk rodata rb fb r)
    (x0 x1 x2 x3 x4 x5 x6 x7 x8 x9 x10 x11 x12 x13 x14 x15 : V4) (g0 g3 g10 g11 g12 g13 g14 g15 : UInt64) (z c : Bool) :
    ∃ (k : Nat) (x' : Vector V4 16) (ax bx dx si di a8 a9 a10 a11 r14' : UInt64) (z' c' : Bool) (F' : Vector V4 22),
      ManyW.run rb progW k ⟨#v[x0, x1, x2, x3, x4, x5, x6, x7, x8, x9, x10, x11, x12, x13, x14, x15],
          #v[g0, g1, UInt64.ofNat B, g3, fb, g5w, UInt64.ofNat n, inputs, counter, g9, g10, g11, g12, g13, g14, g15],
          z, c, M, 27, .running, true⟩
        = ⟨x', #v[ax, g1, dx, bx, fb, g5w, si, di, a8, a9, a10, a11, trunc .d32 fe.toUInt64, trunc .d32 fl.toUInt64, r14',
              UInt64.ofNat (64 * B)],
           z', c', frameMem fb F' (writeBytes M out (outBytes K Blk B counter incr fl fs fe n)), 1430, .running, true⟩ := by
  obtain ⟨tend, ⟨k, l, hrun, hl⟩, bx, si, di, lo', hi', f19', f20', inc', z', c', x0', x1', x2', x3', x4', x5', x6', x7', x8', x9', x10',
    x11', x12', x13', x14', x15', e0, e1, e2, e3, e4, e5, e6, e7, e8, e9, e10, e11, e12, e13, e14, e15, e16, ax, dx, a8, a9, a10, a11,
    r14', rfl⟩ :=
    frame_part_all rb (RefOk rodata rb fb) R hB hB0 hn counter g9 incr h9 hout hfl hfe hpro hlog hlog2 hlog1
      x0 x1 x2 x3 x4 x5 x6 x7 x8 x9 x10 x11 x12 x13 x14 x15 g0 g3 fb g10 g11 g12 g13 g14 g15 z c
      (frameOf M fb)[0] (frameOf M fb)[1] (frameOf M fb)[2] (frameOf M fb)[3] (frameOf M fb)[4] (frameOf M fb)[5]
      (frameOf M fb)[6] (frameOf M fb)[7] (frameOf M fb)[8] (frameOf M fb)[9] (frameOf M fb)[10] (frameOf M fb)[11]
      (frameOf M fb)[12] (frameOf M fb)[13] (frameOf M fb)[14] (frameOf M fb)[15] (frameOf M fb)[16] (frameOf M fb)[17]
      (frameOf M fb)[18] (frameOf M fb)[19] (frameOf M fb)[20] (frameOf M fb)[21]
  rw [← vec22_eta (frameOf M fb)] at hrun
  -- the frame machine is the flat machine
  have hsim := frun_sim C hash_many k ⟨mkS #v[x0, x1, x2, x3, x4, x5, x6, x7, x8, x9, x10, x11, x12, x13, x14, x15]
      #v[g0, g1, UInt64.ofNat B, g3, fb, g5w + 64, UInt64.ofNat n, inputs, counter, g9, g10, g11, g12, g13, g14, g15] z c
      (frameOf M fb) M 10, [], true⟩ ⟨rfl, hholds⟩ (by rw [hrun]; exact hl) (by rw [hrun])
  rw [hrun] at hsim
  have hflat : flatten fb (mkS #v[x0, x1, x2, x3, x4, x5, x6, x7, x8, x9, x10, x11, x12, x13, x14, x15]
      #v[g0, g1, UInt64.ofNat B, g3, fb, g5w + 64, UInt64.ofNat n, inputs, counter, g9, g10, g11, g12, g13, g14, g15] z c
      (frameOf M fb) M 10)
      = ⟨#v[x0, x1, x2, x3, x4, x5, x6, x7, x8, x9, x10, x11, x12, x13, x14, x15],
         #v[g0, g1, UInt64.ofNat B, g3, fb, g5w + 64, UInt64.ofNat n, inputs, counter, g9, g10, g11, g12, g13, g14, g15],
         z, c, M, 10, .running, true⟩ := by
    unfold flatten mkS
    simp only [frameMem_self]
  rw [hflat] at hsim
  -- the unix run is a Windows run
  have hw := run_sim rb g5w k ⟨#v[x0, x1, x2, x3, x4, x5, x6, x7, x8, x9, x10, x11, x12, x13, x14, x15],
         #v[g0, g1, UInt64.ofNat B, g3, fb, g5w + 64, UInt64.ofNat n, inputs, counter, g9, g10, g11, g12, g13, g14, g15],
         z, c, M, 10, .running, true⟩ (by rfl) (by rfl) (by rw [hsim.1]; rfl) (by rw [hsim.1]; rfl)
  rw [hsim.1] at hw
  exact ⟨k, _, ax, bx, dx, si, di, a8, a9, a10, a11, r14', z', c', _, hw⟩

end B3.AsmSem.Many.W
