/-
The machine semantics for the Windows-GNU flavour of `blake3_hash_many_sse41`
(c/blake3_sse41_x86-64_windows_gnu.S): that of `B3/Asm/ManySem.lean` (instruction syntax `Instr`,
state `StateG`, memory access record `MemAcc`, every instruction it models, UNCHANGED) plus the one
instruction form that the Win64 prologue uses and the unix routine does not:

    movzx r64, byte ptr [base + index + disp]        (REX.W 0F B6 /r)

THIS FILE IS TRUSTED (together with `ManySem.lean` and `Sse.lean`): it is the statement of what that
form does.  `ManySem.execG` sends `movzx` with a 64-bit destination to `fault` (its `movzx` case only
accepts a 32-bit destination); here the form is given its meaning and every other instruction is
passed to `ManySem.execG`.  The model is validated at run time by `RunAsmManyW.lean`: this `exec`,
evaluated on random inputs, is compared with the real routine running on the CPU (`cdriver`,
`CK hmany win_sse41_asm ...`, the Windows-GNU object called through `ms_abi`).

As in `ManySem.lean` the semantics is written once over a record `A : MemAcc μ`; THE semantics is
the instance at the flat byte memory (`exec := execG flat`).
-/
import B3.Asm.ManySem
namespace B3.AsmSem.ManyW
open B3 B3.Simd
open B3.AsmSem.Many (MemAcc StateG flat ldG)

variable {μ : Type}

/-- one instruction.
MOVZX r64, m8 (SDM Vol. 2, MOVZX "Operation"): `DEST := ZeroExtend(SRC)`; flags not affected.  The byte at the effective
address, zero-extended to 64 bits, replaces the whole destination register (`ldG .. .b8` = the byte, zero-extended;
`writeGpr .. .q64` = the register is replaced).  The memory operand must be declared `byte ptr`.
Everything else: `ManySem.execG`. -/
def execG (A : MemAcc μ) (rb : UInt64) (i : Many.Instr) (s : StateG μ) : StateG μ :=
  match i.mn, i.ops with
  | .movzx, [Many.Operand.gpr d .q64, Many.Operand.mem sz b x disp] =>
    (match ldG A rb s .b8 (.mem sz b x disp) with
     | some v => (s.writeGpr d .q64 v).next
     | none => s.fault)
  | _, _ => Many.execG A rb i s

/-- fetch and execute; running off the instruction list is a fault (as `ManySem.stepG`) -/
def stepG (A : MemAcc μ) (rb : UInt64) (prog : List Many.Instr) (s : StateG μ) : StateG μ :=
  match s.status with
  | .returned => s
  | .running =>
    match prog[s.pc]? with
    | some i => execG A rb i s
    | none => { s with ok := false, status := .returned }

/-- `n` steps -/
def runG (A : MemAcc μ) (rb : UInt64) (prog : List Many.Instr) : Nat → StateG μ → StateG μ
  | 0, s => s
  | n + 1, s => runG A rb prog n (stepG A rb prog s)

/-! ### THE semantics: the instance at the flat byte memory -/

def exec (rb : UInt64) (i : Many.Instr) (s : Many.State) : Many.State := execG flat rb i s
def step (rb : UInt64) (prog : List Many.Instr) (s : Many.State) : Many.State := stepG flat rb prog s
def run (rb : UInt64) (prog : List Many.Instr) (n : Nat) (s : Many.State) : Many.State := runG flat rb prog n s

end B3.AsmSem.ManyW
