/- The Windows-GNU `blake3_hash_many_sse41`: the entry conditions `EntryW` (Win64 call) and what follows from them for the
memory after the prologue (`midOK : EntryW -> MidOK` is in B3/Asm/ManyWMain.lean).  The lemmas on the logged memory references are those of
B3/Asm/ManyTop.lean / ManyAll.lean with the Windows frame base, scratch area (656 bytes) and stack argument slots. -/
import B3.Asm.ManyWRegions
namespace B3.AsmSem.Many.W
open B3 B3.Simd B3.AsmSem B3.Gen.AsmSse41Many

/-- `k` bytes at `q` lie outside the two regions the routine writes: the scratch area below the entry `rsp` and `out` -/
def _root_.B3.AsmSem.Many.HmArgs.SepW (A : HmArgs) (sp q : UInt64) (k : Nat) : Prop :=
  OutsideRo (scratchW sp) 656 q k ∧ OutsideRo A.out (32 * A.n) q k

theorem _root_.B3.AsmSem.Many.HmArgs.SepW.mono {A : HmArgs} {sp q : UInt64} {k : Nat} (h : A.SepW sp q k) (o k' : Nat) (hk : o + k' ≤ k) :
    A.SepW sp (q + UInt64.ofNat o) k' :=
  ⟨h.1.mono o k' hk, h.2.mono o k' hk⟩

/-- the state on entry to the Windows-GNU `blake3_hash_many_sse41`, called with the arguments `A` as the Win64 calling
convention prescribes: at the first instruction, no fault so far, `.rdata` loaded at `rb`; `rcx = inputs`, `rdx = num_inputs`,
`r8 = blocks`, `r9 = key`; on the stack, above the return address and the 32 bytes of shadow space: `counter` (qword at
`rsp+0x28`), `increment_counter` (the BYTE at `rsp+0x30`, 0 or 1: the routine zero-extends it itself, nothing is assumed
about the seven bytes above it), `flags`, `flags_start`, `flags_end` (the bytes at `rsp+0x38`, `+0x40`, `+0x48`), `out`
(qword at `rsp+0x50`); `blocks ≥ 1`; sizes that do not wrap around the address space; the stack has 704 bytes below `rsp`;
everything the routine reads (`.rdata`, key, pointer array, inputs, stack arguments) lies outside what it writes (the 656
bytes below `rsp`, and `out`), and `out` lies outside those 656 bytes.  Nothing is assumed about the other registers (XMM
included) or about alignment (of the data or of `rsp`). -/
structure EntryW (rb : UInt64) (s : State) (A : HmArgs) : Prop where
  pc : s.pc = 0
  running : s.status = .running
  ok : s.ok = true
  ro : RodataLoaded rodata rodataAlign rb s.mem
  rcx : s.gpr[rcx] = A.inputs
  rdx : s.gpr[rdx] = UInt64.ofNat A.n
  r8 : s.gpr[r8] = UInt64.ofNat A.blocks
  r9 : s.gpr[r9] = A.key
  arg5 : load64 s.mem (s.gpr[rsp] + UInt64.ofNat 40) = A.counter
  arg6 : s.mem (s.gpr[rsp] + UInt64.ofNat 48) = if A.incr then 1 else 0
  arg7 : s.mem (s.gpr[rsp] + UInt64.ofNat 56) = A.flags
  arg8 : s.mem (s.gpr[rsp] + UInt64.ofNat 64) = A.flagsStart
  arg9 : s.mem (s.gpr[rsp] + UInt64.ofNat 72) = A.flagsEnd
  arg10 : load64 s.mem (s.gpr[rsp] + UInt64.ofNat 80) = A.out
  hn : 32 * A.n < 2 ^ 64
  hb0 : 0 < A.blocks
  hb : 64 * A.blocks < 2 ^ 64
  hsp : 704 ≤ s.gpr[rsp].toNat
  hsp' : s.gpr[rsp].toNat + 96 ≤ 2 ^ 64
  sep_ro : A.SepW s.gpr[rsp] rb rodata.length
  sep_key : A.SepW s.gpr[rsp] A.key 32
  sep_ptrs : A.SepW s.gpr[rsp] A.inputs (8 * A.n)
  sep_in : ∀ i, i < A.n → A.SepW s.gpr[rsp] (A.ptr s.mem i) (64 * A.blocks)
  out_scratch : OutsideRo (scratchW s.gpr[rsp]) 656 A.out (32 * A.n)
  args_out : OutsideRo A.out (32 * A.n) (s.gpr[rsp] + UInt64.ofNat 40) 48

theorem rbp_dispW (sp : UInt64) (d : Nat) : rbpW sp + 64 + dispU (d : Int) = sp + UInt64.ofNat d := by
  rw [rbpW_add64]
  rfl

set_option maxRecDepth 20000 in
/-- a region outside the scratch area and outside `out` reads the same after the prologue and any write into `out` -/
theorem sameOn_sepW (A : HmArgs) (s : State) (h : 704 ≤ s.gpr[rsp].toNat) (q : UInt64) (k : Nat)
    (hq : A.SepW s.gpr[rsp] q k) (bs : List UInt8) (hbs : bs.length ≤ 32 * A.n) :
    SameOn s.mem (writeBytes (MW s) A.out bs) q k := by
  intro i hi
  rw [writeBytes_outside _ _ _ _ hbs _ (hq.2 i hi)]
  exact MW_outside s h _ (hq.1 i hi)

section
variable {rb : UInt64} {s : State} {A : HmArgs} (E : EntryW rb s A)
include E

theorem sep_args (o k : Nat) (ho : 40 ≤ o) (hk : o + k ≤ 88) : A.SepW s.gpr[rsp] (s.gpr[rsp] + UInt64.ofNat o) k := by
  refine ⟨args_scratchW _ E.hsp E.hsp' o k (by omega), ?_⟩
  have := E.args_out.mono (o - 40) k (by omega)
  rw [addr_add] at this
  have e : 40 + (o - 40) = o := by omega
  rw [e] at this
  exact this

theorem entry_sameOn (q : UInt64) (k : Nat) (hq : A.SepW s.gpr[rsp] q k) (bs : List UInt8) (hbs : bs.length ≤ 32 * A.n) :
    SameOn s.mem (writeBytes (MW s) A.out bs) q k :=
  sameOn_sepW A s E.hsp q k hq bs hbs

/-- the key, the input pointers, the blocks and `flags_start` as the loop reads them are those of the entry memory -/
theorem entry_reads : Reads (MW s) A.out A.key ((rbpW s.gpr[rsp] + 64)) A.inputs A.n A.blocks (readWords s.mem A.key 8)
    (A.ptr s.mem) (fun i b => memBlock s.mem (A.ptr s.mem i) b) A.flagsStart where
  key := by
    intro bs hbs
    rw [keyRaw_eq]
    exact (entry_sameOn E _ _ E.sep_key bs hbs).readWords 8 (by omega)
  ptr := by
    intro bs hbs i hi
    exact (entry_sameOn E _ _ (E.sep_ptrs.mono (8 * i) 8 (by omega)) bs hbs).load64 (by omega)
  blk := by
    intro bs hbs i hi b hb
    unfold memBlock
    exact (entry_sameOn E _ _ ((E.sep_in i hi).mono (64 * b) 64 (by omega)) bs hbs).readWords 16 (by omega)
  fs := by
    intro bs hbs
    have e : (rbpW s.gpr[rsp] + 64) + dispU 64 = s.gpr[rsp] + UInt64.ofNat 64 := rbp_dispW _ 64
    rw [e]
    have := (entry_sameOn E _ _ (sep_args E 64 1 (by omega) (by omega)) bs hbs).byte (by omega)
    rw [this]
    exact E.arg8

theorem entry_M1_arg (o k : Nat) (ho : 40 ≤ o) (hk : o + k ≤ 88) : SameOn s.mem (MW s) (s.gpr[rsp] + UInt64.ofNat o) k := by
  have := entry_sameOn E _ _ (sep_args E o k ho hk) [] (by simp)
  rwa [writeBytes_nil] at this

/-! ### the logged references are harmless -/

theorem refOk_load (q : UInt64) (k : Nat) (hq : OutsideRo (scratchW s.gpr[rsp]) 656 q k) :
    RefOk rodata rb (frameBaseW s.gpr[rsp]) (false, q, k) :=
  ⟨outside_frame_of_scratchW _ E.hsp q k hq, by intro h; cases h⟩

theorem refOk_store (q : UInt64) (k : Nat) (hq : OutsideRo (scratchW s.gpr[rsp]) 656 q k) (hq' : OutsideRo rb rodata.length q k) :
    RefOk rodata rb (frameBaseW s.gpr[rsp]) (true, q, k) :=
  ⟨outside_frame_of_scratchW _ E.hsp q k hq, fun _ => hq'⟩

theorem proLog_ok : ∀ r ∈ proLog ((rbpW s.gpr[rsp] + 64)), RefOk rodata rb (frameBaseW s.gpr[rsp]) r := by
  intro r hr
  simp only [proLog, List.mem_cons, List.mem_nil_iff, or_false] at hr
  rcases hr with rfl | rfl | rfl
  · have e : (rbpW s.gpr[rsp] + 64) + dispU 80 = s.gpr[rsp] + UInt64.ofNat 80 := rbp_dispW _ 80
    rw [e]
    exact refOk_load E _ _ (args_scratchW _ E.hsp E.hsp' 80 8 (by omega))
  · have e : (rbpW s.gpr[rsp] + 64) + dispU 56 = s.gpr[rsp] + UInt64.ofNat 56 := rbp_dispW _ 56
    rw [e]
    exact refOk_load E _ _ (args_scratchW _ E.hsp E.hsp' 56 1 (by omega))
  · have e : (rbpW s.gpr[rsp] + 64) + dispU 72 = s.gpr[rsp] + UInt64.ofNat 72 := rbp_dispW _ 72
    rw [e]
    exact refOk_load E _ _ (args_scratchW _ E.hsp E.hsp' 72 1 (by omega))

/-- the memory references of an iteration of the outer loop are harmless -/
theorem outerLog_ok (q : Nat) (hq : 4 * q + 4 ≤ A.n) (bs : List UInt8) (hbs : bs.length ≤ 32 * A.n) :
    ∀ r ∈ outerLog (writeBytes (MW s) A.out bs) A.key ((rbpW s.gpr[rsp] + 64)) (A.out + UInt64.ofNat (128 * q))
      (A.inputs + UInt64.ofNat (32 * q)) A.blocks, RefOk rodata rb (frameBaseW s.gpr[rsp]) r := by
  intro r hr
  have R := entry_reads E
  -- the pointers of the group
  have hptr : ∀ l : Nat, l < 4 →
      ptrAt (writeBytes (MW s) A.out bs) (A.inputs + UInt64.ofNat (32 * q)) (l : Int) = A.ptr s.mem (4 * q + l) := by
    intro l hl
    unfold ptrAt
    have e : A.inputs + UInt64.ofNat (32 * q) + dispU (8 * (l : Int)) = A.inputs + UInt64.ofNat (8 * (4 * q + l)) := by
      have : dispU (8 * (l : Int)) = UInt64.ofNat (8 * l) := by
        match l, hl with | 0, _ | 1, _ | 2, _ | 3, _ => rfl
      rw [this, addr_add]
      congr 2
      omega
    rw [e]
    exact R.ptr bs hbs _ (by omega)
  unfold outerLog at hr
  rcases List.mem_append.mp hr with hr | hr
  · rcases List.mem_append.mp hr with hr | hr
    · -- head
      simp only [headLog, List.mem_cons, List.mem_nil_iff, or_false] at hr
      have z : ∀ (x : UInt64) (d : Nat), x + dispU (d : Int) = x + UInt64.ofNat d := fun _ _ => rfl
      rcases hr with rfl | rfl | rfl | rfl | rfl | rfl | rfl
      · exact refOk_load E _ _ (E.sep_key.1.mono 0 16 (by omega))
      · exact refOk_load E _ _ (E.sep_key.1.mono 16 16 (by omega))
      · have := E.sep_ptrs.1.mono (32 * q + 0) 8 (by omega)
        rw [← addr_add] at this
        exact refOk_load E _ _ this
      · have := E.sep_ptrs.1.mono (32 * q + 8) 8 (by omega)
        rw [← addr_add] at this
        exact refOk_load E _ _ this
      · have := E.sep_ptrs.1.mono (32 * q + 16) 8 (by omega)
        rw [← addr_add] at this
        exact refOk_load E _ _ this
      · have := E.sep_ptrs.1.mono (32 * q + 24) 8 (by omega)
        rw [← addr_add] at this
        exact refOk_load E _ _ this
      · have e : (rbpW s.gpr[rsp] + 64) + dispU 64 = s.gpr[rsp] + UInt64.ofNat 64 := rbp_dispW _ 64
        rw [e]
        exact refOk_load E _ _ (args_scratchW _ E.hsp E.hsp' 64 1 (by omega))
    · -- the block loads
      obtain ⟨j, _, hj, hr⟩ := mem_loopLog A.blocks 0 hr
      obtain ⟨p, hp, hr⟩ := mem_ldLogAt hr
      have hP : ∃ l, l < 4 ∧ p = A.ptr s.mem (4 * q + l) := by
        rcases hp with rfl | rfl | rfl | rfl
        · exact ⟨0, by omega, hptr 0 (by omega)⟩
        · exact ⟨1, by omega, hptr 1 (by omega)⟩
        · exact ⟨2, by omega, hptr 2 (by omega)⟩
        · exact ⟨3, by omega, hptr 3 (by omega)⟩
      obtain ⟨l, hl, rfl⟩ := hP
      have hin := (E.sep_in (4 * q + l) (by omega)).1
      obtain ⟨a1, a2, a3, a4⟩ := load_addr (A.ptr s.mem (4 * q + l)) j
      rcases hr with rfl | rfl | rfl | rfl
      · rw [a1]; exact refOk_load E _ _ (hin.mono _ 16 (by omega))
      · rw [a2]; exact refOk_load E _ _ (hin.mono _ 16 (by omega))
      · rw [a3]; exact refOk_load E _ _ (hin.mono _ 16 (by omega))
      · rw [a4]; exact refOk_load E _ _ (hin.mono _ 16 (by omega))
  · -- the stores
    simp only [outLog, List.map_cons, List.map_nil, List.mem_cons, List.mem_nil_iff, or_false] at hr
    have hro : OutsideRo rb rodata.length A.out (32 * A.n) := E.sep_ro.2.symm
    have key : ∀ d : Nat, d + 16 ≤ 128 →
        RefOk rodata rb (frameBaseW s.gpr[rsp]) (true, A.out + UInt64.ofNat (128 * q) + UInt64.ofNat d, 16) := by
      intro d hd
      rw [addr_add]
      exact refOk_store E _ _ (E.out_scratch.mono _ 16 (by omega)) (hro.mono _ 16 (by omega))
    rcases hr with rfl | rfl | rfl | rfl | rfl | rfl | rfl | rfl
    · exact key 0 (by omega)
    · exact key 32 (by omega)
    · exact key 64 (by omega)
    · exact key 96 (by omega)
    · exact key 16 (by omega)
    · exact key 48 (by omega)
    · exact key 80 (by omega)
    · exact key 112 (by omega)


end

section
variable {rb : UInt64} {s : State} {A : HmArgs} (E : EntryW rb s A)
include E

/-- a block load of input `i` is harmless -/
theorem headLog_ok (i : Nat) (hi : i < A.n) (j : Nat) (hj : j < A.blocks) (r : Ref)
    (hr : r ∈ t1HeadLog (A.ptr s.mem i + UInt64.ofNat (64 * (j + 1)))) : RefOk rodata rb (frameBaseW s.gpr[rsp]) r := by
  have hin := (E.sep_in i hi).1
  obtain ⟨a1, a2, a3, a4⟩ := load_addr (A.ptr s.mem i) j
  simp only [t1HeadLog, List.mem_cons, List.mem_nil_iff, or_false] at hr
  rcases hr with rfl | rfl | rfl | rfl
  · rw [a1]; exact refOk_load E _ _ (hin.mono _ 16 (by omega))
  · rw [a2]; exact refOk_load E _ _ (hin.mono _ 16 (by omega))
  · rw [a3]; exact refOk_load E _ _ (hin.mono _ 16 (by omega))
  · rw [a4]; exact refOk_load E _ _ (hin.mono _ 16 (by omega))

/-- the pointer that the tails read at `[rdi + 8 l]` -/
theorem tail_ptr (i l : Nat) (hl : l < 4) (hi : i + l < A.n) (bs : List UInt8) (hbs : bs.length ≤ 32 * A.n) :
    ptrAt (writeBytes (MW s) A.out bs) (A.inputs + UInt64.ofNat (8 * i)) (l : Int) = A.ptr s.mem (i + l) := by
  unfold ptrAt
  have e : A.inputs + UInt64.ofNat (8 * i) + dispU (8 * (l : Int)) = A.inputs + UInt64.ofNat (8 * (i + l)) := by
    have : dispU (8 * (l : Int)) = UInt64.ofNat (8 * l) := by
      match l, hl with | 0, _ | 1, _ | 2, _ | 3, _ => rfl
    rw [this, addr_add]
    congr 2
    omega
  rw [e]
  exact (entry_reads E).ptr bs hbs _ hi

theorem store_ok (o : Nat) (ho : o + 16 ≤ 32 * A.n) :
    RefOk rodata rb (frameBaseW s.gpr[rsp]) (true, A.out + UInt64.ofNat o, 16) :=
  refOk_store E _ _ (E.out_scratch.mono _ 16 ho) (E.sep_ro.2.symm.mono _ 16 ho)

/-- the memory references of the 1-input tail are harmless -/
theorem t1Log_ok (j : Nat) (hj : j + 1 ≤ A.n) (bs : List UInt8) (hbs : bs.length ≤ 32 * A.n) :
    ∀ r ∈ t1Log (writeBytes (MW s) A.out bs) A.key ((rbpW s.gpr[rsp] + 64)) (A.out + UInt64.ofNat (32 * j))
      (A.inputs + UInt64.ofNat (8 * j)) A.blocks, RefOk rodata rb (frameBaseW s.gpr[rsp]) r := by
  intro r hr
  unfold t1Log at hr
  rcases List.mem_append.mp hr with hr | hr
  · rcases List.mem_append.mp hr with hr | hr
    · simp only [t1SetupLog, List.mem_cons, List.mem_nil_iff, or_false] at hr
      rcases hr with rfl | rfl | rfl | rfl
      · exact refOk_load E _ _ (E.sep_key.1.mono 0 16 (by omega))
      · exact refOk_load E _ _ (E.sep_key.1.mono 16 16 (by omega))
      · have := E.sep_ptrs.1.mono (8 * j + 0) 8 (by omega)
        rw [← addr_add] at this
        exact refOk_load E _ _ this
      · have e : (rbpW s.gpr[rsp] + 64) + dispU 64 = s.gpr[rsp] + UInt64.ofNat 64 := rbp_dispW _ 64
        rw [e]
        exact refOk_load E _ _ (args_scratchW _ E.hsp E.hsp' 64 1 (by omega))
    · obtain ⟨j', _, hj', hr⟩ := mem_t1LoopLog A.blocks 0 hr
      have hp := tail_ptr E j 0 (by omega) (by omega) bs hbs
      rw [show ((0 : Nat) : Int) = 0 from rfl] at hp
      rw [hp] at hr
      exact headLog_ok E (j + 0) (by omega) j' (by omega) r hr
  · simp only [List.mem_cons, List.mem_nil_iff, or_false] at hr
    rcases hr with rfl | rfl
    · have := store_ok E (32 * j + 0) (by omega)
      rw [← addr_add] at this
      exact this
    · have := store_ok E (32 * j + 16) (by omega)
      rw [← addr_add] at this
      exact this

/-- the memory references of the 2-input tail are harmless -/
theorem t2Log_ok (j : Nat) (hj : j + 2 ≤ A.n) (bs : List UInt8) (hbs : bs.length ≤ 32 * A.n) :
    ∀ r ∈ t2Log (writeBytes (MW s) A.out bs) A.key ((rbpW s.gpr[rsp] + 64)) (A.out + UInt64.ofNat (32 * j))
      (A.inputs + UInt64.ofNat (8 * j)) A.blocks, RefOk rodata rb (frameBaseW s.gpr[rsp]) r := by
  intro r hr
  unfold t2Log at hr
  rcases List.mem_append.mp hr with hr | hr
  · rcases List.mem_append.mp hr with hr | hr
    · simp only [t2SetupLog, List.mem_cons, List.mem_nil_iff, or_false] at hr
      rcases hr with rfl | rfl | rfl | rfl | rfl
      · exact refOk_load E _ _ (E.sep_key.1.mono 0 16 (by omega))
      · exact refOk_load E _ _ (E.sep_key.1.mono 16 16 (by omega))
      · have := E.sep_ptrs.1.mono (8 * j + 0) 8 (by omega)
        rw [← addr_add] at this
        exact refOk_load E _ _ this
      · have := E.sep_ptrs.1.mono (8 * j + 8) 8 (by omega)
        rw [← addr_add] at this
        exact refOk_load E _ _ this
      · have e : (rbpW s.gpr[rsp] + 64) + dispU 64 = s.gpr[rsp] + UInt64.ofNat 64 := rbp_dispW _ 64
        rw [e]
        exact refOk_load E _ _ (args_scratchW _ E.hsp E.hsp' 64 1 (by omega))
    · obtain ⟨j', _, hj', hr⟩ := mem_t2LoopLog A.blocks 0 hr
      have hp0 := tail_ptr E j 0 (by omega) (by omega) bs hbs
      have hp1 := tail_ptr E j 1 (by omega) (by omega) bs hbs
      rw [show ((0 : Nat) : Int) = 0 from rfl] at hp0
      rw [show ((1 : Nat) : Int) = 1 from rfl] at hp1
      rw [hp0, hp1] at hr
      rcases hr with hr | hr
      · exact headLog_ok E (j + 0) (by omega) j' (by omega) r hr
      · exact headLog_ok E (j + 1) (by omega) j' (by omega) r hr
  · simp only [t2StoreLog, List.mem_cons, List.mem_nil_iff, or_false] at hr
    rcases hr with rfl | rfl | rfl | rfl
    · have := store_ok E (32 * j + 0) (by omega)
      rw [← addr_add] at this
      exact this
    · have := store_ok E (32 * j + 16) (by omega)
      rw [← addr_add] at this
      exact this
    · have := store_ok E (32 * j + 32) (by omega)
      rw [← addr_add] at this
      exact this
    · have := store_ok E (32 * j + 48) (by omega)
      rw [← addr_add] at this
      exact this


end

end B3.AsmSem.Many.W
