/-
`blake3_compress_in_place_avx512`, Windows-GNU flavour (c/blake3_avx512_x86-64_windows_gnu.S): the pieces of
B3/Asm/Avx512WinBody.lean composed along the control flow of the routine (prologue, six trips round the loop with
the branch not taken, the seventh with the branch taken, epilogue; 26 + 6*50 + 36 + 10 = 372 instructions
executed), and the result related to `Spec.compress`.
Windows x64 calling convention: rcx = cv, rdx = block, r8 = block_len, r9 = counter, `flags` in the caller's
stack at [rsp + 0x28] (after the return address and the 32 bytes of shadow space).  The routine allocates a
72-byte frame and saves XMM6-XMM9 (callee-saved on Windows) in its first 64 bytes.
-/
import B3.Asm.Avx512WinBody
namespace B3.AsmSem.Avx512.Win
open B3 B3.Simd B3.AsmSem B3.AsmSem.Avx512 B3.Gen.AsmAvx512Wgnu

/-! ### the `.rdata` section of c/blake3_avx512_x86-64_windows_gnu.S in memory -/

abbrev Rodata (rb : UInt64) (m : Memory) : Prop := RodataLoaded rodata rodataAlign rb m

set_option maxRecDepth 8000 in
theorem table_IV {rb : UInt64} {m : Memory} (h : Rodata rb m) : load128 m (rb + UInt64.ofNat 256) = BLAKE3_IV := by
  rw [load128_of_holds m rb rodata 256 h.holds (by decide)]; decide

set_option maxRecDepth 8000 in
theorem rodata_length : rodata.length = 272 := by decide

/-! ### entry conditions -/

/-- The state on entry to one of the two routines (Windows x64): at its first instruction, no fault so far, the
file's `.rdata` section loaded at `rb`, the stack pointer as the ABI prescribes (`rsp + 8` a multiple of 16:
the routine stores XMM6-9 with `vmovdqa`), and the 64 bytes of the routine's own frame that it writes --
`[rsp - 72, rsp - 8)`, below the return address -- not part of `cv`, `block` or the data section (they are free
stack; a caller cannot have live data there).  Nothing is assumed about the XMM registers, ZF, the other general
purpose registers, or whether `cv`, `block` and the tables overlap each other. -/
structure EntryW (rb : UInt64) (s : State) : Prop where
  pc : s.pc = 0
  running : s.status = .running
  ok : s.ok = true
  rodata : Rodata rb s.mem
  rsp_aligned : s.gpr[rsp].toNat % 16 = 8
  frame_cv : Disjoint s.gpr[rcx] 32 (spW s.gpr[rsp]) 64
  frame_block : Disjoint s.gpr[rdx] 64 (spW s.gpr[rsp]) 64
  frame_rodata : Disjoint rb 272 (spW s.gpr[rsp]) 64

/-- the fifth argument (`flags`): the byte at `[rsp + 0x28]` on entry -/
def flagsArg (s : State) : UInt8 := s.mem (s.gpr[rsp] + 40)

/-- memory once the prologue has saved XMM6-XMM9 in the frame -/
def memSaved (s : State) : Memory := writeBytes s.mem (spW s.gpr[rsp]) (saved s.xmm[6] s.xmm[7] s.xmm[8] s.xmm[9])

/-- the register file after the prologue -/
def gprAfterPrologueW (s : State) : Vector UInt64 16 :=
  #v[merge .b8 (trunc .d32 (flagsArg s).toUInt64 <<< 32) 7, s.gpr[rcx], s.gpr[rdx], s.gpr[rbx], spW s.gpr[rsp], s.gpr[rbp], s.gpr[rsi],
     s.gpr[rdi], lenFlagsW s.gpr[r8] (flagsArg s), s.gpr[r9], s.gpr[r10], s.gpr[r11], s.gpr[r12], s.gpr[r13], s.gpr[r14], s.gpr[r15]]

/-! ### the stages -/

/-- the tracked state at instruction `pc`: rows of `S` in XMM0-3, grouped words of `W` in XMM4-7, XMM10-15 as on entry -/
abbrev atPc (x10 x11 x12 x13 x14 x15 : V4) (pc : Nat) (S W : St) (g : Vector UInt64 16) (m : Memory) : ViewW :=
  ⟨row S 0, row S 1, row S 2, row S 3, grp0 W, grp1 W, grp2 W, grp3 W, x10, x11, x12, x13, x14, x15, g, m, pc, .running, true⟩

theorem frame_ok {rb : UInt64} {s : State} (h : EntryW rb s) :
    (((((true && aligned16 (spW s.gpr[rsp] + UInt64.ofNat 0)) && aligned16 (spW s.gpr[rsp] + UInt64.ofNat 16))
      && aligned16 (spW s.gpr[rsp] + UInt64.ofNat 32)) && aligned16 (spW s.gpr[rsp] + UInt64.ofNat 48))
      && aligned16 (rb + UInt64.ofNat 256)) = true := by
  unfold spW
  rw [frame_aligned _ h.rsp_aligned 0 (by decide), frame_aligned _ h.rsp_aligned 16 (by decide),
    frame_aligned _ h.rsp_aligned 32 (by decide), frame_aligned _ h.rsp_aligned 48 (by decide),
    aligned16_of rb rodataAlign 256 (by decide) h.rodata.aligned (by decide)]
  rfl

/-- the byte at `[rsp_after_sub + 0x70]`, read after the save area has been written, is the caller's `flags` -/
theorem flags_read (s : State) (bs : List UInt8) (hl : bs.length = 64) :
    writeBytes s.mem (spW s.gpr[rsp]) bs (spW s.gpr[rsp] + UInt64.ofNat 112) = flagsArg s := by
  unfold spW flagsArg
  rw [frame_addr _ 112 (by decide) (by decide)]
  exact writeBytes_frame _ _ _ _ (by rw [hl]; exact above_frame _ 40 (by decide))

theorem prologue_stage (rb : UInt64) (s : State) (h : EntryW rb s) :
    viewW (runV rb compress_in_place 26 s)
      = atPc s.xmm[10] s.xmm[11] s.xmm[12] s.xmm[13] s.xmm[14] s.xmm[15] 26
          (Spec.initState (readWords s.mem s.gpr[rcx] 8) s.gpr[r9] s.gpr[r8].toUInt8.toUInt32 (flagsArg s).toUInt32)
          (readWords s.mem s.gpr[rdx] 16) (gprAfterPrologueW s) (memSaved s) := by
  have hs := state_eta s h.pc h.running h.ok
  obtain ⟨e1, e2⟩ := lenFlagsW_words s.gpr[r8] (flagsArg s)
  have hfl := flags_read s (saved s.xmm[6] s.xmm[7] s.xmm[8] s.xmm[9]) rfl
  have hcv0 := load128_writeBytes_disjoint_at s.mem (spW s.gpr[rsp]) (saved s.xmm[6] s.xmm[7] s.xmm[8] s.xmm[9]) s.gpr[rcx] 32 0
    h.frame_cv (by decide)
  have hcv1 := load128_writeBytes_disjoint_at s.mem (spW s.gpr[rsp]) (saved s.xmm[6] s.xmm[7] s.xmm[8] s.xmm[9]) s.gpr[rcx] 32 16
    h.frame_cv (by decide)
  have hiv := load128_writeBytes_disjoint_at s.mem (spW s.gpr[rsp]) (saved s.xmm[6] s.xmm[7] s.xmm[8] s.xmm[9]) rb 272 256
    h.frame_rodata (by decide)
  have hblk := blockRaw_writeBytes_disjoint s.mem (spW s.gpr[rsp]) (saved s.xmm[6] s.xmm[7] s.xmm[8] s.xmm[9]) s.gpr[rdx] h.frame_block
  have hok := frame_ok h
  have hiv' := table_IV h.rodata
  have key := prologue_raw rb s.xmm[0] s.xmm[1] s.xmm[2] s.xmm[3] s.xmm[4] s.xmm[5] s.xmm[6] s.xmm[7] s.xmm[8] s.xmm[9]
    s.xmm[10] s.xmm[11] s.xmm[12] s.xmm[13] s.xmm[14] s.xmm[15] s.gpr[rax] s.gpr[rcx] s.gpr[rdx] s.gpr[rbx] s.gpr[rsp] s.gpr[rbp]
    s.gpr[rsi] s.gpr[rdi] s.gpr[r8] s.gpr[r9] s.gpr[r10] s.gpr[r11] s.gpr[r12] s.gpr[r13] s.gpr[r14] s.gpr[r15] s.zf s.mem
  rw [← hs] at key
  rw [key]
  simp only [saveMem_eq, hfl, hcv0, hcv1, hiv, hblk, hok, hiv']
  rw [← e1, ← e2, ← cvRaw_eq, ← blockRaw_eq]
  rfl

theorem body_stage (rb : UInt64) (x10 x11 x12 x13 x14 x15 : V4) (s : State) (S W : St) (g : Vector UInt64 16) (m : Memory)
    (h : viewW s = atPc x10 x11 x12 x13 x14 x15 26 S W g m) :
    viewW (runV rb compress_in_place 34 s) = atPc x10 x11 x12 x13 x14 x15 60 (Spec.round S W) W g m := by
  rw [of_viewW h]
  have := body_raw rb S W s.xmm[8] s.xmm[9] x10 x11 x12 x13 x14 x15 g s.zf m
  rw [roundP_eq _ _ _ _ ror16_eq ror12_eq ror8_eq ror7_eq] at this
  exact this

theorem decjz_stage (rb : UInt64) (x10 x11 x12 x13 x14 x15 : V4) (s : State) (S W : St) (g : Vector UInt64 16) (m : Memory)
    (h : viewW s = atPc x10 x11 x12 x13 x14 x15 60 S W g m) :
    viewW (runV rb compress_in_place 2 s)
      = atPc x10 x11 x12 x13 x14 x15 (if g[rax].toUInt8 - 1 == 0 then 76 else 62) S W (decAl g) m := by
  rw [of_viewW h]
  show viewW (stepV rb compress_in_place (stepV rb compress_in_place _)) = _
  rw [dec_raw, dec_b8_zf]
  cases hz : (g[rax].toUInt8 - 1 == 0)
  · rw [jz_not_taken]; rfl
  · rw [jz_taken]; rfl

theorem perm_stage (rb : UInt64) (x10 x11 x12 x13 x14 x15 : V4) (s : State) (S W : St) (g : Vector UInt64 16) (m : Memory)
    (h : viewW s = atPc x10 x11 x12 x13 x14 x15 62 S W g m) :
    viewW (runV rb compress_in_place 14 s) = atPc x10 x11 x12 x13 x14 x15 26 S (Spec.permute W) g m := by
  rw [of_viewW h]
  exact perm_raw rb _ _ _ _ W s.xmm[8] s.xmm[9] x10 x11 x12 x13 x14 x15 g s.zf m

/-- one trip round the loop while `al - 1 ≠ 0`: 34 + 2 + 14 instructions -/
theorem iteration (rb : UInt64) (x10 x11 x12 x13 x14 x15 : V4) (s : State) (S W : St) (g : Vector UInt64 16) (m : Memory)
    (h : viewW s = atPc x10 x11 x12 x13 x14 x15 26 S W g m) (hal : (g[rax].toUInt8 - 1 == 0) = false) :
    viewW (runV rb compress_in_place 50 s) = atPc x10 x11 x12 x13 x14 x15 26 (Spec.round S W) (Spec.permute W) (decAl g) m := by
  rw [show 50 = 34 + (2 + 14) from rfl, runV_add, runV_add]
  have h2 := decjz_stage rb _ _ _ _ _ _ _ _ _ _ _ (body_stage rb _ _ _ _ _ _ s S W g m h)
  rw [hal] at h2
  exact perm_stage rb _ _ _ _ _ _ _ _ _ _ _ h2

/-- the last trip: `al - 1 = 0`, the branch to the epilogue is taken: 34 + 2 instructions -/
theorem last_iteration (rb : UInt64) (x10 x11 x12 x13 x14 x15 : V4) (s : State) (S W : St) (g : Vector UInt64 16) (m : Memory)
    (h : viewW s = atPc x10 x11 x12 x13 x14 x15 26 S W g m) (hal : (g[rax].toUInt8 - 1 == 0) = true) :
    viewW (runV rb compress_in_place 36 s) = atPc x10 x11 x12 x13 x14 x15 76 (Spec.round S W) W (decAl g) m := by
  rw [show 36 = 34 + 2 from rfl, runV_add]
  have h2 := decjz_stage rb _ _ _ _ _ _ _ _ _ _ _ (body_stage rb _ _ _ _ _ _ s S W g m h)
  rw [hal] at h2
  exact h2

/-- the epilogue: the whole final state, from the tracked state at instruction 76 -/
theorem epilogue_stage (rb : UInt64) (x10 x11 x12 x13 x14 x15 : V4) (s : State) (S W : St) (g : Vector UInt64 16) (m : Memory)
    (h : viewW s = atPc x10 x11 x12 x13 x14 x15 76 S W g m) :
    runV rb compress_in_place 10 s
    = ⟨#v[_mm_xor_si128 (row S 0) (row S 2), _mm_xor_si128 (row S 1) (row S 3), row S 2, row S 3, grp0 W, grp1 W,
          load128 (outMem m g[rcx] (row S 0) (row S 1) (row S 2) (row S 3)) (g[rsp] + UInt64.ofNat 0),
          load128 (outMem m g[rcx] (row S 0) (row S 1) (row S 2) (row S 3)) (g[rsp] + UInt64.ofNat 16),
          load128 (outMem m g[rcx] (row S 0) (row S 1) (row S 2) (row S 3)) (g[rsp] + UInt64.ofNat 32),
          load128 (outMem m g[rcx] (row S 0) (row S 1) (row S 2) (row S 3)) (g[rsp] + UInt64.ofNat 48),
          x10, x11, x12, x13, x14, x15],
       (g.set rsp (g[rsp] + UInt64.ofNat 72)).set rsp ((g.set rsp (g[rsp] + UInt64.ofNat 72))[rsp] + 8),
       g[rsp] + UInt64.ofNat 72 == 0,
       outMem m g[rcx] (row S 0) (row S 1) (row S 2) (row S 3), 85, .returned,
       (((true && aligned16 (g[rsp] + UInt64.ofNat 0)) && aligned16 (g[rsp] + UInt64.ofNat 16)) && aligned16 (g[rsp] + UInt64.ofNat 32))
         && aligned16 (g[rsp] + UInt64.ofNat 48)⟩ := by
  rw [of_viewW h]
  exact epilogue_raw rb _ _ _ _ _ _ _ _ s.xmm[8] s.xmm[9] x10 x11 x12 x13 x14 x15 g s.zf m

/-! ### the whole routine -/

/-- the 32 output bytes -/
def outBytes (s : State) : List UInt8 :=
  bytesOfWords (first8 (Spec.compress (readWords s.mem s.gpr[rcx] 8) (readWords s.mem s.gpr[rdx] 16) s.gpr[r9]
    s.gpr[r8].toUInt8.toUInt32 (flagsArg s).toUInt32))

theorem outMem_eq (m : Memory) (p : UInt64) (S : St) (hcv : CV) :
    outMem m p (row S 0) (row S 1) (row S 2) (row S 3) = writeBytes m p (bytesOfWords (first8 (Spec.feedForward hcv S))) := by
  unfold outMem
  rw [xor_rows_lo, xor_rows_hi, store2_eq, first8_feedForward]

theorem dec7W_rsp (s : State) : (dec7 (gprAfterPrologueW s))[rsp] = spW s.gpr[rsp] := by
  rw [dec7_ne _ rsp (by decide)]; rfl
theorem dec7W_rcx (s : State) : (dec7 (gprAfterPrologueW s))[rcx] = s.gpr[rcx] := by
  rw [dec7_ne _ rcx (by decide)]; rfl

/-- the register file at the end -/
def gprFinalW (s : State) : Vector UInt64 16 :=
  ((dec7 (gprAfterPrologueW s)).set rsp (spW s.gpr[rsp] + UInt64.ofNat 72)).set rsp
    (((dec7 (gprAfterPrologueW s)).set rsp (spW s.gpr[rsp] + UInt64.ofNat 72))[rsp] + 8)

/-- from any state satisfying the entry conditions (372 instructions are executed) -/
theorem run_compress_in_place (rb : UInt64) (s : State) (h : EntryW rb s) :
    (runV rb compress_in_place 372 s).status = .returned ∧
    (runV rb compress_in_place 372 s).ok = true ∧
    (runV rb compress_in_place 372 s).mem = writeBytes (memSaved s) s.gpr[rcx] (outBytes s) ∧
    (runV rb compress_in_place 372 s).gpr = gprFinalW s ∧
    ((runV rb compress_in_place 372 s).xmm[6] = s.xmm[6] ∧ (runV rb compress_in_place 372 s).xmm[7] = s.xmm[7] ∧
     (runV rb compress_in_place 372 s).xmm[8] = s.xmm[8] ∧ (runV rb compress_in_place 372 s).xmm[9] = s.xmm[9] ∧
     (runV rb compress_in_place 372 s).xmm[10] = s.xmm[10] ∧ (runV rb compress_in_place 372 s).xmm[11] = s.xmm[11] ∧
     (runV rb compress_in_place 372 s).xmm[12] = s.xmm[12] ∧ (runV rb compress_in_place 372 s).xmm[13] = s.xmm[13] ∧
     (runV rb compress_in_place 372 s).xmm[14] = s.xmm[14] ∧ (runV rb compress_in_place 372 s).xmm[15] = s.xmm[15]) := by
  have h0 := prologue_stage rb s h
  have a0 : (gprAfterPrologueW s)[rax].toUInt8 = 7 := by
    show (merge .b8 _ 7).toUInt8 = 7
    rw [merge_b8_low]; rfl
  have h7 := loop7V viewW rb compress_in_place 50 36 (atPc s.xmm[10] s.xmm[11] s.xmm[12] s.xmm[13] s.xmm[14] s.xmm[15] 26)
    (atPc s.xmm[10] s.xmm[11] s.xmm[12] s.xmm[13] s.xmm[14] s.xmm[15] 76)
    (iteration rb _ _ _ _ _ _) (last_iteration rb _ _ _ _ _ _) _ _ _ _ _ h0 a0
  have he := epilogue_stage rb _ _ _ _ _ _ _ _ _ _ _ h7
  -- the save area read back through the output stores
  have hout : outMem (memSaved s) s.gpr[rcx] _ _ _ _ = writeBytes (memSaved s) s.gpr[rcx] (outBytes s) :=
    outMem_eq (memSaved s) s.gpr[rcx] (Spec.rounds7 (Spec.initState (readWords s.mem s.gpr[rcx] 8) s.gpr[r9]
      s.gpr[r8].toUInt8.toUInt32 (flagsArg s).toUInt32) (readWords s.mem s.gpr[rdx] 16)) (readWords s.mem s.gpr[rcx] 8)
  have hsv := load_saved s.mem (spW s.gpr[rsp]) s.xmm[6] s.xmm[7] s.xmm[8] s.xmm[9]
  have hd : Disjoint (spW s.gpr[rsp]) 64 s.gpr[rcx] (outBytes s).length := by
    rw [show (outBytes s).length = 32 from bytesOfWords8_length _]; exact h.frame_cv.symm
  have l0 := load128_writeBytes_disjoint_at (memSaved s) s.gpr[rcx] (outBytes s) (spW s.gpr[rsp]) 64 0 hd (by decide)
  have l1 := load128_writeBytes_disjoint_at (memSaved s) s.gpr[rcx] (outBytes s) (spW s.gpr[rsp]) 64 16 hd (by decide)
  have l2 := load128_writeBytes_disjoint_at (memSaved s) s.gpr[rcx] (outBytes s) (spW s.gpr[rsp]) 64 32 hd (by decide)
  have l3 := load128_writeBytes_disjoint_at (memSaved s) s.gpr[rcx] (outBytes s) (spW s.gpr[rsp]) 64 48 hd (by decide)
  have hal : ((((true && aligned16 (spW s.gpr[rsp] + UInt64.ofNat 0)) && aligned16 (spW s.gpr[rsp] + UInt64.ofNat 16))
      && aligned16 (spW s.gpr[rsp] + UInt64.ofNat 32)) && aligned16 (spW s.gpr[rsp] + UInt64.ofNat 48)) = true := by
    unfold spW
    rw [frame_aligned _ h.rsp_aligned 0 (by decide), frame_aligned _ h.rsp_aligned 16 (by decide),
      frame_aligned _ h.rsp_aligned 32 (by decide), frame_aligned _ h.rsp_aligned 48 (by decide)]
    rfl
  rw [dec7W_rsp, dec7W_rcx, hout, l0, l1, l2, l3, hal] at he
  unfold memSaved at he
  rw [hsv.1, hsv.2.1, hsv.2.2.1, hsv.2.2.2] at he
  rw [show 372 = 26 + ((50 + (50 + (50 + (50 + (50 + (50 + 36)))))) + 10) by omega, runV_add, runV_add, he]
  exact ⟨rfl, rfl, rfl, rfl, rfl, rfl, rfl, rfl, rfl, rfl, rfl, rfl, rfl, rfl⟩

theorem gprFinalW_rsp (s : State) : (gprFinalW s)[rsp] = s.gpr[rsp] + 8 := by
  unfold gprFinalW
  simp only [Fin.getElem_fin, Vector.getElem_set_self]
  exact frame_pop _

theorem gprFinalW_frame (s : State) (r : Reg) (h0 : r ≠ rax) (h8 : r ≠ r8) (h4 : r ≠ rsp) : (gprFinalW s)[r] = s.gpr[r] := by
  unfold gprFinalW
  simp only [Fin.getElem_fin]
  rw [Vector.getElem_set_ne _ _ (fun e => h4 (Fin.ext e.symm)), Vector.getElem_set_ne _ _ (fun e => h4 (Fin.ext e.symm))]
  have := dec7_ne (gprAfterPrologueW s) r h0
  simp only [Fin.getElem_fin] at this
  rw [this]
  obtain ⟨n, hn⟩ := r
  have c0 : n ≠ 0 := fun e => h0 (Fin.ext e)
  have c8 : n ≠ 8 := fun e => h8 (Fin.ext e)
  have c4 : n ≠ 4 := fun e => h4 (Fin.ext e)
  have : n = 1 ∨ n = 2 ∨ n = 3 ∨ n = 5 ∨ n = 6 ∨ n = 7 ∨ n = 9 ∨ n = 10 ∨ n = 11 ∨ n = 12 ∨ n = 13 ∨ n = 14 ∨ n = 15 := by omega
  rcases this with rfl | rfl | rfl | rfl | rfl | rfl | rfl | rfl | rfl | rfl | rfl | rfl | rfl <;> rfl

/-! ### main theorems -/

/-- `blake3_compress_in_place_avx512(cv, block, block_len, counter, flags)`, Windows x64 calling convention (rcx = cv,
rdx = block, r8 = block_len, r9 = counter, flags = the byte at [rsp + 0x28]), ANY register contents (only `r8b` is read
of r8, only one byte of the `flags` slot): after exactly 372 instructions the routine has returned without a fault; memory
is the initial memory with (1) the 64 bytes `[rsp - 72, rsp - 8)` of the routine's own frame overwritten by the entry values
of XMM6-XMM9 and (2) the 32 bytes at `cv` replaced by the first eight words of `Spec.compress cv block counter block_len
flags`; `rsp` is popped; every general purpose register other than rax, r8, rsp is unchanged (in particular the callee-saved
rbx, rbp, rsi, rdi, r12-r15); XMM6-XMM15 (callee-saved on Windows) have their entry values. -/
theorem compress_in_place_correct (rb : UInt64) (s : State) (h : EntryW rb s) :
    (runV rb compress_in_place 372 s).status = .returned ∧
    (runV rb compress_in_place 372 s).ok = true ∧
    (runV rb compress_in_place 372 s).mem
      = writeBytes (writeBytes s.mem (s.gpr[rsp] - 72) (saved s.xmm[6] s.xmm[7] s.xmm[8] s.xmm[9])) s.gpr[rcx]
          (bytesOfWords (first8 (Spec.compress (readWords s.mem s.gpr[rcx] 8) (readWords s.mem s.gpr[rdx] 16) s.gpr[r9]
            s.gpr[r8].toUInt8.toUInt32 (s.mem (s.gpr[rsp] + 40)).toUInt32))) ∧
    (runV rb compress_in_place 372 s).gpr[rsp] = s.gpr[rsp] + 8 ∧
    (∀ r : Reg, r ≠ rax → r ≠ r8 → r ≠ rsp → (runV rb compress_in_place 372 s).gpr[r] = s.gpr[r]) ∧
    (∀ i : Fin 16, 6 ≤ i.val → (runV rb compress_in_place 372 s).xmm[i] = s.xmm[i]) := by
  obtain ⟨h1, h2, h3, h4, x6, x7, x8, x9, x10, x11, x12, x13, x14, x15⟩ := run_compress_in_place rb s h
  refine ⟨h1, h2, h3, ?_, ?_, ?_⟩
  · rw [h4]; exact gprFinalW_rsp s
  · intro r a b c; rw [h4]; exact gprFinalW_frame s r a b c
  · intro i hi
    obtain ⟨n, hn⟩ := i
    have : n = 6 ∨ n = 7 ∨ n = 8 ∨ n = 9 ∨ n = 10 ∨ n = 11 ∨ n = 12 ∨ n = 13 ∨ n = 14 ∨ n = 15 := by
      simp only at hi; omega
    rcases this with rfl | rfl | rfl | rfl | rfl | rfl | rfl | rfl | rfl | rfl
    · exact x6
    · exact x7
    · exact x8
    · exact x9
    · exact x10
    · exact x11
    · exact x12
    · exact x13
    · exact x14
    · exact x15

/-- read back: the eight words at `cv` afterwards, and the frame condition byte by byte: a byte outside `cv` and outside
the routine's frame `[rsp - 72, rsp - 8)` is unchanged -/
theorem compress_in_place_correct_words (rb : UInt64) (s : State) (h : EntryW rb s) :
    readWords (runV rb compress_in_place 372 s).mem s.gpr[rcx] 8
      = first8 (Spec.compress (readWords s.mem s.gpr[rcx] 8) (readWords s.mem s.gpr[rdx] 16) s.gpr[r9]
          s.gpr[r8].toUInt8.toUInt32 (s.mem (s.gpr[rsp] + 40)).toUInt32) ∧
    ∀ q : UInt64, 32 ≤ (q - s.gpr[rcx]).toNat → 64 ≤ (q - (s.gpr[rsp] - 72)).toNat →
      (runV rb compress_in_place 372 s).mem q = s.mem q := by
  obtain ⟨_, _, h3, _⟩ := compress_in_place_correct rb s h
  rw [h3]
  refine ⟨readWords_writeBytes _ _ _, ?_⟩
  intro q hq hq'
  rw [writeBytes_frame _ _ _ _ (by rw [bytesOfWords8_length]; exact hq), writeBytes_frame _ _ _ _ (by rw [saved_length]; exact hq')]

/-- more fuel changes nothing: the routine has returned -/
theorem compress_in_place_fuel (rb : UInt64) (s : State) (h : EntryW rb s) (n : Nat) :
    runV rb compress_in_place (372 + n) s = runV rb compress_in_place 372 s := by
  rw [runV_add]
  exact runV_returned _ _ _ _ (compress_in_place_correct rb s h).1

/-! the hypotheses are satisfiable: a concrete entry state (data section at 0x30040, cv at 0x10008, block at 0x20001,
stack pointer 0x7fff0008, `block_len = 64` with garbage above it in r8) -/

def exampleState : State :=
  { xmm := Vector.replicate 16 #v[0xDEADBEEF, 1, 2, 3]
    gpr := #v[0x1111111111111111, 0x10008, 0x20001, 3, 0x7fff0008, 5, 6, 7, 0xA5C3A5C3A5C3A540, 9, 10, 11, 12, 13, 14, 15]
    zf := true, mem := writeBytes (fun _ => 0x5A) 0x30040 rodata, pc := 0, status := .running, ok := true }

set_option maxRecDepth 8000 in
example : EntryW 0x30040 exampleState :=
  ⟨rfl, rfl, rfl, ⟨by decide, holdsAt_writeBytes _ _ _ (by decide)⟩, by decide,
   disjoint_of_far _ _ _ _ (by decide) (by decide), disjoint_of_far _ _ _ _ (by decide) (by decide),
   disjoint_of_far _ _ _ _ (by decide) (by decide)⟩

end B3.AsmSem.Avx512.Win
