/-
`blake3_compress_in_place_avx512` (generated instruction list `B3.Gen.AsmAvx512.compress_in_place`):
the machine semantics executed symbolically on each straight-line piece of the routine, cut BY
POSITION (instruction indices of the generated list):
  0..21   prologue (loads, `movzx` of the two 8-bit arguments, row 3 from rcx / rdx, message grouping, `mov al, 7`)
  22..55  one round (34 instructions)           56 `dec al`     57 `jz 9f`
  58..71  message permutation + `jmp 9b`        72..76 feed-forward, two stores, `ret`
Each lemma is an equation between the tracked part (`view2`: everything but XMM8-15 and ZF) of the
state after `runV`ning the piece from a symbolic state and an explicit value; it is closed by
`kernel_rfl`, i.e. by evaluation of `runV` in the kernel (see B3/Simd/KernelRfl.lean; nothing is
assumed, a wrong equation is rejected).
-/
import B3.Asm.Avx512Lemmas
import B3.Simd.KernelRfl
import B3.Gen.AsmAvx512
namespace B3.AsmSem.Avx512.Unix
open B3 B3.Simd B3.AsmSem B3.AsmSem.Avx512 B3.Gen.AsmAvx512

/-- instructions 0..21 from ANY state at `pc = 0` -/
theorem prologue_raw (rb : UInt64) (x0 x1 x2 x3 x4 x5 x6 x7 x8 x9 x10 x11 x12 x13 x14 x15 : V4)
    (g0 g1 g2 g3 g4 g5 g6 g7 g8 g9 g10 g11 g12 g13 g14 g15 : UInt64) (z : Bool) (m : Memory) :
    view2 (runV rb compress_in_place 22
      ⟨#v[x0, x1, x2, x3, x4, x5, x6, x7, x8, x9, x10, x11, x12, x13, x14, x15],
       #v[g0, g1, g2, g3, g4, g5, g6, g7, g8, g9, g10, g11, g12, g13, g14, g15], z, m, 0, .running, true⟩)
    = ⟨load128 m (g7 + UInt64.ofNat 0), load128 m (g7 + UInt64.ofNat 16), load128 m (rb + UInt64.ofNat 256),
       #v[g1.toUInt32, (g1 >>> 32).toUInt32, (lenFlagsRaw g2 g8).toUInt32, (lenFlagsRaw g2 g8 >>> 32).toUInt32],
       grp0 (blockRaw m g6), grp1 (blockRaw m g6), grp2 (blockRaw m g6), grp3 (blockRaw m g6),
       #v[merge .b8 (trunc .d32 (trunc .b8 g8) <<< 32) 7, g1, lenFlagsRaw g2 g8, g3, g4, g5, g6, g7, g8, g9, g10, g11, g12, g13, g14, g15],
       m, 22, .running, true && aligned16 (rb + UInt64.ofNat 256)⟩ := by
  kernel_rfl

/-- instructions 22..55: one round on the rows, message registers unchanged -/
theorem body_raw (rb : UInt64) (S W : St) (j8 j9 j10 j11 j12 j13 j14 j15 : V4) (g : Vector UInt64 16) (z : Bool) (m : Memory) :
    view2 (runV rb compress_in_place 34
      ⟨#v[row S 0, row S 1, row S 2, row S 3, grp0 W, grp1 W, grp2 W, grp3 W, j8, j9, j10, j11, j12, j13, j14, j15],
       g, z, m, 22, .running, true⟩)
    = ⟨row (roundP ror16 ror12 ror8 ror7 S (fun i => W[i])) 0, row (roundP ror16 ror12 ror8 ror7 S (fun i => W[i])) 1,
       row (roundP ror16 ror12 ror8 ror7 S (fun i => W[i])) 2, row (roundP ror16 ror12 ror8 ror7 S (fun i => W[i])) 3,
       grp0 W, grp1 W, grp2 W, grp3 W, g, m, 56, .running, true⟩ := by
  atoms16 S; atoms16 W
  kernel_rfl

/-- instruction 56, `dec al` -/
theorem dec_raw (rb : UInt64) (x : Vector V4 16) (g : Vector UInt64 16) (z : Bool) (m : Memory) (ok : Bool) :
    stepV rb compress_in_place ⟨x, g, z, m, 56, .running, ok⟩
      = ⟨x, decAl g, trunc .b8 (trunc .b8 g[rax] - 1) == 0, m, 57, .running, ok⟩ := by
  kernel_rfl

/-- instruction 57, `jz 9f`, ZF set -/
theorem jz_taken (rb : UInt64) (x : Vector V4 16) (g : Vector UInt64 16) (m : Memory) (ok : Bool) :
    stepV rb compress_in_place ⟨x, g, true, m, 57, .running, ok⟩ = ⟨x, g, true, m, 72, .running, ok⟩ := by
  kernel_rfl

/-- instruction 57, `jz 9f`, ZF clear -/
theorem jz_not_taken (rb : UInt64) (x : Vector V4 16) (g : Vector UInt64 16) (m : Memory) (ok : Bool) :
    stepV rb compress_in_place ⟨x, g, false, m, 57, .running, ok⟩ = ⟨x, g, false, m, 58, .running, ok⟩ := by
  kernel_rfl

/-- instructions 58..71: the message registers go from the grouped words of `W` to those of `permute W`; back to 22 -/
theorem perm_raw (rb : UInt64) (r0 r1 r2 r3 : V4) (W : St) (j8 j9 j10 j11 j12 j13 j14 j15 : V4)
    (g : Vector UInt64 16) (z : Bool) (m : Memory) :
    view2 (runV rb compress_in_place 14
      ⟨#v[r0, r1, r2, r3, grp0 W, grp1 W, grp2 W, grp3 W, j8, j9, j10, j11, j12, j13, j14, j15], g, z, m, 58, .running, true⟩)
    = ⟨r0, r1, r2, r3, grp0 (Spec.permute W), grp1 (Spec.permute W), grp2 (Spec.permute W), grp3 (Spec.permute W),
       g, m, 22, .running, true⟩ := by
  atoms16 W
  kernel_rfl

/-- instructions 72..76: feed-forward of the low half, two stores at `[rdi]`, `[rdi+16]`, `ret` -/
theorem epilogue_raw (rb : UInt64) (r0 r1 r2 r3 m0 m1 m2 m3 j8 j9 j10 j11 j12 j13 j14 j15 : V4)
    (g : Vector UInt64 16) (z : Bool) (m : Memory) :
    view2 (runV rb compress_in_place 5
      ⟨#v[r0, r1, r2, r3, m0, m1, m2, m3, j8, j9, j10, j11, j12, j13, j14, j15], g, z, m, 72, .running, true⟩)
    = ⟨_mm_xor_si128 r0 r2, _mm_xor_si128 r1 r3, r2, r3, m0, m1, m2, m3,
       g.set rsp (g[rsp] + 8),
       store128 (store128 m (g[rdi] + UInt64.ofNat 0) (_mm_xor_si128 r0 r2)) (g[rdi] + UInt64.ofNat 16) (_mm_xor_si128 r1 r3),
       76, .returned, true⟩ := by
  kernel_rfl

end B3.AsmSem.Avx512.Unix
