/-
Facts about the machine semantics `B3/Asm/Sse.lean` that do not depend on a particular routine:
running (`run_add`, `run_returned`), the byte-shuffle / shift forms of the four rotations, the loop
counter in `al`, memory (a byte list held at an address, reading words, the effect of the two
16-byte stores).
-/
import B3.Asm.Base
namespace B3.AsmSem
open B3 B3.Simd

/-! ### running -/

theorem run_add (rb : UInt64) (p : List Instr) (a b : Nat) (s : State) :
    run rb p (a + b) s = run rb p b (run rb p a s) := by
  induction a generalizing s with
  | zero => simp [run]
  | succ n ih => rw [Nat.add_right_comm]; exact ih _

theorem run_returned (rb : UInt64) (p : List Instr) (n : Nat) (s : State) (h : s.status = .returned) :
    run rb p n s = s := by
  induction n with
  | zero => rfl
  | succ n ih =>
    show run rb p n (step rb p s) = s
    have : step rb p s = s := by unfold step; rw [h]
    rw [this, ih]

/-! ### rotations -/

theorem bytes_decomp (n : Nat) (h : n < 2 ^ 32) :
    ∃ b0 b1 b2 b3, b0 < 256 ∧ b1 < 256 ∧ b2 < 256 ∧ b3 < 256 ∧ n = b0 + 256 * b1 + 65536 * b2 + 16777216 * b3 :=
  ⟨n % 256, n / 256 % 256, n / 65536 % 256, n / 16777216, by omega, by omega, by omega, by omega, by omega⟩
theorem rot_bytes16 (x : UInt32) : le32 (byteOf x 2) (byteOf x 3) (byteOf x 0) (byteOf x 1) = rotr x 16 := by
  apply UInt32.toNat_inj.mp
  have hd : (32 - 16 : UInt32) = 16 := by decide
  have hs : (16 : UInt32).toNat % 32 = 16 := by decide
  simp only [rotr, hd, le32, byteOf, UInt32.toNat_ofNat', UInt8.toNat_ofNat', UInt32.toNat_or, UInt32.toNat_shiftRight,
    UInt32.toNat_shiftLeft, hs]
  clear hs hd
  obtain ⟨b0, b1, b2, b3, h0, h1, h2, h3, hx⟩ := bytes_decomp x.toNat x.toNat_lt
  generalize x.toNat = n at *
  subst hx
  have e1 : (b0 + 256 * b1 + 65536 * b2 + 16777216 * b3) <<< 16 % 2 ^ 32 = (b0 + 256 * b1) <<< 16 := by
    simp only [Nat.shiftLeft_eq]; omega
  have e2 : (b0 + 256 * b1 + 65536 * b2 + 16777216 * b3) >>> 16 = b2 + 256 * b3 := by
    simp only [Nat.shiftRight_eq_div_pow]; omega
  rw [e1, e2, Nat.or_comm, ← Nat.shiftLeft_add_eq_or_of_lt (by omega), Nat.shiftLeft_eq]
  simp only [Nat.reducePow, Nat.div_one]
  have q0 : (b0 + 256 * b1 + 65536 * b2 + 16777216 * b3) % 256 = b0 := by omega
  have q1 : (b0 + 256 * b1 + 65536 * b2 + 16777216 * b3) / 256 % 256 = b1 := by omega
  have q2 : (b0 + 256 * b1 + 65536 * b2 + 16777216 * b3) / 65536 % 256 = b2 := by omega
  have q3 : (b0 + 256 * b1 + 65536 * b2 + 16777216 * b3) / 16777216 % 256 = b3 := by omega
  rw [q0, q1, q2, q3]
  clear q0 q1 q2 q3 e1 e2
  omega

theorem rot_bytes8 (x : UInt32) : le32 (byteOf x 1) (byteOf x 2) (byteOf x 3) (byteOf x 0) = rotr x 8 := by
  apply UInt32.toNat_inj.mp
  have hd : (32 - 8 : UInt32) = 24 := by decide
  have hs : (24 : UInt32).toNat % 32 = 24 := by decide
  have hs' : (8 : UInt32).toNat % 32 = 8 := by decide
  simp only [rotr, hd, le32, byteOf, UInt32.toNat_ofNat', UInt8.toNat_ofNat', UInt32.toNat_or, UInt32.toNat_shiftRight,
    UInt32.toNat_shiftLeft, hs, hs']
  clear hs hs' hd
  obtain ⟨b0, b1, b2, b3, h0, h1, h2, h3, hx⟩ := bytes_decomp x.toNat x.toNat_lt
  generalize x.toNat = n at *
  subst hx
  have e1 : (b0 + 256 * b1 + 65536 * b2 + 16777216 * b3) <<< 24 % 2 ^ 32 = b0 <<< 24 := by
    simp only [Nat.shiftLeft_eq]; omega
  have e2 : (b0 + 256 * b1 + 65536 * b2 + 16777216 * b3) >>> 8 = b1 + 256 * b2 + 65536 * b3 := by
    simp only [Nat.shiftRight_eq_div_pow]; omega
  rw [e1, e2, Nat.or_comm, ← Nat.shiftLeft_add_eq_or_of_lt (by omega), Nat.shiftLeft_eq]
  simp only [Nat.reducePow, Nat.div_one]
  have q0 : (b0 + 256 * b1 + 65536 * b2 + 16777216 * b3) % 256 = b0 := by omega
  have q1 : (b0 + 256 * b1 + 65536 * b2 + 16777216 * b3) / 256 % 256 = b1 := by omega
  have q2 : (b0 + 256 * b1 + 65536 * b2 + 16777216 * b3) / 65536 % 256 = b2 := by omega
  have q3 : (b0 + 256 * b1 + 65536 * b2 + 16777216 * b3) / 16777216 % 256 = b3 := by omega
  rw [q0, q1, q2, q3]
  clear q0 q1 q2 q3 e1 e2
  omega
theorem rot_shift12 (x : UInt32) : sll32 x 20 ||| srl32 x 12 = rotr x 12 := by
  have hd : (32 - 12 : UInt32) = 20 := by decide
  simp only [rotr, hd, sll32, srl32]
  rw [UInt32.or_comm]
  rfl

theorem rot_shift7 (x : UInt32) : sll32 x 25 ||| srl32 x 7 = rotr x 7 := by
  have hd : (32 - 7 : UInt32) = 25 := by decide
  simp only [rotr, hd, sll32, srl32]
  rw [UInt32.or_comm]
  rfl

theorem xor_eq_or_disjoint (a b k : Nat) (ha : a < 2 ^ k) : a ^^^ (b <<< k) = a ||| (b <<< k) := by
  apply Nat.eq_of_testBit_eq
  intro i
  simp only [Nat.testBit_xor, Nat.testBit_or, Nat.testBit_shiftLeft]
  by_cases h : k ≤ i
  · have : a.testBit i = false := Nat.testBit_lt_two_pow (Nat.lt_of_lt_of_le ha (Nat.pow_le_pow_right (by decide) h))
    simp [this]
  · simp [h]

/-- `psrld 8; pslld 24; pxor` (SSE2 has no byte shuffle) -/
theorem srl32_8 (x : UInt32) : srl32 x 8 = x >>> 8 := rfl
theorem sll32_24 (x : UInt32) : sll32 x 24 = x <<< 24 := rfl

theorem rot_xor8 (x : UInt32) : srl32 x 8 ^^^ sll32 x 24 = rotr x 8 := by
  have hd : (32 - 8 : UInt32) = 24 := by decide
  rw [srl32_8, sll32_24]
  have : (x >>> 8) ^^^ (x <<< 24) = (x >>> 8) ||| (x <<< 24) := by
    apply UInt32.toNat_inj.mp
    have hs : (24 : UInt32).toNat % 32 = 24 := by decide
    have hs' : (8 : UInt32).toNat % 32 = 8 := by decide
    simp only [UInt32.toNat_xor, UInt32.toNat_or, UInt32.toNat_shiftRight, UInt32.toNat_shiftLeft, hs, hs']
    have hx := x.toNat_lt
    have e1 : x.toNat <<< 24 % 2 ^ 32 = (x.toNat % 256) <<< 24 := by
      simp only [Nat.shiftLeft_eq]; omega
    rw [e1]
    apply xor_eq_or_disjoint
    rw [Nat.shiftRight_eq_div_pow]
    omega
  rw [this]
  simp only [rotr, hd]

/-- `pshuflw 0xB1; pshufhw 0xB1`: the two 16-bit halves of every doubleword swapped -/
theorem rot_halves16 (x : UInt32) : mk32 (half x 1) (half x 0) = rotr x 16 := by
  have hd : (32 - 16 : UInt32) = 16 := by decide
  have e : (x &&& 0xFFFF) <<< 16 = x <<< 16 := by
    apply UInt32.toNat_inj.mp
    have hs : (16 : UInt32).toNat % 32 = 16 := by decide
    have hm : (0xFFFF : UInt32).toNat = 2 ^ 16 - 1 := by decide
    simp only [UInt32.toNat_shiftLeft, UInt32.toNat_and, hs, hm, Nat.and_two_pow_sub_one_eq_mod, Nat.shiftLeft_eq]
    have := x.toNat_lt
    omega
  simp only [mk32, half, rotr, hd]
  simp only [Nat.reduceMod, ↓reduceIte, Nat.one_ne_zero, e]
  
theorem and_ones (x : UInt32) : x &&& 0xFFFFFFFF = x := by
  apply UInt32.toBitVec_inj.mp
  simp only [UInt32.toBitVec_and]
  show x.toBitVec &&& BitVec.allOnes 32 = x.toBitVec
  exact BitVec.and_allOnes

/-! ### the loop counter in `al` -/

theorem merge_b8_low (old v : UInt64) : (merge .b8 old v).toUInt8 = v.toUInt8 := by
  apply UInt8.toNat_inj.mp
  simp only [merge, trunc, UInt64.toNat_toUInt8, UInt64.toNat_or, UInt64.toNat_and, UInt8.toNat_toUInt64]
  rw [Nat.or_mod_two_pow, Nat.and_mod_two_pow]
  have : (0xFFFFFFFFFFFFFF00 : UInt64).toNat % 2 ^ 8 = 0 := by decide
  rw [this]
  simp

theorem dec_b8_low (a : UInt64) : (trunc .b8 (trunc .b8 a - 1)).toUInt8 = a.toUInt8 - 1 := by
  show ((a.toUInt8.toUInt64 - 1).toUInt8.toUInt64).toUInt8 = a.toUInt8 - 1
  rw [UInt8.toUInt8_toUInt64, UInt64.toUInt8_sub, UInt8.toUInt8_toUInt64]
  rfl

theorem dec_b8_zf (a : UInt64) : (trunc .b8 (trunc .b8 a - 1) == 0) = (a.toUInt8 - 1 == 0) := by
  show ((a.toUInt8.toUInt64 - 1).toUInt8.toUInt64 == 0) = (a.toUInt8 - 1 == 0)
  rw [UInt64.toUInt8_sub, UInt8.toUInt8_toUInt64]
  have h1 : (1 : UInt64).toUInt8 = 1 := rfl
  rw [h1]
  generalize a.toUInt8 - 1 = u
  by_cases h : u = 0
  · subst h; rfl
  · have h' : u.toUInt64 ≠ (0 : UInt64) := fun e => h (UInt8.toUInt64_inj.mp e)
    rw [beq_eq_false_iff_ne.mpr h', beq_eq_false_iff_ne.mpr h]

/-- the register file after `dec al` -/
def decAl (g : Vector UInt64 16) : Vector UInt64 16 :=
  g.set rax (merge .b8 g[rax] (trunc .b8 (trunc .b8 g[rax] - 1)))

theorem decAl_low (g : Vector UInt64 16) : (decAl g)[rax].toUInt8 = g[rax].toUInt8 - 1 := by
  unfold decAl
  simp only [Fin.getElem_fin, Vector.getElem_set_self]
  rw [merge_b8_low, dec_b8_low]

theorem decAl_ne (g : Vector UInt64 16) (r : Reg) (h : r ≠ rax) : (decAl g)[r] = g[r] := by
  unfold decAl
  simp only [Fin.getElem_fin]
  rw [Vector.getElem_set_ne]
  intro e
  apply h
  exact Fin.ext e.symm

/-! ### memory -/

/-- memory `m` holds the bytes `bs` from address `a` on (addresses wrap) -/
def HoldsAt (m : Memory) (a : UInt64) (bs : List UInt8) : Prop :=
  ∀ i, i < bs.length → m (a + UInt64.ofNat i) = bs.getD i 0

/-- `n` little-endian doublewords read from address `p` on -/
def readWords (m : Memory) (p : UInt64) (n : Nat) : Vector UInt32 n :=
  Vector.ofFn fun i => m.word (p + UInt64.ofNat (4 * i.val))

theorem addr_add (a : UInt64) (o k : Nat) : a + UInt64.ofNat o + UInt64.ofNat k = a + UInt64.ofNat (o + k) := by
  rw [UInt64.add_assoc, UInt64.ofNat_add]

theorem load128_bytes (m : Memory) (a : UInt64) :
    load128 m a
      = #v[le32 (m (a + UInt64.ofNat 0)) (m (a + UInt64.ofNat 1)) (m (a + UInt64.ofNat 2)) (m (a + UInt64.ofNat 3)),
           le32 (m (a + UInt64.ofNat 4)) (m (a + UInt64.ofNat 5)) (m (a + UInt64.ofNat 6)) (m (a + UInt64.ofNat 7)),
           le32 (m (a + UInt64.ofNat 8)) (m (a + UInt64.ofNat 9)) (m (a + UInt64.ofNat 10)) (m (a + UInt64.ofNat 11)),
           le32 (m (a + UInt64.ofNat 12)) (m (a + UInt64.ofNat 13)) (m (a + UInt64.ofNat 14)) (m (a + UInt64.ofNat 15))] := by
  simp only [load128, Memory.word, UInt64.add_assoc, UInt64.reduceAdd, UInt64.reduceOfNat, UInt64.add_zero]

theorem load128_of_holds (m : Memory) (a : UInt64) (bs : List UInt8) (o : Nat) (h : HoldsAt m a bs) (ho : o + 15 < bs.length) :
    load128 m (a + UInt64.ofNat o)
      = #v[le32 (bs.getD o 0) (bs.getD (o + 1) 0) (bs.getD (o + 2) 0) (bs.getD (o + 3) 0),
           le32 (bs.getD (o + 4) 0) (bs.getD (o + 5) 0) (bs.getD (o + 6) 0) (bs.getD (o + 7) 0),
           le32 (bs.getD (o + 8) 0) (bs.getD (o + 9) 0) (bs.getD (o + 10) 0) (bs.getD (o + 11) 0),
           le32 (bs.getD (o + 12) 0) (bs.getD (o + 13) 0) (bs.getD (o + 14) 0) (bs.getD (o + 15) 0)] := by
  rw [load128_bytes]
  simp only [addr_add]
  simp only [h o (by omega), h (o + 1) (by omega), h (o + 2) (by omega), h (o + 3) (by omega), h (o + 4) (by omega), h (o + 5) (by omega), h (o + 6) (by omega), h (o + 7) (by omega), h (o + 8) (by omega), h (o + 9) (by omega), h (o + 10) (by omega), h (o + 11) (by omega), h (o + 12) (by omega), h (o + 13) (by omega), h (o + 14) (by omega), h (o + 15) (by omega), Nat.add_zero]

theorem aligned16_of (rb : UInt64) (k o : Nat) (hk : 16 ∣ k) (h : rb.toNat % k = 0) (ho : o % 16 = 0) :
    aligned16 (rb + UInt64.ofNat o) = true := by
  unfold aligned16
  rw [beq_iff_eq]
  apply UInt64.toNat_inj.mp
  rw [UInt64.toNat_mod, UInt64.toNat_add, UInt64.toNat_ofNat']
  obtain ⟨c, rfl⟩ := hk
  have := rb.toNat_lt
  show _ % 16 = 0
  have h2 : rb.toNat % 16 = 0 := by
    have := Nat.mod_mul_right_mod rb.toNat 16 c
    omega
  omega

/-- memory after writing the bytes `bs` at addresses `p, p+1, .., p + bs.length - 1` (mod 2^64) -/
def writeBytes (m : Memory) (p : UInt64) (bs : List UInt8) : Memory :=
  fun q => if (q - p).toNat < bs.length then bs.getD (q - p).toNat 0 else m q

theorem byte128_lo (w0 w1 w2 w3 w4 w5 w6 w7 : UInt32) (k : Nat) (hk : k < 16) :
    byte128 #v[w0, w1, w2, w3] k = (bytesOfWords (#v[w0, w1, w2, w3, w4, w5, w6, w7] : CV)).getD k 0 := by
  match k, hk with
  | 0, _ | 1, _ | 2, _ | 3, _ | 4, _ | 5, _ | 6, _ | 7, _ | 8, _ | 9, _ | 10, _ | 11, _ | 12, _ | 13, _ | 14, _ | 15, _ => rfl
  | n + 16, h => omega

theorem byte128_hi (w0 w1 w2 w3 w4 w5 w6 w7 : UInt32) (k : Nat) (hk : k < 32) (hk' : 16 ≤ k) :
    byte128 #v[w4, w5, w6, w7] (k - 16) = (bytesOfWords (#v[w0, w1, w2, w3, w4, w5, w6, w7] : CV)).getD k 0 := by
  match k, hk, hk' with
  | 16, _, _ | 17, _, _ | 18, _, _ | 19, _, _ | 20, _, _ | 21, _, _ | 22, _, _ | 23, _, _ | 24, _, _ | 25, _, _ | 26, _, _ | 27, _, _ | 28, _, _ | 29, _, _ | 30, _, _ | 31, _, _ => rfl
  | 0, _, h | 1, _, h | 2, _, h | 3, _, h | 4, _, h | 5, _, h | 6, _, h | 7, _, h | 8, _, h | 9, _, h | 10, _, h | 11, _, h | 12, _, h | 13, _, h | 14, _, h | 15, _, h => omega
  | n + 32, h, _ => omega

theorem bytesOfWords8_length (w : CV) : (bytesOfWords w).length = 32 := by
  rw [vec8_eta w]; rfl

/-- the two 16-byte stores of the epilogue write the 32 bytes of eight words at `p` and nothing else -/
theorem store2_eq (m : Memory) (p : UInt64) (w0 w1 w2 w3 w4 w5 w6 w7 : UInt32) :
    store128 (store128 m (p + UInt64.ofNat 0) #v[w0, w1, w2, w3]) (p + UInt64.ofNat 16) #v[w4, w5, w6, w7]
      = writeBytes m p (bytesOfWords (#v[w0, w1, w2, w3, w4, w5, w6, w7] : CV)) := by
  funext q
  have e0 : p + UInt64.ofNat 0 = p := by simp
  simp only [store128, writeBytes, e0, bytesOfWords8_length]
  have hd := (q - p).toNat_lt
  have h1 : (q - (p + UInt64.ofNat 16)).toNat = ((q - p).toNat + (2 ^ 64 - 16)) % 2 ^ 64 := by
    rw [UInt64.toNat_sub, UInt64.toNat_sub, UInt64.toNat_add]
    have : (UInt64.ofNat 16).toNat = 16 := rfl
    have := p.toNat_lt
    have := q.toNat_lt
    omega
  simp only [UInt64.lt_iff_toNat_lt, h1]
  have c16 : (16 : UInt64).toNat = 16 := rfl
  rw [c16]
  by_cases ha : (q - p).toNat < 16
  · have hb : ¬ ((q - p).toNat + (2 ^ 64 - 16)) % 2 ^ 64 < 16 := by omega
    have hc : (q - p).toNat < 32 := by omega
    rw [if_neg hb, if_pos ha, if_pos hc]
    exact byte128_lo w0 w1 w2 w3 w4 w5 w6 w7 _ ha
  · by_cases hc : (q - p).toNat < 32
    · have hb : ((q - p).toNat + (2 ^ 64 - 16)) % 2 ^ 64 < 16 := by omega
      have he : ((q - p).toNat + (2 ^ 64 - 16)) % 2 ^ 64 = (q - p).toNat - 16 := by omega
      rw [if_pos hb, if_pos hc, he]
      exact byte128_hi w0 w1 w2 w3 w4 w5 w6 w7 _ hc (by omega)
    · have hb : ¬ ((q - p).toNat + (2 ^ 64 - 16)) % 2 ^ 64 < 16 := by omega
      rw [if_neg hb, if_neg ha, if_neg hc]

theorem writeBytes_at (m : Memory) (p : UInt64) (bs : List UInt8) (k : Nat) (hk : k < bs.length) (hk' : k < 2 ^ 64) :
    writeBytes m p bs (p + UInt64.ofNat k) = bs.getD k 0 := by
  unfold writeBytes
  have : (p + UInt64.ofNat k - p).toNat = k := by
    rw [UInt64.add_comm, UInt64.add_sub_cancel, UInt64.toNat_ofNat', Nat.mod_eq_of_lt hk']
  rw [this, if_pos hk]

theorem writeBytes_frame (m : Memory) (p : UInt64) (bs : List UInt8) (q : UInt64) (h : bs.length ≤ (q - p).toNat) :
    writeBytes m p bs q = m q := by
  unfold writeBytes
  rw [if_neg (by omega)]

theorem holdsAt_writeBytes (m : Memory) (p : UInt64) (bs : List UInt8) (h : bs.length < 2 ^ 64) :
    HoldsAt (writeBytes m p bs) p bs := by
  intro i hi
  exact writeBytes_at m p bs i hi (by omega)

/-- reading back the eight words written at `p` -/
theorem readWords_writeBytes (m : Memory) (p : UInt64) (w : CV) :
    readWords (writeBytes m p (bytesOfWords w)) p 8 = w := by
  have hl := bytesOfWords8_length w
  have hh := holdsAt_writeBytes m p (bytesOfWords w) (by omega)
  apply Vector.ext
  intro i hi
  simp only [readWords, Vector.getElem_ofFn, Memory.word]
  have e1 : p + UInt64.ofNat (4 * i) + 1 = p + UInt64.ofNat (4 * i + 1) := addr_add p (4 * i) 1
  have e2 : p + UInt64.ofNat (4 * i) + 2 = p + UInt64.ofNat (4 * i + 2) := addr_add p (4 * i) 2
  have e3 : p + UInt64.ofNat (4 * i) + 3 = p + UInt64.ofNat (4 * i + 3) := addr_add p (4 * i) 3
  rw [e1, e2, e3, hh _ (by omega), hh _ (by omega), hh _ (by omega), hh _ (by omega)]
  rw [vec8_eta w]
  match i, hi with
  | 0, _ | 1, _ | 2, _ | 3, _ | 4, _ | 5, _ | 6, _ | 7, _ => exact le32_bytes _
  | n + 8, h => omega


theorem bytesOfWords16_length (w : St) : (bytesOfWords w).length = 64 := by
  rw [vec16_eta w]; rfl

/-- reading back the sixteen words written at `p` -/
theorem readWords_writeBytes16 (m : Memory) (p : UInt64) (w : St) :
    readWords (writeBytes m p (bytesOfWords w)) p 16 = w := by
  have hl := bytesOfWords16_length w
  have hh := holdsAt_writeBytes m p (bytesOfWords w) (by omega)
  apply Vector.ext
  intro i hi
  simp only [readWords, Vector.getElem_ofFn, Memory.word]
  have e1 : p + UInt64.ofNat (4 * i) + 1 = p + UInt64.ofNat (4 * i + 1) := addr_add p (4 * i) 1
  have e2 : p + UInt64.ofNat (4 * i) + 2 = p + UInt64.ofNat (4 * i + 2) := addr_add p (4 * i) 2
  have e3 : p + UInt64.ofNat (4 * i) + 3 = p + UInt64.ofNat (4 * i + 3) := addr_add p (4 * i) 3
  rw [e1, e2, e3, hh _ (by omega), hh _ (by omega), hh _ (by omega), hh _ (by omega)]
  rw [vec16_eta w]
  match i, hi with
  | 0, _ | 1, _ | 2, _ | 3, _ | 4, _ | 5, _ | 6, _ | 7, _
  | 8, _ | 9, _ | 10, _ | 11, _ | 12, _ | 13, _ | 14, _ | 15, _ => exact le32_bytes _
  | n + 16, h => omega

/-- the 16 bytes of a 128-bit value, lowest first -/
def bytes128 (v : V4) : List UInt8 :=
  [byte128 v 0, byte128 v 1, byte128 v 2, byte128 v 3, byte128 v 4, byte128 v 5, byte128 v 6, byte128 v 7,
   byte128 v 8, byte128 v 9, byte128 v 10, byte128 v 11, byte128 v 12, byte128 v 13, byte128 v 14, byte128 v 15]

theorem bytes128_getD (v : V4) (k : Nat) (hk : k < 16) : (bytes128 v).getD k 0 = byte128 v k := by
  match k, hk with
  | 0, _ | 1, _ | 2, _ | 3, _ | 4, _ | 5, _ | 6, _ | 7, _ | 8, _ | 9, _ | 10, _ | 11, _ | 12, _ | 13, _ | 14, _ | 15, _ => rfl
  | n + 16, h => omega

theorem writeBytes_nil (m : Memory) (p : UInt64) : writeBytes m p [] = m := by
  funext q
  simp [writeBytes]

/-- a 16-byte store just after a run of bytes already written from `p` extends the run -/
theorem store128_append (m : Memory) (p : UInt64) (bs : List UInt8) (v : V4) (h : bs.length + 16 ≤ 2 ^ 64) :
    store128 (writeBytes m p bs) (p + UInt64.ofNat bs.length) v = writeBytes m p (bs ++ bytes128 v) := by
  funext q
  have hd := (q - p).toNat_lt
  have h1 : (q - (p + UInt64.ofNat bs.length)).toNat = ((q - p).toNat + (2 ^ 64 - bs.length)) % 2 ^ 64 := by
    rw [UInt64.toNat_sub, UInt64.toNat_sub, UInt64.toNat_add, UInt64.toNat_ofNat']
    have := p.toNat_lt
    have := q.toNat_lt
    have : bs.length % 2 ^ 64 = bs.length := Nat.mod_eq_of_lt (by omega)
    omega
  have hl : (bs ++ bytes128 v).length = bs.length + 16 := by simp [bytes128]
  simp only [store128, UInt64.lt_iff_toNat_lt, h1]
  have c16 : (16 : UInt64).toNat = 16 := rfl
  rw [c16]
  unfold writeBytes
  rw [hl]
  by_cases ha : (q - p).toNat < bs.length
  · have hb : ¬ ((q - p).toNat + (2 ^ 64 - bs.length)) % 2 ^ 64 < 16 := by omega
    rw [if_neg hb, if_pos ha, if_pos (by omega), List.getD_eq_getElem?_getD, List.getD_eq_getElem?_getD, List.getElem?_append_left ha]
  · by_cases hc : (q - p).toNat < bs.length + 16
    · have he : ((q - p).toNat + (2 ^ 64 - bs.length)) % 2 ^ 64 = (q - p).toNat - bs.length := by omega
      rw [he, if_pos (by omega), if_pos hc, List.getD_eq_getElem?_getD, List.getElem?_append_right (by omega), ← List.getD_eq_getElem?_getD,
        bytes128_getD _ _ (by omega)]
    · have hb : ¬ ((q - p).toNat + (2 ^ 64 - bs.length)) % 2 ^ 64 < 16 := by omega
      rw [if_neg hb, if_neg ha, if_neg hc]

/-- four consecutive 16-byte stores at `p, p+16, p+32, p+48` write 64 bytes at `p` and nothing else -/
theorem store4_eq (m : Memory) (p : UInt64) (v0 v1 v2 v3 : V4) :
    store128 (store128 (store128 (store128 m (p + UInt64.ofNat 0) v0) (p + UInt64.ofNat 16) v1) (p + UInt64.ofNat 32) v2)
        (p + UInt64.ofNat 48) v3
      = writeBytes m p (bytes128 v0 ++ bytes128 v1 ++ bytes128 v2 ++ bytes128 v3) := by
  have e0 := store128_append m p [] v0 (by decide)
  rw [writeBytes_nil] at e0
  have e1 := store128_append m p (bytes128 v0) v1 (by show 16 + 16 ≤ 2 ^ 64; decide)
  have e2 := store128_append m p (bytes128 v0 ++ bytes128 v1) v2 (by show 32 + 16 ≤ 2 ^ 64; decide)
  have e3 := store128_append m p (bytes128 v0 ++ bytes128 v1 ++ bytes128 v2) v3 (by show 48 + 16 ≤ 2 ^ 64; decide)
  simp only [List.nil_append] at e0
  have l0 : ([] : List UInt8).length = 0 := rfl
  have l1 : (bytes128 v0).length = 16 := rfl
  have l2 : (bytes128 v0 ++ bytes128 v1).length = 32 := rfl
  have l3 : (bytes128 v0 ++ bytes128 v1 ++ bytes128 v2).length = 48 := rfl
  rw [l0] at e0; rw [l1] at e1; rw [l2] at e2; rw [l3] at e3
  rw [e0, e1, e2, e3]

/-! ### the fault flag is sticky -/

@[simp] theorem next_ok (s : State) : s.next.ok = s.ok := rfl
@[simp] theorem fault_ok (s : State) : s.fault.ok = false := rfl
@[simp] theorem setXmm_ok (s : State) (d : Fin 16) (v : V4) : (s.setXmm d v).ok = s.ok := rfl
@[simp] theorem writeGpr_ok (s : State) (r : Reg) (w : Width) (v : UInt64) : (s.writeGpr r w v).ok = s.ok := rfl

theorem vbin_ok (rb : UInt64) (f : V4 → V4 → V4) (ops : List Operand) (s : State) (h : (vbin rb f ops s).ok = true) : s.ok = true := by
  unfold vbin at h
  split at h
  · simpa using h
  · split at h <;> simp_all
  · simp at h

theorem vbinImm_ok (rb : UInt64) (f : V4 → V4 → Nat → V4) (ops : List Operand) (s : State) (h : (vbinImm rb f ops s).ok = true) :
    s.ok = true := by
  unfold vbinImm at h
  split at h
  · simpa using h
  · split at h <;> simp_all
  · simp at h

theorem vImm_ok (f : V4 → Nat → V4) (ops : List Operand) (s : State) (h : (vImm f ops s).ok = true) : s.ok = true := by
  unfold vImm at h
  split at h
  · simpa using h
  · simp at h

theorem mov128_ok (rb : UInt64) (al : Bool) (ops : List Operand) (s : State) (h : (mov128 rb al ops s).ok = true) : s.ok = true := by
  unfold mov128 at h
  split at h
  · simpa using h
  · split at h
    · split at h <;> simp_all
    · simp at h
  · split at h
    · split at h <;> simp_all [State.next]
    · simp at h
  · simp at h

/-- the fault flag is sticky: an instruction never sets it again -/
theorem exec_ok_mono (rb : UInt64) (i : Instr) (s : State) (h : (exec rb i s).ok = true) : s.ok = true := by
  unfold exec at h
  split at h
  all_goals first
    | exact mov128_ok _ _ _ _ h
    | exact vbin_ok _ _ _ _ h
    | exact vbinImm_ok _ _ _ _ h
    | exact vImm_ok _ _ _ h
    | (split at h <;> (try split at h) <;> (try split at h) <;> first | (exact h) | (simp at h; done) | (simp at h; exact h))

theorem step_ok_mono (rb : UInt64) (prog : List Instr) (s : State) (h : (step rb prog s).ok = true) : s.ok = true := by
  unfold step at h
  split at h
  · exact h
  · split at h
    · exact exec_ok_mono _ _ _ h
    · simp at h

theorem run_ok_mono (rb : UInt64) (prog : List Instr) (n : Nat) (s : State) (h : (run rb prog n s).ok = true) : s.ok = true := by
  induction n generalizing s with
  | zero => exact h
  | succ n ih => exact step_ok_mono _ _ _ (ih _ h)

/-- so `ok = true` at the end means that no step of the run faulted -/
theorem run_ok_prefix (rb : UInt64) (prog : List Instr) (a b : Nat) (s : State) (h : (run rb prog (a + b) s).ok = true) :
    (run rb prog a s).ok = true := by
  rw [run_add] at h
  exact run_ok_mono _ _ _ _ h
end B3.AsmSem
