/- The Windows-GNU `blake3_hash_many_sse41` against the unix one (part 4: a run).
`epi_exit`: a unix run that is at 1413 (first instruction of the epilogue) cannot be at 1413, running, again later (seven
instructions that go on to the next one, then `ret`).  **`run_sim`**: a unix run that starts in the region (or at 1413) and
ends, running, at 1413 is, step by step, a run of the Windows routine in the state `T v ·`; so the Windows run ends at 1430
with the same registers (but `rbp`), flags and memory. -/
import B3.Asm.ManyWSim3
namespace B3.AsmSem.Many.W
open B3 B3.Simd B3.AsmSem

theorem runU_add (rb : UInt64) (p : List Instr) (a b : Nat) (s : State) : run rb p (a + b) s = run rb p b (run rb p a s) := by
  unfold run
  induction a generalizing s with
  | zero => simp [runG]
  | succ n ih => rw [Nat.add_right_comm]; exact ih _

theorem runW_add (rb : UInt64) (p : List Instr) (a b : Nat) (s : State) :
    ManyW.run rb p (a + b) s = ManyW.run rb p b (ManyW.run rb p a s) := by
  unfold ManyW.run
  induction a generalizing s with
  | zero => simp [ManyW.runG]
  | succ n ih => rw [Nat.add_right_comm]; exact ih _

theorem run_returned (rb : UInt64) (p : List Instr) (n : Nat) (s : State) (h : s.status = .returned) : run rb p n s = s := by
  unfold run
  induction n with
  | zero => rfl
  | succ n ih =>
    show runG flat rb p n (stepG flat rb p s) = s
    have : stepG flat rb p s = s := by unfold stepG; rw [h]
    rw [this]
    exact ih

section
variable (rb : UInt64) (x : Vector V4 16) (g : Vector UInt64 16) (z c : Bool) (m : Memory) (ok : Bool)

theorem epi1 : (run rb progU 1 ⟨x, g, z, c, m, 1413, .running, ok⟩).pc = 1414 := by kernel_rfl
theorem epi2 : (run rb progU 2 ⟨x, g, z, c, m, 1413, .running, ok⟩).pc = 1415 := by kernel_rfl
theorem epi3 : (run rb progU 3 ⟨x, g, z, c, m, 1413, .running, ok⟩).pc = 1416 := by kernel_rfl
theorem epi4 : (run rb progU 4 ⟨x, g, z, c, m, 1413, .running, ok⟩).pc = 1417 := by kernel_rfl
theorem epi5 : (run rb progU 5 ⟨x, g, z, c, m, 1413, .running, ok⟩).pc = 1418 := by kernel_rfl
theorem epi6 : (run rb progU 6 ⟨x, g, z, c, m, 1413, .running, ok⟩).pc = 1419 := by kernel_rfl
theorem epi7 : (run rb progU 7 ⟨x, g, z, c, m, 1413, .running, ok⟩).pc = 1420 := by kernel_rfl
theorem epi8 : (run rb progU 8 ⟨x, g, z, c, m, 1413, .running, ok⟩).status = .returned := by kernel_rfl
end

/-- at 1413 the unix routine runs into its `ret`: it is never again at 1413 and running -/
theorem epi_exit (rb : UInt64) (s : State) (hpc : s.pc = 1413) (hst : s.status = .running) (n : Nat) (hn : 0 < n) :
    ¬ ((run rb progU n s).pc = 1413 ∧ (run rb progU n s).status = .running) := by
  obtain ⟨x, g, z, c, m, pc, st, ok⟩ := s
  have hpc' : pc = 1413 := hpc
  have hst' : st = .running := hst
  subst hpc' hst'
  intro ⟨h1, h2⟩
  have hcases : n = 1 ∨ n = 2 ∨ n = 3 ∨ n = 4 ∨ n = 5 ∨ n = 6 ∨ n = 7 ∨ 8 ≤ n := by omega
  rcases hcases with rfl | rfl | rfl | rfl | rfl | rfl | rfl | h8
  · rw [epi1] at h1; omega
  · rw [epi2] at h1; omega
  · rw [epi3] at h1; omega
  · rw [epi4] at h1; omega
  · rw [epi5] at h1; omega
  · rw [epi6] at h1; omega
  · rw [epi7] at h1; omega
  · obtain ⟨k, rfl⟩ : ∃ k, n = 8 + k := ⟨n - 8, by omega⟩
    rw [runU_add, run_returned _ _ _ _ (epi8 rb x g z c m ok), epi8] at h2
    cases h2

/-- **a unix run from the region to the epilogue is a Windows run** -/
theorem run_sim (rb v : UInt64) : ∀ (n : Nat) (s : State), okT s.pc = true → s.gpr[rbp] = v + 64 →
    (run rb progU n s).pc = 1413 → (run rb progU n s).status = .running →
    ManyW.run rb progW n (T v s) = T v (run rb progU n s) := by
  intro n
  induction n with
  | zero => intro s _ _ _ _; rfl
  | succ n ih =>
    intro s hp hs h1 h2
    have eU : run rb progU (n + 1) s = run rb progU n (step rb progU s) := rfl
    have eW : ManyW.run rb progW (n + 1) (T v s) = ManyW.run rb progW n (ManyW.step rb progW (T v s)) := rfl
    rcases (okT_iff _).mp hp with hr | hx
    · obtain ⟨k1, k2, k3⟩ := step_sim rb v s hr hs
      rw [eW, k1, eU]
      rw [eU] at h1 h2
      exact ih _ k3 k2 h1 h2
    · cases hst : s.status with
      | running => exact absurd ⟨h1, h2⟩ (epi_exit rb s hx hst (n + 1) (by omega))
      | returned =>
        rw [run_returned _ _ _ _ hst, hst] at h2
        cases h2

end B3.AsmSem.Many.W
