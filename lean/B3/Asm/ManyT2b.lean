/- the 2-input tail, instructions 1478..1575 (one round on both states); see `ManyT2a.lean` -/
import B3.Asm.ManyT1
namespace B3.AsmSem.Many
open B3 B3.Simd B3.AsmSem B3.Gen.AsmSse41Many

/-! ### 1478..1575: one round on both states -/

/-- everything but the scratch register XMM4 -/
structure UView where
  x0 : V4
  x1 : V4
  x2 : V4
  x3 : V4
  x5 : V4
  x6 : V4
  x7 : V4
  x8 : V4
  x9 : V4
  x10 : V4
  x11 : V4
  x12 : V4
  x13 : V4
  x14 : V4
  x15 : V4
  gpr : Vector UInt64 16
  zf : Bool
  cf : Bool
  frame : Vector V4 22
  mem : Memory
  pc : Nat
  status : Status
  ok : Bool
  log : List Ref
  spOk : Bool

def uview (a : FState) : UView :=
  ⟨a.s.xmm[0], a.s.xmm[1], a.s.xmm[2], a.s.xmm[3], a.s.xmm[5], a.s.xmm[6], a.s.xmm[7], a.s.xmm[8], a.s.xmm[9], a.s.xmm[10],
   a.s.xmm[11], a.s.xmm[12], a.s.xmm[13], a.s.xmm[14], a.s.xmm[15], a.s.gpr, a.s.zf, a.s.cf, a.s.mem.frame, a.s.mem.mem, a.s.pc,
   a.s.status, a.s.ok, a.log, a.spOk⟩

theorem of_uview {a : FState} {v : UView} (h : uview a = v) :
    a = ⟨⟨#v[v.x0, v.x1, v.x2, v.x3, a.s.xmm[4], v.x5, v.x6, v.x7, v.x8, v.x9, v.x10, v.x11, v.x12, v.x13, v.x14, v.x15],
          v.gpr, v.zf, v.cf, ⟨v.frame, v.mem⟩, v.pc, v.status, v.ok⟩, v.log, v.spOk⟩ := by
  subst h
  obtain ⟨⟨x, g, z, c, ⟨F, m⟩, p, st, ok⟩, l, b⟩ := a
  simp only [uview]
  congr 2
  exact vec16_eta x

theorem run_of_uview {rb : UInt64} {n : Nat} {s : StateG FMem} {x0 x1 x2 x3 x5 x6 x7 x8 x9 x10 x11 x12 x13 x14 x15 : V4}
    {g : Vector UInt64 16} {z c : Bool} {F : Vector V4 22} {m : Memory} {pc : Nat} {l : List Ref}
    (h : uview (frun rodata rb hash_many n ⟨s, [], true⟩)
      = ⟨x0, x1, x2, x3, x5, x6, x7, x8, x9, x10, x11, x12, x13, x14, x15, g, z, c, F, m, pc, .running, true, l, true⟩) :
    ∃ j4, Run rodata rb hash_many n s l
      (mkS #v[x0, x1, x2, x3, j4, x5, x6, x7, x8, x9, x10, x11, x12, x13, x14, x15] g z c F m pc) :=
  ⟨_, of_uview h⟩

theorem t2_round_raw (rb : UInt64) (SA WA SB WB : St) (g : Vector UInt64 16) (z c : Bool) (f0 f1 f2 f3 f4 f5 f6 f7 f8 f9 f10 f11 f12 f13 f14
    f15 f16 f17 f18 f19 f20 f21 : V4) (m : Memory) :
    uview (frun rodata rb hash_many 98 ⟨mkS #v[row SA 0, row SA 1, row SA 2, row SA 3, grp0 WA, grp1 WA, grp2 WA, grp3 WA,
        row SB 0, row SB 1, row SB 2, row SB 3, grp0 WB, grp1 WB, grp2 WB, grp3 WB] g z c #v[f0, f1, f2, f3, f4, f5, f6, f7, f8, f9, f10, f11, f12, f13, f14, f15, f16, f17, f18, f19, f20, f21] m 1478, [], true⟩)
      = ⟨row (roundP a16 a12 a8 a7 (eta16 SA) (fun i => (eta16 WA)[i])) 0, row (roundP a16 a12 a8 a7 (eta16 SA) (fun i => (eta16 WA)[i])) 1,
         row (roundP a16 a12 a8 a7 (eta16 SA) (fun i => (eta16 WA)[i])) 2, row (roundP a16 a12 a8 a7 (eta16 SA) (fun i => (eta16 WA)[i])) 3,
         grp1 WA, grp2 WA, grp3 WA,
         row (roundP a16 a12 a8 a7 (eta16 SB) (fun i => (eta16 WB)[i])) 0, row (roundP a16 a12 a8 a7 (eta16 SB) (fun i => (eta16 WB)[i])) 1,
         row (roundP a16 a12 a8 a7 (eta16 SB) (fun i => (eta16 WB)[i])) 2, row (roundP a16 a12 a8 a7 (eta16 SB) (fun i => (eta16 WB)[i])) 3,
         ROT16, ROT8, grp2 WB, grp3 WB, g, z, c,
         #v[f0, f1, grp0 WA, grp0 WB, grp1 WA, grp1 WB, f6, f7, f8, f9, f10, f11, f12, f13, f14, f15, f16, f17, f18, f19, f20, f21], m, 1576, .running, true, [], true⟩ := by
  kernel_rfl

end B3.AsmSem.Many
