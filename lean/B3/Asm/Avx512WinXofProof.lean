/-
`blake3_compress_xof_avx512`, Windows-GNU flavour (c/blake3_avx512_x86-64_windows_gnu.S): the pieces of
B3/Asm/Avx512WinXofBody.lean composed along the control flow (27 + 6*50 + 36 + 14 = 377 instructions executed),
and the result related to `Spec.compress`.
Windows x64 calling convention: rcx = cv, rdx = block, r8 = block_len, r9 = counter, `flags` at [rsp + 0x28],
`out` at [rsp + 0x30] in the caller's stack.
-/
import B3.Asm.Avx512WinCompressProof
import B3.Asm.Avx512WinXofBody
namespace B3.AsmSem.Avx512.WinXof
open B3 B3.Simd B3.AsmSem B3.AsmSem.Avx512 B3.Gen.AsmAvx512Wgnu B3.AsmSem.Avx512.Win

/-- the sixth argument (`out`): the quadword at `[rsp + 0x30]` on entry -/
def outArg (s : State) : UInt64 := load64 s.mem (s.gpr[rsp] + 48)

/-- entry conditions of `compress_xof`: those of `compress_in_place` (`Win.EntryW`), and the 64 bytes of the routine's own
frame are not part of the output buffer either -/
structure EntryWX (rb : UInt64) (s : State) : Prop extends EntryW rb s where
  frame_out : Disjoint (outArg s) 64 (spW s.gpr[rsp]) 64

/-- the register file after the prologue -/
def gprAfterPrologueWX (s : State) : Vector UInt64 16 :=
  #v[merge .b8 (trunc .d32 (flagsArg s).toUInt64 <<< 32) 7, s.gpr[rcx], s.gpr[rdx], s.gpr[rbx], spW s.gpr[rsp], s.gpr[rbp], s.gpr[rsi],
     s.gpr[rdi], lenFlagsW s.gpr[r8] (flagsArg s), s.gpr[r9], outArg s, s.gpr[r11], s.gpr[r12], s.gpr[r13], s.gpr[r14], s.gpr[r15]]

/-- the quadword at `[rsp_after_sub + 0x78]`, read after the save area has been written, is the caller's `out` -/
theorem out_read (s : State) (bs : List UInt8) (hl : bs.length = 64) :
    load64 (writeBytes s.mem (spW s.gpr[rsp]) bs) (spW s.gpr[rsp] + UInt64.ofNat 120) = outArg s := by
  unfold spW outArg
  rw [frame_addr _ 120 (by decide) (by decide)]
  apply load64_congr
  intro i hi
  rw [addr_add]
  exact writeBytes_frame _ _ _ _ (by rw [hl]; exact above_frame _ _ (by omega))

theorem prologue_stage (rb : UInt64) (s : State) (h : EntryW rb s) :
    viewW (runV rb compress_xof 27 s)
      = atPc s.xmm[10] s.xmm[11] s.xmm[12] s.xmm[13] s.xmm[14] s.xmm[15] 27
          (Spec.initState (readWords s.mem s.gpr[rcx] 8) s.gpr[r9] s.gpr[r8].toUInt8.toUInt32 (flagsArg s).toUInt32)
          (readWords s.mem s.gpr[rdx] 16) (gprAfterPrologueWX s) (memSaved s) := by
  have hs := state_eta s h.pc h.running h.ok
  obtain ⟨e1, e2⟩ := lenFlagsW_words s.gpr[r8] (flagsArg s)
  have hfl := flags_read s (saved s.xmm[6] s.xmm[7] s.xmm[8] s.xmm[9]) rfl
  have hout := out_read s (saved s.xmm[6] s.xmm[7] s.xmm[8] s.xmm[9]) rfl
  have hcv0 := load128_writeBytes_disjoint_at s.mem (spW s.gpr[rsp]) (saved s.xmm[6] s.xmm[7] s.xmm[8] s.xmm[9]) s.gpr[rcx] 32 0
    h.frame_cv (by decide)
  have hcv1 := load128_writeBytes_disjoint_at s.mem (spW s.gpr[rsp]) (saved s.xmm[6] s.xmm[7] s.xmm[8] s.xmm[9]) s.gpr[rcx] 32 16
    h.frame_cv (by decide)
  have hiv := load128_writeBytes_disjoint_at s.mem (spW s.gpr[rsp]) (saved s.xmm[6] s.xmm[7] s.xmm[8] s.xmm[9]) rb 272 256
    h.frame_rodata (by decide)
  have hblk := blockRaw_writeBytes_disjoint s.mem (spW s.gpr[rsp]) (saved s.xmm[6] s.xmm[7] s.xmm[8] s.xmm[9]) s.gpr[rdx] h.frame_block
  have hok := frame_ok h
  have hiv' := table_IV h.rodata
  have key := prologue_raw rb s.xmm[0] s.xmm[1] s.xmm[2] s.xmm[3] s.xmm[4] s.xmm[5] s.xmm[6] s.xmm[7] s.xmm[8] s.xmm[9]
    s.xmm[10] s.xmm[11] s.xmm[12] s.xmm[13] s.xmm[14] s.xmm[15] s.gpr[rax] s.gpr[rcx] s.gpr[rdx] s.gpr[rbx] s.gpr[rsp] s.gpr[rbp]
    s.gpr[rsi] s.gpr[rdi] s.gpr[r8] s.gpr[r9] s.gpr[r10] s.gpr[r11] s.gpr[r12] s.gpr[r13] s.gpr[r14] s.gpr[r15] s.zf s.mem
  rw [← hs] at key
  rw [key]
  simp only [saveMem_eq, hfl, hout, hcv0, hcv1, hiv, hblk, hok, hiv']
  rw [← e1, ← e2, ← cvRaw_eq, ← blockRaw_eq]
  rfl

theorem body_stage (rb : UInt64) (x10 x11 x12 x13 x14 x15 : V4) (s : State) (S W : St) (g : Vector UInt64 16) (m : Memory)
    (h : viewW s = atPc x10 x11 x12 x13 x14 x15 27 S W g m) :
    viewW (runV rb compress_xof 34 s) = atPc x10 x11 x12 x13 x14 x15 61 (Spec.round S W) W g m := by
  rw [of_viewW h]
  have := body_raw rb S W s.xmm[8] s.xmm[9] x10 x11 x12 x13 x14 x15 g s.zf m
  rw [roundP_eq _ _ _ _ ror16_eq ror12_eq ror8_eq ror7_eq] at this
  exact this

theorem decjz_stage (rb : UInt64) (x10 x11 x12 x13 x14 x15 : V4) (s : State) (S W : St) (g : Vector UInt64 16) (m : Memory)
    (h : viewW s = atPc x10 x11 x12 x13 x14 x15 61 S W g m) :
    viewW (runV rb compress_xof 2 s)
      = atPc x10 x11 x12 x13 x14 x15 (if g[rax].toUInt8 - 1 == 0 then 77 else 63) S W (decAl g) m := by
  rw [of_viewW h]
  show viewW (stepV rb compress_xof (stepV rb compress_xof _)) = _
  rw [dec_raw, dec_b8_zf]
  cases hz : (g[rax].toUInt8 - 1 == 0)
  · rw [jz_not_taken]; rfl
  · rw [jz_taken]; rfl

theorem perm_stage (rb : UInt64) (x10 x11 x12 x13 x14 x15 : V4) (s : State) (S W : St) (g : Vector UInt64 16) (m : Memory)
    (h : viewW s = atPc x10 x11 x12 x13 x14 x15 63 S W g m) :
    viewW (runV rb compress_xof 14 s) = atPc x10 x11 x12 x13 x14 x15 27 S (Spec.permute W) g m := by
  rw [of_viewW h]
  exact perm_raw rb _ _ _ _ W s.xmm[8] s.xmm[9] x10 x11 x12 x13 x14 x15 g s.zf m

theorem iteration (rb : UInt64) (x10 x11 x12 x13 x14 x15 : V4) (s : State) (S W : St) (g : Vector UInt64 16) (m : Memory)
    (h : viewW s = atPc x10 x11 x12 x13 x14 x15 27 S W g m) (hal : (g[rax].toUInt8 - 1 == 0) = false) :
    viewW (runV rb compress_xof 50 s) = atPc x10 x11 x12 x13 x14 x15 27 (Spec.round S W) (Spec.permute W) (decAl g) m := by
  rw [show 50 = 34 + (2 + 14) from rfl, runV_add, runV_add]
  have h2 := decjz_stage rb _ _ _ _ _ _ _ _ _ _ _ (body_stage rb _ _ _ _ _ _ s S W g m h)
  rw [hal] at h2
  exact perm_stage rb _ _ _ _ _ _ _ _ _ _ _ h2

theorem last_iteration (rb : UInt64) (x10 x11 x12 x13 x14 x15 : V4) (s : State) (S W : St) (g : Vector UInt64 16) (m : Memory)
    (h : viewW s = atPc x10 x11 x12 x13 x14 x15 27 S W g m) (hal : (g[rax].toUInt8 - 1 == 0) = true) :
    viewW (runV rb compress_xof 36 s) = atPc x10 x11 x12 x13 x14 x15 77 (Spec.round S W) W (decAl g) m := by
  rw [show 36 = 34 + 2 from rfl, runV_add]
  have h2 := decjz_stage rb _ _ _ _ _ _ _ _ _ _ _ (body_stage rb _ _ _ _ _ _ s S W g m h)
  rw [hal] at h2
  exact h2

/-- the epilogue: the whole final state, from the tracked state at instruction 77 -/
theorem epilogue_stage (rb : UInt64) (x10 x11 x12 x13 x14 x15 : V4) (s : State) (S W : St) (g : Vector UInt64 16) (m : Memory)
    (h : viewW s = atPc x10 x11 x12 x13 x14 x15 77 S W g m) :
    runV rb compress_xof 14 s
    = ⟨#v[_mm_xor_si128 (row S 0) (row S 2), _mm_xor_si128 (row S 1) (row S 3),
          _mm_xor_si128 (row S 2) (load128 m (g[rcx] + UInt64.ofNat 0)), _mm_xor_si128 (row S 3) (load128 m (g[rcx] + UInt64.ofNat 16)),
          grp0 W, grp1 W,
          load128 (outMemX m g[r10] g[rcx] (row S 0) (row S 1) (row S 2) (row S 3)) (g[rsp] + UInt64.ofNat 0),
          load128 (outMemX m g[r10] g[rcx] (row S 0) (row S 1) (row S 2) (row S 3)) (g[rsp] + UInt64.ofNat 16),
          load128 (outMemX m g[r10] g[rcx] (row S 0) (row S 1) (row S 2) (row S 3)) (g[rsp] + UInt64.ofNat 32),
          load128 (outMemX m g[r10] g[rcx] (row S 0) (row S 1) (row S 2) (row S 3)) (g[rsp] + UInt64.ofNat 48),
          x10, x11, x12, x13, x14, x15],
       (g.set rsp (g[rsp] + UInt64.ofNat 72)).set rsp ((g.set rsp (g[rsp] + UInt64.ofNat 72))[rsp] + 8),
       g[rsp] + UInt64.ofNat 72 == 0,
       outMemX m g[r10] g[rcx] (row S 0) (row S 1) (row S 2) (row S 3), 90, .returned,
       (((true && aligned16 (g[rsp] + UInt64.ofNat 0)) && aligned16 (g[rsp] + UInt64.ofNat 16)) && aligned16 (g[rsp] + UInt64.ofNat 32))
         && aligned16 (g[rsp] + UInt64.ofNat 48)⟩ := by
  rw [of_viewW h]
  exact epilogue_raw rb _ _ _ _ _ _ _ _ s.xmm[8] s.xmm[9] x10 x11 x12 x13 x14 x15 g s.zf m

/-! ### the whole routine -/

/-- the 64 output bytes -/
def outBytesX (s : State) : List UInt8 :=
  bytesOfWords (Spec.compress (readWords s.mem s.gpr[rcx] 8) (readWords s.mem s.gpr[rdx] 16) s.gpr[r9]
    s.gpr[r8].toUInt8.toUInt32 (flagsArg s).toUInt32)

theorem outBytesX_length (s : State) : (outBytesX s).length = 64 := bytesOfWords16_length _

/-- the four output stores, the chaining value read again from a memory in which only the frame has been written -/
theorem outMemX_eq (s : State) (hcv : Disjoint s.gpr[rcx] 32 (spW s.gpr[rsp]) 64) (p : UInt64) (S : St) :
    outMemX (memSaved s) p s.gpr[rcx] (row S 0) (row S 1) (row S 2) (row S 3)
      = writeBytes (memSaved s) p (bytesOfWords (Spec.feedForward (readWords s.mem s.gpr[rcx] 8) S)) := by
  unfold outMemX memSaved
  rw [load128_writeBytes_disjoint_at s.mem _ _ s.gpr[rcx] 32 0 hcv (by decide),
    load128_writeBytes_disjoint_at s.mem _ _ s.gpr[rcx] 32 16 hcv (by decide), store4_eq, load_cv_lo, load_cv_hi, xof_bytes, cvRaw_eq]

theorem dec7WX_rsp (s : State) : (dec7 (gprAfterPrologueWX s))[rsp] = spW s.gpr[rsp] := by
  rw [dec7_ne _ rsp (by decide)]; rfl
theorem dec7WX_rcx (s : State) : (dec7 (gprAfterPrologueWX s))[rcx] = s.gpr[rcx] := by
  rw [dec7_ne _ rcx (by decide)]; rfl
theorem dec7WX_r10 (s : State) : (dec7 (gprAfterPrologueWX s))[r10] = outArg s := by
  rw [dec7_ne _ r10 (by decide)]; rfl

/-- the register file at the end -/
def gprFinalWX (s : State) : Vector UInt64 16 :=
  ((dec7 (gprAfterPrologueWX s)).set rsp (spW s.gpr[rsp] + UInt64.ofNat 72)).set rsp
    (((dec7 (gprAfterPrologueWX s)).set rsp (spW s.gpr[rsp] + UInt64.ofNat 72))[rsp] + 8)

/-- from any state satisfying the entry conditions (377 instructions are executed) -/
theorem run_compress_xof (rb : UInt64) (s : State) (h : EntryWX rb s) :
    (runV rb compress_xof 377 s).status = .returned ∧
    (runV rb compress_xof 377 s).ok = true ∧
    (runV rb compress_xof 377 s).mem = writeBytes (memSaved s) (outArg s) (outBytesX s) ∧
    (runV rb compress_xof 377 s).gpr = gprFinalWX s ∧
    ((runV rb compress_xof 377 s).xmm[6] = s.xmm[6] ∧ (runV rb compress_xof 377 s).xmm[7] = s.xmm[7] ∧
     (runV rb compress_xof 377 s).xmm[8] = s.xmm[8] ∧ (runV rb compress_xof 377 s).xmm[9] = s.xmm[9] ∧
     (runV rb compress_xof 377 s).xmm[10] = s.xmm[10] ∧ (runV rb compress_xof 377 s).xmm[11] = s.xmm[11] ∧
     (runV rb compress_xof 377 s).xmm[12] = s.xmm[12] ∧ (runV rb compress_xof 377 s).xmm[13] = s.xmm[13] ∧
     (runV rb compress_xof 377 s).xmm[14] = s.xmm[14] ∧ (runV rb compress_xof 377 s).xmm[15] = s.xmm[15]) := by
  have h0 := prologue_stage rb s h.toEntryW
  have a0 : (gprAfterPrologueWX s)[rax].toUInt8 = 7 := by
    show (merge .b8 _ 7).toUInt8 = 7
    rw [merge_b8_low]; rfl
  have h7 := loop7V viewW rb compress_xof 50 36 (atPc s.xmm[10] s.xmm[11] s.xmm[12] s.xmm[13] s.xmm[14] s.xmm[15] 27)
    (atPc s.xmm[10] s.xmm[11] s.xmm[12] s.xmm[13] s.xmm[14] s.xmm[15] 77)
    (iteration rb _ _ _ _ _ _) (last_iteration rb _ _ _ _ _ _) _ _ _ _ _ h0 a0
  have he := epilogue_stage rb _ _ _ _ _ _ _ _ _ _ _ h7
  have hout : outMemX (memSaved s) (outArg s) s.gpr[rcx] _ _ _ _ = writeBytes (memSaved s) (outArg s) (outBytesX s) :=
    outMemX_eq s h.frame_cv (outArg s) (Spec.rounds7 (Spec.initState (readWords s.mem s.gpr[rcx] 8) s.gpr[r9]
      s.gpr[r8].toUInt8.toUInt32 (flagsArg s).toUInt32) (readWords s.mem s.gpr[rdx] 16))
  have hsv := load_saved s.mem (spW s.gpr[rsp]) s.xmm[6] s.xmm[7] s.xmm[8] s.xmm[9]
  have hd : Disjoint (spW s.gpr[rsp]) 64 (outArg s) (outBytesX s).length := by
    rw [outBytesX_length]; exact h.frame_out.symm
  have l0 := load128_writeBytes_disjoint_at (memSaved s) (outArg s) (outBytesX s) (spW s.gpr[rsp]) 64 0 hd (by decide)
  have l1 := load128_writeBytes_disjoint_at (memSaved s) (outArg s) (outBytesX s) (spW s.gpr[rsp]) 64 16 hd (by decide)
  have l2 := load128_writeBytes_disjoint_at (memSaved s) (outArg s) (outBytesX s) (spW s.gpr[rsp]) 64 32 hd (by decide)
  have l3 := load128_writeBytes_disjoint_at (memSaved s) (outArg s) (outBytesX s) (spW s.gpr[rsp]) 64 48 hd (by decide)
  have hal : ((((true && aligned16 (spW s.gpr[rsp] + UInt64.ofNat 0)) && aligned16 (spW s.gpr[rsp] + UInt64.ofNat 16))
      && aligned16 (spW s.gpr[rsp] + UInt64.ofNat 32)) && aligned16 (spW s.gpr[rsp] + UInt64.ofNat 48)) = true := by
    unfold spW
    rw [frame_aligned _ h.rsp_aligned 0 (by decide), frame_aligned _ h.rsp_aligned 16 (by decide),
      frame_aligned _ h.rsp_aligned 32 (by decide), frame_aligned _ h.rsp_aligned 48 (by decide)]
    rfl
  rw [dec7WX_rsp, dec7WX_rcx, dec7WX_r10, hout, l0, l1, l2, l3, hal] at he
  unfold memSaved at he
  rw [hsv.1, hsv.2.1, hsv.2.2.1, hsv.2.2.2] at he
  rw [show 377 = 27 + ((50 + (50 + (50 + (50 + (50 + (50 + 36)))))) + 14) by omega, runV_add, runV_add, he]
  exact ⟨rfl, rfl, rfl, rfl, rfl, rfl, rfl, rfl, rfl, rfl, rfl, rfl, rfl, rfl⟩

theorem gprFinalWX_rsp (s : State) : (gprFinalWX s)[rsp] = s.gpr[rsp] + 8 := by
  unfold gprFinalWX
  simp only [Fin.getElem_fin, Vector.getElem_set_self]
  exact frame_pop _

theorem gprFinalWX_frame (s : State) (r : Reg) (h0 : r ≠ rax) (h8 : r ≠ r8) (h10 : r ≠ r10) (h4 : r ≠ rsp) :
    (gprFinalWX s)[r] = s.gpr[r] := by
  unfold gprFinalWX
  simp only [Fin.getElem_fin]
  rw [Vector.getElem_set_ne _ _ (fun e => h4 (Fin.ext e.symm)), Vector.getElem_set_ne _ _ (fun e => h4 (Fin.ext e.symm))]
  have := dec7_ne (gprAfterPrologueWX s) r h0
  simp only [Fin.getElem_fin] at this
  rw [this]
  obtain ⟨n, hn⟩ := r
  have c0 : n ≠ 0 := fun e => h0 (Fin.ext e)
  have c8 : n ≠ 8 := fun e => h8 (Fin.ext e)
  have c10 : n ≠ 10 := fun e => h10 (Fin.ext e)
  have c4 : n ≠ 4 := fun e => h4 (Fin.ext e)
  have : n = 1 ∨ n = 2 ∨ n = 3 ∨ n = 5 ∨ n = 6 ∨ n = 7 ∨ n = 9 ∨ n = 11 ∨ n = 12 ∨ n = 13 ∨ n = 14 ∨ n = 15 := by omega
  rcases this with rfl | rfl | rfl | rfl | rfl | rfl | rfl | rfl | rfl | rfl | rfl | rfl <;> rfl

/-! ### main theorems -/

/-- `blake3_compress_xof_avx512(cv, block, block_len, counter, flags, out)`, Windows x64 calling convention (rcx = cv,
rdx = block, r8 = block_len, r9 = counter, flags = the byte at [rsp + 0x28], out = the quadword at [rsp + 0x30]), ANY
register contents: after exactly 377 instructions the routine has returned without a fault; memory is the initial memory with
(1) the 64 bytes `[rsp - 72, rsp - 8)` of the routine's own frame overwritten by the entry values of XMM6-XMM9 and (2) the 64
bytes at `out` replaced by the 16 words of `Spec.compress cv block counter block_len flags`; `rsp` is popped; every general
purpose register other than rax, r8, r10, rsp is unchanged; XMM6-XMM15 have their entry values.  `cv`, `block`, `out` and the
tables may overlap each other arbitrarily (all loads from them precede the stores); only the frame must be apart. -/
theorem compress_xof_correct (rb : UInt64) (s : State) (h : EntryWX rb s) :
    (runV rb compress_xof 377 s).status = .returned ∧
    (runV rb compress_xof 377 s).ok = true ∧
    (runV rb compress_xof 377 s).mem
      = writeBytes (writeBytes s.mem (s.gpr[rsp] - 72) (saved s.xmm[6] s.xmm[7] s.xmm[8] s.xmm[9])) (load64 s.mem (s.gpr[rsp] + 48))
          (bytesOfWords (Spec.compress (readWords s.mem s.gpr[rcx] 8) (readWords s.mem s.gpr[rdx] 16) s.gpr[r9]
            s.gpr[r8].toUInt8.toUInt32 (s.mem (s.gpr[rsp] + 40)).toUInt32)) ∧
    (runV rb compress_xof 377 s).gpr[rsp] = s.gpr[rsp] + 8 ∧
    (∀ r : Reg, r ≠ rax → r ≠ r8 → r ≠ r10 → r ≠ rsp → (runV rb compress_xof 377 s).gpr[r] = s.gpr[r]) ∧
    (∀ i : Fin 16, 6 ≤ i.val → (runV rb compress_xof 377 s).xmm[i] = s.xmm[i]) := by
  obtain ⟨h1, h2, h3, h4, x6, x7, x8, x9, x10, x11, x12, x13, x14, x15⟩ := run_compress_xof rb s h
  refine ⟨h1, h2, h3, ?_, ?_, ?_⟩
  · rw [h4]; exact gprFinalWX_rsp s
  · intro r a b c d; rw [h4]; exact gprFinalWX_frame s r a b c d
  · intro i hi
    obtain ⟨n, hn⟩ := i
    have : n = 6 ∨ n = 7 ∨ n = 8 ∨ n = 9 ∨ n = 10 ∨ n = 11 ∨ n = 12 ∨ n = 13 ∨ n = 14 ∨ n = 15 := by
      simp only at hi; omega
    rcases this with rfl | rfl | rfl | rfl | rfl | rfl | rfl | rfl | rfl | rfl
    · exact x6
    · exact x7
    · exact x8
    · exact x9
    · exact x10
    · exact x11
    · exact x12
    · exact x13
    · exact x14
    · exact x15

/-- read back: the sixteen words at `out` afterwards, and the frame condition byte by byte: a byte outside `out` and outside
the routine's frame `[rsp - 72, rsp - 8)` is unchanged -/
theorem compress_xof_correct_words (rb : UInt64) (s : State) (h : EntryWX rb s) :
    readWords (runV rb compress_xof 377 s).mem (load64 s.mem (s.gpr[rsp] + 48)) 16
      = Spec.compress (readWords s.mem s.gpr[rcx] 8) (readWords s.mem s.gpr[rdx] 16) s.gpr[r9]
          s.gpr[r8].toUInt8.toUInt32 (s.mem (s.gpr[rsp] + 40)).toUInt32 ∧
    ∀ q : UInt64, 64 ≤ (q - load64 s.mem (s.gpr[rsp] + 48)).toNat → 64 ≤ (q - (s.gpr[rsp] - 72)).toNat →
      (runV rb compress_xof 377 s).mem q = s.mem q := by
  obtain ⟨_, _, h3, _⟩ := compress_xof_correct rb s h
  rw [h3]
  refine ⟨readWords_writeBytes16 _ _ _, ?_⟩
  intro q hq hq'
  rw [writeBytes_frame _ _ _ _ (by rw [bytesOfWords16_length]; exact hq), writeBytes_frame _ _ _ _ (by rw [saved_length]; exact hq')]

/-- more fuel changes nothing: the routine has returned -/
theorem compress_xof_fuel (rb : UInt64) (s : State) (h : EntryWX rb s) (n : Nat) :
    runV rb compress_xof (377 + n) s = runV rb compress_xof 377 s := by
  rw [runV_add]
  exact runV_returned _ _ _ _ (compress_xof_correct rb s h).1

/-! the hypotheses are satisfiable: `Win.exampleState` with `out = 0x40004` in the stack slot at [rsp + 0x30] -/

def exampleStateX : State :=
  { Win.exampleState with mem := writeBytes (writeBytes (fun _ => 0x5A) 0x30040 rodata) (0x7fff0008 + 48) [0x04, 0x00, 0x04, 0, 0, 0, 0, 0] }

set_option maxRecDepth 8000 in
example : EntryWX 0x30040 exampleStateX :=
  { pc := rfl, running := rfl, ok := rfl
    rodata := ⟨by decide, by
      intro i hi
      show writeBytes (writeBytes (fun _ => 0x5A) 0x30040 rodata) (0x7fff0008 + 48) [0x04, 0x00, 0x04, 0, 0, 0, 0, 0] _ = _
      rw [writeBytes_disjoint _ _ _ 0x30040 272 (disjoint_of_far _ _ _ _ (by decide) (by decide)) i (Win.rodata_length ▸ hi)]
      exact holdsAt_writeBytes _ _ _ (by decide) i hi⟩
    rsp_aligned := by decide
    frame_cv := disjoint_of_far _ _ _ _ (by decide) (by decide)
    frame_block := disjoint_of_far _ _ _ _ (by decide) (by decide)
    frame_rodata := disjoint_of_far _ _ _ _ (by decide) (by decide)
    frame_out := disjoint_of_far _ _ _ _ (by decide) (by decide) }

example : outArg exampleStateX = 0x40004 := by decide

end B3.AsmSem.Avx512.WinXof
