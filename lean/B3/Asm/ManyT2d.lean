/- the 2-input tail, the short pieces (1576, 1577, 1615..1637, 1421, 1422); see `ManyT2a.lean` -/
import B3.Asm.ManyT1
namespace B3.AsmSem.Many
open B3 B3.Simd B3.AsmSem B3.Gen.AsmSse41Many

/-! ### 1576, 1577 -/

theorem t2_dec (rb : UInt64) (x : Vector V4 16) (g : Vector UInt64 16) (z c : Bool) (F : Vector V4 22) (m : Memory) :
    frun rodata rb hash_many 1 ⟨mkS x g z c F m 1576, [], true⟩
      = ⟨mkS x (decAl g) (trunc .b8 (trunc .b8 g[rax] - 1) == 0) c F m 1577, [], true⟩ := by
  kernel_rfl

theorem t2_jz_taken (rb : UInt64) (x : Vector V4 16) (g : Vector UInt64 16) (c : Bool) (F : Vector V4 22) (m : Memory) :
    frun rodata rb hash_many 1 ⟨mkS x g true c F m 1577, [], true⟩ = ⟨mkS x g true c F m 1615, [], true⟩ := by
  kernel_rfl

theorem t2_jz_not_taken (rb : UInt64) (x : Vector V4 16) (g : Vector UInt64 16) (c : Bool) (F : Vector V4 22) (m : Memory) :
    frun rodata rb hash_many 1 ⟨mkS x g false c F m 1577, [], true⟩ = ⟨mkS x g false c F m 1578, [], true⟩ := by
  kernel_rfl

/-! ### 1615..1621 -/

theorem t2_exit_raw (rb : UInt64) (x0 x1 x2 x3 x4 x5 x6 x7 x8 x9 x10 x11 x12 x13 x14 x15 : V4) (g0 g1 g2 g3 g4 g5 g6 g7 g8 g9 g10 g11 g12 g13 g14 g15 : UInt64) (z c : Bool) (F : Vector V4 22) (m : Memory) :
    frun rodata rb hash_many 6 ⟨mkS #v[x0, x1, x2, x3, x4, x5, x6, x7, x8, x9, x10, x11, x12, x13, x14, x15] #v[g0, g1, g2, g3, g4, g5, g6, g7, g8, g9, g10, g11, g12, g13, g14, g15] z c F m 1615, [], true⟩
      = ⟨mkS #v[_mm_xor_si128 x0 x2, _mm_xor_si128 x1 x3, x2, x3, x4, x5, x6, x7, _mm_xor_si128 x8 x10, _mm_xor_si128 x9 x11, x10, x11, x12, x13, x14, x15]
          #v[trunc .d32 (trunc .d32 g13), g1, g2, g3, g4, g5, g6, g7, g8, g9, g10, g11, g12, g13, g14, g15] (g2 - g15 == 0) (decide (g2 < g15)) F m 1621, [], true⟩ := by
  kernel_rfl

theorem t2_jnz_taken (rb : UInt64) (x : Vector V4 16) (g : Vector UInt64 16) (c : Bool) (F : Vector V4 22) (m : Memory) :
    frun rodata rb hash_many 1 ⟨mkS x g false c F m 1621, [], true⟩ = ⟨mkS x g false c F m 1440, [], true⟩ := by
  kernel_rfl

theorem t2_jnz_not_taken (rb : UInt64) (x : Vector V4 16) (g : Vector UInt64 16) (c : Bool) (F : Vector V4 22) (m : Memory) :
    frun rodata rb hash_many 1 ⟨mkS x g true c F m 1621, [], true⟩ = ⟨mkS x g true c F m 1622, [], true⟩ := by
  kernel_rfl

/-! ### 1622..1637 -/

def t2StoreLog (p : UInt64) : List Ref :=
  [(true, p + dispU 0, 16), (true, p + dispU 16, 16), (true, p + dispU 32, 16), (true, p + dispU 48, 16)]

/-- the counter vectors after the 2-input tail: lanes 2, 3 moved to lanes 0, 1 where the mask (slot 19) is set -/
def shiftLo (mask lo hi : V4) : V4 := blendvps mask lo #v[lo[2], lo[3], hi[0], hi[1]]
def shiftHi (mask hi : V4) : V4 := blendvps mask hi #v[hi[2], hi[3], mask[0], mask[1]]

theorem t2_store_raw (rb : UInt64) (x0 x1 x2 x3 x4 x5 x6 x7 x8 x9 x10 x11 x12 x13 x14 x15 : V4) (g0 g1 g2 g3 g4 g5 g6 g7 g8 g9 g10 g11 g12 g13 g14 g15 : UInt64) (z c : Bool) (f0 f1 f2 f3 f4 f5 f6 f7 f8 f9 f10 f11 f12 f13 f14 f15 f16 f17 f18 f19 f20 f21 : V4) (m : Memory) :
    gview (frun rodata rb hash_many 16 ⟨mkS #v[x0, x1, x2, x3, x4, x5, x6, x7, x8, x9, x10, x11, x12, x13, x14, x15] #v[g0, g1, g2, g3, g4, g5, g6, g7, g8, g9, g10, g11, g12, g13, g14, g15] z c #v[f0, f1, f2, f3, f4, f5, f6, f7, f8, f9, f10, f11, f12, f13, f14, f15, f16, f17, f18, f19, f20, f21] m 1622, [], true⟩)
      = ⟨#v[g0, g1, g2, g3 + UInt64.ofNat 64, g4, g5, g6 - UInt64.ofNat 2, g7 + UInt64.ofNat 16, g8, g9, g10, g11, g12, g13, g14, g15],
         g6 - UInt64.ofNat 2 == 0, decide (g6 < UInt64.ofNat 2),
         #v[f0, f1, f2, f3, f4, f5, f6, f7, f8, f9, f10, f11, f12, f13, f14, f15, f16, shiftLo f19 f17 f18, shiftHi f19 f18, f19, f20, f21],
         store128 (store128 (store128 (store128 m (g3 + dispU 0) x0) (g3 + dispU 16) x1) (g3 + dispU 32) x8) (g3 + dispU 48) x9,
         1638, .running, true, t2StoreLog g3, true⟩ := by
  kernel_rfl

/-! ### 1421, 1422 -/

theorem t2_test (rb : UInt64) (x : Vector V4 16) (g0 g1 g2 g3 g4 g5 g6 g7 g8 g9 g10 g11 g12 g13 g14 g15 : UInt64) (z c : Bool) (F : Vector V4 22) (m : Memory) :
    frun rodata rb hash_many 1 ⟨mkS x #v[g0, g1, g2, g3, g4, g5, g6, g7, g8, g9, g10, g11, g12, g13, g14, g15] z c F m 1421, [], true⟩
      = ⟨mkS x #v[g0, g1, g2, g3, g4, g5, g6, g7, g8, g9, g10, g11, g12, g13, g14, g15] (trunc .d32 g6 &&& trunc .d32 (UInt64.ofNat 2) == 0) false F m 1422, [], true⟩ := by
  kernel_rfl

theorem t2_skip (rb : UInt64) (x : Vector V4 16) (g : Vector UInt64 16) (c : Bool) (F : Vector V4 22) (m : Memory) :
    frun rodata rb hash_many 1 ⟨mkS x g true c F m 1422, [], true⟩ = ⟨mkS x g true c F m 1638, [], true⟩ := by
  kernel_rfl

theorem t2_enter (rb : UInt64) (x : Vector V4 16) (g : Vector UInt64 16) (c : Bool) (F : Vector V4 22) (m : Memory) :
    frun rodata rb hash_many 1 ⟨mkS x g false c F m 1422, [], true⟩ = ⟨mkS x g false c F m 1423, [], true⟩ := by
  kernel_rfl

end B3.AsmSem.Many
