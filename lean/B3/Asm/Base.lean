/-
Definitions shared by the proofs about the assembly routines: the specification's round with the
additions associated and the rotations written the way the machine code computes them, the rows /
grouped message words held in the XMM registers, and the part of the machine state the proofs track.
-/
import B3.Spec
import B3.Asm.Sse
namespace B3.AsmSem
open B3 B3.Simd

/-! ### the specification's G, parametrised by the four rotations, additions associated `(a + x) + b` -/

def gP (r16 r12 r8 r7 : UInt32 → UInt32) (s : St) (a b c d : Fin 16) (x y : UInt32) : St :=
  let s := s.set a (s[a] + x + s[b])
  let s := s.set d (r16 (s[d] ^^^ s[a]))
  let s := s.set c (s[c] + s[d])
  let s := s.set b (r12 (s[b] ^^^ s[c]))
  let s := s.set a (s[a] + y + s[b])
  let s := s.set d (r8 (s[d] ^^^ s[a]))
  let s := s.set c (s[c] + s[d])
  let s := s.set b (r7 (s[b] ^^^ s[c]))
  s

def roundP (r16 r12 r8 r7 : UInt32 → UInt32) (s : St) (f : Fin 16 → UInt32) : St :=
  let s := gP r16 r12 r8 r7 s 0 4 8 12 (f 0) (f 1)
  let s := gP r16 r12 r8 r7 s 1 5 9 13 (f 2) (f 3)
  let s := gP r16 r12 r8 r7 s 2 6 10 14 (f 4) (f 5)
  let s := gP r16 r12 r8 r7 s 3 7 11 15 (f 6) (f 7)
  let s := gP r16 r12 r8 r7 s 0 5 10 15 (f 8) (f 9)
  let s := gP r16 r12 r8 r7 s 1 6 11 12 (f 10) (f 11)
  let s := gP r16 r12 r8 r7 s 2 7 8 13 (f 12) (f 13)
  let s := gP r16 r12 r8 r7 s 3 4 9 14 (f 14) (f 15)
  s

theorem add_right_comm32 (a b c : UInt32) : a + b + c = a + c + b := by
  rw [UInt32.add_assoc, UInt32.add_comm b c, ← UInt32.add_assoc]

theorem gP_eq (r16 r12 r8 r7 : UInt32 → UInt32)
    (h16 : ∀ x, r16 x = rotr x 16) (h12 : ∀ x, r12 x = rotr x 12) (h8 : ∀ x, r8 x = rotr x 8) (h7 : ∀ x, r7 x = rotr x 7)
    (s : St) (a b c d : Fin 16) (x y : UInt32) : gP r16 r12 r8 r7 s a b c d x y = Spec.g s a b c d x y := by
  unfold gP Spec.g
  simp only [add_right_comm32 _ x, add_right_comm32 _ y, h16, h12, h8, h7]

theorem roundP_eq (r16 r12 r8 r7 : UInt32 → UInt32)
    (h16 : ∀ x, r16 x = rotr x 16) (h12 : ∀ x, r12 x = rotr x 12) (h8 : ∀ x, r8 x = rotr x 8) (h7 : ∀ x, r7 x = rotr x 7)
    (s : St) (f : Fin 16 → UInt32) : roundP r16 r12 r8 r7 s f = Spec.roundWith s f := by
  unfold roundP Spec.roundWith
  simp only [gP_eq r16 r12 r8 r7 h16 h12 h8 h7]

/-! ### rows of the state and grouped message words (what XMM0-3 / XMM4-7 hold at the loop head) -/

/-- row `k` of the 4x4 state: words `4k .. 4k+3` -/
def row (s : St) (k : Fin 4) : V4 :=
  #v[s[4 * k.val]'(by omega), s[4 * k.val + 1]'(by omega), s[4 * k.val + 2]'(by omega), s[4 * k.val + 3]'(by omega)]

def grp0 (w : St) : V4 := #v[w[0], w[2], w[4], w[6]]
def grp1 (w : St) : V4 := #v[w[1], w[3], w[5], w[7]]
def grp2 (w : St) : V4 := #v[w[14], w[8], w[10], w[12]]
def grp3 (w : St) : V4 := #v[w[15], w[9], w[11], w[13]]

theorem vec16_eta {α : Type} (s : Vector α 16) : s = #v[s[0], s[1], s[2], s[3], s[4], s[5], s[6], s[7],
    s[8], s[9], s[10], s[11], s[12], s[13], s[14], s[15]] := by
  apply Vector.ext
  intro i hi
  match i, hi with
  | 0, _ | 1, _ | 2, _ | 3, _ | 4, _ | 5, _ | 6, _ | 7, _
  | 8, _ | 9, _ | 10, _ | 11, _ | 12, _ | 13, _ | 14, _ | 15, _ => rfl
  | n + 16, h => omega

theorem vec8_eta {α : Type} (s : Vector α 8) : s = #v[s[0], s[1], s[2], s[3], s[4], s[5], s[6], s[7]] := by
  apply Vector.ext
  intro i hi
  match i, hi with
  | 0, _ | 1, _ | 2, _ | 3, _ | 4, _ | 5, _ | 6, _ | 7, _ => rfl
  | n + 8, h => omega

theorem vec4_eta {α : Type} (s : Vector α 4) : s = #v[s[0], s[1], s[2], s[3]] := by
  apply Vector.ext
  intro i hi
  match i, hi with
  | 0, _ | 1, _ | 2, _ | 3, _ => rfl
  | n + 4, h => omega

/-- replace a 16-word vector by 16 fresh atoms -/
macro "atoms16 " s:ident : tactic => `(tactic|
  (rw [vec16_eta $s]
   generalize $s[0] = a0; generalize $s[1] = a1; generalize $s[2] = a2; generalize $s[3] = a3
   generalize $s[4] = a4; generalize $s[5] = a5; generalize $s[6] = a6; generalize $s[7] = a7
   generalize $s[8] = a8; generalize $s[9] = a9; generalize $s[10] = a10; generalize $s[11] = a11
   generalize $s[12] = a12; generalize $s[13] = a13; generalize $s[14] = a14; generalize $s[15] = a15))

/-! ### the tracked part of the machine state -/

/-- everything but the scratch registers XMM8-13 and ZF -/
structure View where
  r0 : V4
  r1 : V4
  r2 : V4
  r3 : V4
  m0 : V4
  m1 : V4
  m2 : V4
  m3 : V4
  t14 : V4
  t15 : V4
  gpr : Vector UInt64 16
  mem : Memory
  pc : Nat
  status : Status
  ok : Bool

def view (s : State) : View :=
  ⟨s.xmm[0], s.xmm[1], s.xmm[2], s.xmm[3], s.xmm[4], s.xmm[5], s.xmm[6], s.xmm[7], s.xmm[14], s.xmm[15],
   s.gpr, s.mem, s.pc, s.status, s.ok⟩

/-- a state is determined by its view, its scratch registers and ZF -/
theorem of_view {s : State} {v : View} (h : view s = v) :
    s = ⟨#v[v.r0, v.r1, v.r2, v.r3, v.m0, v.m1, v.m2, v.m3, s.xmm[8], s.xmm[9], s.xmm[10], s.xmm[11], s.xmm[12], s.xmm[13],
          v.t14, v.t15], v.gpr, s.zf, v.mem, v.pc, v.status, v.ok⟩ := by
  subst h
  cases s with
  | mk x g z m p st ok =>
    simp only [view]
    congr 1
    exact vec16_eta x

theorem fields_of_view {sf : State} {v : View} (h : view sf = v) :
    sf.status = v.status ∧ sf.ok = v.ok ∧ sf.mem = v.mem ∧ sf.gpr = v.gpr := by
  subst h; exact ⟨rfl, rfl, rfl, rfl⟩

/-- the tracked part for the SSE2 routines, which keep no table in a register: everything but XMM8-15 and ZF -/
structure View2 where
  r0 : V4
  r1 : V4
  r2 : V4
  r3 : V4
  m0 : V4
  m1 : V4
  m2 : V4
  m3 : V4
  gpr : Vector UInt64 16
  mem : Memory
  pc : Nat
  status : Status
  ok : Bool

def view2 (s : State) : View2 :=
  ⟨s.xmm[0], s.xmm[1], s.xmm[2], s.xmm[3], s.xmm[4], s.xmm[5], s.xmm[6], s.xmm[7], s.gpr, s.mem, s.pc, s.status, s.ok⟩

theorem of_view2 {s : State} {v : View2} (h : view2 s = v) :
    s = ⟨#v[v.r0, v.r1, v.r2, v.r3, v.m0, v.m1, v.m2, v.m3, s.xmm[8], s.xmm[9], s.xmm[10], s.xmm[11], s.xmm[12], s.xmm[13],
          s.xmm[14], s.xmm[15]], v.gpr, s.zf, v.mem, v.pc, v.status, v.ok⟩ := by
  subst h
  cases s with
  | mk x g z m p st ok =>
    simp only [view2]
    congr 1
    exact vec16_eta x

theorem fields_of_view2 {sf : State} {v : View2} (h : view2 sf = v) :
    sf.status = v.status ∧ sf.ok = v.ok ∧ sf.mem = v.mem ∧ sf.gpr = v.gpr := by
  subst h; exact ⟨rfl, rfl, rfl, rfl⟩

end B3.AsmSem
