/-
Running the machine semantics `B3/Asm/Many2Sem.lean` on the generated instruction list of
`blake3_hash_many_sse2` with concrete inputs, so that it can be compared with the real routine
running on the CPU (/verif/harness/c/build/cdriver, `CK hmany sse2_asm ...`).

  hmany <n> <blocks> <seed> <key hex, 32 bytes> <counter> <r9> <flags> <fstart> <fend> <inoff> <outoff> <flat|fast>
    -> the 32*n bytes at `out` afterwards, then ` ok` / ` FAULT` (the sticky fault flag), the status, the number of
       steps, ` regs` / ` REGS!` (rbx rbp r12-r15 restored, rsp = entry rsp + 8) and ` frame` / ` FRAME!` (no byte
       of memory outside `out` and outside the 480 bytes below the entry rsp differs from the initial memory, checked
       on the windows that hold data and on 64 bytes around each of them)
The arguments are those of `CK hmany` of the C harness: input `i` is `blocks * 64` bytes of the harness' LCG stream
with seed `seed + i` (`lcg_fill`), the inputs lie one after the other from `inBase + inoff`, the output is at
`outBase + outoff`; `<r9>` is the full 64-bit value of the register that carries `increment_counter` (0 or 1 for a
clean call).  `flags fstart fend out` are passed on the stack as the System V ABI prescribes (qwords at
`rsp+8 .. rsp+32`; the bytes above the low byte of the three flag slots hold junk).
Layout: pointer array at 0x10008, key at 0x20004 (unaligned), `.rodata` at 0x30040, inputs from 0x100000, out from
0x4000000, entry rsp = 0x7fff0008 (8 mod 16, as after a `call`); all other memory reads 0xA7; the other registers
hold junk.

`flat`: THE semantics (`run`, the flat byte memory as a function, every store wraps the function once more: slow
for long runs).  `fast`: the same `execG` over a memory with the written bytes kept in arrays (`fastAcc` below:
reads are `load128` etc. of `ManySem`/`Sse` applied to the lookup function; writes store the bytes `byte128 v k`,
`(v >>> 8k)` one by one) -- used for the long cases; both agree with the CPU on every case they are run on.
-/
import B3.Gen.AsmSse2Many
namespace B3.AsmSem.Many2.Run
open B3 B3.Simd B3.AsmSem B3.AsmSem.Many2

def hexDigit (n : Nat) : Char := if n < 10 then Char.ofNat (48 + n) else Char.ofNat (87 + n)

def hexOfBytes (bs : List UInt8) : String :=
  String.ofList (bs.flatMap fun b => [hexDigit (b.toNat / 16), hexDigit (b.toNat % 16)])

def hexVal (c : Char) : Option Nat :=
  if '0' ≤ c ∧ c ≤ '9' then some (c.toNat - 48)
  else if 'a' ≤ c ∧ c ≤ 'f' then some (c.toNat - 87)
  else none

def bytesOfHexAux : List Char → Array UInt8 → Option (Array UInt8)
  | [], acc => some acc
  | [_], _ => none
  | a :: b :: rest, acc => do
    let x ← hexVal a
    let y ← hexVal b
    bytesOfHexAux rest (acc.push (UInt8.ofNat (16 * x + y)))

def bytesOfHex (s : String) : Option (Array UInt8) := bytesOfHexAux s.toList #[]

def u64 (s : String) : Option UInt64 := do
  let n ← s.toNat?
  if n < 2 ^ 64 then some (UInt64.ofNat n) else none

/-- the C harness' `lcg_fill` -/
def lcgFill (n : Nat) (seed : UInt64) : Array UInt8 := Id.run do
  let mut s := seed
  let mut out : Array UInt8 := Array.mkEmpty n
  for _ in [0:n] do
    s := s * 6364136223846793005 + 1442695040888963407
    out := out.push (s >>> 56).toUInt8
  return out

def ptrBase : UInt64 := 0x10008
def keyBase : UInt64 := 0x20004
def roBase : UInt64 := 0x30040
def inBase : UInt64 := 0x100000
def outBase : UInt64 := 0x4000000
def rsp0 : UInt64 := 0x7fff0008

def le64 (v : UInt64) : Array UInt8 := (Array.range 8).map fun k => (v >>> (8 * UInt64.ofNat k)).toUInt8

/-- a window of initial memory: bytes at an address -/
structure Win where
  lo : UInt64
  bytes : ByteArray
deriving Inhabited

def Win.get? (w : Win) (p : UInt64) : Option UInt8 :=
  if p - w.lo < UInt64.ofNat w.bytes.size then some (w.bytes.get! (p - w.lo).toNat) else none

def lookup (ws : Array Win) (p : UInt64) : UInt8 := Id.run do
  for w in ws do
    if let some b := w.get? p then return b
  return 0xA7

/-- the windows of the initial memory: pointer array, key, .rodata, inputs, out (prefilled), stack arguments -/
def initWins (n blocks : Nat) (seed : UInt64) (key : Array UInt8) (flags fs fe : UInt8) (inoff outoff : UInt64) : Array Win :=
  let len := blocks * 64
  let inp : Array UInt8 := (Array.range n).foldl (fun acc i => acc ++ lcgFill len (seed + UInt64.ofNat i)) #[]
  let ptrs : Array UInt8 := (Array.range n).foldl (fun acc i => acc ++ le64 (inBase + inoff + UInt64.ofNat (i * len))) #[]
  let args : Array UInt8 :=
    le64 (0xA5C3A5C3A5C3A500 ||| flags.toUInt64) ++ le64 (0xA5C3A5C3A5C3A500 ||| fs.toUInt64)
      ++ le64 (0xA5C3A5C3A5C3A500 ||| fe.toUInt64) ++ le64 (outBase + outoff)
  #[⟨ptrBase, ⟨ptrs⟩⟩, ⟨keyBase, ⟨key⟩⟩, ⟨roBase, ⟨Gen.AsmSse2Many.rodata.toArray⟩⟩, ⟨inBase + inoff, ⟨inp⟩⟩,
    ⟨outBase + outoff, ⟨Array.replicate (32 * n) 0x55⟩⟩, ⟨rsp0 + 8, ⟨args⟩⟩]

def junk : V4 := #v[0xDEADBEEF, 0x01234567, 0x89ABCDEF, 0xFEEDFACE]

def initGpr (n blocks : Nat) (counter r9v : UInt64) : Vector UInt64 16 :=
  #v[0x1111111111111111, keyBase, UInt64.ofNat blocks, 0x3333333333333333, rsp0, 0x5555555555555555, UInt64.ofNat n, ptrBase,
     counter, r9v, 0xAAAAAAAAAAAAAAAA, 0xBBBBBBBBBBBBBBBB, 0xCCCCCCCCCCCCCCCC, 0xDDDDDDDDDDDDDDDD,
     0xEEEEEEEEEEEEEEEE, 0xFFFFFFFFFFFFFFFF]

def initState {μ : Type} (m : μ) (n blocks : Nat) (counter r9v : UInt64) : StateG μ :=
  { xmm := Vector.replicate 16 junk, gpr := initGpr n blocks counter r9v, zf := true, cf := true, mem := m, pc := 0,
    status := .running, ok := true }

/-- run until `ret` (at most `fuel` steps); returns the state and the number of steps -/
def runCount {μ : Type} (A : MemAcc μ) (rb : UInt64) (prog : List Instr) : Nat → Nat → StateG μ → StateG μ × Nat
  | 0, n, s => (s, n)
  | fuel + 1, n, s => if s.status = .returned then (s, n) else runCount A rb prog fuel (n + 1) (stepG A rb prog s)

/-! ### the memory with the written bytes kept apart -/

/-- initial memory as a function, the bytes written since: in one array per known window (the 512 bytes below the
entry rsp, the output area), anything else in an association list (searched first) -/
structure FastMem where
  base : Memory
  wins : Array Win
  stray : List (UInt64 × UInt8)

def FastMem.get (m : FastMem) (p : UInt64) : UInt8 :=
  match m.stray.find? (fun e => e.1 == p) with
  | some e => e.2
  | none => Id.run do
    for w in m.wins do
      if let some b := w.get? p then return b
    return m.base p

def FastMem.set (m : FastMem) (p : UInt64) (v : UInt8) : FastMem := Id.run do
  if (m.stray.find? (fun e => e.1 == p)).isSome then
    return { m with stray := (p, v) :: m.stray }
  for i in [0:m.wins.size] do
    let w := m.wins[i]!
    if p - w.lo < UInt64.ofNat w.bytes.size then
      return { m with wins := m.wins.set! i { w with bytes := w.bytes.set! (p - w.lo).toNat v } }
  return { m with stray := (p, v) :: m.stray }

def FastMem.view (m : FastMem) : Memory := fun p => m.get p

def fastAcc : MemAcc FastMem where
  ld8 m _ a := m.view a
  ld32 m _ a := m.view.word a
  ld32s m _ _ a := m.view.word a
  ld64 m _ a := load64 m.view a
  ld128 m _ a := load128 m.view a
  st32 m _ a v := (List.range 4).foldl (fun m k => m.set (a + UInt64.ofNat k) (byteOf v k)) m
  st64 m _ a v := (List.range 8).foldl (fun m k => m.set (a + UInt64.ofNat k) (v >>> (8 * UInt64.ofNat k)).toUInt8) m
  st128 m _ a v := (List.range 16).foldl (fun m k => m.set (a + UInt64.ofNat k) (byte128 v k)) m
  al16 _ a := aligned16 a

def mkFast (base : Memory) (outLo : UInt64) (outLen : Nat) : FastMem :=
  let w1 : Win := ⟨rsp0 - 512, ⟨(Array.range 512).map fun k => base (rsp0 - 512 + UInt64.ofNat k)⟩⟩
  let w2 : Win := ⟨outLo, ⟨(Array.range outLen).map fun k => base (outLo + UInt64.ofNat k)⟩⟩
  { base := base, wins := #[w1, w2], stray := [] }

def readBytes (m : Memory) (a : UInt64) (n : Nat) : List UInt8 := (List.range n).map fun i => m (a + UInt64.ofNat i)

/-- the final memory equals the initial one outside `out` and outside the 480 bytes below the entry rsp, on every window
of the initial memory extended by 64 bytes on both sides, and on 64 bytes above the frame area -/
def frameOk (ws : Array Win) (m0 m1 : Memory) (outLo : UInt64) (outLen : Nat) : Bool :=
  let inOut (p : UInt64) : Bool := p - outLo < UInt64.ofNat outLen
  let inFrame (p : UInt64) : Bool := p - (rsp0 - 480) < 480
  let okAt (p : UInt64) : Bool := inOut p || inFrame p || m0 p == m1 p
  ws.all (fun w => (List.range (w.bytes.size + 128)).all fun k => okAt (w.lo - 64 + UInt64.ofNat k))
    && (List.range 640).all (fun k => okAt (rsp0 - 576 + UInt64.ofNat k))

def regsOk (g0 g1 : Vector UInt64 16) : Bool :=
  g1[rbx] == g0[rbx] && g1[rbp] == g0[rbp] && g1[r12] == g0[r12] && g1[r13] == g0[r13] && g1[r14] == g0[r14]
    && g1[r15] == g0[r15] && g1[rsp] == g0[rsp] + 8

def report (out : List UInt8) (ok : Bool) (st : Status) (steps : Nat) (regs frame : Bool) : String :=
  hexOfBytes out ++ (if ok then " ok " else " FAULT ") ++ (if st = .returned then "returned " else "running ")
    ++ toString steps ++ (if regs then " regs" else " REGS!") ++ (if frame then " frame" else " FRAME!")

def runLine (toks : List String) : Option String :=
  match toks with
  | ["hmany", n, blocks, seed, key, counter, r9v, flags, fs, fe, inoff, outoff, mode] => do
    let n ← n.toNat?
    let blocks ← blocks.toNat?
    let key ← bytesOfHex key
    if key.size ≠ 32 ∨ n > 64 ∨ blocks > 64 then none
    let flags ← u64 flags; let fs ← u64 fs; let fe ← u64 fe
    let inoff ← u64 inoff; let outoff ← u64 outoff
    let counter ← u64 counter; let r9v ← u64 r9v
    let ws := initWins n blocks (← u64 seed) key flags.toUInt8 fs.toUInt8 fe.toUInt8 inoff outoff
    let m0 : Memory := lookup ws
    let outLo := outBase + outoff
    let fuel := 2000 + 6000 * (n + 4) * (blocks + 1)
    let g0 := initGpr n blocks counter r9v
    if mode = "flat" then
      let (s, steps) := runCount flat roBase Gen.AsmSse2Many.hash_many fuel 0 (initState m0 n blocks counter r9v)
      some (report (readBytes s.mem outLo (32 * n)) s.ok s.status steps (regsOk g0 s.gpr) (frameOk ws m0 s.mem outLo (32 * n)))
    else if mode = "fast" then
      let (s, steps) := runCount fastAcc roBase Gen.AsmSse2Many.hash_many fuel 0
        (initState (mkFast m0 outLo (32 * n)) n blocks counter r9v)
      some (report (readBytes s.mem.view outLo (32 * n)) s.ok s.status steps (regsOk g0 s.gpr)
        (frameOk ws m0 s.mem.view outLo (32 * n) && s.mem.stray.isEmpty))
    else none
  | _ => none

end B3.AsmSem.Many2.Run
