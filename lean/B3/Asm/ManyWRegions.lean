/- regions of memory for the Windows-GNU `blake3_hash_many_sse41`: the frame base computed by the prologue, the scratch area
(the 656 bytes below the entry `rsp`: eight pushes, alignment slack, the frame of 528 bytes), the memory after the prologue
(`MW`) outside the scratch area, alignment of the XMM save area -/
import B3.Asm.ManyWAll
namespace B3.AsmSem.Many.W
open B3 B3.Simd B3.AsmSem B3.Gen.AsmSse41Many

theorem rbpW_toNat (sp : UInt64) (h : 64 ≤ sp.toNat) : (rbpW sp).toNat = sp.toNat - 64 := by
  unfold rbpW
  have e8 : (8 : UInt64).toNat = 8 := rfl
  have hs := sp.toNat_lt
  simp only [UInt64.toNat_sub, e8]
  omega

theorem rbpW_eq (sp : UInt64) : rbpW sp = sp - 64 := by
  unfold rbpW
  have key : ∀ a b c : UInt64, a - b - c = a - (b + c) := sub_sub'
  rw [key, key, key, key, key, key, key]
  rfl

theorem rbpW_add64 (sp : UInt64) : rbpW sp + 64 = sp := by
  rw [rbpW_eq, UInt64.sub_add_cancel]

/-- stack argument at `[rbp + d]`, `d ≥ 64`: `[rsp_entry + (d - 64)]` -/
theorem rbpW_disp (sp : UInt64) (d : Nat) (hd : 64 ≤ d) : rbpW sp + dispU (d : Int) = sp + UInt64.ofNat (d - 64) := by
  rw [rbpW_eq]
  show sp - 64 + UInt64.ofNat d = _
  have : UInt64.ofNat d = 64 + UInt64.ofNat (d - 64) := by
    rw [show (64 : UInt64) = UInt64.ofNat 64 from rfl, ← UInt64.ofNat_add]
    congr 1
    omega
  rw [this, ← UInt64.add_assoc, UInt64.sub_add_cancel]

/-- the frame base is 64-byte aligned and lies between 592 and 655 bytes below the entry `rsp` -/
theorem frameBaseW_spec (sp : UInt64) (h : 704 ≤ sp.toNat) :
    (frameBaseW sp).toNat % 64 = 0 ∧ sp.toNat - 655 ≤ (frameBaseW sp).toNat ∧ (frameBaseW sp).toNat ≤ sp.toNat - 592 := by
  unfold frameBaseW
  have hs := sp.toNat_lt
  have e : (rbpW sp - UInt64.ofNat 528).toNat = sp.toNat - 592 := by
    have e528 : (UInt64.ofNat 528).toNat = 528 := rfl
    rw [UInt64.toNat_sub, rbpW_toNat sp (by omega), e528]
    omega
  rw [UInt64.toNat_and, e]
  have em : (UInt64.ofNat 18446744073709551552).toNat = 18446744073709551552 := rfl
  rw [em, and_mask64 _ (by omega)]
  omega

/-- start of the scratch area: the 656 bytes below the entry `rsp` -/
def scratchW (sp : UInt64) : UInt64 := sp - UInt64.ofNat 656

theorem scratchW_toNat (sp : UInt64) (h : 704 ≤ sp.toNat) : (scratchW sp).toNat = sp.toNat - 656 := by
  unfold scratchW
  have e : (UInt64.ofNat 656).toNat = 656 := rfl
  have := sp.toNat_lt
  rw [UInt64.toNat_sub, e]
  omega

/-- a byte at distance `≥ 656` from the start of the scratch area is at distance `≥ n` from `a` if `[a, a + n)` lies in it -/
theorem far_of_scratch (sp p a : UInt64) (n : Nat) (h : 704 ≤ sp.toNat) (hp : 656 ≤ (p - scratchW sp).toNat)
    (ha1 : sp.toNat - 656 ≤ a.toNat) (ha2 : a.toNat + n ≤ sp.toNat) : n ≤ (p - a).toNat := by
  have hs := scratchW_toNat sp h
  rw [UInt64.toNat_sub, hs] at hp
  rw [UInt64.toNat_sub]
  have := p.toNat_lt
  have := sp.toNat_lt
  omega

theorem fb_disp_toNat (sp : UInt64) (h : 704 ≤ sp.toNat) (d : Nat) (hd : d ≤ 528) :
    (frameBaseW sp + dispU (d : Int)).toNat = (frameBaseW sp).toNat + d := by
  obtain ⟨_, hlo, hhi⟩ := frameBaseW_spec sp h
  show (frameBaseW sp + UInt64.ofNat d).toNat = _
  rw [UInt64.toNat_add, ofNat_toNat_lt d (by omega)]
  have := sp.toNat_lt
  omega

theorem store128_outside (m : Memory) (a : UInt64) (v : V4) (q : UInt64) (h : 16 ≤ (q - a).toNat) : store128 m a v q = m q := by
  rw [store128_apply, if_neg (by omega)]

set_option maxRecDepth 20000 in
/-- **outside the scratch area the prologue changes nothing** -/
theorem MW_outside (s : State) (h : 704 ≤ s.gpr[rsp].toNat) (p : UInt64) (hp : 656 ≤ (p - scratchW s.gpr[rsp]).toNat) :
    MW s p = s.mem p := by
  obtain ⟨_, hlo, hhi⟩ := frameBaseW_spec s.gpr[rsp] h
  have hs := s.gpr[rsp].toNat_lt
  have far128 : ∀ d : Nat, 368 ≤ d → d ≤ 512 → 16 ≤ (p - (frameBaseW s.gpr[rsp] + dispU (d : Int))).toNat := by
    intro d h1 h2
    apply far_of_scratch s.gpr[rsp] p _ 16 h hp
    · rw [fb_disp_toNat _ h d (by omega)]; omega
    · rw [fb_disp_toNat _ h d (by omega)]; omega
  have e8 : (8 : UInt64).toNat = 8 := rfl
  have a1 : (s.gpr[rsp] - 8).toNat = s.gpr[rsp].toNat - 8 := by rw [UInt64.toNat_sub, e8]; omega
  have a2 : (s.gpr[rsp] - 8 - 8).toNat = s.gpr[rsp].toNat - 16 := by rw [UInt64.toNat_sub, a1, e8]; omega
  have a3 : (s.gpr[rsp] - 8 - 8 - 8).toNat = s.gpr[rsp].toNat - 24 := by rw [UInt64.toNat_sub, a2, e8]; omega
  have a4 : (s.gpr[rsp] - 8 - 8 - 8 - 8).toNat = s.gpr[rsp].toNat - 32 := by rw [UInt64.toNat_sub, a3, e8]; omega
  have a5 : (s.gpr[rsp] - 8 - 8 - 8 - 8 - 8).toNat = s.gpr[rsp].toNat - 40 := by rw [UInt64.toNat_sub, a4, e8]; omega
  have a6 : (s.gpr[rsp] - 8 - 8 - 8 - 8 - 8 - 8).toNat = s.gpr[rsp].toNat - 48 := by rw [UInt64.toNat_sub, a5, e8]; omega
  have a7 : (s.gpr[rsp] - 8 - 8 - 8 - 8 - 8 - 8 - 8).toNat = s.gpr[rsp].toNat - 56 := by rw [UInt64.toNat_sub, a6, e8]; omega
  have a8 : (s.gpr[rsp] - 8 - 8 - 8 - 8 - 8 - 8 - 8 - 8).toNat = s.gpr[rsp].toNat - 64 := by rw [UInt64.toNat_sub, a7, e8]; omega
  have far64 : ∀ a : UInt64, ∀ d : Nat, a.toNat = s.gpr[rsp].toNat - d → 8 ≤ d → d ≤ 64 → 8 ≤ (p - a).toNat := by
    intro a d ha h1 h2
    apply far_of_scratch s.gpr[rsp] p a 8 h hp <;> omega
  unfold MW saveMem
  rw [store128_outside _ (frameBaseW s.gpr[rsp] + dispU 512) _ _ (far128 512 (by omega) (by omega)), store128_outside _ (frameBaseW s.gpr[rsp] + dispU 496) _ _ (far128 496 (by omega) (by omega)),
    store128_outside _ (frameBaseW s.gpr[rsp] + dispU 480) _ _ (far128 480 (by omega) (by omega)), store128_outside _ (frameBaseW s.gpr[rsp] + dispU 464) _ _ (far128 464 (by omega) (by omega)),
    store128_outside _ (frameBaseW s.gpr[rsp] + dispU 448) _ _ (far128 448 (by omega) (by omega)), store128_outside _ (frameBaseW s.gpr[rsp] + dispU 432) _ _ (far128 432 (by omega) (by omega)),
    store128_outside _ (frameBaseW s.gpr[rsp] + dispU 416) _ _ (far128 416 (by omega) (by omega)), store128_outside _ (frameBaseW s.gpr[rsp] + dispU 400) _ _ (far128 400 (by omega) (by omega)),
    store128_outside _ (frameBaseW s.gpr[rsp] + dispU 384) _ _ (far128 384 (by omega) (by omega)), store128_outside _ (frameBaseW s.gpr[rsp] + dispU 368) _ _ (far128 368 (by omega) (by omega))]
  unfold pushMemW
  rw [store64_outside _ _ _ _ (far64 _ 64 a8 (by omega) (by omega)), store64_outside _ _ _ _ (far64 _ 56 a7 (by omega) (by omega)),
    store64_outside _ _ _ _ (far64 _ 48 a6 (by omega) (by omega)), store64_outside _ _ _ _ (far64 _ 40 a5 (by omega) (by omega)),
    store64_outside _ _ _ _ (far64 _ 32 a4 (by omega) (by omega)), store64_outside _ _ _ _ (far64 _ 24 a3 (by omega) (by omega)),
    store64_outside _ _ _ _ (far64 _ 16 a2 (by omega) (by omega)), store64_outside _ _ _ _ (far64 _ 8 a1 (by omega) (by omega))]

set_option maxRecDepth 20000 in
/-- bytes outside the scratch area are outside the frame -/
theorem outside_frame_of_scratchW (sp : UInt64) (h : 704 ≤ sp.toNat) (q : UInt64) (k : Nat)
    (hq : OutsideRo (scratchW sp) 656 q k) : Outside (frameBaseW sp) q k := by
  obtain ⟨_, hlo, hhi⟩ := frameBaseW_spec sp h
  intro i hi
  have := hq i hi
  apply far_of_scratch sp _ _ 352 h this <;> omega

/-- a byte inside the frame or the save area is inside the scratch area -/
theorem frame_in_scratchW (sp : UInt64) (h : 704 ≤ sp.toNat) (p : UInt64) (hp : (p - frameBaseW sp).toNat < 528) :
    (p - scratchW sp).toNat < 656 - 64 := by
  obtain ⟨_, hlo, hhi⟩ := frameBaseW_spec sp h
  have hs := scratchW_toNat sp h
  have e : (p - scratchW sp).toNat = ((p - frameBaseW sp).toNat + ((frameBaseW sp).toNat - (scratchW sp).toNat)) % 2 ^ 64 := by
    rw [UInt64.toNat_sub, UInt64.toNat_sub]
    have := p.toNat_lt
    have := (frameBaseW sp).toNat_lt
    have := (scratchW sp).toNat_lt
    omega
  rw [e]
  have := sp.toNat_lt
  omega

/-- the stack arguments (and the shadow space) lie above the scratch area -/
theorem args_scratchW (sp : UInt64) (h : 704 ≤ sp.toNat) (h' : sp.toNat + 96 ≤ 2 ^ 64) (o k : Nat) (hk : o + k ≤ 96) :
    OutsideRo (scratchW sp) 656 (sp + UInt64.ofNat o) k := by
  intro i hi
  have hs := scratchW_toNat sp h
  rw [addr_add, UInt64.toNat_sub, UInt64.toNat_add, hs, UInt64.toNat_ofNat']
  have : (o + i) % 2 ^ 64 = o + i := by omega
  rw [this]
  omega

/-- the ten aligned accesses of the XMM save area do not fault -/
theorem okSave_true (sp : UInt64) (h : 704 ≤ sp.toNat) : okSave (frameBaseW sp) = true := by
  obtain ⟨h64, _, _⟩ := frameBaseW_spec sp h
  have h16 : (frameBaseW sp).toNat % 16 = 0 := by omega
  have key : ∀ d : Nat, d % 16 = 0 → aligned16 (frameBaseW sp + dispU (d : Int)) = true := by
    intro d hd
    show aligned16 (frameBaseW sp + UInt64.ofNat d) = true
    rw [aligned16_add _ d h16, hd]
    rfl
  have k0 : aligned16 (frameBaseW sp + dispU 368) = true := key 368 (by decide)
  have k1 : aligned16 (frameBaseW sp + dispU 384) = true := key 384 (by decide)
  have k2 : aligned16 (frameBaseW sp + dispU 400) = true := key 400 (by decide)
  have k3 : aligned16 (frameBaseW sp + dispU 416) = true := key 416 (by decide)
  have k4 : aligned16 (frameBaseW sp + dispU 432) = true := key 432 (by decide)
  have k5 : aligned16 (frameBaseW sp + dispU 448) = true := key 448 (by decide)
  have k6 : aligned16 (frameBaseW sp + dispU 464) = true := key 464 (by decide)
  have k7 : aligned16 (frameBaseW sp + dispU 480) = true := key 480 (by decide)
  have k8 : aligned16 (frameBaseW sp + dispU 496) = true := key 496 (by decide)
  have k9 : aligned16 (frameBaseW sp + dispU 512) = true := key 512 (by decide)
  unfold okSave
  rw [k0, k1, k2, k3, k4, k5, k6, k7, k8, k9]
  rfl

end B3.AsmSem.Many.W
