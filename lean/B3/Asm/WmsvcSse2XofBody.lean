/-
`blake3_compress_xof_sse2`, MSVC (MASM) flavour (generated instruction list
`B3.Gen.AsmSse2Msvc.compress_xof`): the machine semantics executed symbolically on each straight-line
piece of the routine, cut BY POSITION:
  0..7    `sub rsp, 120`, seven `movdqa [rsp + 16 i], xmmN`
  8..32   prologue proper (as compress_in_place, plus `mov r10, qword ptr [rsp+0xA8]`: the `out` pointer)
  33..86  one round (54 instructions)           87 `dec al`     88 `jz 9f`
  89..110 message permutation + `jmp 9b`
  111..129 reload cv, feed-forward of both halves, four stores at [r10], seven `movdqa xmmN, [rsp + 16 i]`, `add rsp, 120`, `ret`
Same method as B3/Asm/WgnuSse41Body.lean (`kernel_rfl`: evaluation of `run` in the kernel).
-/
import B3.Asm.WmsvcSse2Body
namespace B3.AsmSem.Win.MsvcSse2Xof
open B3 B3.Simd B3.AsmSem B3.AsmSem.Win B3.Gen.AsmSse2Msvc B3.AsmSem.Sse2

theorem frame_raw (rb : UInt64) (x0 x1 x2 x3 x4 x5 x6 x7 x8 x9 x10 x11 x12 x13 x14 x15 : V4)
    (g0 g1 g2 g3 g4 g5 g6 g7 g8 g9 g10 g11 g12 g13 g14 g15 : UInt64) (z : Bool) (m : Memory) :
    run rb compress_xof 8
      ⟨#v[x0, x1, x2, x3, x4, x5, x6, x7, x8, x9, x10, x11, x12, x13, x14, x15],
       #v[g0, g1, g2, g3, g4, g5, g6, g7, g8, g9, g10, g11, g12, g13, g14, g15], z, m, 0, .running, true⟩
    = ⟨#v[x0, x1, x2, x3, x4, x5, x6, x7, x8, x9, x10, x11, x12, x13, x14, x15],
       #v[g0, g1, g2, g3, g4 - UInt64.ofNat 120, g5, g6, g7, g8, g9, g10, g11, g12, g13, g14, g15],
       g4 - UInt64.ofNat 120 == 0,
       frameStores m (g4 - UInt64.ofNat 120) x6 x7 x8 x9 x11 x14 x15, 8, .running, frameAligned (g4 - UInt64.ofNat 120)⟩ := by
  kernel_rfl

theorem prologue_raw (rb : UInt64) (x0 x1 x2 x3 x4 x5 x6 x7 x8 x9 x10 x11 x12 x13 x14 x15 : V4)
    (g0 g1 g2 g3 g4 g5 g6 g7 g8 g9 g10 g11 g12 g13 g14 g15 : UInt64) (z : Bool) (m : Memory) :
    wview2 (run rb compress_xof 25
      ⟨#v[x0, x1, x2, x3, x4, x5, x6, x7, x8, x9, x10, x11, x12, x13, x14, x15],
       #v[g0, g1, g2, g3, g4, g5, g6, g7, g8, g9, g10, g11, g12, g13, g14, g15], z, m, 8, .running, true⟩)
    = ⟨load128 m (g1 + UInt64.ofNat 0), load128 m (g1 + UInt64.ofNat 16), load128 m (rb + UInt64.ofNat 0),
       #v[g9.toUInt32, (g9 >>> 32).toUInt32, (lenFlagsW g8 (m (g4 + UInt64.ofNat 160))).toUInt32,
          (lenFlagsW g8 (m (g4 + UInt64.ofNat 160)) >>> 32).toUInt32],
       grp0 (blockRaw m g2), grp1 (blockRaw m g2), grp2 (blockRaw m g2), grp3 (blockRaw m g2),
       x10, x12, x13, x15,
       #v[merge .b8 (trunc .d32 (m (g4 + UInt64.ofNat 160)).toUInt64 <<< 32) 7, g1, g2, g3, g4, g5, g6, g7,
          lenFlagsW g8 (m (g4 + UInt64.ofNat 160)), g9, load64 m (g4 + UInt64.ofNat 168), g11, g12, g13, g14, g15], m, 33, .running,
       true && aligned16 (rb + UInt64.ofNat 0)⟩ := by
  kernel_rfl

theorem body_raw (rb : UInt64) (S W : St) (j8 j9 k10 j11 k12 k13 j14 k15 : V4) (g : Vector UInt64 16) (z : Bool) (m : Memory) :
    wview2 (run rb compress_xof 54
      ⟨#v[row S 0, row S 1, row S 2, row S 3, grp0 W, grp1 W, grp2 W, grp3 W, j8, j9, k10, j11, k12, k13, j14, k15],
       g, z, m, 33, .running, true⟩)
    = ⟨row (roundP s16 s12 s8 s7 S (fun i => W[i])) 0, row (roundP s16 s12 s8 s7 S (fun i => W[i])) 1,
       row (roundP s16 s12 s8 s7 S (fun i => W[i])) 2, row (roundP s16 s12 s8 s7 S (fun i => W[i])) 3,
       grp0 W, grp1 W, grp2 W, grp3 W, k10, k12, k13, k15, g, m, 87, .running, true⟩ := by
  atoms16 S; atoms16 W
  kernel_rfl

theorem dec_raw (rb : UInt64) (x : Vector V4 16) (g : Vector UInt64 16) (z : Bool) (m : Memory) (ok : Bool) :
    step rb compress_xof ⟨x, g, z, m, 87, .running, ok⟩
      = ⟨x, decAl g, trunc .b8 (trunc .b8 g[rax] - 1) == 0, m, 88, .running, ok⟩ := by
  kernel_rfl

theorem jz_taken (rb : UInt64) (x : Vector V4 16) (g : Vector UInt64 16) (m : Memory) (ok : Bool) :
    step rb compress_xof ⟨x, g, true, m, 88, .running, ok⟩ = ⟨x, g, true, m, 111, .running, ok⟩ := by
  kernel_rfl

theorem jz_not_taken (rb : UInt64) (x : Vector V4 16) (g : Vector UInt64 16) (m : Memory) (ok : Bool) :
    step rb compress_xof ⟨x, g, false, m, 88, .running, ok⟩ = ⟨x, g, false, m, 89, .running, ok⟩ := by
  kernel_rfl

theorem perm_raw (rb : UInt64) (r0 r1 r2 r3 m0 m1 m2 m3 : V4) (j8 j9 k10 j11 k12 k13 j14 k15 : V4)
    (g : Vector UInt64 16) (z : Bool) (m : Memory) :
    wview2 (run rb compress_xof 22
      ⟨#v[r0, r1, r2, r3, m0, m1, m2, m3, j8, j9, k10, j11, k12, k13, j14, k15], g, z, m, 89, .running, true⟩)
    = ⟨r0, r1, r2, r3,
       (permMasked m0 m1 m2 m3 (load128 m (rb + UInt64.ofNat 160)) (load128 m (rb + UInt64.ofNat 176))
          (load128 m (rb + UInt64.ofNat 192)) (load128 m (rb + UInt64.ofNat 208))).1,
       (permMasked m0 m1 m2 m3 (load128 m (rb + UInt64.ofNat 160)) (load128 m (rb + UInt64.ofNat 176))
          (load128 m (rb + UInt64.ofNat 192)) (load128 m (rb + UInt64.ofNat 208))).2.1,
       (permMasked m0 m1 m2 m3 (load128 m (rb + UInt64.ofNat 160)) (load128 m (rb + UInt64.ofNat 176))
          (load128 m (rb + UInt64.ofNat 192)) (load128 m (rb + UInt64.ofNat 208))).2.2.1,
       (permMasked m0 m1 m2 m3 (load128 m (rb + UInt64.ofNat 160)) (load128 m (rb + UInt64.ofNat 176))
          (load128 m (rb + UInt64.ofNat 192)) (load128 m (rb + UInt64.ofNat 208))).2.2.2,
       k10, k12, k13, k15, g, m, 33, .running,
       (((true && aligned16 (rb + UInt64.ofNat 160)) && aligned16 (rb + UInt64.ofNat 176)) && aligned16 (rb + UInt64.ofNat 192))
         && aligned16 (rb + UInt64.ofNat 208)⟩ := by
  kernel_rfl

/-- memory after the four stores of the epilogue -/
abbrev out4 (m : Memory) (a : UInt64) (v0 v1 v2 v3 : V4) : Memory :=
  store128 (store128 (store128 (store128 m (a + UInt64.ofNat 0) v0) (a + UInt64.ofNat 16) v1) (a + UInt64.ofNat 32) v2)
    (a + UInt64.ofNat 48) v3

/-- memory after the epilogue's stores, from the registers at instruction 111 -/
abbrev outMem (m : Memory) (g : Vector UInt64 16) (r0 r1 r2 r3 : V4) : Memory :=
  out4 m g[r10] (_mm_xor_si128 r0 r2) (_mm_xor_si128 r1 r3) (_mm_xor_si128 r2 (load128 m (g[rcx] + UInt64.ofNat 0)))
    (_mm_xor_si128 r3 (load128 m (g[rcx] + UInt64.ofNat 16)))

/-- instructions 111..129 (the WHOLE state) -/
theorem epilogue_raw (rb : UInt64) (r0 r1 r2 r3 m0 m1 m2 m3 j8 j9 k10 j11 k12 k13 j14 k15 : V4)
    (g : Vector UInt64 16) (z : Bool) (m : Memory) :
    run rb compress_xof 19
      ⟨#v[r0, r1, r2, r3, m0, m1, m2, m3, j8, j9, k10, j11, k12, k13, j14, k15], g, z, m, 111, .running, true⟩
    = ⟨#v[_mm_xor_si128 r0 r2, _mm_xor_si128 r1 r3, _mm_xor_si128 r2 (load128 m (g[rcx] + UInt64.ofNat 0)),
          _mm_xor_si128 r3 (load128 m (g[rcx] + UInt64.ofNat 16)),
          load128 m (g[rcx] + UInt64.ofNat 0), load128 m (g[rcx] + UInt64.ofNat 16),
          load128 (outMem m g r0 r1 r2 r3) (g[rsp] + UInt64.ofNat 0),
          load128 (outMem m g r0 r1 r2 r3) (g[rsp] + UInt64.ofNat 16),
          load128 (outMem m g r0 r1 r2 r3) (g[rsp] + UInt64.ofNat 32),
          load128 (outMem m g r0 r1 r2 r3) (g[rsp] + UInt64.ofNat 48),
          k10,
          load128 (outMem m g r0 r1 r2 r3) (g[rsp] + UInt64.ofNat 64),
          k12, k13,
          load128 (outMem m g r0 r1 r2 r3) (g[rsp] + UInt64.ofNat 80),
          load128 (outMem m g r0 r1 r2 r3) (g[rsp] + UInt64.ofNat 96)],
       gprEpilogue g, g[rsp] + UInt64.ofNat 120 == 0, outMem m g r0 r1 r2 r3, 129, .returned, frameAligned g[rsp]⟩ := by
  kernel_rfl

end B3.AsmSem.Win.MsvcSse2Xof
