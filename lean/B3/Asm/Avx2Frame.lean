/-
The second instance of the instruction semantics `execG` of `B3/Asm/Avx2Sem.lean`, used only in
proofs (the AVX2 analogue of `B3/Asm/ManyFrame.lean`): the machine with the stack frame
`[rsp, rsp + 0x2A8)` of `blake3_hash_many_avx2` held apart from the rest of memory, as 42 vectors
of 16 bytes (`[rsp, rsp+0x2A0)`) and the quadword at `[rsp+0x2A0]` (`blocks * 64`).  Accesses
through `[rsp + d]` operands (no index register, `0 ≤ d`, inside the frame) go to those vectors,
decided by the SYNTAX of the operand, so that straight-line pieces can be evaluated in the kernel
(`kernel_rfl`) for a symbolic `rsp`; `[label + rip]` operands are served from the byte list of the
translated `.rodata` section; every other memory access goes to the rest of memory.

Nothing here is trusted.  What is NOT yet proved (it is for the SSE4.1 routine: `ManyFrameSim.lean`,
750 lines): that a run of this machine IS a run of the flat semantics `Avx2.run` on the memory in
which the frame lies at `rsp` and `.rodata` at `rb`, provided `rsp` is a multiple of 64 and not written in between, `rb` is a multiple of 64 and the
other accesses lie outside the frame.  The theorems of `Props/C05M8.lean` about instruction ranges
are therefore statements about `frun` (this instance of the SAME `execG`), not yet about `run`.
-/
import B3.Asm.Avx2Sem
import B3.Gen.AsmAvx2Many
namespace B3.AsmSem.Avx2
open B3 B3.Simd B3.AsmSem
open B3.AsmSem.Many (load64 store64)

/-- the frame: 42 slots of 16 bytes, the quadword at `[rsp+0x2A0]`; and the rest of memory -/
structure FMem where
  frame : Vector V4 42
  blen : UInt64
  mem : Memory

def slot (F : Vector V4 42) (k : Nat) : V4 := if h : k < 42 then F[k] else #v[0, 0, 0, 0]

def setSlot (F : Vector V4 42) (k : Nat) (v : V4) : Vector V4 42 := if h : k < 42 then F.set k v else F

/-- lane `j` of a vector (lane 3 for `j ≥ 3`) -/
def laneOf (v : V4) (j : Nat) : UInt32 :=
  match j with
  | 0 => v[0]
  | 1 => v[1]
  | 2 => v[2]
  | _ => v[3]

def setLane (v : V4) (j : Nat) (x : UInt32) : V4 :=
  match j with
  | 0 => #v[x, v[1], v[2], v[3]]
  | 1 => #v[v[0], x, v[2], v[3]]
  | 2 => #v[v[0], v[1], x, v[3]]
  | _ => #v[v[0], v[1], v[2], x]

/-- the doubleword at byte offset `e` (a multiple of 4) of the frame -/
def dwordAt (F : Vector V4 42) (e : Nat) : UInt32 := laneOf (slot F (e / 16)) (e % 16 / 4)

/-- `[rsp + d]`, no index, `d ≥ 0` a multiple of 4, `n` bytes inside the 42 slots: the offset `d` -/
def frameOff (o : Operand) (n : Nat) : Option Nat :=
  match o with
  | .mem _ b none (.ofNat d) => if b = rsp ∧ d % 4 = 0 ∧ d + n ≤ 672 then some d else none
  | _ => none

/-- `[rsp + 0x2A0]` -/
def isBlen (o : Operand) : Bool :=
  match o with
  | .mem _ b none (.ofNat d) => b = rsp && d == 672
  | _ => false

/-- `[label + rip]` with `n` bytes inside the `.rodata` section `ro`: the offset of the label -/
def ripOff (ro : List UInt8) (o : Operand) (n : Nat) : Option Nat :=
  match o with
  | .rip _ off => if off + n ≤ ro.length then some off else none
  | _ => none

def roWord (ro : List UInt8) (o : Nat) : UInt32 := le32 (ro.getD o 0) (ro.getD (o + 1) 0) (ro.getD (o + 2) 0) (ro.getD (o + 3) 0)
def roTable (ro : List UInt8) (o : Nat) : V4 := #v[roWord ro o, roWord ro (o + 4), roWord ro (o + 8), roWord ro (o + 12)]

/-- `ro` = the content of the `.rodata` section -/
def frameAcc (ro : List UInt8) : MemAcc FMem where
  ld8 m _ a := m.mem a
  ld32 m o a :=
    match frameOff o 4 with
    | some d => dwordAt m.frame d
    | none =>
      match ripOff ro o 4 with
      | some off => roWord ro off
      | none => m.mem.word a
  ld64 m o a := if isBlen o then m.blen else load64 m.mem a
  ld128 m o a :=
    match frameOff o 16 with
    | some d => if d % 16 = 0 then slot m.frame (d / 16)
                else #v[dwordAt m.frame d, dwordAt m.frame (d + 4), dwordAt m.frame (d + 8), dwordAt m.frame (d + 12)]
    | none =>
      match ripOff ro o 16 with
      | some off => roTable ro off
      | none => load128 m.mem a
  st32 m o a v :=
    match frameOff o 4 with
    | some d => { m with frame := setSlot m.frame (d / 16) (setLane (slot m.frame (d / 16)) (d % 16 / 4) v) }
    | none => { m with mem := store32 m.mem a v }
  st64 m o a v := if isBlen o then { m with blen := v } else { m with mem := store64 m.mem a v }
  st128 m o a v :=
    match frameOff o 16 with
    | some d => if d % 16 = 0 then { m with frame := setSlot m.frame (d / 16) v } else { m with mem := store128 m.mem a v }
    | none => { m with mem := store128 m.mem a v }
  -- alignment by syntax: `rsp` is 64-byte aligned after the prologue (`and rsp, -64`), `.rodata` starts 64-byte aligned
  al16 o a :=
    match o with
    | .mem _ b none (.ofNat d) => if b = rsp then d % 16 == 0 else aligned16 a
    | .rip _ off => off % 16 == 0
    | _ => aligned16 a
  al32 o a :=
    match o with
    | .mem _ b none (.ofNat d) => if b = rsp then d % 32 == 0 else aligned32 a
    | .rip _ off => off % 32 == 0
    | _ => aligned32 a

/-- `n` steps of the frame machine on the translated routine's `.rodata` -/
def frun (ro : List UInt8) (rb : UInt64) (prog : List Instr) (n : Nat) (s : StateG FMem) : StateG FMem :=
  runG (frameAcc ro) rb prog n s

theorem frun_add (ro : List UInt8) (rb : UInt64) (p : List Instr) (a b : Nat) (s : StateG FMem) :
    frun ro rb p (a + b) s = frun ro rb p b (frun ro rb p a s) := by
  unfold frun
  induction a generalizing s with
  | zero => simp [runG]
  | succ k ih => rw [Nat.add_right_comm, runG, ih]; rfl

end B3.AsmSem.Avx2
