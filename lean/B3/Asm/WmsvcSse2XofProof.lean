/-
`blake3_compress_xof_sse2`, MSVC (MASM) flavour: the pieces of B3/Asm/WmsvcSse2XofBody.lean composed
along the control flow (8 + 25 + 6*78 + 56 + 19 = 576 instructions executed), and the result related
to `Spec.compress`, the frame, the stack pointer and the callee-saved registers.
-/
import B3.Asm.WmsvcSse2CompressProof
import B3.Asm.WmsvcSse2XofBody
namespace B3.AsmSem.Win.MsvcSse2Xof
open B3 B3.Simd B3.AsmSem B3.AsmSem.Win B3.Gen.AsmSse2Msvc B3.AsmSem.Sse2 B3.AsmSem.Win.MsvcSse2

theorem frame_stage (rb : UInt64) (s : State) (h : Win.MsvcSse2.Entry rb s) :
    run rb compress_xof 8 s
      = ⟨#v[s.xmm[0], s.xmm[1], s.xmm[2], s.xmm[3], s.xmm[4], s.xmm[5], s.xmm[6], s.xmm[7], s.xmm[8], s.xmm[9],
            s.xmm[10], s.xmm[11], s.xmm[12], s.xmm[13], s.xmm[14], s.xmm[15]],
         #v[s.gpr[rax], s.gpr[rcx], s.gpr[rdx], s.gpr[rbx], frameBase s, s.gpr[rbp], s.gpr[rsi], s.gpr[rdi],
            s.gpr[r8], s.gpr[r9], s.gpr[r10], s.gpr[r11], s.gpr[r12], s.gpr[r13], s.gpr[r14], s.gpr[r15]],
         frameBase s == 0, frameMem s, 8, .running, true⟩ := by
  have hs := state_eta s h.pc h.running h.ok
  conv => lhs; rw [hs]
  rw [frame_raw, frameStores_eq]
  have := frame_aligned_of_entry h
  unfold frameBase at this
  rw [this]
  rfl

theorem prologue_stage (rb : UInt64) (s : State) (h : Win.MsvcSse2.Entry rb s) :
    wview2 (run rb compress_xof 33 s)
      = Win.MsvcSse2.atPc 33 s.xmm[10] s.xmm[12] s.xmm[13] s.xmm[15]
          (Spec.initState (readWords s.mem s.gpr[rcx] 8) s.gpr[r9] s.gpr[r8].toUInt8.toUInt32 (flagsArg s).toUInt32)
          (readWords s.mem s.gpr[rdx] 16) (gprAfterPrologueWXof s) (frameMem s) := by
  have hro := frameMem_rodata h
  obtain ⟨e1, e2⟩ := lenFlagsW_words s.gpr[r8] (flagsArg s)
  rw [← e1, ← e2, ← frameMem_cv h, ← frameMem_block h]
  rw [show 33 = 8 + 25 from rfl, run_add, frame_stage rb s h, prologue_raw, Win.MsvcSse2.table_IV hro, Win.MsvcSse2.iv_aligned hro, frameMem_flags,
    frameMem_out, ← cvRaw_eq, ← blockRaw_eq]
  simp only [Win.MsvcSse2.atPc]
  congr 1

theorem body_stage (rb : UInt64) (s : State) (k10 k12 k13 k15 : V4) (S W : St) (g : Vector UInt64 16) (m : Memory)
    (h : wview2 s = Win.MsvcSse2.atPc 33 k10 k12 k13 k15 S W g m) :
    wview2 (run rb compress_xof 54 s) = Win.MsvcSse2.atPc 87 k10 k12 k13 k15 (Spec.round S W) W g m := by
  rw [of_wview2 h]
  have := body_raw rb S W s.xmm[8] s.xmm[9] k10 s.xmm[11] k12 k13 s.xmm[14] k15 g s.zf m
  rw [roundP_eq _ _ _ _ s16_eq s12_eq s8_eq s7_eq] at this
  exact this

theorem decjz_stage (rb : UInt64) (s : State) (k10 k12 k13 k15 : V4) (S W : St) (g : Vector UInt64 16) (m : Memory)
    (h : wview2 s = Win.MsvcSse2.atPc 87 k10 k12 k13 k15 S W g m) :
    wview2 (run rb compress_xof 2 s) = Win.MsvcSse2.atPc (if g[rax].toUInt8 - 1 == 0 then 111 else 89) k10 k12 k13 k15 S W (decAl g) m := by
  rw [of_wview2 h]
  show wview2 (step rb compress_xof (step rb compress_xof _)) = _
  rw [dec_raw, dec_b8_zf]
  cases hz : (g[rax].toUInt8 - 1 == 0)
  · rw [jz_not_taken]; rfl
  · rw [jz_taken]; rfl

theorem perm_stage (rb : UInt64) (s : State) (k10 k12 k13 k15 : V4) (S W : St) (g : Vector UInt64 16) (m : Memory)
    (hro : Win.MsvcSse2.Rodata rb m) (h : wview2 s = Win.MsvcSse2.atPc 89 k10 k12 k13 k15 S W g m) :
    wview2 (run rb compress_xof 22 s) = Win.MsvcSse2.atPc 33 k10 k12 k13 k15 S (Spec.permute W) g m := by
  rw [of_wview2 h]
  have := perm_raw rb (row S 0) (row S 1) (row S 2) (row S 3) (grp0 W) (grp1 W) (grp2 W) (grp3 W)
    s.xmm[8] s.xmm[9] k10 s.xmm[11] k12 k13 s.xmm[14] k15 g s.zf m
  rw [Win.MsvcSse2.table_33 hro, Win.MsvcSse2.table_CC hro, Win.MsvcSse2.table_3F hro, Win.MsvcSse2.table_C0 hro, Win.MsvcSse2.masks_aligned hro, Win.MsvcSse2.permMasked_eq] at this
  exact this

theorem iteration (rb : UInt64) (k10 k12 k13 k15 : V4) (s : State) (S W : St) (g : Vector UInt64 16) (m : Memory)
    (hro : Win.MsvcSse2.Rodata rb m) (h : wview2 s = Win.MsvcSse2.atPc 33 k10 k12 k13 k15 S W g m) (hal : (g[rax].toUInt8 - 1 == 0) = false) :
    wview2 (run rb compress_xof 78 s) = Win.MsvcSse2.atPc 33 k10 k12 k13 k15 (Spec.round S W) (Spec.permute W) (decAl g) m := by
  rw [show 78 = 54 + (2 + 22) from rfl, run_add, run_add]
  have h2 := decjz_stage rb _ _ _ _ _ _ _ _ _ (body_stage rb s k10 k12 k13 k15 S W g m h)
  rw [hal] at h2
  exact perm_stage rb _ _ _ _ _ _ _ _ _ hro h2

theorem last_iteration (rb : UInt64) (k10 k12 k13 k15 : V4) (s : State) (S W : St) (g : Vector UInt64 16) (m : Memory)
    (h : wview2 s = Win.MsvcSse2.atPc 33 k10 k12 k13 k15 S W g m) (hal : (g[rax].toUInt8 - 1 == 0) = true) :
    wview2 (run rb compress_xof 56 s) = Win.MsvcSse2.atPc 111 k10 k12 k13 k15 (Spec.round S W) W (decAl g) m := by
  rw [show 56 = 54 + 2 from rfl, run_add]
  have h2 := decjz_stage rb _ _ _ _ _ _ _ _ _ (body_stage rb s k10 k12 k13 k15 S W g m h)
  rw [hal] at h2
  exact h2

/-- instructions 111..129, the whole state -/
theorem epilogue_stage (rb : UInt64) (s : State) (k10 k12 k13 k15 : V4) (S W : St) (g : Vector UInt64 16) (m : Memory)
    (h : wview2 s = Win.MsvcSse2.atPc 111 k10 k12 k13 k15 S W g m) :
    run rb compress_xof 19 s
      = ⟨#v[_mm_xor_si128 (row S 0) (row S 2), _mm_xor_si128 (row S 1) (row S 3),
            _mm_xor_si128 (row S 2) (load128 m (g[rcx] + UInt64.ofNat 0)), _mm_xor_si128 (row S 3) (load128 m (g[rcx] + UInt64.ofNat 16)),
            load128 m (g[rcx] + UInt64.ofNat 0), load128 m (g[rcx] + UInt64.ofNat 16),
            load128 (outMem m g (row S 0) (row S 1) (row S 2) (row S 3)) (g[rsp] + UInt64.ofNat 0),
            load128 (outMem m g (row S 0) (row S 1) (row S 2) (row S 3)) (g[rsp] + UInt64.ofNat 16),
            load128 (outMem m g (row S 0) (row S 1) (row S 2) (row S 3)) (g[rsp] + UInt64.ofNat 32),
            load128 (outMem m g (row S 0) (row S 1) (row S 2) (row S 3)) (g[rsp] + UInt64.ofNat 48),
            k10,
            load128 (outMem m g (row S 0) (row S 1) (row S 2) (row S 3)) (g[rsp] + UInt64.ofNat 64),
            k12, k13,
            load128 (outMem m g (row S 0) (row S 1) (row S 2) (row S 3)) (g[rsp] + UInt64.ofNat 80),
            load128 (outMem m g (row S 0) (row S 1) (row S 2) (row S 3)) (g[rsp] + UInt64.ofNat 96)],
         gprEpilogue g, g[rsp] + UInt64.ofNat 120 == 0, outMem m g (row S 0) (row S 1) (row S 2) (row S 3),
         129, .returned, frameAligned g[rsp]⟩ := by
  rw [of_wview2 h]
  exact epilogue_raw rb _ _ _ _ _ _ _ _ s.xmm[8] s.xmm[9] k10 s.xmm[11] k12 k13 s.xmm[14] k15 g s.zf m

/-! ### the whole routine -/

/-- from any entry state (576 instructions are executed) -/
theorem run_compress_xof (rb : UInt64) (s : State) (h : Win.MsvcSse2.EntryXof rb s) :
    (run rb compress_xof 576 s).status = .returned ∧
    (run rb compress_xof 576 s).ok = true ∧
    (run rb compress_xof 576 s).mem
      = writeBytes (frameMem s) (outArg s) (bytesOfWords (Spec.compress (readWords s.mem s.gpr[rcx] 8)
          (readWords s.mem s.gpr[rdx] 16) s.gpr[r9] s.gpr[r8].toUInt8.toUInt32 (flagsArg s).toUInt32)) ∧
    (run rb compress_xof 576 s).gpr = gprFinal (gprAfterPrologueWXof s) ∧
    ∀ i : Fin 16, 6 ≤ i.val → (run rb compress_xof 576 s).xmm[i] = s.xmm[i] := by
  have he : Win.MsvcSse2.Entry rb s := h.toEntryW
  have hro := frameMem_rodata he
  have h0 := prologue_stage rb s he
  have a0 : (gprAfterPrologueWXof s)[rax].toUInt8 = 7 := by
    show (merge .b8 _ 7).toUInt8 = 7
    rw [merge_b8_low]; rfl
  have h7 := loop7 wview2 rb compress_xof 78 56
    (fun S W g _ => Win.MsvcSse2.atPc 33 s.xmm[10] s.xmm[12] s.xmm[13] s.xmm[15] S W g (frameMem s))
    (fun S W g _ => Win.MsvcSse2.atPc 111 s.xmm[10] s.xmm[12] s.xmm[13] s.xmm[15] S W g (frameMem s))
    (fun s' S W g _ h hal => iteration rb s.xmm[10] s.xmm[12] s.xmm[13] s.xmm[15] s' S W g (frameMem s) hro h hal)
    (fun s' S W g _ h hal => last_iteration rb s.xmm[10] s.xmm[12] s.xmm[13] s.xmm[15] s' S W g (frameMem s) h hal)
    _ _ _ _ (frameMem s) h0 a0
  have e := epilogue_stage rb _ _ _ _ _ _ _ _ _ h7
  rw [show 576 = 33 + ((78 + (78 + (78 + (78 + (78 + (78 + 56)))))) + 19) by omega, run_add, run_add, e]
  have hrcx : (dec7 (gprAfterPrologueWXof s))[rcx] = s.gpr[rcx] := by rw [dec7_ne _ rcx (by decide)]; rfl
  have hr10 : (dec7 (gprAfterPrologueWXof s))[r10] = outArg s := by rw [dec7_ne _ r10 (by decide)]; rfl
  have hrsp : (dec7 (gprAfterPrologueWXof s))[rsp] = frameBase s := by rw [dec7_ne _ rsp (by decide)]; rfl
  unfold outMem out4
  rw [hrcx, hr10, hrsp, store4_eq, load_cv_lo, load_cv_hi, xof_bytes, cvRaw_eq, frameMem_cv he]
  have fr := fun (w : St) => frame_reload s (outArg s) (bytesOfWords w) (by rw [bytesOfWords16_length]; exact h.frame_out)
  rw [(fr _).1, (fr _).2.1, (fr _).2.2.1, (fr _).2.2.2.1, (fr _).2.2.2.2.1, (fr _).2.2.2.2.2.1, (fr _).2.2.2.2.2.2]
  refine ⟨rfl, frame_aligned_of_entry he, rfl, rfl, ?_⟩
  intro i hi
  exact xmm_saved s _ _ _ _ _ _ i hi

/-! ### main theorems -/

/-- `blake3_compress_xof_sse2`, MSVC (MASM) flavour (576 instructions): the statement of
`B3.AsmSem.Win.Sse41Xof.compress_xof_correct` for the SSE2 file -/
theorem compress_xof_correct (rb : UInt64) (s : State) (h : Win.MsvcSse2.EntryXof rb s) :
    (run rb compress_xof 576 s).status = .returned ∧
    (run rb compress_xof 576 s).ok = true ∧
    (run rb compress_xof 576 s).mem
      = writeBytes (frameMem s) (outArg s) (bytesOfWords (Spec.compress (readWords s.mem s.gpr[rcx] 8)
          (readWords s.mem s.gpr[rdx] 16) s.gpr[r9] s.gpr[r8].toUInt8.toUInt32 (flagsArg s).toUInt32)) ∧
    (run rb compress_xof 576 s).gpr[rsp] = s.gpr[rsp] + 8 ∧
    (∀ r : Reg, r ≠ rax → r ≠ r8 → r ≠ r10 → r ≠ rsp → (run rb compress_xof 576 s).gpr[r] = s.gpr[r]) ∧
    ∀ i : Fin 16, 6 ≤ i.val → (run rb compress_xof 576 s).xmm[i] = s.xmm[i] := by
  obtain ⟨h1, h2, h3, h4, h5⟩ := run_compress_xof rb s h
  refine ⟨h1, h2, h3, ?_, ?_, h5⟩
  · rw [h4]; exact final_rspWXof s
  · intro r a b c d; rw [h4]; exact final_frameWXof s r a b c d

/-- the memory clause read back (as `B3.AsmSem.Win.Sse41Xof.compress_xof_correct_words`) -/
theorem compress_xof_correct_words (rb : UInt64) (s : State) (h : Win.MsvcSse2.EntryXof rb s) :
    readWords (run rb compress_xof 576 s).mem (outArg s) 16
      = Spec.compress (readWords s.mem s.gpr[rcx] 8) (readWords s.mem s.gpr[rdx] 16) s.gpr[r9]
          s.gpr[r8].toUInt8.toUInt32 (flagsArg s).toUInt32 ∧
    (∀ q : UInt64, 64 ≤ (q - outArg s).toNat → 112 ≤ (q - frameBase s).toNat →
      (run rb compress_xof 576 s).mem q = s.mem q) ∧
    ∀ k : Nat, k < 112 → (run rb compress_xof 576 s).mem (frameBase s + UInt64.ofNat k) = (savedBytes s).getD k 0 := by
  obtain ⟨_, _, h3, _⟩ := compress_xof_correct rb s h
  rw [h3]
  refine ⟨readWords_writeBytes16 _ _ _, ?_, ?_⟩
  · intro q hq hf
    rw [writeBytes_frame _ _ _ _ (by rw [bytesOfWords16_length]; exact hq)]
    exact writeBytes_frame _ _ _ _ (by rw [savedBytes_length]; exact hf)
  · intro k hk
    have := writeBytes_apart (frameMem s) (outArg s) (bytesOfWords (Spec.compress (readWords s.mem s.gpr[rcx] 8)
      (readWords s.mem s.gpr[rdx] 16) s.gpr[r9] s.gpr[r8].toUInt8.toUInt32 (flagsArg s).toUInt32)) (frameBase s) 112
      (by rw [bytesOfWords16_length]; exact h.frame_out.symm) k hk
    rw [this]
    exact frameMem_holds s k (by rw [savedBytes_length]; exact hk)

/-- more fuel changes nothing: the routine has returned -/
theorem compress_xof_fuel (rb : UInt64) (s : State) (h : Win.MsvcSse2.EntryXof rb s) (n : Nat) :
    run rb compress_xof (576 + n) s = run rb compress_xof 576 s := by
  rw [run_add]
  exact run_returned _ _ _ _ (compress_xof_correct rb s h).1

end B3.AsmSem.Win.MsvcSse2Xof
