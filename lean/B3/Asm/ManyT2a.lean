/- the 2-input tail of `blake3_hash_many_sse41` (instructions 1423..1637 of the generated list), evaluated in the kernel on the
frame machine, piece by piece.  Two compressions run interleaved: state A in XMM0-3 with its grouped message in XMM4-7, state B
in XMM8-11 with its message in XMM12-15; the round body spills the first two message vectors of each to slots 2..5 of the frame
(`[rsp+0x20] .. [rsp+0x50]`) and uses XMM12/13 for the rotation tables and XMM4 as scratch.
  1423..1439  key rows (twice), the two counter rows to slots 0 / 1, the two input pointers, `eax`, `edx := 0`
  1440..1477  flags word, `rdx += 64`, IV rows, both blocks loaded and grouped, counter rows with the flags, `mov al, 7`
  1478..1575  one round on both states        1576 `dec al`      1577 `je 9f`
  1578..1614  both message permutations, `jmp 9b`        1615..1620 feed-forward, `mov eax, r13d`, `cmp rdx, r15`    1621 `jne 2b`
  1622..1637  four stores at `[rbx]`, the counter vectors shifted down two lanes when incrementing (`blendvps`), `rdi += 16`,
              `rbx += 64`, `rsi -= 2` -/
import B3.Asm.ManyT1
namespace B3.AsmSem.Many
open B3 B3.Simd B3.AsmSem B3.Gen.AsmSse41Many

/-! ### 1423..1439 -/

def t2SetupLog (gcx gdi gbp : UInt64) : List Ref :=
  [(false, gcx + dispU 0, 16), (false, gcx + dispU 16, 16), (false, gdi + dispU 0, 8), (false, gdi + dispU 8, 8),
   (false, gbp + dispU 64, 1)]

theorem t2_setup_raw (rb : UInt64) (x0 x1 x2 x3 x4 x5 x6 x7 x8 x9 x10 x11 x12 x13 x14 x15 : V4) (g0 g1 g2 g3 g4 g5 g6 g7 g8 g9 g10 g11 g12 g13 g14 g15 : UInt64) (z c : Bool) (f0 f1 f2 f3 f4 f5 f6 f7 f8 f9 f10 f11 f12 f13 f14 f15 f16 f17 f18 f19 f20 f21 : V4) (m : Memory) :
    frun rodata rb hash_many 17 ⟨mkS #v[x0, x1, x2, x3, x4, x5, x6, x7, x8, x9, x10, x11, x12, x13, x14, x15] #v[g0, g1, g2, g3, g4, g5, g6, g7, g8, g9, g10, g11, g12, g13, g14, g15] z c #v[f0, f1, f2, f3, f4, f5, f6, f7, f8, f9, f10, f11, f12, f13, f14, f15, f16, f17, f18, f19, f20, f21] m 1423, [], true⟩
      = ⟨mkS #v[load128 m (g1 + dispU 0), load128 m (g1 + dispU 16), x2, x3, x4, x5, x6, x7, load128 m (g1 + dispU 0), load128 m (g1 + dispU 16), x10, x11, x12, #v[f17[0], f18[0], 64, 0], #v[f17[1], f18[1], 64, 0], x15]
          #v[headRax m g5 g13, g1, trunc .d32 (trunc .d32 g2 ^^^ trunc .d32 g2), g3, g4, g5, g6, g7, load64 m (g7 + dispU 0), load64 m (g7 + dispU 8), g10, g11, g12, g13, g14, g15]
          (trunc .d32 g2 ^^^ trunc .d32 g2 == 0) false #v[#v[f17[0], f18[0], 64, 0], #v[f17[1], f18[1], 64, 0], f2, f3, f4, f5, f6, f7, f8, f9, f10, f11, f12, f13, f14, f15, f16, f17, f18, f19, f20, f21] m 1440,
         t2SetupLog g1 g7 g5, true⟩ := by
  kernel_rfl

/-! ### 1440..1477 -/

def t2HeadLog (p q : UInt64) : List Ref := t1HeadLog p ++ t1HeadLog q

theorem t2_head_raw (rb : UInt64) (a0 a1 x2 x3 x4 x5 x6 x7 b0 b1 x10 x11 x12 x13 x14 x15 : V4) (l0 h0 bl0 j0 l1 h1 bl1 j1 : UInt32)
    (g0 g1 g2 g3 g4 g5 g6 g7 g8 g9 g10 g11 g12 g13 g14 g15 : UInt64) (z c : Bool) (f2 f3 f4 f5 f6 f7 f8 f9 f10 f11 f12 f13 f14 f15 f16 f17 f18 f19 f20 f21 : V4) (m : Memory) :
    frun rodata rb hash_many 38 ⟨mkS #v[a0, a1, x2, x3, x4, x5, x6, x7, b0, b1, x10, x11, x12, x13, x14, x15] #v[g0, g1, g2, g3, g4, g5, g6, g7, g8, g9, g10, g11, g12, g13, g14, g15] z c
        #v[#v[l0, h0, bl0, j0], #v[l1, h1, bl1, j1], f2, f3, f4, f5, f6, f7, f8, f9, f10, f11, f12, f13, f14, f15, f16, f17, f18, f19, f20, f21] m 1440, [], true⟩
      = ⟨mkS #v[a0, a1, BLAKE3_IV, #v[l0, h0, bl0, (p0Rax g0 g12 (lastBlock g2 g15)).toUInt32],
            t1Grp0 m (g8 + (g2 + UInt64.ofNat 64)), t1Grp1 m (g8 + (g2 + UInt64.ofNat 64)), t1Grp2 m (g8 + (g2 + UInt64.ofNat 64)),
            t1Grp3 m (g8 + (g2 + UInt64.ofNat 64)),
            b0, b1, BLAKE3_IV, #v[l1, h1, bl1, (p0Rax g0 g12 (lastBlock g2 g15)).toUInt32],
            t1Grp0 m (g9 + (g2 + UInt64.ofNat 64)), t1Grp1 m (g9 + (g2 + UInt64.ofNat 64)), t1Grp2 m (g9 + (g2 + UInt64.ofNat 64)),
            t1Grp3 m (g9 + (g2 + UInt64.ofNat 64))]
          #v[merge .b8 (p0Rax g0 g12 (lastBlock g2 g15)) (UInt64.ofNat 7), g1, g2 + UInt64.ofNat 64, g3, g4, g5, g6, g7, g8, g9, g10, g11, g12, g13, trunc .d32 (trunc .d32 g0), g15]
          (lastBlock g2 g15) (decide (g2 + UInt64.ofNat 64 < g15))
          #v[#v[l0, h0, bl0, j0], #v[l1, h1, bl1, j1], f2, f3, f4, f5, f6, f7, f8, f9, f10, f11, f12, f13, f14, f15, f16, f17, f18, f19, f20, f21] m 1478,
         t2HeadLog (g8 + (g2 + UInt64.ofNat 64)) (g9 + (g2 + UInt64.ofNat 64)), true⟩ := by
  kernel_rfl

end B3.AsmSem.Many
