/-!
# Calling-convention discipline of the hand-written assembly routines (property C07, last sentence)

A small machine model that keeps exactly what the ABI clause talks about, an executable checker `abiOk`
(abstract interpretation over the control-flow graph) and its soundness theorem `abiOk_sound`:

  `abiOk conv R = true` implies that EVERY finite execution of `R` from its entry to a `ret` ends with
  `rsp = entry rsp + 8` (the return address popped), `DF = entry DF`, and every callee-saved register of `conv`
  equal to its entry value; along the way DF never changes and control never leaves the routine.

The routines themselves (`B3/Gen/AsmAbi.lean`) are DATA generated from the `.S` / `.asm` sources by
`gen/ext_asm_abi.py`: one `Routine` per global entry point per file, a list of basic blocks whose instructions are
abstracted to the constructors of `Instr`.

## The machine

* registers: the sixteen 64-bit general registers `Reg.g n` (x86 encoding order: 0 rax, 1 rcx, 2 rdx, 3 rbx, 4 rsp,
  5 rbp, 6 rsi, 7 rdi, 8-15 r8-r15) and the low 128 bits of the vector registers `Reg.x n` (what Win64 preserves
  of xmm6-xmm15).  Register contents are opaque values (`Int`); `rsp`/`rbp`-relative address arithmetic is exact
  (no wrap-around: the stack does not straddle the end of the address space).
* `DF`: a `Bool`.
* memory: `Int → MByte`, byte addressed.  A byte is either junk or the `i`-th of `w` bytes of a stored register
  value (`MByte.frag v w i`) — the CompCert "memory fragment" idea: a full-width load gets the stored value back
  exactly when all its bytes are the fragments, in order, of one full-width store; otherwise the loaded value is
  arbitrary.
* every instruction that is not one of the explicit stack/frame operations is `havoc rs`: the registers in `rs`
  (all destination operands, explicit and implicit) get arbitrary values, and ALL memory outside the routine's own
  live frame `[rsp, entry rsp)` may change arbitrarily.  **Assumption (stated, not proved):** stores through
  pointers other than `rsp`/`rbp` (`[rdi]`, `[rbx+..]`, ...) never hit the routine's own live frame, i.e. the frame
  is disjoint from the buffers the caller passed.  Stores whose address is `rsp`/`rbp`-relative are NOT covered by
  this assumption: they are `Instr.store` and are tracked exactly.
-/

namespace B3.Asm

/-! ## Syntax of abstracted routines -/

inductive Reg where
  /-- 64-bit general register number `n` in x86 encoding order -/
  | g (n : Nat)
  /-- low 128 bits of vector register `n` (xmm/ymm/zmm `n`) -/
  | x (n : Nat)
  deriving DecidableEq, Repr

abbrev rsp : Reg := .g 4
abbrev rbp : Reg := .g 5

/-- bytes moved by a full-width store/load of the register -/
def Reg.width : Reg → Nat
  | .g _ => 8
  | .x _ => 16

inductive Instr where
  /-- `push r` (64-bit general register) -/
  | push (r : Reg)
  /-- `pop r` -/
  | pop (r : Reg)
  /-- `dst := base + k` on 64-bit general registers: `mov rbp, rsp`, `mov rsp, rbp`, `sub rsp, k`, `add rsp, k`,
      `lea r, [rsp+k]` -/
  | lea (dst base : Reg) (k : Int)
  /-- `and rsp, -align` -/
  | andRsp (align : Nat)
  /-- store of `w` bytes to `[base + off]`, `base ∈ {rsp, rbp}`; `src = some r` when it is a full-width store of
      register `r` (`mov qword ptr [..], r64`, `movdqa/movaps/vmovdqa/... xmmword ptr [..], xmmN`), `none` for
      any other data -/
  | store (base : Reg) (off : Int) (w : Nat) (src : Option Reg)
  /-- full-width load `dst := [base + off]`, `base ∈ {rsp, rbp}` -/
  | load (dst base : Reg) (off : Int)
  | std
  | cld
  /-- any other instruction: `rs` = every register it may write -/
  | havoc (rs : List Reg)
  deriving DecidableEq, Repr

/-- how a basic block ends; block numbers index `Routine.blocks` -/
inductive Term where
  | ret
  /-- `jmp` -/
  | jmp (t : Nat)
  /-- conditional jump: taken target, fall-through block -/
  | jcc (t f : Nat)
  /-- falls through into the block of the next label -/
  | fall (f : Nat)
  deriving DecidableEq, Repr

def Term.succs : Term → List Nat
  | .ret => []
  | .jmp t => [t]
  | .jcc t f => [t, f]
  | .fall f => [f]

structure Block where
  body : List Instr
  term : Term
  deriving Repr

/-- entry = block 0 -/
structure Routine where
  blocks : List Block
  deriving Repr

/-! ## Concrete semantics -/

inductive MByte where
  /-- byte `i` of the `w` bytes of the stored value `v` -/
  | frag (v : Int) (w i : Nat)
  | junk (n : Nat)

structure St where
  reg : Reg → Int
  df : Bool
  mem : Int → MByte

def St.set (s : St) (r : Reg) (v : Int) : St :=
  { s with reg := fun q => if q = r then v else s.reg q }

/-- the `w` bytes at `a` are exactly a full-width store of `v` -/
def holds (m : Int → MByte) (a : Int) (w : Nat) (v : Int) : Prop :=
  ∀ i : Nat, i < w → m (a + i) = .frag v w i

/-- `m'` differs from `m` at most inside `[a, a+w)` -/
def wrote (m m' : Int → MByte) (a : Int) (w : Nat) : Prop :=
  ∀ x : Int, (x < a ∨ a + w ≤ x) → m' x = m x

/-- one abstracted instruction; `E` = value of `rsp` at routine entry (upper end of the routine's own frame) -/
inductive IStep (E : Int) : Instr → St → St → Prop
  | lea (s : St) (dst base : Reg) (k : Int) :
      IStep E (.lea dst base k) s (s.set dst (s.reg base + k))
  | andRsp (s : St) (n : Nat) (v : Int) : v ≤ s.reg rsp → s.reg rsp < v + n →
      IStep E (.andRsp n) s (s.set rsp v)
  | store (s : St) (base : Reg) (off : Int) (w : Nat) (src : Option Reg) (m' : Int → MByte) :
      wrote s.mem m' (s.reg base + off) w →
      (∀ r, src = some r → holds m' (s.reg base + off) w (s.reg r)) →
      IStep E (.store base off w src) s { s with mem := m' }
  | load (s : St) (dst base : Reg) (off : Int) (v : Int) :
      (∀ v0, holds s.mem (s.reg base + off) dst.width v0 → v = v0) →
      IStep E (.load dst base off) s (s.set dst v)
  | std (s : St) : IStep E .std s { s with df := true }
  | cld (s : St) : IStep E .cld s { s with df := false }
  | havoc (s s' : St) (rs : List Reg) :
      (∀ r, r ∉ rs → s'.reg r = s.reg r) → s'.df = s.df →
      (∀ x : Int, s.reg rsp ≤ x → x < E → s'.mem x = s.mem x) →
      IStep E (.havoc rs) s s'
  /-- `push r` = `sub rsp, 8; mov [rsp], r`  (for `r = rsp` the hardware pushes the old value; the checker rejects
      `push rsp`, so this does not matter) -/
  | push (s s1 s2 : St) (r : Reg) :
      IStep E (.lea rsp rsp (-8)) s s1 → IStep E (.store rsp 0 8 (some r)) s1 s2 → IStep E (.push r) s s2
  /-- `pop r` = `mov r, [rsp]; add rsp, 8`  (`pop rsp` rejected by the checker) -/
  | pop (s s1 s2 : St) (r : Reg) :
      IStep E (.load r rsp 0) s s1 → IStep E (.lea rsp rsp 8) s1 s2 → IStep E (.pop r) s s2

/-- configuration: executing block `b`, `rest` of its body still to run; or returned -/
inductive Cfg where
  | run (b : Nat) (rest : List Instr) (s : St)
  | done (s : St)

inductive Step (R : Routine) (E : Int) : Cfg → Cfg → Prop
  | instr {b : Nat} {i : Instr} {rest : List Instr} {s s' : St} :
      IStep E i s s' → Step R E (.run b (i :: rest) s) (.run b rest s')
  | ret {b : Nat} {blk : Block} {s : St} :
      R.blocks[b]? = some blk → blk.term = .ret →
      Step R E (.run b [] s) (.done (s.set rsp (s.reg rsp + 8)))
  | goto {b t : Nat} {blk blk' : Block} {s : St} :
      R.blocks[b]? = some blk → t ∈ blk.term.succs → R.blocks[t]? = some blk' →
      Step R E (.run b [] s) (.run t blk'.body s)

inductive Exec (R : Routine) (E : Int) : Cfg → Cfg → Prop
  | refl (c : Cfg) : Exec R E c c
  | tail {c c' c'' : Cfg} : Exec R E c c' → Step R E c' c'' → Exec R E c c''

def Routine.start (R : Routine) (s0 : St) : Cfg :=
  match R.blocks[0]? with
  | some blk => .run 0 blk.body s0
  | none => .run 0 [] s0

/-! ## Calling conventions -/

inductive Conv where
  | sysv
  | win64
  deriving DecidableEq, Repr

/-- callee-saved registers (rsp is treated separately) -/
def Conv.saved : Conv → List Reg
  | .sysv => [.g 3, .g 5, .g 12, .g 13, .g 14, .g 15]
  | .win64 => [.g 3, .g 5, .g 6, .g 7, .g 12, .g 13, .g 14, .g 15,
               .x 6, .x 7, .x 8, .x 9, .x 10, .x 11, .x 12, .x 13, .x 14, .x 15]

/-! ## Abstract domain

All tests are `Bool`-valued functions built from `Nat.beq` / `Int` comparisons so that the kernel can evaluate the
checker on the generated routines quickly; transfer functions return the SAME abstract state when an instruction
changes nothing that is tracked (the common case inside the compression loops). -/

def Reg.beq : Reg → Reg → Bool
  | .g a, .g b => Nat.beq a b
  | .x a, .x b => Nat.beq a b
  | _, _ => false

def memR : List Reg → Reg → Bool
  | [], _ => false
  | r :: t, q => r.beq q || memR t q

/-- what is known about a 64/128-bit value: the entry value of a register, entry-rsp + d, aligned-base + d, nothing -/
inductive AVal where
  | orig (r : Reg)
  | ptrE (d : Int)
  | ptrA (d : Int)
  | top
  deriving Repr

def AVal.beq : AVal → AVal → Bool
  | .orig a, .orig b => a.beq b
  | .ptrE a, .ptrE b => decide (a = b)
  | .ptrA a, .ptrA b => decide (a = b)
  | .top, .top => true
  | _, _ => false

def AVal.shift : AVal → Int → AVal
  | .ptrE d, k => .ptrE (d + k)
  | .ptrA d, k => .ptrA (d + k)
  | .orig r, k => if k = 0 then .orig r else .top
  | .top, _ => .top

def AVal.isPtr : AVal → Bool
  | .ptrE _ => true
  | .ptrA _ => true
  | _ => false

def AVal.isE : AVal → Bool
  | .ptrE _ => true
  | _ => false

def AVal.isTop : AVal → Bool
  | .top => true
  | _ => false

def AVal.scrub : AVal → AVal
  | .ptrA _ => .top
  | v => v

/-- the `w` bytes at `addr` hold the entry value of `r` -/
structure Slot where
  addr : AVal
  w : Nat
  r : Reg
  deriving Repr

def Slot.beq (a b : Slot) : Bool := a.addr.beq b.addr && Nat.beq a.w b.w && a.r.beq b.r

def optBeq : Option Int → Option Int → Bool
  | none, none => true
  | some a, some b => decide (a = b)
  | _, _ => false

/-- `aTop = some t`: an aligned base `A` exists and `A ≤ entry rsp + t` -/
structure AState where
  regs : List (Reg × AVal)
  slots : List Slot
  aTop : Option Int
  deriving Repr

def getR : List (Reg × AVal) → Reg → AVal
  | [], _ => .top
  | (q, v) :: t, r => if q.beq r then v else getR t r

def putR : List (Reg × AVal) → Reg → AVal → List (Reg × AVal)
  | [], _, _ => []
  | (q, v) :: t, r, nv => (if q.beq r then (q, nv) else (q, v)) :: putR t r nv

def havocR : List (Reg × AVal) → List Reg → List (Reg × AVal)
  | [], _ => []
  | (q, v) :: t, rs => (if memR rs q then (q, AVal.top) else (q, v)) :: havocR t rs

def scrubR : List (Reg × AVal) → List (Reg × AVal)
  | [] => []
  | (q, v) :: t => (q, v.scrub) :: scrubR t

/-- every register of `rs` is already unknown -/
def allTop (l : List (Reg × AVal)) : List Reg → Bool
  | [] => true
  | r :: t => (getR l r).isTop && allTop l t

/-- provable `p ≤ q` between abstract addresses -/
def ptrLe (t : Option Int) : AVal → AVal → Bool
  | .ptrE d1, .ptrE d2 => decide (d1 ≤ d2)
  | .ptrA d1, .ptrA d2 => decide (d1 ≤ d2)
  | .ptrA o, .ptrE e => match t with
      | some t => decide (t + o ≤ e)
      | none => false
  | _, _ => false

def filterS (p : Slot → Bool) : List Slot → List Slot
  | [] => []
  | sl :: t => if p sl then sl :: filterS p t else filterS p t

def allS (p : Slot → Bool) : List Slot → Bool
  | [] => true
  | sl :: t => p sl && allS p t

/-- keep the slots that satisfy `p` (the same list when all do) -/
def keepS (p : Slot → Bool) (l : List Slot) : List Slot :=
  if allS p l then l else filterS p l

def setRsp (a : AState) (v : AVal) : AState :=
  { a with regs := putR a.regs rsp v, slots := keepS (fun sl => ptrLe a.aTop v sl.addr) a.slots }

def findSlot : List Slot → AVal → Nat → AVal
  | [], _, _ => .top
  | sl :: t, p, w => if sl.addr.beq p && Nat.beq sl.w w then .orig sl.r else findSlot t p w

/-- transfer function of the instructions that are not compositions -/
def xferCore (a : AState) : Instr → Option AState
  | .lea dst base k =>
      let v := (getR a.regs base).shift k
      if dst.beq rsp then (if v.isPtr then some (setRsp a v) else none)
      else some { a with regs := putR a.regs dst v }
  | .andRsp _ =>
      match getR a.regs rsp, a.aTop with
      | .ptrE d, none =>
          some { regs := putR (scrubR a.regs) rsp (.ptrA 0), aTop := some d,
                 slots := filterS (fun sl => sl.addr.isE && ptrLe (some d) (.ptrA 0) sl.addr) a.slots }
      | _, _ => none
  | .store base off w src =>
      let p := (getR a.regs base).shift off
      if p.isPtr then
        let kept := keepS
          (fun sl => ptrLe a.aTop (sl.addr.shift sl.w) p || ptrLe a.aTop (p.shift w) sl.addr) a.slots
        match src with
        | some r =>
            match getR a.regs r with
            | .orig q =>
                if ptrLe a.aTop (getR a.regs rsp) p && ptrLe a.aTop (p.shift w) (.ptrE 0)
                then some { a with slots := ⟨p, w, q⟩ :: kept }
                else some { a with slots := kept }
            | _ => some { a with slots := kept }
        | none => some { a with slots := kept }
      else none
  | .load dst base off =>
      if dst.beq rsp then none
      else
        let p := (getR a.regs base).shift off
        let v := if p.isPtr then findSlot a.slots p dst.width else .top
        some { a with regs := putR a.regs dst v }
  | .havoc rs =>
      if memR rs rsp then none
      else if allTop a.regs rs then some a
      else some { a with regs := havocR a.regs rs }
  | _ => none

def xfer (a : AState) : Instr → Option AState
  | .push r =>
      if r.beq rsp then none
      else match xferCore a (.lea rsp rsp (-8)) with
        | some a1 => xferCore a1 (.store rsp 0 8 (some r))
        | none => none
  | .pop r =>
      match xferCore a (.load r rsp 0) with
      | some a1 => xferCore a1 (.lea rsp rsp 8)
      | none => none
  | i => xferCore a i

def foldX (a : AState) : List Instr → Option AState
  | [] => some a
  | i :: is => match xfer a i with
      | some a' => foldX a' is
      | none => none

def leRegs (a : List (Reg × AVal)) : List (Reg × AVal) → Bool
  | [] => true
  | (q, v) :: t => (v.isTop || (getR a q).beq v) && leRegs a t

def memS (l : List Slot) (sl : Slot) : Bool :=
  match l with
  | [] => false
  | s :: t => s.beq sl || memS t sl

/-- `a` is at least as precise as `b` -/
def leA (a b : AState) : Bool :=
  leRegs a.regs b.regs && allS (memS a.slots) b.slots && optBeq a.aTop b.aTop

def initRegs : List Reg → List (Reg × AVal)
  | [] => []
  | r :: t => (r, .orig r) :: initRegs t

def initA (conv : Conv) : AState :=
  { regs := (rsp, .ptrE 0) :: initRegs conv.saved, slots := [], aTop := none }

def savedOk (l : List (Reg × AVal)) : List Reg → Bool
  | [] => true
  | q :: t => (getR l q).beq (.orig q) && savedOk l t

def retOk (conv : Conv) (a : AState) : Bool :=
  (getR a.regs rsp).beq (.ptrE 0) && savedOk a.regs conv.saved

abbrev InvMap := List (Option AState)

def getInv : InvMap → Nat → Option AState
  | [], _ => none
  | o :: _, 0 => o
  | _ :: t, k + 1 => getInv t k

def targetOk (inv : InvMap) (n : Nat) (a : AState) (t : Nat) : Bool :=
  Nat.blt t n &&
  match getInv inv t with
  | some b => leA a b
  | none => false

def allT (p : Nat → Bool) : List Nat → Bool
  | [] => true
  | t :: ts => p t && allT p ts

def termOk (conv : Conv) (inv : InvMap) (n : Nat) (a : AState) : Term → Bool
  | .ret => retOk conv a
  | tm => allT (targetOk inv n a) tm.succs

def restOk (conv : Conv) (inv : InvMap) (n : Nat) (a : AState) (rest : List Instr) (tm : Term) : Bool :=
  match foldX a rest with
  | some a' => termOk conv inv n a' tm
  | none => false

def verifyAux (conv : Conv) (inv : InvMap) (n : Nat) : List Block → Nat → Bool
  | [], _ => true
  | blk :: bs, b =>
      (match getInv inv b with
       | some a => restOk conv inv n a blk.body blk.term
       | none => true) && verifyAux conv inv n bs (b + 1)

/-- `inv` (one optional abstract state per block entry; `none` = unreachable) is an inductive invariant -/
def verify (conv : Conv) (R : Routine) (inv : InvMap) : Bool :=
  (match R.blocks with
   | [] => false
   | _ :: _ => true) &&
  (match getInv inv 0 with
   | some a0 => leA (initA conv) a0
   | none => false) &&
  verifyAux conv inv R.blocks.length R.blocks 0

/-! ### inference of the invariant (not trusted: `verify` re-checks its result) -/

def joinV (v w : AVal) : AVal := if v.beq w then v else .top

def joinRegs : List (Reg × AVal) → List (Reg × AVal) → List (Reg × AVal)
  | [], _ => []
  | (q, v) :: t, l => (q, joinV v (getR l q)) :: joinRegs t l

def joinA (a b : AState) : AState :=
  { regs := joinRegs a.regs b.regs, slots := filterS (memS b.slots) a.slots, aTop := a.aTop }

/-- join `a` into entry `t`; the flag says whether the entry changed -/
def updInv : InvMap → Nat → AState → InvMap × Bool
  | [], _, _ => ([], false)
  | o :: rest, 0, a => (match o with
      | none => (some a :: rest, true)
      | some b => if leA a b then (o :: rest, false) else (some (joinA b a) :: rest, true))
  | o :: rest, t + 1, a => let r := updInv rest t a; (o :: r.1, r.2)

def updAll (a : AState) : List Nat → InvMap × Bool → InvMap × Bool
  | [], acc => acc
  | t :: ts, acc => let r := updInv acc.1 t a; updAll a ts (r.1, acc.2 || r.2)

def passAux : List Block → Nat → InvMap × Bool → InvMap × Bool
  | [], _, acc => acc
  | blk :: bs, b, acc =>
      let acc' := match getInv acc.1 b with
        | some a => (match foldX a blk.body with
            | some a' => updAll a' blk.term.succs acc
            | none => acc)
        | none => acc
      passAux bs (b + 1) acc'

def iter (blocks : List Block) : Nat → InvMap → InvMap
  | 0, inv => inv
  | k + 1, inv =>
      let r := passAux blocks 0 (inv, false)
      if r.2 then iter blocks k r.1 else r.1

def noneList : List Block → InvMap
  | [] => []
  | _ :: t => none :: noneList t

def infer (conv : Conv) (R : Routine) : InvMap :=
  iter R.blocks 24 (updInv (noneList R.blocks) 0 (initA conv)).1

/-- the checker -/
def abiOk (conv : Conv) (R : Routine) : Bool :=
  verify conv R (infer conv R)

end B3.Asm
