/-
`blake3_compress_in_place_sse2` (generated instruction list `B3.Gen.AsmSse2.compress_in_place`): the
machine semantics executed symbolically on each straight-line piece of the routine, cut BY POSITION:
  0..22   prologue (as SSE4.1, no rotation tables)
  23..76  one round (54 instructions: rot16 = `pshuflw/pshufhw 0xB1`, rot8 = `psrld 8 / pslld 24 / pxor`)
  77 `dec al`     78 `jz 9f`
  79..100 message permutation (the two `pblendw` replaced by `pand` with masks from `.rodata` + `por`) + `jmp 9b`
  101..105 feed-forward, two stores, `ret`
Same method as B3/Asm/Sse41Body.lean (`kernel_rfl`: evaluation of `run` in the kernel).
-/
import B3.Asm.Compress
import B3.Simd.KernelRfl
import B3.Gen.AsmSse2
namespace B3.AsmSem.Sse2
open B3 B3.Simd B3.AsmSem B3.Gen.AsmSse2

/-! ### the four rotations as the SSE2 code computes them -/
def s16 (x : UInt32) : UInt32 := mk32 (half x 1) (half x 0)
def s12 (x : UInt32) : UInt32 := sll32 x 20 ||| srl32 x 12
def s8 (x : UInt32) : UInt32 := srl32 x 8 ^^^ sll32 x 24
def s7 (x : UInt32) : UInt32 := sll32 x 25 ||| srl32 x 7

theorem s16_eq (x : UInt32) : s16 x = rotr x 16 := rot_halves16 x
theorem s12_eq (x : UInt32) : s12 x = rotr x 12 := rot_shift12 x
theorem s8_eq (x : UInt32) : s8 x = rotr x 8 := rot_xor8 x
theorem s7_eq (x : UInt32) : s7 x = rotr x 7 := rot_shift7 x

/-- `pand a ma; pand b mb; por`: what replaces `pblendw` -/
def blendM (a b ma mb : V4) : V4 := _mm_or_si128 (pand a ma) (pand b mb)

/-- the message permutation as instructions 79..99 compute it, with the four masks as parameters -/
def permMasked (m0 m1 m2 m3 M33 MCC M3F MC0 : V4) : V4 × V4 × V4 × V4 :=
  (_mm_shuffle_epi32 (_mm_shuffle_ps m0 m1 214) 0x39,
   blendM (_mm_shuffle_epi32 m0 0x0F) (_mm_shuffle_ps m2 m3 250) M33 MCC,
   _mm_shuffle_epi32 (blendM (_mm_unpacklo_epi64 m3 m1) m2 M3F MC0) 0x78,
   _mm_shuffle_epi32 (_mm_unpacklo_epi32 m2 (_mm_unpackhi_epi32 m1 m3)) 0x1E)

theorem prologue_raw (rb : UInt64) (x0 x1 x2 x3 x4 x5 x6 x7 x8 x9 x10 x11 x12 x13 x14 x15 : V4)
    (g0 g1 g2 g3 g4 g5 g6 g7 g8 g9 g10 g11 g12 g13 g14 g15 : UInt64) (z : Bool) (m : Memory) :
    view2 (run rb compress_in_place 23
      ⟨#v[x0, x1, x2, x3, x4, x5, x6, x7, x8, x9, x10, x11, x12, x13, x14, x15],
       #v[g0, g1, g2, g3, g4, g5, g6, g7, g8, g9, g10, g11, g12, g13, g14, g15], z, m, 0, .running, true⟩)
    = ⟨load128 m (g7 + UInt64.ofNat 0), load128 m (g7 + UInt64.ofNat 16), load128 m (rb + UInt64.ofNat 0),
       #v[g1.toUInt32, (g1 >>> 32).toUInt32, (g2 + (g8 <<< 32)).toUInt32, ((g2 + (g8 <<< 32)) >>> 32).toUInt32],
       grp0 (blockRaw m g6), grp1 (blockRaw m g6), grp2 (blockRaw m g6), grp3 (blockRaw m g6),
       #v[merge .b8 g0 7, g1, g2 + (g8 <<< 32), g3, g4, g5, g6, g7, g8 <<< 32, g9, g10, g11, g12, g13, g14, g15], m, 23, .running,
       true && aligned16 (rb + UInt64.ofNat 0)⟩ := by
  kernel_rfl

theorem body_raw (rb : UInt64) (S W : St) (j8 j9 j10 j11 j12 j13 j14 j15 : V4) (g : Vector UInt64 16) (z : Bool) (m : Memory) :
    view2 (run rb compress_in_place 54
      ⟨#v[row S 0, row S 1, row S 2, row S 3, grp0 W, grp1 W, grp2 W, grp3 W, j8, j9, j10, j11, j12, j13, j14, j15],
       g, z, m, 23, .running, true⟩)
    = ⟨row (roundP s16 s12 s8 s7 S (fun i => W[i])) 0, row (roundP s16 s12 s8 s7 S (fun i => W[i])) 1,
       row (roundP s16 s12 s8 s7 S (fun i => W[i])) 2, row (roundP s16 s12 s8 s7 S (fun i => W[i])) 3,
       grp0 W, grp1 W, grp2 W, grp3 W, g, m, 77, .running, true⟩ := by
  atoms16 S; atoms16 W
  kernel_rfl

theorem dec_raw (rb : UInt64) (x : Vector V4 16) (g : Vector UInt64 16) (z : Bool) (m : Memory) (ok : Bool) :
    step rb compress_in_place ⟨x, g, z, m, 77, .running, ok⟩
      = ⟨x, decAl g, trunc .b8 (trunc .b8 g[rax] - 1) == 0, m, 78, .running, ok⟩ := by
  kernel_rfl

theorem jz_taken (rb : UInt64) (x : Vector V4 16) (g : Vector UInt64 16) (m : Memory) (ok : Bool) :
    step rb compress_in_place ⟨x, g, true, m, 78, .running, ok⟩ = ⟨x, g, true, m, 101, .running, ok⟩ := by
  kernel_rfl

theorem jz_not_taken (rb : UInt64) (x : Vector V4 16) (g : Vector UInt64 16) (m : Memory) (ok : Bool) :
    step rb compress_in_place ⟨x, g, false, m, 78, .running, ok⟩ = ⟨x, g, false, m, 79, .running, ok⟩ := by
  kernel_rfl

/-- instructions 79..100 with whatever the four mask loads return -/
theorem perm_raw (rb : UInt64) (r0 r1 r2 r3 m0 m1 m2 m3 : V4) (j8 j9 j10 j11 j12 j13 j14 j15 : V4)
    (g : Vector UInt64 16) (z : Bool) (m : Memory) :
    view2 (run rb compress_in_place 22
      ⟨#v[r0, r1, r2, r3, m0, m1, m2, m3, j8, j9, j10, j11, j12, j13, j14, j15], g, z, m, 79, .running, true⟩)
    = ⟨r0, r1, r2, r3,
       (permMasked m0 m1 m2 m3 (load128 m (rb + UInt64.ofNat 144)) (load128 m (rb + UInt64.ofNat 160))
          (load128 m (rb + UInt64.ofNat 176)) (load128 m (rb + UInt64.ofNat 192))).1,
       (permMasked m0 m1 m2 m3 (load128 m (rb + UInt64.ofNat 144)) (load128 m (rb + UInt64.ofNat 160))
          (load128 m (rb + UInt64.ofNat 176)) (load128 m (rb + UInt64.ofNat 192))).2.1,
       (permMasked m0 m1 m2 m3 (load128 m (rb + UInt64.ofNat 144)) (load128 m (rb + UInt64.ofNat 160))
          (load128 m (rb + UInt64.ofNat 176)) (load128 m (rb + UInt64.ofNat 192))).2.2.1,
       (permMasked m0 m1 m2 m3 (load128 m (rb + UInt64.ofNat 144)) (load128 m (rb + UInt64.ofNat 160))
          (load128 m (rb + UInt64.ofNat 176)) (load128 m (rb + UInt64.ofNat 192))).2.2.2,
       g, m, 23, .running,
       (((true && aligned16 (rb + UInt64.ofNat 144)) && aligned16 (rb + UInt64.ofNat 160)) && aligned16 (rb + UInt64.ofNat 176))
         && aligned16 (rb + UInt64.ofNat 192)⟩ := by
  kernel_rfl

theorem epilogue_raw (rb : UInt64) (r0 r1 r2 r3 m0 m1 m2 m3 j8 j9 j10 j11 j12 j13 j14 j15 : V4)
    (g : Vector UInt64 16) (z : Bool) (m : Memory) :
    view2 (run rb compress_in_place 5
      ⟨#v[r0, r1, r2, r3, m0, m1, m2, m3, j8, j9, j10, j11, j12, j13, j14, j15], g, z, m, 101, .running, true⟩)
    = ⟨_mm_xor_si128 r0 r2, _mm_xor_si128 r1 r3, r2, r3, m0, m1, m2, m3,
       g.set rsp (g[rsp] + 8),
       store128 (store128 m (g[rdi] + UInt64.ofNat 0) (_mm_xor_si128 r0 r2)) (g[rdi] + UInt64.ofNat 16) (_mm_xor_si128 r1 r3),
       105, .returned, true⟩ := by
  kernel_rfl

end B3.AsmSem.Sse2
