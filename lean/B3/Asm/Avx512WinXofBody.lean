/-
`blake3_compress_xof_avx512`, Windows-GNU flavour (generated instruction list
`B3.Gen.AsmAvx512Wgnu.compress_xof`): the machine semantics executed symbolically on each straight-line
piece of the routine, cut BY POSITION:
  0..26   prologue (as in compress_in_place, plus `mov r10, qword ptr [rsp+0x78]`: the sixth argument `out`)
  27..60  one round (34 instructions)           61 `dec al`     62 `jz 9f`
  63..76  message permutation + `jmp 9b`        77..90 feed-forward (the chaining value is read again from [rcx]),
                                                four stores at r10, XMM6-9 restored, `add rsp, 72`, `ret`
Same method as B3/Asm/Avx512WinBody.lean (`kernel_rfl`: evaluation of `runV` in the kernel).
-/
import B3.Asm.Avx512WinBody
namespace B3.AsmSem.Avx512.WinXof
open B3 B3.Simd B3.AsmSem B3.AsmSem.Avx512 B3.Gen.AsmAvx512Wgnu

theorem prologue_raw (rb : UInt64) (x0 x1 x2 x3 x4 x5 x6 x7 x8 x9 x10 x11 x12 x13 x14 x15 : V4)
    (g0 g1 g2 g3 g4 g5 g6 g7 g8 g9 g10 g11 g12 g13 g14 g15 : UInt64) (z : Bool) (m : Memory) :
    viewW (runV rb compress_xof 27
      ⟨#v[x0, x1, x2, x3, x4, x5, x6, x7, x8, x9, x10, x11, x12, x13, x14, x15],
       #v[g0, g1, g2, g3, g4, g5, g6, g7, g8, g9, g10, g11, g12, g13, g14, g15], z, m, 0, .running, true⟩)
    = ⟨load128 (saveMem m (spW g4) x6 x7 x8 x9) (g1 + UInt64.ofNat 0), load128 (saveMem m (spW g4) x6 x7 x8 x9) (g1 + UInt64.ofNat 16),
       load128 (saveMem m (spW g4) x6 x7 x8 x9) (rb + UInt64.ofNat 256),
       #v[g9.toUInt32, (g9 >>> 32).toUInt32,
          (lenFlagsW g8 (saveMem m (spW g4) x6 x7 x8 x9 (spW g4 + UInt64.ofNat 112))).toUInt32,
          (lenFlagsW g8 (saveMem m (spW g4) x6 x7 x8 x9 (spW g4 + UInt64.ofNat 112)) >>> 32).toUInt32],
       grp0 (blockRaw (saveMem m (spW g4) x6 x7 x8 x9) g2), grp1 (blockRaw (saveMem m (spW g4) x6 x7 x8 x9) g2),
       grp2 (blockRaw (saveMem m (spW g4) x6 x7 x8 x9) g2), grp3 (blockRaw (saveMem m (spW g4) x6 x7 x8 x9) g2),
       x10, x11, x12, x13, x14, x15,
       #v[merge .b8 (trunc .d32 (saveMem m (spW g4) x6 x7 x8 x9 (spW g4 + UInt64.ofNat 112)).toUInt64 <<< 32) 7, g1, g2, g3, spW g4, g5, g6, g7,
          lenFlagsW g8 (saveMem m (spW g4) x6 x7 x8 x9 (spW g4 + UInt64.ofNat 112)), g9,
          load64 (saveMem m (spW g4) x6 x7 x8 x9) (spW g4 + UInt64.ofNat 120), g11, g12, g13, g14, g15],
       saveMem m (spW g4) x6 x7 x8 x9, 27, .running,
       ((((true && aligned16 (spW g4 + UInt64.ofNat 0)) && aligned16 (spW g4 + UInt64.ofNat 16)) && aligned16 (spW g4 + UInt64.ofNat 32))
         && aligned16 (spW g4 + UInt64.ofNat 48)) && aligned16 (rb + UInt64.ofNat 256)⟩ := by
  kernel_rfl

theorem body_raw (rb : UInt64) (S W : St) (j8 j9 x10 x11 x12 x13 x14 x15 : V4) (g : Vector UInt64 16) (z : Bool) (m : Memory) :
    viewW (runV rb compress_xof 34
      ⟨#v[row S 0, row S 1, row S 2, row S 3, grp0 W, grp1 W, grp2 W, grp3 W, j8, j9, x10, x11, x12, x13, x14, x15],
       g, z, m, 27, .running, true⟩)
    = ⟨row (roundP ror16 ror12 ror8 ror7 S (fun i => W[i])) 0, row (roundP ror16 ror12 ror8 ror7 S (fun i => W[i])) 1,
       row (roundP ror16 ror12 ror8 ror7 S (fun i => W[i])) 2, row (roundP ror16 ror12 ror8 ror7 S (fun i => W[i])) 3,
       grp0 W, grp1 W, grp2 W, grp3 W, x10, x11, x12, x13, x14, x15, g, m, 61, .running, true⟩ := by
  atoms16 S; atoms16 W
  kernel_rfl

theorem dec_raw (rb : UInt64) (x : Vector V4 16) (g : Vector UInt64 16) (z : Bool) (m : Memory) (ok : Bool) :
    stepV rb compress_xof ⟨x, g, z, m, 61, .running, ok⟩
      = ⟨x, decAl g, trunc .b8 (trunc .b8 g[rax] - 1) == 0, m, 62, .running, ok⟩ := by
  kernel_rfl

theorem jz_taken (rb : UInt64) (x : Vector V4 16) (g : Vector UInt64 16) (m : Memory) (ok : Bool) :
    stepV rb compress_xof ⟨x, g, true, m, 62, .running, ok⟩ = ⟨x, g, true, m, 77, .running, ok⟩ := by
  kernel_rfl

theorem jz_not_taken (rb : UInt64) (x : Vector V4 16) (g : Vector UInt64 16) (m : Memory) (ok : Bool) :
    stepV rb compress_xof ⟨x, g, false, m, 62, .running, ok⟩ = ⟨x, g, false, m, 63, .running, ok⟩ := by
  kernel_rfl

theorem perm_raw (rb : UInt64) (r0 r1 r2 r3 : V4) (W : St) (j8 j9 x10 x11 x12 x13 x14 x15 : V4)
    (g : Vector UInt64 16) (z : Bool) (m : Memory) :
    viewW (runV rb compress_xof 14
      ⟨#v[r0, r1, r2, r3, grp0 W, grp1 W, grp2 W, grp3 W, j8, j9, x10, x11, x12, x13, x14, x15], g, z, m, 63, .running, true⟩)
    = ⟨r0, r1, r2, r3, grp0 (Spec.permute W), grp1 (Spec.permute W), grp2 (Spec.permute W), grp3 (Spec.permute W),
       x10, x11, x12, x13, x14, x15, g, m, 27, .running, true⟩ := by
  atoms16 W
  kernel_rfl

/-- memory after the four stores of the epilogue (`p` = out, `c` = cv) -/
def outMemX (m : Memory) (p c : UInt64) (r0 r1 r2 r3 : V4) : Memory :=
  store128 (store128 (store128 (store128 m (p + UInt64.ofNat 0) (_mm_xor_si128 r0 r2))
    (p + UInt64.ofNat 16) (_mm_xor_si128 r1 r3))
    (p + UInt64.ofNat 32) (_mm_xor_si128 r2 (load128 m (c + UInt64.ofNat 0))))
    (p + UInt64.ofNat 48) (_mm_xor_si128 r3 (load128 m (c + UInt64.ofNat 16)))

/-- instructions 77..90: feed-forward of both halves (the chaining value read again from `[rcx]`, `[rcx+16]` before any
store), four stores at `[r10 + 0/16/32/48]`, XMM6-9 reloaded from `[rsp + 0/16/32/48]`, `add rsp, 72`, `ret`: the WHOLE
final state -/
theorem epilogue_raw (rb : UInt64) (r0 r1 r2 r3 m0 m1 m2 m3 j8 j9 x10 x11 x12 x13 x14 x15 : V4)
    (g : Vector UInt64 16) (z : Bool) (m : Memory) :
    runV rb compress_xof 14
      ⟨#v[r0, r1, r2, r3, m0, m1, m2, m3, j8, j9, x10, x11, x12, x13, x14, x15], g, z, m, 77, .running, true⟩
    = ⟨#v[_mm_xor_si128 r0 r2, _mm_xor_si128 r1 r3, _mm_xor_si128 r2 (load128 m (g[rcx] + UInt64.ofNat 0)),
          _mm_xor_si128 r3 (load128 m (g[rcx] + UInt64.ofNat 16)), m0, m1,
          load128 (outMemX m g[r10] g[rcx] r0 r1 r2 r3) (g[rsp] + UInt64.ofNat 0),
          load128 (outMemX m g[r10] g[rcx] r0 r1 r2 r3) (g[rsp] + UInt64.ofNat 16),
          load128 (outMemX m g[r10] g[rcx] r0 r1 r2 r3) (g[rsp] + UInt64.ofNat 32),
          load128 (outMemX m g[r10] g[rcx] r0 r1 r2 r3) (g[rsp] + UInt64.ofNat 48),
          x10, x11, x12, x13, x14, x15],
       (g.set rsp (g[rsp] + UInt64.ofNat 72)).set rsp ((g.set rsp (g[rsp] + UInt64.ofNat 72))[rsp] + 8),
       g[rsp] + UInt64.ofNat 72 == 0,
       outMemX m g[r10] g[rcx] r0 r1 r2 r3, 90, .returned,
       (((true && aligned16 (g[rsp] + UInt64.ofNat 0)) && aligned16 (g[rsp] + UInt64.ofNat 16)) && aligned16 (g[rsp] + UInt64.ofNat 32))
         && aligned16 (g[rsp] + UInt64.ofNat 48)⟩ := by
  kernel_rfl

end B3.AsmSem.Avx512.WinXof
