/-
`blake3_compress_xof_sse41` (generated instruction list `B3.Gen.AsmSse41.compress_xof`): the machine
semantics executed symbolically on each straight-line piece of the routine, cut BY POSITION:
  0..26   prologue (as in compress_in_place, but `movzx eax, r8b; movzx edx, dl` first)
  27..72  one round (46 instructions)           73 `dec al`     74 `jz 9f`
  75..91  message permutation + `jmp 9b`        92..102 reload cv, feed-forward, four stores at r9, `ret`
Same method as B3/Asm/Sse41Body.lean (`kernel_rfl`: evaluation of `run` in the kernel).
-/
import B3.Asm.Sse41Body
namespace B3.AsmSem.Sse41Xof
open B3 B3.Simd B3.AsmSem B3.Gen.AsmSse41 B3.AsmSem.Sse41

theorem prologue_raw (rb : UInt64) (x0 x1 x2 x3 x4 x5 x6 x7 x8 x9 x10 x11 x12 x13 x14 x15 : V4)
    (g0 g1 g2 g3 g4 g5 g6 g7 g8 g9 g10 g11 g12 g13 g14 g15 : UInt64) (z : Bool) (m : Memory) :
    view (run rb compress_xof 27
      ⟨#v[x0, x1, x2, x3, x4, x5, x6, x7, x8, x9, x10, x11, x12, x13, x14, x15],
       #v[g0, g1, g2, g3, g4, g5, g6, g7, g8, g9, g10, g11, g12, g13, g14, g15], z, m, 0, .running, true⟩)
    = ⟨load128 m (g7 + UInt64.ofNat 0), load128 m (g7 + UInt64.ofNat 16), load128 m (rb + UInt64.ofNat 0),
       #v[g1.toUInt32, (g1 >>> 32).toUInt32, (lenFlagsRaw g2 g8).toUInt32, (lenFlagsRaw g2 g8 >>> 32).toUInt32],
       grp0 (blockRaw m g6), grp1 (blockRaw m g6), grp2 (blockRaw m g6), grp3 (blockRaw m g6),
       load128 m (rb + UInt64.ofNat 32), load128 m (rb + UInt64.ofNat 16),
       #v[merge .b8 (trunc .d32 (trunc .b8 g8) <<< 32) 7, g1, lenFlagsRaw g2 g8, g3, g4, g5, g6, g7, g8, g9, g10, g11, g12, g13, g14, g15],
       m, 27, .running,
       ((true && aligned16 (rb + UInt64.ofNat 0)) && aligned16 (rb + UInt64.ofNat 32)) && aligned16 (rb + UInt64.ofNat 16)⟩ := by
  kernel_rfl

theorem body_raw (rb : UInt64) (S W : St) (j8 j9 j10 j11 j12 j13 : V4) (g : Vector UInt64 16) (z : Bool) (m : Memory) :
    view (run rb compress_xof 46
      ⟨#v[row S 0, row S 1, row S 2, row S 3, grp0 W, grp1 W, grp2 W, grp3 W, j8, j9, j10, j11, j12, j13, ROT8, ROT16],
       g, z, m, 27, .running, true⟩)
    = ⟨row (roundP a16 a12 a8 a7 S (fun i => W[i])) 0, row (roundP a16 a12 a8 a7 S (fun i => W[i])) 1,
       row (roundP a16 a12 a8 a7 S (fun i => W[i])) 2, row (roundP a16 a12 a8 a7 S (fun i => W[i])) 3,
       grp0 W, grp1 W, grp2 W, grp3 W, ROT8, ROT16, g, m, 73, .running, true⟩ := by
  atoms16 S; atoms16 W
  kernel_rfl

theorem dec_raw (rb : UInt64) (x : Vector V4 16) (g : Vector UInt64 16) (z : Bool) (m : Memory) (ok : Bool) :
    step rb compress_xof ⟨x, g, z, m, 73, .running, ok⟩
      = ⟨x, decAl g, trunc .b8 (trunc .b8 g[rax] - 1) == 0, m, 74, .running, ok⟩ := by
  kernel_rfl

theorem jz_taken (rb : UInt64) (x : Vector V4 16) (g : Vector UInt64 16) (m : Memory) (ok : Bool) :
    step rb compress_xof ⟨x, g, true, m, 74, .running, ok⟩ = ⟨x, g, true, m, 92, .running, ok⟩ := by
  kernel_rfl

theorem jz_not_taken (rb : UInt64) (x : Vector V4 16) (g : Vector UInt64 16) (m : Memory) (ok : Bool) :
    step rb compress_xof ⟨x, g, false, m, 74, .running, ok⟩ = ⟨x, g, false, m, 75, .running, ok⟩ := by
  kernel_rfl

theorem perm_raw (rb : UInt64) (r0 r1 r2 r3 : V4) (W : St) (j8 j9 j10 j11 j12 j13 t14 t15 : V4)
    (g : Vector UInt64 16) (z : Bool) (m : Memory) :
    view (run rb compress_xof 17
      ⟨#v[r0, r1, r2, r3, grp0 W, grp1 W, grp2 W, grp3 W, j8, j9, j10, j11, j12, j13, t14, t15], g, z, m, 75, .running, true⟩)
    = ⟨r0, r1, r2, r3, grp0 (Spec.permute W), grp1 (Spec.permute W), grp2 (Spec.permute W), grp3 (Spec.permute W),
       t14, t15, g, m, 27, .running, true⟩ := by
  atoms16 W
  kernel_rfl

/-- instructions 92..102: reload the chaining value, feed-forward of both halves, four stores at `[r9 + 0/16/32/48]`, `ret` -/
theorem epilogue_raw (rb : UInt64) (r0 r1 r2 r3 m0 m1 m2 m3 j8 j9 j10 j11 j12 j13 t14 t15 : V4)
    (g : Vector UInt64 16) (z : Bool) (m : Memory) :
    view (run rb compress_xof 11
      ⟨#v[r0, r1, r2, r3, m0, m1, m2, m3, j8, j9, j10, j11, j12, j13, t14, t15], g, z, m, 92, .running, true⟩)
    = ⟨_mm_xor_si128 r0 r2, _mm_xor_si128 r1 r3, _mm_xor_si128 r2 (load128 m (g[rdi] + UInt64.ofNat 0)),
       _mm_xor_si128 r3 (load128 m (g[rdi] + UInt64.ofNat 16)),
       load128 m (g[rdi] + UInt64.ofNat 0), load128 m (g[rdi] + UInt64.ofNat 16), m2, m3, t14, t15,
       g.set rsp (g[rsp] + 8),
       store128 (store128 (store128 (store128 m (g[r9] + UInt64.ofNat 0) (_mm_xor_si128 r0 r2))
         (g[r9] + UInt64.ofNat 16) (_mm_xor_si128 r1 r3))
         (g[r9] + UInt64.ofNat 32) (_mm_xor_si128 r2 (load128 m (g[rdi] + UInt64.ofNat 0))))
         (g[r9] + UInt64.ofNat 48) (_mm_xor_si128 r3 (load128 m (g[rdi] + UInt64.ofNat 16))),
       102, .returned, true⟩ := by
  kernel_rfl

end B3.AsmSem.Sse41Xof
