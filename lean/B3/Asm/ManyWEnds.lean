/- the pieces of the Windows-GNU `blake3_hash_many_sse41` that differ from the unix routine, evaluated in the kernel on THE
(flat) semantics `ManyW.run`:
  0..26       eight pushes, `mov rbp, rsp`, `sub rsp, 528`, `and rsp, -64`, ten `movdqa [rsp+0x170+16k], xmm(6+k)`,
              `mov rdi, rcx; mov rsi, rdx; mov rdx, r8; mov rcx, r9; mov r8, [rbp+0x68]; movzx r9, byte ptr [rbp+0x70]`
  1430..1449  ten `movdqa xmm(6+k), [rsp+0x170+16k]`, `mov rsp, rbp`, eight pops, `ret` -/
import B3.Asm.ManyWSim2
namespace B3.AsmSem.Many.W
open B3 B3.Simd B3.AsmSem

/-- `rbp` during the routine: the entry `rsp` minus the eight pushes -/
def rbpW (sp : UInt64) : UInt64 := sp - 8 - 8 - 8 - 8 - 8 - 8 - 8 - 8

/-- the memory after the eight pushes (r15 r14 r13 r12 rsi rdi rbx rbp) -/
def pushMemW (m : Memory) (sp g15 g14 g13 g12 g6 g7 g3 g5 : UInt64) : Memory :=
  store64 (store64 (store64 (store64 (store64 (store64 (store64 (store64 m (sp - 8) g15) (sp - 8 - 8) g14) (sp - 8 - 8 - 8) g13)
    (sp - 8 - 8 - 8 - 8) g12) (sp - 8 - 8 - 8 - 8 - 8) g6) (sp - 8 - 8 - 8 - 8 - 8 - 8) g7) (sp - 8 - 8 - 8 - 8 - 8 - 8 - 8) g3)
    (sp - 8 - 8 - 8 - 8 - 8 - 8 - 8 - 8) g5

/-- the frame base: `(rsp - 64 - 528) and -64` -/
def frameBaseW (sp : UInt64) : UInt64 := (rbpW sp - UInt64.ofNat 528) &&& UInt64.ofNat 18446744073709551552

/-- the memory after the ten stores of XMM6..XMM15 at `fb + 0x170 ..` -/
def saveMem (m : Memory) (fb : UInt64) (x6 x7 x8 x9 x10 x11 x12 x13 x14 x15 : V4) : Memory :=
  store128 (store128 (store128 (store128 (store128 (store128 (store128 (store128 (store128 (store128 m
    (fb + dispU 368) x6) (fb + dispU 384) x7) (fb + dispU 400) x8) (fb + dispU 416) x9) (fb + dispU 432) x10)
    (fb + dispU 448) x11) (fb + dispU 464) x12) (fb + dispU 480) x13) (fb + dispU 496) x14) (fb + dispU 512) x15

/-- the fault flag after ten aligned 16-byte accesses at `fb + 0x170 ..` (as the machine computes it) -/
def okSave (fb : UInt64) : Bool :=
  (((((((((true && (!true || aligned16 (fb + dispU 368))) && (!true || aligned16 (fb + dispU 384)))
    && (!true || aligned16 (fb + dispU 400))) && (!true || aligned16 (fb + dispU 416))) && (!true || aligned16 (fb + dispU 432)))
    && (!true || aligned16 (fb + dispU 448))) && (!true || aligned16 (fb + dispU 464))) && (!true || aligned16 (fb + dispU 480)))
    && (!true || aligned16 (fb + dispU 496))) && (!true || aligned16 (fb + dispU 512))

/-- instructions 0..26 on the flat machine -/
theorem prologue_w_flat (rb : UInt64) (x0 x1 x2 x3 x4 x5 x6 x7 x8 x9 x10 x11 x12 x13 x14 x15 : V4)
    (g0 g1 g2 g3 g4 g5 g6 g7 g8 g9 g10 g11 g12 g13 g14 g15 : UInt64) (z c : Bool) (m : Memory) :
    ManyW.run rb progW 27 ⟨#v[x0, x1, x2, x3, x4, x5, x6, x7, x8, x9, x10, x11, x12, x13, x14, x15],
        #v[g0, g1, g2, g3, g4, g5, g6, g7, g8, g9, g10, g11, g12, g13, g14, g15], z, c, m, 0, .running, true⟩
      = ⟨#v[x0, x1, x2, x3, x4, x5, x6, x7, x8, x9, x10, x11, x12, x13, x14, x15],
         #v[g0, g9, g8, g3, frameBaseW g4, rbpW g4, g2, g1,
            load64 (saveMem (pushMemW m g4 g15 g14 g13 g12 g6 g7 g3 g5) (frameBaseW g4) x6 x7 x8 x9 x10 x11 x12 x13 x14 x15)
              (rbpW g4 + dispU 104),
            (saveMem (pushMemW m g4 g15 g14 g13 g12 g6 g7 g3 g5) (frameBaseW g4) x6 x7 x8 x9 x10 x11 x12 x13 x14 x15
              (rbpW g4 + dispU 112)).toUInt64,
            g10, g11, g12, g13, g14, g15],
         frameBaseW g4 == 0, false,
         saveMem (pushMemW m g4 g15 g14 g13 g12 g6 g7 g3 g5) (frameBaseW g4) x6 x7 x8 x9 x10 x11 x12 x13 x14 x15,
         27, .running, okSave (frameBaseW g4)⟩ := by
  kernel_rfl

/-- instructions 1430..1449 on the flat machine: ten reloads, `rsp := rbp`, eight pops, `ret` -/
theorem epilogue_w_flat (rb : UInt64) (x0 x1 x2 x3 x4 x5 x6 x7 x8 x9 x10 x11 x12 x13 x14 x15 : V4)
    (g0 g1 g2 g3 g4 g5 g6 g7 g8 g9 g10 g11 g12 g13 g14 g15 : UInt64) (z c : Bool) (m : Memory) :
    ManyW.run rb progW 20 ⟨#v[x0, x1, x2, x3, x4, x5, x6, x7, x8, x9, x10, x11, x12, x13, x14, x15],
        #v[g0, g1, g2, g3, g4, g5, g6, g7, g8, g9, g10, g11, g12, g13, g14, g15], z, c, m, 1430, .running, true⟩
      = ⟨#v[x0, x1, x2, x3, x4, x5, load128 m (g4 + dispU 368), load128 m (g4 + dispU 384), load128 m (g4 + dispU 400),
            load128 m (g4 + dispU 416), load128 m (g4 + dispU 432), load128 m (g4 + dispU 448), load128 m (g4 + dispU 464),
            load128 m (g4 + dispU 480), load128 m (g4 + dispU 496), load128 m (g4 + dispU 512)],
         #v[g0, g1, g2, load64 m (g5 + 8), g5 + 8 + 8 + 8 + 8 + 8 + 8 + 8 + 8 + 8, load64 m g5,
            load64 m (g5 + 8 + 8 + 8), load64 m (g5 + 8 + 8), g8, g9, g10, g11,
            load64 m (g5 + 8 + 8 + 8 + 8), load64 m (g5 + 8 + 8 + 8 + 8 + 8), load64 m (g5 + 8 + 8 + 8 + 8 + 8 + 8),
            load64 m (g5 + 8 + 8 + 8 + 8 + 8 + 8 + 8)],
         z, c, m, 1449, .returned, okSave g4⟩ := by
  kernel_rfl

end B3.AsmSem.Many.W
