/-
`blake3_compress_in_place_sse41`, Windows-GNU flavour (generated instruction list
`B3.Gen.AsmSse41Wgnu.compress_in_place`): the machine semantics executed symbolically on each
straight-line piece of the routine, cut BY POSITION (instruction indices of the generated list):
  0..7    `sub rsp, 120`, seven `movdqa [rsp + 16 i], xmmN` (N = 6 7 8 9 11 14 15)
  8..33   prologue proper (loads of cv / block / tables, row 3 from r9 / r8b / the byte at [rsp+0xA0], `mov al, 7`)
  34..79  one round (46 instructions)           80 `dec al`     81 `jz 9f`
  82..98  message permutation + `jmp 9b`
  99..111 feed-forward, two stores at [rcx], seven `movdqa xmmN, [rsp + 16 i]`, `add rsp, 120`, `ret`
Each lemma is an equation between the state (or its tracked part `wview`) after `run`ning the piece from a
symbolic state and an explicit value; it is closed by `kernel_rfl`, i.e. by evaluation of `run` in the kernel
(see B3/Simd/KernelRfl.lean; nothing is assumed, a wrong equation is rejected).
-/
import B3.Asm.WgnuLemmas
import B3.Asm.Sse41Body
import B3.Gen.AsmSse41Wgnu
namespace B3.AsmSem.Win.Sse41
open B3 B3.Simd B3.AsmSem B3.AsmSem.Win B3.Gen.AsmSse41Wgnu B3.AsmSem.Sse41

/-- instructions 0..7 from ANY state at `pc = 0`: the stack pointer goes down by 120, the seven registers are stored -/
theorem frame_raw (rb : UInt64) (x0 x1 x2 x3 x4 x5 x6 x7 x8 x9 x10 x11 x12 x13 x14 x15 : V4)
    (g0 g1 g2 g3 g4 g5 g6 g7 g8 g9 g10 g11 g12 g13 g14 g15 : UInt64) (z : Bool) (m : Memory) :
    run rb compress_in_place 8
      ⟨#v[x0, x1, x2, x3, x4, x5, x6, x7, x8, x9, x10, x11, x12, x13, x14, x15],
       #v[g0, g1, g2, g3, g4, g5, g6, g7, g8, g9, g10, g11, g12, g13, g14, g15], z, m, 0, .running, true⟩
    = ⟨#v[x0, x1, x2, x3, x4, x5, x6, x7, x8, x9, x10, x11, x12, x13, x14, x15],
       #v[g0, g1, g2, g3, g4 - UInt64.ofNat 120, g5, g6, g7, g8, g9, g10, g11, g12, g13, g14, g15],
       g4 - UInt64.ofNat 120 == 0,
       frameStores m (g4 - UInt64.ofNat 120) x6 x7 x8 x9 x11 x14 x15, 8, .running, frameAligned (g4 - UInt64.ofNat 120)⟩ := by
  kernel_rfl

/-- instructions 8..33 from ANY state at `pc = 8` -/
theorem prologue_raw (rb : UInt64) (x0 x1 x2 x3 x4 x5 x6 x7 x8 x9 x10 x11 x12 x13 x14 x15 : V4)
    (g0 g1 g2 g3 g4 g5 g6 g7 g8 g9 g10 g11 g12 g13 g14 g15 : UInt64) (z : Bool) (m : Memory) :
    wview (run rb compress_in_place 26
      ⟨#v[x0, x1, x2, x3, x4, x5, x6, x7, x8, x9, x10, x11, x12, x13, x14, x15],
       #v[g0, g1, g2, g3, g4, g5, g6, g7, g8, g9, g10, g11, g12, g13, g14, g15], z, m, 8, .running, true⟩)
    = ⟨load128 m (g1 + UInt64.ofNat 0), load128 m (g1 + UInt64.ofNat 16), load128 m (rb + UInt64.ofNat 0),
       #v[g9.toUInt32, (g9 >>> 32).toUInt32, (lenFlagsW g8 (m (g4 + UInt64.ofNat 160))).toUInt32,
          (lenFlagsW g8 (m (g4 + UInt64.ofNat 160)) >>> 32).toUInt32],
       grp0 (blockRaw m g2), grp1 (blockRaw m g2), grp2 (blockRaw m g2), grp3 (blockRaw m g2),
       x10, x12, x13, load128 m (rb + UInt64.ofNat 32), load128 m (rb + UInt64.ofNat 16),
       #v[merge .b8 (trunc .d32 (m (g4 + UInt64.ofNat 160)).toUInt64 <<< 32) 7, g1, g2, g3, g4, g5, g6, g7,
          lenFlagsW g8 (m (g4 + UInt64.ofNat 160)), g9, g10, g11, g12, g13, g14, g15], m, 34, .running,
       ((true && aligned16 (rb + UInt64.ofNat 0)) && aligned16 (rb + UInt64.ofNat 32)) && aligned16 (rb + UInt64.ofNat 16)⟩ := by
  kernel_rfl

/-- instructions 34..79: one round on the rows, message registers and XMM10, 12, 13 unchanged -/
theorem body_raw (rb : UInt64) (S W : St) (j8 j9 k10 j11 k12 k13 : V4) (g : Vector UInt64 16) (z : Bool) (m : Memory) :
    wview (run rb compress_in_place 46
      ⟨#v[row S 0, row S 1, row S 2, row S 3, grp0 W, grp1 W, grp2 W, grp3 W, j8, j9, k10, j11, k12, k13, ROT8, ROT16],
       g, z, m, 34, .running, true⟩)
    = ⟨row (roundP a16 a12 a8 a7 S (fun i => W[i])) 0, row (roundP a16 a12 a8 a7 S (fun i => W[i])) 1,
       row (roundP a16 a12 a8 a7 S (fun i => W[i])) 2, row (roundP a16 a12 a8 a7 S (fun i => W[i])) 3,
       grp0 W, grp1 W, grp2 W, grp3 W, k10, k12, k13, ROT8, ROT16, g, m, 80, .running, true⟩ := by
  atoms16 S; atoms16 W
  kernel_rfl

/-- instruction 80, `dec al` -/
theorem dec_raw (rb : UInt64) (x : Vector V4 16) (g : Vector UInt64 16) (z : Bool) (m : Memory) (ok : Bool) :
    step rb compress_in_place ⟨x, g, z, m, 80, .running, ok⟩
      = ⟨x, decAl g, trunc .b8 (trunc .b8 g[rax] - 1) == 0, m, 81, .running, ok⟩ := by
  kernel_rfl

/-- instruction 81, `jz 9f`, ZF set -/
theorem jz_taken (rb : UInt64) (x : Vector V4 16) (g : Vector UInt64 16) (m : Memory) (ok : Bool) :
    step rb compress_in_place ⟨x, g, true, m, 81, .running, ok⟩ = ⟨x, g, true, m, 99, .running, ok⟩ := by
  kernel_rfl

/-- instruction 81, `jz 9f`, ZF clear -/
theorem jz_not_taken (rb : UInt64) (x : Vector V4 16) (g : Vector UInt64 16) (m : Memory) (ok : Bool) :
    step rb compress_in_place ⟨x, g, false, m, 81, .running, ok⟩ = ⟨x, g, false, m, 82, .running, ok⟩ := by
  kernel_rfl

/-- instructions 82..98: the message registers go from the grouped words of `W` to those of `permute W`; back to 34 -/
theorem perm_raw (rb : UInt64) (r0 r1 r2 r3 : V4) (W : St) (j8 j9 k10 j11 k12 k13 t14 t15 : V4)
    (g : Vector UInt64 16) (z : Bool) (m : Memory) :
    wview (run rb compress_in_place 17
      ⟨#v[r0, r1, r2, r3, grp0 W, grp1 W, grp2 W, grp3 W, j8, j9, k10, j11, k12, k13, t14, t15], g, z, m, 82, .running, true⟩)
    = ⟨r0, r1, r2, r3, grp0 (Spec.permute W), grp1 (Spec.permute W), grp2 (Spec.permute W), grp3 (Spec.permute W),
       k10, k12, k13, t14, t15, g, m, 34, .running, true⟩ := by
  atoms16 W
  kernel_rfl

/-- memory after the two stores of the epilogue -/
abbrev out2 (m : Memory) (a : UInt64) (v0 v1 : V4) : Memory :=
  store128 (store128 m (a + UInt64.ofNat 0) v0) (a + UInt64.ofNat 16) v1

/-- instructions 99..111 (the WHOLE state, all sixteen XMM registers): feed-forward of the low half, two stores at
`[rcx]`, `[rcx+16]`, the seven reloads from the frame, `add rsp, 120`, `ret` -/
theorem epilogue_raw (rb : UInt64) (r0 r1 r2 r3 m0 m1 m2 m3 j8 j9 k10 j11 k12 k13 t14 t15 : V4)
    (g : Vector UInt64 16) (z : Bool) (m : Memory) :
    run rb compress_in_place 13
      ⟨#v[r0, r1, r2, r3, m0, m1, m2, m3, j8, j9, k10, j11, k12, k13, t14, t15], g, z, m, 99, .running, true⟩
    = ⟨#v[_mm_xor_si128 r0 r2, _mm_xor_si128 r1 r3, r2, r3, m0, m1,
          load128 (out2 m g[rcx] (_mm_xor_si128 r0 r2) (_mm_xor_si128 r1 r3)) (g[rsp] + UInt64.ofNat 0),
          load128 (out2 m g[rcx] (_mm_xor_si128 r0 r2) (_mm_xor_si128 r1 r3)) (g[rsp] + UInt64.ofNat 16),
          load128 (out2 m g[rcx] (_mm_xor_si128 r0 r2) (_mm_xor_si128 r1 r3)) (g[rsp] + UInt64.ofNat 32),
          load128 (out2 m g[rcx] (_mm_xor_si128 r0 r2) (_mm_xor_si128 r1 r3)) (g[rsp] + UInt64.ofNat 48),
          k10,
          load128 (out2 m g[rcx] (_mm_xor_si128 r0 r2) (_mm_xor_si128 r1 r3)) (g[rsp] + UInt64.ofNat 64),
          k12, k13,
          load128 (out2 m g[rcx] (_mm_xor_si128 r0 r2) (_mm_xor_si128 r1 r3)) (g[rsp] + UInt64.ofNat 80),
          load128 (out2 m g[rcx] (_mm_xor_si128 r0 r2) (_mm_xor_si128 r1 r3)) (g[rsp] + UInt64.ofNat 96)],
       (g.set rsp (g[rsp] + UInt64.ofNat 120)).set rsp ((g.set rsp (g[rsp] + UInt64.ofNat 120))[rsp] + 8),
       g[rsp] + UInt64.ofNat 120 == 0,
       out2 m g[rcx] (_mm_xor_si128 r0 r2) (_mm_xor_si128 r1 r3),
       111, .returned, frameAligned g[rsp]⟩ := by
  kernel_rfl

end B3.AsmSem.Win.Sse41
