/- the kernel-evaluated pieces of the 2-input tail of `blake3_hash_many_sse41` -/
import B3.Asm.ManyT2a
import B3.Asm.ManyT2b
import B3.Asm.ManyT2c
import B3.Asm.ManyT2d
