/-
A machine semantics for the part of x86-64 (general purpose + VEX-encoded AVX / AVX2) that the hand
written assembly routine `blake3_hash_many_avx2` (c/blake3_avx2_x86-64_unix.S, the only routine of
that file) uses.  The general purpose part is the one of `B3/Asm/ManySem.lean` (G34; its flag and
ALU definitions `aluAdd aluSub aluAnd aluOr aluXor trunc merge dispU load64 store64` are reused
unchanged) plus `cmove`, `nop`, the store forms `mov [m], r64/r32` and a memory source for the ALU
instructions (`cmp rdx, qword ptr [rsp+0x2A0]`); the vector part is new: 256-bit registers.

THIS FILE IS TRUSTED: it is the statement of what the instructions do.  Every case carries the
pseudo-code of the Intel SDM (Vol. 2, "Operation" sections, VEX.128 / VEX.256 encoded versions)
that it transcribes; the 128-bit lane functions of `B3/Simd/Prim.lean`, `B3/Asm/Sse.lean`,
`B3/Asm/ManySem.lean`, `B3/Asm/Avx512Sem.lean` (also trusted, also SDM pseudo-code) are reused:
every AVX2 integer / shuffle instruction used here except the four cross-lane ones works on the two
128-bit halves independently with the operation of its SSE ancestor ("in-lane").  The model is
validated at run time by `RunAsmAvx2Many.lean`: this `exec`, evaluated on the harness' inputs, is
compared with the real routine running on the CPU (`cdriver`, `CK hmany avx2_asm ...`).

How to read it.  As in `ManySem.lean` the instruction semantics `execG` is written ONCE, over a
record `A : MemAcc μ` of memory access functions for a memory of type `μ`; THE semantics is its
instance at the flat byte memory, `exec := execG flat`.  The only other instance is in the runner
(`B3/Asm/RunAvx2Many.lean`: the same loads/stores over arrays, for speed).

What is modelled
* 16 YMM registers, each a `Y` = two 128-bit halves `lo` (bits 127:0) and `hi` (bits 255:128), each a
  `V4` (lane 0 = the lowest doubleword).  `xmmN` is the low half of `ymmN`.  A VEX.128 encoded
  instruction that writes `xmmN` ZEROES bits 255:128 of `ymmN` (`DEST[MAXVL-1:128] := 0`), a VEX.256
  one writes both halves (`DEST[MAXVL-1:256] := 0` concerns bits this model does not have: nothing
  is claimed about zmm bits 511:256).  `vzeroupper` zeroes every `hi`.
* 16 general purpose registers as `UInt64`, operand widths 8 (low byte) / 32 (zero-extending) / 64.
* ZF and CF of RFLAGS, exactly as in `ManySem.lean`; flag readers: `jz jnz jc jnc cmovne cmove`.
* Memory: ONE flat byte memory `UInt64 → UInt8`; effective addresses wrap modulo 2^64; data is
  little-endian; a 32-byte access at `a` is the 16-byte accesses at `a` and `a + 16` (the access
  functions get the operand as written for the first and `Operand.hi` of it for the second).
  `[label + rip]` is `rodataBase + offset`, the content of `.rodata` is NOT built in.
* READ LOG: `reads`, the list of (address, number of bytes) of every memory LOAD the run has
  performed (instruction operands, `pop`; newest first).  It is write-only for the semantics: no
  instruction's result depends on it.  `prefetcht0` is a hint that never faults and is not logged.
  This is what makes "which bytes does the routine read" a property of the translated code (the
  known finding of C07: the tail groups read past the end of an input).
* Faults: the sticky flag `ok`.  `vmovdqa`/`vmovaps` with a memory operand that is not aligned to
  its size (16 for xmmword, 32 for ymmword) clear it (#GP); NO other VEX instruction has an
  alignment requirement (SDM Vol. 1 14.9); operand shapes outside the modelled set and running off
  the end of the instruction list clear it too.
* Control: `pc` = index into the instruction list; `ret` ends the run (`status := returned`,
  `rsp += 8`); the return address is not modelled.

What is NOT modelled: page permissions, the other flags, MXCSR, zmm bits 511:256, AVX-SSE transition
penalties, timing, caches.
-/
import B3.Asm.ManySem
import B3.Asm.Avx512Sem
namespace B3.AsmSem.Avx2
open B3 B3.Simd B3.AsmSem
open B3.AsmSem.Many (dispU load64 store64 aluAdd aluSub aluAnd aluOr aluXor psubd pcmpgtd blendvps pinsrd)

/-! ### instruction syntax (the generated file is data of these types) -/

/-- declared size of a memory operand (`byte ptr` .. `ymmword ptr`, or none) -/
inductive Size where
  | byte | dword | qword | xmmword | ymmword | unsized
deriving DecidableEq, Repr

inductive Operand where
  | xmm (n : Fin 16)
  | ymm (n : Fin 16)
  | gpr (r : Reg) (w : Width)
  /-- `<size> ptr [base + index + disp]` (index optional, scale 1, `disp` signed) -/
  | mem (sz : Size) (base : Reg) (idx : Option Reg) (disp : Int)
  /-- `<size> ptr [label + rip]`: `off` = offset of `label` from the start of the translated `.rodata` section -/
  | rip (sz : Size) (off : Nat)
  /-- immediate, as the bit pattern of the operand width -/
  | imm (v : Nat)
  /-- jump target: index into the instruction list -/
  | target (idx : Nat)
deriving DecidableEq, Repr

inductive Mn where
  | endbr64 | nop | prefetcht0 | vzeroupper
  | vmovups | vmovdqu | vmovaps | vmovdqa | vmovd | vpinsrd
  | vpbroadcastd | vbroadcasti128 | vinsertf128 | vinserti128 | vextracti128 | vperm2f128 | vpermq
  | vpaddd | vpsubd | vpxor | vpor | vpand | vpcmpgtd
  | vpshufb | vpslld | vpsrld
  | vpshufd | vshufps | vpblendd | vblendps | vblendvps
  | vpunpckldq | vpunpckhdq | vpunpcklqdq | vpunpckhqdq
  | vunpcklps | vunpckhps | vunpcklpd | vunpckhpd
  | push | pop | mov | movzx | cmovne | cmove
  | add | sub | and | or | xor | cmp | test | neg | dec | shl | shr
  | jz | jnz | jc | jnc | jmp | ret
deriving DecidableEq, Repr

structure Instr where
  mn : Mn
  ops : List Operand
deriving DecidableEq, Repr

/-- shorthand used by the generated instruction list -/
abbrev I := Instr.mk

/-! ### machine state (`μ` = the memory; `Memory` for THE semantics) -/

/-- a 256-bit register: `lo` = bits 127:0, `hi` = bits 255:128 -/
structure Y where
  lo : V4
  hi : V4
deriving DecidableEq, Repr

def zero4 : V4 := #v[0, 0, 0, 0]

structure StateG (μ : Type) where
  ymm : Vector Y 16
  gpr : Vector UInt64 16
  zf : Bool
  cf : Bool
  mem : μ
  /-- (address, length) of every load performed so far, newest first -/
  reads : List (UInt64 × Nat)
  pc : Nat
  status : Status
  ok : Bool

abbrev State := StateG Memory

/-- vector length of a VEX instruction -/
inductive VL where
  | v128 | v256
deriving DecidableEq, Repr

/-! ### memory access -/

/-- `MEM[a+3 : a] := v`: the 4 addresses `a .. a+3` (mod 2^64) get the bytes of `v`, lowest first -/
def store32 (m : Memory) (a : UInt64) (v : UInt32) : Memory :=
  fun p => if p - a < 4 then (v >>> (8 * (p - a).toUInt32)).toUInt8 else m p

/-- the memory access functions the instruction semantics uses; `o` is the operand as written (syntax), `a` its
effective address.  THE semantics uses `flat` below. -/
structure MemAcc (μ : Type) where
  ld8 : μ → Operand → UInt64 → UInt8
  ld32 : μ → Operand → UInt64 → UInt32
  ld64 : μ → Operand → UInt64 → UInt64
  ld128 : μ → Operand → UInt64 → V4
  st32 : μ → Operand → UInt64 → UInt32 → μ
  st64 : μ → Operand → UInt64 → UInt64 → μ
  st128 : μ → Operand → UInt64 → V4 → μ
  /-- is the 16-byte / 32-byte operand at `a` aligned to its size -/
  al16 : Operand → UInt64 → Bool
  al32 : Operand → UInt64 → Bool

/-- 32-byte alignment (`vmovdqa`/`vmovaps` with a ymmword operand: #GP otherwise) -/
def aligned32 (a : UInt64) : Bool := a % 32 == 0

/-- the flat byte memory -/
def flat : MemAcc Memory where
  ld8 m _ a := m a
  ld32 m _ a := m.word a
  ld64 m _ a := load64 m a
  ld128 m _ a := load128 m a
  st32 m _ a v := store32 m a v
  st64 m _ a v := store64 m a v
  st128 m _ a v := store128 m a v
  al16 _ a := aligned16 a
  al32 _ a := aligned32 a

/-- effective address of a memory operand (`rb` = run-time address of the start of the translated `.rodata`) -/
def ea (rb : UInt64) (g : Vector UInt64 16) : Operand → Option UInt64
  | .mem _ b none d => some (g[b] + dispU d)
  | .mem _ b (some i) d => some (g[b] + g[i] + dispU d)
  | .rip _ off => some (rb + UInt64.ofNat off)
  | _ => none

/-- declared size of a memory operand -/
def Operand.size : Operand → Option Size
  | .mem sz _ _ _ => some sz
  | .rip sz _ => some sz
  | _ => none

/-- the operand that names the upper 16 bytes of a 32-byte memory operand: the same operand displaced by 16
(only the SYNTAX handed to the access functions changes; the address of those bytes is `ea + 16`) -/
def Operand.hi : Operand → Operand
  | .mem sz b i d => .mem sz b i (d + 16)
  | .rip sz off => .rip sz (off + 16)
  | o => o

/-! ### 256-bit operations -/

/-- an in-lane binary operation: both 128-bit halves with the same 128-bit function -/
def Y.map2 (f : V4 → V4 → V4) (a b : Y) : Y := ⟨f a.lo b.lo, f a.hi b.hi⟩
def Y.map1 (f : V4 → V4) (a : Y) : Y := ⟨f a.lo, f a.hi⟩

/-- the result of a VEX instruction of vector length `vl`: VEX.128 zeroes bits 255:128 of the destination -/
def Y.cut (vl : VL) (v : Y) : Y :=
  match vl with
  | .v128 => ⟨v.lo, zero4⟩
  | .v256 => v

/-- quadword `k` (0..3) of a 256-bit value as (low doubleword, high doubleword) -/
def Y.qword (v : Y) (k : Nat) : UInt32 × UInt32 :=
  match k % 4 with
  | 0 => (v.lo[0], v.lo[1])
  | 1 => (v.lo[2], v.lo[3])
  | 2 => (v.hi[0], v.hi[1])
  | _ => (v.hi[2], v.hi[3])

/-- VPERMQ ymm1, ymm2/m256, imm8 (VEX.256):
```
DEST[63:0] := (SRC[255:0] >> (IMM8[1:0] * 64))[63:0];
DEST[127:64] := (SRC[255:0] >> (IMM8[3:2] * 64))[63:0];
DEST[191:128] := (SRC[255:0] >> (IMM8[5:4] * 64))[63:0];
DEST[255:192] := (SRC[255:0] >> (IMM8[7:6] * 64))[63:0];
``` -/
def vpermq (src : Y) (imm8 : Nat) : Y :=
  let q0 := src.qword (imm8 % 4)
  let q1 := src.qword (imm8 / 4 % 4)
  let q2 := src.qword (imm8 / 16 % 4)
  let q3 := src.qword (imm8 / 64 % 4)
  ⟨#v[q0.1, q0.2, q1.1, q1.2], #v[q2.1, q2.2, q3.1, q3.2]⟩

/-- the 128-bit half selected by a 2-bit field of VPERM2F128 -/
def sel128 (s1 s2 : Y) (c : Nat) : V4 :=
  match c % 4 with
  | 0 => s1.lo
  | 1 => s1.hi
  | 2 => s2.lo
  | _ => s2.hi

/-- VPERM2F128 ymm1, ymm2, ymm3/m256, imm8:
```
CASE IMM8[1:0] of 0: DEST[127:0] := SRC1[127:0]  1: DEST[127:0] := SRC1[255:128]
                  2: DEST[127:0] := SRC2[127:0]  3: DEST[127:0] := SRC2[255:128] ESAC
CASE IMM8[5:4] of 0: DEST[255:128] := SRC1[127:0]  1: DEST[255:128] := SRC1[255:128]
                  2: DEST[255:128] := SRC2[127:0]  3: DEST[255:128] := SRC2[255:128] ESAC
IF (imm8[3]) DEST[127:0] := 0 FI
IF (imm8[7]) DEST[255:128] := 0 FI
``` -/
def vperm2f128 (s1 s2 : Y) (imm8 : Nat) : Y :=
  ⟨if imm8.testBit 3 then zero4 else sel128 s1 s2 imm8,
   if imm8.testBit 7 then zero4 else sel128 s1 s2 (imm8 / 16)⟩

/-- VINSERTF128 / VINSERTI128 ymm1, ymm2, xmm3/m128, imm8:
```
TEMP[255:0] := SRC1[255:0]
CASE (imm8[0]) OF 0: TEMP[127:0] := SRC2[127:0]  1: TEMP[255:128] := SRC2[127:0] ESAC
DEST := TEMP
``` -/
def vinsert128 (s1 : Y) (s2 : V4) (imm8 : Nat) : Y :=
  if imm8.testBit 0 then ⟨s1.lo, s2⟩ else ⟨s2, s1.hi⟩

/-- VEXTRACTI128 xmm1/m128, ymm2, imm8: `CASE (imm8[0]) OF 0: DEST[127:0] := SRC1[127:0]  1: DEST[127:0] := SRC1[255:128]` -/
def vextract128 (s : Y) (imm8 : Nat) : V4 := if imm8.testBit 0 then s.hi else s.lo

/-! ### state helpers -/

variable {μ : Type}

def StateG.next (s : StateG μ) : StateG μ := { s with pc := s.pc + 1 }
def StateG.fault (s : StateG μ) : StateG μ := { s with ok := false, pc := s.pc + 1 }
def StateG.setYmm (s : StateG μ) (d : Fin 16) (v : Y) : StateG μ := { s with ymm := s.ymm.set d v }
def StateG.readGpr (s : StateG μ) (r : Reg) (w : Width) : UInt64 := trunc w s.gpr[r]
/-- 64-bit: replaced; 32-bit: zero-extended; 8-bit: bits 63:8 kept (`merge` of `Sse.lean`) -/
def StateG.writeGpr (s : StateG μ) (r : Reg) (w : Width) (v : UInt64) : StateG μ :=
  { s with gpr := s.gpr.set r (merge w s.gpr[r] v) }
/-- log a load of `n` bytes at `a` -/
def StateG.note (s : StateG μ) (a : UInt64) (n : Nat) : StateG μ := { s with reads := (a, n) :: s.reads }

/-- the declared size that a general purpose operand of width `w` needs in a memory operand -/
def sizeOfWidth : Width → Size
  | .b8 => .byte
  | .d32 => .dword
  | .q64 => .qword

def VL.size : VL → Size
  | .v128 => .xmmword
  | .v256 => .ymmword

def VL.bytes : VL → Nat
  | .v128 => 16
  | .v256 => 32

/-- a vector register operand: its vector length and number -/
def vreg : Operand → Option (VL × Fin 16)
  | .xmm r => some (.v128, r)
  | .ymm r => some (.v256, r)
  | _ => none

/-! ### reading operands (every load is logged: the functions return the state with the log extended) -/

/-- a memory operand of vector length `vl`: value (for 128 bits: `hi` = 0), address, state with the load logged -/
def ldV (A : MemAcc μ) (rb : UInt64) (s : StateG μ) (vl : VL) (o : Operand) : Option (Y × UInt64 × StateG μ) :=
  if o.size = some vl.size then
    match ea rb s.gpr o with
    | some a =>
      some (match vl with
            | .v128 => ⟨A.ld128 s.mem o a, zero4⟩
            | .v256 => ⟨A.ld128 s.mem o a, A.ld128 s.mem o.hi (a + 16)⟩, a, s.note a vl.bytes)
    | none => none
  else none

/-- is the memory operand `o` of length `vl` at address `a` aligned to its size -/
def alV (A : MemAcc μ) (vl : VL) (o : Operand) (a : UInt64) : Bool :=
  match vl with
  | .v128 => A.al16 o a
  | .v256 => A.al32 o a

/-- a vector source operand of length `vl`: a register of that length (for 128 bits only `lo` is meaningful; counts as
aligned) or a memory operand of that size; the `Bool` = the memory operand is aligned to its size -/
def rdV (A : MemAcc μ) (rb : UInt64) (s : StateG μ) (vl : VL) (o : Operand) : Option (Y × Bool × StateG μ) :=
  match vreg o with
  | some (vl', r) => if vl' = vl then some (s.ymm[r], true, s) else none
  | none => (ldV A rb s vl o).map fun (v, a, s') => (v, alV A vl o a, s')

/-- a 4-byte memory operand -/
def ldD (A : MemAcc μ) (rb : UInt64) (s : StateG μ) (o : Operand) : Option (UInt32 × StateG μ) :=
  if o.size = some .dword then
    match ea rb s.gpr o with
    | some a => some (A.ld32 s.mem o a, s.note a 4)
    | none => none
  else none

/-- a 32-bit source operand of a vector instruction: a 32-bit register or a 4-byte memory operand -/
def rd32 (A : MemAcc μ) (rb : UInt64) (s : StateG μ) (o : Operand) : Option (UInt32 × StateG μ) :=
  match o with
  | .gpr r .d32 => some (s.gpr[r].toUInt32, s)
  | _ => ldD A rb s o

/-- a memory operand of the size that goes with width `w`, zero-extended to 64 bits -/
def ldG (A : MemAcc μ) (rb : UInt64) (s : StateG μ) (w : Width) (o : Operand) : Option (UInt64 × StateG μ) :=
  if o.size = some (sizeOfWidth w) then
    match ea rb s.gpr o with
    | some a =>
      some (match w with
        | .b8 => (A.ld8 s.mem o a).toUInt64
        | .d32 => (A.ld32 s.mem o a).toUInt64
        | .q64 => A.ld64 s.mem o a, s.note a (w.bits / 8))
    | none => none
  else none

/-- a general purpose source operand of width `w`: a register of that width, an immediate (its low `w` bits),
or a memory operand of that size; zero-extended to 64 bits -/
def rdG (A : MemAcc μ) (rb : UInt64) (s : StateG μ) (w : Width) (o : Operand) : Option (UInt64 × StateG μ) :=
  match o with
  | .gpr r w' => if w' = w then some (s.readGpr r w, s) else none
  | .imm k => some (trunc w (UInt64.ofNat k), s)
  | _ => ldG A rb s w o

/-! ### instruction classes -/

/-- `DEST := f SRC1 (SRC2/mem)` on each 128-bit half (`vl` = the length of the destination register; all three operands
have that length); no alignment requirement -/
def v3 (A : MemAcc μ) (rb : UInt64) (f : V4 → V4 → V4) (ops : List Operand) (s : StateG μ) : StateG μ :=
  match ops with
  | [d, a, o] =>
    match vreg d, vreg a with
    | some (vl, d), some (vl', a) =>
      if vl' = vl then
        match rdV A rb s vl o with
        | some (v, _, s') => (s'.setYmm d ((Y.map2 f s.ymm[a] v).cut vl)).next
        | none => s.fault
      else s.fault
    | _, _ => s.fault
  | _ => s.fault

/-- `DEST := f SRC1 (SRC2/mem) imm8` on each 128-bit half -/
def v3i (A : MemAcc μ) (rb : UInt64) (f : V4 → V4 → Nat → V4) (ops : List Operand) (s : StateG μ) : StateG μ :=
  match ops with
  | [d, a, o, .imm k] => v3 A rb (fun x y => f x y k) [d, a, o] s
  | _ => s.fault

/-- `DEST := f (SRC/mem) imm8` on each 128-bit half -/
def v2i (A : MemAcc μ) (rb : UInt64) (f : V4 → Nat → V4) (ops : List Operand) (s : StateG μ) : StateG μ :=
  match ops with
  | [d, o, .imm k] =>
    match vreg d with
    | some (vl, d) =>
      match rdV A rb s vl o with
      | some (v, _, s') => (s'.setYmm d ((Y.map1 (fun x => f x k) v).cut vl)).next
      | none => s.fault
    | none => s.fault
  | _ => s.fault

/-- `DEST := f SRC imm8` on each 128-bit half, register source only (the shifts by an immediate) -/
def vsh (f : V4 → Nat → V4) (ops : List Operand) (s : StateG μ) : StateG μ :=
  match ops with
  | [d, a, .imm k] =>
    match vreg d, vreg a with
    | some (vl, d), some (vl', a) =>
      if vl' = vl then (s.setYmm d ((Y.map1 (fun x => f x k) s.ymm[a]).cut vl)).next else s.fault
    | _, _ => s.fault
  | _ => s.fault

/-- VMOVDQU/VMOVUPS (`al = false`) and VMOVDQA/VMOVAPS (`al = true`), VEX.128 / VEX.256:
`DEST[127:0] := SRC[127:0]; DEST[MAXVL-1:128] := 0` (register destination, 128) /
`DEST[255:0] := SRC[255:0]` (256) / `DEST[127:0] (memory) := SRC[127:0]` / `DEST[255:0] (memory) := SRC[255:0]`;
the aligned forms #GP when the memory operand is not aligned to its size (16 / 32) -/
def vmov (A : MemAcc μ) (rb : UInt64) (al : Bool) (ops : List Operand) (s : StateG μ) : StateG μ :=
  match ops with
  | [d, o] =>
    match vreg d with
    | some (vl, d) =>
      (match rdV A rb s vl o with
       | some (v, ali, s') => ({ s' with ok := s'.ok && (!al || ali) }.setYmm d (v.cut vl)).next
       | none => s.fault)
    | none =>
      (match vreg o with
       | some (vl, r) =>
         if d.size = some vl.size then
           match ea rb s.gpr d with
           | some a =>
             (match vl with
              | .v128 => { s with ok := s.ok && (!al || A.al16 d a), mem := A.st128 s.mem d a s.ymm[r].lo }.next
              | .v256 => { s with ok := s.ok && (!al || A.al32 d a),
                                  mem := A.st128 (A.st128 s.mem d a s.ymm[r].lo) d.hi (a + 16) s.ymm[r].hi }.next)
           | none => s.fault
         else s.fault
       | none => s.fault)
  | _ => s.fault

/-- a two-operand general purpose instruction `op r, r/imm/m` of the width of its first operand:
`f w dest src = (result, CF)`; ZF reflects the result; the result is written iff `wr` (`cmp`, `test` do not) -/
def gbin (A : MemAcc μ) (rb : UInt64) (f : Width → UInt64 → UInt64 → UInt64 × Bool) (wr : Bool)
    (ops : List Operand) (s : StateG μ) : StateG μ :=
  match ops with
  | [.gpr d w, o] =>
    match rdG A rb s w o with
    | some (b, s') =>
      let r := f w (s.readGpr d w) b
      { (if wr then s'.writeGpr d w r.1 else s') with zf := r.1 == 0, cf := r.2 }.next
    | none => s.fault
  | _ => s.fault

/-- `IF cond THEN pc := target` -/
def jcc (cond : Bool) (ops : List Operand) (s : StateG μ) : StateG μ :=
  match ops with
  | [.target t] => if cond then { s with pc := t } else s.next
  | _ => s.fault

/-- CMOVcc r, r (same width): `temp := SRC; IF cond THEN DEST := temp ELSE DEST := DEST`; with a 32-bit operand size
bits 63:32 of the destination register are cleared in both cases; no flags -/
def cmov (cond : Bool) (ops : List Operand) (s : StateG μ) : StateG μ :=
  match ops with
  | [.gpr d w, .gpr r w'] =>
    if w = w' then (s.writeGpr d w (if cond then s.readGpr r w else s.readGpr d w)).next else s.fault
  | _ => s.fault

/-! ### execution of one instruction -/

/-- one instruction, over the memory access functions `A` (`rb` = run-time address of the start of the
translated `.rodata` section) -/
def execG (A : MemAcc μ) (rb : UInt64) (i : Instr) (s : StateG μ) : StateG μ :=
  match i.mn with
  /- ENDBR64: a NOP outside of indirect-branch tracking;  NOP: no operation -/
  | .endbr64 | .nop => (match i.ops with | [] => s.next | _ => s.fault)
  /- PREFETCHT0 m8: a hint; no architectural state changes, never faults -/
  | .prefetcht0 => (match i.ops with | [.mem _ _ _ _] => s.next | _ => s.fault)
  /- VZEROUPPER: `YMM0..15[MAXVL-1:128] := 0`, bits 127:0 unmodified (64-bit mode: all sixteen) -/
  | .vzeroupper => (match i.ops with | [] => { s with ymm := s.ymm.map fun (y : Y) => (⟨y.lo, zero4⟩ : Y) }.next | _ => s.fault)
  | .vmovups | .vmovdqu => vmov A rb false i.ops s
  | .vmovaps | .vmovdqa => vmov A rb true i.ops s
  /- VMOVD xmm1, r32/m32: `DEST[31:0] := SRC; DEST[MAXVL-1:32] := 0` -/
  | .vmovd =>
    (match i.ops with
     | [.xmm d, o] =>
       (match rd32 A rb s o with
        | some (v, s') => (s'.setYmm d ⟨#v[v, 0, 0, 0], zero4⟩).next
        | none => s.fault)
     | _ => s.fault)
  /- VPINSRD xmm1, xmm2, r32/m32, imm8: `SEL := imm8[1:0]; DEST[127:0] := write_d_element(SEL, SRC2, SRC1); DEST[MAXVL-1:128] := 0` -/
  | .vpinsrd =>
    (match i.ops with
     | [.xmm d, .xmm a, o, .imm k] =>
       (match rd32 A rb s o with
        | some (v, s') => (s'.setYmm d ⟨pinsrd s.ymm[a].lo v k, zero4⟩).next
        | none => s.fault)
     | _ => s.fault)
  /- VPBROADCASTD ymm1, xmm2/m32 (VEX.256): `temp := SRC[31:0]; FOR j := 0 TO 7: DEST[31+j*32 : j*32] := temp` -/
  | .vpbroadcastd =>
    (match i.ops with
     | [.ymm d, .xmm r] => let v := s.ymm[r].lo[0]; (s.setYmm d ⟨#v[v, v, v, v], #v[v, v, v, v]⟩).next
     | [.ymm d, o] =>
       (match ldD A rb s o with
        | some (v, s') => (s'.setYmm d ⟨#v[v, v, v, v], #v[v, v, v, v]⟩).next
        | none => s.fault)
     | _ => s.fault)
  /- VBROADCASTI128 ymm1, m128: `temp := SRC[127:0]; DEST[127:0] := temp; DEST[255:128] := temp` -/
  | .vbroadcasti128 =>
    (match i.ops with
     | [.ymm d, o] =>
       (match ldV A rb s .v128 o with
        | some (v, _, s') => (s'.setYmm d ⟨v.lo, v.lo⟩).next
        | none => s.fault)
     | _ => s.fault)
  /- VINSERTF128 / VINSERTI128 ymm1, ymm2, xmm3/m128, imm8 -/
  | .vinsertf128 | .vinserti128 =>
    (match i.ops with
     | [.ymm d, .ymm a, o, .imm k] =>
       (match rdV A rb s .v128 o with
        | some (v, _, s') => (s'.setYmm d (vinsert128 s.ymm[a] v.lo k)).next
        | none => s.fault)
     | _ => s.fault)
  /- VEXTRACTI128 xmm1/m128, ymm2, imm8 (register destination: `DEST[MAXVL-1:128] := 0`) -/
  | .vextracti128 =>
    (match i.ops with
     | [.xmm d, .ymm r, .imm k] => (s.setYmm d ⟨vextract128 s.ymm[r] k, zero4⟩).next
     | [o, .ymm r, .imm k] =>
       if o.size = some .xmmword then
         match ea rb s.gpr o with
         | some a => { s with mem := A.st128 s.mem o a (vextract128 s.ymm[r] k) }.next
         | none => s.fault
       else s.fault
     | _ => s.fault)
  /- VPERM2F128 ymm1, ymm2, ymm3/m256, imm8 -/
  | .vperm2f128 =>
    (match i.ops with
     | [.ymm d, .ymm a, o, .imm k] =>
       (match rdV A rb s .v256 o with
        | some (v, _, s') => (s'.setYmm d (vperm2f128 s.ymm[a] v k)).next
        | none => s.fault)
     | _ => s.fault)
  /- VPERMQ ymm1, ymm2/m256, imm8 -/
  | .vpermq =>
    (match i.ops with
     | [.ymm d, o, .imm k] =>
       (match rdV A rb s .v256 o with
        | some (v, _, s') => (s'.setYmm d (vpermq v k)).next
        | none => s.fault)
     | _ => s.fault)
  /- VPADDD (VEX.128 / VEX.256): `DEST[31:0] := SRC1[31:0] + SRC2[31:0]; (* repeat for every doubleword *)` -/
  | .vpaddd => v3 A rb _mm_add_epi32 i.ops s
  /- VPSUBD: `DEST[31:0] := SRC1[31:0] - SRC2[31:0]; (* every doubleword *)` -/
  | .vpsubd => v3 A rb psubd i.ops s
  /- VPXOR / VPOR / VPAND: `DEST := SRC1 XOR / OR / AND SRC2` -/
  | .vpxor => v3 A rb _mm_xor_si128 i.ops s
  | .vpor => v3 A rb _mm_or_si128 i.ops s
  | .vpand => v3 A rb pand i.ops s
  /- VPCMPGTD: `DEST[31:0] := (SRC1[31:0] > SRC2[31:0], signed) ? FFFFFFFFH : 0; (* every doubleword *)` -/
  | .vpcmpgtd => v3 A rb pcmpgtd i.ops s
  /- VPSHUFB (VEX.128): the loop of `pshufb` in `Sse.lean` with SRC1, SRC2;  (VEX.256): that loop on bits 127:0 and, with the
     index taken within the upper half (`DEST[128+..] := SRC1[128 + index*8 ..]`), on bits 255:128 -/
  | .vpshufb => v3 A rb pshufb i.ops s
  /- VPSLLD / VPSRLD xmm1/ymm1, xmm2/ymm2, imm8: `IF COUNT > 31 THEN DEST := 0 ELSE DEST[31:0] := ZeroExtend(SRC[31:0] << / >> COUNT); (* every doubleword *)` -/
  | .vpslld => vsh _mm_slli_epi32 i.ops s
  | .vpsrld => vsh _mm_srli_epi32 i.ops s
  /- VPSHUFD xmm1/ymm1, xmm2/m128 / ymm2/m256, imm8: `DEST[31:0] := (SRC[127:0] >> (ORDER[1:0] * 32))[31:0]; ..
     DEST[127:96] := (SRC[127:0] >> (ORDER[7:6] * 32))[31:0];` (VEX.256) `DEST[159:128] := (SRC[255:128] >> (ORDER[1:0] * 32))[31:0]; ..` -/
  | .vpshufd => v2i A rb _mm_shuffle_epi32 i.ops s
  /- VSHUFPS: `DEST[31:0] := Select4(SRC1[127:0], imm8[1:0]); DEST[63:32] := Select4(SRC1[127:0], imm8[3:2]);
     DEST[95:64] := Select4(SRC2[127:0], imm8[5:4]); DEST[127:96] := Select4(SRC2[127:0], imm8[7:6]);`
     (VEX.256) the same four lines with SRC1[255:128], SRC2[255:128] for DEST[255:128] -/
  | .vshufps => v3i A rb _mm_shuffle_ps i.ops s
  /- VPBLENDD / VBLENDPS (VEX.128): `IF (imm8[j] == 1) THEN DEST[32j+31:32j] := SRC2[..] ELSE := SRC1[..]`, j = 0..3;
     (VEX.256) j = 0..7: the upper half uses imm8[7:4] -/
  | .vpblendd | .vblendps =>
    (match i.ops with
     | [d, a, o, .imm k] =>
       (match vreg d, vreg a with
        | some (vl, d), some (vl', a) =>
          if vl' = vl then
            match rdV A rb s vl o with
            | some (v, _, s') =>
              (s'.setYmm d (Y.cut vl ⟨Avx512.vpblendd s.ymm[a].lo v.lo k, Avx512.vpblendd s.ymm[a].hi v.hi (k / 16)⟩)).next
            | none => s.fault
          else s.fault
        | _, _ => s.fault)
     | _ => s.fault)
  /- VBLENDVPS xmm1/ymm1, xmm2/ymm2, xmm3/m128 / ymm3/m256, xmm4/ymm4: `MASK := SRC3; IF (MASK[31] = 0) THEN DEST[31:0] := SRC1[31:0]
     ELSE DEST[31:0] := SRC2[31:0]; (* every doubleword, its own bit 31 *)` -/
  | .vblendvps =>
    (match i.ops with
     | [d, a, o, k] =>
       (match vreg d, vreg a, vreg k with
        | some (vl, d), some (vl', a), some (vl'', k) =>
          if vl' = vl ∧ vl'' = vl then
            match rdV A rb s vl o with
            | some (v, _, s') =>
              (s'.setYmm d (Y.cut vl ⟨blendvps s.ymm[k].lo s.ymm[a].lo v.lo, blendvps s.ymm[k].hi s.ymm[a].hi v.hi⟩)).next
            | none => s.fault
          else s.fault
        | _, _, _ => s.fault)
     | _ => s.fault)
  /- VPUNPCKLDQ / VUNPCKLPS: `DEST[31:0] := SRC1[31:0]; DEST[63:32] := SRC2[31:0]; DEST[95:64] := SRC1[63:32]; DEST[127:96] := SRC2[63:32]`
     (VEX.256: likewise on bits 255:128) -/
  | .vpunpckldq | .vunpcklps => v3 A rb _mm_unpacklo_epi32 i.ops s
  /- VPUNPCKHDQ / VUNPCKHPS: `DEST[31:0] := SRC1[95:64]; DEST[63:32] := SRC2[95:64]; DEST[95:64] := SRC1[127:96]; DEST[127:96] := SRC2[127:96]` -/
  | .vpunpckhdq | .vunpckhps => v3 A rb _mm_unpackhi_epi32 i.ops s
  /- VPUNPCKLQDQ / VUNPCKLPD: `DEST[63:0] := SRC1[63:0]; DEST[127:64] := SRC2[63:0]` (VEX.256: likewise on bits 255:128) -/
  | .vpunpcklqdq | .vunpcklpd => v3 A rb _mm_unpacklo_epi64 i.ops s
  /- VPUNPCKHQDQ / VUNPCKHPD: `DEST[63:0] := SRC1[127:64]; DEST[127:64] := SRC2[127:64]` -/
  | .vpunpckhqdq | .vunpckhpd => v3 A rb _mm_unpackhi_epi64 i.ops s
  /- PUSH r64: `RSP := RSP - 8; Memory[RSP] := SRC` (the value of the register before the instruction) -/
  | .push =>
    (match i.ops with
     | [.gpr r .q64] =>
       let sp := s.gpr[rsp] - 8
       { s with gpr := s.gpr.set rsp sp, mem := A.st64 s.mem (.mem .qword rsp none (-8)) sp s.gpr[r] }.next
     | _ => s.fault)
  /- POP r64: `DEST := Memory[RSP]; RSP := RSP + 8` (for `pop rsp` the loaded value wins) -/
  | .pop =>
    (match i.ops with
     | [.gpr r .q64] =>
       let v := A.ld64 s.mem (.mem .qword rsp none 0) s.gpr[rsp]
       { (s.note s.gpr[rsp] 8) with gpr := (s.gpr.set rsp (s.gpr[rsp] + 8)).set r v }.next
     | _ => s.fault)
  /- MOV r, r/imm/m  and  MOV m64, r64 / MOV m32, r32: `DEST := SRC`; no flags -/
  | .mov =>
    (match i.ops with
     | [.gpr d w, o] =>
       (match rdG A rb s w o with
        | some (v, s') => (s'.writeGpr d w v).next
        | none => s.fault)
     | [o, .gpr r w] =>
       if o.size = some (sizeOfWidth w) then
         match ea rb s.gpr o, w with
         | some a, .q64 => { s with mem := A.st64 s.mem o a s.gpr[r] }.next
         | some a, .d32 => { s with mem := A.st32 s.mem o a s.gpr[r].toUInt32 }.next
         | _, _ => s.fault
       else s.fault
     | _ => s.fault)
  /- MOVZX r32, r/m8: `DEST := ZeroExtend(SRC)`; no flags -/
  | .movzx =>
    (match i.ops with
     | [.gpr d .d32, o] =>
       (match rdG A rb s .b8 o with
        | some (v, s') => (s'.writeGpr d .d32 v).next
        | none => s.fault)
     | _ => s.fault)
  /- CMOVNE / CMOVE: condition `ZF = 0` / `ZF = 1` -/
  | .cmovne => cmov (!s.zf) i.ops s
  | .cmove => cmov s.zf i.ops s
  | .add => gbin A rb aluAdd true i.ops s
  | .sub => gbin A rb aluSub true i.ops s
  | .cmp => gbin A rb aluSub false i.ops s
  | .and => gbin A rb aluAnd true i.ops s
  | .test => gbin A rb aluAnd false i.ops s
  | .or => gbin A rb aluOr true i.ops s
  | .xor => gbin A rb aluXor true i.ops s
  /- NEG r: `IF DEST = 0 THEN CF := 0 ELSE CF := 1; DEST := 0 - DEST`; ZF reflects the result -/
  | .neg =>
    (match i.ops with
     | [.gpr d w] =>
       let a := s.readGpr d w
       let res := trunc w (0 - a)
       ({ s.writeGpr d w res with zf := res == 0, cf := a != 0 }).next
     | _ => s.fault)
  /- DEC r: `DEST := DEST - 1`; ZF reflects the result; CF is not affected -/
  | .dec =>
    (match i.ops with
     | [.gpr d w] =>
       let res := trunc w (s.readGpr d w - 1)
       ({ s.writeGpr d w res with zf := res == 0 }).next
     | _ => s.fault)
  /- SHL / SHR r, imm8 (32- and 64-bit operands only): `countMASK := (64-bit operand) ? 3FH : 1FH;
     tempCOUNT := COUNT AND countMASK; WHILE tempCOUNT ≠ 0: CF := MSB(DEST) / LSB(DEST); DEST := DEST * 2 / DEST div 2`;
     so CF = the last bit shifted out; flags unchanged if `tempCOUNT = 0`, else ZF reflects the result -/
  | .shl =>
    (match i.ops with
     | [.gpr d w, .imm k] =>
       if w = .b8 then s.fault else
       let c := if w = .q64 then k % 64 else k % 32
       let a := s.readGpr d w
       let res := trunc w (a <<< UInt64.ofNat c)
       if c = 0 then s.next else
       ({ s.writeGpr d w res with zf := res == 0, cf := (a >>> UInt64.ofNat (w.bits - c)) &&& 1 == 1 }).next
     | _ => s.fault)
  | .shr =>
    (match i.ops with
     | [.gpr d w, .imm k] =>
       if w = .b8 then s.fault else
       let c := if w = .q64 then k % 64 else k % 32
       let a := s.readGpr d w
       let res := a >>> UInt64.ofNat c
       if c = 0 then s.next else
       ({ s.writeGpr d w res with zf := res == 0, cf := (a >>> UInt64.ofNat (c - 1)) &&& 1 == 1 }).next
     | _ => s.fault)
  /- Jcc rel: JZ/JE `ZF = 1`, JNZ/JNE `ZF = 0`, JC/JB `CF = 1`, JNC/JAE `CF = 0`; JMP rel -/
  | .jz => jcc s.zf i.ops s
  | .jnz => jcc (!s.zf) i.ops s
  | .jc => jcc s.cf i.ops s
  | .jnc => jcc (!s.cf) i.ops s
  | .jmp => jcc true i.ops s
  /- RET (near): `RIP := Pop()`: end of the routine (the load of the return address is logged) -/
  | .ret =>
    (match i.ops with
     | [] => { (s.note s.gpr[rsp] 8) with status := .returned, gpr := s.gpr.set rsp (s.gpr[rsp] + 8) }
     | _ => s.fault)

/-- fetch and execute; running off the instruction list is a fault -/
def stepG (A : MemAcc μ) (rb : UInt64) (prog : List Instr) (s : StateG μ) : StateG μ :=
  match s.status with
  | .returned => s
  | .running =>
    match prog[s.pc]? with
    | some i => execG A rb i s
    | none => { s with ok := false, status := .returned }

/-- `n` steps -/
def runG (A : MemAcc μ) (rb : UInt64) (prog : List Instr) : Nat → StateG μ → StateG μ
  | 0, s => s
  | n + 1, s => runG A rb prog n (stepG A rb prog s)

/-! ### THE semantics: the instance at the flat byte memory -/

def exec (rb : UInt64) (i : Instr) (s : State) : State := execG flat rb i s
def step (rb : UInt64) (prog : List Instr) (s : State) : State := stepG flat rb prog s
def run (rb : UInt64) (prog : List Instr) (n : Nat) (s : State) : State := runG flat rb prog n s

end B3.AsmSem.Avx2
