/-
`blake3_compress_xof_avx512` (c/blake3_avx512_x86-64_unix.S): the pieces of B3/Asm/Avx512XofBody.lean
composed along the control flow (22 + 6*50 + 36 + 9 = 367 instructions executed), and the result
related to `Spec.compress`.
-/
import B3.Asm.Avx512CompressProof
import B3.Asm.Avx512XofBody
namespace B3.AsmSem.Avx512.UnixXof
open B3 B3.Simd B3.AsmSem B3.AsmSem.Avx512 B3.Gen.AsmAvx512 B3.AsmSem.Avx512.Unix

theorem prologue_stage (rb : UInt64) (s : State) (hpc : s.pc = 0) (hst : s.status = .running) (hok : s.ok = true)
    (hro : Rodata rb s.mem) :
    view2 (runV rb compress_xof 22 s)
      = atPc 22 (Spec.initState (readWords s.mem s.gpr[rdi] 8) s.gpr[rcx] s.gpr[rdx].toUInt8.toUInt32 s.gpr[r8].toUInt8.toUInt32)
          (readWords s.mem s.gpr[rsi] 16) (gprAfterPrologueXof s) s.mem := by
  have hs := state_eta s hpc hst hok
  obtain ⟨e1, e2⟩ := lenFlagsRaw_words s.gpr[rdx] s.gpr[r8]
  rw [← e1, ← e2]
  rw [hs, prologue_raw, table_IV hro, tables_aligned hro, ← hs, ← cvRaw_eq, ← blockRaw_eq]
  simp only [atPc]
  congr 1

theorem body_stage (rb : UInt64) (s : State) (S W : St) (g : Vector UInt64 16) (m : Memory)
    (h : view2 s = atPc 22 S W g m) :
    view2 (runV rb compress_xof 34 s) = atPc 56 (Spec.round S W) W g m := by
  rw [of_view2 h]
  have := body_raw rb S W s.xmm[8] s.xmm[9] s.xmm[10] s.xmm[11] s.xmm[12] s.xmm[13] s.xmm[14] s.xmm[15] g s.zf m
  rw [roundP_eq _ _ _ _ ror16_eq ror12_eq ror8_eq ror7_eq] at this
  exact this

theorem decjz_stage (rb : UInt64) (s : State) (S W : St) (g : Vector UInt64 16) (m : Memory)
    (h : view2 s = atPc 56 S W g m) :
    view2 (runV rb compress_xof 2 s) = atPc (if g[rax].toUInt8 - 1 == 0 then 72 else 58) S W (decAl g) m := by
  rw [of_view2 h]
  show view2 (stepV rb compress_xof (stepV rb compress_xof _)) = _
  rw [dec_raw, dec_b8_zf]
  cases hz : (g[rax].toUInt8 - 1 == 0)
  · rw [jz_not_taken]; rfl
  · rw [jz_taken]; rfl

theorem perm_stage (rb : UInt64) (s : State) (S W : St) (g : Vector UInt64 16) (m : Memory)
    (h : view2 s = atPc 58 S W g m) :
    view2 (runV rb compress_xof 14 s) = atPc 22 S (Spec.permute W) g m := by
  rw [of_view2 h]
  exact perm_raw rb _ _ _ _ W s.xmm[8] s.xmm[9] s.xmm[10] s.xmm[11] s.xmm[12] s.xmm[13] s.xmm[14] s.xmm[15] g s.zf m

theorem iteration (rb : UInt64) (s : State) (S W : St) (g : Vector UInt64 16) (m : Memory)
    (h : view2 s = atPc 22 S W g m) (hal : (g[rax].toUInt8 - 1 == 0) = false) :
    view2 (runV rb compress_xof 50 s) = atPc 22 (Spec.round S W) (Spec.permute W) (decAl g) m := by
  rw [show 50 = 34 + (2 + 14) from rfl, runV_add, runV_add]
  have h2 := decjz_stage rb _ _ _ _ _ (body_stage rb s S W g m h)
  rw [hal] at h2
  exact perm_stage rb _ _ _ _ _ h2

theorem last_iteration (rb : UInt64) (s : State) (S W : St) (g : Vector UInt64 16) (m : Memory)
    (h : view2 s = atPc 22 S W g m) (hal : (g[rax].toUInt8 - 1 == 0) = true) :
    view2 (runV rb compress_xof 36 s) = atPc 72 (Spec.round S W) W (decAl g) m := by
  rw [show 36 = 34 + 2 from rfl, runV_add]
  have h2 := decjz_stage rb _ _ _ _ _ (body_stage rb s S W g m h)
  rw [hal] at h2
  exact h2

theorem epilogue_stage (rb : UInt64) (s : State) (S W : St) (g : Vector UInt64 16) (m : Memory)
    (h : view2 s = atPc 72 S W g m) :
    (runV rb compress_xof 9 s).status = .returned ∧ (runV rb compress_xof 9 s).ok = true ∧
    (runV rb compress_xof 9 s).mem
      = store128 (store128 (store128 (store128 m (g[r9] + UInt64.ofNat 0) (_mm_xor_si128 (row S 0) (row S 2)))
         (g[r9] + UInt64.ofNat 16) (_mm_xor_si128 (row S 1) (row S 3)))
         (g[r9] + UInt64.ofNat 32) (_mm_xor_si128 (row S 2) (load128 m (g[rdi] + UInt64.ofNat 0))))
         (g[r9] + UInt64.ofNat 48) (_mm_xor_si128 (row S 3) (load128 m (g[rdi] + UInt64.ofNat 16))) ∧
    (runV rb compress_xof 9 s).gpr = g.set rsp (g[rsp] + 8) := by
  rw [of_view2 h]
  exact fields_of_view2 (epilogue_raw rb _ _ _ _ _ _ _ _ s.xmm[8] s.xmm[9] s.xmm[10] s.xmm[11] s.xmm[12] s.xmm[13] s.xmm[14] s.xmm[15]
    g s.zf m)

/-! ### the whole routine -/

/-- from any state at the entry point (367 instructions are executed) -/
theorem run_compress_xof (rb : UInt64) (s : State) (hpc : s.pc = 0) (hst : s.status = .running) (hok : s.ok = true)
    (hro : Rodata rb s.mem) :
    (runV rb compress_xof 367 s).status = .returned ∧
    (runV rb compress_xof 367 s).ok = true ∧
    (runV rb compress_xof 367 s).mem
      = writeBytes s.mem s.gpr[r9] (bytesOfWords (Spec.compress (readWords s.mem s.gpr[rdi] 8) (readWords s.mem s.gpr[rsi] 16)
            s.gpr[rcx] s.gpr[rdx].toUInt8.toUInt32 s.gpr[r8].toUInt8.toUInt32)) ∧
    (runV rb compress_xof 367 s).gpr
      = (dec7 (gprAfterPrologueXof s)).set rsp ((dec7 (gprAfterPrologueXof s))[rsp] + 8) := by
  have h0 := prologue_stage rb s hpc hst hok hro
  have a0 : (gprAfterPrologueXof s)[rax].toUInt8 = 7 := by
    show (merge .b8 _ 7).toUInt8 = 7
    rw [merge_b8_low]; rfl
  have h7 := loop7V view2 rb compress_xof 50 36 (atPc 22) (atPc 72) (iteration rb) (last_iteration rb) _ _ _ _ _ h0 a0
  obtain ⟨e1, e2, e3, e4⟩ := epilogue_stage rb _ _ _ _ _ h7
  rw [show 367 = 22 + ((50 + (50 + (50 + (50 + (50 + (50 + 36)))))) + 9) by omega, runV_add, runV_add]
  refine ⟨e1, e2, ?_, e4⟩
  rw [e3]
  have hrdi : (dec7 (gprAfterPrologueXof s))[rdi] = s.gpr[rdi] := by rw [dec7_ne _ rdi (by decide)]; rfl
  have hr9 : (dec7 (gprAfterPrologueXof s))[r9] = s.gpr[r9] := by rw [dec7_ne _ r9 (by decide)]; rfl
  rw [hrdi, hr9, store4_eq, load_cv_lo, load_cv_hi, xof_bytes, cvRaw_eq]
  rfl

/-! ### main theorems -/

/-- `blake3_compress_xof_avx512(cv, block, block_len, counter, flags, out)` with the System V argument registers
rdi, rsi, rdx, rcx, r8, r9, ANY register contents (only `dl` and `r8b` are read of rdx, r8): after exactly 367
instructions the routine has returned without a fault; memory is the initial memory with the 64 bytes at `out` (r9)
replaced by the 16 words of `Spec.compress cv block counter block_len flags`; `rsp` is popped; every register other
than rax, rdx, rsp is unchanged.  `cv`, `block`, `out` and the tables may overlap arbitrarily (all loads precede the stores). -/
theorem compress_xof_correct (rb : UInt64) (s : State) (h : Unix.Entry rb s) :
    (runV rb compress_xof 367 s).status = .returned ∧
    (runV rb compress_xof 367 s).ok = true ∧
    (runV rb compress_xof 367 s).mem
      = writeBytes s.mem s.gpr[r9] (bytesOfWords (Spec.compress (readWords s.mem s.gpr[rdi] 8) (readWords s.mem s.gpr[rsi] 16)
            s.gpr[rcx] s.gpr[rdx].toUInt8.toUInt32 s.gpr[r8].toUInt8.toUInt32)) ∧
    (runV rb compress_xof 367 s).gpr[rsp] = s.gpr[rsp] + 8 ∧
    ∀ r : Reg, r ≠ rax → r ≠ rdx → r ≠ rsp → (runV rb compress_xof 367 s).gpr[r] = s.gpr[r] := by
  obtain ⟨h1, h2, h3, h4⟩ := run_compress_xof rb s h.pc h.running h.ok h.rodata
  refine ⟨h1, h2, h3, ?_, ?_⟩
  · rw [h4]; exact finalXof_rsp s
  · intro r a b c; rw [h4]; exact finalXof_frame s r a b c

/-- the same, read back: the sixteen words at `out` afterwards, and the frame condition byte by byte -/
theorem compress_xof_correct_words (rb : UInt64) (s : State) (h : Unix.Entry rb s) :
    readWords (runV rb compress_xof 367 s).mem s.gpr[r9] 16
      = Spec.compress (readWords s.mem s.gpr[rdi] 8) (readWords s.mem s.gpr[rsi] 16) s.gpr[rcx]
          s.gpr[rdx].toUInt8.toUInt32 s.gpr[r8].toUInt8.toUInt32 ∧
    ∀ q : UInt64, 64 ≤ (q - s.gpr[r9]).toNat → (runV rb compress_xof 367 s).mem q = s.mem q := by
  obtain ⟨_, _, h3, _⟩ := compress_xof_correct rb s h
  rw [h3]
  refine ⟨readWords_writeBytes16 _ _ _, ?_⟩
  intro q hq
  exact writeBytes_frame _ _ _ _ (by rw [bytesOfWords16_length]; exact hq)

/-- more fuel changes nothing: the routine has returned -/
theorem compress_xof_fuel (rb : UInt64) (s : State) (h : Unix.Entry rb s) (n : Nat) :
    runV rb compress_xof (367 + n) s = runV rb compress_xof 367 s := by
  rw [runV_add]
  exact runV_returned _ _ _ _ (compress_xof_correct rb s h).1

end B3.AsmSem.Avx512.UnixXof
