/- the 2-input tail of `blake3_hash_many_sse41` on the frame machine, composed: the seven rounds counted in `al`, one block
of both inputs, the loop over the blocks -/
import B3.Asm.ManyT2
import B3.Asm.ManyT1Loop
namespace B3.AsmSem.Many
open B3 B3.Simd B3.AsmSem B3.Gen.AsmSse41Many

/-- the machine inside the round loop of the 2-input tail: state rows of A in XMM0-3, of B in XMM8-11, their grouped message
words in XMM4-7 / XMM12-15; slots 0, 1 of the frame hold the counter rows, slots 2..5 anything -/
def T2Rounds (SA WA SB WB : St) (g : Vector UInt64 16) (z c : Bool) (c0 c1 f6 f7 f8 f9 f10 f11 f12 f13 f14 f15 f16 f17 f18 f19 f20 f21 : V4)
    (m : Memory) (pc : Nat) (s : StateG FMem) : Prop :=
  ∃ f2 f3 f4 f5 : V4,
    s = mkS #v[row SA 0, row SA 1, row SA 2, row SA 3, grp0 WA, grp1 WA, grp2 WA, grp3 WA,
               row SB 0, row SB 1, row SB 2, row SB 3, grp0 WB, grp1 WB, grp2 WB, grp3 WB] g z c
      #v[c0, c1, f2, f3, f4, f5, f6, f7, f8, f9, f10, f11, f12, f13, f14, f15, f16, f17, f18, f19, f20, f21] m pc

/-- the machine after the last round (`pc = 1615`): the message registers hold anything -/
def T2Done (SA SB : St) (g : Vector UInt64 16) (z c : Bool) (c0 c1 f6 f7 f8 f9 f10 f11 f12 f13 f14 f15 f16 f17 f18 f19 f20 f21 : V4)
    (m : Memory) (pc : Nat) (s : StateG FMem) : Prop :=
  ∃ x4 x5 x6 x7 x12 x13 x14 x15 f2 f3 f4 f5 : V4,
    s = mkS #v[row SA 0, row SA 1, row SA 2, row SA 3, x4, x5, x6, x7, row SB 0, row SB 1, row SB 2, row SB 3, x12, x13, x14, x15] g z c
      #v[c0, c1, f2, f3, f4, f5, f6, f7, f8, f9, f10, f11, f12, f13, f14, f15, f16, f17, f18, f19, f20, f21] m pc

/-- the rounds of the 2-input tail: with `al = k` at the loop head, `k` rounds on both states lead to 1615 -/
theorem t2_rounds (rb : UInt64) (c0 c1 f6 f7 f8 f9 f10 f11 f12 f13 f14 f15 f16 f17 f18 f19 f20 f21 : V4) (m : Memory) (k : Nat) :
    ∀ (SA WA SB WB : St) (g : Vector UInt64 16) (z c : Bool) (s : StateG FMem), 1 ≤ k → k ≤ 7 → g[rax].toUInt8 = UInt8.ofNat k →
      T2Rounds SA WA SB WB g z c c0 c1 f6 f7 f8 f9 f10 f11 f12 f13 f14 f15 f16 f17 f18 f19 f20 f21 m 1478 s →
      ∃ (n : Nat) (t : StateG FMem) (g' : Vector UInt64 16),
        Run rodata rb hash_many n s [] t ∧
        T2Done (roundsK k SA WA) (roundsK k SB WB) g' true c c0 c1 f6 f7 f8 f9 f10 f11 f12 f13 f14 f15 f16 f17 f18 f19 f20 f21 m 1615 t ∧
        ∀ r : Reg, r ≠ rax → g'[r] = g[r] := by
  induction k with
  | zero => intro SA WA SB WB g z c s h1; omega
  | succ k ih =>
    intro SA WA SB WB g z c s _ hk7 hal hs
    obtain ⟨f2, f3, f4, f5, rfl⟩ := hs
    obtain ⟨j4, h1⟩ := run_of_uview (t2_round_raw rb SA WA SB WB g z c c0 c1 f2 f3 f4 f5 f6 f7 f8 f9 f10 f11 f12 f13 f14 f15 f16 f17 f18
      f19 f20 f21 m)
    rw [roundP_round, roundP_round] at h1
    have h2 := h1.trans_nil (t2_dec rb _ _ _ _ _ _)
    rw [dec_zf g[rax] (k + 1) (by omega) hk7 hal] at h2
    have hal' : (decAl g)[rax].toUInt8 = UInt8.ofNat k := by
      rw [decAl_low, hal, ofNat_pred8 k (by omega)]
    by_cases hk : k = 0
    · subst hk
      have h3 := h2.trans_nil (t2_jz_taken rb _ _ _ _ _)
      exact ⟨_, _, decAl g, h3, ⟨_, _, _, _, _, _, _, _, _, _, _, _, rfl⟩, fun r hr => decAl_ne g r hr⟩
    · have hd : decide (k + 1 = 1) = false := decide_eq_false (by omega)
      rw [hd] at h2
      have h3 := h2.trans_nil (t2_jz_not_taken rb _ _ _ _ _)
      have h4 := h3.trans_nil (t2_perm_raw rb _ _ _ _ _ _ _ _ _ _ _ _ WA WB _ _ _ _ _ _ _ _ _ _ _ _ _ _ _ _ _ _ _ _ _ _)
      rw [eta16_eq, eta16_eq] at h4
      obtain ⟨n, t, g', h5, ht, hg⟩ := ih (Spec.round SA WA) (Spec.permute WA) (Spec.round SB WB) (Spec.permute WB) (decAl g) false c _
        (by omega) (by omega) hal' ⟨_, _, _, _, rfl⟩
      exact ⟨_, t, g', h4.trans_nil h5, ht, fun r hr => (hg r hr).trans (decAl_ne g r hr)⟩


/-! ### one block of both inputs -/

/-- the machine at the block loop head of the 2-input tail (`pc = 1440`) or after it (`pc = 1622`): the chaining values of A / B
in XMM0,1 / XMM8,9, the counter rows in slots 0 / 1 of the frame, the registers that the loop changes (`rax rdx r14`) -/
def T2State (HA HB : CV) (l0 h0 l1 h1 : UInt32) (ax dx : UInt64) (g1 g3 g4 g5 g6 g7 g8 g9 g10 g11 g12 g13 g15 : UInt64)
    (f6 f7 f8 f9 f10 f11 f12 f13 f14 f15 f16 f17 f18 f19 f20 f21 : V4) (m : Memory) (pc : Nat) (s : StateG FMem) : Prop :=
  ∃ (x2 x3 x4 x5 x6 x7 x10 x11 x12 x13 x14 x15 f2 f3 f4 f5 : V4) (j0 j1 : UInt32) (r14 : UInt64) (z c : Bool),
    s = mkS #v[cvRow0 HA, cvRow1 HA, x2, x3, x4, x5, x6, x7, cvRow0 HB, cvRow1 HB, x10, x11, x12, x13, x14, x15]
      #v[ax, g1, dx, g3, g4, g5, g6, g7, g8, g9, g10, g11, g12, g13, r14, g15] z c
      #v[#v[l0, h0, 64, j0], #v[l1, h1, 64, j1], f2, f3, f4, f5, f6, f7, f8, f9, f10, f11, f12, f13, f14, f15, f16, f17, f18, f19, f20, f21] m pc

/-- **one block of the 2-input tail**: instructions 1440..1621 -/
theorem t2_block_iter (rb : UInt64) (HA HB : CV) (l0 h0 l1 h1 : UInt32) (ax dx g1 g3 g4 g5 g6 g7 g8 g9 g10 g11 g12 g13 g15 : UInt64)
    (f6 f7 f8 f9 f10 f11 f12 f13 f14 f15 f16 f17 f18 f19 f20 f21 : V4) (m : Memory) (s : StateG FMem)
    (hs : T2State HA HB l0 h0 l1 h1 ax dx g1 g3 g4 g5 g6 g7 g8 g9 g10 g11 g12 g13 g15 f6 f7 f8 f9 f10 f11 f12 f13 f14 f15 f16 f17 f18 f19 f20 f21 m 1440 s) :
    ∃ (n : Nat) (t : StateG FMem), Run rodata rb hash_many n s (t2HeadLog (g8 + (dx + UInt64.ofNat 64)) (g9 + (dx + UInt64.ofNat 64))) t ∧
      T2State (laneCV HA (blk m (g8 + (dx + UInt64.ofNat 64))) l0 h0 (p0Rax ax g12 (lastBlock dx g15)).toUInt32) (laneCV HB (blk m (g9 + (dx + UInt64.ofNat 64))) l1 h1 (p0Rax ax g12 (lastBlock dx g15)).toUInt32) l0 h0 l1 h1
        (trunc .d32 (trunc .d32 g13)) (dx + UInt64.ofNat 64) g1 g3 g4 g5 g6 g7 g8 g9 g10 g11 g12 g13 g15 f6 f7 f8 f9 f10 f11 f12 f13 f14 f15 f16 f17 f18 f19 f20 f21 m
        (if lastBlock dx g15 then 1622 else 1440) t := by
  obtain ⟨x2, x3, x4, x5, x6, x7, x10, x11, x12, x13, x14, x15, f2, f3, f4, f5, j0, j1, r14, z, c, rfl⟩ := hs
  -- head
  have hhead : Run rodata rb hash_many 38 _ _ _ := t2_head_raw rb (cvRow0 HA) (cvRow1 HA) x2 x3 x4 x5 x6 x7 (cvRow0 HB) (cvRow1 HB)
    x10 x11 x12 x13 x14 x15 l0 h0 64 j0 l1 h1 64 j1 ax g1 dx g3 g4 g5 g6 g7 g8 g9 g10 g11 g12 g13 r14 g15 z c
    f2 f3 f4 f5 f6 f7 f8 f9 f10 f11 f12 f13 f14 f15 f16 f17 f18 f19 f20 f21 m
  -- the seven rounds
  obtain ⟨n, t, g', h2, ⟨y4, y5, y6, y7, y12, y13, y14, y15, e2, e3, e4, e5, rfl⟩, hg⟩ := t2_rounds rb #v[l0, h0, 64, j0] #v[l1, h1, 64, j1]
    f6 f7 f8 f9 f10 f11 f12 f13 f14 f15 f16 f17 f18 f19 f20 f21 m 7
    (initW HA l0 h0 64 (p0Rax ax g12 (lastBlock dx g15)).toUInt32) (blk m (g8 + (dx + UInt64.ofNat 64))) (initW HB l1 h1 64 (p0Rax ax g12 (lastBlock dx g15)).toUInt32) (blk m (g9 + (dx + UInt64.ofNat 64)))
    #v[merge .b8 (p0Rax ax g12 (lastBlock dx g15)) (UInt64.ofNat 7), g1, dx + UInt64.ofNat 64, g3, g4, g5, g6, g7, g8, g9, g10, g11, g12, g13, trunc .d32 (trunc .d32 ax), g15]
    (lastBlock dx g15) (decide (dx + UInt64.ofNat 64 < g15)) _
    (by omega) (by omega) (merge7_low _) ⟨f2, f3, f4, f5, rfl⟩
  rw [roundsK7, roundsK7] at h2
  have hg' : g' = #v[g'[0], g1, dx + UInt64.ofNat 64, g3, g4, g5, g6, g7, g8, g9, g10, g11, g12, g13,
      trunc .d32 (trunc .d32 ax), g15] := by
    have e1 : g'[1] = g1 := hg rcx (by decide)
    have e2 : g'[2] = dx + UInt64.ofNat 64 := hg rdx (by decide)
    have e3 : g'[3] = g3 := hg rbx (by decide)
    have e4 : g'[4] = g4 := hg rsp (by decide)
    have e5 : g'[5] = g5 := hg rbp (by decide)
    have e6 : g'[6] = g6 := hg rsi (by decide)
    have e7 : g'[7] = g7 := hg rdi (by decide)
    have e8 : g'[8] = g8 := hg r8 (by decide)
    have e9 : g'[9] = g9 := hg r9 (by decide)
    have e10 : g'[10] = g10 := hg r10 (by decide)
    have e11 : g'[11] = g11 := hg r11 (by decide)
    have e12 : g'[12] = g12 := hg r12 (by decide)
    have e13 : g'[13] = g13 := hg r13 (by decide)
    have e14 : g'[14] = trunc .d32 (trunc .d32 ax) := hg B3.AsmSem.r14 (by decide)
    have e15 : g'[15] = g15 := hg r15 (by decide)
    conv => lhs; rw [vec16_eta g']
    rw [e1, e2, e3, e4, e5, e6, e7, e8, e9, e10, e11, e12, e13, e14, e15]
  rw [hg'] at h2
  have h3 := (hhead.trans_nil h2).trans_nil (t2_exit_raw rb _ _ _ _ _ _ _ _ _ _ _ _ _ _ _ _ _ _ _ _ _ _ _ _ _ _ _ _ _ _ _ _ _ _ _ _)
  rw [t1_sub_zero, (xor_rows _).1, (xor_rows _).2, (xor_rows _).1, (xor_rows _).2] at h3
  cases hl : lastBlock dx g15 with
  | false =>
    rw [hl] at h3
    have h4 := h3.trans_nil (t2_jnz_taken rb _ _ _ _ _)
    exact ⟨_, _, h4, _, _, _, _, _, _, _, _, _, _, _, _, _, _, _, _, _, _, _, _, _, rfl⟩
  | true =>
    rw [hl] at h3
    have h4 := h3.trans_nil (t2_jnz_not_taken rb _ _ _ _ _)
    exact ⟨_, _, h4, _, _, _, _, _, _, _, _, _, _, _, _, _, _, _, _, _, _, _, _, _, rfl⟩

/-! ### the loop over the blocks -/

/-- the loads of the remaining `n` blocks of both inputs -/
def t2LoopLog (p q : UInt64) : Nat → Nat → List Ref
  | 0, _ => []
  | n + 1, j => t2HeadLog (p + UInt64.ofNat (64 * (j + 1))) (q + UInt64.ofNat (64 * (j + 1))) ++ t2LoopLog p q n (j + 1)

/-- **the block loop of the 2-input tail** -/
theorem t2_loop (rb : UInt64) (B : Nat) (hB : 64 * B < 2 ^ 64) (l0 h0 l1 h1 : UInt32) (g1 g3 g4 g5 g6 g7 g8 g9 g10 g11 g12 g13 : UInt64)
    (f6 f7 f8 f9 f10 f11 f12 f13 f14 f15 f16 f17 f18 f19 f20 f21 : V4) (m : Memory) (n : Nat) :
    ∀ (j : Nat) (_ : j + n = B) (_ : 0 < n) (HA HB : CV) (ax : UInt64) (s : StateG FMem),
      T2State HA HB l0 h0 l1 h1 ax (UInt64.ofNat (64 * j)) g1 g3 g4 g5 g6 g7 g8 g9 g10 g11 g12 g13 (UInt64.ofNat (64 * B))
        f6 f7 f8 f9 f10 f11 f12 f13 f14 f15 f16 f17 f18 f19 f20 f21 m 1440 s →
      ∃ (k : Nat) (t : StateG FMem), Run rodata rb hash_many k s (t2LoopLog g8 g9 n j) t ∧
        T2State (loopCV m g8 l0 h0 g13.toUInt32 g12.toUInt32 B n j ax.toUInt32 HA)
          (loopCV m g9 l1 h1 g13.toUInt32 g12.toUInt32 B n j ax.toUInt32 HB) l0 h0 l1 h1 (trunc .d32 (trunc .d32 g13))
          (UInt64.ofNat (64 * B)) g1 g3 g4 g5 g6 g7 g8 g9 g10 g11 g12 g13 (UInt64.ofNat (64 * B)) f6 f7 f8 f9 f10 f11 f12 f13 f14 f15 f16 f17 f18 f19 f20 f21 m 1622 t := by
  induction n with
  | zero => intro j _ h0; omega
  | succ n ih =>
    intro j hj _ HA HB ax s hs
    obtain ⟨k1, t1, hrun, ht1⟩ := t2_block_iter rb HA HB l0 h0 l1 h1 ax (UInt64.ofNat (64 * j)) g1 g3 g4 g5 g6 g7 g8 g9 g10 g11 g12 g13
      (UInt64.ofNat (64 * B)) f6 f7 f8 f9 f10 f11 f12 f13 f14 f15 f16 f17 f18 f19 f20 f21 m s hs
    rw [lastBlock_eq B j hB (by omega), ofNat_add_64, p0Rax_toUInt32] at ht1
    rw [ofNat_add_64] at hrun
    by_cases hlast : j + 1 = B
    · have hn : n = 0 := by omega
      subst hn
      subst hlast
      simp only [decide_true, if_true] at ht1
      refine ⟨k1, t1, ?_, ?_⟩
      · show Run rodata rb hash_many k1 s (t2HeadLog _ _ ++ []) t1
        rw [List.append_nil]
        exact hrun
      · simp only [loopCV, if_true]
        exact ht1
    · simp only [hlast, decide_false, Bool.false_eq_true, if_false] at ht1
      obtain ⟨k2, t2, hrun2, ht2⟩ := ih (j + 1) (by omega) (by omega) _ _ _ t1 ht1
      refine ⟨k1 + k2, t2, hrun.trans hrun2, ?_⟩
      simp only [loopCV, hlast, if_false]
      simp only [trunc_d32_toUInt32] at ht2
      exact ht2

end B3.AsmSem.Many
