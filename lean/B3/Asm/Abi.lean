import B3.Asm.Machine

/-!
# Soundness of the calling-convention checker `abiOk`

`B3/Asm/Machine.lean` has the machine (registers, DF, symbolic-fragment stack memory, step relation `Step`/`Exec`),
the abstract domain and the executable checker.  This file proves

  `abiOk conv R = true →` every execution of `R` from its entry that reaches a `ret` ends with
  `rsp = entry rsp + 8`, `DF = entry DF` and all callee-saved registers of `conv` restored
  (`abiOk_sound`), and on the way DF never changes and control stays inside the routine (`abiOk_safe`).

The proof is an induction over the execution; the invariant (`CInv`) says that the concrete state is described by an
abstract state from which the remaining instructions of the current block pass the checker.
-/

namespace B3.Asm

/-! ### Bool tests -/

theorem Reg.beq_iff {a b : Reg} : a.beq b = true ↔ a = b := by
  cases a <;> cases b <;> simp [Reg.beq]

theorem Reg.beq_self (a : Reg) : a.beq a = true := Reg.beq_iff.mpr rfl

theorem Reg.beq_false_iff {a b : Reg} : a.beq b = false ↔ a ≠ b := by
  constructor
  · intro h e; rw [Reg.beq_iff.mpr e] at h; cases h
  · intro h
    cases hb : a.beq b with
    | false => rfl
    | true => exact absurd (Reg.beq_iff.mp hb) h

theorem memR_iff {rs : List Reg} {q : Reg} : memR rs q = true ↔ q ∈ rs := by
  induction rs with
  | nil => simp [memR]
  | cons r t ih =>
      simp only [memR, Bool.or_eq_true, ih, Reg.beq_iff, List.mem_cons]
      constructor
      · rintro (h | h)
        · exact Or.inl h.symm
        · exact Or.inr h
      · rintro (h | h)
        · exact Or.inl h.symm
        · exact Or.inr h

theorem AVal.eq_of_beq {a b : AVal} (h : a.beq b = true) : a = b := by
  cases a <;> cases b <;> simp [AVal.beq, Reg.beq_iff] at h <;> simp [h]

theorem Slot.eq_of_beq {a b : Slot} (h : a.beq b = true) : a = b := by
  cases a; cases b
  simp [Slot.beq, Reg.beq_iff] at h
  obtain ⟨⟨h1, h2⟩, h3⟩ := h
  simp [AVal.eq_of_beq h1, h2, h3]

theorem optBeq_eq {a b : Option Int} (h : optBeq a b = true) : a = b := by
  cases a <;> cases b <;> simp [optBeq] at h <;> simp [h]

theorem AVal.isTop_eq {v : AVal} (h : v.isTop = true) : v = .top := by
  cases v <;> simp [AVal.isTop] at h; rfl

/-! ### association lists -/

theorem getR_putR_ne (l : List (Reg × AVal)) {r r0 : Reg} (nv : AVal) (h : r ≠ r0) :
    getR (putR l r0 nv) r = getR l r := by
  induction l with
  | nil => rfl
  | cons p t ih =>
      obtain ⟨q, v⟩ := p
      by_cases hq : q.beq r0 = true
      · have : q = r0 := Reg.beq_iff.mp hq
        have hqr : q.beq r = false := Reg.beq_false_iff.mpr (by rw [this]; exact fun e => h e.symm)
        simp [putR, getR, hq, hqr, ih]
      · have hq' : q.beq r0 = false := by simpa using hq
        simp [putR, getR, hq', ih]

theorem getR_putR_self (l : List (Reg × AVal)) (r : Reg) (nv : AVal) :
    getR (putR l r nv) r = nv ∨ getR (putR l r nv) r = .top := by
  induction l with
  | nil => right; rfl
  | cons p t ih =>
      obtain ⟨q, v⟩ := p
      by_cases hq : q.beq r = true
      · left; simp [putR, getR, hq]
      · have hq' : q.beq r = false := by simpa using hq
        simpa [putR, getR, hq'] using ih

theorem getR_havocR_mem (l : List (Reg × AVal)) {rs : List Reg} {r : Reg} (h : memR rs r = true) :
    getR (havocR l rs) r = .top := by
  induction l with
  | nil => rfl
  | cons p t ih =>
      obtain ⟨q, v⟩ := p
      by_cases hq : q.beq r = true
      · have : q = r := Reg.beq_iff.mp hq
        subst this
        simp [havocR, h, getR, hq]
      · have hq' : q.beq r = false := by simpa using hq
        by_cases hm : memR rs q = true
        · simp [havocR, hm, getR, hq', ih]
        · have hm' : memR rs q = false := by simpa using hm
          simp [havocR, hm', getR, hq', ih]

theorem getR_havocR_not_mem (l : List (Reg × AVal)) {rs : List Reg} {r : Reg} (h : memR rs r = false) :
    getR (havocR l rs) r = getR l r := by
  induction l with
  | nil => rfl
  | cons p t ih =>
      obtain ⟨q, v⟩ := p
      by_cases hq : q.beq r = true
      · have : q = r := Reg.beq_iff.mp hq
        subst this
        simp [havocR, h, getR, hq]
      · have hq' : q.beq r = false := by simpa using hq
        by_cases hm : memR rs q = true
        · simp [havocR, hm, getR, hq', ih]
        · have hm' : memR rs q = false := by simpa using hm
          simp [havocR, hm', getR, hq', ih]

theorem getR_scrubR (l : List (Reg × AVal)) (r : Reg) : getR (scrubR l) r = (getR l r).scrub := by
  induction l with
  | nil => rfl
  | cons p t ih =>
      obtain ⟨q, v⟩ := p
      by_cases hq : q.beq r = true
      · simp [scrubR, getR, hq]
      · have hq' : q.beq r = false := by simpa using hq
        simp [scrubR, getR, hq', ih]

theorem allTop_mem {l : List (Reg × AVal)} {rs : List Reg} (h : allTop l rs = true) {r : Reg} (hr : r ∈ rs) :
    getR l r = .top := by
  induction rs with
  | nil => cases hr
  | cons q t ih =>
      simp [allTop] at h
      cases hr with
      | head => exact AVal.isTop_eq h.1
      | tail _ hm => exact ih h.2 hm

theorem getR_initRegs (l : List Reg) (r : Reg) : getR (initRegs l) r = .orig r ∨ getR (initRegs l) r = .top := by
  induction l with
  | nil => right; rfl
  | cons q t ih =>
      by_cases hq : q.beq r = true
      · have : q = r := Reg.beq_iff.mp hq
        subst this
        left; simp [initRegs, getR, hq]
      · have hq' : q.beq r = false := by simpa using hq
        simpa [initRegs, getR, hq'] using ih

theorem mem_filterS {p : Slot → Bool} {l : List Slot} {sl : Slot} (h : sl ∈ filterS p l) : sl ∈ l ∧ p sl = true := by
  induction l with
  | nil => cases h
  | cons s t ih =>
      by_cases hp : p s = true
      · simp [filterS, hp] at h
        rcases h with h | h
        · subst h; exact ⟨List.mem_cons_self, hp⟩
        · exact ⟨List.mem_cons_of_mem _ (ih h).1, (ih h).2⟩
      · have hp' : p s = false := by simpa using hp
        simp [filterS, hp'] at h
        exact ⟨List.mem_cons_of_mem _ (ih h).1, (ih h).2⟩

theorem allS_mem {p : Slot → Bool} {l : List Slot} (h : allS p l = true) {sl : Slot} (hm : sl ∈ l) : p sl = true := by
  induction l with
  | nil => cases hm
  | cons s t ih =>
      simp [allS] at h
      cases hm with
      | head => exact h.1
      | tail _ hm => exact ih h.2 hm

theorem mem_keepS {p : Slot → Bool} {l : List Slot} {sl : Slot} (h : sl ∈ keepS p l) : sl ∈ l ∧ p sl = true := by
  unfold keepS at h
  by_cases ha : allS p l = true
  · rw [if_pos ha] at h; exact ⟨h, allS_mem ha h⟩
  · rw [if_neg ha] at h; exact mem_filterS h

theorem memS_mem {l : List Slot} {sl : Slot} (h : memS l sl = true) : sl ∈ l := by
  induction l with
  | nil => simp [memS] at h
  | cons s t ih =>
      simp [memS] at h
      rcases h with h | h
      · rw [Slot.eq_of_beq h]; exact List.mem_cons_self
      · exact List.mem_cons_of_mem _ (ih h)

/-! ### concretisation -/

/-- `x` is described by the abstract value (entry state `s0`, aligned base `A`) -/
def valOk (s0 : St) (A : Int) : AVal → Int → Prop
  | .orig q, x => x = s0.reg q
  | .ptrE d, x => x = s0.reg rsp + d
  | .ptrA d, x => x = A + d
  | .top, _ => True

theorem valOk_shift {s0 : St} {A : Int} {v : AVal} {x : Int} (k : Int) (h : valOk s0 A v x) :
    valOk s0 A (v.shift k) (x + k) := by
  cases v with
  | orig q =>
      by_cases hk : k = 0
      · subst hk; simpa [AVal.shift, valOk] using h
      · simp [AVal.shift, hk, valOk]
  | ptrE d => simp [AVal.shift, valOk] at *; omega
  | ptrA d => simp [AVal.shift, valOk] at *; omega
  | top => trivial

theorem valOk_scrub {s0 : St} {A A' : Int} {v : AVal} {x : Int} (h : valOk s0 A v x) : valOk s0 A' v.scrub x := by
  cases v <;> simp_all [AVal.scrub, valOk]

theorem valOk_isE {s0 : St} {A A' : Int} {v : AVal} {x : Int} (he : v.isE = true) (h : valOk s0 A v x) :
    valOk s0 A' v x := by
  cases v <;> simp_all [AVal.isE, valOk]

theorem valOk_unique {s0 : St} {A : Int} {v : AVal} {x y : Int} (hp : v.isPtr = true) (hx : valOk s0 A v x)
    (hy : valOk s0 A v y) : x = y := by
  cases v <;> simp_all [AVal.isPtr, valOk]

theorem ptrLe_sound {s0 : St} {A : Int} {t : Option Int} (ht : ∀ t', t = some t' → A ≤ s0.reg rsp + t')
    {p q : AVal} {x y : Int} (hp : valOk s0 A p x) (hq : valOk s0 A q y) (h : ptrLe t p q = true) : x ≤ y := by
  cases p <;> cases q <;> simp [ptrLe, valOk] at h hp hq
  · omega
  · cases t with
    | none => simp at h
    | some t' =>
        simp at h
        have := ht t' rfl
        omega
  · omega

/-- the abstract state `a` describes the concrete state `s` (entry state `s0`, aligned base `A`) -/
structure Inv (s0 : St) (A : Int) (a : AState) (s : St) : Prop where
  regs : ∀ r, valOk s0 A (getR a.regs r) (s.reg r)
  df : s.df = s0.df
  atop : ∀ t, a.aTop = some t → A ≤ s0.reg rsp + t
  slots : ∀ sl, sl ∈ a.slots → ∃ x, valOk s0 A sl.addr x ∧ s.reg rsp ≤ x ∧ x + sl.w ≤ s0.reg rsp ∧
            holds s.mem x sl.w (s0.reg sl.r)

theorem St.set_reg_self (s : St) (r : Reg) (v : Int) : (s.set r v).reg r = v := by simp [St.set]

theorem St.set_reg_ne (s : St) {r q : Reg} (v : Int) (h : q ≠ r) : (s.set r v).reg q = s.reg q := by
  simp [St.set, h]

/-! ### soundness of the transfer functions -/

theorem xferCore_sound {s0 : St} {A : Int} {a a' : AState} {s s' : St} {i : Instr}
    (hI : Inv s0 A a s) (hx : xferCore a i = some a') (hs : IStep (s0.reg rsp) i s s') :
    ∃ A', Inv s0 A' a' s' := by
  cases hs with
  | lea _ dst base k =>
      simp only [xferCore] at hx
      have hv := valOk_shift k (hI.regs base)
      by_cases hd : dst.beq rsp = true
      · have hdst : dst = rsp := Reg.beq_iff.mp hd
        rw [if_pos hd] at hx
        by_cases hp : ((getR a.regs base).shift k).isPtr = true
        · rw [if_pos hp] at hx
          cases hx
          refine ⟨A, ⟨?_, hI.df, hI.atop, ?_⟩⟩
          · intro r
            by_cases hr : r = rsp
            · subst hr
              rw [hdst, St.set_reg_self]
              rcases getR_putR_self a.regs rsp ((getR a.regs base).shift k) with e | e <;> simp only [setRsp, e]
              · exact hv
              · trivial
            · simp only [setRsp]
              rw [getR_putR_ne _ _ hr, hdst, St.set_reg_ne _ _ hr]
              exact hI.regs r
          · intro sl hsl
            obtain ⟨hm, hle⟩ := mem_keepS hsl
            obtain ⟨x, h1, _, h3, h4⟩ := hI.slots sl hm
            refine ⟨x, h1, ?_, h3, h4⟩
            rw [hdst, St.set_reg_self]
            exact ptrLe_sound hI.atop hv h1 hle
        · rw [if_neg hp] at hx; cases hx
      · rw [if_neg hd] at hx
        have hdst : dst ≠ rsp := fun e => hd (Reg.beq_iff.mpr e)
        cases hx
        refine ⟨A, ⟨?_, hI.df, hI.atop, ?_⟩⟩
        · intro r
          by_cases hr : r = dst
          · subst hr
            rw [St.set_reg_self]
            rcases getR_putR_self a.regs r ((getR a.regs base).shift k) with e | e <;> simp only [e]
            · exact hv
            · trivial
          · simp only
            rw [getR_putR_ne _ _ hr, St.set_reg_ne _ _ hr]
            exact hI.regs r
        · intro sl hsl
          obtain ⟨x, h1, h2, h3, h4⟩ := hI.slots sl hsl
          refine ⟨x, h1, ?_, h3, h4⟩
          rw [St.set_reg_ne _ _ (Ne.symm hdst)]
          exact h2
  | andRsp _ n v h1 h2 =>
      simp only [xferCore] at hx
      have hr := hI.regs rsp
      split at hx
      · next d hg ht =>
          cases hx
          rw [hg] at hr
          simp only [valOk] at hr
          refine ⟨v, ⟨?_, hI.df, ?_, ?_⟩⟩
          · intro r
            by_cases hrr : r = rsp
            · subst hrr
              rw [St.set_reg_self]
              rcases getR_putR_self (scrubR a.regs) rsp (.ptrA 0) with e | e <;> simp only [e]
              · simp [valOk]
              · trivial
            · simp only
              rw [getR_putR_ne _ _ hrr, St.set_reg_ne _ _ hrr, getR_scrubR]
              exact valOk_scrub (hI.regs r)
          · intro t ht'
            simp only [Option.some.injEq] at ht'
            omega
          · intro sl hsl
            obtain ⟨hm, hp⟩ := mem_filterS hsl
            simp only [Bool.and_eq_true] at hp
            obtain ⟨x, hx1, _, hx3, hx4⟩ := hI.slots sl hm
            have hx1' : valOk s0 v sl.addr x := valOk_isE hp.1 hx1
            refine ⟨x, hx1', ?_, hx3, hx4⟩
            rw [St.set_reg_self]
            have hat : ∀ t', some d = some t' → v ≤ s0.reg rsp + t' := by
              intro t' e
              simp only [Option.some.injEq] at e
              omega
            have hv0 : valOk s0 v (.ptrA 0) v := by simp [valOk]
            exact ptrLe_sound hat hv0 hx1' hp.2
      · cases hx
  | store _ base off w src m' hw hh =>
      simp only [xferCore] at hx
      have hv := valOk_shift off (hI.regs base)
      by_cases hp : ((getR a.regs base).shift off).isPtr = true
      · rw [if_pos hp] at hx
        -- the surviving old slots
        have hkept : ∀ sl, sl ∈ keepS (fun sl => ptrLe a.aTop (sl.addr.shift sl.w) ((getR a.regs base).shift off) ||
              ptrLe a.aTop (((getR a.regs base).shift off).shift w) sl.addr) a.slots →
            ∃ x, valOk s0 A sl.addr x ∧ s.reg rsp ≤ x ∧ x + sl.w ≤ s0.reg rsp ∧ holds m' x sl.w (s0.reg sl.r) := by
          intro sl hsl
          obtain ⟨hm, hk⟩ := mem_keepS hsl
          obtain ⟨x, h1, h2, h3, h4⟩ := hI.slots sl hm
          refine ⟨x, h1, h2, h3, ?_⟩
          intro i hi
          rw [← h4 i hi]
          apply hw
          simp only [Bool.or_eq_true] at hk
          rcases hk with hk | hk
          · have := ptrLe_sound hI.atop (valOk_shift (sl.w : Int) h1) hv hk
            left; omega
          · have := ptrLe_sound hI.atop (valOk_shift (w : Int) hv) h1 hk
            right; omega
        have hbase : ∀ sls, (∀ sl, sl ∈ sls → ∃ x, valOk s0 A sl.addr x ∧ s.reg rsp ≤ x ∧ x + sl.w ≤ s0.reg rsp ∧
              holds m' x sl.w (s0.reg sl.r)) → Inv s0 A { a with slots := sls } { s with mem := m' } :=
          fun sls h => ⟨hI.regs, hI.df, hI.atop, h⟩
        cases src with
        | none =>
            simp only at hx
            cases hx
            exact ⟨A, hbase _ hkept⟩
        | some r =>
            simp only at hx
            split at hx
            · next q hq =>
                split at hx
                · next hc =>
                    cases hx
                    simp only [Bool.and_eq_true] at hc
                    refine ⟨A, hbase _ ?_⟩
                    intro sl hsl
                    cases hsl with
                    | head =>
                        refine ⟨s.reg base + off, hv, ?_, ?_, ?_⟩
                        · exact ptrLe_sound hI.atop (hI.regs rsp) hv hc.1
                        · have h0 : valOk s0 A (.ptrE 0) (s0.reg rsp) := by simp [valOk]
                          exact ptrLe_sound hI.atop (valOk_shift (w : Int) hv) h0 hc.2
                        · have hr := hI.regs r
                          rw [hq] at hr
                          simp only [valOk] at hr
                          rw [← hr]
                          exact hh r rfl
                    | tail _ hm => exact hkept sl hm
                · cases hx
                  exact ⟨A, hbase _ hkept⟩
            · cases hx
              exact ⟨A, hbase _ hkept⟩
      · rw [if_neg hp] at hx; cases hx
  | load _ dst base off v hl =>
      simp only [xferCore] at hx
      by_cases hd : dst.beq rsp = true
      · rw [if_pos hd] at hx; cases hx
      · rw [if_neg hd] at hx
        have hdst : dst ≠ rsp := fun e => hd (Reg.beq_iff.mpr e)
        cases hx
        have hv := valOk_shift off (hI.regs base)
        -- the abstract value of the loaded data
        have hval : valOk s0 A (if ((getR a.regs base).shift off).isPtr = true
            then findSlot a.slots ((getR a.regs base).shift off) dst.width else AVal.top) v := by
          by_cases hp : ((getR a.regs base).shift off).isPtr = true
          · rw [if_pos hp]
            have : ∀ sls : List Slot, (∀ sl, sl ∈ sls → sl ∈ a.slots) →
                valOk s0 A (findSlot sls ((getR a.regs base).shift off) dst.width) v := by
              intro sls
              induction sls with
              | nil => intro _; trivial
              | cons sl t ih =>
                  intro hsub
                  by_cases hc : (sl.addr.beq ((getR a.regs base).shift off) && Nat.beq sl.w dst.width) = true
                  · simp only [findSlot, hc, if_true]
                    simp only [Bool.and_eq_true] at hc
                    have hwd : sl.w = dst.width := Nat.eq_of_beq_eq_true hc.2
                    obtain ⟨x, h1, _, _, h4⟩ := hI.slots sl (hsub sl List.mem_cons_self)
                    rw [AVal.eq_of_beq hc.1] at h1
                    have hxe : x = s.reg base + off := valOk_unique hp h1 hv
                    rw [hxe, hwd] at h4
                    simp only [valOk]
                    exact hl _ h4
                  · have hc' : (sl.addr.beq ((getR a.regs base).shift off) && Nat.beq sl.w dst.width) = false :=
                      Bool.eq_false_iff.mpr hc
                    simp only [findSlot, hc']
                    exact ih (fun s' hs' => hsub s' (List.mem_cons_of_mem _ hs'))
            exact this a.slots (fun _ h => h)
          · rw [if_neg hp]; trivial
        refine ⟨A, ⟨?_, hI.df, hI.atop, ?_⟩⟩
        · intro r
          by_cases hr : r = dst
          · subst hr
            rw [St.set_reg_self]
            rcases getR_putR_self a.regs r (if ((getR a.regs base).shift off).isPtr = true
              then findSlot a.slots ((getR a.regs base).shift off) r.width else AVal.top) with e | e <;> simp only [e]
            · exact hval
            · trivial
          · simp only
            rw [getR_putR_ne _ _ hr, St.set_reg_ne _ _ hr]
            exact hI.regs r
        · intro sl hsl
          obtain ⟨x, h1, h2, h3, h4⟩ := hI.slots sl hsl
          refine ⟨x, h1, ?_, h3, h4⟩
          rw [St.set_reg_ne _ _ (Ne.symm hdst)]
          exact h2
  | std => simp [xferCore] at hx
  | cld => simp [xferCore] at hx
  | havoc _ _ rs hreg hdf hmem =>
      simp only [xferCore] at hx
      by_cases hm : memR rs rsp = true
      · rw [if_pos hm] at hx; cases hx
      · rw [if_neg hm] at hx
        have hrsp : rsp ∉ rs := fun h => hm (memR_iff.mpr h)
        have hslots : ∀ sl, sl ∈ a.slots → ∃ x, valOk s0 A sl.addr x ∧ s'.reg rsp ≤ x ∧ x + sl.w ≤ s0.reg rsp ∧
            holds s'.mem x sl.w (s0.reg sl.r) := by
          intro sl hsl
          obtain ⟨x, h1, h2, h3, h4⟩ := hI.slots sl hsl
          refine ⟨x, h1, ?_, h3, ?_⟩
          · rw [hreg rsp hrsp]; exact h2
          · intro i hi
            rw [← h4 i hi]
            apply hmem <;> omega
        by_cases ht : allTop a.regs rs = true
        · rw [if_pos ht] at hx
          cases hx
          refine ⟨A, ⟨?_, hdf.trans hI.df, hI.atop, hslots⟩⟩
          intro r
          by_cases hr : r ∈ rs
          · rw [allTop_mem ht hr]; trivial
          · rw [hreg r hr]; exact hI.regs r
        · rw [if_neg ht] at hx
          cases hx
          refine ⟨A, ⟨?_, hdf.trans hI.df, hI.atop, hslots⟩⟩
          intro r
          by_cases hr : r ∈ rs
          · simp only
            rw [getR_havocR_mem _ (memR_iff.mpr hr)]; trivial
          · simp only
            have : memR rs r = false := by
              cases h : memR rs r
              · rfl
              · exact absurd (memR_iff.mp h) hr
            rw [getR_havocR_not_mem _ this, hreg r hr]
            exact hI.regs r
  | push _ s1 _ r h1 h2 => simp [xferCore] at hx
  | pop _ s1 _ r h1 h2 => simp [xferCore] at hx

theorem xfer_sound {s0 : St} {A : Int} {a a' : AState} {s s' : St} {i : Instr}
    (hI : Inv s0 A a s) (hx : xfer a i = some a') (hs : IStep (s0.reg rsp) i s s') :
    ∃ A', Inv s0 A' a' s' := by
  cases i with
  | push r =>
      cases hs with
      | push _ s1 _ _ h1 h2 =>
          simp only [xfer] at hx
          split at hx
          · cases hx
          · split at hx
            · next a1 ha1 =>
                obtain ⟨A1, hI1⟩ := xferCore_sound hI ha1 h1
                exact xferCore_sound hI1 hx h2
            · cases hx
  | pop r =>
      cases hs with
      | pop _ s1 _ _ h1 h2 =>
          simp only [xfer] at hx
          split at hx
          · next a1 ha1 =>
              obtain ⟨A1, hI1⟩ := xferCore_sound hI ha1 h1
              exact xferCore_sound hI1 hx h2
          · cases hx
  | lea _ _ _ => exact xferCore_sound hI (by simpa [xfer] using hx) hs
  | andRsp _ => exact xferCore_sound hI (by simpa [xfer] using hx) hs
  | store _ _ _ _ => exact xferCore_sound hI (by simpa [xfer] using hx) hs
  | load _ _ _ => exact xferCore_sound hI (by simpa [xfer] using hx) hs
  | std => exact xferCore_sound hI (by simpa [xfer] using hx) hs
  | cld => exact xferCore_sound hI (by simpa [xfer] using hx) hs
  | havoc _ => exact xferCore_sound hI (by simpa [xfer] using hx) hs

/-! ### order on abstract states -/

theorem leRegs_sound {la lb : List (Reg × AVal)} (h : leRegs la lb = true) (r : Reg) :
    getR lb r = .top ∨ getR la r = getR lb r := by
  induction lb with
  | nil => left; rfl
  | cons p t ih =>
      obtain ⟨q, v⟩ := p
      simp only [leRegs, Bool.and_eq_true, Bool.or_eq_true] at h
      by_cases hq : q.beq r = true
      · have : q = r := Reg.beq_iff.mp hq
        subst this
        simp only [getR, hq, if_true]
        rcases h.1 with h1 | h1
        · left; exact AVal.isTop_eq h1
        · right; exact AVal.eq_of_beq h1
      · have hq' : q.beq r = false := by simpa using hq
        simp only [getR, hq']
        exact ih h.2

theorem leA_sound {s0 : St} {A : Int} {a b : AState} {s : St} (h : leA a b = true) (hI : Inv s0 A a s) :
    Inv s0 A b s := by
  simp only [leA, Bool.and_eq_true] at h
  obtain ⟨⟨h1, h2⟩, h3⟩ := h
  refine ⟨?_, hI.df, ?_, ?_⟩
  · intro r
    rcases leRegs_sound h1 r with e | e
    · rw [e]; trivial
    · rw [← e]; exact hI.regs r
  · intro t ht
    apply hI.atop
    rw [optBeq_eq h3]; exact ht
  · intro sl hsl
    exact hI.slots sl (memS_mem (allS_mem h2 hsl))

/-! ### the invariant of executions -/

theorem getInv_verifyAux {conv : Conv} {inv : InvMap} {n : Nat} {bs : List Block} {k : Nat}
    (h : verifyAux conv inv n bs k = true) {i : Nat} {blk : Block} {a : AState}
    (hb : bs[i]? = some blk) (ha : getInv inv (k + i) = some a) :
    restOk conv inv n a blk.body blk.term = true := by
  induction bs generalizing k i with
  | nil => simp at hb
  | cons b t ih =>
      simp only [verifyAux, Bool.and_eq_true] at h
      cases i with
      | zero =>
          simp only [List.getElem?_cons_zero, Option.some.injEq] at hb
          subst hb
          have := h.1
          simp only [Nat.add_zero] at ha
          rw [ha] at this
          exact this
      | succ j =>
          simp only [List.getElem?_cons_succ] at hb
          have ha' : getInv inv (k + 1 + j) = some a := by
            have : k + 1 + j = k + (j + 1) := by omega
            rw [this]; exact ha
          exact ih h.2 hb ha'

theorem allT_mem {p : Nat → Bool} {l : List Nat} (h : allT p l = true) {t : Nat} (ht : t ∈ l) : p t = true := by
  induction l with
  | nil => cases ht
  | cons x xs ih =>
      simp only [allT, Bool.and_eq_true] at h
      cases ht with
      | head => exact h.1
      | tail _ hm => exact ih h.2 hm

theorem termOk_succ {conv : Conv} {inv : InvMap} {n : Nat} {a : AState} {tm : Term}
    (h : termOk conv inv n a tm = true) {t : Nat} (ht : t ∈ tm.succs) : targetOk inv n a t = true := by
  cases tm with
  | ret => simp [Term.succs] at ht
  | jmp x => exact allT_mem (by simpa [termOk] using h) ht
  | jcc x y => exact allT_mem (by simpa [termOk] using h) ht
  | fall x => exact allT_mem (by simpa [termOk] using h) ht

/-- what the final state of a returning execution must satisfy -/
def AbiPost (conv : Conv) (s0 s : St) : Prop :=
  s.reg rsp = s0.reg rsp + 8 ∧ s.df = s0.df ∧ ∀ q, q ∈ conv.saved → s.reg q = s0.reg q

/-- invariant of configurations -/
def CInv (conv : Conv) (R : Routine) (inv : InvMap) (s0 : St) : Cfg → Prop
  | .run b rest s => ∃ blk a A, R.blocks[b]? = some blk ∧ Inv s0 A a s ∧
      restOk conv inv R.blocks.length a rest blk.term = true
  | .done s => AbiPost conv s0 s

theorem savedOk_mem {l : List (Reg × AVal)} {qs : List Reg} (h : savedOk l qs = true) {q : Reg} (hq : q ∈ qs) :
    getR l q = .orig q := by
  induction qs with
  | nil => cases hq
  | cons x xs ih =>
      simp only [savedOk, Bool.and_eq_true] at h
      cases hq with
      | head => exact AVal.eq_of_beq h.1
      | tail _ hm => exact ih h.2 hm

theorem CInv_step {conv : Conv} {R : Routine} {inv : InvMap} {s0 : St}
    (hv : verifyAux conv inv R.blocks.length R.blocks 0 = true) {c c' : Cfg}
    (hc : CInv conv R inv s0 c) (hs : Step R (s0.reg rsp) c c') : CInv conv R inv s0 c' := by
  cases hs with
  | @instr b i rest s s' hi =>
      obtain ⟨blk, a, A, hb, hI, hr⟩ := hc
      simp only [restOk, foldX] at hr
      split at hr
      · next a2 h2 =>
          split at h2
          · next a1 h1 =>
              obtain ⟨A', hI'⟩ := xfer_sound hI h1 hi
              refine ⟨blk, a1, A', hb, hI', ?_⟩
              simp only [restOk, h2]
              exact hr
          · cases h2
      · cases hr
  | @ret b blk s hb ht =>
      obtain ⟨blk', a, A, hb', hI, hr⟩ := hc
      rw [hb] at hb'
      cases hb'
      simp only [restOk, foldX, ht, termOk, retOk, Bool.and_eq_true] at hr
      have hrsp := hI.regs rsp
      rw [AVal.eq_of_beq hr.1] at hrsp
      simp only [valOk] at hrsp
      refine ⟨?_, hI.df, ?_⟩
      · rw [St.set_reg_self]; omega
      · intro q hq
        have hq' := savedOk_mem hr.2 hq
        have hne : q ≠ rsp := by
          intro e
          rw [e, AVal.eq_of_beq hr.1] at hq'
          cases hq'
        rw [St.set_reg_ne _ _ hne]
        have := hI.regs q
        rw [hq'] at this
        exact this
  | @goto b t blk blk' s hb ht hb' =>
      obtain ⟨blk0, a, A, hb0, hI, hr⟩ := hc
      rw [hb] at hb0
      cases hb0
      simp only [restOk, foldX] at hr
      have htg := termOk_succ hr ht
      simp only [targetOk, Bool.and_eq_true] at htg
      split at htg
      · next bt hbt =>
          refine ⟨blk', bt, A, hb', leA_sound htg.2 hI, ?_⟩
          exact getInv_verifyAux hv hb' (by simpa using hbt)
      · simp at htg

theorem CInv_exec {conv : Conv} {R : Routine} {inv : InvMap} {s0 : St}
    (hv : verifyAux conv inv R.blocks.length R.blocks 0 = true) {c c' : Cfg}
    (hc : CInv conv R inv s0 c) (he : Exec R (s0.reg rsp) c c') : CInv conv R inv s0 c' := by
  induction he with
  | refl => exact hc
  | tail _ hs ih => exact CInv_step hv ih hs

theorem Inv_init (conv : Conv) (s0 : St) : Inv s0 0 (initA conv) s0 := by
  refine ⟨?_, rfl, ?_, ?_⟩
  · intro r
    by_cases hr : rsp.beq r = true
    · have : rsp = r := Reg.beq_iff.mp hr
      subst this
      simp [initA, getR, valOk, Reg.beq_self]
    · have hr' : rsp.beq r = false := by simpa using hr
      simp only [initA, getR, hr']
      rcases getR_initRegs conv.saved r with e | e <;> rw [e] <;> simp [valOk]
  · intro t ht; simp [initA] at ht
  · intro sl hsl; simp [initA] at hsl

theorem CInv_start {conv : Conv} {R : Routine} {inv : InvMap} (h : verify conv R inv = true) (s0 : St) :
    CInv conv R inv s0 (R.start s0) := by
  simp only [verify, Bool.and_eq_true] at h
  obtain ⟨⟨hne, h0⟩, hv⟩ := h
  split at h0
  · next a0 ha0 =>
      unfold Routine.start
      cases hb : R.blocks[0]? with
      | none =>
          exfalso
          cases hbl : R.blocks with
          | nil => rw [hbl] at hne; simp at hne
          | cons x xs => rw [hbl] at hb; simp at hb
      | some blk =>
          simp only
          exact ⟨blk, a0, 0, hb, leA_sound h0 (Inv_init conv s0), getInv_verifyAux hv hb (by simpa using ha0)⟩
  · cases h0

/-! ### sanity: the checker rejects the classic mistakes, and the semantics is not vacuous -/

/-- `push rbx; push r12; <clobber both>; pop r12; pop rbx; ret` -/
def toyGood : Routine := ⟨[⟨[.push (.g 3), .push (.g 12), .havoc [.g 3, .g 12], .pop (.g 12), .pop (.g 3)], .ret⟩]⟩
/-- one `pop` dropped -/
def toyDroppedPop : Routine := ⟨[⟨[.push (.g 3), .push (.g 12), .havoc [.g 3, .g 12], .pop (.g 12)], .ret⟩]⟩
/-- pops in the wrong order -/
def toySwappedPop : Routine := ⟨[⟨[.push (.g 3), .push (.g 12), .havoc [.g 3, .g 12], .pop (.g 3), .pop (.g 12)], .ret⟩]⟩
/-- `std` -/
def toyStd : Routine := ⟨[⟨[.push (.g 3), .std, .pop (.g 3)], .ret⟩]⟩
/-- a callee-saved register written without being saved -/
def toyClobber : Routine := ⟨[⟨[.havoc [.g 12]], .ret⟩]⟩
/-- the stack slot of a saved register overwritten before it is reloaded -/
def toyOverwrite : Routine := ⟨[⟨[.push (.g 3), .havoc [.g 3], .store rsp 4 4 none, .pop (.g 3)], .ret⟩]⟩
/-- Win64: early exit to the shared epilogue before xmm6 is saved -/
def toyEarlyExit : Routine := ⟨[
  ⟨[.push rbp, .lea rbp rsp 0, .lea rsp rsp (-80), .andRsp 64], .jcc 2 1⟩,
  ⟨[.store rsp 16 16 (some (.x 6)), .havoc [.x 6]], .fall 2⟩,
  ⟨[.load (.x 6) rsp 16, .lea rsp rbp 0, .pop rbp], .ret⟩]⟩
/-- the same with the exit after the save -/
def toyLateExit : Routine := ⟨[
  ⟨[.push rbp, .lea rbp rsp 0, .lea rsp rsp (-80), .andRsp 64, .store rsp 16 16 (some (.x 6))], .jcc 2 1⟩,
  ⟨[.havoc [.x 6]], .fall 2⟩,
  ⟨[.load (.x 6) rsp 16, .lea rsp rbp 0, .pop rbp], .ret⟩]⟩

example : abiOk .sysv toyGood = true := by decide +kernel
example : abiOk .sysv toyDroppedPop = false := by decide +kernel
example : abiOk .sysv toySwappedPop = false := by decide +kernel
example : abiOk .sysv toyStd = false := by decide +kernel
example : abiOk .sysv toyClobber = false := by decide +kernel
example : abiOk .sysv toyOverwrite = false := by decide +kernel
example : abiOk .win64 toyEarlyExit = false := by decide +kernel
example : abiOk .sysv toyEarlyExit = true := by decide +kernel
example : abiOk .win64 toyLateExit = true := by decide +kernel

/-- `push rbx; <clobber rbx>; pop rbx; ret` -/
def toySmall : Routine := ⟨[⟨[.push (.g 3), .havoc [.g 3], .pop (.g 3)], .ret⟩]⟩

/-- Non-vacuity: from every entry state the toy routine has an execution that reaches `ret` (so `abiOk_sound` speaks about
executions that exist; the step relation is not accidentally empty). -/
theorem toySmall_runs (s0 : St) : ∃ s, Exec toySmall (s0.reg rsp) (toySmall.start s0) (.done s) := by
  let s1 : St := s0.set rsp (s0.reg rsp + -8)
  let m' : Int → MByte := fun x =>
    if s1.reg rsp + 0 ≤ x ∧ x < s1.reg rsp + 0 + 8 then .frag (s1.reg (.g 3)) 8 (x - (s1.reg rsp + 0)).toNat else s1.mem x
  let s2 : St := { s1 with mem := m' }
  let s3 : St := s2.set (.g 3) (s1.reg (.g 3))
  let s4 : St := s3.set rsp (s3.reg rsp + 8)
  refine ⟨s4.set rsp (s4.reg rsp + 8), ?_⟩
  have st1 : IStep (s0.reg rsp) (.push (.g 3)) s0 s2 := by
    refine IStep.push s0 s1 s2 (.g 3) (IStep.lea s0 rsp rsp (-8)) ?_
    refine IStep.store s1 rsp 0 8 (some (.g 3)) m' ?_ ?_
    · intro x hx
      have : ¬ (s1.reg rsp + 0 ≤ x ∧ x < s1.reg rsp + 0 + 8) := by omega
      simp only [m', if_neg this]
    · intro r hr i hi
      cases hr
      have h1 : s1.reg rsp + 0 ≤ s1.reg rsp + 0 + (i : Int) ∧ s1.reg rsp + 0 + (i : Int) < s1.reg rsp + 0 + 8 := by omega
      have h2 : (s1.reg rsp + 0 + (i : Int) - (s1.reg rsp + 0)).toNat = i := by omega
      simp only [m', if_pos h1, h2]
  have st2 : IStep (s0.reg rsp) (.havoc [.g 3]) s2 s2 := IStep.havoc s2 s2 [.g 3] (fun _ _ => rfl) rfl (fun _ _ _ => rfl)
  have st3 : IStep (s0.reg rsp) (.pop (.g 3)) s2 s4 := by
    refine IStep.pop s2 s3 s4 (.g 3) ?_ (IStep.lea s3 rsp rsp 8)
    refine IStep.load s2 (.g 3) rsp 0 (s1.reg (.g 3)) ?_
    intro v0 h
    have h0 := h 0 (by decide)
    have h1 : s1.reg rsp + 0 ≤ s2.reg rsp + 0 + ((0 : Nat) : Int) ∧ s2.reg rsp + 0 + ((0 : Nat) : Int) < s1.reg rsp + 0 + 8 := by
      have e : s2.reg rsp = s1.reg rsp := rfl
      rw [e]; omega
    have h2 : s2.mem (s2.reg rsp + 0 + ((0 : Nat) : Int)) = .frag (s1.reg (.g 3)) 8
        (s2.reg rsp + 0 + ((0 : Nat) : Int) - (s1.reg rsp + 0)).toNat := by
      show m' _ = _
      simp only [m', if_pos h1]
    rw [h2] at h0
    injection h0
  exact Exec.tail (Exec.tail (Exec.tail (Exec.tail (Exec.refl _) (Step.instr st1)) (Step.instr st2)) (Step.instr st3))
    (Step.ret (b := 0) (blk := ⟨[.push (.g 3), .havoc [.g 3], .pop (.g 3)], .ret⟩) rfl rfl)

example : abiOk .sysv toySmall = true := by decide +kernel

/-! ### main theorems -/

/-- **Soundness of the checker.**  If `abiOk conv R` evaluates to `true`, then every finite execution of `R` that starts at its
entry in ANY machine state `s0` and reaches a `ret` ends in a state `s` with `rsp = entry rsp + 8` (return address popped),
`DF = entry DF`, and every callee-saved register of `conv` equal to its entry value.  (`E = s0.reg rsp` is the upper end of the
routine's own frame in the `havoc` rule.) -/
theorem abiOk_sound {conv : Conv} {R : Routine} (h : abiOk conv R = true) (s0 s : St)
    (he : Exec R (s0.reg rsp) (R.start s0) (.done s)) : AbiPost conv s0 s := by
  have hv : verify conv R (infer conv R) = true := h
  have hv' : verifyAux conv (infer conv R) R.blocks.length R.blocks 0 = true := by
    simp only [verify, Bool.and_eq_true] at hv; exact hv.2
  exact CInv_exec hv' (CInv_start hv s0) he

/-- **Safety along the way.**  Under the same hypothesis every configuration reachable from the entry is inside the routine
(its block exists) and has `DF = entry DF`: the direction flag is never changed, and control never leaves the routine except by
`ret`. -/
theorem abiOk_safe {conv : Conv} {R : Routine} (h : abiOk conv R = true) (s0 : St) (b : Nat) (rest : List Instr) (s : St)
    (he : Exec R (s0.reg rsp) (R.start s0) (.run b rest s)) : b < R.blocks.length ∧ s.df = s0.df := by
  have hv : verify conv R (infer conv R) = true := h
  have hv' : verifyAux conv (infer conv R) R.blocks.length R.blocks 0 = true := by
    simp only [verify, Bool.and_eq_true] at hv; exact hv.2
  obtain ⟨blk, a, A, hb, hI, _⟩ := CInv_exec hv' (CInv_start hv s0) he
  refine ⟨?_, hI.df⟩
  rcases Nat.lt_or_ge b R.blocks.length with hlt | hge
  · exact hlt
  · rw [List.getElem?_eq_none hge] at hb; cases hb

/-- the ABI clause of C07 for one routine: every returning execution restores `rsp` (+8), DF and the callee-saved registers of
`conv`; every reachable configuration is inside the routine and has the entry DF -/
def RespectsAbi (conv : Conv) (R : Routine) : Prop :=
  (∀ s0 s : St, Exec R (s0.reg rsp) (R.start s0) (.done s) → AbiPost conv s0 s) ∧
  (∀ (s0 : St) (b : Nat) (rest : List Instr) (s : St), Exec R (s0.reg rsp) (R.start s0) (.run b rest s) →
    b < R.blocks.length ∧ s.df = s0.df)

theorem respectsAbi_of_abiOk {conv : Conv} {R : Routine} (h : abiOk conv R = true) : RespectsAbi conv R :=
  ⟨abiOk_sound h, abiOk_safe h⟩

end B3.Asm
