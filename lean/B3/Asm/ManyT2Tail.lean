/- the 2-input tail of `blake3_hash_many_sse41` as a whole (instructions 1423..1637) on the frame machine: the two inputs whose
addresses are at `[rdi]`, `[rdi+8]` are hashed from the key, their chaining values stored at `[rbx]`, the counter vectors shifted -/
import B3.Asm.ManyT2Loop
import B3.Asm.ManyT1Tail
import B3.Asm.ManyMem
namespace B3.AsmSem.Many
open B3 B3.Simd B3.AsmSem B3.Gen.AsmSse41Many

/-- the memory references of the 2-input tail, in order -/
def t2Log (m : Memory) (g1 g5 bx di : UInt64) (B : Nat) : List Ref :=
  t2SetupLog g1 di g5 ++ t2LoopLog (ptrAt m di 0) (ptrAt m di 1) B 0 ++ t2StoreLog bx

theorem store4_cv (m : Memory) (p : UInt64) (A B : CV) :
    store128 (store128 (store128 (store128 m (p + dispU 0) (cvRow0 A)) (p + dispU 16) (cvRow1 A)) (p + dispU 32) (cvRow0 B))
      (p + dispU 48) (cvRow1 B) = writeBytes m p (bytesOfWords A ++ bytesOfWords B) := by
  rw [store2_cv]
  have e32 : p + dispU 32 = p + UInt64.ofNat 32 + dispU 0 := by
    show p + UInt64.ofNat 32 = p + UInt64.ofNat 32 + UInt64.ofNat 0
    rw [show UInt64.ofNat 0 = 0 from rfl, UInt64.add_zero]
  have e48 : p + dispU 48 = p + UInt64.ofNat 32 + dispU 16 := by
    show p + UInt64.ofNat 48 = p + UInt64.ofNat 32 + UInt64.ofNat 16
    rw [addr_add]
  rw [e32, e48, store2_cv]
  have hl : (bytesOfWords A).length = 32 := bytesOfWords8_length A
  have := writeBytes_append m p (bytesOfWords A) (bytesOfWords B) (by rw [hl, bytesOfWords8_length]; decide)
  rw [hl] at this
  exact this

/-- **the 2-input tail**: instructions 1423..1637 for `B ≥ 1` blocks: the chaining values of the inputs at `[rdi]`, `[rdi+8]`
(lanes 0, 1 of the counter vectors) are written at `rbx`; `rbx += 64`, `rdi += 16`, `rsi -= 2`; the counter vectors are shifted down
by two lanes where the mask in slot 19 is set; ends at 1638 -/
theorem t2_tail (rb : UInt64) (B : Nat) (hB : 64 * B < 2 ^ 64) (hB0 : 0 < B) (bx si di g1 g4 g5 g12 g13 : UInt64)
    (lo hi f19 f20 inc : V4) (m : Memory) (z c : Bool) (s : StateG FMem)
    (hs : OuterState bx si di g1 g4 g5 g12 g13 (UInt64.ofNat (64 * B)) lo hi f19 f20 inc m z c 1423 s) :
    ∃ (k : Nat) (t : StateG FMem) (z' c' : Bool), Run rodata rb hash_many k s (t2Log m g1 g5 bx di B) t ∧
      OuterState (bx + UInt64.ofNat 64) (si - UInt64.ofNat 2) (di + UInt64.ofNat 16) g1 g4 g5 g12 g13 (UInt64.ofNat (64 * B))
        (shiftLo f19 lo hi) (shiftHi f19 hi) f19 f20 inc
        (writeBytes m bx (bytesOfWords (groupCV m g1 g5 g12 g13 di lo hi B 0) ++ bytesOfWords (groupCV m g1 g5 g12 g13 di lo hi B 1)))
        z' c' 1638 t := by
  obtain ⟨x0, x1, x2, x3, x4, x5, x6, x7, x8, x9, x10, x11, x12, x13, x14, x15, f0, f1, f2, f3, f4, f5, f6, f7, f8, f9, f10, f11, f12,
    f13, f14, f15, f16, ax, dx, a8, a9, a10, a11, r14, rfl⟩ := hs
  -- setup
  have h1 : Run rodata rb hash_many 17 _ _ _ := t2_setup_raw rb x0 x1 x2 x3 x4 x5 x6 x7 x8 x9 x10 x11 x12 x13 x14 x15
    ax g1 dx bx g4 g5 si di a8 a9 a10 a11 g12 g13 r14 (UInt64.ofNat (64 * B)) z c
    f0 f1 f2 f3 f4 f5 f6 f7 f8 f9 f10 f11 f12 f13 f14 f15 f16 lo hi f19 f20 inc m
  rw [xor_self_trunc] at h1
  have e0 : load128 m (g1 + dispU 0) = cvRow0 (keyRaw m g1) := vec4_eta _
  have e1 : load128 m (g1 + dispU 16) = cvRow1 (keyRaw m g1) := vec4_eta _
  rw [e0, e1] at h1
  -- the blocks
  obtain ⟨k2, t2, h2, y2, y3, y4, y5, y6, y7, y10, y11, y12, y13, y14, y15, e2, e3, e4, e5, j0, j1, r14', z2, c2, rfl⟩ :=
    t2_loop rb B hB lo[0] hi[0] lo[1] hi[1] g1 bx g4 g5 si di (load64 m (di + dispU 0)) (load64 m (di + dispU 8)) a10 a11 g12 g13
      f6 f7 f8 f9 f10 f11 f12 f13 f14 f15 f16 lo hi f19 f20 inc m B 0 (by omega) hB0
      (keyRaw m g1) (keyRaw m g1) (headRax m g5 g13) _
      ⟨x2, x3, x4, x5, x6, x7, x10, x11, x12, _, _, x15, f2, f3, f4, f5, 0, 0, r14, _, _, rfl⟩
  -- the stores and the counter shift
  obtain ⟨x', h3⟩ := run_of_gview (t2_store_raw rb _ _ y2 y3 y4 y5 y6 y7 _ _ y10 y11 y12 y13 y14 y15
    (trunc .d32 (trunc .d32 g13)) g1 (UInt64.ofNat (64 * B)) bx g4 g5 si di (load64 m (di + dispU 0)) (load64 m (di + dispU 8)) a10 a11
    g12 g13 r14' (UInt64.ofNat (64 * B)) z2 c2
    #v[lo[0], hi[0], 64, j0] #v[lo[1], hi[1], 64, j1] e2 e3 e4 e5 f6 f7 f8 f9 f10 f11 f12 f13 f14 f15 f16 lo hi f19 f20 inc m)
  rw [store4_cv] at h3
  have hrun := (h1.trans h2).trans h3
  refine ⟨_, _, (si - UInt64.ofNat 2 == 0), decide (si < UInt64.ofNat 2), hrun, ?_⟩
  rw [vec16_eta x']
  exact ⟨_, _, _, _, _, _, _, _, _, _, _, _, _, _, _, _, _, _, _, _, _, _, _, _, _, _, _, _, _, _, _, _, _, _, _, _, _, _, _, _, rfl⟩

end B3.AsmSem.Many
