/- the 2-input tail, instructions 1578..1614 (both message permutations); see `ManyT2a.lean` -/
import B3.Asm.ManyT1
namespace B3.AsmSem.Many
open B3 B3.Simd B3.AsmSem B3.Gen.AsmSse41Many

/-! ### 1578..1614: both message permutations -/

theorem t2_perm_raw (rb : UInt64) (r0 r1 r2 r3 x4 x5 r8 r9 r10 r11 x12 x13 : V4) (WA WB : St) (g : Vector UInt64 16) (z c : Bool)
    (f0 f1 f6 f7 f8 f9 f10 f11 f12 f13 f14 f15 f16 f17 f18 f19 f20 f21 : V4) (m : Memory) :
    frun rodata rb hash_many 37 ⟨mkS #v[r0, r1, r2, r3, x4, x5, grp2 WA, grp3 WA, r8, r9, r10, r11, x12, x13, grp2 WB, grp3 WB] g z c
        #v[f0, f1, grp0 WA, grp0 WB, grp1 WA, grp1 WB, f6, f7, f8, f9, f10, f11, f12, f13, f14, f15, f16, f17, f18, f19, f20, f21] m 1578, [], true⟩
      = ⟨mkS #v[r0, r1, r2, r3, grp0 (Spec.permute (eta16 WA)), grp1 (Spec.permute (eta16 WA)), grp2 (Spec.permute (eta16 WA)),
            grp3 (Spec.permute (eta16 WA)), r8, r9, r10, r11, grp0 (Spec.permute (eta16 WB)), grp1 (Spec.permute (eta16 WB)),
            grp2 (Spec.permute (eta16 WB)), grp3 (Spec.permute (eta16 WB))] g z c
          #v[f0, f1, grp1 (Spec.permute (eta16 WA)), grp0 WB, grp2 (Spec.permute (eta16 WA)), grp1 WB, f6, f7, f8, f9, f10, f11, f12, f13, f14, f15, f16, f17, f18, f19, f20, f21] m 1478, [], true⟩ := by
  kernel_rfl

end B3.AsmSem.Many
