/-
Running the machine semantics `B3/Asm/WinSem.lean` on the generated Windows-GNU instruction lists
with concrete inputs, so that it can be compared with the real routines running on the CPU
(/verif/harness/c/build/cdriver, `CK cip|cxof win_sse41_asm|win_sse2_asm ...`, which calls the
Windows-GNU objects through an `ms_abi` trampoline and checks the callee-saved registers).

  cip  <sse41|sse2|sse41msvc> <cv hex, 32 bytes> <block hex, 64 bytes> <r8> <r9> <slot5>   -> the 32 bytes at `cv` afterwards
  cxof <sse41|sse2|sse41msvc> <cv hex, 32 bytes> <block hex, 64 bytes> <r8> <r9> <slot5>   -> the 64 bytes at `out` afterwards
followed by ` ok` / ` FAULT` (the sticky fault flag), the status, the number of steps used, and
`saved` / `REGS` (whether rsp is popped and xmm6-15, rbx, rbp, rdi, rsi, r12-r15 hold their entry values).
`r8 r9` are the full 64-bit register values (decimal), `slot5` the full 64-bit content of the fifth
argument's stack slot `[rsp+0x28]` (the routine reads its low byte), so that garbage above the 8-bit
arguments can be supplied.  Layout: cv at 0x10008 (only 8-byte aligned), block at 0x20001 (unaligned), the
file's `.rdata` at 0x30040, out at 0x40004, rsp = 0x7fff0008 (as after a `call` from a 16-byte aligned
stack), `[rsp+0x28]` = slot5, `[rsp+0x30]` = the address of out; all other memory reads 0; the XMM
registers and the other general purpose registers hold distinct junk.
`sse41msvc` runs the list translated from the MSVC (MASM) file; there is no assembled MSVC object to compare with, its
answers are compared with those of the CPU running the Windows-GNU object on the same inputs.
-/
import B3.Gen.AsmSse41Wgnu
import B3.Gen.AsmSse2Wgnu
import B3.Gen.AsmSse41Msvc
import B3.Asm.Run
namespace B3.AsmSem.WgnuRun
open B3 B3.Simd B3.AsmSem B3.AsmSem.Win B3.AsmSem.Run

def rsp0 : UInt64 := 0x7fff0008

def le64Byte (v : UInt64) (k : UInt64) : UInt8 := (v >>> (8 * k)).toUInt8

def initMem (cv block ro : Array UInt8) (slot5 : UInt64) : Memory := fun p =>
  if p - cvBase < 32 then cv.getD (p - cvBase).toNat 0
  else if p - blockBase < 64 then block.getD (p - blockBase).toNat 0
  else if p - roBase < UInt64.ofNat ro.size then ro.getD (p - roBase).toNat 0
  else if p - (rsp0 + 0x28) < 8 then le64Byte slot5 (p - (rsp0 + 0x28))
  else if p - (rsp0 + 0x30) < 8 then le64Byte outBase (p - (rsp0 + 0x30))
  else 0

def junkX (i : Nat) : V4 :=
  #v[0xDEADBEEF + UInt32.ofNat i, 0x01234567 * UInt32.ofNat (i + 1), 0x89ABCDEF ^^^ UInt32.ofNat (i * 77), 0xFEEDFACE - UInt32.ofNat i]

def initState (cv block ro : Array UInt8) (r8v r9v slot5 : UInt64) : State :=
  { xmm := Vector.ofFn fun i => junkX i.val
    gpr := #v[0x1111111111111111, cvBase, blockBase, 0x3333333333333333, rsp0, 0x5555555555555555, 0x6666666666666666,
              0x7777777777777777, r8v, r9v, 0xAAAAAAAAAAAAAAAA, 0xBBBBBBBBBBBBBBBB, 0xCCCCCCCCCCCCCCCC, 0xDDDDDDDDDDDDDDDD,
              0xEEEEEEEEEEEEEEEE, 0xFFFFFFFFFFFFFFFF]
    zf := false, mem := initMem cv block ro slot5, pc := 0, status := .running, ok := true }

/-- run until `ret` (at most `fuel` steps); returns the state and the number of steps -/
def runCount (rb : UInt64) (prog : List WInstr) : Nat → Nat → State → State × Nat
  | 0, n, s => (s, n)
  | fuel + 1, n, s => if s.status = .returned then (s, n) else runCount rb prog fuel (n + 1) (Win.step rb prog s)

/-- the Win64 calling-convention clause: rsp popped, xmm6-15 and rbx rbp rdi rsi r12-r15 as on entry -/
def savedOk (s0 s : State) : Bool :=
  s.gpr[rsp] == s0.gpr[rsp] + 8 &&
  [rbx, rbp, rdi, rsi, r12, r13, r14, r15].all (fun r => s.gpr[r] == s0.gpr[r]) &&
  (List.range 10).all (fun k => s.xmm[6 + k]! == s0.xmm[6 + k]!)

def runLine (toks : List String) : Option String :=
  match toks with
  | [op, isa, cv, block, r8v, r9v, slot5] => do
    let cv ← bytesOfHex cv
    let block ← bytesOfHex block
    if cv.size ≠ 32 ∨ block.size ≠ 64 then none
    let (ro, pi, px) ← (if isa = "sse41" then some (Gen.AsmSse41Wgnu.rodata, Gen.AsmSse41Wgnu.compress_in_place, Gen.AsmSse41Wgnu.compress_xof)
      else if isa = "sse2" then some (Gen.AsmSse2Wgnu.rodata, Gen.AsmSse2Wgnu.compress_in_place, Gen.AsmSse2Wgnu.compress_xof)
      else if isa = "sse41msvc" then some (Gen.AsmSse41Msvc.rodata, Gen.AsmSse41Msvc.compress_in_place, Gen.AsmSse41Msvc.compress_xof)
      else none)
    let s0 := initState cv block ro.toArray (← u64 r8v) (← u64 r9v) (← u64 slot5)
    let (prog, base, n) ← (if op = "cip" then some (pi, cvBase, 32) else if op = "cxof" then some (px, outBase, 64) else none)
    let (s, steps) := runCount roBase prog 2000 0 s0
    some (hexOfBytes (readBytes s.mem base n) ++ (if s.ok then " ok " else " FAULT ")
      ++ (if s.status = .returned then "returned " else "running ") ++ toString steps
      ++ (if savedOk s0 s then " saved" else " REGS"))
  | _ => none

end B3.AsmSem.WgnuRun
