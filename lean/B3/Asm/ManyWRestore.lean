/- The Windows-GNU `blake3_hash_many_sse41`: the calling-convention clause.  What the epilogue loads from the final memory at the
eight push slots and the ten XMM save slots is what the prologue stored there: the routine writes nothing else into the
scratch area outside its 352-byte frame, and `out` does not overlap the scratch area. -/
import B3.Asm.ManyWMain
import B3.Asm.WgnuLemmas
namespace B3.AsmSem.Many.W
open B3 B3.Simd B3.AsmSem B3.Gen.AsmSse41Many

/-! ### stores and loads -/

theorem apart8W (a : UInt64) (i j : Nat) (hij : i ≠ j) (hi : i ≤ 7) (hj : j ≤ 7) :
    OutsideRo (a + UInt64.ofNat (8 * i)) 8 (a + UInt64.ofNat (8 * j)) 8 := by
  intro k hk
  have e : (a + UInt64.ofNat (8 * j) + UInt64.ofNat k - (a + UInt64.ofNat (8 * i))).toNat = (2 ^ 64 + 8 * j + k - 8 * i) % 2 ^ 64 := by
    simp only [UInt64.toNat_sub, UInt64.toNat_add, UInt64.toNat_ofNat']
    have := a.toNat_lt
    have e1 : 8 * i % 2 ^ 64 = 8 * i := by omega
    have e2 : 8 * j % 2 ^ 64 = 8 * j := by omega
    have e3 : k % 2 ^ 64 = k := by omega
    rw [e1, e2, e3]
    omega
  rw [e]
  omega

/-- two 16-byte slots at different multiples of 16 (below 1024) from `a` do not overlap -/
theorem apart16 (a : UInt64) (x y : Nat) (hxy : x + 16 ≤ y ∨ y + 16 ≤ x) (hx : x ≤ 1024) (hy : y ≤ 1024) :
    OutsideRo (a + UInt64.ofNat x) 16 (a + UInt64.ofNat y) 16 := by
  intro k hk
  have e : (a + UInt64.ofNat y + UInt64.ofNat k - (a + UInt64.ofNat x)).toNat = (2 ^ 64 + y + k - x) % 2 ^ 64 := by
    simp only [UInt64.toNat_sub, UInt64.toNat_add, UInt64.toNat_ofNat']
    have := a.toNat_lt
    have e1 : x % 2 ^ 64 = x := by omega
    have e2 : y % 2 ^ 64 = y := by omega
    have e3 : k % 2 ^ 64 = k := by omega
    rw [e1, e2, e3]
    omega
  rw [e]
  omega

theorem SameOn.load128 {m m' : Memory} {q : UInt64} {k : Nat} (h : SameOn m m' q k) (hk : 16 ≤ k) : load128 m' q = load128 m q := by
  rw [load128_unfold, load128_unfold m, h.word (by omega), (h.mono 4 4 (by omega)).word (by omega),
    (h.mono 8 4 (by omega)).word (by omega), (h.mono 12 4 (by omega)).word (by omega)]

/-- what was stored is what is loaded -/
theorem ld_st_same (m : Memory) (a : UInt64) (v : V4) : load128 (store128 m a v) a = v := by
  apply B3.AsmSem.Win.load128_of_bytes128
  intro i hi
  have hi' : i < 16 := hi
  rw [store128_apply]
  have e : (a + UInt64.ofNat i - a).toNat = i := add_sub_self a i (by omega)
  rw [e, if_pos hi', bytes128_getD v i hi']

theorem ld_st_other (m : Memory) (a : UInt64) (v : V4) (b : UInt64) (h : OutsideRo a 16 b 16) :
    load128 (store128 m a v) b = load128 m b := by
  apply SameOn.load128 (k := 16) _ (by omega)
  intro i hi
  exact store128_outside m a v _ (h i hi)

/-- the ten saved registers are read back from the save area -/
theorem saveMem_slots (m : Memory) (fb : UInt64) (x6 x7 x8 x9 x10 x11 x12 x13 x14 x15 : V4) :
    load128 (saveMem m fb x6 x7 x8 x9 x10 x11 x12 x13 x14 x15) (fb + dispU 368) = x6 ∧
    load128 (saveMem m fb x6 x7 x8 x9 x10 x11 x12 x13 x14 x15) (fb + dispU 384) = x7 ∧
    load128 (saveMem m fb x6 x7 x8 x9 x10 x11 x12 x13 x14 x15) (fb + dispU 400) = x8 ∧
    load128 (saveMem m fb x6 x7 x8 x9 x10 x11 x12 x13 x14 x15) (fb + dispU 416) = x9 ∧
    load128 (saveMem m fb x6 x7 x8 x9 x10 x11 x12 x13 x14 x15) (fb + dispU 432) = x10 ∧
    load128 (saveMem m fb x6 x7 x8 x9 x10 x11 x12 x13 x14 x15) (fb + dispU 448) = x11 ∧
    load128 (saveMem m fb x6 x7 x8 x9 x10 x11 x12 x13 x14 x15) (fb + dispU 464) = x12 ∧
    load128 (saveMem m fb x6 x7 x8 x9 x10 x11 x12 x13 x14 x15) (fb + dispU 480) = x13 ∧
    load128 (saveMem m fb x6 x7 x8 x9 x10 x11 x12 x13 x14 x15) (fb + dispU 496) = x14 ∧
    load128 (saveMem m fb x6 x7 x8 x9 x10 x11 x12 x13 x14 x15) (fb + dispU 512) = x15 := by
  unfold saveMem
  refine ⟨?_, ?_, ?_, ?_, ?_, ?_, ?_, ?_, ?_, ?_⟩
  · rw [ld_st_other _ (fb + dispU 512) _ (fb + dispU 368) (apart16 fb 512 368 (by omega) (by omega) (by omega)),
      ld_st_other _ (fb + dispU 496) _ (fb + dispU 368) (apart16 fb 496 368 (by omega) (by omega) (by omega)),
      ld_st_other _ (fb + dispU 480) _ (fb + dispU 368) (apart16 fb 480 368 (by omega) (by omega) (by omega)),
      ld_st_other _ (fb + dispU 464) _ (fb + dispU 368) (apart16 fb 464 368 (by omega) (by omega) (by omega)),
      ld_st_other _ (fb + dispU 448) _ (fb + dispU 368) (apart16 fb 448 368 (by omega) (by omega) (by omega)),
      ld_st_other _ (fb + dispU 432) _ (fb + dispU 368) (apart16 fb 432 368 (by omega) (by omega) (by omega)),
      ld_st_other _ (fb + dispU 416) _ (fb + dispU 368) (apart16 fb 416 368 (by omega) (by omega) (by omega)),
      ld_st_other _ (fb + dispU 400) _ (fb + dispU 368) (apart16 fb 400 368 (by omega) (by omega) (by omega)),
      ld_st_other _ (fb + dispU 384) _ (fb + dispU 368) (apart16 fb 384 368 (by omega) (by omega) (by omega)),
      ld_st_same]
  · rw [ld_st_other _ (fb + dispU 512) _ (fb + dispU 384) (apart16 fb 512 384 (by omega) (by omega) (by omega)),
      ld_st_other _ (fb + dispU 496) _ (fb + dispU 384) (apart16 fb 496 384 (by omega) (by omega) (by omega)),
      ld_st_other _ (fb + dispU 480) _ (fb + dispU 384) (apart16 fb 480 384 (by omega) (by omega) (by omega)),
      ld_st_other _ (fb + dispU 464) _ (fb + dispU 384) (apart16 fb 464 384 (by omega) (by omega) (by omega)),
      ld_st_other _ (fb + dispU 448) _ (fb + dispU 384) (apart16 fb 448 384 (by omega) (by omega) (by omega)),
      ld_st_other _ (fb + dispU 432) _ (fb + dispU 384) (apart16 fb 432 384 (by omega) (by omega) (by omega)),
      ld_st_other _ (fb + dispU 416) _ (fb + dispU 384) (apart16 fb 416 384 (by omega) (by omega) (by omega)),
      ld_st_other _ (fb + dispU 400) _ (fb + dispU 384) (apart16 fb 400 384 (by omega) (by omega) (by omega)),
      ld_st_same]
  · rw [ld_st_other _ (fb + dispU 512) _ (fb + dispU 400) (apart16 fb 512 400 (by omega) (by omega) (by omega)),
      ld_st_other _ (fb + dispU 496) _ (fb + dispU 400) (apart16 fb 496 400 (by omega) (by omega) (by omega)),
      ld_st_other _ (fb + dispU 480) _ (fb + dispU 400) (apart16 fb 480 400 (by omega) (by omega) (by omega)),
      ld_st_other _ (fb + dispU 464) _ (fb + dispU 400) (apart16 fb 464 400 (by omega) (by omega) (by omega)),
      ld_st_other _ (fb + dispU 448) _ (fb + dispU 400) (apart16 fb 448 400 (by omega) (by omega) (by omega)),
      ld_st_other _ (fb + dispU 432) _ (fb + dispU 400) (apart16 fb 432 400 (by omega) (by omega) (by omega)),
      ld_st_other _ (fb + dispU 416) _ (fb + dispU 400) (apart16 fb 416 400 (by omega) (by omega) (by omega)),
      ld_st_same]
  · rw [ld_st_other _ (fb + dispU 512) _ (fb + dispU 416) (apart16 fb 512 416 (by omega) (by omega) (by omega)),
      ld_st_other _ (fb + dispU 496) _ (fb + dispU 416) (apart16 fb 496 416 (by omega) (by omega) (by omega)),
      ld_st_other _ (fb + dispU 480) _ (fb + dispU 416) (apart16 fb 480 416 (by omega) (by omega) (by omega)),
      ld_st_other _ (fb + dispU 464) _ (fb + dispU 416) (apart16 fb 464 416 (by omega) (by omega) (by omega)),
      ld_st_other _ (fb + dispU 448) _ (fb + dispU 416) (apart16 fb 448 416 (by omega) (by omega) (by omega)),
      ld_st_other _ (fb + dispU 432) _ (fb + dispU 416) (apart16 fb 432 416 (by omega) (by omega) (by omega)),
      ld_st_same]
  · rw [ld_st_other _ (fb + dispU 512) _ (fb + dispU 432) (apart16 fb 512 432 (by omega) (by omega) (by omega)),
      ld_st_other _ (fb + dispU 496) _ (fb + dispU 432) (apart16 fb 496 432 (by omega) (by omega) (by omega)),
      ld_st_other _ (fb + dispU 480) _ (fb + dispU 432) (apart16 fb 480 432 (by omega) (by omega) (by omega)),
      ld_st_other _ (fb + dispU 464) _ (fb + dispU 432) (apart16 fb 464 432 (by omega) (by omega) (by omega)),
      ld_st_other _ (fb + dispU 448) _ (fb + dispU 432) (apart16 fb 448 432 (by omega) (by omega) (by omega)),
      ld_st_same]
  · rw [ld_st_other _ (fb + dispU 512) _ (fb + dispU 448) (apart16 fb 512 448 (by omega) (by omega) (by omega)),
      ld_st_other _ (fb + dispU 496) _ (fb + dispU 448) (apart16 fb 496 448 (by omega) (by omega) (by omega)),
      ld_st_other _ (fb + dispU 480) _ (fb + dispU 448) (apart16 fb 480 448 (by omega) (by omega) (by omega)),
      ld_st_other _ (fb + dispU 464) _ (fb + dispU 448) (apart16 fb 464 448 (by omega) (by omega) (by omega)),
      ld_st_same]
  · rw [ld_st_other _ (fb + dispU 512) _ (fb + dispU 464) (apart16 fb 512 464 (by omega) (by omega) (by omega)),
      ld_st_other _ (fb + dispU 496) _ (fb + dispU 464) (apart16 fb 496 464 (by omega) (by omega) (by omega)),
      ld_st_other _ (fb + dispU 480) _ (fb + dispU 464) (apart16 fb 480 464 (by omega) (by omega) (by omega)),
      ld_st_same]
  · rw [ld_st_other _ (fb + dispU 512) _ (fb + dispU 480) (apart16 fb 512 480 (by omega) (by omega) (by omega)),
      ld_st_other _ (fb + dispU 496) _ (fb + dispU 480) (apart16 fb 496 480 (by omega) (by omega) (by omega)),
      ld_st_same]
  · rw [ld_st_other _ (fb + dispU 512) _ (fb + dispU 496) (apart16 fb 512 496 (by omega) (by omega) (by omega)),
      ld_st_same]
  · rw [ld_st_same]

/-- eight quadwords stored at `a + 56`, `a + 48`, .., `a` are read back -/
theorem pops_of_pushesW (m : Memory) (a v1 v2 v3 v4 v5 v6 v7 v8 : UInt64) :
    load64 (store64 (store64 (store64 (store64 (store64 (store64 (store64 (store64 m (a + UInt64.ofNat (8 * 7)) v1) (a + UInt64.ofNat (8 * 6)) v2) (a + UInt64.ofNat (8 * 5)) v3) (a + UInt64.ofNat (8 * 4)) v4) (a + UInt64.ofNat (8 * 3)) v5) (a + UInt64.ofNat (8 * 2)) v6) (a + UInt64.ofNat (8 * 1)) v7) (a + UInt64.ofNat (8 * 0)) v8) (a + UInt64.ofNat (8 * 0)) = v8 ∧
    load64 (store64 (store64 (store64 (store64 (store64 (store64 (store64 (store64 m (a + UInt64.ofNat (8 * 7)) v1) (a + UInt64.ofNat (8 * 6)) v2) (a + UInt64.ofNat (8 * 5)) v3) (a + UInt64.ofNat (8 * 4)) v4) (a + UInt64.ofNat (8 * 3)) v5) (a + UInt64.ofNat (8 * 2)) v6) (a + UInt64.ofNat (8 * 1)) v7) (a + UInt64.ofNat (8 * 0)) v8) (a + UInt64.ofNat (8 * 1)) = v7 ∧
    load64 (store64 (store64 (store64 (store64 (store64 (store64 (store64 (store64 m (a + UInt64.ofNat (8 * 7)) v1) (a + UInt64.ofNat (8 * 6)) v2) (a + UInt64.ofNat (8 * 5)) v3) (a + UInt64.ofNat (8 * 4)) v4) (a + UInt64.ofNat (8 * 3)) v5) (a + UInt64.ofNat (8 * 2)) v6) (a + UInt64.ofNat (8 * 1)) v7) (a + UInt64.ofNat (8 * 0)) v8) (a + UInt64.ofNat (8 * 2)) = v6 ∧
    load64 (store64 (store64 (store64 (store64 (store64 (store64 (store64 (store64 m (a + UInt64.ofNat (8 * 7)) v1) (a + UInt64.ofNat (8 * 6)) v2) (a + UInt64.ofNat (8 * 5)) v3) (a + UInt64.ofNat (8 * 4)) v4) (a + UInt64.ofNat (8 * 3)) v5) (a + UInt64.ofNat (8 * 2)) v6) (a + UInt64.ofNat (8 * 1)) v7) (a + UInt64.ofNat (8 * 0)) v8) (a + UInt64.ofNat (8 * 3)) = v5 ∧
    load64 (store64 (store64 (store64 (store64 (store64 (store64 (store64 (store64 m (a + UInt64.ofNat (8 * 7)) v1) (a + UInt64.ofNat (8 * 6)) v2) (a + UInt64.ofNat (8 * 5)) v3) (a + UInt64.ofNat (8 * 4)) v4) (a + UInt64.ofNat (8 * 3)) v5) (a + UInt64.ofNat (8 * 2)) v6) (a + UInt64.ofNat (8 * 1)) v7) (a + UInt64.ofNat (8 * 0)) v8) (a + UInt64.ofNat (8 * 4)) = v4 ∧
    load64 (store64 (store64 (store64 (store64 (store64 (store64 (store64 (store64 m (a + UInt64.ofNat (8 * 7)) v1) (a + UInt64.ofNat (8 * 6)) v2) (a + UInt64.ofNat (8 * 5)) v3) (a + UInt64.ofNat (8 * 4)) v4) (a + UInt64.ofNat (8 * 3)) v5) (a + UInt64.ofNat (8 * 2)) v6) (a + UInt64.ofNat (8 * 1)) v7) (a + UInt64.ofNat (8 * 0)) v8) (a + UInt64.ofNat (8 * 5)) = v3 ∧
    load64 (store64 (store64 (store64 (store64 (store64 (store64 (store64 (store64 m (a + UInt64.ofNat (8 * 7)) v1) (a + UInt64.ofNat (8 * 6)) v2) (a + UInt64.ofNat (8 * 5)) v3) (a + UInt64.ofNat (8 * 4)) v4) (a + UInt64.ofNat (8 * 3)) v5) (a + UInt64.ofNat (8 * 2)) v6) (a + UInt64.ofNat (8 * 1)) v7) (a + UInt64.ofNat (8 * 0)) v8) (a + UInt64.ofNat (8 * 6)) = v2 ∧
    load64 (store64 (store64 (store64 (store64 (store64 (store64 (store64 (store64 m (a + UInt64.ofNat (8 * 7)) v1) (a + UInt64.ofNat (8 * 6)) v2) (a + UInt64.ofNat (8 * 5)) v3) (a + UInt64.ofNat (8 * 4)) v4) (a + UInt64.ofNat (8 * 3)) v5) (a + UInt64.ofNat (8 * 2)) v6) (a + UInt64.ofNat (8 * 1)) v7) (a + UInt64.ofNat (8 * 0)) v8) (a + UInt64.ofNat (8 * 7)) = v1 := by
  refine ⟨?_, ?_, ?_, ?_, ?_, ?_, ?_, ?_⟩
  · rw [load64_store64_same]
  · rw [load64_store64_other _ _ _ _ (apart8W a 0 1 (by omega) (by omega) (by omega)),
      load64_store64_same]
  · rw [load64_store64_other _ _ _ _ (apart8W a 0 2 (by omega) (by omega) (by omega)),
      load64_store64_other _ _ _ _ (apart8W a 1 2 (by omega) (by omega) (by omega)),
      load64_store64_same]
  · rw [load64_store64_other _ _ _ _ (apart8W a 0 3 (by omega) (by omega) (by omega)),
      load64_store64_other _ _ _ _ (apart8W a 1 3 (by omega) (by omega) (by omega)),
      load64_store64_other _ _ _ _ (apart8W a 2 3 (by omega) (by omega) (by omega)),
      load64_store64_same]
  · rw [load64_store64_other _ _ _ _ (apart8W a 0 4 (by omega) (by omega) (by omega)),
      load64_store64_other _ _ _ _ (apart8W a 1 4 (by omega) (by omega) (by omega)),
      load64_store64_other _ _ _ _ (apart8W a 2 4 (by omega) (by omega) (by omega)),
      load64_store64_other _ _ _ _ (apart8W a 3 4 (by omega) (by omega) (by omega)),
      load64_store64_same]
  · rw [load64_store64_other _ _ _ _ (apart8W a 0 5 (by omega) (by omega) (by omega)),
      load64_store64_other _ _ _ _ (apart8W a 1 5 (by omega) (by omega) (by omega)),
      load64_store64_other _ _ _ _ (apart8W a 2 5 (by omega) (by omega) (by omega)),
      load64_store64_other _ _ _ _ (apart8W a 3 5 (by omega) (by omega) (by omega)),
      load64_store64_other _ _ _ _ (apart8W a 4 5 (by omega) (by omega) (by omega)),
      load64_store64_same]
  · rw [load64_store64_other _ _ _ _ (apart8W a 0 6 (by omega) (by omega) (by omega)),
      load64_store64_other _ _ _ _ (apart8W a 1 6 (by omega) (by omega) (by omega)),
      load64_store64_other _ _ _ _ (apart8W a 2 6 (by omega) (by omega) (by omega)),
      load64_store64_other _ _ _ _ (apart8W a 3 6 (by omega) (by omega) (by omega)),
      load64_store64_other _ _ _ _ (apart8W a 4 6 (by omega) (by omega) (by omega)),
      load64_store64_other _ _ _ _ (apart8W a 5 6 (by omega) (by omega) (by omega)),
      load64_store64_same]
  · rw [load64_store64_other _ _ _ _ (apart8W a 0 7 (by omega) (by omega) (by omega)),
      load64_store64_other _ _ _ _ (apart8W a 1 7 (by omega) (by omega) (by omega)),
      load64_store64_other _ _ _ _ (apart8W a 2 7 (by omega) (by omega) (by omega)),
      load64_store64_other _ _ _ _ (apart8W a 3 7 (by omega) (by omega) (by omega)),
      load64_store64_other _ _ _ _ (apart8W a 4 7 (by omega) (by omega) (by omega)),
      load64_store64_other _ _ _ _ (apart8W a 5 7 (by omega) (by omega) (by omega)),
      load64_store64_other _ _ _ _ (apart8W a 6 7 (by omega) (by omega) (by omega)),
      load64_store64_same]

/-- the addresses of the pushes, counted from the lowest one -/
theorem push_addrsW (sp : UInt64) :
    sp - 8 = rbpW sp + UInt64.ofNat (8 * 7) ∧ sp - 8 - 8 = rbpW sp + UInt64.ofNat (8 * 6) ∧
    sp - 8 - 8 - 8 = rbpW sp + UInt64.ofNat (8 * 5) ∧ sp - 8 - 8 - 8 - 8 = rbpW sp + UInt64.ofNat (8 * 4) ∧
    sp - 8 - 8 - 8 - 8 - 8 = rbpW sp + UInt64.ofNat (8 * 3) ∧ sp - 8 - 8 - 8 - 8 - 8 - 8 = rbpW sp + UInt64.ofNat (8 * 2) ∧
    sp - 8 - 8 - 8 - 8 - 8 - 8 - 8 = rbpW sp + UInt64.ofNat (8 * 1) ∧
    sp - 8 - 8 - 8 - 8 - 8 - 8 - 8 - 8 = rbpW sp + UInt64.ofNat (8 * 0) := by
  have c : ∀ (x : UInt64) (k : Nat), x - 8 + UInt64.ofNat (8 * (k + 1)) = x + UInt64.ofNat (8 * k) := by
    intro x k
    have : UInt64.ofNat (8 * (k + 1)) = 8 + UInt64.ofNat (8 * k) := by
      rw [show (8 : UInt64) = UInt64.ofNat 8 from rfl, ← UInt64.ofNat_add]
      congr 1
      omega
    rw [this, ← UInt64.add_assoc, UInt64.sub_add_cancel]
  have z : ∀ x : UInt64, x + UInt64.ofNat (8 * 0) = x := by
    intro x
    rw [Nat.mul_zero, show UInt64.ofNat 0 = 0 from rfl, UInt64.add_zero]
  unfold rbpW
  refine ⟨?_, ?_, ?_, ?_, ?_, ?_, ?_, ?_⟩ <;> simp only [c, z]

/-- the eight pushed registers are read back from the push area -/
theorem pushMemW_slots (m : Memory) (sp g15 g14 g13 g12 g6 g7 g3 g5 : UInt64) :
    load64 (pushMemW m sp g15 g14 g13 g12 g6 g7 g3 g5) (rbpW sp + UInt64.ofNat (8 * 0)) = g5 ∧
    load64 (pushMemW m sp g15 g14 g13 g12 g6 g7 g3 g5) (rbpW sp + UInt64.ofNat (8 * 1)) = g3 ∧
    load64 (pushMemW m sp g15 g14 g13 g12 g6 g7 g3 g5) (rbpW sp + UInt64.ofNat (8 * 2)) = g7 ∧
    load64 (pushMemW m sp g15 g14 g13 g12 g6 g7 g3 g5) (rbpW sp + UInt64.ofNat (8 * 3)) = g6 ∧
    load64 (pushMemW m sp g15 g14 g13 g12 g6 g7 g3 g5) (rbpW sp + UInt64.ofNat (8 * 4)) = g12 ∧
    load64 (pushMemW m sp g15 g14 g13 g12 g6 g7 g3 g5) (rbpW sp + UInt64.ofNat (8 * 5)) = g13 ∧
    load64 (pushMemW m sp g15 g14 g13 g12 g6 g7 g3 g5) (rbpW sp + UInt64.ofNat (8 * 6)) = g14 ∧
    load64 (pushMemW m sp g15 g14 g13 g12 g6 g7 g3 g5) (rbpW sp + UInt64.ofNat (8 * 7)) = g15 := by
  unfold pushMemW
  obtain ⟨a1, a2, a3, a4, a5, a6, a7, a8⟩ := push_addrsW sp
  rw [a8, a7, a6, a5, a4, a3, a2, a1]
  exact pops_of_pushesW _ _ _ _ _ _ _ _ _ _

end B3.AsmSem.Many.W
