/- The Windows-GNU `blake3_hash_many_sse41`: the complete theorem (`hash_many_w_correct`): memory, `rsp`, and the Win64
calling-convention clause (rbx rbp rdi rsi r12-r15 and xmm6-xmm15 restored). -/
import B3.Asm.ManyWRestore
namespace B3.AsmSem.Many.W
open B3 B3.Simd B3.AsmSem B3.Gen.AsmSse41Many

/-- outside the save area `saveMem` changes nothing -/
theorem saveMem_outside (m : Memory) (fb : UInt64) (x6 x7 x8 x9 x10 x11 x12 x13 x14 x15 : V4) (p : UInt64)
    (h : ∀ d : Nat, 368 ≤ d → d ≤ 512 → 16 ≤ (p - (fb + dispU (d : Int))).toNat) :
    saveMem m fb x6 x7 x8 x9 x10 x11 x12 x13 x14 x15 p = m p := by
  unfold saveMem
  rw [store128_outside _ (fb + dispU 512) _ _ (h 512 (by omega) (by omega)),
    store128_outside _ (fb + dispU 496) _ _ (h 496 (by omega) (by omega)),
    store128_outside _ (fb + dispU 480) _ _ (h 480 (by omega) (by omega)),
    store128_outside _ (fb + dispU 464) _ _ (h 464 (by omega) (by omega)),
    store128_outside _ (fb + dispU 448) _ _ (h 448 (by omega) (by omega)),
    store128_outside _ (fb + dispU 432) _ _ (h 432 (by omega) (by omega)),
    store128_outside _ (fb + dispU 416) _ _ (h 416 (by omega) (by omega)),
    store128_outside _ (fb + dispU 400) _ _ (h 400 (by omega) (by omega)),
    store128_outside _ (fb + dispU 384) _ _ (h 384 (by omega) (by omega)),
    store128_outside _ (fb + dispU 368) _ _ (h 368 (by omega) (by omega))]

theorem plus8W (x : UInt64) :
    x = x + UInt64.ofNat (8 * 0) ∧ x + 8 = x + UInt64.ofNat (8 * 1) ∧ x + 8 + 8 = x + UInt64.ofNat (8 * 2) ∧
    x + 8 + 8 + 8 = x + UInt64.ofNat (8 * 3) ∧ x + 8 + 8 + 8 + 8 = x + UInt64.ofNat (8 * 4) ∧
    x + 8 + 8 + 8 + 8 + 8 = x + UInt64.ofNat (8 * 5) ∧ x + 8 + 8 + 8 + 8 + 8 + 8 = x + UInt64.ofNat (8 * 6) ∧
    x + 8 + 8 + 8 + 8 + 8 + 8 + 8 = x + UInt64.ofNat (8 * 7) := by
  have e8 : (8 : UInt64) = UInt64.ofNat 8 := rfl
  refine ⟨?_, rfl, ?_, ?_, ?_, ?_, ?_, ?_⟩
  · rw [Nat.mul_zero, show UInt64.ofNat 0 = 0 from rfl, UInt64.add_zero]
  · rw [e8, addr_add]
  · rw [e8, addr_add, addr_add]
  · rw [e8, addr_add, addr_add, addr_add]
  · rw [e8, addr_add, addr_add, addr_add, addr_add]
  · rw [e8, addr_add, addr_add, addr_add, addr_add, addr_add]
  · rw [e8, addr_add, addr_add, addr_add, addr_add, addr_add, addr_add]

section
variable {rb : UInt64} {s : State} {A : HmArgs} (E : EntryW rb s A)
include E

set_option maxRecDepth 20000 in
/-- a byte of the scratch area outside the frame: the final memory holds what the prologue left there -/
theorem MF_scratch (F' : Vector V4 22) (p : UInt64) (hf : 352 ≤ (p - frameBaseW s.gpr[rsp]).toNat)
    (hs : (p - scratchW s.gpr[rsp]).toNat < 656) : MF s A F' p = MW s p := by
  unfold MF
  rw [frameMem_out _ _ _ _ hf]
  have hlen : (A.outBytes s.mem).length = 32 * A.n := outBytes_length _ _ _ _ _ _ _ _ _
  apply writeBytes_outside _ _ _ (32 * A.n) (by omega)
  have := E.out_scratch.symm (p - scratchW s.gpr[rsp]).toNat hs
  rwa [UInt64.ofNat_toNat, UInt64.add_comm, UInt64.sub_add_cancel] at this

set_option maxRecDepth 20000 in
/-- push slot `k`: the final memory holds the pushed register -/
theorem slotW (F' : Vector V4 22) (k : Nat) (hk : k ≤ 7) :
    load64 (MF s A F') (rbpW s.gpr[rsp] + UInt64.ofNat (8 * k))
      = load64 (pushMemW s.mem s.gpr[rsp] s.gpr[r15] s.gpr[r14] s.gpr[r13] s.gpr[r12] s.gpr[rsi] s.gpr[rdi] s.gpr[rbx] s.gpr[rbp])
          (rbpW s.gpr[rsp] + UInt64.ofNat (8 * k)) := by
  obtain ⟨_, hlo, hhi⟩ := frameBaseW_spec s.gpr[rsp] E.hsp
  have hsc := scratchW_toNat s.gpr[rsp] E.hsp
  have hbp := rbpW_toNat s.gpr[rsp] (by have := E.hsp; omega)
  have hsp := s.gpr[rsp].toNat_lt
  have h704 := E.hsp
  have ha : ∀ i, i < 8 → (rbpW s.gpr[rsp] + UInt64.ofNat (8 * k) + UInt64.ofNat i).toNat = s.gpr[rsp].toNat - 64 + 8 * k + i := by
    intro i hi
    rw [addr_add, UInt64.toNat_add, hbp, ofNat_toNat_lt (8 * k + i) (by omega)]
    omega
  apply SameOn.load64 (k := 8) _ (by omega)
  intro i hi
  have hai := ha i hi
  have h1 : MF s A F' (rbpW s.gpr[rsp] + UInt64.ofNat (8 * k) + UInt64.ofNat i)
      = MW s (rbpW s.gpr[rsp] + UInt64.ofNat (8 * k) + UInt64.ofNat i) := by
    apply MF_scratch E F'
    · rw [UInt64.toNat_sub, hai]
      have := (frameBaseW s.gpr[rsp]).toNat_lt
      omega
    · rw [UInt64.toNat_sub, hai, hsc]
      omega
  rw [h1]
  unfold MW
  apply saveMem_outside
  intro d hd1 hd2
  rw [UInt64.toNat_sub, hai, fb_disp_toNat _ E.hsp d (by omega)]
  omega

set_option maxRecDepth 20000 in
/-- save slot at `frame base + d`: the final memory holds what the prologue stored -/
theorem saveW (F' : Vector V4 22) (d : Nat) (hd1 : 368 ≤ d) (hd2 : d ≤ 512) :
    load128 (MF s A F') (frameBaseW s.gpr[rsp] + dispU (d : Int)) = load128 (MW s) (frameBaseW s.gpr[rsp] + dispU (d : Int)) := by
  obtain ⟨_, hlo, hhi⟩ := frameBaseW_spec s.gpr[rsp] E.hsp
  have hsc := scratchW_toNat s.gpr[rsp] E.hsp
  have hsp := s.gpr[rsp].toNat_lt
  have h704 := E.hsp
  have hfd := fb_disp_toNat _ E.hsp d (by omega)
  apply SameOn.load128 (k := 16) _ (by omega)
  intro i hi
  have hai : (frameBaseW s.gpr[rsp] + dispU (d : Int) + UInt64.ofNat i).toNat = (frameBaseW s.gpr[rsp]).toNat + d + i := by
    rw [UInt64.toNat_add, hfd, ofNat_toNat_lt i (by omega)]
    omega
  apply MF_scratch E F'
  · rw [UInt64.toNat_sub, hai]
    have := (frameBaseW s.gpr[rsp]).toNat_lt
    omega
  · rw [UInt64.toNat_sub, hai, hsc]
    omega

end

/-! ### main theorem -/

set_option maxRecDepth 100000 in
/-- **blake3_hash_many_sse41, Windows-GNU flavour.**  For every state satisfying `EntryW` (any number of inputs, any block
count `≥ 1`, any counter, any flags): after some number `N` of instructions the routine has returned without fault; every
byte of memory outside the 656 bytes below the entry `rsp` is what it was, except that the `32 * num_inputs` bytes at `out`
hold the chaining values of the inputs in order (`HmArgs.outBytes`, the same function of the specification as for the unix
routine); `rsp` is the entry `rsp + 8`; `rbx rbp rdi rsi r12 r13 r14 r15` and `xmm6 .. xmm15` are restored. -/
theorem hash_many_w_correct {rb : UInt64} {s : State} {A : HmArgs} (E : EntryW rb s A) :
    ∃ N, (ManyW.run rb progW N s).status = .returned ∧ (ManyW.run rb progW N s).ok = true ∧
      (∀ p, 656 ≤ (p - scratchW s.gpr[rsp]).toNat →
        (ManyW.run rb progW N s).mem p = writeBytes s.mem A.out (A.outBytes s.mem) p) ∧
      (ManyW.run rb progW N s).gpr[rsp] = s.gpr[rsp] + 8 ∧
      (ManyW.run rb progW N s).gpr[rbx] = s.gpr[rbx] ∧ (ManyW.run rb progW N s).gpr[rbp] = s.gpr[rbp] ∧
      (ManyW.run rb progW N s).gpr[rdi] = s.gpr[rdi] ∧ (ManyW.run rb progW N s).gpr[rsi] = s.gpr[rsi] ∧
      (ManyW.run rb progW N s).gpr[r12] = s.gpr[r12] ∧ (ManyW.run rb progW N s).gpr[r13] = s.gpr[r13] ∧
      (ManyW.run rb progW N s).gpr[r14] = s.gpr[r14] ∧ (ManyW.run rb progW N s).gpr[r15] = s.gpr[r15] ∧
      (ManyW.run rb progW N s).xmm[6] = s.xmm[6] ∧ (ManyW.run rb progW N s).xmm[7] = s.xmm[7] ∧
      (ManyW.run rb progW N s).xmm[8] = s.xmm[8] ∧ (ManyW.run rb progW N s).xmm[9] = s.xmm[9] ∧
      (ManyW.run rb progW N s).xmm[10] = s.xmm[10] ∧ (ManyW.run rb progW N s).xmm[11] = s.xmm[11] ∧
      (ManyW.run rb progW N s).xmm[12] = s.xmm[12] ∧ (ManyW.run rb progW N s).xmm[13] = s.xmm[13] ∧
      (ManyW.run rb progW N s).xmm[14] = s.xmm[14] ∧ (ManyW.run rb progW N s).xmm[15] = s.xmm[15] := by
  obtain ⟨N, x', ax, dx, a8, a9, a10, a11, z', c', F', h⟩ :=
    hash_many_w_final E.pc E.running E.ok E.rcx E.rdx E.r8 E.r9 (midOK E)
  refine ⟨N, ?_⟩
  rw [h]
  obtain ⟨p0, p1, p2, p3, p4, p5, p6, p7⟩ := plus8W (rbpW s.gpr[rsp])
  obtain ⟨s0, s1, s2, s3, s4, s5, s6, s7⟩ := pushMemW_slots s.mem s.gpr[rsp] s.gpr[r15] s.gpr[r14] s.gpr[r13] s.gpr[r12]
    s.gpr[rsi] s.gpr[rdi] s.gpr[rbx] s.gpr[rbp]
  obtain ⟨v6, v7, v8, v9, v10, v11, v12, v13, v14, v15⟩ := saveMem_slots
    (pushMemW s.mem s.gpr[rsp] s.gpr[r15] s.gpr[r14] s.gpr[r13] s.gpr[r12] s.gpr[rsi] s.gpr[rdi] s.gpr[rbx] s.gpr[rbp])
    (frameBaseW s.gpr[rsp]) s.xmm[6] s.xmm[7] s.xmm[8] s.xmm[9] s.xmm[10] s.xmm[11] s.xmm[12] s.xmm[13] s.xmm[14] s.xmm[15]
  refine ⟨rfl, rfl, fun p hp => final_memW E F' p hp, rsp_restoredW _, ?_, ?_, ?_, ?_, ?_, ?_, ?_, ?_, ?_, ?_, ?_, ?_, ?_, ?_, ?_,
    ?_, ?_, ?_⟩
  · show load64 _ (rbpW s.gpr[rsp] + 8) = _
    rw [p1, slotW E F' 1 (by omega), s1]
  · show load64 _ (rbpW s.gpr[rsp]) = _
    rw [p0, slotW E F' 0 (by omega), s0]
  · show load64 _ (rbpW s.gpr[rsp] + 8 + 8) = _
    rw [p2, slotW E F' 2 (by omega), s2]
  · show load64 _ (rbpW s.gpr[rsp] + 8 + 8 + 8) = _
    rw [p3, slotW E F' 3 (by omega), s3]
  · show load64 _ (rbpW s.gpr[rsp] + 8 + 8 + 8 + 8) = _
    rw [p4, slotW E F' 4 (by omega), s4]
  · show load64 _ (rbpW s.gpr[rsp] + 8 + 8 + 8 + 8 + 8) = _
    rw [p5, slotW E F' 5 (by omega), s5]
  · show load64 _ (rbpW s.gpr[rsp] + 8 + 8 + 8 + 8 + 8 + 8) = _
    rw [p6, slotW E F' 6 (by omega), s6]
  · show load64 _ (rbpW s.gpr[rsp] + 8 + 8 + 8 + 8 + 8 + 8 + 8) = _
    rw [p7, slotW E F' 7 (by omega), s7]
  · exact (saveW E F' 368 (by omega) (by omega)).trans v6
  · exact (saveW E F' 384 (by omega) (by omega)).trans v7
  · exact (saveW E F' 400 (by omega) (by omega)).trans v8
  · exact (saveW E F' 416 (by omega) (by omega)).trans v9
  · exact (saveW E F' 432 (by omega) (by omega)).trans v10
  · exact (saveW E F' 448 (by omega) (by omega)).trans v11
  · exact (saveW E F' 464 (by omega) (by omega)).trans v12
  · exact (saveW E F' 480 (by omega) (by omega)).trans v13
  · exact (saveW E F' 496 (by omega) (by omega)).trans v14
  · exact (saveW E F' 512 (by omega) (by omega)).trans v15

end B3.AsmSem.Many.W
