/-
Memory primitives for code translated from C with data (Gen/CState.lean): byte arrays are lists of
bytes, a pointer into an array is the array together with an offset, a `const uint8_t *` that walks
through an input buffer is the remaining suffix of that buffer.  Every access outside the array -
undefined behaviour in C - is `R.panic`, so a theorem `f … = .ok …` includes "no out-of-bounds access".
`memcpy`/`memset`/`load_key_words`/`store_cv_words`/`strlen` have their C meaning (trusted, like the
primitive mapping of gen/extract.py).  Uninitialised locals are filled from an arbitrary function
`junk`, so a theorem that holds for every `junk` does not depend on uninitialised memory.
-/
import B3.Prim
import B3.Arith
namespace B3.CMem
open B3

/-- read `n` bytes at offset `off` -/
def rd (a : List UInt8) (off n : Nat) : R (List UInt8) :=
  if off + n ≤ a.length then .ok ((a.drop off).take n) else .panic

/-- pointer arithmetic `p + off` on a read pointer: the rest of the buffer (one past the end is allowed) -/
def ptr (a : List UInt8) (off : Nat) : R (List UInt8) :=
  if off ≤ a.length then .ok (a.drop off) else .panic

/-- overwrite `b.length` bytes at offset `off` -/
def wr (a : List UInt8) (off : Nat) (b : List UInt8) : R (List UInt8) :=
  if off + b.length ≤ a.length then .ok (a.take off ++ b ++ a.drop (off + b.length)) else .panic

/-- `memcpy(dst + doff, src + soff, n)` on byte arrays (source and destination do not overlap) -/
def memcpy (dst : List UInt8) (doff : Nat) (src : List UInt8) (soff n : Nat) : R (List UInt8) :=
  match rd src soff n with
  | .ok b => wr dst doff b
  | .panic => .panic

/-- `memset(dst + doff, v, n)` -/
def memset (dst : List UInt8) (doff : Nat) (v : UInt8) (n : Nat) : R (List UInt8) :=
  wr dst doff (List.replicate n v)

/-- `memcpy(dst, src, n)` between two `uint32_t[8]` arrays: `n` bytes, a whole number of words -/
def memcpyW (dst src : CV) (n : Nat) : R CV :=
  if n % 4 = 0 ∧ n ≤ 32 then .ok (Vector.ofFn fun i : Fin 8 => if i.val < n / 4 then src[i] else dst[i]) else .panic

/-- an `int` used as an array index / pointer offset: negative is out of bounds -/
def idx (i : Int) : R Nat := if 0 ≤ i then .ok i.toNat else .panic

/-- conversion of a (small) `int` to `size_t`: negative values wrap -/
def sizeOfInt (i : Int) : Nat := if 0 ≤ i then i.toNat else (i + 18446744073709551616).toNat

/-- `load_key_words(key + off, words)` -/
def load_key_words (key : List UInt8) (off : Nat) : R CV :=
  match rd key off 32 with
  | .ok b => .ok (wordsOfBytes 8 b)
  | .panic => .panic

/-- `store_cv_words(dst + off, words)` -/
def store_cv_words (dst : List UInt8) (off : Nat) (w : CV) : R (List UInt8) := wr dst off (bytesOfWords w)

/-- `strlen`: index of the first NUL byte; reading past the end of the buffer is undefined -/
def strlen : List UInt8 → R Nat
  | [] => .panic
  | b :: rest => if b = 0 then .ok 0 else
      match strlen rest with
      | .ok n => .ok (n + 1)
      | .panic => .panic

/-- uninitialised memory: `n` arbitrary bytes -/
def uninitBytes (junk : Nat → UInt8) (off n : Nat) : List UInt8 := (List.range n).map fun i => junk (off + i)
def uninit8 (junk : Nat → UInt8) (off : Nat) : UInt8 := junk off
def uninitWords (junk : Nat → UInt8) (off : Nat) : CV :=
  Vector.ofFn fun i : Fin 8 => le32 (junk (off + 4 * i.val)) (junk (off + 4 * i.val + 1)) (junk (off + 4 * i.val + 2)) (junk (off + 4 * i.val + 3))
def uninit64 (junk : Nat → UInt8) (off : Nat) : Nat :=
  (junk off).toNat + 256 * ((junk (off + 1)).toNat + 256 * ((junk (off + 2)).toNat + 256 * ((junk (off + 3)).toNat +
    256 * ((junk (off + 4)).toNat + 256 * ((junk (off + 5)).toNat + 256 * ((junk (off + 6)).toNat + 256 * (junk (off + 7)).toNat))))))
def uninitBool (junk : Nat → UInt8) (off : Nat) : Bool := junk off != 0

end B3.CMem
