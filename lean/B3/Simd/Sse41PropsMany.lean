/-
The theorems about `hash1` and `hash_many` of src/rust_sse41.rs (continuation of `Sse41Props.lean`).
-/
import B3.Simd.Sse41Props
namespace B3.Simd
open B3 B3.Gen.RsSse41

/-! ### hash1 and hash_many

`&[u8; N]` is the list of its `N` bytes (`N` itself is passed as a `Nat`, it is only used to compute the
number of blocks in `hash_many`), `&[&[u8; N]]` a list of such lists, and `&mut [u8]` a window
`MutSlice = ⟨buf, off, len⟩` into a buffer.  The `while` loops are translated with an iteration bound
(`whileFuel`); `hash1_loop` / `many_loop` show that the loops end because their condition becomes false. -/

/-- `hash1` = the reference fold over the blocks of its input, whose length is a multiple of 64 (the
`debug_assert`; otherwise the trailing partial block is ignored and `flags_end` is never applied) -/
theorem sse41_hash1_eq (N : Nat) (input : List UInt8) (key : CV) (counter : UInt64) (flags fs fe : UInt8) (out : CV)
    (h64 : input.length % 64 = 0) :
    Gen.RsSse41.hash1 N input key counter flags fs fe out
      = specHashBlocks key (blockOfBytes input) (input.length / 64) counter flags fs fe := by
  rw [hash1_eq N input key counter flags fs fe out (input.length / 64) (by omega)]
  rfl

/-- the hypothesis is satisfiable: two blocks of zeros -/
example : ∃ input : List UInt8, input.length % 64 = 0 ∧ input.length / 64 = 2 :=
  ⟨List.replicate 128 0, by simp, by simp⟩

theorem advN_eq (incr : Bool) (t : UInt64) (k : Nat) :
    advN incr t k = t + (if incr then UInt64.ofNat k else 0) := by
  induction k with
  | zero => cases incr <;> simp [advN]
  | succ k ih =>
    cases incr
    · simp [advN, adv, ih]
    · have h1 : UInt64.ofNat 1 = 1 := by decide
      simp only [advN, adv, ih, if_true, UInt64.ofNat_add, UInt64.add_assoc, h1]

/-- the chaining value of input `k` of `hash_many` -/
def specManyCV (N : Nat) (inputs : List (List UInt8)) (key : CV) (counter : UInt64) (incr : Bool)
    (flags fs fe : UInt8) (k : Nat) : CV :=
  specHashBlocks key (blockOfBytes (inputs.getD k [])) (N / 64)
    (counter + (if incr then UInt64.ofNat k else 0)) flags fs fe

theorem outBytes_eq_flatMap (N : Nat) (key : CV) (flags fs fe : UInt8) (incr : Bool) (xs : List (List UInt8)) (t : UInt64) :
    outBytes N key flags fs fe incr xs t
      = (List.range xs.length).flatMap fun k => bytesOfWords (cvOf N key flags fs fe (xs.getD k []) (advN incr t k)) := by
  induction xs generalizing t with
  | nil => rfl
  | cons x xs ih =>
    rw [outBytes, ih, List.length_cons, List.range_succ_eq_map, List.flatMap_cons, List.flatMap_map]
    simp only [List.getD_cons_zero, advN, List.getD_cons_succ, advN_adv]

/-- **hash_many.**  If every input has `N` bytes, `N` is a multiple of 64, the output slice lies inside its
buffer and has room for 32 bytes per input (the `debug_assert`), then `hash_many` overwrites bytes
`off … off + 32·count` of the buffer with the chaining values of the inputs in order -- input `k` hashed
with counter `counter + k` (wrapping) if `increment_counter`, else `counter` -- and changes nothing else. -/
theorem sse41_hash_many_eq (N : Nat) (inputs : List (List UInt8)) (key : CV) (counter : UInt64) (incr : Bool)
    (flags fs fe : UInt8) (out : MutSlice) (hN : ∀ x ∈ inputs, x.length = N) (h64 : N % 64 = 0)
    (hwf : out.off + out.len ≤ out.buf.length) (hlen : 32 * inputs.length ≤ out.len) :
    (Gen.RsSse41.hash_many N inputs key counter incr flags fs fe out).buf
      = out.buf.take out.off
        ++ (List.range inputs.length).flatMap (fun k => bytesOfWords (specManyCV N inputs key counter incr flags fs fe k))
        ++ out.buf.drop (out.off + 32 * inputs.length) := by
  rw [hash_many_eq N inputs key counter incr flags fs fe out hN h64 hwf hlen, writeAt, outBytes_length,
    outBytes_eq_flatMap]
  simp only [cvOf, specManyCV, specHashBlocks, foldBlocksN, flagsAt, advN_eq]

/-- the hypotheses are satisfiable: five one-block inputs, a 160-byte buffer -/
example : ∃ (inputs : List (List UInt8)) (out : MutSlice), (∀ x ∈ inputs, x.length = 64) ∧ 64 % 64 = 0 ∧
    out.off + out.len ≤ out.buf.length ∧ 32 * inputs.length ≤ out.len ∧ inputs.length = 5 :=
  ⟨List.replicate 5 (List.replicate 64 0), MutSlice.ofList (List.replicate 160 0),
   by intro x hx; rw [List.eq_of_mem_replicate hx]; simp, by decide, by simp [MutSlice.ofList], by simp [MutSlice.ofList], by simp⟩

end B3.Simd
