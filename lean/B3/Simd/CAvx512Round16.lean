/- `round_fn16`: every lane is the specification's round -/
import B3.Simd.CAvx512Run16
import B3.Simd.CAvx512Rounds
namespace B3.Simd.C512
open B3 B3.Gen.CAvx512
open B3.Gen.C (MSG_SCHEDULE)

/-- the statement list of `round_fn16`, evaluated on boxed words, is the (re-associated) specification round -/
theorem prog16_boxed (s x : St) : toS (rrun opsW round_fn16_prog (ofS s) (ofS x)) = roundWithA s (fun i => x[i]) := by
  boxed_round_tac s x

theorem prog16_scalar (s x : St) : rrun opsS round_fn16_prog s x = Spec.roundWith s (fun i => x[i]) :=
  scalar_of_boxed round_fn16_prog prog16_boxed s x

theorem lane16_cases (P : Fin 16 → Prop) (h0 : P 0) (h1 : P 1) (h2 : P 2) (h3 : P 3) (h4 : P 4) (h5 : P 5) (h6 : P 6)
    (h7 : P 7) (h8 : P 8) (h9 : P 9) (h10 : P 10) (h11 : P 11) (h12 : P 12) (h13 : P 13) (h14 : P 14) (h15 : P 15)
    (l : Fin 16) : P l := by
  match l with
  | ⟨0, _⟩ => exact h0 | ⟨1, _⟩ => exact h1 | ⟨2, _⟩ => exact h2 | ⟨3, _⟩ => exact h3
  | ⟨4, _⟩ => exact h4 | ⟨5, _⟩ => exact h5 | ⟨6, _⟩ => exact h6 | ⟨7, _⟩ => exact h7
  | ⟨8, _⟩ => exact h8 | ⟨9, _⟩ => exact h9 | ⟨10, _⟩ => exact h10 | ⟨11, _⟩ => exact h11
  | ⟨12, _⟩ => exact h12 | ⟨13, _⟩ => exact h13 | ⟨14, _⟩ => exact h14 | ⟨15, _⟩ => exact h15
  | ⟨n + 16, h⟩ => omega

theorem map2_16_get (f : UInt32 → UInt32 → UInt32) (a b : V16) (l : Fin 16) : (map2_16 f a b)[l] = f a[l] b[l] := by
  revert l
  apply lane16_cases <;> rfl

theorem map16_get (f : UInt32 → UInt32) (a : V16) (l : Fin 16) : (map16 f a)[l] = f a[l] := by
  revert l
  apply lane16_cases <;> rfl

theorem ror32_eq (x : UInt32) : ror32 x 16 = rotr x 16 ∧ ror32 x 12 = rotr x 12 ∧ ror32 x 8 = rotr x 8 ∧ ror32 x 7 = rotr x 7 := by
  refine ⟨?_, ?_, ?_, ?_⟩ <;> kernel_rfl

theorem hom16 (l : Fin 16) : ops16.Hom opsS (fun a => a[l]) := by
  constructor
  · intro a b; exact map2_16_get (· + ·) a b l
  · intro a b; exact map2_16_get (· ^^^ ·) a b l
  · intro a; exact (map16_get (fun x => ror32 x 16) a l).trans (ror32_eq _).1
  · intro a; exact (map16_get (fun x => ror32 x 12) a l).trans (ror32_eq _).2.1
  · intro a; exact (map16_get (fun x => ror32 x 8) a l).trans (ror32_eq _).2.2.1
  · intro a; exact (map16_get (fun x => ror32 x 7) a l).trans (ror32_eq _).2.2.2

/-- lane `l` of the 16-way round is one round of the specification on lane `l` of the state, with the message
words of lane `l` taken in the order `MSG_SCHEDULE[r]` -/
theorem round_fn16_lane (v m : Vector V16 16) (r : Fin 7) (l : Fin 16) :
    laneN l (round_fn16 v m r) = Spec.roundWith (laneN l v) (fun i => (laneN l m)[MSG_SCHEDULE[r][i]]) := by
  rw [round_fn16_eq_run]
  exact round_lane_of_run ops16 round_fn16_prog hom16 prog16_scalar v m r l

end B3.Simd.C512
