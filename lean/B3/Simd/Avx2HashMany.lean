/- `hash_many` of the AVX2 file: groups of eight inputs through `hash8`, the remaining ones (at most seven, when
`out` is long enough) through `B3.Gen.RsSse41.hash_many`, for which `hash_many_eq` (`Sse41HashMany.lean`) is used.
The byte-level lemmas and the reference `outBytes` / `cvOf` / `advN` are those of `Sse41HashMany.lean`. -/
import B3.Simd.Sse41PropsMany
import B3.Simd.Avx2Hash8
namespace B3.Simd.Avx2
open B3 B3.Simd B3.Gen.RsAvx2

/-! ### one group of eight inputs -/

theorem bytesOfWords_split64 (w : Vector UInt32 64) :
    bytesOfWords w = bytesOfWords (outCV8 0 w) ++ (bytesOfWords (outCV8 1 w) ++
      (bytesOfWords (outCV8 2 w) ++ (bytesOfWords (outCV8 3 w) ++ (bytesOfWords (outCV8 4 w) ++
      (bytesOfWords (outCV8 5 w) ++ (bytesOfWords (outCV8 6 w) ++ (bytesOfWords (outCV8 7 w) ++ []))))))) := by
  rw [vec64_eta w]
  kernel_rfl

theorem ctr8_eq_advN (t : UInt64) (incr : Bool) (i : Fin 8) : ctr8 t incr i = advN incr t i.val := by
  rw [advN_eq]; rfl

theorem hash8_cv (N : Nat) (key : CV) (flags fs fe : UInt8) (incr : Bool) (x0 x1 x2 x3 x4 x5 x6 x7 : List UInt8)
    (rest : List (List UInt8)) (t : UInt64) (w : Vector UInt32 64) (i : Fin 8) :
    outCV8 i (hash8 (ptrs8 (x0 :: x1 :: x2 :: x3 :: x4 :: x5 :: x6 :: x7 :: rest)) (N / 64) key t incr flags fs fe w)
      = cvOf N key flags fs fe ([x0, x1, x2, x3, x4, x5, x6, x7][i]) (advN incr t i.val) := by
  rw [hash8_lane, ctr8_eq_advN, cvOf]
  congr 1
  funext b
  match i with
  | 0 => exact blockAt_memOf x0 b
  | 1 => exact blockAt_memOf x1 b
  | 2 => exact blockAt_memOf x2 b
  | 3 => exact blockAt_memOf x3 b
  | 4 => exact blockAt_memOf x4 b
  | 5 => exact blockAt_memOf x5 b
  | 6 => exact blockAt_memOf x6 b
  | 7 => exact blockAt_memOf x7 b

/-- `hash8` on the first eight of at least eight inputs writes their eight chaining values -/
theorem hash8_bytes (N : Nat) (key : CV) (flags fs fe : UInt8) (incr : Bool) (xs : List (List UInt8)) (t : UInt64)
    (w : Vector UInt32 64) (h : 8 ≤ xs.length) :
    bytesOfWords (hash8 (ptrs8 xs) (N / 64) key t incr flags fs fe w)
      = outBytes N key flags fs fe incr (xs.take 8) t := by
  match xs, h with
  | x0 :: x1 :: x2 :: x3 :: x4 :: x5 :: x6 :: x7 :: rest, _ =>
    rw [bytesOfWords_split64, hash8_cv, hash8_cv, hash8_cv, hash8_cv, hash8_cv, hash8_cv, hash8_cv, hash8_cv]
    rfl

/-! ### the loop -/

theorem advN_eight (incr : Bool) (t : UInt64) : (if incr then t + 8 else t) = advN incr t 8 := by
  rw [advN_eq]
  have h8 : UInt64.ofNat 8 = 8 := by decide
  cases incr <;> simp [h8]

/-- one iteration of the `while` loop of `hash_many` -/
theorem many_step (N : Nat) (key : CV) (incr : Bool) (flags fs fe : UInt8) (o : MutSlice) (t : UInt64)
    (xs : List (List UInt8)) (h8 : 8 ≤ xs.length) :
    hash_many_loop2 N key incr flags fs fe (o, t, xs)
      = (⟨writeAt o.buf o.off (outBytes N key flags fs fe incr (xs.take 8) t), o.off + 256, o.len - 256⟩,
         advN incr t 8, xs.drop 8) := by
  simp only [hash_many_loop2, MutSlice.writeWords, MutSlice.from, hash8_bytes N key flags fs fe incr xs t _ h8,
    advN_eight, writeAt, outBytes_length, List.length_take, Nat.min_eq_left h8, Nat.add_zero]

/-- what follows the `while` loop in `hash_many` (the call of `crate::sse41::hash_many`), as a function of the
state the loop leaves -/
def manyRem (N : Nat) (key : CV) (incr : Bool) (flags fs fe : UInt8) (st : MutSlice × UInt64 × List (List UInt8)) : MutSlice :=
  B3.Gen.RsSse41.hash_many N st.2.2 key st.2.1 incr flags fs fe st.1

theorem hash_many_unfold (N : Nat) (inputs : List (List UInt8)) (key : CV) (counter : UInt64) (incr : Bool)
    (flags fs fe : UInt8) (out : MutSlice) :
    hash_many N inputs key counter incr flags fs fe out
      = manyRem N key incr flags fs fe
          (whileFuel (inputs.length + 1) hash_many_cond1 (hash_many_loop2 N key incr flags fs fe) (out, counter, inputs)) := rfl

/-- the remainder, by the theorem about the SSE4.1 `hash_many` -/
theorem manyRem_eq (N : Nat) (key : CV) (incr : Bool) (flags fs fe : UInt8) (o : MutSlice) (t : UInt64)
    (xs : List (List UInt8)) (hN : ∀ x ∈ xs, x.length = N) (h64 : N % 64 = 0) (hwf : o.wf) (hlen : 32 * xs.length ≤ o.len) :
    (manyRem N key incr flags fs fe (o, t, xs)).buf = writeAt o.buf o.off (outBytes N key flags fs fe incr xs t) :=
  B3.Simd.hash_many_eq N xs key t incr flags fs fe o hN h64 hwf hlen

/-- the whole of `hash_many`, for any sufficient iteration bound -/
theorem many_loop (N : Nat) (key : CV) (incr : Bool) (flags fs fe : UInt8) (h64 : N % 64 = 0) :
    ∀ (n : Nat) (o : MutSlice) (t : UInt64) (xs : List (List UInt8)) (fuel : Nat), xs.length = n →
      (∀ x ∈ xs, x.length = N) → o.wf → 32 * xs.length ≤ o.len → xs.length + 1 ≤ fuel →
      (manyRem N key incr flags fs fe
        (whileFuel fuel hash_many_cond1 (hash_many_loop2 N key incr flags fs fe) (o, t, xs))).buf
        = writeAt o.buf o.off (outBytes N key flags fs fe incr xs t) ∧
      ∃ st, whileFuel fuel hash_many_cond1 (hash_many_loop2 N key incr flags fs fe) (o, t, xs) = st ∧
        hash_many_cond1 st = false := by
  intro n
  induction n using Nat.strongRecOn with
  | _ n ih =>
    intro o t xs fuel hn hN hwf hlen hf
    obtain ⟨fuel, rfl⟩ : ∃ k, fuel = k + 1 := ⟨fuel - 1, by omega⟩
    rw [whileFuel_succ]
    by_cases h8 : 8 ≤ xs.length
    · have hc : hash_many_cond1 (o, t, xs) = true := by
        simp only [hash_many_cond1, decide_eq_true_eq]; omega
      rw [hc, if_pos rfl, many_step N key incr flags fs fe o t xs h8]
      have hA : (outBytes N key flags fs fe incr (xs.take 8) t).length = 256 := by
        rw [outBytes_length, List.length_take, Nat.min_eq_left h8]
      unfold MutSlice.wf at hwf
      have hwf' : MutSlice.wf ⟨writeAt o.buf o.off (outBytes N key flags fs fe incr (xs.take 8) t), o.off + 256, o.len - 256⟩ := by
        unfold MutSlice.wf
        simp only [writeAt_length _ _ _ (show o.off + (outBytes N key flags fs fe incr (xs.take 8) t).length ≤ o.buf.length by omega)]
        omega
      obtain ⟨r1, r2⟩ := ih (n - 8) (by omega) _ (advN incr t 8) (xs.drop 8) fuel (by rw [List.length_drop]; omega)
        (fun x hx => hN x (List.mem_of_mem_drop hx)) hwf' (by simp only [List.length_drop]; omega)
        (by rw [List.length_drop]; omega)
      refine ⟨?_, r2⟩
      rw [r1]
      have hw := writeAt_writeAt o.buf o.off (outBytes N key flags fs fe incr (xs.take 8) t)
        (outBytes N key flags fs fe incr (xs.drop 8) (advN incr t 8)) (by omega)
      rw [hA] at hw
      rw [hw]
      have e := outBytes_append N key flags fs fe incr (xs.take 8) (xs.drop 8) t
      rw [List.take_append_drop, List.length_take, Nat.min_eq_left h8] at e
      rw [e]
    · have hc : hash_many_cond1 (o, t, xs) = false := by
        simp only [hash_many_cond1, decide_eq_false_iff_not]; omega
      rw [hc]
      exact ⟨manyRem_eq N key incr flags fs fe o t xs hN h64 hwf hlen, _, rfl, hc⟩

/-- `hash_many` overwrites bytes `off … off + 32 * inputs.length` of the buffer with the chaining values of
the inputs (input `k` hashed with counter `advN incr counter k`), and nothing else -/
theorem hash_many_eq (N : Nat) (inputs : List (List UInt8)) (key : CV) (counter : UInt64) (incr : Bool)
    (flags fs fe : UInt8) (out : MutSlice) (hN : ∀ x ∈ inputs, x.length = N) (h64 : N % 64 = 0)
    (hwf : out.wf) (hlen : 32 * inputs.length ≤ out.len) :
    (hash_many N inputs key counter incr flags fs fe out).buf
      = writeAt out.buf out.off (outBytes N key flags fs fe incr inputs counter) := by
  rw [hash_many_unfold]
  exact (many_loop N key incr flags fs fe h64 inputs.length out counter inputs (inputs.length + 1) rfl hN hwf hlen
    (Nat.le_refl _)).1

end B3.Simd.Avx2
