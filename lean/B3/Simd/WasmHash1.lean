/- `hash1` of the Wasm SIMD file (the one-input fallback of `hash_many`): a `while` loop of `compress_in_place`
(`blockOfBytes`, `whileFuel_succ`: `Sse41Hash1.lean`) -/
import B3.Simd.Sse41Hash1
import B3.Simd.WasmCompress
import B3.Simd.WasmHash4
namespace B3.Simd.Wasm
open B3 B3.Simd B3.Gen.RsWasm

/-- the loop of `hash1`, started after `k` of the `total` blocks of `input` -/
theorem hash1_loop (input : List UInt8) (key : CV) (counter : UInt64) (flags fs fe : UInt8) (total : Nat)
    (hlen : input.length = 64 * total) :
    ∀ (d k fuel : Nat), k + d = total → d + 1 ≤ fuel →
      whileFuel fuel hash1_cond1 (hash1_loop2 counter flags fe)
          (if k = 0 then flags ||| fs else flags,
           foldBlocksN key (blockOfBytes input) total counter flags fs fe k, input.drop (64 * k))
        = (if total = 0 then flags ||| fs else flags,
           foldBlocksN key (blockOfBytes input) total counter flags fs fe total, []) := by
  intro d
  induction d with
  | zero =>
    intro k fuel hk hf
    obtain ⟨fuel, rfl⟩ : ∃ n, fuel = n + 1 := ⟨fuel - 1, by omega⟩
    have hk' : k = total := by omega
    subst hk'
    have hd : input.drop (64 * k) = [] := List.drop_eq_nil_of_le (by omega)
    rw [whileFuel_succ, hd]
    rfl
  | succ d ih =>
    intro k fuel hk hf
    obtain ⟨fuel, rfl⟩ : ∃ n, fuel = n + 1 := ⟨fuel - 1, by omega⟩
    have hl : (input.drop (64 * k)).length = 64 * (d + 1) := by rw [List.length_drop]; omega
    rw [whileFuel_succ]
    have hc : hash1_cond1 (if k = 0 then flags ||| fs else flags,
        foldBlocksN key (blockOfBytes input) total counter flags fs fe k, input.drop (64 * k)) = true := by
      simp only [hash1_cond1, hl, decide_eq_true_eq]; omega
    rw [hc, if_pos rfl]
    have hstep : hash1_loop2 counter flags fe (if k = 0 then flags ||| fs else flags,
        foldBlocksN key (blockOfBytes input) total counter flags fs fe k, input.drop (64 * k))
        = (if k + 1 = 0 then flags ||| fs else flags,
           foldBlocksN key (blockOfBytes input) total counter flags fs fe (k + 1), input.drop (64 * (k + 1))) := by
      simp only [hash1_loop2, hl, compress_in_place_eq]
      have e1 : (64 * (d + 1) = 64) ↔ (k + 1 = total) := by omega
      have e2 : arrayRefWords 16 (List.drop (64 * k) input) 0 = blockOfBytes input k := by
        simp [arrayRefWords, blockOfBytes]
      have e3 : List.drop 64 (List.drop (64 * k) input) = List.drop (64 * (k + 1)) input := by
        rw [List.drop_drop]; congr 1 <;> omega
      simp only [e1]
      rw [e2, e3, flags_step]
      simp only [Nat.add_one_ne_zero, if_false]
      congr 1
      congr 1
      unfold foldBlocksN
      rw [List.range_succ, List.foldl_append]
      rfl
    rw [hstep]
    exact ih (k + 1) fuel (by omega) (by omega)

/-- `hash1` = the specification's fold over the blocks of the input (whose length is a multiple of 64:
the `debug_assert`); the loop stops because the slice is exhausted, not because of the fuel bound -/
theorem hash1_eq (N : Nat) (input : List UInt8) (key : CV) (counter : UInt64) (flags fs fe : UInt8) (out : CV)
    (total : Nat) (hlen : input.length = 64 * total) :
    hash1 N input key counter flags fs fe out
      = foldBlocksN key (blockOfBytes input) total counter flags fs fe total := by
  have h := hash1_loop input key counter flags fs fe total hlen total 0 (input.length + 1) (by omega) (by omega)
  simp only [hash1, List.drop_zero]
  have h0 : foldBlocksN key (blockOfBytes input) total counter flags fs fe 0 = key := rfl
  rw [h0] at h
  simp only [Nat.mul_zero, List.drop_zero, if_true] at h
  rw [h]

end B3.Simd.Wasm
