/-
Base lemmas for the proofs about the generated SSE2 kernels (`B3.Gen.RsSse2`, translated from
src/rust_sse2.rs).  The generic definitions (`gA`, `roundWithA`, `row`, `rows8`, `atoms16`, …) are those of
`Sse41Base.lean`; what is new here is `blend_epi16`, the SSE2 emulation of `_mm_blend_epi16`:

  `blend_epi16_eq : blend_epi16 a b imm8 = _mm_blend_epi16 a b imm8.toNat`          (for every `imm8 : UInt32`)

proved from the lane model of the 16-bit-lane intrinsics (`Sse2Prim.lean`): word `j` of the mask is
`(imm8 AND 2^j) == 2^j ? 0xFFFF : 0`, i.e. all-ones iff bit `j` of the immediate is set (`cmpeq16_bit`,
by `BitVec.and_twoPow`), and `(mask AND b) OR (NOT mask AND a)` selects accordingly (`select_lane`, for the four
possible values of a mask lane).  The round proofs rewrite `blend_epi16` into `_mm_blend_epi16`, which the
kernel can evaluate on symbolic lanes.
-/
import B3.Simd.Sse41Base
import B3.Gen.RsSse2
namespace B3.Simd.Sse2
open B3 B3.Simd B3.Gen.RsSse2

/-! ### 16-bit words of 32-bit lanes -/

theorem lo16_pack16 (a b : UInt16) : lo16 (pack16 a b) = a := by
  unfold lo16 pack16
  apply UInt16.toBitVec_inj.mp
  simp

theorem hi16_pack16 (a b : UInt16) : hi16 (pack16 a b) = b := by
  unfold hi16 pack16
  apply UInt16.toBitVec_inj.mp
  simp
  ext i hi
  have h1 : 16 + i < 32 := by omega
  have h2 : ¬ 16 + i < 16 := by omega
  have h3 : i < 32 := by omega
  simp [h1, h2, h3, BitVec.getLsbD_eq_getElem hi]

theorem lo16_and (u v : UInt32) : lo16 (u &&& v) = lo16 u &&& lo16 v := UInt32.toUInt16_and u v

theorem hi16_and (u v : UInt32) : hi16 (u &&& v) = hi16 u &&& hi16 v := by
  unfold hi16
  apply UInt16.toBitVec_inj.mp
  simp
  ext i hi
  simp

theorem bv_and_twoPow_eq (x : BitVec 16) (j : Nat) (hj : j < 16) :
    (x &&& BitVec.twoPow 16 j = BitVec.twoPow 16 j) ↔ x.getLsbD j = true := by
  rw [BitVec.and_twoPow]
  constructor
  · intro h
    by_cases hb : x.getLsbD j = true
    · exact hb
    · rw [if_neg hb] at h
      have := congrArg (fun v => v.getLsbD j) h
      simp [hj] at this
  · intro h; rw [if_pos h]

/-- comparing `x AND 2^j` with `2^j` tests bit `j` of `x` -/
theorem cmpeq16_bit (x : UInt16) (j : Nat) (hj : j < 16) (c : UInt16) (hc : c.toBitVec = BitVec.twoPow 16 j) :
    cmpeq16 (x &&& c) c = if x.toNat.testBit j then 0xFFFF else 0 := by
  unfold cmpeq16
  have h : (x &&& c = c) ↔ x.toNat.testBit j = true := by
    rw [← UInt16.toBitVec_inj, UInt16.toBitVec_and, hc, bv_and_twoPow_eq _ _ hj, ← BitVec.testBit_toNat,
      UInt16.toNat_toBitVec]
  by_cases hb : x.toNat.testBit j = true
  · rw [if_pos hb, if_pos (h.mpr hb)]
  · rw [if_neg hb, if_neg (fun e => hb (h.mp e))]

/-! ### `blend_epi16` is `_mm_blend_epi16` -/

/-- the mask which `blend_epi16` computes from its immediate: word `j` is `0xFFFF` iff bit `j` is set -/
def blendMask (imm8 : UInt32) : V4 :=
  _mm_cmpeq_epi16 (_mm_and_si128 (_mm_set1_epi16 imm8.toUInt16) (_mm_set_epi16 128 64 32 16 8 4 2 1))
    (_mm_set_epi16 128 64 32 16 8 4 2 1)

/-- the body of `blend_epi16` (unfolding only: a change to the source function shows up here) -/
theorem blend_epi16_unfold (a b : V4) (imm8 : UInt32) :
    blend_epi16 a b imm8
      = _mm_or_si128 (_mm_and_si128 (blendMask imm8) b) (_mm_andnot_si128 (blendMask imm8) a) := rfl

/-- a lane of the mask, given the immediate's bits for the lane's low and high word -/
def maskLane (lo hi : Bool) : UInt32 :=
  match lo, hi with
  | false, false => 0
  | true, true => 0xFFFFFFFF
  | true, false => 0x0000FFFF
  | false, true => 0xFFFF0000

theorem pack16_mask (lo hi : Bool) :
    pack16 (if lo then 0xFFFF else 0) (if hi then 0xFFFF else 0) = maskLane lo hi := by
  cases lo <;> cases hi <;> decide

/-- one lane of the mask: its two words compare `x AND 2^j`, `x AND 2^(j+1)` with the bit constants -/
theorem mask_lane (x : UInt16) (j : Nat) (hj : j + 1 < 16) (c0 c1 : UInt16)
    (h0 : c0.toBitVec = BitVec.twoPow 16 j) (h1 : c1.toBitVec = BitVec.twoPow 16 (j + 1)) :
    pack16 (cmpeq16 (lo16 (pack16 x x &&& pack16 c0 c1)) (lo16 (pack16 c0 c1)))
           (cmpeq16 (hi16 (pack16 x x &&& pack16 c0 c1)) (hi16 (pack16 c0 c1)))
      = maskLane (x.toNat.testBit j) (x.toNat.testBit (j + 1)) := by
  rw [lo16_and, hi16_and, lo16_pack16, lo16_pack16, hi16_pack16, hi16_pack16,
    cmpeq16_bit x j (by omega) c0 h0, cmpeq16_bit x (j + 1) hj c1 h1, pack16_mask]

/-- `imm8 as i16` keeps the low 16 bits -/
theorem testBit_toUInt16 (imm8 : UInt32) (j : Nat) (hj : j < 16) :
    imm8.toUInt16.toNat.testBit j = imm8.toNat.testBit j := by
  rw [UInt32.toNat_toUInt16, Nat.testBit_mod_two_pow]
  simp [hj]

/-- the mask, for every immediate -/
theorem blendMask_eq (imm8 : UInt32) : blendMask imm8
    = #v[maskLane (imm8.toNat.testBit 0) (imm8.toNat.testBit 1), maskLane (imm8.toNat.testBit 2) (imm8.toNat.testBit 3),
         maskLane (imm8.toNat.testBit 4) (imm8.toNat.testBit 5), maskLane (imm8.toNat.testBit 6) (imm8.toNat.testBit 7)] := by
  rw [← testBit_toUInt16 imm8 0 (by omega), ← testBit_toUInt16 imm8 1 (by omega), ← testBit_toUInt16 imm8 2 (by omega),
    ← testBit_toUInt16 imm8 3 (by omega), ← testBit_toUInt16 imm8 4 (by omega), ← testBit_toUInt16 imm8 5 (by omega),
    ← testBit_toUInt16 imm8 6 (by omega), ← testBit_toUInt16 imm8 7 (by omega)]
  unfold blendMask
  generalize imm8.toUInt16 = x
  rw [← mask_lane x 0 (by omega) 1 2 (by decide) (by decide), ← mask_lane x 2 (by omega) 4 8 (by decide) (by decide),
    ← mask_lane x 4 (by omega) 16 32 (by decide) (by decide), ← mask_lane x 6 (by omega) 64 128 (by decide) (by decide)]
  rfl

/-- `(mask AND b) OR (NOT mask AND a)` selects the words of `b` where the mask is set -/
theorem select_lane (lo hi : Bool) (x y : UInt32) :
    (maskLane lo hi &&& y) ||| (~~~ maskLane lo hi &&& x) = blend16 lo hi x y := by
  have n1 : ~~~(0x0000FFFF : UInt32) = 0xFFFF0000 := by decide
  have n2 : ~~~(0xFFFF0000 : UInt32) = 0x0000FFFF := by decide
  have n3 : ~~~(0xFFFFFFFF : UInt32) = 0 := by decide
  have n4 : (0xFFFFFFFF : UInt32) = -1 := by decide
  cases lo <;> cases hi <;> simp only [maskLane, blend16]
  · rw [UInt32.not_zero, UInt32.zero_and, UInt32.zero_or, UInt32.neg_one_and]
  · rw [n2, UInt32.or_comm, UInt32.and_comm, UInt32.and_comm _ y]
  · rw [n1, UInt32.and_comm, UInt32.and_comm _ x]
  · rw [n3, UInt32.zero_and, UInt32.or_zero, n4, UInt32.neg_one_and]

/-- **`blend_epi16` (SSE2 emulation) computes `_mm_blend_epi16` (SSE4.1 instruction)**, for every immediate
(bits 8 and above of `imm8` are ignored by both) -/
theorem blend_epi16_eq (a b : V4) (imm8 : UInt32) :
    blend_epi16 a b imm8 = _mm_blend_epi16 a b imm8.toNat := by
  rw [blend_epi16_unfold, blendMask_eq]
  apply Vector.ext
  intro i hi
  match i, hi with
  | 0, _ => exact select_lane _ _ _ _
  | 1, _ => exact select_lane _ _ _ _
  | 2, _ => exact select_lane _ _ _ _
  | 3, _ => exact select_lane _ _ _ _
  | n + 4, h => omega

/-- the form in which the round proofs use it: the constant `blend_epi16` is replaced in the unfolded round
piece, then the kernel evaluates `_mm_blend_epi16 _ _ (204 : UInt32).toNat` on symbolic lanes -/
theorem blend_epi16_eq_fun : blend_epi16 = fun a b imm8 => _mm_blend_epi16 a b imm8.toNat := by
  funext a b imm8
  exact blend_epi16_eq a b imm8

/-! ### the round tactic -/

/-- a round piece of `compress_pre` against one `Spec.round`: as `round_tac` of `Sse41Base.lean`, after
replacing `blend_epi16` (whose and / andnot / or on symbolic lanes does not reduce) by `_mm_blend_epi16` in the
unfolded piece -/
macro "round_tac2 " f:ident s:ident w:ident : tactic => `(tactic|
  (unfold Spec.round
   rw [← roundWithA_eq]
   delta $f
   rw [blend_epi16_eq_fun]
   atoms16 $s; atoms16 $w
   kernel_rfl))

end B3.Simd.Sse2
