/-
The theorems about the SSE4.1 kernels of src/rust_sse41.rs (as translated into `B3.Gen.RsSse41` by
gen/extract_simd.py, over the lane model `B3/Simd/Prim.lean` of the intrinsics).  Every statement is
for ALL arguments.  Proofs: `B3/Simd/Sse41*.lean`.
-/
import B3.Simd.Sse41
namespace B3.Simd
open B3 B3.Gen.RsSse41
open B3.Gen.Rs (MSG_SCHEDULE)

/-! ### single-block compression -/

/-- `compress_in_place` (SSE4.1) is the specification's compression function, first 8 words -/
theorem sse41_compress_in_place_eq (cv : CV) (block : St) (bl : UInt8) (t : UInt64) (fl : UInt8) :
    Gen.RsSse41.compress_in_place cv block bl t fl = first8 (Spec.compress cv block t bl.toUInt32 fl.toUInt32) :=
  compress_in_place_eq cv block bl t fl

/-- `compress_xof` (SSE4.1) is the specification's compression function, all 16 words -/
theorem sse41_compress_xof_eq (cv : CV) (block : St) (bl : UInt8) (t : UInt64) (fl : UInt8) :
    Gen.RsSse41.compress_xof cv block bl t fl = Spec.compress cv block t bl.toUInt32 fl.toUInt32 :=
  compress_xof_eq cv block bl t fl

/-- hence the SSE4.1 and the portable Rust kernels agree -/
theorem sse41_compress_in_place_eq_portable (cv : CV) (block : St) (bl : UInt8) (t : UInt64) (fl : UInt8) :
    Gen.RsSse41.compress_in_place cv block bl t fl = Gen.Rs.compress_in_place cv block bl t fl := by
  rw [sse41_compress_in_place_eq, Proofs.rs_compress_in_place_eq]

theorem sse41_compress_xof_eq_portable (cv : CV) (block : St) (bl : UInt8) (t : UInt64) (fl : UInt8) :
    Gen.RsSse41.compress_xof cv block bl t fl = Gen.Rs.compress_xof cv block bl t fl := by
  rw [sse41_compress_xof_eq, Proofs.rs_compress_xof_eq]

/-- a concrete instance, evaluated by the kernel: IV, the all-zero block, length 0, counter 0, flags 0
(the value is what the real crate returns, see the run-time comparison) -/
example : bytesOfWords (Gen.RsSse41.compress_in_place Spec.IV (Vector.replicate 16 0) 0 0 0)
    = [0xa0, 0xe7, 0x0a, 0x97, 0xc4, 0x1b, 0xa5, 0xd7, 0x78, 0xf8, 0xba, 0x5f, 0x79, 0x7f, 0xec, 0x1b,
       0x21, 0x2f, 0xe3, 0x4a, 0xde, 0x99, 0xad, 0x4c, 0x13, 0x00, 0x62, 0x1e, 0x54, 0x65, 0x13, 0x27] := by
  decide +kernel

/-! ### the 4-way round -/

/-- lane `l` of the 4-way `round` is one round of the specification on lane `l` of the state, with the
message words of lane `l` taken in the order `MSG_SCHEDULE[r]`: four independent rounds
(`lane l v = #v[v[0][l], …, v[15][l]] = v.map (·[l])`, see `lane_eq_map`) -/
theorem sse41_round_lane (v m : Vector V4 16) (r : Fin 7) :
    ∀ l : Fin 4, lane l (Gen.RsSse41.round v m r)
      = Spec.roundWith (lane l v) (fun i => (lane l m)[MSG_SCHEDULE[r][i]]) :=
  fun l => round_lane l v m r

/-- in the vocabulary of the portable code: lane `l` of the 4-way round = the portable `round` on lane `l` -/
theorem sse41_round_lane_portable (v m : Vector V4 16) (r : Fin 7) (l : Fin 4) :
    lane l (Gen.RsSse41.round v m r) = Gen.Rs.round (lane l v) (lane l m) r := by
  rw [sse41_round_lane, Proofs.rs_round_with]

/-! ### transposes -/

theorem sse41_transpose_vecs (vs : Vector V4 4) (i j : Fin 4) :
    (Gen.RsSse41.transpose_vecs vs)[i][j] = vs[j][i] :=
  transpose_vecs_get vs i j

/-- message vector `k`, lane `i` = little-endian word `k` of the 64 bytes at `block_offset` of input `i` -/
theorem sse41_transpose_msg_vecs (inputs : Vector Mem 4) (block_offset : Nat) (k : Fin 16) (i : Fin 4) :
    (Gen.RsSse41.transpose_msg_vecs inputs block_offset)[k][i] = (inputs[i]).word (block_offset + 4 * k.val) := by
  rw [← lane_get, transpose_msg_vecs_lane, blockAt_get]

/-! ### counters -/

/-- lane `i` of the low / high counter vector = low / high 32 bits of `counter + i` (UInt64 wrapping `+`:
the Rust code would panic in a debug build if it wrapped) when incrementing, of `counter` otherwise -/
theorem sse41_load_counters (counter : UInt64) (incr : Bool) (i : Fin 4) :
    (Gen.RsSse41.load_counters counter incr).1[i]
        = (counter + (if incr then UInt64.ofNat i.val else 0)).toUInt32 ∧
    (Gen.RsSse41.load_counters counter incr).2[i]
        = ((counter + (if incr then UInt64.ofNat i.val else 0)) >>> 32).toUInt32 :=
  load_counters_lane counter incr i

example : (Gen.RsSse41.load_counters 0xFFFFFFFF true).1 = #v[0xFFFFFFFF, 0, 1, 2] ∧
          (Gen.RsSse41.load_counters 0xFFFFFFFF true).2 = #v[0, 1, 1, 1] := by decide

/-! ### hash4 -/

/-- block `b` (64 bytes = 16 little-endian words) of the memory behind an input pointer -/
def blockOfMem (p : Mem) (b : Nat) : St := Vector.ofFn fun j : Fin 16 => p.word (64 * b + 4 * j.val)

/-- The reference: the chaining value obtained from `key` by compressing the `blocks` blocks
`blk 0, blk 1, …` in turn, all with counter `t` and block length 64; block `b` carries
`flags`, plus `flags_start` if it is the first, plus `flags_end` if it is the last.
For `blocks = 0` this is `key`. -/
def specHashBlocks (key : CV) (blk : Nat → St) (blocks : Nat) (t : UInt64) (flags flags_start flags_end : UInt8) : CV :=
  (List.range blocks).foldl
    (fun cv b => first8 (Spec.compress cv (blk b) t 64
      (flags ||| (if b = 0 then flags_start else 0) ||| (if b + 1 = blocks then flags_end else 0)).toUInt32))
    key

theorem blockAt_eq_blockOfMem (p : Mem) (b : Nat) : blockAt p (b * 64) = blockOfMem p b := by
  apply Vector.ext
  intro k hk
  have h := blockAt_get p (b * 64) ⟨k, hk⟩
  simp only [Fin.getElem_fin] at h
  rw [h, blockOfMem, Vector.getElem_ofFn, Nat.mul_comm]

/-- Output `i` of `hash4` (words `8i … 8i+7` of the 128 output bytes, whatever `out` held before) is the
chaining value of the `blocks` blocks of input `i`, with counter `counter + i` (wrapping) when
`increment_counter` and `counter` otherwise.  Inputs are raw byte pointers, modelled as byte-addressed
memories; only bytes `0 … 64*blocks-1` of each are read. -/
theorem sse41_hash4_eq (inputs : Vector Mem 4) (blocks : Nat) (key : CV) (counter : UInt64) (incr : Bool)
    (flags flags_start flags_end : UInt8) (out : Vector UInt32 32) (i : Fin 4) :
    outCV i (Gen.RsSse41.hash4 inputs blocks key counter incr flags flags_start flags_end out)
      = specHashBlocks key (blockOfMem inputs[i]) blocks
          (counter + (if incr then UInt64.ofNat i.val else 0)) flags flags_start flags_end := by
  rw [hash4_lane]
  unfold foldBlocksN specHashBlocks flagsAt ctr
  simp only [blockAt_eq_blockOfMem]

/-- `blocks = 0`: the loop body never runs and `hash4` stores the key four times -/
example (inputs : Vector Mem 4) (key : CV) (counter : UInt64) (incr : Bool) (fl fs fe : UInt8)
    (out : Vector UInt32 32) (i : Fin 4) :
    outCV i (Gen.RsSse41.hash4 inputs 0 key counter incr fl fs fe out) = key := by
  rw [sse41_hash4_eq]; rfl

/-- one block: output `i` is a single compression with all three flag bytes or-ed -/
example (inputs : Vector Mem 4) (key : CV) (counter : UInt64) (fl fs fe : UInt8) (out : Vector UInt32 32) :
    outCV 2 (Gen.RsSse41.hash4 inputs 1 key counter true fl fs fe out)
      = first8 (Spec.compress key (blockOfMem inputs[2] 0) (counter + 2) 64 (fl ||| fs ||| fe).toUInt32) := by
  rw [sse41_hash4_eq]; rfl

end B3.Simd
