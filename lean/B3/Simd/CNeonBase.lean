/-
Base lemmas for the proofs about the generated C NEON kernels (`B3.Gen.CNeon`, translated from c/blake3_neon.c).
The rotations of the C file are first shown to be lane-wise `rotr`:

  rot16_128 = `vrev32q_u16` (the two halves of every word swapped)                       `CBits.halves_rot16`
  rot12_128, rot7_128 = `vsriq_n_u32(vshlq_n_u32(x, 32-n), x, n)` (shift right and insert)  `sri_rot`
  rot8_128  = clang `__builtin_shufflevector(x8, x8, 1,2,3,0, …)`                        `CBits.bytes_rot8`
  rot8_128_gcc   = GCC `__builtin_shuffle(x8, x8, (uint8x16_t){1,2,3,0, …})`             the same, table evaluated
  rot8_128_other = `vsriq_n_u32(vshlq_n_u32(x, 24), x, 8)`                               `sri_rot`

so the three compiler-dependent versions of `rot8_128` are one function (`rot8_variants`).  Everything else is then
checked against the specification by kernel reduction over generalised lanes, as for the x86 C files.
The theorems themselves are stated in `B3/Simd/CNeonProps.lean`.
-/
import B3.Spec
import B3.Gen.CNeon
import B3.Proofs.Compress
import B3.Simd.KernelRfl
import B3.Simd.CBits
import B3.Simd.Sse41Base
namespace B3.Simd.CNeon
open B3.Simd.CI B3.Simd.Neon
open B3 B3.Simd B3.Gen.CNeon

/-! ### shift right and insert -/

/-- the bits kept by SRI from the destination, `NOT(LSR(Ones, n))` = the top `n` bits, are all the non-zero bits of
`x << (32 - n)` -/
theorem bv_shl_and_topmask (x ones : BitVec 32) (n : Nat) (hn : n ≤ 32) (h1 : ones = BitVec.allOnes 32) :
    (x <<< (32 - n)) &&& ~~~ (ones >>> n) = x <<< (32 - n) := by
  subst h1
  apply BitVec.eq_of_getLsbD_eq
  intro i hi
  simp only [BitVec.getLsbD_and, BitVec.getLsbD_shiftLeft, BitVec.getLsbD_not, BitVec.getLsbD_ushiftRight,
    BitVec.getLsbD_allOnes]
  by_cases h : i < 32 - n
  · simp [h]
  · have h2 : ¬ (n + i < 32) := by omega
    simp [h, h2, hi]

/-- the same on `UInt32`, for shift counts given as `UInt32` values -/
theorem shl_and_topmask (x a b : UInt32) (n : Nat) (hn : n ≤ 32) (ha : a.toNat % 32 = n) (hb : b.toNat % 32 = 32 - n) :
    (x <<< b) &&& ~~~ ((0xFFFFFFFF : UInt32) >>> a) = x <<< b := by
  apply UInt32.toBitVec_inj.mp
  simp only [UInt32.toBitVec_and, UInt32.toBitVec_not, UInt32.toBitVec_shiftLeft, UInt32.toBitVec_shiftRight]
  have e1 : (b.toBitVec % 32).toNat = 32 - n := by
    rw [BitVec.toNat_umod]; exact hb
  have e2 : (a.toBitVec % 32).toNat = n := by
    rw [BitVec.toNat_umod]; exact ha
  rw [BitVec.shiftLeft_eq', BitVec.ushiftRight_eq', e1, e2]
  exact bv_shl_and_topmask _ _ n hn (by decide)

theorem sri_core (x a b : UInt32) (h : (x <<< b) &&& ~~~ ((0xFFFFFFFF : UInt32) >>> a) = x <<< b) :
    ((x <<< b) &&& ~~~ ((0xFFFFFFFF : UInt32) >>> a)) ||| (x >>> a) = (x >>> a) ||| (x <<< b) := by
  rw [h]
  exact UInt32.or_comm _ _

/-- `SRI(x << (32 - n), x, n)` is `x` rotated right by `n`, for the three counts that occur -/
theorem sri_rot12 (x : UInt32) : sri32 (lsl32 x 20) x 12 = rotr x 12 :=
  sri_core x 12 20 (shl_and_topmask x 12 20 12 (by omega) (by decide) (by decide))

theorem sri_rot7 (x : UInt32) : sri32 (lsl32 x 25) x 7 = rotr x 7 :=
  sri_core x 7 25 (shl_and_topmask x 7 25 7 (by omega) (by decide) (by decide))

theorem sri_rot8 (x : UInt32) : sri32 (lsl32 x 24) x 8 = rotr x 8 :=
  sri_core x 8 24 (shl_and_topmask x 8 24 8 (by omega) (by decide) (by decide))

/-! ### the four rotations -/

theorem rot16_eq (x : V4) : rot16_128 x = rotv 16 x := by
  show (#v[le16x2 (halfOf x[0] 1) (halfOf x[0] 0), le16x2 (halfOf x[1] 1) (halfOf x[1] 0),
           le16x2 (halfOf x[2] 1) (halfOf x[2] 0), le16x2 (halfOf x[3] 1) (halfOf x[3] 0)] : V4) = _
  rw [halves_rot16, halves_rot16, halves_rot16, halves_rot16]
  rfl

theorem rot12_eq (x : V4) : rot12_128 x = rotv 12 x := by
  show (#v[sri32 (lsl32 x[0] 20) x[0] 12, sri32 (lsl32 x[1] 20) x[1] 12,
           sri32 (lsl32 x[2] 20) x[2] 12, sri32 (lsl32 x[3] 20) x[3] 12] : V4) = _
  rw [sri_rot12, sri_rot12, sri_rot12, sri_rot12]
  rfl

theorem rot7_eq (x : V4) : rot7_128 x = rotv 7 x := by
  show (#v[sri32 (lsl32 x[0] 25) x[0] 7, sri32 (lsl32 x[1] 25) x[1] 7,
           sri32 (lsl32 x[2] 25) x[2] 7, sri32 (lsl32 x[3] 25) x[3] 7] : V4) = _
  rw [sri_rot7, sri_rot7, sri_rot7, sri_rot7]
  rfl

/-- bytes `1 2 3 0 | 5 6 7 4 | 9 10 11 8 | 13 14 15 12` of a register: every lane rotated by 8 -/
theorem bytes1230 (x : V4) :
    builtin_shufflevector_u8x16 x x 1 2 3 0 5 6 7 4 9 10 11 8 13 14 15 12 = rotv 8 x := by
  rw [v4_eta x]
  generalize x[0] = a; generalize x[1] = b; generalize x[2] = c; generalize x[3] = d
  show (#v[le32 (byteOf a 1) (byteOf a 2) (byteOf a 3) (byteOf a 0), le32 (byteOf b 1) (byteOf b 2) (byteOf b 3) (byteOf b 0),
           le32 (byteOf c 1) (byteOf c 2) (byteOf c 3) (byteOf c 0), le32 (byteOf d 1) (byteOf d 2) (byteOf d 3) (byteOf d 0)] : V4)
      = #v[rotr a 8, rotr b 8, rotr c 8, rotr d 8]
  exact v4_congr (bytes_rot8 a) (bytes_rot8 b) (bytes_rot8 c) (bytes_rot8 d)

/-- the clang version -/
theorem rot8_eq (x : V4) : rot8_128 x = rotv 8 x := bytes1230 x

theorem shufm_lit (a b m : V4) (j k : Nat) (h : (byte16 m j).toNat % 32 = k) : shufm a b m j = sel32b a b k := by
  unfold shufm
  rw [h]

/-- the GCC version: the shuffle table `{1, 2, 3, 0, …}` is evaluated entry by entry, which gives the clang form -/
theorem rot8_gcc_eq (x : V4) : rot8_128_gcc x = rotv 8 x := by
  rw [← bytes1230 x]
  unfold rot8_128_gcc builtin_shuffle_u8x16 builtin_shufflevector_u8x16 vreinterpretq_u32_u8 vreinterpretq_u8_u32
  simp only []
  rw [shufm_lit x x _ 0 1 (by decide), shufm_lit x x _ 1 2 (by decide), shufm_lit x x _ 2 3 (by decide),
    shufm_lit x x _ 3 0 (by decide), shufm_lit x x _ 4 5 (by decide), shufm_lit x x _ 5 6 (by decide),
    shufm_lit x x _ 6 7 (by decide), shufm_lit x x _ 7 4 (by decide), shufm_lit x x _ 8 9 (by decide),
    shufm_lit x x _ 9 10 (by decide), shufm_lit x x _ 10 11 (by decide), shufm_lit x x _ 11 8 (by decide),
    shufm_lit x x _ 12 13 (by decide), shufm_lit x x _ 13 14 (by decide), shufm_lit x x _ 14 15 (by decide),
    shufm_lit x x _ 15 12 (by decide)]

/-- the version for any other compiler -/
theorem rot8_other_eq (x : V4) : rot8_128_other x = rotv 8 x := by
  show (#v[sri32 (lsl32 x[0] 24) x[0] 8, sri32 (lsl32 x[1] 24) x[1] 8,
           sri32 (lsl32 x[2] 24) x[2] 8, sri32 (lsl32 x[3] 24) x[3] 8] : V4) = _
  rw [sri_rot8, sri_rot8, sri_rot8, sri_rot8]
  rfl

/-- the three versions of `rot8_128` selected by `#if defined(__clang__) / #elif __GNUC__… / #else` are the same
function: which compiler builds the file does not matter for anything proved about `rot8_128` -/
theorem rot8_variants : @rot8_128_gcc = @rot8_128 ∧ @rot8_128_other = @rot8_128 :=
  ⟨funext fun x => by rw [rot8_gcc_eq, rot8_eq], funext fun x => by rw [rot8_other_eq, rot8_eq]⟩

theorem rot16_fun : @rot16_128 = rotv 16 := funext rot16_eq
theorem rot12_fun : @rot12_128 = rotv 12 := funext rot12_eq
theorem rot8_fun : @rot8_128 = rotv 8 := funext rot8_eq
theorem rot7_fun : @rot7_128 = rotv 7 := funext rot7_eq

end B3.Simd.CNeon
