/- definitions for the lane-by-lane statements about the 4-way C kernels -/
import B3.Simd.CNeonBase
import B3.Simd.Sse41WideBase
namespace B3.Simd.CNeon
open B3.Simd.CI B3.Simd.Neon
open B3 B3.Simd B3.Gen.CNeon
open B3.Gen.C (MSG_SCHEDULE)

/-- the sixteen message vectors in the order in which round `r` consumes them (C schedule table) -/
def schedC (m : Vector V4 16) (r : Fin 7) : Vector V4 16 :=
  #v[m[MSG_SCHEDULE[r][0]], m[MSG_SCHEDULE[r][1]], m[MSG_SCHEDULE[r][2]], m[MSG_SCHEDULE[r][3]],
     m[MSG_SCHEDULE[r][4]], m[MSG_SCHEDULE[r][5]], m[MSG_SCHEDULE[r][6]], m[MSG_SCHEDULE[r][7]],
     m[MSG_SCHEDULE[r][8]], m[MSG_SCHEDULE[r][9]], m[MSG_SCHEDULE[r][10]], m[MSG_SCHEDULE[r][11]],
     m[MSG_SCHEDULE[r][12]], m[MSG_SCHEDULE[r][13]], m[MSG_SCHEDULE[r][14]], m[MSG_SCHEDULE[r][15]]]

/-- lane `l` (a literal) of the generated 4-way `round_fn4` against the (re-associated) specification round: the
rotations are first put in reference form, then one kernel check per lane -/
macro "nround_lane_tac " v:ident m:ident r:ident : tactic => `(tactic|
  (unfold round_fn4 round_fn4_part1 round_fn4_part2 schedC
   rw [rot16_fun, rot12_fun, rot8_fun, rot7_fun]
   generalize $m[MSG_SCHEDULE[$r][0]] = x0; generalize $m[MSG_SCHEDULE[$r][1]] = x1
   generalize $m[MSG_SCHEDULE[$r][2]] = x2; generalize $m[MSG_SCHEDULE[$r][3]] = x3
   generalize $m[MSG_SCHEDULE[$r][4]] = x4; generalize $m[MSG_SCHEDULE[$r][5]] = x5
   generalize $m[MSG_SCHEDULE[$r][6]] = x6; generalize $m[MSG_SCHEDULE[$r][7]] = x7
   generalize $m[MSG_SCHEDULE[$r][8]] = x8; generalize $m[MSG_SCHEDULE[$r][9]] = x9
   generalize $m[MSG_SCHEDULE[$r][10]] = x10; generalize $m[MSG_SCHEDULE[$r][11]] = x11
   generalize $m[MSG_SCHEDULE[$r][12]] = x12; generalize $m[MSG_SCHEDULE[$r][13]] = x13
   generalize $m[MSG_SCHEDULE[$r][14]] = x14; generalize $m[MSG_SCHEDULE[$r][15]] = x15
   vatoms16 $v
   kernel_rfl))

end B3.Simd.CNeon
