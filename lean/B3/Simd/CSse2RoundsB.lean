/- round pieces 3-4 of the generated C `compress_pre` against `Spec.round` (kernel-checked) -/
import B3.Simd.CSse2Base
namespace B3.Simd.CSse2
open B3.Simd.CI
open B3 B3.Simd B3.Gen.CSse2

theorem round3_eq (s w : St) :
    compress_pre_round3 (rows5 s w) = rows5 (Spec.round s (Spec.permute w)) (Spec.permute w) := by
  cround_tac compress_pre_round3 s w

theorem round4_eq (s w : St) :
    compress_pre_round4 (rows5 s w) = rows5 (Spec.round s (Spec.permute w)) (Spec.permute w) := by
  cround_tac compress_pre_round4 s w

end B3.Simd.CSse2
