/- `hash_many`: groups of four inputs through `hash4`, the remaining ones through `hash1` -/
import B3.Simd.Sse41Hash1
namespace B3.Simd
open B3 B3.Gen.RsSse41

/-! ### bytes -/

theorem bytesOfWords_length {n : Nat} (v : Vector UInt32 n) : (bytesOfWords v).length = 4 * n := by
  unfold bytesOfWords
  have : ∀ l : List UInt32, (l.flatMap wordBytes).length = 4 * l.length := by
    intro l
    induction l with
    | nil => rfl
    | cons a l ih => simp only [List.flatMap_cons, List.length_append, ih, wordBytes_length, List.length_cons]; omega
  rw [this, Vector.length_toList]

/-- overwrite `bs.length` bytes of `buf` at position `pos` -/
def writeAt (buf : List UInt8) (pos : Nat) (bs : List UInt8) : List UInt8 :=
  buf.take pos ++ bs ++ buf.drop (pos + bs.length)

theorem writeAt_nil (buf : List UInt8) (pos : Nat) : writeAt buf pos [] = buf := by
  simp [writeAt]

theorem writeAt_length (buf : List UInt8) (pos : Nat) (bs : List UInt8) (h : pos + bs.length ≤ buf.length) :
    (writeAt buf pos bs).length = buf.length := by
  simp only [writeAt, List.length_append, List.length_take, List.length_drop]; omega

theorem writeAt_append (P Q a : List UInt8) : writeAt (P ++ Q) P.length a = P ++ a ++ Q.drop a.length := by
  unfold writeAt
  rw [List.take_left, List.drop_length_add_append]

theorem writeAt_writeAt (buf : List UInt8) (pos : Nat) (a b : List UInt8) (h : pos + a.length ≤ buf.length) :
    writeAt (writeAt buf pos a) (pos + a.length) b = writeAt buf pos (a ++ b) := by
  have hP : (buf.take pos).length = pos := by rw [List.length_take]; omega
  rw [← List.take_append_drop pos buf]
  generalize buf.take pos = P at hP
  generalize buf.drop pos = Q
  subst hP
  rw [writeAt_append, writeAt_append]
  have e : P.length + a.length = (P ++ a).length := by simp
  rw [e, writeAt_append]
  simp [List.append_assoc]

/-! ### raw pointers into byte strings -/

theorem memOf_word (x : List UInt8) (o : Nat) :
    (memOf x).word o = le32 (x.getD o 0) (x.getD (o + 1) 0) (x.getD (o + 2) 0) (x.getD (o + 3) 0) := rfl

theorem getD_take_drop (x : List UInt8) (a i : Nat) (h : i < 64) :
    ((x.drop a).take 64).getD i 0 = x.getD (a + i) 0 := by
  simp [List.getD_eq_getElem?_getD, h]

/-- block `b` read through a raw pointer to `x` = block `b` of the byte string `x` (both read zeros past its end) -/
theorem blockAt_memOf (x : List UInt8) (b : Nat) : blockAt (memOf x) (b * 64) = blockOfBytes x b := by
  apply Vector.ext
  intro k hk
  have h := blockAt_get (memOf x) (b * 64) ⟨k, hk⟩
  simp only [Fin.getElem_fin] at h
  rw [h, blockOfBytes, wordsOfBytes, Vector.getElem_ofFn, wordAt, memOf_word,
    getD_take_drop _ _ _ (by omega), getD_take_drop _ _ _ (by omega), getD_take_drop _ _ _ (by omega),
    getD_take_drop _ _ _ (by omega)]
  have e : b * 64 + 4 * k = 64 * b + 4 * k := by omega
  simp only [e, Nat.add_assoc]

/-! ### what `hash_many` should write -/

/-- the chaining value of one input of `N` bytes hashed with counter `t` -/
def cvOf (N : Nat) (key : CV) (flags fs fe : UInt8) (x : List UInt8) (t : UInt64) : CV :=
  foldBlocksN key (blockOfBytes x) (N / 64) t flags fs fe (N / 64)

/-- the counter of the next input -/
def adv (incr : Bool) (t : UInt64) : UInt64 := if incr then t + 1 else t

/-- the output bytes for the inputs `xs`, the first one hashed with counter `t` -/
def outBytes (N : Nat) (key : CV) (flags fs fe : UInt8) (incr : Bool) : List (List UInt8) → UInt64 → List UInt8
  | [], _ => []
  | x :: xs, t => bytesOfWords (cvOf N key flags fs fe x t) ++ outBytes N key flags fs fe incr xs (adv incr t)

theorem outBytes_length (N : Nat) (key : CV) (flags fs fe : UInt8) (incr : Bool) (xs : List (List UInt8)) (t : UInt64) :
    (outBytes N key flags fs fe incr xs t).length = 32 * xs.length := by
  induction xs generalizing t with
  | nil => rfl
  | cons x xs ih => simp only [outBytes, List.length_append, bytesOfWords_length, ih, List.length_cons]; omega

/-- `advN incr t m`: the counter after `m` inputs -/
def advN (incr : Bool) (t : UInt64) : Nat → UInt64
  | 0 => t
  | m + 1 => adv incr (advN incr t m)

theorem advN_adv (incr : Bool) (t : UInt64) (m : Nat) : advN incr (adv incr t) m = adv incr (advN incr t m) := by
  induction m with
  | zero => rfl
  | succ m ih => simp only [advN, ih]

theorem outBytes_append (N : Nat) (key : CV) (flags fs fe : UInt8) (incr : Bool) (xs ys : List (List UInt8)) (t : UInt64) :
    outBytes N key flags fs fe incr (xs ++ ys) t
      = outBytes N key flags fs fe incr xs t ++ outBytes N key flags fs fe incr ys (advN incr t xs.length) := by
  induction xs generalizing t with
  | nil => rfl
  | cons x xs ih =>
    simp only [List.cons_append, outBytes, ih, List.append_assoc, List.length_cons, advN]
    rw [advN_adv]

/-! ### one group of four inputs -/

theorem bytesOfWords_split32 (w : Vector UInt32 32) :
    bytesOfWords w = bytesOfWords (outCV 0 w) ++ (bytesOfWords (outCV 1 w) ++
      (bytesOfWords (outCV 2 w) ++ (bytesOfWords (outCV 3 w) ++ []))) := by
  atoms32 w
  rfl

theorem ctr_eq_advN (t : UInt64) (incr : Bool) (i : Fin 4) : ctr t incr i = advN incr t i.val := by
  cases incr
  · match i with
    | 0 | 1 | 2 | 3 => simp [ctr, advN, adv]
  · have h2 : (1 : UInt64) + 1 = 2 := by decide
    have h3 : (2 : UInt64) + 1 = 3 := by decide
    match i with
    | 0 => simp [ctr, advN]
    | 1 => simp [ctr, advN, adv]
    | 2 => simp [ctr, advN, adv, UInt64.add_assoc, h2]
    | 3 =>
      have h4 : UInt64.ofNat (3 : Fin 4).val = 3 := by decide
      simp [ctr, advN, adv, UInt64.add_assoc, h2, h3, h4]

theorem hash4_cv (N : Nat) (key : CV) (flags fs fe : UInt8) (incr : Bool) (x0 x1 x2 x3 : List UInt8)
    (rest : List (List UInt8)) (t : UInt64) (w : Vector UInt32 32) (i : Fin 4) :
    outCV i (hash4 (ptrs4 (x0 :: x1 :: x2 :: x3 :: rest)) (N / 64) key t incr flags fs fe w)
      = cvOf N key flags fs fe ([x0, x1, x2, x3][i]) (advN incr t i.val) := by
  rw [hash4_lane, ctr_eq_advN, cvOf]
  congr 1
  funext b
  match i with
  | 0 => exact blockAt_memOf x0 b
  | 1 => exact blockAt_memOf x1 b
  | 2 => exact blockAt_memOf x2 b
  | 3 => exact blockAt_memOf x3 b

/-- `hash4` on the first four of at least four inputs writes their four chaining values -/
theorem hash4_bytes (N : Nat) (key : CV) (flags fs fe : UInt8) (incr : Bool) (xs : List (List UInt8)) (t : UInt64)
    (w : Vector UInt32 32) (h : 4 ≤ xs.length) :
    bytesOfWords (hash4 (ptrs4 xs) (N / 64) key t incr flags fs fe w)
      = outBytes N key flags fs fe incr (xs.take 4) t := by
  match xs, h with
  | x0 :: x1 :: x2 :: x3 :: rest, _ =>
    rw [bytesOfWords_split32, hash4_cv, hash4_cv, hash4_cv, hash4_cv]
    rfl

/-! ### the loops -/

/-- the slice lies inside its buffer -/
def MutSlice.wf (o : MutSlice) : Prop := o.off + o.len ≤ o.buf.length

theorem advN_four (incr : Bool) (t : UInt64) : (if incr then t + 4 else t) = advN incr t 4 := by
  have h2 : (1 : UInt64) + 1 = 2 := by decide
  have h3 : (2 : UInt64) + 1 = 3 := by decide
  have h4 : (3 : UInt64) + 1 = 4 := by decide
  cases incr <;> simp [advN, adv, UInt64.add_assoc, h2, h3, h4]

/-- one iteration of the `while` loop of `hash_many` -/
theorem many_step (N : Nat) (key : CV) (incr : Bool) (flags fs fe : UInt8) (o : MutSlice) (t : UInt64)
    (xs : List (List UInt8)) (h4 : 4 ≤ xs.length) :
    hash_many_loop2 N key incr flags fs fe (o, t, xs)
      = (⟨writeAt o.buf o.off (outBytes N key flags fs fe incr (xs.take 4) t), o.off + 128, o.len - 128⟩,
         advN incr t 4, xs.drop 4) := by
  simp only [hash_many_loop2, MutSlice.writeWords, MutSlice.from, hash4_bytes N key flags fs fe incr xs t _ h4,
    advN_four, writeAt, outBytes_length, List.length_take, Nat.min_eq_left h4, Nat.add_zero]

/-- the remainder loop of `hash_many` after `m` inputs -/
theorem many_rem (N : Nat) (key : CV) (incr : Bool) (flags fs fe : UInt8) (o : MutSlice) (t : UInt64)
    (xs : List (List UInt8)) (hN : ∀ x ∈ xs, x.length = N) (h64 : N % 64 = 0) (hwf : o.wf) (hlen : 32 * xs.length ≤ o.len) :
    ∀ m, m ≤ xs.length →
      (List.range m).foldl (hash_many_loop3 N xs key incr flags fs fe) (t, o)
        = (advN incr t m, ⟨writeAt o.buf o.off (outBytes N key flags fs fe incr (xs.take m) t), o.off, o.len⟩) := by
  intro m
  induction m with
  | zero => intro _; simp [advN, outBytes, writeAt_nil]
  | succ m ih =>
    intro hm
    rw [List.range_succ, List.foldl_append, ih (by omega)]
    have hx : xs.getD m [] = xs[m] := by simp [List.getD_eq_getElem?_getD, List.getElem?_eq_getElem (show m < xs.length by omega)]
    have hxl : (xs[m]).length = 64 * (N / 64) := by
      rw [hN _ (List.getElem_mem _)]; omega
    have ht : xs.take (m + 1) = xs.take m ++ [xs[m]] := by
      rw [List.take_add_one, List.getElem?_eq_getElem (show m < xs.length by omega)]; rfl
    have hA : (outBytes N key flags fs fe incr (xs.take m) t).length = 32 * m := by
      rw [outBytes_length, List.length_take, Nat.min_eq_left (by omega)]
    unfold MutSlice.wf at hwf
    simp only [List.foldl_cons, List.foldl_nil, hash_many_loop3, hx, MutSlice.chunk, MutSlice.writeWords, MutSlice.merge,
      hash1_eq N _ key _ flags fs fe _ (N / 64) hxl, Nat.add_zero]
    have hw := writeAt_writeAt o.buf o.off (outBytes N key flags fs fe incr (xs.take m) t)
      (bytesOfWords (cvOf N key flags fs fe xs[m] (advN incr t m))) (by omega)
    rw [hA] at hw
    rw [ht, outBytes_append, List.length_take, Nat.min_eq_left (by omega)]
    simp only [outBytes, List.append_nil]
    rw [← hw]
    simp only [writeAt, bytesOfWords_length, advN, adv, cvOf]

/-- what follows the `while` loop in `hash_many`, as a function of the state the loop leaves -/
def manyRem (N : Nat) (key : CV) (incr : Bool) (flags fs fe : UInt8) (st : MutSlice × UInt64 × List (List UInt8)) : MutSlice :=
  ((List.range (min st.2.2.length (st.1.len / 32))).foldl (hash_many_loop3 N st.2.2 key incr flags fs fe) (st.2.1, st.1)).2

theorem hash_many_unfold (N : Nat) (inputs : List (List UInt8)) (key : CV) (counter : UInt64) (incr : Bool)
    (flags fs fe : UInt8) (out : MutSlice) :
    hash_many N inputs key counter incr flags fs fe out
      = manyRem N key incr flags fs fe
          (whileFuel (inputs.length + 1) hash_many_cond1 (hash_many_loop2 N key incr flags fs fe) (out, counter, inputs)) := rfl

theorem manyRem_eq (N : Nat) (key : CV) (incr : Bool) (flags fs fe : UInt8) (o : MutSlice) (t : UInt64)
    (xs : List (List UInt8)) (hN : ∀ x ∈ xs, x.length = N) (h64 : N % 64 = 0) (hwf : o.wf) (hlen : 32 * xs.length ≤ o.len) :
    (manyRem N key incr flags fs fe (o, t, xs)).buf = writeAt o.buf o.off (outBytes N key flags fs fe incr xs t) := by
  have hmin : min xs.length (o.len / 32) = xs.length := Nat.min_eq_left (by omega)
  simp only [manyRem, hmin, many_rem N key incr flags fs fe o t xs hN h64 hwf hlen xs.length (Nat.le_refl _), List.take_length]

/-- the whole of `hash_many`, for any sufficient iteration bound -/
theorem many_loop (N : Nat) (key : CV) (incr : Bool) (flags fs fe : UInt8) (h64 : N % 64 = 0) :
    ∀ (n : Nat) (o : MutSlice) (t : UInt64) (xs : List (List UInt8)) (fuel : Nat), xs.length = n →
      (∀ x ∈ xs, x.length = N) → o.wf → 32 * xs.length ≤ o.len → xs.length + 1 ≤ fuel →
      (manyRem N key incr flags fs fe
        (whileFuel fuel hash_many_cond1 (hash_many_loop2 N key incr flags fs fe) (o, t, xs))).buf
        = writeAt o.buf o.off (outBytes N key flags fs fe incr xs t) ∧
      ∃ st, whileFuel fuel hash_many_cond1 (hash_many_loop2 N key incr flags fs fe) (o, t, xs) = st ∧
        hash_many_cond1 st = false := by
  intro n
  induction n using Nat.strongRecOn with
  | _ n ih =>
    intro o t xs fuel hn hN hwf hlen hf
    obtain ⟨fuel, rfl⟩ : ∃ k, fuel = k + 1 := ⟨fuel - 1, by omega⟩
    rw [whileFuel_succ]
    by_cases h4 : 4 ≤ xs.length
    · have hc : hash_many_cond1 (o, t, xs) = true := by
        simp only [hash_many_cond1, decide_eq_true_eq]; omega
      rw [hc, if_pos rfl, many_step N key incr flags fs fe o t xs h4]
      have hA : (outBytes N key flags fs fe incr (xs.take 4) t).length = 128 := by
        rw [outBytes_length, List.length_take, Nat.min_eq_left h4]
      unfold MutSlice.wf at hwf
      have hwf' : MutSlice.wf ⟨writeAt o.buf o.off (outBytes N key flags fs fe incr (xs.take 4) t), o.off + 128, o.len - 128⟩ := by
        unfold MutSlice.wf
        simp only [writeAt_length _ _ _ (show o.off + (outBytes N key flags fs fe incr (xs.take 4) t).length ≤ o.buf.length by omega)]
        omega
      obtain ⟨r1, r2⟩ := ih (n - 4) (by omega) _ (advN incr t 4) (xs.drop 4) fuel (by rw [List.length_drop]; omega)
        (fun x hx => hN x (List.mem_of_mem_drop hx)) hwf' (by simp only [List.length_drop]; omega)
        (by rw [List.length_drop]; omega)
      refine ⟨?_, r2⟩
      rw [r1]
      have hw := writeAt_writeAt o.buf o.off (outBytes N key flags fs fe incr (xs.take 4) t)
        (outBytes N key flags fs fe incr (xs.drop 4) (advN incr t 4)) (by omega)
      rw [hA] at hw
      rw [hw]
      have e := outBytes_append N key flags fs fe incr (xs.take 4) (xs.drop 4) t
      rw [List.take_append_drop, List.length_take, Nat.min_eq_left h4] at e
      rw [e]
    · have hc : hash_many_cond1 (o, t, xs) = false := by
        simp only [hash_many_cond1, decide_eq_false_iff_not]; omega
      rw [hc]
      exact ⟨manyRem_eq N key incr flags fs fe o t xs hN h64 hwf hlen, _, rfl, hc⟩

/-- `hash_many` overwrites bytes `off … off + 32 * inputs.length` of the buffer with the chaining values of
the inputs (input `k` hashed with counter `advN incr counter k`), and nothing else -/
theorem hash_many_eq (N : Nat) (inputs : List (List UInt8)) (key : CV) (counter : UInt64) (incr : Bool)
    (flags fs fe : UInt8) (out : MutSlice) (hN : ∀ x ∈ inputs, x.length = N) (h64 : N % 64 = 0)
    (hwf : out.wf) (hlen : 32 * inputs.length ≤ out.len) :
    (hash_many N inputs key counter incr flags fs fe out).buf
      = writeAt out.buf out.off (outBytes N key flags fs fe incr inputs counter) := by
  rw [hash_many_unfold]
  exact (many_loop N key incr flags fs fe h64 inputs.length out counter inputs (inputs.length + 1) rfl hN hwf hlen
    (Nat.le_refl _)).1

end B3.Simd
