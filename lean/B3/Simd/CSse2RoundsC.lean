/- round pieces 5-6 of the generated C `compress_pre` against `Spec.round` (kernel-checked) -/
import B3.Simd.CSse2Base
namespace B3.Simd.CSse2
open B3.Simd.CI
open B3 B3.Simd B3.Gen.CSse2

theorem round5_eq (s w : St) :
    compress_pre_round5 (rows5 s w) = rows5 (Spec.round s (Spec.permute w)) (Spec.permute w) := by
  cround_tac compress_pre_round5 s w

theorem round6_eq (s w : St) :
    compress_pre_round6 (rows5 s w) = rows5 (Spec.round s (Spec.permute w)) (Spec.permute w) := by
  cround_tac compress_pre_round6 s w

end B3.Simd.CSse2
