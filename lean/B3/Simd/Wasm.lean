/-
Helper lemmas for the generated Wasm SIMD kernels (`B3.Gen.RsWasm`, translated from src/wasm32_simd.rs by
gen/ext_simd_wasm.py), in namespace `B3.Simd.Wasm`.  Same structure as `Sse2.lean` (the file is a port of
src/rust_sse2.rs; the generic definitions of the `Sse41*` modules are reused):

  WasmPrim       (trusted) lane model of the `core::arch::wasm32` intrinsics
  WasmBase       rot16/12/8/7 = lane-wise rotr; `blend_epi16` = `_mm_blend_epi16`; the round tactics
  WasmRoundsA-D  the round pieces 1 .. 7 of `compress_pre` against `Spec.round`
  WasmCompress   compress_pre / compress_in_place / compress_xof = Spec.compress
  WasmWideBase, WasmLane0..3, WasmWide   lane k of the 4-way `round` = the specification's round
  WasmHash4      transposes, counters, the loop of hash4 and its output
  WasmHash1      the while loop of hash1
  WasmHashMany   hash_many: groups of four through hash4, the rest through hash1

The theorems are restated in `B3/Simd/WasmProps.lean`.
-/
import B3.Simd.WasmCompress
import B3.Simd.WasmHash4
import B3.Simd.WasmHashMany
