/- `round_fn4`: every lane is the specification's round -/
import B3.Simd.CAvx512Run4
import B3.Simd.CAvx512Round16
namespace B3.Simd.C512
open B3 B3.Gen.CAvx512
open B3.Gen.C (MSG_SCHEDULE)

theorem prog4_boxed (s x : St) : toS (rrun opsW round_fn4_prog (ofS s) (ofS x)) = roundWithA s (fun i => x[i]) := by
  boxed_round_tac s x

theorem prog4_scalar (s x : St) : rrun opsS round_fn4_prog s x = Spec.roundWith s (fun i => x[i]) :=
  scalar_of_boxed round_fn4_prog prog4_boxed s x

theorem lane4_cases (P : Fin 4 → Prop) (h0 : P 0) (h1 : P 1) (h2 : P 2) (h3 : P 3) (l : Fin 4) : P l := by
  match l with
  | ⟨0, _⟩ => exact h0 | ⟨1, _⟩ => exact h1 | ⟨2, _⟩ => exact h2 | ⟨3, _⟩ => exact h3
  | ⟨n + 4, h⟩ => omega

theorem hom4 (l : Fin 4) : ops4.Hom opsS (fun a => a[l]) := by
  constructor
  · intro a b; revert l; apply lane4_cases <;> rfl
  · intro a b; revert l; apply lane4_cases <;> rfl
  · intro a; revert l; apply lane4_cases <;> exact (ror32_eq _).1
  · intro a; revert l; apply lane4_cases <;> exact (ror32_eq _).2.1
  · intro a; revert l; apply lane4_cases <;> exact (ror32_eq _).2.2.1
  · intro a; revert l; apply lane4_cases <;> exact (ror32_eq _).2.2.2

/-- lane `l` of the 4-way round is one round of the specification on lane `l` -/
theorem round_fn4_lane (v m : Vector V4 16) (r : Fin 7) (l : Fin 4) :
    laneN l (round_fn4 v m r) = Spec.roundWith (laneN l v) (fun i => (laneN l m)[MSG_SCHEDULE[r][i]]) := by
  rw [round_fn4_eq_run]
  exact round_lane_of_run ops4 round_fn4_prog hom4 prog4_scalar v m r l

end B3.Simd.C512
