/- the generated C `compress_pre`, `blake3_compress_in_place_sse41`, `blake3_compress_xof_sse41` against the specification -/
import B3.Simd.CSse41RoundsA
import B3.Simd.CSse41RoundsB
import B3.Simd.CSse41RoundsC
import B3.Simd.CSse41RoundsD
namespace B3.Simd.CSse41
open B3.Simd.CI
open B3 B3.Simd B3.Gen.CSse41

macro "atoms8 " s:ident : tactic => `(tactic|
  (rw [Proofs.vec8_eta $s]
   generalize $s[0] = c0; generalize $s[1] = c1; generalize $s[2] = c2; generalize $s[3] = c3
   generalize $s[4] = c4; generalize $s[5] = c5; generalize $s[6] = c6; generalize $s[7] = c7))

theorem vec4_eta' {α : Type} (s : Vector α 4) : s = #v[s[0], s[1], s[2], s[3]] := by
  apply Vector.ext
  intro i hi
  match i, hi with
  | 0, _ | 1, _ | 2, _ | 3, _ => rfl
  | n + 4, h => omega

/-- the first piece of `compress_pre` overwrites the whole `rows` array (whatever it held): rows of the initial
state, block words in their original order -/
theorem init_eq (rows : Vector V4 4) (cv : CV) (block : St) (bl : UInt8) (t : UInt64) (fl : UInt8) :
    compress_pre_init rows cv block bl t fl
      = rows5r (Spec.initState cv t bl.toUInt32 fl.toUInt32) block := by
  unfold compress_pre_init Spec.initState
  rw [Proofs.c_iv, vec4_eta' rows]
  generalize rows[0] = r0; generalize rows[1] = r1; generalize rows[2] = r2; generalize rows[3] = r3
  atoms8 cv; atoms16 block
  rfl

/-- the seven round pieces in sequence -/
theorem chain_eq (s0 w : St) :
    compress_pre_round7 (compress_pre_round6 (compress_pre_round5 (compress_pre_round4 (compress_pre_round3
      (compress_pre_round2 (compress_pre_round1 (rows5r s0 w)))))))
      = #v[row (Spec.rounds7 s0 w) 0, row (Spec.rounds7 s0 w) 1, row (Spec.rounds7 s0 w) 2, row (Spec.rounds7 s0 w) 3] := by
  rw [round1_eq, round2_eq, round3_eq, round4_eq, round5_eq, round6_eq, round7_eq]
  rfl

/-- `compress_pre` is the linear composition of its pieces (unfolding only) -/
theorem compress_pre_chain (rows : Vector V4 4) (cv : CV) (block : St) (bl : UInt8) (t : UInt64) (fl : UInt8) :
    compress_pre rows cv block bl t fl
      = compress_pre_round7 (compress_pre_round6 (compress_pre_round5 (compress_pre_round4 (compress_pre_round3
          (compress_pre_round2 (compress_pre_round1 (compress_pre_init rows cv block bl t fl))))))) := rfl

theorem compress_pre_eq (rows : Vector V4 4) (cv : CV) (block : St) (bl : UInt8) (t : UInt64) (fl : UInt8) :
    compress_pre rows cv block bl t fl
      = #v[row (Spec.rounds7 (Spec.initState cv t bl.toUInt32 fl.toUInt32) block) 0,
           row (Spec.rounds7 (Spec.initState cv t bl.toUInt32 fl.toUInt32) block) 1,
           row (Spec.rounds7 (Spec.initState cv t bl.toUInt32 fl.toUInt32) block) 2,
           row (Spec.rounds7 (Spec.initState cv t bl.toUInt32 fl.toUInt32) block) 3] := by
  rw [compress_pre_chain, init_eq, chain_eq]

/-- the body of `blake3_compress_in_place_sse41` as a function of the value of `compress_pre` (unfolding only) -/
def cipOf (r : Vector V4 4) (cv : CV) : CV :=
  storeu_words (xorv r[1] r[3]) (storeu_words (xorv r[0] r[2]) cv 0) 4

theorem compress_in_place_unfold (cv : CV) (block : St) (bl : UInt8) (t : UInt64) (fl : UInt8) :
    blake3_compress_in_place_sse41 cv block bl t fl = cipOf (compress_pre uninit cv block bl t fl) cv := rfl

theorem compress_in_place_eq (cv : CV) (block : St) (bl : UInt8) (t : UInt64) (fl : UInt8) :
    blake3_compress_in_place_sse41 cv block bl t fl = first8 (Spec.compress cv block t bl.toUInt32 fl.toUInt32) := by
  rw [compress_in_place_unfold, compress_pre_eq]
  unfold Spec.compress
  generalize Spec.rounds7 _ _ = v
  atoms16 v; atoms8 cv
  kernel_rfl

/-- the body of `blake3_compress_xof_sse41` as a function of the value of `compress_pre` (unfolding only) -/
def xofOf (r : Vector V4 4) (cv : CV) (out : St) : St :=
  storeu_words (xorv r[3] (loadu_words cv 4)) (storeu_words (xorv r[2] (loadu_words cv 0))
    (storeu_words (xorv r[1] r[3]) (storeu_words (xorv r[0] r[2]) out 0) 4) 8) 12

theorem compress_xof_unfold (cv : CV) (block : St) (bl : UInt8) (t : UInt64) (fl : UInt8) (out : St) :
    blake3_compress_xof_sse41 cv block bl t fl out = xofOf (compress_pre uninit cv block bl t fl) cv out := rfl

theorem compress_xof_eq (cv : CV) (block : St) (bl : UInt8) (t : UInt64) (fl : UInt8) (out : St) :
    blake3_compress_xof_sse41 cv block bl t fl out = Spec.compress cv block t bl.toUInt32 fl.toUInt32 := by
  rw [compress_xof_unfold, compress_pre_eq]
  unfold Spec.compress
  generalize Spec.rounds7 _ _ = v
  atoms16 v; atoms8 cv; atoms16 out
  kernel_rfl

end B3.Simd.CSse41
