/- lane 2 of the generated C 8-way `round_fn` (kernel check) -/
import B3.Simd.CAvx2Base
namespace B3.Simd.CAvx2
open B3.Simd.CI
open B3 B3.Simd B3.Gen.CAvx2
open B3.Gen.C (MSG_SCHEDULE)

theorem round_lane2 (v m : Vector V8 16) (r : Fin 7) :
    lane8 2 (round_fn v m r) = roundWithA (lane8 2 v) (fun i => (schedC8 m r)[i][(2 : Fin 8)]) := by
  cround_lane8_tac v m r

end B3.Simd.CAvx2
