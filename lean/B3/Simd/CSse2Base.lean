/-
Base definitions for the proofs about the generated C SSE2 kernels (`B3.Gen.CSse2`, translated from
c/blake3_sse2.c).  The rotations of the C file (16-bit shuffles for 16, `xor` of the two shifted
halves for 12, 8 and 7) and its emulation of `_mm_blend_epi16` are first shown to be lane-wise `rotr` (`rot*_eq`, bit-level facts of `CBits.lean`);
everything else is then checked against the specification by kernel reduction over generalised lanes, as
for the Rust file.  The theorems themselves are stated in `B3/Simd/CSse2Props.lean`.
-/
import B3.Spec
import B3.Gen.CSse2
import B3.Proofs.Compress
import B3.Simd.KernelRfl
import B3.Simd.CBits
import B3.Simd.Sse41Base
namespace B3.Simd.CSse2
open B3.Simd.CI
open B3 B3.Simd B3.Gen.CSse2

/-! ### the four rotations -/

theorem shuflo_B1 (a b c d : UInt32) :
    _mm_shufflelo_epi16 #v[a, b, c, d] 177 = #v[le16x2 (halfOf a 1) (halfOf a 0), le16x2 (halfOf b 1) (halfOf b 0), c, d] := rfl

theorem shufhi_B1 (a b c d : UInt32) :
    _mm_shufflehi_epi16 #v[a, b, c, d] 177 = #v[a, b, le16x2 (halfOf c 1) (halfOf c 0), le16x2 (halfOf d 1) (halfOf d 0)] := rfl

theorem rot16_eq (x : V4) : rot16 x = rotv 16 x := by
  unfold rot16
  rw [v4_eta x]
  generalize x[0] = a; generalize x[1] = b; generalize x[2] = c; generalize x[3] = d
  rw [shuflo_B1, shufhi_B1]
  exact v4_congr (halves_rot16 a) (halves_rot16 b) (halves_rot16 c) (halves_rot16 d)


theorem rot8_eq (x : V4) : rot8 x = rotv 8 x := by
  show #v[srl32 x[0] 8 ^^^ sll32 x[0] 24, srl32 x[1] 8 ^^^ sll32 x[1] 24,
          srl32 x[2] 8 ^^^ sll32 x[2] 24, srl32 x[3] 8 ^^^ sll32 x[3] 24] = _
  rw [xor_rot8, xor_rot8, xor_rot8, xor_rot8]
  rfl

theorem rot12_eq (x : V4) : rot12 x = rotv 12 x := by
  show #v[srl32 x[0] 12 ^^^ sll32 x[0] 20, srl32 x[1] 12 ^^^ sll32 x[1] 20,
          srl32 x[2] 12 ^^^ sll32 x[2] 20, srl32 x[3] 12 ^^^ sll32 x[3] 20] = _
  rw [xor_rot12, xor_rot12, xor_rot12, xor_rot12]
  rfl

theorem rot7_eq (x : V4) : rot7 x = rotv 7 x := by
  show #v[srl32 x[0] 7 ^^^ sll32 x[0] 25, srl32 x[1] 7 ^^^ sll32 x[1] 25,
          srl32 x[2] 7 ^^^ sll32 x[2] 25, srl32 x[3] 7 ^^^ sll32 x[3] 25] = _
  rw [xor_rot7, xor_rot7, xor_rot7, xor_rot7]
  rfl

theorem rot16_fun : @rot16 = rotv 16 := funext rot16_eq
theorem rot12_fun : @rot12 = rotv 12 := funext rot12_eq
theorem rot8_fun : @rot8 = rotv 8 := funext rot8_eq
theorem rot7_fun : @rot7 = rotv 7 := funext rot7_eq

/-! ### g1 / g2 with the rotations in reference form -/

def g1I (row0 row1 row2 row3 m : V4) : V4 × V4 × V4 × V4 :=
  let row0 := (addv (addv row0 m) row1)
  let row3 := (xorv row3 row0)
  let row3 := (rotv 16 row3)
  let row2 := (addv row2 row3)
  let row1 := (xorv row1 row2)
  let row1 := (rotv 12 row1)
  (row0, row1, row2, row3)

def g2I (row0 row1 row2 row3 m : V4) : V4 × V4 × V4 × V4 :=
  let row0 := (addv (addv row0 m) row1)
  let row3 := (xorv row3 row0)
  let row3 := (rotv 8 row3)
  let row2 := (addv row2 row3)
  let row1 := (xorv row1 row2)
  let row1 := (rotv 7 row1)
  (row0, row1, row2, row3)

theorem g1_fun : @g1 = @g1I := by
  funext a b c d m
  unfold g1 g1I
  rw [rot16_fun, rot12_fun]

theorem g2_fun : @g2 = @g2I := by
  funext a b c d m
  unfold g2 g2I
  rw [rot8_fun, rot7_fun]

/-! ### the emulation of `_mm_blend_epi16` -/

theorem mask_CC : _mm_cmpeq_epi16 (_mm_and_si128 (_mm_set1_epi16 204) (_mm_set_epi16 128 64 32 16 8 4 2 1))
    (_mm_set_epi16 128 64 32 16 8 4 2 1) = #v[0, 0xFFFFFFFF, 0, 0xFFFFFFFF] := by decide

theorem mask_C0 : _mm_cmpeq_epi16 (_mm_and_si128 (_mm_set1_epi16 192) (_mm_set_epi16 128 64 32 16 8 4 2 1))
    (_mm_set_epi16 128 64 32 16 8 4 2 1) = #v[0, 0, 0, 0xFFFFFFFF] := by decide

theorem blend_CC (a b : V4) : blend_epi16 a b 204 = #v[a[0], b[1], a[2], b[3]] := by
  unfold blend_epi16
  simp only []
  rw [mask_CC]
  exact v4_congr (sel_zero _ _) (sel_ones _ _) (sel_zero _ _) (sel_ones _ _)

theorem blend_C0 (a b : V4) : blend_epi16 a b 192 = #v[a[0], a[1], a[2], b[3]] := by
  unfold blend_epi16
  simp only []
  rw [mask_C0]
  exact v4_congr (sel_zero _ _) (sel_zero _ _) (sel_zero _ _) (sel_ones _ _)

/-- `blend_epi16` with the two immediates that occur, in reference form -/
def blendI (a b : V4) (imm8 : UInt16) : V4 :=
  if imm8 = 204 then #v[a[0], b[1], a[2], b[3]] else if imm8 = 192 then #v[a[0], a[1], a[2], b[3]] else blend_epi16 a b imm8

theorem blend_fun : @blend_epi16 = @blendI := by
  funext a b imm
  unfold blendI
  split
  · subst imm; exact blend_CC a b
  · split
    · subst imm; exact blend_C0 a b
    · rfl

/-! ### the state of `compress_pre` between its pieces -/

/-- what a round piece of `compress_pre` returns: the array of the four rows of `s` and the grouped words of `w` -/
def rows5 (s w : St) : Vector V4 4 × V4 × V4 × V4 × V4 :=
  (#v[row s 0, row s 1, row s 2, row s 3], grp0 w, grp1 w, grp2 w, grp3 w)

/-- the rows of `s` and the words of `w` in their original order (what `compress_pre_init` returns) -/
def rows5r (s w : St) : Vector V4 4 × V4 × V4 × V4 × V4 :=
  (#v[row s 0, row s 1, row s 2, row s 3], row w 0, row w 1, row w 2, row w 3)

/-- rounds 2-6: one `Spec.round` with the permuted message; leave the permuted message in grouped order -/
macro "cround_tac " f:ident s:ident w:ident : tactic => `(tactic|
  (unfold $f
   rw [g1_fun, g2_fun]
   try rw [blend_fun]
   unfold Spec.round
   rw [← roundWithA_eq]
   atoms16 $s; atoms16 $w
   kernel_rfl))

end B3.Simd.CSse2
