/-
Lane model of the x86 AVX2 intrinsics used by `src/rust_avx2.rs` (extends `B3/Simd/Prim.lean`).

THIS FILE IS TRUSTED: it is the statement of what the hardware instructions do.  Every definition
carries the pseudo-code of the Intel Intrinsics Guide it transcribes.  The model is validated at run
time by `B3/Simd/Run2.lean` (the generated kernels, evaluated with these definitions, are compared
with the real crate running on the CPU).

A 256-bit register (`__m256i`) is a vector of eight 32-bit lanes, lane 0 = bits 31:0 (the lowest
address when stored to memory).  Lanes 0-3 are the low 128-bit half, lanes 4-7 the high half; the
`unpack` instructions work on each half separately, `_mm256_permute2x128_si256` moves whole halves.
`i32` lanes are represented by their bit patterns (`UInt32`).

As in `Prim.lean`, every lane of a result is written out explicitly so that `(f a b)[k]` on symbolic
`a b` reduces by `rfl`; immediates are `Nat` literals in the generated code.
-/
import B3.Simd.Prim
namespace B3.Simd
open B3

/-- `__m256i` as eight 32-bit lanes; lane 0 = bits 31:0 -/
abbrev V8 := Vector UInt32 8

/-! ### arithmetic and logic -/

/-- `FOR j := 0 to 7: i := j*32; dst[i+31:i] := a[i+31:i] + b[i+31:i]` (wrapping) -/
def _mm256_add_epi32 (a b : V8) : V8 :=
  #v[a[0] + b[0], a[1] + b[1], a[2] + b[2], a[3] + b[3], a[4] + b[4], a[5] + b[5], a[6] + b[6], a[7] + b[7]]

/-- `dst[255:0] := (a[255:0] XOR b[255:0])` -/
def _mm256_xor_si256 (a b : V8) : V8 :=
  #v[a[0] ^^^ b[0], a[1] ^^^ b[1], a[2] ^^^ b[2], a[3] ^^^ b[3],
     a[4] ^^^ b[4], a[5] ^^^ b[5], a[6] ^^^ b[6], a[7] ^^^ b[7]]

/-- `dst[255:0] := (a[255:0] OR b[255:0])` -/
def _mm256_or_si256 (a b : V8) : V8 :=
  #v[a[0] ||| b[0], a[1] ||| b[1], a[2] ||| b[2], a[3] ||| b[3],
     a[4] ||| b[4], a[5] ||| b[5], a[6] ||| b[6], a[7] ||| b[7]]

/-- `FOR j := 0 to 7: dst.dword[j] := imm8[7:0] > 31 ? 0 : ZeroExtend32(a.dword[j] >> imm8[7:0])`
(`srl32`: one lane, `Prim.lean`) -/
def _mm256_srli_epi32 (a : V8) (imm8 : Nat) : V8 :=
  #v[srl32 a[0] imm8, srl32 a[1] imm8, srl32 a[2] imm8, srl32 a[3] imm8,
     srl32 a[4] imm8, srl32 a[5] imm8, srl32 a[6] imm8, srl32 a[7] imm8]

/-- `FOR j := 0 to 7: dst.dword[j] := imm8[7:0] > 31 ? 0 : ZeroExtend32(a.dword[j] << imm8[7:0])` -/
def _mm256_slli_epi32 (a : V8) (imm8 : Nat) : V8 :=
  #v[sll32 a[0] imm8, sll32 a[1] imm8, sll32 a[2] imm8, sll32 a[3] imm8,
     sll32 a[4] imm8, sll32 a[5] imm8, sll32 a[6] imm8, sll32 a[7] imm8]

/-! ### set -/

/-- `FOR j := 0 to 7: dst.dword[j] := a` -/
def _mm256_set1_epi32 (a : UInt32) : V8 := #v[a, a, a, a, a, a, a, a]

/-- `dst[31:0] := e7; dst[63:32] := e6; … dst[255:224] := e0`
(the Intel guide names the *first* argument of `setr` `e7`; it goes to the lowest lane) -/
def _mm256_setr_epi32 (e7 e6 e5 e4 e3 e2 e1 e0 : UInt32) : V8 := #v[e7, e6, e5, e4, e3, e2, e1, e0]

/-! ### unpack (per 128-bit half) and 128-bit permute -/

/-- `INTERLEAVE_DWORDS(src1, src2)`: `dst[31:0] := src1[31:0]; dst[63:32] := src2[31:0];
dst[95:64] := src1[63:32]; dst[127:96] := src2[63:32]`;
`dst[127:0] := INTERLEAVE_DWORDS(a[127:0], b[127:0]); dst[255:128] := INTERLEAVE_DWORDS(a[255:128], b[255:128])` -/
def _mm256_unpacklo_epi32 (a b : V8) : V8 := #v[a[0], b[0], a[1], b[1], a[4], b[4], a[5], b[5]]

/-- `INTERLEAVE_HIGH_DWORDS(src1, src2)`: `dst[31:0] := src1[95:64]; dst[63:32] := src2[95:64];
dst[95:64] := src1[127:96]; dst[127:96] := src2[127:96]`, applied to each 128-bit half -/
def _mm256_unpackhi_epi32 (a b : V8) : V8 := #v[a[2], b[2], a[3], b[3], a[6], b[6], a[7], b[7]]

/-- `INTERLEAVE_QWORDS(src1, src2)`: `dst[63:0] := src1[63:0]; dst[127:64] := src2[63:0]`, applied to each
128-bit half -/
def _mm256_unpacklo_epi64 (a b : V8) : V8 := #v[a[0], a[1], b[0], b[1], a[4], a[5], b[4], b[5]]

/-- `INTERLEAVE_HIGH_QWORDS(src1, src2)`: `dst[63:0] := src1[127:64]; dst[127:64] := src2[127:64]`, applied
to each 128-bit half -/
def _mm256_unpackhi_epi64 (a b : V8) : V8 := #v[a[2], a[3], b[2], b[3], a[6], a[7], b[6], b[7]]

/-- 32-bit lane `j` (0-3) of `SELECT4(src1, src2, control)`:
`CASE control[1:0] OF 0: tmp := src1[127:0]; 1: tmp := src1[255:128]; 2: tmp := src2[127:0];
3: tmp := src2[255:128]`; `IF control[3] THEN tmp := 0` -/
def select128 (src1 src2 : V8) (control : Nat) (j : Fin 4) : UInt32 :=
  if control.testBit 3 then 0 else
  match control &&& 3 with
  | 0 => src1[j.val]'(by omega)
  | 1 => src1[j.val + 4]'(by omega)
  | 2 => src2[j.val]'(by omega)
  | _ => src2[j.val + 4]'(by omega)

/-- `dst[127:0] := SELECT4(a[255:0], b[255:0], imm8[3:0]); dst[255:128] := SELECT4(a[255:0], b[255:0], imm8[7:4])` -/
def _mm256_permute2x128_si256 (a b : V8) (imm8 : Nat) : V8 :=
  #v[select128 a b imm8 0, select128 a b imm8 1, select128 a b imm8 2, select128 a b imm8 3,
     select128 a b (imm8 >>> 4) 0, select128 a b (imm8 >>> 4) 1, select128 a b (imm8 >>> 4) 2,
     select128 a b (imm8 >>> 4) 3]

/-! ### memory (the two views of `Prim.lean`, 32 bytes at a time) -/

/-- `_mm256_loadu_si256(p)` where `p` points at word `k` of a word array: `dst[255:0] := MEM[p+255:p]` -/
def loadu_words8 {n : Nat} (v : Vector UInt32 n) (k : Nat) (h : k + 7 < n := by decide) : V8 :=
  #v[v[k], v[k + 1], v[k + 2], v[k + 3], v[k + 4], v[k + 5], v[k + 6], v[k + 7]]

/-- `_mm256_storeu_si256(p, a)` where `p` points at word `k` of a word array: `MEM[p+255:p] := a[255:0]` -/
def storeu_words8 {n : Nat} (a : V8) (v : Vector UInt32 n) (k : Nat) (h : k + 7 < n := by decide) :
    Vector UInt32 n :=
  (((((((v.set k a[0]).set (k + 1) a[1]).set (k + 2) a[2]).set (k + 3) a[3]).set (k + 4) a[4]).set (k + 5)
    a[5]).set (k + 6) a[6]).set (k + 7) a[7]

/-- `_mm256_loadu_si256(p.add(o))` for a raw byte pointer: `dst[255:0] := MEM[p+o+255 : p+o]` -/
def loadu_mem8 (p : Mem) (o : Nat) : V8 :=
  #v[p.word o, p.word (o + 4), p.word (o + 8), p.word (o + 12),
     p.word (o + 16), p.word (o + 20), p.word (o + 24), p.word (o + 28)]

/-! ### generic helpers for `mut_array_refs!` / pointer arrays of eight -/

/-- the sub-array `v[o .. o+8]` -/
def slice8 {α : Type} {n : Nat} (v : Vector α n) (o : Nat) (h : o + 7 < n := by decide) : Vector α 8 :=
  #v[v[o], v[o + 1], v[o + 2], v[o + 3], v[o + 4], v[o + 5], v[o + 6], v[o + 7]]

/-- write back the sub-array `v[o .. o+8]` -/
def setSlice8 {α : Type} {n : Nat} (v : Vector α n) (o : Nat) (w : Vector α 8) (h : o + 7 < n := by decide) :
    Vector α n :=
  (((((((v.set o w[0]).set (o + 1) w[1]).set (o + 2) w[2]).set (o + 3) w[3]).set (o + 4) w[4]).set (o + 5)
    w[5]).set (o + 6) w[6]).set (o + 7) w[7]

/-- `&*(inputs.as_ptr() as *const [*const u8; 8])`: the first eight references of a slice of array
references, as raw pointers -/
def ptrs8 (inputs : List (List UInt8)) : Vector Mem 8 :=
  #v[memOf (inputs.getD 0 []), memOf (inputs.getD 1 []), memOf (inputs.getD 2 []), memOf (inputs.getD 3 []),
     memOf (inputs.getD 4 []), memOf (inputs.getD 5 []), memOf (inputs.getD 6 []), memOf (inputs.getD 7 [])]

/-! ### sanity checks of the model (not used by the kernels' proofs) -/

/-- the two immediates `interleave128` uses: `0x20` = (low half of `a`, low half of `b`),
`0x31` = (high half of `a`, high half of `b`) -/
theorem permute2x128_0x20 (a b : V8) :
    _mm256_permute2x128_si256 a b 0x20 = #v[a[0], a[1], a[2], a[3], b[0], b[1], b[2], b[3]] := rfl

theorem permute2x128_0x31 (a b : V8) :
    _mm256_permute2x128_si256 a b 0x31 = #v[a[4], a[5], a[6], a[7], b[4], b[5], b[6], b[7]] := rfl

/-- bit 3 / bit 7 of the immediate zero a half -/
example (a b : V8) : _mm256_permute2x128_si256 a b 0x83 = #v[b[4], b[5], b[6], b[7], 0, 0, 0, 0] := rfl

/-- each half of an `unpack` only sees the same half of its operands: the low half of the 256-bit
instruction is the 128-bit instruction on the low halves, likewise for the high halves -/
theorem unpacklo_epi32_halves (a b : V8) :
    _mm256_unpacklo_epi32 a b
      = #v[(_mm_unpacklo_epi32 #v[a[0], a[1], a[2], a[3]] #v[b[0], b[1], b[2], b[3]])[0],
           (_mm_unpacklo_epi32 #v[a[0], a[1], a[2], a[3]] #v[b[0], b[1], b[2], b[3]])[1],
           (_mm_unpacklo_epi32 #v[a[0], a[1], a[2], a[3]] #v[b[0], b[1], b[2], b[3]])[2],
           (_mm_unpacklo_epi32 #v[a[0], a[1], a[2], a[3]] #v[b[0], b[1], b[2], b[3]])[3],
           (_mm_unpacklo_epi32 #v[a[4], a[5], a[6], a[7]] #v[b[4], b[5], b[6], b[7]])[0],
           (_mm_unpacklo_epi32 #v[a[4], a[5], a[6], a[7]] #v[b[4], b[5], b[6], b[7]])[1],
           (_mm_unpacklo_epi32 #v[a[4], a[5], a[6], a[7]] #v[b[4], b[5], b[6], b[7]])[2],
           (_mm_unpacklo_epi32 #v[a[4], a[5], a[6], a[7]] #v[b[4], b[5], b[6], b[7]])[3]] := rfl

end B3.Simd
