/- the tactic for the lane-by-lane statements about the Wasm SIMD 4-way `round` (definitions `lane`, `sched`:
`Sse41WideBase.lean`) -/
import B3.Simd.Sse41WideBase
import B3.Simd.WasmBase
namespace B3.Simd.Wasm
open B3 B3.Simd B3.Gen.RsWasm
open B3.Gen.Rs (MSG_SCHEDULE)

/-- lane `l` (a literal) of the generated 4-way round against the (re-associated) specification round:
one kernel check per lane, each in its own module (`WasmLane0` .. `WasmLane3`); the rotations are first put in reference form -/
macro "wround_lane_tac " v:ident m:ident r:ident : tactic => `(tactic|
  (unfold round round_part1 round_part2 sched
   rw [rot16_fun, rot12_fun, rot8_fun, rot7_fun]
   generalize $m[MSG_SCHEDULE[$r][0]] = x0; generalize $m[MSG_SCHEDULE[$r][1]] = x1
   generalize $m[MSG_SCHEDULE[$r][2]] = x2; generalize $m[MSG_SCHEDULE[$r][3]] = x3
   generalize $m[MSG_SCHEDULE[$r][4]] = x4; generalize $m[MSG_SCHEDULE[$r][5]] = x5
   generalize $m[MSG_SCHEDULE[$r][6]] = x6; generalize $m[MSG_SCHEDULE[$r][7]] = x7
   generalize $m[MSG_SCHEDULE[$r][8]] = x8; generalize $m[MSG_SCHEDULE[$r][9]] = x9
   generalize $m[MSG_SCHEDULE[$r][10]] = x10; generalize $m[MSG_SCHEDULE[$r][11]] = x11
   generalize $m[MSG_SCHEDULE[$r][12]] = x12; generalize $m[MSG_SCHEDULE[$r][13]] = x13
   generalize $m[MSG_SCHEDULE[$r][14]] = x14; generalize $m[MSG_SCHEDULE[$r][15]] = x15
   vatoms16 $v
   kernel_rfl))

end B3.Simd.Wasm
