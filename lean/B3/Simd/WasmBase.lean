/-
Base lemmas for the proofs about the generated Wasm SIMD kernels (`B3.Gen.RsWasm`, translated from
src/wasm32_simd.rs).  The generic definitions (`gA`, `roundWithA`, `row`, `rows8`, `atoms16`, …) are those of
`Sse41Base.lean`.  Two things of the Wasm file do not reduce on symbolic lanes and are first put in reference form:

* the rotations: `rot16` / `rot8` are byte shuffles (`i8x16_shuffle::<2, 3, 0, 1, …>(a, a)`), `rot12` / `rot7` are
  `v128_or(u32x4_shr(a, n), u32x4_shl(a, 32 - n))` with run-time shift counts (taken modulo 32);
  `rot*_eq : rot* x = rotv * x` (lane-wise `rotr`; byte-level facts `bytes_rot16/8` of `CBits.lean`);
* `blend_epi16`, the emulation of the SSE4.1 `_mm_blend_epi16` with `i16x8` / `i16x8_splat` / `v128_and` /
  `i16x8_eq` / `v128_bitselect`:  `blend_epi16_eq : blend_epi16 a b imm8 = _mm_blend_epi16 a b imm8.toNat` for every
  `imm8 : UInt32` (same route as `Sse2Base.lean`: word `j` of the mask is all-ones iff bit `j` of the immediate is set).

The round proofs rewrite these constants inside the unfolded round piece and then check the piece against the
specification by kernel reduction over generalised lanes.
-/
import B3.Simd.Sse41Base
import B3.Simd.CBits
import B3.Gen.RsWasm
namespace B3.Simd.Wasm
open B3 B3.Simd B3.Gen.RsWasm
open B3.Simd.CI (rotv v4_eta v4_congr bytes_rot16 bytes_rot8)

/-! ### the four rotations -/

theorem rot16_eq (x : V4) : rot16 x = rotv 16 x := by
  rw [v4_eta x]
  generalize x[0] = a; generalize x[1] = b; generalize x[2] = c; generalize x[3] = d
  show (#v[le32 (byteOf a 2) (byteOf a 3) (byteOf a 0) (byteOf a 1), le32 (byteOf b 2) (byteOf b 3) (byteOf b 0) (byteOf b 1),
           le32 (byteOf c 2) (byteOf c 3) (byteOf c 0) (byteOf c 1), le32 (byteOf d 2) (byteOf d 3) (byteOf d 0) (byteOf d 1)] : V4)
      = #v[rotr a 16, rotr b 16, rotr c 16, rotr d 16]
  exact v4_congr (bytes_rot16 a) (bytes_rot16 b) (bytes_rot16 c) (bytes_rot16 d)

theorem rot8_eq (x : V4) : rot8 x = rotv 8 x := by
  rw [v4_eta x]
  generalize x[0] = a; generalize x[1] = b; generalize x[2] = c; generalize x[3] = d
  show (#v[le32 (byteOf a 1) (byteOf a 2) (byteOf a 3) (byteOf a 0), le32 (byteOf b 1) (byteOf b 2) (byteOf b 3) (byteOf b 0),
           le32 (byteOf c 1) (byteOf c 2) (byteOf c 3) (byteOf c 0), le32 (byteOf d 1) (byteOf d 2) (byteOf d 3) (byteOf d 0)] : V4)
      = #v[rotr a 8, rotr b 8, rotr c 8, rotr d 8]
  exact v4_congr (bytes_rot8 a) (bytes_rot8 b) (bytes_rot8 c) (bytes_rot8 d)

/-- `(x >> n) | (x << m)` with the counts reduced modulo 32 is `rotr x n` when `n < 32` and `m = 32 - n` -/
theorem shifts_rotr (x n m : UInt32) (hn : n % 32 = n) (hm : m % 32 = 32 - n) : shr_u32 x n ||| shl32 x m = rotr x n := by
  unfold shr_u32 shl32 rotr
  rw [hn, hm]

theorem rot12_eq (x : V4) : rot12 x = rotv 12 x := by
  show (#v[shr_u32 x[0] 12 ||| shl32 x[0] 20, shr_u32 x[1] 12 ||| shl32 x[1] 20,
           shr_u32 x[2] 12 ||| shl32 x[2] 20, shr_u32 x[3] 12 ||| shl32 x[3] 20] : V4) = _
  rw [shifts_rotr _ 12 20 (by decide) (by decide), shifts_rotr _ 12 20 (by decide) (by decide),
    shifts_rotr _ 12 20 (by decide) (by decide), shifts_rotr _ 12 20 (by decide) (by decide)]
  rfl

theorem rot7_eq (x : V4) : rot7 x = rotv 7 x := by
  show (#v[shr_u32 x[0] 7 ||| shl32 x[0] 25, shr_u32 x[1] 7 ||| shl32 x[1] 25,
           shr_u32 x[2] 7 ||| shl32 x[2] 25, shr_u32 x[3] 7 ||| shl32 x[3] 25] : V4) = _
  rw [shifts_rotr _ 7 25 (by decide) (by decide), shifts_rotr _ 7 25 (by decide) (by decide),
    shifts_rotr _ 7 25 (by decide) (by decide), shifts_rotr _ 7 25 (by decide) (by decide)]
  rfl

theorem rot16_fun : @rot16 = rotv 16 := funext rot16_eq
theorem rot12_fun : @rot12 = rotv 12 := funext rot12_eq
theorem rot8_fun : @rot8 = rotv 8 := funext rot8_eq
theorem rot7_fun : @rot7 = rotv 7 := funext rot7_eq

/-! ### g1 / g2 with the rotations in reference form -/

def g1I (row0 row1 row2 row3 m : V4) : V4 × V4 × V4 × V4 :=
  let row0 := (add (add row0 m) row1)
  let row3 := (xor row3 row0)
  let row3 := (rotv 16 row3)
  let row2 := (add row2 row3)
  let row1 := (xor row1 row2)
  let row1 := (rotv 12 row1)
  (row0, row1, row2, row3)

def g2I (row0 row1 row2 row3 m : V4) : V4 × V4 × V4 × V4 :=
  let row0 := (add (add row0 m) row1)
  let row3 := (xor row3 row0)
  let row3 := (rotv 8 row3)
  let row2 := (add row2 row3)
  let row1 := (xor row1 row2)
  let row1 := (rotv 7 row1)
  (row0, row1, row2, row3)

theorem g1_fun : @g1 = @g1I := by
  funext a b c d m
  unfold g1 g1I
  rw [rot16_fun, rot12_fun]

theorem g2_fun : @g2 = @g2I := by
  funext a b c d m
  unfold g2 g2I
  rw [rot8_fun, rot7_fun]

/-! ### 16-bit words of 32-bit lanes (as in `Sse2Base.lean`; no generated code is mentioned) -/

theorem lo16_pack16 (a b : UInt16) : lo16 (pack16 a b) = a := by
  unfold lo16 pack16
  apply UInt16.toBitVec_inj.mp
  simp

theorem hi16_pack16 (a b : UInt16) : hi16 (pack16 a b) = b := by
  unfold hi16 pack16
  apply UInt16.toBitVec_inj.mp
  simp
  ext i hi
  have h1 : 16 + i < 32 := by omega
  have h2 : ¬ 16 + i < 16 := by omega
  have h3 : i < 32 := by omega
  simp [h1, h2, h3, BitVec.getLsbD_eq_getElem hi]

theorem lo16_and (u v : UInt32) : lo16 (u &&& v) = lo16 u &&& lo16 v := UInt32.toUInt16_and u v

theorem hi16_and (u v : UInt32) : hi16 (u &&& v) = hi16 u &&& hi16 v := by
  unfold hi16
  apply UInt16.toBitVec_inj.mp
  simp
  ext i hi
  simp

theorem bv_and_twoPow_eq (x : BitVec 16) (j : Nat) (hj : j < 16) :
    (x &&& BitVec.twoPow 16 j = BitVec.twoPow 16 j) ↔ x.getLsbD j = true := by
  rw [BitVec.and_twoPow]
  constructor
  · intro h
    by_cases hb : x.getLsbD j = true
    · exact hb
    · rw [if_neg hb] at h
      have := congrArg (fun v => v.getLsbD j) h
      simp [hj] at this
  · intro h; rw [if_pos h]

/-- comparing `x AND 2^j` with `2^j` tests bit `j` of `x` -/
theorem cmpeq16_bit (x : UInt16) (j : Nat) (hj : j < 16) (c : UInt16) (hc : c.toBitVec = BitVec.twoPow 16 j) :
    cmpeq16 (x &&& c) c = if x.toNat.testBit j then 0xFFFF else 0 := by
  unfold cmpeq16
  have h : (x &&& c = c) ↔ x.toNat.testBit j = true := by
    rw [← UInt16.toBitVec_inj, UInt16.toBitVec_and, hc, bv_and_twoPow_eq _ _ hj, ← BitVec.testBit_toNat,
      UInt16.toNat_toBitVec]
  by_cases hb : x.toNat.testBit j = true
  · rw [if_pos hb, if_pos (h.mpr hb)]
  · rw [if_neg hb, if_neg (fun e => hb (h.mp e))]

/-! ### `blend_epi16` is `_mm_blend_epi16` -/

/-- the mask which `blend_epi16` computes from its immediate: 16-bit lane `j` is `0xFFFF` iff bit `j` is set -/
def blendMask (imm8 : UInt32) : V4 :=
  i16x8_eq (v128_and (i16x8_splat imm8.toUInt16) (i16x8 1 2 4 8 16 32 64 128)) (i16x8 1 2 4 8 16 32 64 128)

/-- the body of `blend_epi16` (unfolding only: a change to the source function shows up here).  Note the order
`(b, a, mask)`: bits of `b` where the mask is set -/
theorem blend_epi16_unfold (a b : V4) (imm8 : UInt32) :
    blend_epi16 a b imm8 = v128_bitselect b a (blendMask imm8) := rfl

/-- a lane of the mask, given the immediate's bits for the lane's low and high word -/
def maskLane (lo hi : Bool) : UInt32 :=
  match lo, hi with
  | false, false => 0
  | true, true => 0xFFFFFFFF
  | true, false => 0x0000FFFF
  | false, true => 0xFFFF0000

theorem pack16_mask (lo hi : Bool) :
    pack16 (if lo then 0xFFFF else 0) (if hi then 0xFFFF else 0) = maskLane lo hi := by
  cases lo <;> cases hi <;> decide

/-- one lane of the mask: its two words compare `x AND 2^j`, `x AND 2^(j+1)` with the bit constants -/
theorem mask_lane (x : UInt16) (j : Nat) (hj : j + 1 < 16) (c0 c1 : UInt16)
    (h0 : c0.toBitVec = BitVec.twoPow 16 j) (h1 : c1.toBitVec = BitVec.twoPow 16 (j + 1)) :
    pack16 (cmpeq16 (lo16 (pack16 x x &&& pack16 c0 c1)) (lo16 (pack16 c0 c1)))
           (cmpeq16 (hi16 (pack16 x x &&& pack16 c0 c1)) (hi16 (pack16 c0 c1)))
      = maskLane (x.toNat.testBit j) (x.toNat.testBit (j + 1)) := by
  rw [lo16_and, hi16_and, lo16_pack16, lo16_pack16, hi16_pack16, hi16_pack16,
    cmpeq16_bit x j (by omega) c0 h0, cmpeq16_bit x (j + 1) hj c1 h1, pack16_mask]

/-- `imm8 as i16` keeps the low 16 bits -/
theorem testBit_toUInt16 (imm8 : UInt32) (j : Nat) (hj : j < 16) :
    imm8.toUInt16.toNat.testBit j = imm8.toNat.testBit j := by
  rw [UInt32.toNat_toUInt16, Nat.testBit_mod_two_pow]
  simp [hj]

/-- the mask, for every immediate -/
theorem blendMask_eq (imm8 : UInt32) : blendMask imm8
    = #v[maskLane (imm8.toNat.testBit 0) (imm8.toNat.testBit 1), maskLane (imm8.toNat.testBit 2) (imm8.toNat.testBit 3),
         maskLane (imm8.toNat.testBit 4) (imm8.toNat.testBit 5), maskLane (imm8.toNat.testBit 6) (imm8.toNat.testBit 7)] := by
  rw [← testBit_toUInt16 imm8 0 (by omega), ← testBit_toUInt16 imm8 1 (by omega), ← testBit_toUInt16 imm8 2 (by omega),
    ← testBit_toUInt16 imm8 3 (by omega), ← testBit_toUInt16 imm8 4 (by omega), ← testBit_toUInt16 imm8 5 (by omega),
    ← testBit_toUInt16 imm8 6 (by omega), ← testBit_toUInt16 imm8 7 (by omega)]
  unfold blendMask
  generalize imm8.toUInt16 = x
  rw [← mask_lane x 0 (by omega) 1 2 (by decide) (by decide), ← mask_lane x 2 (by omega) 4 8 (by decide) (by decide),
    ← mask_lane x 4 (by omega) 16 32 (by decide) (by decide), ← mask_lane x 6 (by omega) 64 128 (by decide) (by decide)]
  rfl

/-- `(b AND mask) OR (a AND NOT mask)` selects the words of `b` where the mask is set -/
theorem select_lane (lo hi : Bool) (x y : UInt32) :
    (y &&& maskLane lo hi) ||| (x &&& ~~~ maskLane lo hi) = blend16 lo hi x y := by
  have n1 : ~~~(0x0000FFFF : UInt32) = 0xFFFF0000 := by decide
  have n2 : ~~~(0xFFFF0000 : UInt32) = 0x0000FFFF := by decide
  have n3 : ~~~(0xFFFFFFFF : UInt32) = 0 := by decide
  have n4 : (0xFFFFFFFF : UInt32) = -1 := by decide
  cases lo <;> cases hi <;> simp only [maskLane, blend16]
  · rw [UInt32.not_zero, UInt32.and_zero, UInt32.zero_or, UInt32.and_neg_one]
  · rw [n2, UInt32.or_comm]
  · rw [n1]
  · rw [n3, UInt32.and_zero, UInt32.or_zero, n4, UInt32.and_neg_one]

/-- **`blend_epi16` (Wasm emulation) computes `_mm_blend_epi16` (the SSE4.1 instruction whose name it bears)**, for
every immediate (bits 8 and above of `imm8` are ignored by both) -/
theorem blend_epi16_eq (a b : V4) (imm8 : UInt32) :
    blend_epi16 a b imm8 = _mm_blend_epi16 a b imm8.toNat := by
  rw [blend_epi16_unfold, blendMask_eq]
  apply Vector.ext
  intro i hi
  match i, hi with
  | 0, _ => exact select_lane _ _ _ _
  | 1, _ => exact select_lane _ _ _ _
  | 2, _ => exact select_lane _ _ _ _
  | 3, _ => exact select_lane _ _ _ _
  | n + 4, h => omega

theorem blend_epi16_eq_fun : blend_epi16 = fun a b imm8 => _mm_blend_epi16 a b imm8.toNat := by
  funext a b imm8
  exact blend_epi16_eq a b imm8

/-! ### the round tactics -/

/-- round piece 1 of `compress_pre` (no blend): `g1` / `g2` in reference form, then a kernel check -/
macro "wround_tac1 " f:ident s:ident w:ident : tactic => `(tactic|
  (unfold Spec.round
   rw [← roundWithA_eq]
   delta $f
   rw [g1_fun, g2_fun]
   atoms16 $s; atoms16 $w
   kernel_rfl))

/-- a round piece 2 … 7 of `compress_pre` against one `Spec.round`: `g1` / `g2` / `blend_epi16` are replaced by their
reference forms in the unfolded piece, then the kernel evaluates everything on symbolic lanes -/
macro "wround_tac " f:ident s:ident w:ident : tactic => `(tactic|
  (unfold Spec.round
   rw [← roundWithA_eq]
   delta $f
   rw [blend_epi16_eq_fun, g1_fun, g2_fun]
   atoms16 $s; atoms16 $w
   kernel_rfl))

end B3.Simd.Wasm
