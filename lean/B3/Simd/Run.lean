/-
Running the generated SSE4.1 kernels (evaluated with the lane model of `B3/Simd/Prim.lean`) on
concrete inputs, so that they can be compared with the real crate running on the CPU.

  cip   <cv hex, 32 bytes> <block hex, 64 bytes> <block_len> <counter> <flags>   -> 32 bytes hex
  cxof  <cv hex, 32 bytes> <block hex, 64 bytes> <block_len> <counter> <flags>   -> 64 bytes hex
  hash4 <blocks> <key hex, 32 bytes> <counter> <incr 0|1> <flags> <flags_start> <flags_end>
        <in0 hex> <in1 hex> <in2 hex> <in3 hex>      (each input blocks*64 bytes)   -> 128 bytes hex

  hmany <N> <count> <key hex> <counter> <incr 0|1> <flags> <flags_start> <flags_end> <in hex>*count
        (each input N bytes, the out buffer is 32*count zero bytes)                  -> 32*count bytes hex

Numbers are decimal; hex is lowercase; words <-> bytes are little-endian (`wordsOfBytes`, `bytesOfWords`).
`lake env lean --run RunSimd.lean < cases.txt` prints one answer per line (`ERR` for a malformed line).
-/
import B3.Gen.RsSse41
namespace B3.Simd.Run
open B3 B3.Simd

def hexDigit (n : Nat) : Char := if n < 10 then Char.ofNat (48 + n) else Char.ofNat (87 + n)

def hexOfBytes (bs : List UInt8) : String :=
  String.ofList (bs.flatMap fun b => [hexDigit (b.toNat / 16), hexDigit (b.toNat % 16)])

def hexVal (c : Char) : Option Nat :=
  if '0' ≤ c ∧ c ≤ '9' then some (c.toNat - 48)
  else if 'a' ≤ c ∧ c ≤ 'f' then some (c.toNat - 87)
  else none

def bytesOfHexAux : List Char → Array UInt8 → Option (Array UInt8)
  | [], acc => some acc
  | [_], _ => none
  | a :: b :: rest, acc => do
    let x ← hexVal a
    let y ← hexVal b
    bytesOfHexAux rest (acc.push (UInt8.ofNat (16 * x + y)))

/-- `-` stands for the empty byte string -/
def bytesOfHex (s : String) : Option (Array UInt8) := if s = "-" then some #[] else bytesOfHexAux s.toList #[]

/-- memory behind a pointer to the first byte of `a` (zero outside: the kernels never read there) -/
def memOf (a : Array UInt8) : Mem := fun i => a.getD i 0

def u8 (s : String) : Option UInt8 := do
  let n ← s.toNat?
  if n < 256 then some (UInt8.ofNat n) else none

def u64 (s : String) : Option UInt64 := do
  let n ← s.toNat?
  if n < 2 ^ 64 then some (UInt64.ofNat n) else none

def compressArgs (toks : List String) : Option (CV × St × UInt8 × UInt64 × UInt8) :=
  match toks with
  | [cv, block, bl, t, fl] => do
    let cv ← bytesOfHex cv
    let block ← bytesOfHex block
    if cv.size ≠ 32 ∨ block.size ≠ 64 then none
    some (wordsOfBytes 8 cv.toList, wordsOfBytes 16 block.toList, ← u8 bl, ← u64 t, ← u8 fl)
  | _ => none

def runLine (toks : List String) : Option String :=
  match toks with
  | "cip" :: rest => do
    let (cv, block, bl, t, fl) ← compressArgs rest
    some (hexOfBytes (bytesOfWords (Gen.RsSse41.compress_in_place cv block bl t fl)))
  | "cxof" :: rest => do
    let (cv, block, bl, t, fl) ← compressArgs rest
    some (hexOfBytes (bytesOfWords (Gen.RsSse41.compress_xof cv block bl t fl)))
  | ["hash4", blocks, key, counter, incr, flags, fs, fe, i0, i1, i2, i3] => do
    let blocks ← blocks.toNat?
    let key ← bytesOfHex key
    if key.size ≠ 32 then none
    let incr ← (if incr = "1" then some true else if incr = "0" then some false else none)
    let a0 ← bytesOfHex i0
    let a1 ← bytesOfHex i1
    let a2 ← bytesOfHex i2
    let a3 ← bytesOfHex i3
    if a0.size ≠ 64 * blocks ∨ a1.size ≠ 64 * blocks ∨ a2.size ≠ 64 * blocks ∨ a3.size ≠ 64 * blocks then none
    let out := Gen.RsSse41.hash4 #v[memOf a0, memOf a1, memOf a2, memOf a3] blocks (wordsOfBytes 8 key.toList)
      (← u64 counter) incr (← u8 flags) (← u8 fs) (← u8 fe) (Vector.replicate 32 0)
    some (hexOfBytes (bytesOfWords out))
  | "hmany" :: n :: cnt :: key :: counter :: incr :: flags :: fs :: fe :: ins => do
    let n ← n.toNat?
    let cnt ← cnt.toNat?
    let key ← bytesOfHex key
    if key.size ≠ 32 ∨ ins.length ≠ cnt then none
    let incr ← (if incr = "1" then some true else if incr = "0" then some false else none)
    let inputs ← ins.mapM fun h => do
      let a ← bytesOfHex h
      if a.size ≠ n then none
      some a.toList
    let out := Gen.RsSse41.hash_many n inputs (wordsOfBytes 8 key.toList) (← u64 counter) incr (← u8 flags) (← u8 fs) (← u8 fe)
      (MutSlice.ofList (List.replicate (32 * cnt) 0))
    some (hexOfBytes out.buf)
  | _ => none

end B3.Simd.Run
