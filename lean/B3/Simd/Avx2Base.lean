/-
Definitions for the lane-by-lane statements about the generated AVX2 kernels (`B3.Gen.RsAvx2`, translated
from src/rust_avx2.rs): lane `l` of sixteen 8-lane vectors, the message vectors in schedule order, and the
tactic that checks one lane of the 8-way `round` against the specification's round (`roundWithA`,
`Sse41Base.lean`: `Spec.roundWith` with the additions associated as the SIMD code does).
-/
import B3.Simd.Sse41WideBase
import B3.Gen.RsAvx2
namespace B3.Simd
open B3 B3.Gen.RsAvx2
open B3.Gen.Rs (MSG_SCHEDULE)

/-- lane `l` of sixteen 8-lane vectors: the state / message block of input `l` -/
def lane8 (l : Fin 8) (v : Vector V8 16) : St :=
  #v[v[0][l], v[1][l], v[2][l], v[3][l], v[4][l], v[5][l], v[6][l], v[7][l],
     v[8][l], v[9][l], v[10][l], v[11][l], v[12][l], v[13][l], v[14][l], v[15][l]]

/-- the sixteen message vectors in the order in which round `r` consumes them -/
def sched8 (m : Vector V8 16) (r : Fin 7) : Vector V8 16 :=
  #v[m[MSG_SCHEDULE[r][0]], m[MSG_SCHEDULE[r][1]], m[MSG_SCHEDULE[r][2]], m[MSG_SCHEDULE[r][3]],
     m[MSG_SCHEDULE[r][4]], m[MSG_SCHEDULE[r][5]], m[MSG_SCHEDULE[r][6]], m[MSG_SCHEDULE[r][7]],
     m[MSG_SCHEDULE[r][8]], m[MSG_SCHEDULE[r][9]], m[MSG_SCHEDULE[r][10]], m[MSG_SCHEDULE[r][11]],
     m[MSG_SCHEDULE[r][12]], m[MSG_SCHEDULE[r][13]], m[MSG_SCHEDULE[r][14]], m[MSG_SCHEDULE[r][15]]]

namespace Avx2

/-- lane `l` (a literal) of the generated 8-way round against the (re-associated) specification round:
one kernel check per lane, each in its own module (`Avx2Lane0` .. `Avx2Lane7`) -/
macro "round_lane_tac8 " v:ident m:ident r:ident : tactic => `(tactic|
  (unfold round round_part1 round_part2 sched8
   generalize $m[MSG_SCHEDULE[$r][0]] = x0; generalize $m[MSG_SCHEDULE[$r][1]] = x1
   generalize $m[MSG_SCHEDULE[$r][2]] = x2; generalize $m[MSG_SCHEDULE[$r][3]] = x3
   generalize $m[MSG_SCHEDULE[$r][4]] = x4; generalize $m[MSG_SCHEDULE[$r][5]] = x5
   generalize $m[MSG_SCHEDULE[$r][6]] = x6; generalize $m[MSG_SCHEDULE[$r][7]] = x7
   generalize $m[MSG_SCHEDULE[$r][8]] = x8; generalize $m[MSG_SCHEDULE[$r][9]] = x9
   generalize $m[MSG_SCHEDULE[$r][10]] = x10; generalize $m[MSG_SCHEDULE[$r][11]] = x11
   generalize $m[MSG_SCHEDULE[$r][12]] = x12; generalize $m[MSG_SCHEDULE[$r][13]] = x13
   generalize $m[MSG_SCHEDULE[$r][14]] = x14; generalize $m[MSG_SCHEDULE[$r][15]] = x15
   vatoms16 $v
   kernel_rfl))

end Avx2
end B3.Simd
