/- round pieces 7 of the generated `compress_pre` against `Spec.round` (kernel-checked, ~13 s each) -/
import B3.Simd.Sse41Base
namespace B3.Simd
open B3 B3.Gen.RsSse41

theorem round7_eq (s w : St) :
    compress_pre_round7 (rows8 s w)
      = rows4 (Spec.round s (Spec.permute w)) := by round_tac s w

end B3.Simd
