/- all helper lemmas about the generated C AVX2 kernels (`B3.Gen.CAvx2`) -/
import B3.Simd.CAvx2Wide
import B3.Simd.CAvx2Hash8
import B3.Simd.CAvx2HashMany
