/- `blake3_hash_many_avx2`: groups of eight inputs through `blake3_hash8_avx2`, the rest handed to `blake3_hash_many_sse41` -/
import B3.Simd.CAvx2Hash8
import B3.Simd.Sse41PropsMany
namespace B3.Simd.CAvx2
open B3.Simd.CI
open B3 B3.Simd B3.Gen.CAvx2
open B3.Simd.CSse41 (outBytesC cvOfC outBytesC_length outBytesC_append whileFuel_succ')

theorem ctr8_eq_advN (t : UInt64) (incr : Bool) (i : Fin 8) : ctr8 t incr i = advN incr t i.val := by
  rw [advN_eq]; rfl

/-- the 256 bytes `blake3_hash8_avx2` writes are the chaining values of the first eight inputs -/
theorem hash8_bytes (inputs : PtrArr) (blocks : Nat) (key : CV) (t : UInt64) (incr : Bool) (flags fs fe : UInt8) :
    bytesOfWords (cvLane8 0 (hash8Loop inputs blocks key t incr flags fs fe).2)
      ++ bytesOfWords (cvLane8 1 (hash8Loop inputs blocks key t incr flags fs fe).2)
      ++ bytesOfWords (cvLane8 2 (hash8Loop inputs blocks key t incr flags fs fe).2)
      ++ bytesOfWords (cvLane8 3 (hash8Loop inputs blocks key t incr flags fs fe).2)
      ++ bytesOfWords (cvLane8 4 (hash8Loop inputs blocks key t incr flags fs fe).2)
      ++ bytesOfWords (cvLane8 5 (hash8Loop inputs blocks key t incr flags fs fe).2)
      ++ bytesOfWords (cvLane8 6 (hash8Loop inputs blocks key t incr flags fs fe).2)
      ++ bytesOfWords (cvLane8 7 (hash8Loop inputs blocks key t incr flags fs fe).2)
      = outBytesC blocks key flags fs fe incr inputs 8 t := by
  simp only [hash8Loop_lane, ctr8_eq_advN]
  simp only [outBytesC, cvOfC, advN, PtrArr.add, List.append_nil, List.append_assoc]
  rfl

theorem advN_eight (incr : Bool) (t : UInt64) : (if incr then t + 8 else t) = advN incr t 8 := by
  rw [advN_eq]
  cases incr
  · simp
  · have h : UInt64.ofNat 8 = 8 := by decide
    simp [h]

/-- one iteration of the `while` loop -/
theorem many_step (blocks : Nat) (key : CV) (incr : Bool) (flags fs fe : UInt8) (o : BytePtr) (t : UInt64)
    (ps : PtrArr) (n : Nat) (h8 : 8 ≤ n) :
    blake3_hash_many_avx2_loop2 blocks key incr flags fs fe (o, t, ps, n)
      = (⟨o.mem.write o.off (outBytesC blocks key flags fs fe incr ps 8 t), o.off + 256⟩,
         advN incr t 8, PtrArr.add ps 8, n - 8) := by
  have e : Arith.w64sub n 8 = n - 8 := by simp [Arith.w64sub, h8]
  simp only [blake3_hash_many_avx2_loop2, hash8_eq_write, hash8_bytes, BytePtr.back, BytePtr.add, advN_eight, e]

/-- what follows the `while` loop, as a function of the state the loop leaves: the call of `blake3_hash_many_sse41` -/
def manyTail (blocks : Nat) (key : CV) (incr : Bool) (flags fs fe : UInt8) (st : BytePtr × UInt64 × PtrArr × Nat) : BytePtr :=
  BytePtr.back st.1 (B3.Gen.CSse41.blake3_hash_many_sse41 st.2.2.1 st.2.2.2 blocks key st.2.1 incr flags fs fe st.1)

theorem hash_many_unfold (inputs : PtrArr) (n blocks : Nat) (key : CV) (counter : UInt64) (incr : Bool)
    (flags fs fe : UInt8) (out : BytePtr) :
    blake3_hash_many_avx2 inputs n blocks key counter incr flags fs fe out
      = manyTail blocks key incr flags fs fe
          (whileFuel (n + 1) blake3_hash_many_avx2_cond1 (blake3_hash_many_avx2_loop2 blocks key incr flags fs fe)
            (out, counter, inputs, n)) := rfl

/-- the whole of `blake3_hash_many_avx2`, for any sufficient iteration bound; the loop ends with its condition false -/
theorem many_loop (blocks : Nat) (key : CV) (incr : Bool) (flags fs fe : UInt8) :
    ∀ (n : Nat) (o : BytePtr) (t : UInt64) (ps : PtrArr) (fuel : Nat), n + 1 ≤ fuel →
      (manyTail blocks key incr flags fs fe
        (whileFuel fuel blake3_hash_many_avx2_cond1 (blake3_hash_many_avx2_loop2 blocks key incr flags fs fe) (o, t, ps, n))).mem
        = o.mem.write o.off (outBytesC blocks key flags fs fe incr ps n t) ∧
      ∃ st, whileFuel fuel blake3_hash_many_avx2_cond1 (blake3_hash_many_avx2_loop2 blocks key incr flags fs fe) (o, t, ps, n) = st ∧
        blake3_hash_many_avx2_cond1 st = false := by
  intro n
  induction n using Nat.strongRecOn with
  | _ n ih =>
    intro o t ps fuel hf
    obtain ⟨fuel, rfl⟩ : ∃ k, fuel = k + 1 := ⟨fuel - 1, by omega⟩
    rw [whileFuel_succ']
    by_cases h8 : 8 ≤ n
    · have hc : blake3_hash_many_avx2_cond1 (o, t, ps, n) = true := by
        simp only [blake3_hash_many_avx2_cond1, decide_eq_true_eq]; omega
      rw [hc, if_pos rfl, many_step blocks key incr flags fs fe o t ps n h8]
      obtain ⟨r1, r2⟩ := ih (n - 8) (by omega)
        ⟨o.mem.write o.off (outBytesC blocks key flags fs fe incr ps 8 t), o.off + 256⟩ (advN incr t 8) (PtrArr.add ps 8) fuel (by omega)
      refine ⟨?_, r2⟩
      rw [r1]
      have hl : (outBytesC blocks key flags fs fe incr ps 8 t).length = 256 := by rw [outBytesC_length]
      have hw := Mem.write_write_adj o.mem o.off (outBytesC blocks key flags fs fe incr ps 8 t)
        (outBytesC blocks key flags fs fe incr (PtrArr.add ps 8) (n - 8) (advN incr t 8))
      rw [hl] at hw
      have e := outBytesC_append blocks key flags fs fe incr ps 8 (n - 8) t
      have e8 : 8 + (n - 8) = n := by omega
      rw [e8] at e
      simp only [hw, ← e]
    · have hc : blake3_hash_many_avx2_cond1 (o, t, ps, n) = false := by
        simp only [blake3_hash_many_avx2_cond1, decide_eq_false_iff_not]; omega
      rw [hc]
      refine ⟨?_, _, rfl, hc⟩
      simp only [manyTail, Bool.false_eq_true, if_false, BytePtr.back, CSse41.hash_many_eq]

/-- `blake3_hash_many_avx2` stores the chaining values of the `n` inputs one after the other at the output
pointer (`32 * n` bytes) and changes no other byte of memory -/
theorem hash_many_eq (inputs : PtrArr) (n blocks : Nat) (key : CV) (counter : UInt64) (incr : Bool)
    (flags fs fe : UInt8) (out : BytePtr) :
    (blake3_hash_many_avx2 inputs n blocks key counter incr flags fs fe out).mem
      = out.mem.write out.off (outBytesC blocks key flags fs fe incr inputs n counter) := by
  rw [hash_many_unfold, (many_loop blocks key incr flags fs fe n out counter inputs (n + 1) (by omega)).1]

end B3.Simd.CAvx2
