/- the Wasm SIMD 4-way `round` lane by lane (generic lemmas `sched_get`, `lane_get`, `lane_eq_map`: `Sse41Wide.lean`) -/
import B3.Simd.Sse41Wide
import B3.Simd.WasmLane0
import B3.Simd.WasmLane1
import B3.Simd.WasmLane2
import B3.Simd.WasmLane3
namespace B3.Simd.Wasm
open B3 B3.Simd B3.Gen.RsWasm
open B3.Gen.Rs (MSG_SCHEDULE)

theorem round_lane_aux (l : Fin 4) (v m : Vector V4 16) (r : Fin 7) :
    lane l (round v m r) = roundWithA (lane l v) (fun i => (sched m r)[i][l]) := by
  match l with
  | 0 => exact round_lane0 v m r
  | 1 => exact round_lane1 v m r
  | 2 => exact round_lane2 v m r
  | 3 => exact round_lane3 v m r

/-- lane `l` of the 4-way round is the specification's round on lane `l` -/
theorem round_lane (l : Fin 4) (v m : Vector V4 16) (r : Fin 7) :
    lane l (round v m r) = Spec.roundWith (lane l v) (fun i => (lane l m)[MSG_SCHEDULE[r][i]]) := by
  rw [round_lane_aux, roundWithA_eq]
  congr 1
  funext i
  rw [sched_get, lane_get]

end B3.Simd.Wasm
