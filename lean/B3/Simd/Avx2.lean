/-
Helper lemmas for the generated AVX2 kernels (`B3.Gen.RsAvx2`, translated from src/rust_avx2.rs), in
namespace `B3.Simd.Avx2` (definitions used in the statements -- `lane8`, `ctr8`, `cvLane8`, `outWords8`,
`outCV8` -- in `B3.Simd`):

  Prim256        (trusted) lane model of the 256-bit intrinsics
  Avx2Base       lanes of 16 eight-lane vectors, schedule, the tactic for one lane of `round`
  Avx2Lane0..7   lane k of the 8-way `round` = the specification's round (one kernel check per module)
  Avx2Wide       the same for every lane
  Avx2Hash8      transposes (8x8, 8 pointers x 16 words), counters, the loop of hash8 and its output
  Avx2HashMany   hash_many: groups of eight through hash8, the rest through `B3.Gen.RsSse41.hash_many`

The theorems are restated in `B3/Simd/Avx2Props.lean`.
-/
import B3.Simd.Avx2Hash8
import B3.Simd.Avx2HashMany
