/- lane 1 of the generated Wasm SIMD 4-way `round` (kernel check) -/
import B3.Simd.WasmWideBase
namespace B3.Simd.Wasm
open B3 B3.Simd B3.Gen.RsWasm
open B3.Gen.Rs (MSG_SCHEDULE)

theorem round_lane1 (v m : Vector V4 16) (r : Fin 7) :
    lane 1 (round v m r) = roundWithA (lane 1 v) (fun i => (sched m r)[i][(1 : Fin 4)]) := by
  wround_lane_tac v m r

end B3.Simd.Wasm
