/- `transpose_vecs`, `transpose_msg_vecs`, `load_counters` and `hash4` against the specification -/
import B3.Simd.Sse41Wide
namespace B3.Simd
open B3 B3.Gen.RsSse41
open B3.Gen.Rs (MSG_SCHEDULE IV)

/-! ### transposes -/

theorem transpose_vecs_get (vs : Vector V4 4) (i j : Fin 4) : (transpose_vecs vs)[i][j] = vs[j][i] := by
  rw [vec4_eta vs]
  generalize vs[0] = a; generalize vs[1] = b; generalize vs[2] = c; generalize vs[3] = d
  match i, j with
  | 0, 0 | 0, 1 | 0, 2 | 0, 3 | 1, 0 | 1, 1 | 1, 2 | 1, 3
  | 2, 0 | 2, 1 | 2, 2 | 2, 3 | 3, 0 | 3, 1 | 3, 2 | 3, 3 => rfl

/-- the 16 little-endian words at byte offset `off` of the memory behind a pointer -/
def blockAt (p : Mem) (off : Nat) : St :=
  #v[p.word off, p.word (off + 4), p.word (off + 8), p.word (off + 12),
     p.word (off + 16), p.word (off + 20), p.word (off + 24), p.word (off + 28),
     p.word (off + 32), p.word (off + 36), p.word (off + 40), p.word (off + 44),
     p.word (off + 48), p.word (off + 52), p.word (off + 56), p.word (off + 60)]

theorem blockAt_get (p : Mem) (off : Nat) (k : Fin 16) : (blockAt p off)[k] = p.word (off + 4 * k.val) := by
  match k with
  | ⟨0, _⟩ | ⟨1, _⟩ | ⟨2, _⟩ | ⟨3, _⟩ | ⟨4, _⟩ | ⟨5, _⟩ | ⟨6, _⟩ | ⟨7, _⟩
  | ⟨8, _⟩ | ⟨9, _⟩ | ⟨10, _⟩ | ⟨11, _⟩ | ⟨12, _⟩ | ⟨13, _⟩ | ⟨14, _⟩ | ⟨15, _⟩ => rfl
  | ⟨n + 16, h⟩ => omega

/-- after the transposition, lane `i` of the 16 message vectors is the block of input `i` -/
theorem transpose_msg_vecs_lane (inputs : Vector Mem 4) (off : Nat) (i : Fin 4) :
    lane i (transpose_msg_vecs inputs off) = blockAt inputs[i] off := by
  rw [vec4_eta inputs]
  generalize inputs[0] = p0; generalize inputs[1] = p1; generalize inputs[2] = p2; generalize inputs[3] = p3
  match i with
  | 0 => kernel_rfl
  | 1 => kernel_rfl
  | 2 => kernel_rfl
  | 3 => kernel_rfl

/-! ### counters -/

/-- the counter of input `i`: `counter + i` (wrapping) when incrementing, else `counter` -/
def ctr (counter : UInt64) (incr : Bool) (i : Fin 4) : UInt64 :=
  counter + (if incr then UInt64.ofNat i.val else 0)

theorem load_counters_lane (counter : UInt64) (incr : Bool) (i : Fin 4) :
    (load_counters counter incr).1[i] = (ctr counter incr i).toUInt32 ∧
    (load_counters counter incr).2[i] = ((ctr counter incr i) >>> 32).toUInt32 := by
  cases incr <;> (match i with | 0 | 1 | 2 | 3 => exact ⟨rfl, rfl⟩)

/-! ### hash4 -/

/-- lane `i` of the eight chaining-value vectors: the chaining value of input `i` -/
def cvLane (i : Fin 4) (h : Vector V4 8) : CV :=
  #v[h[0][i], h[1][i], h[2][i], h[3][i], h[4][i], h[5][i], h[6][i], h[7][i]]

/-- the seven 4-way rounds, lane by lane -/
theorem rounds_lane (l : Fin 4) (v m : Vector V4 16) :
    lane l (round (round (round (round (round (round (round v m 0) m 1) m 2) m 3) m 4) m 5) m 6)
      = Spec.rounds7 (lane l v) (lane l m) := by
  simp only [round_lane, ← Proofs.rs_round_with, Proofs.rs_round_eq]
  unfold Spec.rounds7
  rfl

macro "vatoms8 " s:ident : tactic => `(tactic|
  (rw [vec8_eta' $s]
   generalize $s[0] = h0; generalize $s[1] = h1; generalize $s[2] = h2; generalize $s[3] = h3
   generalize $s[4] = h4; generalize $s[5] = h5; generalize $s[6] = h6; generalize $s[7] = h7))

theorem lane_init' (i : Fin 4) (hv : Vector V4 8) (lo hi : V4) (bl fl : UInt32) :
    lane i #v[hv[0], hv[1], hv[2], hv[3], hv[4], hv[5], hv[6], hv[7],
              set1 IV[0], set1 IV[1], set1 IV[2], set1 IV[3], lo, hi, set1 bl, set1 fl]
      = #v[hv[0][i], hv[1][i], hv[2][i], hv[3][i], hv[4][i], hv[5][i], hv[6][i], hv[7][i],
           IV[0], IV[1], IV[2], IV[3], lo[i], hi[i], bl, fl] := by
  vatoms8 hv
  match i with
  | 0 | 1 | 2 | 3 => rfl

/-- lane `i` of the initial 4-way state is the specification's initial state of input `i` -/
theorem lane_init (i : Fin 4) (hv : Vector V4 8) (lo hi : V4) (t : UInt64) (bl fl : UInt32)
    (hlo : lo[i] = t.toUInt32) (hhi : hi[i] = (t >>> 32).toUInt32) :
    lane i #v[hv[0], hv[1], hv[2], hv[3], hv[4], hv[5], hv[6], hv[7],
              set1 IV[0], set1 IV[1], set1 IV[2], set1 IV[3], lo, hi, set1 bl, set1 fl]
      = Spec.initState (cvLane i hv) t bl fl := by
  rw [lane_init', hlo, hhi]
  unfold Spec.initState cvLane
  rw [← Proofs.rs_iv]
  rfl

/-- the output transformation `h_vecs[j] = xor(v[j], v[j+8])`, lane by lane -/
theorem cvLane_out (i : Fin 4) (hv : Vector V4 8) (v : Vector V4 16) (cv : CV) :
    cvLane i ((((((((hv.set 0 (xor v[0] v[8])).set 1 (xor v[1] v[9])).set 2 (xor v[2] v[10])).set 3 (xor v[3] v[11])).set 4
        (xor v[4] v[12])).set 5 (xor v[5] v[13])).set 6 (xor v[6] v[14])).set 7 (xor v[7] v[15]))
      = first8 (Spec.feedForward cv (lane i v)) := by
  vatoms8 hv; vatoms16 v
  match i with
  | 0 => kernel_rfl
  | 1 => kernel_rfl
  | 2 => kernel_rfl
  | 3 => kernel_rfl

/-- one iteration of the block loop of `hash4` -/
theorem loop_body (inputs : Vector Mem 4) (blocks : Nat) (flags fe : UInt8) (lo hi : V4)
    (bf : UInt8) (hv : Vector V4 8) (b : Nat) :
    (hash4_loop1 inputs blocks flags fe lo hi (bf, hv) b).1 = flags ∧
    ∀ (i : Fin 4) (t : UInt64), lo[i] = t.toUInt32 → hi[i] = (t >>> 32).toUInt32 →
      cvLane i (hash4_loop1 inputs blocks flags fe lo hi (bf, hv) b).2
        = first8 (Spec.compress (cvLane i hv) (blockAt inputs[i] (b * 64)) t 64
            (if b + 1 = blocks then bf ||| fe else bf).toUInt32) := by
  refine ⟨rfl, ?_⟩
  intro i t hlo hhi
  unfold hash4_loop1 Spec.compress
  simp only []
  rw [cvLane_out i _ _ (cvLane i hv), rounds_lane, transpose_msg_vecs_lane, lane_init i hv lo hi t _ _ hlo hhi]

/-- flags of block `b` of `blocks` -/
def flagsAt (flags fs fe : UInt8) (blocks b : Nat) : UInt8 :=
  flags ||| (if b = 0 then fs else 0) ||| (if b + 1 = blocks then fe else 0)

/-- the chaining value after the first `n` of the `blocks` blocks `blk 0, blk 1, …` -/
def foldBlocksN (key : CV) (blk : Nat → St) (blocks : Nat) (t : UInt64) (flags fs fe : UInt8) (n : Nat) : CV :=
  (List.range n).foldl
    (fun cv b => first8 (Spec.compress cv (blk b) t 64 (flagsAt flags fs fe blocks b).toUInt32)) key

theorem flags_step (flags fs fe : UInt8) (blocks n : Nat) :
    (if n + 1 = blocks then (if n = 0 then flags ||| fs else flags) ||| fe else (if n = 0 then flags ||| fs else flags))
      = flagsAt flags fs fe blocks n := by
  unfold flagsAt
  split <;> split <;> simp

/-- the loop of `hash4` after `n` iterations -/
theorem loop_inv (inputs : Vector Mem 4) (blocks : Nat) (flags fs fe : UInt8) (lo hi : V4) (hv0 : Vector V4 8) (n : Nat) :
    ((List.range n).foldl (hash4_loop1 inputs blocks flags fe lo hi) (flags ||| fs, hv0)).1
        = (if n = 0 then flags ||| fs else flags) ∧
    ∀ (i : Fin 4) (t : UInt64), lo[i] = t.toUInt32 → hi[i] = (t >>> 32).toUInt32 →
      cvLane i ((List.range n).foldl (hash4_loop1 inputs blocks flags fe lo hi) (flags ||| fs, hv0)).2
        = foldBlocksN (cvLane i hv0) (fun b => blockAt inputs[i] (b * 64)) blocks t flags fs fe n := by
  induction n with
  | zero => exact ⟨rfl, fun _ _ _ _ => rfl⟩
  | succ n ih =>
    obtain ⟨ih1, ih2⟩ := ih
    rw [List.range_succ, List.foldl_append]
    generalize (List.range n).foldl (hash4_loop1 inputs blocks flags fe lo hi) (flags ||| fs, hv0) = L at ih1 ih2 ⊢
    obtain ⟨bf, hv⟩ := L
    simp only at ih1 ih2
    simp only [List.foldl_cons, List.foldl_nil]
    obtain ⟨b1, b2⟩ := loop_body inputs blocks flags fe lo hi bf hv n
    refine ⟨by rw [b1]; simp, ?_⟩
    intro i t hlo hhi
    rw [b2 i t hlo hhi, ih2 i t hlo hhi, ih1, flags_step]
    unfold foldBlocksN
    rw [List.range_succ, List.foldl_append]
    rfl

theorem vec32_eta (s : Vector UInt32 32) : s = #v[s[0], s[1], s[2], s[3], s[4], s[5], s[6], s[7], s[8], s[9], s[10], s[11], s[12], s[13], s[14], s[15], s[16], s[17], s[18], s[19], s[20], s[21], s[22], s[23], s[24], s[25], s[26], s[27], s[28], s[29], s[30], s[31]] := by
  apply Vector.ext
  intro i hi
  match i, hi with
  | 0, _ | 1, _ | 2, _ | 3, _ | 4, _ | 5, _ | 6, _ | 7, _ | 8, _ | 9, _ | 10, _ | 11, _ | 12, _ | 13, _ | 14, _ | 15, _ | 16, _ | 17, _ | 18, _ | 19, _ | 20, _ | 21, _ | 22, _ | 23, _ | 24, _ | 25, _ | 26, _ | 27, _ | 28, _ | 29, _ | 30, _ | 31, _ => rfl
  | n + 32, h => omega

/-- the 32 output words: the four chaining values one after the other -/
def outWords (h : Vector V4 8) : Vector UInt32 32 :=
  #v[h[0][0], h[1][0], h[2][0], h[3][0], h[4][0], h[5][0], h[6][0], h[7][0], h[0][1], h[1][1], h[2][1], h[3][1], h[4][1], h[5][1], h[6][1], h[7][1], h[0][2], h[1][2], h[2][2], h[3][2], h[4][2], h[5][2], h[6][2], h[7][2], h[0][3], h[1][3], h[2][3], h[3][3], h[4][3], h[5][3], h[6][3], h[7][3]]

/-- chaining value `i` of the 128 output bytes -/
def outCV (i : Fin 4) (w : Vector UInt32 32) : CV :=
  #v[w[8 * i.val]'(by omega), w[8 * i.val + 1]'(by omega), w[8 * i.val + 2]'(by omega), w[8 * i.val + 3]'(by omega),
     w[8 * i.val + 4]'(by omega), w[8 * i.val + 5]'(by omega), w[8 * i.val + 6]'(by omega), w[8 * i.val + 7]'(by omega)]

theorem outCV_outWords (i : Fin 4) (h : Vector V4 8) : outCV i (outWords h) = cvLane i h := by
  match i with
  | 0 | 1 | 2 | 3 => rfl

macro "atoms32 " s:ident : tactic => `(tactic|
  (rw [vec32_eta $s]
   generalize $s[0] = o0; generalize $s[1] = o1; generalize $s[2] = o2; generalize $s[3] = o3
   generalize $s[4] = o4; generalize $s[5] = o5; generalize $s[6] = o6; generalize $s[7] = o7
   generalize $s[8] = o8; generalize $s[9] = o9; generalize $s[10] = o10; generalize $s[11] = o11
   generalize $s[12] = o12; generalize $s[13] = o13; generalize $s[14] = o14; generalize $s[15] = o15
   generalize $s[16] = o16; generalize $s[17] = o17; generalize $s[18] = o18; generalize $s[19] = o19
   generalize $s[20] = o20; generalize $s[21] = o21; generalize $s[22] = o22; generalize $s[23] = o23
   generalize $s[24] = o24; generalize $s[25] = o25; generalize $s[26] = o26; generalize $s[27] = o27
   generalize $s[28] = o28; generalize $s[29] = o29; generalize $s[30] = o30; generalize $s[31] = o31))

/-- the initial chaining-value vectors and the loop of `hash4` -/
def hash4Loop (inputs : Vector Mem 4) (blocks : Nat) (key : CV) (counter : UInt64) (incr : Bool) (flags fs fe : UInt8) :
    UInt8 × Vector V4 8 :=
  (List.range blocks).foldl
    (hash4_loop1 inputs blocks flags fe (load_counters counter incr).1 (load_counters counter incr).2)
    (flags ||| fs, #v[set1 key[0], set1 key[1], set1 key[2], set1 key[3], set1 key[4], set1 key[5], set1 key[6], set1 key[7]])

/-- what follows the loop (two 4x4 transposes, eight stores) writes the four chaining values one after the
other, overwriting all of `out` -/
theorem hash4_eq_outWords (inputs : Vector Mem 4) (blocks : Nat) (key : CV) (counter : UInt64) (incr : Bool)
    (flags fs fe : UInt8) (out : Vector UInt32 32) :
    hash4 inputs blocks key counter incr flags fs fe out
      = outWords (hash4Loop inputs blocks key counter incr flags fs fe).2 := by
  unfold hash4 hash4Loop
  simp only []
  generalize (List.range blocks).foldl _ _ = L
  obtain ⟨bf, hv⟩ := L
  vatoms8 hv; atoms32 out
  kernel_rfl

theorem cvLane_key (i : Fin 4) (key : CV) :
    cvLane i #v[set1 key[0], set1 key[1], set1 key[2], set1 key[3], set1 key[4], set1 key[5], set1 key[6], set1 key[7]] = key := by
  conv => rhs; rw [Proofs.vec8_eta key]
  match i with
  | 0 | 1 | 2 | 3 => rfl

/-- output `i` of `hash4` is the specification's fold over the blocks of input `i` -/
theorem hash4_lane (inputs : Vector Mem 4) (blocks : Nat) (key : CV) (counter : UInt64) (incr : Bool)
    (flags fs fe : UInt8) (out : Vector UInt32 32) (i : Fin 4) :
    outCV i (hash4 inputs blocks key counter incr flags fs fe out)
      = foldBlocksN key (fun b => blockAt inputs[i] (b * 64)) blocks (ctr counter incr i) flags fs fe blocks := by
  rw [hash4_eq_outWords, outCV_outWords]
  unfold hash4Loop
  have h := (loop_inv inputs blocks flags fs fe (load_counters counter incr).1 (load_counters counter incr).2
    #v[set1 key[0], set1 key[1], set1 key[2], set1 key[3], set1 key[4], set1 key[5], set1 key[6], set1 key[7]] blocks).2
    i (ctr counter incr i) (load_counters_lane counter incr i).1 (load_counters_lane counter incr i).2
  rw [h, cvLane_key]

end B3.Simd
