/- lane 2 of the generated C 4-way `round_fn4` (kernel check) -/
import B3.Simd.CNeonWideBase
namespace B3.Simd.CNeon
open B3.Simd.CI B3.Simd.Neon
open B3 B3.Simd B3.Gen.CNeon
open B3.Gen.C (MSG_SCHEDULE)

theorem round_lane2 (v m : Vector V4 16) (r : Fin 7) :
    lane 2 (round_fn4 v m r) = roundWithA (lane 2 v) (fun i => (schedC m r)[i][(2 : Fin 4)]) := by
  nround_lane_tac v m r

end B3.Simd.CNeon
