/-
Helper lemmas for the generated SSE4.1 kernels (`B3.Gen.RsSse41`, translated from src/rust_sse41.rs).
The proofs are spread over several modules so that each builds in under two minutes (the expensive
steps are kernel-checked definitional equalities, `kernel_rfl`, of a whole round over symbolic lanes):

  Sse41Base      gA / roundWithA (the specification's G with the SIMD association of `+`), rows, grouped message
  Sse41RoundsA-D the round pieces 1 .. 7 of `compress_pre` against `Spec.round` (two per module)
  Sse41Compress  compress_pre / compress_in_place / compress_xof = Spec.compress
  Sse41WideBase  lanes of 16 vectors, schedule
  Sse41Lane0..3  lane k of the 4-way `round` = the specification's round (one module per lane)
  Sse41Wide      the same for every lane
  Sse41Hash4     transposes, counters, the loop of hash4 and its output
  Sse41Hash1     the while loop of hash1
  Sse41HashMany  hash_many: groups of four through hash4, the rest through hash1

The theorems are restated in `B3/Simd/Sse41Props.lean`.
-/
import B3.Simd.Sse41Compress
import B3.Simd.Sse41Hash4
import B3.Simd.Sse41HashMany
