/- `hash_many` of the Wasm SIMD file: groups of four inputs through `hash4`, the remaining ones through `hash1`
(the byte-level lemmas and the reference `outBytes` / `cvOf` / `advN` are those of `Sse41HashMany.lean`) -/
import B3.Simd.Sse41HashMany
import B3.Simd.WasmHash1
namespace B3.Simd.Wasm
open B3 B3.Simd B3.Gen.RsWasm

/-! ### one group of four inputs -/

theorem hash4_cv (N : Nat) (key : CV) (flags fs fe : UInt8) (incr : Bool) (x0 x1 x2 x3 : List UInt8)
    (rest : List (List UInt8)) (t : UInt64) (w : Vector UInt32 32) (i : Fin 4) :
    outCV i (hash4 (ptrs4 (x0 :: x1 :: x2 :: x3 :: rest)) (N / 64) key t incr flags fs fe w)
      = cvOf N key flags fs fe ([x0, x1, x2, x3][i]) (advN incr t i.val) := by
  rw [hash4_lane, ctr_eq_advN, cvOf]
  congr 1
  funext b
  match i with
  | 0 => exact blockAt_memOf x0 b
  | 1 => exact blockAt_memOf x1 b
  | 2 => exact blockAt_memOf x2 b
  | 3 => exact blockAt_memOf x3 b

/-- `hash4` on the first four of at least four inputs writes their four chaining values -/
theorem hash4_bytes (N : Nat) (key : CV) (flags fs fe : UInt8) (incr : Bool) (xs : List (List UInt8)) (t : UInt64)
    (w : Vector UInt32 32) (h : 4 ≤ xs.length) :
    bytesOfWords (hash4 (ptrs4 xs) (N / 64) key t incr flags fs fe w)
      = outBytes N key flags fs fe incr (xs.take 4) t := by
  match xs, h with
  | x0 :: x1 :: x2 :: x3 :: rest, _ =>
    rw [bytesOfWords_split32, hash4_cv, hash4_cv, hash4_cv, hash4_cv]
    rfl

/-! ### the loops -/

/-- one iteration of the `while` loop of `hash_many` -/
theorem many_step (N : Nat) (key : CV) (incr : Bool) (flags fs fe : UInt8) (o : MutSlice) (t : UInt64)
    (xs : List (List UInt8)) (h4 : 4 ≤ xs.length) :
    hash_many_loop2 N key incr flags fs fe (o, t, xs)
      = (⟨writeAt o.buf o.off (outBytes N key flags fs fe incr (xs.take 4) t), o.off + 128, o.len - 128⟩,
         advN incr t 4, xs.drop 4) := by
  simp only [hash_many_loop2, MutSlice.writeWords, MutSlice.from, hash4_bytes N key flags fs fe incr xs t _ h4,
    advN_four, writeAt, outBytes_length, List.length_take, Nat.min_eq_left h4, Nat.add_zero]

/-- the remainder loop of `hash_many` after `m` inputs -/
theorem many_rem (N : Nat) (key : CV) (incr : Bool) (flags fs fe : UInt8) (o : MutSlice) (t : UInt64)
    (xs : List (List UInt8)) (hN : ∀ x ∈ xs, x.length = N) (h64 : N % 64 = 0) (hwf : o.wf) (hlen : 32 * xs.length ≤ o.len) :
    ∀ m, m ≤ xs.length →
      (List.range m).foldl (hash_many_loop3 N xs key incr flags fs fe) (t, o)
        = (advN incr t m, ⟨writeAt o.buf o.off (outBytes N key flags fs fe incr (xs.take m) t), o.off, o.len⟩) := by
  intro m
  induction m with
  | zero => intro _; simp [advN, outBytes, writeAt_nil]
  | succ m ih =>
    intro hm
    rw [List.range_succ, List.foldl_append, ih (by omega)]
    have hx : xs.getD m [] = xs[m] := by simp [List.getD_eq_getElem?_getD, List.getElem?_eq_getElem (show m < xs.length by omega)]
    have hxl : (xs[m]).length = 64 * (N / 64) := by
      rw [hN _ (List.getElem_mem _)]; omega
    have ht : xs.take (m + 1) = xs.take m ++ [xs[m]] := by
      rw [List.take_add_one, List.getElem?_eq_getElem (show m < xs.length by omega)]; rfl
    have hA : (outBytes N key flags fs fe incr (xs.take m) t).length = 32 * m := by
      rw [outBytes_length, List.length_take, Nat.min_eq_left (by omega)]
    unfold MutSlice.wf at hwf
    simp only [List.foldl_cons, List.foldl_nil, hash_many_loop3, hx, MutSlice.chunk, MutSlice.writeWords, MutSlice.merge,
      hash1_eq N _ key _ flags fs fe _ (N / 64) hxl, Nat.add_zero]
    have hw := writeAt_writeAt o.buf o.off (outBytes N key flags fs fe incr (xs.take m) t)
      (bytesOfWords (cvOf N key flags fs fe xs[m] (advN incr t m))) (by omega)
    rw [hA] at hw
    rw [ht, outBytes_append, List.length_take, Nat.min_eq_left (by omega)]
    simp only [outBytes, List.append_nil]
    rw [← hw]
    simp only [writeAt, bytesOfWords_length, advN, adv, cvOf]

/-- what follows the `while` loop in `hash_many`, as a function of the state the loop leaves -/
def manyRem (N : Nat) (key : CV) (incr : Bool) (flags fs fe : UInt8) (st : MutSlice × UInt64 × List (List UInt8)) : MutSlice :=
  ((List.range (min st.2.2.length (st.1.len / 32))).foldl (hash_many_loop3 N st.2.2 key incr flags fs fe) (st.2.1, st.1)).2

theorem hash_many_unfold (N : Nat) (inputs : List (List UInt8)) (key : CV) (counter : UInt64) (incr : Bool)
    (flags fs fe : UInt8) (out : MutSlice) :
    hash_many N inputs key counter incr flags fs fe out
      = manyRem N key incr flags fs fe
          (whileFuel (inputs.length + 1) hash_many_cond1 (hash_many_loop2 N key incr flags fs fe) (out, counter, inputs)) := rfl

theorem manyRem_eq (N : Nat) (key : CV) (incr : Bool) (flags fs fe : UInt8) (o : MutSlice) (t : UInt64)
    (xs : List (List UInt8)) (hN : ∀ x ∈ xs, x.length = N) (h64 : N % 64 = 0) (hwf : o.wf) (hlen : 32 * xs.length ≤ o.len) :
    (manyRem N key incr flags fs fe (o, t, xs)).buf = writeAt o.buf o.off (outBytes N key flags fs fe incr xs t) := by
  have hmin : min xs.length (o.len / 32) = xs.length := Nat.min_eq_left (by omega)
  simp only [manyRem, hmin, many_rem N key incr flags fs fe o t xs hN h64 hwf hlen xs.length (Nat.le_refl _), List.take_length]

/-- the whole of `hash_many`, for any sufficient iteration bound -/
theorem many_loop (N : Nat) (key : CV) (incr : Bool) (flags fs fe : UInt8) (h64 : N % 64 = 0) :
    ∀ (n : Nat) (o : MutSlice) (t : UInt64) (xs : List (List UInt8)) (fuel : Nat), xs.length = n →
      (∀ x ∈ xs, x.length = N) → o.wf → 32 * xs.length ≤ o.len → xs.length + 1 ≤ fuel →
      (manyRem N key incr flags fs fe
        (whileFuel fuel hash_many_cond1 (hash_many_loop2 N key incr flags fs fe) (o, t, xs))).buf
        = writeAt o.buf o.off (outBytes N key flags fs fe incr xs t) ∧
      ∃ st, whileFuel fuel hash_many_cond1 (hash_many_loop2 N key incr flags fs fe) (o, t, xs) = st ∧
        hash_many_cond1 st = false := by
  intro n
  induction n using Nat.strongRecOn with
  | _ n ih =>
    intro o t xs fuel hn hN hwf hlen hf
    obtain ⟨fuel, rfl⟩ : ∃ k, fuel = k + 1 := ⟨fuel - 1, by omega⟩
    rw [whileFuel_succ]
    by_cases h4 : 4 ≤ xs.length
    · have hc : hash_many_cond1 (o, t, xs) = true := by
        simp only [hash_many_cond1, decide_eq_true_eq]; omega
      rw [hc, if_pos rfl, many_step N key incr flags fs fe o t xs h4]
      have hA : (outBytes N key flags fs fe incr (xs.take 4) t).length = 128 := by
        rw [outBytes_length, List.length_take, Nat.min_eq_left h4]
      unfold MutSlice.wf at hwf
      have hwf' : MutSlice.wf ⟨writeAt o.buf o.off (outBytes N key flags fs fe incr (xs.take 4) t), o.off + 128, o.len - 128⟩ := by
        unfold MutSlice.wf
        simp only [writeAt_length _ _ _ (show o.off + (outBytes N key flags fs fe incr (xs.take 4) t).length ≤ o.buf.length by omega)]
        omega
      obtain ⟨r1, r2⟩ := ih (n - 4) (by omega) _ (advN incr t 4) (xs.drop 4) fuel (by rw [List.length_drop]; omega)
        (fun x hx => hN x (List.mem_of_mem_drop hx)) hwf' (by simp only [List.length_drop]; omega)
        (by rw [List.length_drop]; omega)
      refine ⟨?_, r2⟩
      rw [r1]
      have hw := writeAt_writeAt o.buf o.off (outBytes N key flags fs fe incr (xs.take 4) t)
        (outBytes N key flags fs fe incr (xs.drop 4) (advN incr t 4)) (by omega)
      rw [hA] at hw
      rw [hw]
      have e := outBytes_append N key flags fs fe incr (xs.take 4) (xs.drop 4) t
      rw [List.take_append_drop, List.length_take, Nat.min_eq_left h4] at e
      rw [e]
    · have hc : hash_many_cond1 (o, t, xs) = false := by
        simp only [hash_many_cond1, decide_eq_false_iff_not]; omega
      rw [hc]
      exact ⟨manyRem_eq N key incr flags fs fe o t xs hN h64 hwf hlen, _, rfl, hc⟩

/-- `hash_many` overwrites bytes `off … off + 32 * inputs.length` of the buffer with the chaining values of
the inputs (input `k` hashed with counter `advN incr counter k`), and nothing else -/
theorem hash_many_eq (N : Nat) (inputs : List (List UInt8)) (key : CV) (counter : UInt64) (incr : Bool)
    (flags fs fe : UInt8) (out : MutSlice) (hN : ∀ x ∈ inputs, x.length = N) (h64 : N % 64 = 0)
    (hwf : out.wf) (hlen : 32 * inputs.length ≤ out.len) :
    (hash_many N inputs key counter incr flags fs fe out).buf
      = writeAt out.buf out.off (outBytes N key flags fs fe incr inputs counter) := by
  rw [hash_many_unfold]
  exact (many_loop N key incr flags fs fe h64 inputs.length out counter inputs (inputs.length + 1) rfl hN hwf hlen
    (Nat.le_refl _)).1

end B3.Simd.Wasm
