/- all helper lemmas about the generated C SSE2 kernels (`B3.Gen.CSse2`) -/
import B3.Simd.CSse2Compress
import B3.Simd.CSse2Wide
import B3.Simd.CSse2Hash4
import B3.Simd.CSse2Hash1
import B3.Simd.CSse2HashMany
