/-
Width-independent lemmas for the wide kernels of c/blake3_avx512.c (`blake3_hash4/8/16_avx512`,
`blake3_xof4/8/16_avx512`): the shapes of their bodies as functions of the register operations (the
per-width files show by `rfl` that the translated code has these shapes), what they compute lane by lane,
and sequences of stores through a byte pointer.
-/
import B3.Simd.CAvx512Rounds
import B3.Simd.Sse41Props
namespace B3.Simd.C512
open B3
open B3.Gen.C (MSG_SCHEDULE IV)

/-! ### shapes -/

section shapes
variable {α : Type}

/-- `h_vecs = { set1(key[0]), …, set1(key[7]) }` -/
def hvN (splat : UInt32 → α) (cv : CV) : Vector α 8 :=
  #v[splat cv[0], splat cv[1], splat cv[2], splat cv[3], splat cv[4], splat cv[5], splat cv[6], splat cv[7]]

/-- `v = { h_vecs[0..7], set1(IV[0..3]), counter_low_vec, counter_high_vec, block_len_vec, block_flags_vec }` -/
def initN (splat : UInt32 → α) (h : Vector α 8) (lo hi : α) (bl fl : UInt32) : Vector α 16 :=
  #v[h[0], h[1], h[2], h[3], h[4], h[5], h[6], h[7], splat IV[0], splat IV[1], splat IV[2], splat IV[3], lo, hi, splat bl, splat fl]

/-- `round_fn(v, m, 0); …; round_fn(v, m, 6)` -/
def roundsN (rf : Vector α 16 → Vector α 16 → Fin 7 → Vector α 16) (v m : Vector α 16) : Vector α 16 :=
  rf (rf (rf (rf (rf (rf (rf v m 0) m 1) m 2) m 3) m 4) m 5) m 6

/-- `for i in 0..8: v[i] = xor(v[i], v[i+8]); v[i+8] = xor(v[i+8], h_vecs[i])` (unrolled) -/
def ffN (x : α → α → α) (v : Vector α 16) (h : Vector α 8) : Vector α 16 :=
  let v := v.set 0 (x v[0] v[8]); let v := v.set 8 (x v[8] h[0])
  let v := v.set 1 (x v[1] v[9]); let v := v.set 9 (x v[9] h[1])
  let v := v.set 2 (x v[2] v[10]); let v := v.set 10 (x v[10] h[2])
  let v := v.set 3 (x v[3] v[11]); let v := v.set 11 (x v[11] h[3])
  let v := v.set 4 (x v[4] v[12]); let v := v.set 12 (x v[12] h[4])
  let v := v.set 5 (x v[5] v[13]); let v := v.set 13 (x v[13] h[5])
  let v := v.set 6 (x v[6] v[14]); let v := v.set 14 (x v[14] h[6])
  let v := v.set 7 (x v[7] v[15]); let v := v.set 15 (x v[15] h[7])
  v

/-- `h_vecs[j] = xor(v[j], v[j+8])`, j = 0..7 -/
def outN (x : α → α → α) (h : Vector α 8) (v : Vector α 16) : Vector α 8 :=
  (((((((h.set 0 (x v[0] v[8])).set 1 (x v[1] v[9])).set 2 (x v[2] v[10])).set 3 (x v[3] v[11])).set 4 (x v[4] v[12])).set 5
    (x v[5] v[13])).set 6 (x v[6] v[14])).set 7 (x v[7] v[15])

/-- `for i in 0..16: msg_vecs[i] = set1(block_words[i])` (unrolled) on the uninitialised array `z` -/
def splatMsgN (splat : UInt32 → α) (z : Vector α 16) (w : St) : Vector α 16 :=
  (((((((((((((((z.set 0 (splat w[0])).set 1 (splat w[1])).set 2 (splat w[2])).set 3 (splat w[3])).set 4 (splat w[4])).set 5
    (splat w[5])).set 6 (splat w[6])).set 7 (splat w[7])).set 8 (splat w[8])).set 9 (splat w[9])).set 10 (splat w[10])).set 11
    (splat w[11])).set 12 (splat w[12])).set 13 (splat w[13])).set 14 (splat w[14])).set 15 (splat w[15])

end shapes

/-! ### lanes -/

/-- lane `l` of eight registers: the chaining value of input `l` -/
def cvLaneN {n : Nat} (l : Fin n) (h : Vector (Vector UInt32 n) 8) : CV :=
  #v[h[0][l], h[1][l], h[2][l], h[3][l], h[4][l], h[5][l], h[6][l], h[7][l]]

section lanes
variable {n : Nat} (splat : UInt32 → Vector UInt32 n) (x : Vector UInt32 n → Vector UInt32 n → Vector UInt32 n)
  (rf : Vector (Vector UInt32 n) 16 → Vector (Vector UInt32 n) 16 → Fin 7 → Vector (Vector UInt32 n) 16)

theorem cvLaneN_hvN (hs : ∀ a (l : Fin n), (splat a)[l] = a) (cv : CV) (l : Fin n) : cvLaneN l (hvN splat cv) = cv := by
  conv => rhs; rw [Proofs.vec8_eta cv]
  unfold cvLaneN hvN
  simp only [Vector.getElem_mk, List.getElem_toArray, List.getElem_cons_zero, List.getElem_cons_succ, hs]

theorem laneN_initN (hs : ∀ a (l : Fin n), (splat a)[l] = a) (h : Vector (Vector UInt32 n) 8) (lo hi : Vector UInt32 n)
    (bl fl : UInt32) (l : Fin n) (t : UInt64) (hlo : lo[l] = t.toUInt32) (hhi : hi[l] = (t >>> 32).toUInt32) :
    laneN l (initN splat h lo hi bl fl) = Spec.initState (cvLaneN l h) t bl fl := by
  unfold laneN initN Spec.initState cvLaneN
  simp only [Vector.getElem_mk, List.getElem_toArray, List.getElem_cons_zero, List.getElem_cons_succ, hs, hlo, hhi,
    Proofs.c_iv]

theorem laneN_splatMsgN (hs : ∀ a (l : Fin n), (splat a)[l] = a) (z : Vector (Vector UInt32 n) 16) (w : St) (l : Fin n) :
    laneN l (splatMsgN splat z w) = w := by
  conv => rhs; rw [Proofs.vec16_eta w]
  rw [vec16_eta' z]
  unfold laneN splatMsgN
  simp only [Vector.set_mk, List.set_toArray, List.set_cons_zero, List.set_cons_succ, Vector.getElem_mk, List.getElem_toArray,
    List.getElem_cons_zero, List.getElem_cons_succ, hs]

theorem laneN_ffN (hx : ∀ a b (l : Fin n), (x a b)[l] = a[l] ^^^ b[l]) (v : Vector (Vector UInt32 n) 16)
    (h : Vector (Vector UInt32 n) 8) (l : Fin n) :
    laneN l (ffN x v h) = Spec.feedForward (cvLaneN l h) (laneN l v) := by
  rw [vec16_eta' v]
  unfold laneN ffN Spec.feedForward cvLaneN
  simp only [Vector.set_mk, List.set_toArray, List.set_cons_zero, List.set_cons_succ, Vector.getElem_mk, List.getElem_toArray,
    List.getElem_cons_zero, List.getElem_cons_succ, hx]

theorem cvLaneN_outN (hx : ∀ a b (l : Fin n), (x a b)[l] = a[l] ^^^ b[l]) (h : Vector (Vector UInt32 n) 8)
    (v : Vector (Vector UInt32 n) 16) (cv : CV) (l : Fin n) :
    cvLaneN l (outN x h v) = first8 (Spec.feedForward cv (laneN l v)) := by
  rw [vec8_eta' h]
  unfold cvLaneN outN laneN Spec.feedForward first8
  simp only [Vector.set_mk, List.set_toArray, List.set_cons_zero, List.set_cons_succ, Vector.getElem_mk, List.getElem_toArray,
    List.getElem_cons_zero, List.getElem_cons_succ, hx]
  rfl

theorem c_sched_round (s m : St) (r : Fin 7) :
    Spec.roundWith s (fun i => m[MSG_SCHEDULE[r][i]]) = Spec.round s (Proofs.permN r m) := by
  rw [Spec.round]
  congr 1; funext i
  simp only [Proofs.permN_get, Proofs.c_sched_eq]

theorem laneN_roundsN
    (hr : ∀ v m r (l : Fin n), laneN l (rf v m r) = Spec.roundWith (laneN l v) (fun i => (laneN l m)[MSG_SCHEDULE[r][i]]))
    (v m : Vector (Vector UInt32 n) 16) (l : Fin n) :
    laneN l (roundsN rf v m) = Spec.rounds7 (laneN l v) (laneN l m) := by
  unfold roundsN
  simp only [hr, c_sched_round]
  unfold Spec.rounds7
  rfl

/-- one compression in every lane, all 16 output words (the body of `blake3_xofN_avx512` before the stores) -/
theorem laneN_compress (hs : ∀ a (l : Fin n), (splat a)[l] = a) (hx : ∀ a b (l : Fin n), (x a b)[l] = a[l] ^^^ b[l])
    (hr : ∀ v m r (l : Fin n), laneN l (rf v m r) = Spec.roundWith (laneN l v) (fun i => (laneN l m)[MSG_SCHEDULE[r][i]]))
    (h : Vector (Vector UInt32 n) 8) (lo hi : Vector UInt32 n) (bl fl : UInt32) (m : Vector (Vector UInt32 n) 16)
    (l : Fin n) (t : UInt64) (hlo : lo[l] = t.toUInt32) (hhi : hi[l] = (t >>> 32).toUInt32) :
    laneN l (ffN x (roundsN rf (initN splat h lo hi bl fl) m) h) = Spec.compress (cvLaneN l h) (laneN l m) t bl fl := by
  rw [laneN_ffN x hx, laneN_roundsN rf hr, laneN_initN splat hs h lo hi bl fl l t hlo hhi]
  rfl

/-- one compression in every lane, chaining value only (one block of the loop of `blake3_hashN_avx512`) -/
theorem cvLaneN_compress (hs : ∀ a (l : Fin n), (splat a)[l] = a) (hx : ∀ a b (l : Fin n), (x a b)[l] = a[l] ^^^ b[l])
    (hr : ∀ v m r (l : Fin n), laneN l (rf v m r) = Spec.roundWith (laneN l v) (fun i => (laneN l m)[MSG_SCHEDULE[r][i]]))
    (h : Vector (Vector UInt32 n) 8) (lo hi : Vector UInt32 n) (bl fl : UInt32) (m : Vector (Vector UInt32 n) 16)
    (l : Fin n) (t : UInt64) (hlo : lo[l] = t.toUInt32) (hhi : hi[l] = (t >>> 32).toUInt32) :
    cvLaneN l (outN x h (roundsN rf (initN splat h lo hi bl fl) m))
      = first8 (Spec.compress (cvLaneN l h) (laneN l m) t bl fl) := by
  rw [cvLaneN_outN x hx h _ (cvLaneN l h), laneN_roundsN rf hr, laneN_initN splat hs h lo hi bl fl l t hlo hhi]
  rfl

end lanes

/-! ### stores through a byte pointer -/

/-- write `bs` at `p + k`; `p` itself is unchanged -/
def wr (p : BPtr) (k : Nat) (bs : List UInt8) : BPtr := BPtr.merge p ((BPtr.add p k).write bs)

/-- consecutive writes of chunks of `sz` bytes starting at `p + k` -/
def wrAll (sz : Nat) : BPtr → Nat → List (List UInt8) → BPtr
  | p, _, [] => p
  | p, k, c :: cs => wrAll sz (wr p k c) (k + sz) cs

theorem wr_off (p : BPtr) (k : Nat) (bs : List UInt8) : (wr p k bs).off = p.off := rfl

theorem wr_buf (p : BPtr) (k : Nat) (bs : List UInt8) :
    (wr p k bs).buf = p.buf.take (p.off + k) ++ bs ++ p.buf.drop (p.off + k + bs.length) := rfl

theorem wr_length (p : BPtr) (k : Nat) (bs : List UInt8) (h : p.off + k + bs.length ≤ p.buf.length) :
    (wr p k bs).buf.length = p.buf.length := by
  rw [wr_buf]
  simp only [List.length_append, List.length_take, List.length_drop]
  omega

theorem wr_wr (p : BPtr) (k : Nat) (a b : List UInt8) (h : p.off + k ≤ p.buf.length) :
    wr (wr p k a) (k + a.length) b = wr p k (a ++ b) := by
  have e : ∀ q r : BPtr, q.buf = r.buf → q.off = r.off → q = r := by
    intro q r h1 h2; cases q; cases r; simp_all
  apply e
  · rw [wr_buf, wr_buf, wr_buf, wr_off]
    have h1 : (List.take (p.off + k) p.buf).length = p.off + k := by rw [List.length_take]; omega
    have t1 : List.take (p.off + (k + a.length)) (List.take (p.off + k) p.buf ++ a ++ List.drop (p.off + k + a.length) p.buf)
        = List.take (p.off + k) p.buf ++ a := by
      rw [List.take_append_of_le_length (by rw [List.length_append, h1]; omega)]
      exact List.take_of_length_le (by rw [List.length_append, h1]; omega)
    have t2 : List.drop (p.off + (k + a.length) + b.length) (List.take (p.off + k) p.buf ++ a ++ List.drop (p.off + k + a.length) p.buf)
        = List.drop (p.off + k + (a ++ b).length) p.buf := by
      have hL : (List.take (p.off + k) p.buf ++ a).length = p.off + k + a.length := by rw [List.length_append, h1]
      have hnil : List.drop (p.off + (k + a.length) + b.length) (List.take (p.off + k) p.buf ++ a) = [] :=
        List.drop_of_length_le (by rw [hL]; omega)
      rw [List.drop_append (l₁ := List.take (p.off + k) p.buf ++ a), hnil, List.nil_append, hL, List.drop_drop, List.length_append]
      congr 1
      omega
    rw [t1, t2]
    simp only [List.append_assoc]
  · rfl

theorem wrAll_eq (sz : Nat) (cs : List (List UInt8)) (hc : ∀ c ∈ cs, c.length = sz) (p : BPtr) (k : Nat)
    (pre : List UInt8) (h : p.off + k ≤ p.buf.length) :
    wrAll sz (wr p k pre) (k + pre.length) cs = wr p k (pre ++ cs.flatten) := by
  induction cs generalizing pre with
  | nil => simp [wrAll]
  | cons c cs ih =>
    have hlen : c.length = sz := hc c (by simp)
    rw [wrAll, wr_wr p k pre c h]
    have := ih (fun c' hc' => hc c' (by simp [hc'])) (pre ++ c)
    rw [List.length_append, hlen, ← Nat.add_assoc] at this
    rw [this, List.flatten_cons, List.append_assoc]

theorem wr_nil (p : BPtr) (k : Nat) (h : p.off + k ≤ p.buf.length) : wr p k [] = p := by
  have e : ∀ q r : BPtr, q.buf = r.buf → q.off = r.off → q = r := by
    intro q r h1 h2; cases q; cases r; simp_all
  apply e
  · rw [wr_buf]; simp
  · rfl

/-- consecutive stores of equal-sized chunks are one store of their concatenation -/
theorem wrAll_flatten (sz : Nat) (cs : List (List UInt8)) (hc : ∀ c ∈ cs, c.length = sz) (p : BPtr) (k : Nat)
    (h : p.off + k ≤ p.buf.length) : wrAll sz p k cs = wr p k cs.flatten := by
  have := wrAll_eq sz cs hc p k [] h
  rw [wr_nil p k h] at this
  simpa using this

theorem length_bytesOfWords {n : Nat} (v : Vector UInt32 n) : (bytesOfWords v).length = 4 * n := by
  unfold bytesOfWords
  have : ∀ l : List UInt32, (l.flatMap wordBytes).length = 4 * l.length := by
    intro l
    induction l with
    | nil => rfl
    | cons a l ih => rw [List.flatMap_cons, List.length_append, ih, wordBytes_length, List.length_cons]; omega
  rw [this, Vector.length_toList]

/-- the stores of the kernels in terms of `wr` -/
theorem merge_store128 (p : BPtr) (k : Nat) (a : V4) : BPtr.merge p (_mm_storeu_si128 (BPtr.add p k) a) = wr p k (bytesOfWords a) := rfl
theorem merge_store256 (p : BPtr) (k : Nat) (a : V8) : BPtr.merge p (_mm256_storeu_si256 (BPtr.add p k) a) = wr p k (bytesOfWords a) := rfl
theorem merge_store512 (p : BPtr) (k : Nat) (a : V16) : BPtr.merge p (_mm512_storeu_si512 (BPtr.add p k) a) = wr p k (bytesOfWords a) := rfl

end B3.Simd.C512
