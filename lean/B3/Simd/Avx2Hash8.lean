/- `transpose_vecs`, `transpose_msg_vecs`, `load_counters` and `hash8` of the AVX2 file against the specification
(the route of `Sse41Hash4.lean` with eight lanes; `blockAt`, `flagsAt`, `foldBlocksN`, `flags_step` are reused from there) -/
import B3.Simd.Sse41Hash4
import B3.Simd.Avx2Wide
namespace B3.Simd
open B3 B3.Gen.RsAvx2
open B3.Gen.Rs (MSG_SCHEDULE IV)

/-! ### definitions (eight-lane versions of those of `Sse41Hash4.lean`) -/

/-- the counter of input `i`: `counter + i` (wrapping) when incrementing, else `counter` -/
def ctr8 (counter : UInt64) (incr : Bool) (i : Fin 8) : UInt64 :=
  counter + (if incr then UInt64.ofNat i.val else 0)

/-- lane `i` of the eight chaining-value vectors: the chaining value of input `i` -/
def cvLane8 (i : Fin 8) (h : Vector V8 8) : CV :=
  #v[h[0][i], h[1][i], h[2][i], h[3][i], h[4][i], h[5][i], h[6][i], h[7][i]]

/-- the 64 output words: the eight chaining values one after the other -/
def outWords8 (h : Vector V8 8) : Vector UInt32 64 :=
  #v[h[0][0], h[1][0], h[2][0], h[3][0], h[4][0], h[5][0], h[6][0], h[7][0],
     h[0][1], h[1][1], h[2][1], h[3][1], h[4][1], h[5][1], h[6][1], h[7][1],
     h[0][2], h[1][2], h[2][2], h[3][2], h[4][2], h[5][2], h[6][2], h[7][2],
     h[0][3], h[1][3], h[2][3], h[3][3], h[4][3], h[5][3], h[6][3], h[7][3],
     h[0][4], h[1][4], h[2][4], h[3][4], h[4][4], h[5][4], h[6][4], h[7][4],
     h[0][5], h[1][5], h[2][5], h[3][5], h[4][5], h[5][5], h[6][5], h[7][5],
     h[0][6], h[1][6], h[2][6], h[3][6], h[4][6], h[5][6], h[6][6], h[7][6],
     h[0][7], h[1][7], h[2][7], h[3][7], h[4][7], h[5][7], h[6][7], h[7][7]]

/-- chaining value `i` of the 256 output bytes -/
def outCV8 (i : Fin 8) (w : Vector UInt32 64) : CV :=
  #v[w[8 * i.val]'(by omega), w[8 * i.val + 1]'(by omega), w[8 * i.val + 2]'(by omega), w[8 * i.val + 3]'(by omega), w[8 * i.val + 4]'(by omega), w[8 * i.val + 5]'(by omega), w[8 * i.val + 6]'(by omega), w[8 * i.val + 7]'(by omega)]

namespace Avx2

/-! ### transposes -/

/-- row `i` of the transposed matrix is column `i` of the original -/
theorem transpose_vecs_row (vs : Vector V8 8) (i : Fin 8) :
    (transpose_vecs vs)[i] = #v[vs[0][i], vs[1][i], vs[2][i], vs[3][i], vs[4][i], vs[5][i], vs[6][i], vs[7][i]] := by
  rw [vec8_eta' vs]
  generalize vs[0] = a; generalize vs[1] = b; generalize vs[2] = c; generalize vs[3] = d
  generalize vs[4] = e; generalize vs[5] = f; generalize vs[6] = g; generalize vs[7] = h
  match i with
  | 0 => kernel_rfl
  | 1 => kernel_rfl
  | 2 => kernel_rfl
  | 3 => kernel_rfl
  | 4 => kernel_rfl
  | 5 => kernel_rfl
  | 6 => kernel_rfl
  | 7 => kernel_rfl

theorem transpose_vecs_get (vs : Vector V8 8) (i j : Fin 8) : (transpose_vecs vs)[i][j] = vs[j][i] := by
  rw [transpose_vecs_row]
  match j with
  | 0 | 1 | 2 | 3 | 4 | 5 | 6 | 7 => rfl

/-- after the transposition, lane `i` of the 16 message vectors is the block of input `i` -/
theorem transpose_msg_vecs_lane (inputs : Vector Mem 8) (off : Nat) (i : Fin 8) :
    lane8 i (transpose_msg_vecs inputs off) = blockAt inputs[i] off := by
  rw [vec8_eta' inputs]
  generalize inputs[0] = p0; generalize inputs[1] = p1; generalize inputs[2] = p2; generalize inputs[3] = p3
  generalize inputs[4] = p4; generalize inputs[5] = p5; generalize inputs[6] = p6; generalize inputs[7] = p7
  match i with
  | 0 => kernel_rfl
  | 1 => kernel_rfl
  | 2 => kernel_rfl
  | 3 => kernel_rfl
  | 4 => kernel_rfl
  | 5 => kernel_rfl
  | 6 => kernel_rfl
  | 7 => kernel_rfl

/-! ### counters -/

theorem load_counters_lane (counter : UInt64) (incr : Bool) (i : Fin 8) :
    (load_counters counter incr).1[i] = (ctr8 counter incr i).toUInt32 ∧
    (load_counters counter incr).2[i] = ((ctr8 counter incr i) >>> 32).toUInt32 := by
  cases incr <;> (match i with | 0 | 1 | 2 | 3 | 4 | 5 | 6 | 7 => exact ⟨rfl, rfl⟩)

/-! ### hash8 -/

/-- the seven 8-way rounds, lane by lane -/
theorem rounds_lane (l : Fin 8) (v m : Vector V8 16) :
    lane8 l (round (round (round (round (round (round (round v m 0) m 1) m 2) m 3) m 4) m 5) m 6)
      = Spec.rounds7 (lane8 l v) (lane8 l m) := by
  simp only [round_lane, ← Proofs.rs_round_with, Proofs.rs_round_eq]
  unfold Spec.rounds7
  rfl

theorem lane_init' (i : Fin 8) (hv : Vector V8 8) (lo hi : V8) (bl fl : UInt32) :
    lane8 i #v[hv[0], hv[1], hv[2], hv[3], hv[4], hv[5], hv[6], hv[7],
              set1 IV[0], set1 IV[1], set1 IV[2], set1 IV[3], lo, hi, set1 bl, set1 fl]
      = #v[hv[0][i], hv[1][i], hv[2][i], hv[3][i], hv[4][i], hv[5][i], hv[6][i], hv[7][i],
           IV[0], IV[1], IV[2], IV[3], lo[i], hi[i], bl, fl] := by
  vatoms8 hv
  match i with
  | 0 | 1 | 2 | 3 | 4 | 5 | 6 | 7 => rfl

/-- lane `i` of the initial 8-way state is the specification's initial state of input `i` -/
theorem lane_init (i : Fin 8) (hv : Vector V8 8) (lo hi : V8) (t : UInt64) (bl fl : UInt32)
    (hlo : lo[i] = t.toUInt32) (hhi : hi[i] = (t >>> 32).toUInt32) :
    lane8 i #v[hv[0], hv[1], hv[2], hv[3], hv[4], hv[5], hv[6], hv[7],
              set1 IV[0], set1 IV[1], set1 IV[2], set1 IV[3], lo, hi, set1 bl, set1 fl]
      = Spec.initState (cvLane8 i hv) t bl fl := by
  rw [lane_init', hlo, hhi]
  unfold Spec.initState cvLane8
  rw [← Proofs.rs_iv]
  rfl

/-- the output transformation `h_vecs[j] = xor(v[j], v[j+8])`, lane by lane -/
theorem cvLane_out (i : Fin 8) (hv : Vector V8 8) (v : Vector V8 16) (cv : CV) :
    cvLane8 i ((((((((hv.set 0 (xor v[0] v[8])).set 1 (xor v[1] v[9])).set 2 (xor v[2] v[10])).set 3 (xor v[3] v[11])).set 4
        (xor v[4] v[12])).set 5 (xor v[5] v[13])).set 6 (xor v[6] v[14])).set 7 (xor v[7] v[15]))
      = first8 (Spec.feedForward cv (lane8 i v)) := by
  vatoms8 hv; vatoms16 v
  match i with
  | 0 => kernel_rfl
  | 1 => kernel_rfl
  | 2 => kernel_rfl
  | 3 => kernel_rfl
  | 4 => kernel_rfl
  | 5 => kernel_rfl
  | 6 => kernel_rfl
  | 7 => kernel_rfl

/-- one iteration of the block loop of `hash8` -/
theorem loop_body (inputs : Vector Mem 8) (blocks : Nat) (flags fe : UInt8) (lo hi : V8)
    (bf : UInt8) (hv : Vector V8 8) (b : Nat) :
    (hash8_loop1 inputs blocks flags fe lo hi (bf, hv) b).1 = flags ∧
    ∀ (i : Fin 8) (t : UInt64), lo[i] = t.toUInt32 → hi[i] = (t >>> 32).toUInt32 →
      cvLane8 i (hash8_loop1 inputs blocks flags fe lo hi (bf, hv) b).2
        = first8 (Spec.compress (cvLane8 i hv) (blockAt inputs[i] (b * 64)) t 64
            (if b + 1 = blocks then bf ||| fe else bf).toUInt32) := by
  refine ⟨rfl, ?_⟩
  intro i t hlo hhi
  unfold hash8_loop1 Spec.compress
  simp only []
  rw [cvLane_out i _ _ (cvLane8 i hv), rounds_lane, transpose_msg_vecs_lane, lane_init i hv lo hi t _ _ hlo hhi]

/-- the loop of `hash8` after `n` iterations -/
theorem loop_inv (inputs : Vector Mem 8) (blocks : Nat) (flags fs fe : UInt8) (lo hi : V8) (hv0 : Vector V8 8) (n : Nat) :
    ((List.range n).foldl (hash8_loop1 inputs blocks flags fe lo hi) (flags ||| fs, hv0)).1
        = (if n = 0 then flags ||| fs else flags) ∧
    ∀ (i : Fin 8) (t : UInt64), lo[i] = t.toUInt32 → hi[i] = (t >>> 32).toUInt32 →
      cvLane8 i ((List.range n).foldl (hash8_loop1 inputs blocks flags fe lo hi) (flags ||| fs, hv0)).2
        = foldBlocksN (cvLane8 i hv0) (fun b => blockAt inputs[i] (b * 64)) blocks t flags fs fe n := by
  induction n with
  | zero => exact ⟨rfl, fun _ _ _ _ => rfl⟩
  | succ n ih =>
    obtain ⟨ih1, ih2⟩ := ih
    rw [List.range_succ, List.foldl_append]
    generalize (List.range n).foldl (hash8_loop1 inputs blocks flags fe lo hi) (flags ||| fs, hv0) = L at ih1 ih2 ⊢
    obtain ⟨bf, hv⟩ := L
    simp only at ih1 ih2
    simp only [List.foldl_cons, List.foldl_nil]
    obtain ⟨b1, b2⟩ := loop_body inputs blocks flags fe lo hi bf hv n
    refine ⟨by rw [b1]; simp, ?_⟩
    intro i t hlo hhi
    rw [b2 i t hlo hhi, ih2 i t hlo hhi, ih1, flags_step]
    unfold foldBlocksN
    rw [List.range_succ, List.foldl_append]
    rfl

theorem vec64_eta (s : Vector UInt32 64) : s = #v[s[0], s[1], s[2], s[3], s[4], s[5], s[6], s[7], s[8], s[9], s[10], s[11], s[12], s[13], s[14], s[15], s[16], s[17], s[18], s[19], s[20], s[21], s[22], s[23], s[24], s[25], s[26], s[27], s[28], s[29], s[30], s[31], s[32], s[33], s[34], s[35], s[36], s[37], s[38], s[39], s[40], s[41], s[42], s[43], s[44], s[45], s[46], s[47], s[48], s[49], s[50], s[51], s[52], s[53], s[54], s[55], s[56], s[57], s[58], s[59], s[60], s[61], s[62], s[63]] := by
  apply Vector.ext
  intro i hi
  match i, hi with
  | 0, _ | 1, _ | 2, _ | 3, _ | 4, _ | 5, _ | 6, _ | 7, _ | 8, _ | 9, _ | 10, _ | 11, _ | 12, _ | 13, _ | 14, _ | 15, _
  | 16, _ | 17, _ | 18, _ | 19, _ | 20, _ | 21, _ | 22, _ | 23, _ | 24, _ | 25, _ | 26, _ | 27, _ | 28, _ | 29, _ | 30, _ | 31, _
  | 32, _ | 33, _ | 34, _ | 35, _ | 36, _ | 37, _ | 38, _ | 39, _ | 40, _ | 41, _ | 42, _ | 43, _ | 44, _ | 45, _ | 46, _ | 47, _
  | 48, _ | 49, _ | 50, _ | 51, _ | 52, _ | 53, _ | 54, _ | 55, _ | 56, _ | 57, _ | 58, _ | 59, _ | 60, _ | 61, _ | 62, _ | 63, _ => rfl
  | n + 64, h => omega

theorem outCV8_outWords8 (i : Fin 8) (h : Vector V8 8) : outCV8 i (outWords8 h) = cvLane8 i h := by
  match i with
  | 0 => kernel_rfl
  | 1 => kernel_rfl
  | 2 => kernel_rfl
  | 3 => kernel_rfl
  | 4 => kernel_rfl
  | 5 => kernel_rfl
  | 6 => kernel_rfl
  | 7 => kernel_rfl

macro "atoms64 " s:ident : tactic => `(tactic|
  (rw [vec64_eta $s]
   generalize $s[0] = o0; generalize $s[1] = o1; generalize $s[2] = o2; generalize $s[3] = o3
   generalize $s[4] = o4; generalize $s[5] = o5; generalize $s[6] = o6; generalize $s[7] = o7
   generalize $s[8] = o8; generalize $s[9] = o9; generalize $s[10] = o10; generalize $s[11] = o11
   generalize $s[12] = o12; generalize $s[13] = o13; generalize $s[14] = o14; generalize $s[15] = o15
   generalize $s[16] = o16; generalize $s[17] = o17; generalize $s[18] = o18; generalize $s[19] = o19
   generalize $s[20] = o20; generalize $s[21] = o21; generalize $s[22] = o22; generalize $s[23] = o23
   generalize $s[24] = o24; generalize $s[25] = o25; generalize $s[26] = o26; generalize $s[27] = o27
   generalize $s[28] = o28; generalize $s[29] = o29; generalize $s[30] = o30; generalize $s[31] = o31
   generalize $s[32] = o32; generalize $s[33] = o33; generalize $s[34] = o34; generalize $s[35] = o35
   generalize $s[36] = o36; generalize $s[37] = o37; generalize $s[38] = o38; generalize $s[39] = o39
   generalize $s[40] = o40; generalize $s[41] = o41; generalize $s[42] = o42; generalize $s[43] = o43
   generalize $s[44] = o44; generalize $s[45] = o45; generalize $s[46] = o46; generalize $s[47] = o47
   generalize $s[48] = o48; generalize $s[49] = o49; generalize $s[50] = o50; generalize $s[51] = o51
   generalize $s[52] = o52; generalize $s[53] = o53; generalize $s[54] = o54; generalize $s[55] = o55
   generalize $s[56] = o56; generalize $s[57] = o57; generalize $s[58] = o58; generalize $s[59] = o59
   generalize $s[60] = o60; generalize $s[61] = o61; generalize $s[62] = o62; generalize $s[63] = o63))

/-- the initial chaining-value vectors and the loop of `hash8` -/
def hash8Loop (inputs : Vector Mem 8) (blocks : Nat) (key : CV) (counter : UInt64) (incr : Bool) (flags fs fe : UInt8) :
    UInt8 × Vector V8 8 :=
  (List.range blocks).foldl
    (hash8_loop1 inputs blocks flags fe (load_counters counter incr).1 (load_counters counter incr).2)
    (flags ||| fs, #v[set1 key[0], set1 key[1], set1 key[2], set1 key[3], set1 key[4], set1 key[5], set1 key[6], set1 key[7]])

/-- what follows the loop (one 8x8 transpose, eight stores) writes the eight chaining values one after the
other, overwriting all of `out` -/
theorem hash8_eq_outWords (inputs : Vector Mem 8) (blocks : Nat) (key : CV) (counter : UInt64) (incr : Bool)
    (flags fs fe : UInt8) (out : Vector UInt32 64) :
    hash8 inputs blocks key counter incr flags fs fe out
      = outWords8 (hash8Loop inputs blocks key counter incr flags fs fe).2 := by
  unfold hash8 hash8Loop
  simp only []
  generalize (List.range blocks).foldl _ _ = L
  obtain ⟨bf, hv⟩ := L
  vatoms8 hv
  rw [vec64_eta out]    -- `out` becomes a literal vector, so that the stores reduce; its old words are all overwritten
  kernel_rfl

theorem cvLane_key (i : Fin 8) (key : CV) :
    cvLane8 i #v[set1 key[0], set1 key[1], set1 key[2], set1 key[3], set1 key[4], set1 key[5], set1 key[6], set1 key[7]] = key := by
  conv => rhs; rw [Proofs.vec8_eta key]
  match i with
  | 0 | 1 | 2 | 3 | 4 | 5 | 6 | 7 => rfl

/-- output `i` of `hash8` is the specification's fold over the blocks of input `i` -/
theorem hash8_lane (inputs : Vector Mem 8) (blocks : Nat) (key : CV) (counter : UInt64) (incr : Bool)
    (flags fs fe : UInt8) (out : Vector UInt32 64) (i : Fin 8) :
    outCV8 i (hash8 inputs blocks key counter incr flags fs fe out)
      = foldBlocksN key (fun b => blockAt inputs[i] (b * 64)) blocks (ctr8 counter incr i) flags fs fe blocks := by
  rw [hash8_eq_outWords, outCV8_outWords8]
  unfold hash8Loop
  have h := (loop_inv inputs blocks flags fs fe (load_counters counter incr).1 (load_counters counter incr).2
    #v[set1 key[0], set1 key[1], set1 key[2], set1 key[3], set1 key[4], set1 key[5], set1 key[6], set1 key[7]] blocks).2
    i (ctr8 counter incr i) (load_counters_lane counter incr i).1 (load_counters_lane counter incr i).2
  rw [h, cvLane_key]

end Avx2
end B3.Simd
