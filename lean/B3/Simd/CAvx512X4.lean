/- `transpose_vecs_128`, `transpose_msg_vecs4` and `blake3_xof4_avx512` against the specification -/
import B3.Simd.CAvx512Round4
import B3.Simd.CAvx512X16
namespace B3.Simd.C512
open B3 B3.Gen.CAvx512
open B3.Gen.C (MSG_SCHEDULE IV)

theorem set1_128_get (a : UInt32) (l : Fin 4) : (set1_128 a)[l] = a := by
  revert l; apply lane4_cases <;> rfl

theorem xor_128_get (a b : V4) (l : Fin 4) : (xor_128 a b)[l] = a[l] ^^^ b[l] := by
  revert l; apply lane4_cases <;> rfl

/-! ### transposes -/

theorem transpose_vecs_128_get (vs : Vector V4 4) (i j : Fin 4) : (transpose_vecs_128 vs)[i][j] = vs[j][i] := by
  rw [vec4_eta vs]
  generalize vs[0] = a; generalize vs[1] = b; generalize vs[2] = c; generalize vs[3] = d
  revert j; apply lane4_cases <;> (revert i; apply lane4_cases <;> rfl)

theorem transpose_msg_vecs4_lane (inputs : MemArr) (off : Nat) (out : Vector V4 16) (i : Fin 4) :
    laneN i (transpose_msg_vecs4 inputs off out) = blockAt (inputs i.val) off := by
  vatoms16 out
  revert i
  apply lane4_cases <;> kernel_rfl

/-! ### blake3_xof4_avx512 -/

/-- the four 4x4 transpositions of the sixteen registers -/
def xof4T (v : Vector V4 16) : Vector V4 16 :=
  let v := setSlice4 v 0 (transpose_vecs_128 (slice4 v 0))
  let v := setSlice4 v 4 (transpose_vecs_128 (slice4 v 4))
  let v := setSlice4 v 8 (transpose_vecs_128 (slice4 v 8))
  setSlice4 v 12 (transpose_vecs_128 (slice4 v 12))

/-- the sixteen 16-byte rows in the order in which they are stored -/
def xrows4 (t : Vector V4 16) : List (List UInt8) :=
  [bytesOfWords t[0], bytesOfWords t[4], bytesOfWords t[8], bytesOfWords t[12], bytesOfWords t[1], bytesOfWords t[5],
   bytesOfWords t[9], bytesOfWords t[13], bytesOfWords t[2], bytesOfWords t[6], bytesOfWords t[10], bytesOfWords t[14],
   bytesOfWords t[3], bytesOfWords t[7], bytesOfWords t[11], bytesOfWords t[15]]

def xof4V (cv : CV) (block : St) (bl : UInt8) (c : UInt64) (fl : UInt8) : Vector V4 16 :=
  ffN xor_128
    (roundsN round_fn4
      (initN set1_128 (hvN set1_128 cv) (load_counters4 c true).1 (load_counters4 c true).2 bl.toUInt32 fl.toUInt32)
      (splatMsgN set1_128 (Vector.replicate 16 (Vector.replicate 4 0)) (load_block_words block (Vector.replicate 16 0))))
    (hvN set1_128 cv)

theorem xof4_shape (cv : CV) (block : St) (bl : UInt8) (c : UInt64) (fl : UInt8) (out : BPtr) :
    blake3_xof4_avx512 cv block bl c fl out = wrAll 16 out 0 (xrows4 (xof4T (xof4V cv block bl c fl))) := rfl

theorem xof4V_lane (cv : CV) (block : St) (bl : UInt8) (c : UInt64) (fl : UInt8) (l : Fin 4) :
    laneN l (xof4V cv block bl c fl) = Spec.compress cv block (ctr64 c true l.val) bl.toUInt32 fl.toUInt32 := by
  unfold xof4V
  rw [laneN_compress set1_128 xor_128 round_fn4 set1_128_get xor_128_get round_fn4_lane _ _ _ _ _ _ l (ctr64 c true l.val)
    (load_counters4_lane c true l).1 (load_counters4_lane c true l).2,
    cvLaneN_hvN set1_128 set1_128_get, laneN_splatMsgN set1_128 set1_128_get, load_block_words_eq]

/-- rows `i`, `i + 4`, `i + 8`, `i + 12` of the transposed registers, one after the other, are the 64 bytes of lane `i` -/
theorem xof4T_block (v : Vector V4 16) (i : Nat) (hi : i < 4) :
    bytesOfWords ((xof4T v)[i]'(by omega)) ++ (bytesOfWords ((xof4T v)[i + 4]'(by omega)) ++
      (bytesOfWords ((xof4T v)[i + 8]'(by omega)) ++ bytesOfWords ((xof4T v)[i + 12]'(by omega))))
      = bytesOfWords (laneN ⟨i, hi⟩ v) := by
  vatoms16 v
  match i, hi with
  | 0, _ => kernel_rfl
  | 1, _ => kernel_rfl
  | 2, _ => kernel_rfl
  | 3, _ => kernel_rfl
  | n + 4, h => omega

theorem xrows4_length (t : Vector V4 16) : ∀ c ∈ xrows4 t, c.length = 16 := by
  intro c hc
  unfold xrows4 at hc
  simp only [List.mem_cons, List.not_mem_nil, or_false] at hc
  rcases hc with h | h | h | h | h | h | h | h | h | h | h | h | h | h | h | h <;> rw [h, length_bytesOfWords]

theorem xof4_eq (cv : CV) (block : St) (bl : UInt8) (c : UInt64) (fl : UInt8) (out : BPtr)
    (h : out.off ≤ out.buf.length) :
    blake3_xof4_avx512 cv block bl c fl out = wr out 0 (xofBytes cv block bl fl c 4) := by
  rw [xof4_shape, wrAll_flatten 16 _ (xrows4_length _) out 0 h]
  have e : (xrows4 (xof4T (xof4V cv block bl c fl))).flatten
      = [bytesOfWords (laneN (⟨0, by omega⟩ : Fin 4) (xof4V cv block bl c fl)), bytesOfWords (laneN (⟨1, by omega⟩ : Fin 4) (xof4V cv block bl c fl)),
         bytesOfWords (laneN (⟨2, by omega⟩ : Fin 4) (xof4V cv block bl c fl)), bytesOfWords (laneN (⟨3, by omega⟩ : Fin 4) (xof4V cv block bl c fl))].flatten := by
    rw [← xof4T_block _ 0 (by omega), ← xof4T_block _ 1 (by omega), ← xof4T_block _ 2 (by omega), ← xof4T_block _ 3 (by omega)]
    unfold xrows4
    simp only [List.flatten_cons, List.flatten_nil, List.append_assoc, List.append_nil]
  rw [e]
  unfold xofBytes
  simp only [xof4V_lane, ctr64_true]
  rfl

end B3.Simd.C512
