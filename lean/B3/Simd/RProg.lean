/-
A proof device (NOT part of the trusted base): straight-line "register programs" over sixteen registers,
the shape of `round_fn4 / 8 / 16` of c/blake3_avx512.c.  The translator emits, next to the translation of such
a function, the list of its statements as data (`B3/Gen/CAvx512Prog.lean`); `B3/Simd/CAvx512Rounds.lean`
proves (kernel check) that the translated function IS the interpretation `rrun` of that list, and all
reasoning that has to go through the 112 statements (lane-wise homomorphism, comparison with the
specification) is then done by induction on the list / one evaluation, independently of the register width.
-/
import B3.Prim
namespace B3.Simd.C512
open B3

/-- the operations of the round functions -/
inductive ROp where
  | add | xor | rot16 | rot12 | rot8 | rot7
deriving DecidableEq, Repr

/-- an operand: state register `v[k]`, or the `j`-th message register in schedule order, `m[MSG_SCHEDULE[r][j]]` -/
inductive RArg where
  | v (k : Fin 16)
  | m (j : Fin 16)
deriving DecidableEq, Repr

/-- `v[dst] = op(a, b)` (`b` is ignored by the rotations) -/
structure RStmt where
  dst : Fin 16
  op : ROp
  a : RArg
  b : RArg
deriving DecidableEq, Repr

/-- an interpretation of the operations on a register type -/
structure ROps (α : Type) where
  add : α → α → α
  xor : α → α → α
  rot16 : α → α
  rot12 : α → α
  rot8 : α → α
  rot7 : α → α

def RArg.eval {α : Type} (v ms : Vector α 16) : RArg → α
  | .v k => v[k.val]'k.isLt
  | .m j => ms[j.val]'j.isLt

def ROps.ap {α : Type} (o : ROps α) : ROp → α → α → α
  | .add, x, y => o.add x y
  | .xor, x, y => o.xor x y
  | .rot16, x, _ => o.rot16 x
  | .rot12, x, _ => o.rot12 x
  | .rot8, x, _ => o.rot8 x
  | .rot7, x, _ => o.rot7 x

def rstep {α : Type} (o : ROps α) (ms : Vector α 16) (v : Vector α 16) (s : RStmt) : Vector α 16 :=
  v.set s.dst.val (o.ap s.op (s.a.eval v ms) (s.b.eval v ms)) s.dst.isLt

/-- run a program: `ms` = the message registers in schedule order -/
def rrun {α : Type} (o : ROps α) (prog : List RStmt) (v ms : Vector α 16) : Vector α 16 :=
  prog.foldl (rstep o ms) v

/-- a map between register types that commutes with the operations -/
structure ROps.Hom {α β : Type} (oa : ROps α) (ob : ROps β) (π : α → β) : Prop where
  add : ∀ a b, π (oa.add a b) = ob.add (π a) (π b)
  xor : ∀ a b, π (oa.xor a b) = ob.xor (π a) (π b)
  rot16 : ∀ a, π (oa.rot16 a) = ob.rot16 (π a)
  rot12 : ∀ a, π (oa.rot12 a) = ob.rot12 (π a)
  rot8 : ∀ a, π (oa.rot8 a) = ob.rot8 (π a)
  rot7 : ∀ a, π (oa.rot7 a) = ob.rot7 (π a)

theorem RArg.eval_map {α β : Type} (π : α → β) (v ms : Vector α 16) (x : RArg) :
    π (x.eval v ms) = x.eval (v.map π) (ms.map π) := by
  cases x <;> simp [RArg.eval]

theorem ROps.Hom.ap {α β : Type} {oa : ROps α} {ob : ROps β} {π : α → β} (h : oa.Hom ob π) (op : ROp) (x y : α) :
    π (oa.ap op x y) = ob.ap op (π x) (π y) := by
  cases op
  · exact h.add x y
  · exact h.xor x y
  · exact h.rot16 x
  · exact h.rot12 x
  · exact h.rot8 x
  · exact h.rot7 x

theorem rstep_map {α β : Type} {oa : ROps α} {ob : ROps β} {π : α → β} (h : oa.Hom ob π)
    (ms v : Vector α 16) (s : RStmt) :
    (rstep oa ms v s).map π = rstep ob (ms.map π) (v.map π) s := by
  unfold rstep
  rw [Vector.map_set, h.ap, RArg.eval_map π, RArg.eval_map π]

/-- running a program commutes with a homomorphism of the operations (e.g. taking one lane) -/
theorem rrun_map {α β : Type} {oa : ROps α} {ob : ROps β} {π : α → β} (h : oa.Hom ob π)
    (prog : List RStmt) (v ms : Vector α 16) :
    (rrun oa prog v ms).map π = rrun ob prog (v.map π) (ms.map π) := by
  unfold rrun
  induction prog generalizing v with
  | nil => rfl
  | cons s rest ih => rw [List.foldl_cons, List.foldl_cons, ih, rstep_map h]

end B3.Simd.C512
