/- the C 8-way `round_fn` lane by lane -/
import B3.Simd.CAvx2Lane0
import B3.Simd.CAvx2Lane1
import B3.Simd.CAvx2Lane2
import B3.Simd.CAvx2Lane3
import B3.Simd.CAvx2Lane4
import B3.Simd.CAvx2Lane5
import B3.Simd.CAvx2Lane6
import B3.Simd.CAvx2Lane7
import B3.Simd.CSse41Wide
namespace B3.Simd.CAvx2
open B3.Simd.CI
open B3 B3.Simd B3.Gen.CAvx2
open B3.Gen.C (MSG_SCHEDULE)

theorem round_lane_aux (l : Fin 8) (v m : Vector V8 16) (r : Fin 7) :
    lane8 l (round_fn v m r) = roundWithA (lane8 l v) (fun i => (schedC8 m r)[i][l]) := by
  match l with
  | 0 => exact round_lane0 v m r
  | 1 => exact round_lane1 v m r
  | 2 => exact round_lane2 v m r
  | 3 => exact round_lane3 v m r
  | 4 => exact round_lane4 v m r
  | 5 => exact round_lane5 v m r
  | 6 => exact round_lane6 v m r
  | 7 => exact round_lane7 v m r

theorem schedC8_get (m : Vector V8 16) (r : Fin 7) (i : Fin 16) : (schedC8 m r)[i] = m[MSG_SCHEDULE[r][i]] := by
  match i with
  | ⟨0, _⟩ | ⟨1, _⟩ | ⟨2, _⟩ | ⟨3, _⟩ | ⟨4, _⟩ | ⟨5, _⟩ | ⟨6, _⟩ | ⟨7, _⟩
  | ⟨8, _⟩ | ⟨9, _⟩ | ⟨10, _⟩ | ⟨11, _⟩ | ⟨12, _⟩ | ⟨13, _⟩ | ⟨14, _⟩ | ⟨15, _⟩ => rfl
  | ⟨n + 16, h⟩ => omega

theorem lane8_get (l : Fin 8) (v : Vector V8 16) (i : Fin 16) : (lane8 l v)[i] = v[i][l] := by
  match i with
  | ⟨0, _⟩ | ⟨1, _⟩ | ⟨2, _⟩ | ⟨3, _⟩ | ⟨4, _⟩ | ⟨5, _⟩ | ⟨6, _⟩ | ⟨7, _⟩
  | ⟨8, _⟩ | ⟨9, _⟩ | ⟨10, _⟩ | ⟨11, _⟩ | ⟨12, _⟩ | ⟨13, _⟩ | ⟨14, _⟩ | ⟨15, _⟩ => rfl
  | ⟨n + 16, h⟩ => omega

/-- lane `l` of the 8-way round is the specification's round on lane `l` -/
theorem round_lane (l : Fin 8) (v m : Vector V8 16) (r : Fin 7) :
    lane8 l (round_fn v m r) = Spec.roundWith (lane8 l v) (fun i => (lane8 l m)[MSG_SCHEDULE[r][i]]) := by
  rw [round_lane_aux, roundWithA_eq]
  congr 1
  funext i
  rw [schedC8_get, lane8_get]

/-- the seven 8-way rounds, lane by lane -/
theorem rounds_lane (l : Fin 8) (v m : Vector V8 16) :
    lane8 l (round_fn (round_fn (round_fn (round_fn (round_fn (round_fn (round_fn v m 0) m 1) m 2) m 3) m 4) m 5) m 6)
      = Spec.rounds7 (lane8 l v) (lane8 l m) := by
  simp only [round_lane, ← CSse41.c_round_with, Proofs.c_round_eq]
  unfold Spec.rounds7
  rfl

end B3.Simd.CAvx2
