/-
Base definitions for the proofs about the generated C AVX2 kernels (`B3.Gen.CAvx2`, translated from
c/blake3_avx2.c): eight 32-bit lanes per register.  The byte-shuffle rotations (16 and 8) are first shown to be
lane-wise `rotr` (the 128-bit facts of `CSse41Base.lean`, once per 128-bit half); the `or`-of-shifts rotations
(12 and 7) reduce by themselves.  The theorems are stated in `B3/Simd/CAvx2Props.lean`.
-/
import B3.Gen.CAvx2
import B3.Simd.CSse41Base
import B3.Simd.Sse41WideBase
namespace B3.Simd.CAvx2
open B3.Simd.CI
open B3 B3.Simd B3.Gen.CAvx2
open B3.Gen.C (MSG_SCHEDULE)

/-- every lane rotated right by `n` -/
def rotv8 (n : UInt32) (x : V8) : V8 :=
  #v[rotr x[0] n, rotr x[1] n, rotr x[2] n, rotr x[3] n, rotr x[4] n, rotr x[5] n, rotr x[6] n, rotr x[7] n]

theorem v8_eta (s : V8) : s = #v[s[0], s[1], s[2], s[3], s[4], s[5], s[6], s[7]] := by
  apply Vector.ext
  intro i hi
  match i, hi with
  | 0, _ | 1, _ | 2, _ | 3, _ | 4, _ | 5, _ | 6, _ | 7, _ => rfl
  | n + 8, h => omega

theorem lo128_join (l h : V4) : lo128 (join l h) = l := by rw [v4_eta l]; rfl
theorem hi128_join (l h : V4) : hi128 (join l h) = h := by rw [v4_eta h]; rfl

theorem join_rotv (n : UInt32) (x : V8) : join (rotv n (lo128 x)) (rotv n (hi128 x)) = rotv8 n x := rfl

theorem rot16_eq (x : V8) : rot16 x = rotv8 16 x := by
  unfold rot16 _mm256_shuffle_epi8 _mm256_set_epi8
  rw [lo128_join, hi128_join, CSse41.shuf_rot16, CSse41.shuf_rot16, join_rotv]

theorem rot8_eq (x : V8) : rot8 x = rotv8 8 x := by
  unfold rot8 _mm256_shuffle_epi8 _mm256_set_epi8
  rw [lo128_join, hi128_join, CSse41.shuf_rot8, CSse41.shuf_rot8, join_rotv]

theorem rot12_eq (x : V8) : rot12 x = rotv8 12 x := rfl
theorem rot7_eq (x : V8) : rot7 x = rotv8 7 x := rfl

theorem rot16_fun : @rot16 = rotv8 16 := funext rot16_eq
theorem rot8_fun : @rot8 = rotv8 8 := funext rot8_eq

/-! ### lanes -/

/-- lane `l` of sixteen vectors: the state / message block of input `l` -/
def lane8 (l : Fin 8) (v : Vector V8 16) : St :=
  #v[v[0][l], v[1][l], v[2][l], v[3][l], v[4][l], v[5][l], v[6][l], v[7][l],
     v[8][l], v[9][l], v[10][l], v[11][l], v[12][l], v[13][l], v[14][l], v[15][l]]

/-- the sixteen message vectors in the order in which round `r` consumes them (C schedule table) -/
def schedC8 (m : Vector V8 16) (r : Fin 7) : Vector V8 16 :=
  #v[m[MSG_SCHEDULE[r][0]], m[MSG_SCHEDULE[r][1]], m[MSG_SCHEDULE[r][2]], m[MSG_SCHEDULE[r][3]],
     m[MSG_SCHEDULE[r][4]], m[MSG_SCHEDULE[r][5]], m[MSG_SCHEDULE[r][6]], m[MSG_SCHEDULE[r][7]],
     m[MSG_SCHEDULE[r][8]], m[MSG_SCHEDULE[r][9]], m[MSG_SCHEDULE[r][10]], m[MSG_SCHEDULE[r][11]],
     m[MSG_SCHEDULE[r][12]], m[MSG_SCHEDULE[r][13]], m[MSG_SCHEDULE[r][14]], m[MSG_SCHEDULE[r][15]]]

/-- lane `l` (a literal) of the generated 8-way `round_fn` against the (re-associated) specification round -/
macro "cround_lane8_tac " v:ident m:ident r:ident : tactic => `(tactic|
  (unfold round_fn round_fn_part1 round_fn_part2 schedC8
   rw [rot16_fun, rot8_fun]
   generalize $m[MSG_SCHEDULE[$r][0]] = x0; generalize $m[MSG_SCHEDULE[$r][1]] = x1
   generalize $m[MSG_SCHEDULE[$r][2]] = x2; generalize $m[MSG_SCHEDULE[$r][3]] = x3
   generalize $m[MSG_SCHEDULE[$r][4]] = x4; generalize $m[MSG_SCHEDULE[$r][5]] = x5
   generalize $m[MSG_SCHEDULE[$r][6]] = x6; generalize $m[MSG_SCHEDULE[$r][7]] = x7
   generalize $m[MSG_SCHEDULE[$r][8]] = x8; generalize $m[MSG_SCHEDULE[$r][9]] = x9
   generalize $m[MSG_SCHEDULE[$r][10]] = x10; generalize $m[MSG_SCHEDULE[$r][11]] = x11
   generalize $m[MSG_SCHEDULE[$r][12]] = x12; generalize $m[MSG_SCHEDULE[$r][13]] = x13
   generalize $m[MSG_SCHEDULE[$r][14]] = x14; generalize $m[MSG_SCHEDULE[$r][15]] = x15
   vatoms16 $v
   kernel_rfl))

end B3.Simd.CAvx2
