/- `blake3_hash8_avx512` against the specification -/
import B3.Simd.CAvx512X8
import B3.Simd.CAvx512HashLoop
namespace B3.Simd.C512
open B3 B3.Gen.CAvx512
open B3.Gen.C (MSG_SCHEDULE IV)

theorem hash8_body_shape (inputs : MemArr) (blocks : Nat) (flags fe : UInt8) (lo hi : V8) (h : Vector V8 8) (bf : UInt8)
    (b : Nat) :
    blake3_hash8_avx512_loop1 inputs blocks flags fe lo hi (h, bf) b
      = (outN xor_256 h (roundsN round_fn8
          (initN set1_256 h lo hi 64 (if b + 1 = blocks then bf ||| fe else bf).toUInt32)
          (transpose_msg_vecs8 inputs (b * 64) (Vector.replicate 16 (Vector.replicate 8 0)))), flags) := rfl

def hash8H (inputs : MemArr) (blocks : Nat) (key : CV) (c : UInt64) (incr : Bool) (flags fs fe : UInt8) : Vector V8 8 :=
  ((List.range blocks).foldl
    (blake3_hash8_avx512_loop1 inputs blocks flags fe (load_counters8 c incr).1 (load_counters8 c incr).2)
    (hvN set1_256 key, flags ||| fs)).1

theorem hash8_shape (inputs : MemArr) (blocks : Nat) (key : CV) (c : UInt64) (incr : Bool) (flags fs fe : UInt8) (out : BPtr) :
    blake3_hash8_avx512 inputs blocks key c incr flags fs fe out
      = wrAll 32 out 0 ((transpose_vecs_256 (hash8H inputs blocks key c incr flags fs fe)).toList.map bytesOfWords) := by
  rw [vec8_eta' (transpose_vecs_256 _)]
  rfl

theorem transpose_vecs_256_row_nat (vs : Vector V8 8) (i : Nat) (hi : i < 8) :
    (transpose_vecs_256 vs)[i]'hi = cvLaneN ⟨i, hi⟩ vs := transpose_vecs_256_row vs ⟨i, hi⟩

theorem hash8H_lane (inputs : MemArr) (blocks : Nat) (key : CV) (c : UInt64) (incr : Bool) (flags fs fe : UInt8) (l : Fin 8) :
    cvLaneN l (hash8H inputs blocks key c incr flags fs fe)
      = specHashBlocks key (blockOfMem (inputs l.val)) blocks (ctr64 c incr l.val) flags fs fe := by
  unfold hash8H
  rw [(hloop_inv _ blocks flags fs fe l (ctr64 c incr l.val) (fun b => blockAt (inputs l.val) (b * 64)) (by
      intro h bf b
      rw [hash8_body_shape]
      refine ⟨rfl, ?_⟩
      show cvLaneN l (outN _ _ _) = _
      rw [cvLaneN_compress set1_256 xor_256 round_fn8 set1_256_get xor_256_get round_fn8_lane _ _ _ _ _ _ l (ctr64 c incr l.val)
        (load_counters8_lane c incr l).1 (load_counters8_lane c incr l).2, transpose_msg_vecs8_lane])
    (hvN set1_256 key) blocks).2, cvLaneN_hvN set1_256 set1_256_get, foldBlocksN_eq_spec]

theorem hash8_eq (inputs : MemArr) (blocks : Nat) (key : CV) (c : UInt64) (incr : Bool) (flags fs fe : UInt8) (out : BPtr)
    (h : out.off ≤ out.buf.length) :
    blake3_hash8_avx512 inputs blocks key c incr flags fs fe out
      = wr out 0 (hashBytes inputs blocks key c incr flags fs fe 8) := by
  rw [hash8_shape, wrAll_flatten 32 _ _ out 0 h]
  · unfold hashBytes
    rw [vec8_eta' (transpose_vecs_256 _)]
    simp only [Vector.toList_mk, List.map_cons, List.map_nil, transpose_vecs_256_row_nat, hash8H_lane]
    rfl
  · intro x hx
    rw [List.mem_map] at hx
    obtain ⟨y, _, rfl⟩ := hx
    exact length_bytesOfWords _

end B3.Simd.C512
