/- `hash_one_avx512` and `blake3_hash_many_avx512` (four `while` loops: 16, 8, 4, 1 inputs per iteration) -/
import B3.Simd.CAvx512H16
import B3.Simd.CAvx512H8
import B3.Simd.CAvx512H4
import B3.Simd.CAvx512XofMany
namespace B3.Simd.C512
open B3 B3.Gen.CAvx512

/-! ### hash_one_avx512 -/

theorem Mem.add_word (p : Mem) (k o : Nat) : (Mem.add p k).word o = p.word (k + o) := by
  simp only [Mem.word, Mem.add, Nat.add_assoc]

theorem Mem.add_zero (p : Mem) : Mem.add p (64 * 0) = p := by
  funext i
  simp only [Mem.add, Nat.mul_zero, Nat.zero_add]

theorem Mem.add_add (p : Mem) (a b : Nat) : Mem.add (Mem.add p a) b = Mem.add p (a + b) := by
  funext i
  simp only [Mem.add, Nat.add_assoc]

theorem Mem.words_add (p : Mem) (j : Nat) : Mem.words (Mem.add p (64 * j)) 16 = blockOfMem p j := by
  unfold Mem.words blockOfMem
  simp only [Mem.add_word]

/-- state of the loop of `hash_one_avx512` after `j` of the `B` blocks -/
def OneInv (input : Mem) (B : Nat) (key : CV) (c : UInt64) (flags fs fe : UInt8) (s : Mem × Nat × CV × UInt8) : Prop :=
  ∃ j, j ≤ B ∧ s = (Mem.add input (64 * j), B - j, foldBlocksN key (blockOfMem input) B c flags fs fe j,
    if j = 0 then flags ||| fs else flags)

theorem hash_one_body (c : UInt64) (flags fe : UInt8) (input : Mem) (n : Nat) (cv : CV) (bf : UInt8) :
    hash_one_avx512_loop2 c flags fe (input, n, cv, bf)
      = (Mem.add input 64, n - 1,
         blake3_compress_in_place_avx512 cv (Mem.words input 16) 64 c (if n = 1 then bf ||| fe else bf), flags) := rfl

theorem hash_one_eq (input : Mem) (blocks : Nat) (key : CV) (c : UInt64) (flags fs fe : UInt8) (out : BPtr) :
    hash_one_avx512 input blocks key c flags fs fe out
      = wr out 0 (bytesOfWords (specHashBlocks key (blockOfMem input) blocks c flags fs fe)) := by
  have hsp := whileFuel_spec (OneInv input blocks key c flags fs fe) (fun s => s.2.1) hash_one_avx512_cond1
    (hash_one_avx512_loop2 c flags fe) (by
      intro s hP hc
      obtain ⟨j, hj, rfl⟩ := hP
      have hlt : blocks - j > 0 := by simpa [hash_one_avx512_cond1] using hc
      rw [hash_one_body]
      refine ⟨⟨j + 1, by omega, ?_⟩, by simp only; omega⟩
      rw [Mem.add_add, Mem.words_add, c512_compress_in_place_eq]
      have e1 : 64 * j + 64 = 64 * (j + 1) := by omega
      have e2 : blocks - j - 1 = blocks - (j + 1) := by omega
      have e3 : (blocks - j = 1) = (j + 1 = blocks) := by apply propext; omega
      have e4 : (if j + 1 = 0 then flags ||| fs else flags) = flags := by simp
      rw [e1, e2, e4]
      simp only [e3]
      rw [flags_step]
      unfold foldBlocksN
      rw [List.range_succ, List.foldl_append]
      rfl)
    (blocks + 1) (input, blocks, key, flags ||| fs) ⟨0, by omega, by rw [Mem.add_zero]; rfl⟩ (by simp)
  obtain ⟨⟨j, hj, hs⟩, hc⟩ := hsp
  have hfin : (whileFuel (blocks + 1) hash_one_avx512_cond1 (hash_one_avx512_loop2 c flags fe) (input, blocks, key, flags ||| fs)).2.2.1
      = specHashBlocks key (blockOfMem input) blocks c flags fs fe := by
    rw [hs] at hc ⊢
    have hj' : j = blocks := by
      have : ¬ (blocks - j > 0) := by simpa [hash_one_avx512_cond1] using hc
      omega
    subst hj'
    unfold foldBlocksN specHashBlocks flagsAt
    rfl
  unfold hash_one_avx512
  simp only []
  rw [hfin]
  rfl

/-! ### the four loops of blake3_hash_many_avx512 -/

theorem hashBytes_length (inputs : MemArr) (blocks : Nat) (key : CV) (c : UInt64) (incr : Bool) (flags fs fe : UInt8) (n : Nat) :
    (hashBytes inputs blocks key c incr flags fs fe n).length = 32 * n := by
  unfold hashBytes
  induction n with
  | zero => rfl
  | succ n ih =>
    rw [List.range_succ, List.flatMap_append, List.length_append, ih, List.flatMap_singleton, length_bytesOfWords]
    omega

theorem ctr64_ctr64 (c : UInt64) (incr : Bool) (d i : Nat) : ctr64 (ctr64 c incr d) incr i = ctr64 c incr (d + i) := by
  unfold ctr64
  cases incr
  · simp
  · simp only [if_true, UInt64.ofNat_add, UInt64.add_assoc]

theorem hashBytes_add (inputs : MemArr) (blocks : Nat) (key : CV) (c : UInt64) (incr : Bool) (flags fs fe : UInt8) (d k : Nat) :
    hashBytes inputs blocks key c incr flags fs fe d
        ++ hashBytes (MemArr.add inputs d) blocks key (ctr64 c incr d) incr flags fs fe k
      = hashBytes inputs blocks key c incr flags fs fe (d + k) := by
  unfold hashBytes
  rw [List.range_add, List.flatMap_append, List.flatMap_map]
  have hfg : (fun i => bytesOfWords (specHashBlocks key (blockOfMem (MemArr.add inputs d i)) blocks (ctr64 (ctr64 c incr d) incr i) flags fs fe))
      = (fun i => bytesOfWords (specHashBlocks key (blockOfMem (inputs (d + i))) blocks (ctr64 c incr (d + i)) flags fs fe)) := by
    funext i; rw [ctr64_ctr64]; rfl
  rw [hfg]

theorem hashBytes_one (inputs : MemArr) (blocks : Nat) (key : CV) (c : UInt64) (incr : Bool) (flags fs fe : UInt8) :
    hashBytes inputs blocks key c incr flags fs fe 1
      = bytesOfWords (specHashBlocks key (blockOfMem (inputs 0)) blocks c flags fs fe) := by
  have h0 : ctr64 c incr 0 = c := by
    unfold ctr64
    have : UInt64.ofNat 0 = 0 := rfl
    cases incr <;> simp [this]
  show List.flatMap _ [0] = _
  rw [List.flatMap_singleton, h0]

/-- writing `Y` right after `X` -/
theorem buf_step (p0 p : BPtr) (X Y : List UInt8) (hoff : p.off = p0.off + X.length)
    (hbuf : p.buf = p0.buf.take p0.off ++ X ++ p0.buf.drop (p0.off + X.length))
    (hin : p0.off + X.length ≤ p0.buf.length) :
    (wr p 0 Y).buf = p0.buf.take p0.off ++ (X ++ Y) ++ p0.buf.drop (p0.off + (X ++ Y).length) := by
  have hlenA : (p0.buf.take p0.off).length = p0.off := by rw [List.length_take]; omega
  rw [wr_buf, Nat.add_zero, hoff, hbuf]
  have hL : (List.take p0.off p0.buf ++ X).length = p0.off + X.length := by rw [List.length_append, hlenA]
  have t1 : List.take (p0.off + X.length) (List.take p0.off p0.buf ++ X ++ List.drop (p0.off + X.length) p0.buf)
      = List.take p0.off p0.buf ++ X := by
    rw [List.take_append_of_le_length (by rw [hL]; omega)]
    exact List.take_of_length_le (by rw [hL]; omega)
  have t2 : List.drop (p0.off + X.length + Y.length) (List.take p0.off p0.buf ++ X ++ List.drop (p0.off + X.length) p0.buf)
      = List.drop (p0.off + (X ++ Y).length) p0.buf := by
    have hnil : List.drop (p0.off + X.length + Y.length) (List.take p0.off p0.buf ++ X) = [] :=
      List.drop_of_length_le (by rw [hL]; omega)
    rw [List.drop_append (l₁ := List.take p0.off p0.buf ++ X), hnil, List.nil_append, hL, List.drop_drop, List.length_append]
    congr 1
    omega
  rw [t1, t2]
  simp only [List.append_assoc]

/-- state of the loops after `d` of the `n0` inputs -/
def HInv (blocks : Nat) (key : CV) (incr : Bool) (flags fs fe : UInt8) (inp0 : MemArr) (c0 : UInt64) (p0 : BPtr) (n0 : Nat)
    (s : MemArr × Nat × UInt64 × BPtr) : Prop :=
  ∃ d, s.1 = MemArr.add inp0 d ∧ s.2.1 + d = n0 ∧ s.2.2.1 = ctr64 c0 incr d ∧ s.2.2.2.off = p0.off + 32 * d ∧
    s.2.2.2.buf = p0.buf.take p0.off ++ hashBytes inp0 blocks key c0 incr flags fs fe d ++ p0.buf.drop (p0.off + 32 * d)

theorem MemArr.add_add (a : MemArr) (x y : Nat) : MemArr.add (MemArr.add a x) y = MemArr.add a (x + y) := by
  funext i
  simp only [MemArr.add, Nat.add_assoc]

theorem hloop (blocks : Nat) (key : CV) (incr : Bool) (flags fs fe : UInt8) (inp0 : MemArr) (c0 : UInt64) (p0 : BPtr) (n0 : Nat)
    (hp0 : p0.off + 32 * n0 ≤ p0.buf.length) (k : Nat) (hk : 0 < k) (ck : UInt64) (hck : ck = UInt64.ofNat k)
    (hf : MemArr → UInt64 → BPtr → BPtr)
    (hhf : ∀ inp c p, p.off ≤ p.buf.length → hf inp c p = wr p 0 (hashBytes inp blocks key c incr flags fs fe k))
    (cond : MemArr × Nat × UInt64 × BPtr → Bool) (body : MemArr × Nat × UInt64 × BPtr → MemArr × Nat × UInt64 × BPtr)
    (hcond : ∀ s, cond s = decide (k ≤ s.2.1))
    (hbody : ∀ inp n c p, body (inp, n, c, p)
      = (MemArr.add inp k, n - k, (if incr = true then c + ck else c), BPtr.add (BPtr.merge p (hf inp c p)) (32 * k)))
    (s : MemArr × Nat × UInt64 × BPtr) (hs : HInv blocks key incr flags fs fe inp0 c0 p0 n0 s) :
    HInv blocks key incr flags fs fe inp0 c0 p0 n0 (whileFuel (s.2.1 + 1) cond body s) ∧
      (whileFuel (s.2.1 + 1) cond body s).2.1 < k := by
  have := whileFuel_spec (HInv blocks key incr flags fs fe inp0 c0 p0 n0) (fun s => s.2.1) cond body (by
    intro s hP hc
    obtain ⟨inp, n, c, p⟩ := s
    rw [hcond] at hc
    have hn : k ≤ n := by simpa using hc
    rw [hbody]
    refine ⟨?_, by simp only; omega⟩
    obtain ⟨d, h1, h2, h3, h4, h5⟩ := hP
    simp only at h1 h2 h3 h4 h5
    have hplen : p.buf.length = p0.buf.length := by
      have hlenA : (p0.buf.take p0.off).length = p0.off := by rw [List.length_take]; omega
      rw [h5]; simp only [List.length_append, hlenA, hashBytes_length, List.length_drop]; omega
    refine ⟨d + k, ?_, ?_, ?_, ?_, ?_⟩
    · simp only [h1, MemArr.add_add]
    · simp only; omega
    · show (if incr = true then c + ck else c) = ctr64 c0 incr (d + k)
      rw [h3, hck, ← ctr64_ctr64]
      unfold ctr64
      cases incr <;> simp
    · show p.off + 32 * k = p0.off + 32 * (d + k)
      omega
    · show (BPtr.merge p (hf inp c p)).buf = _
      rw [hhf inp c p (by omega)]
      show (wr p 0 (hashBytes inp blocks key c incr flags fs fe k)).buf = _
      rw [buf_step p0 p (hashBytes inp0 blocks key c0 incr flags fs fe d) _ (by rw [hashBytes_length]; exact h4)
        (by rw [hashBytes_length]; exact h5) (by rw [hashBytes_length]; omega), h1, h3, hashBytes_add, hashBytes_length])
    (s.2.1 + 1) s hs (by omega)
  refine ⟨this.1, ?_⟩
  have h2 := this.2
  rw [hcond] at h2
  simpa using h2

/-- **blake3_hash_many_avx512.**  If the `32 n` bytes at `out` lie inside the buffer, the function overwrites exactly
them with the chaining values of the `n` inputs in order -- input `i` (its `blocks` 64-byte blocks) hashed with
counter `counter + i` (wrapping) if `increment_counter`, else `counter` -- and changes nothing else. -/
theorem c512_hash_many_eq (inputs : MemArr) (n blocks : Nat) (key : CV) (counter : UInt64) (incr : Bool) (flags fs fe : UInt8)
    (out : BPtr) (h : out.off + 32 * n ≤ out.buf.length) :
    (blake3_hash_many_avx512 inputs n blocks key counter incr flags fs fe out).buf
      = out.buf.take out.off ++ hashBytes inputs blocks key counter incr flags fs fe n ++ out.buf.drop (out.off + 32 * n) := by
  have h0 : HInv blocks key incr flags fs fe inputs counter out n (inputs, n, counter, out) :=
    ⟨0, by funext i; simp only [MemArr.add, Nat.zero_add], by simp, by unfold ctr64; cases incr <;> simp <;> rfl, by simp, by simp [hashBytes]⟩
  obtain ⟨i1, _⟩ := hloop blocks key incr flags fs fe inputs counter out n h 16 (by omega) 16 rfl
    (fun inp c p => blake3_hash16_avx512 inp blocks key c incr flags fs fe p) (fun inp c p hp => hash16_eq inp blocks key c incr flags fs fe p hp)
    blake3_hash_many_avx512_cond1 (blake3_hash_many_avx512_loop2 blocks key incr flags fs fe) (fun _ => rfl) (fun _ _ _ _ => rfl) _ h0
  obtain ⟨i2, _⟩ := hloop blocks key incr flags fs fe inputs counter out n h 8 (by omega) 8 rfl
    (fun inp c p => blake3_hash8_avx512 inp blocks key c incr flags fs fe p) (fun inp c p hp => hash8_eq inp blocks key c incr flags fs fe p hp)
    blake3_hash_many_avx512_cond3 (blake3_hash_many_avx512_loop4 blocks key incr flags fs fe) (fun _ => rfl) (fun _ _ _ _ => rfl) _ i1
  obtain ⟨i3, _⟩ := hloop blocks key incr flags fs fe inputs counter out n h 4 (by omega) 4 rfl
    (fun inp c p => blake3_hash4_avx512 inp blocks key c incr flags fs fe p) (fun inp c p hp => hash4_eq inp blocks key c incr flags fs fe p hp)
    blake3_hash_many_avx512_cond5 (blake3_hash_many_avx512_loop6 blocks key incr flags fs fe) (fun _ => rfl) (fun _ _ _ _ => rfl) _ i2
  obtain ⟨i4, l4⟩ := hloop blocks key incr flags fs fe inputs counter out n h 1 (by omega) 1 rfl
    (fun inp c p => hash_one_avx512 (inp 0) blocks key c flags fs fe p)
    (fun inp c p hp => by rw [hash_one_eq, hashBytes_one])
    blake3_hash_many_avx512_cond7 (blake3_hash_many_avx512_loop8 blocks key incr flags fs fe) (fun _ => rfl) (fun _ _ _ _ => rfl) _ i3
  obtain ⟨d, _, hd, _, _, hbuf⟩ := i4
  have hdn : d = n := by omega
  rw [hdn] at hbuf
  exact hbuf

end B3.Simd.C512
