/- round pieces 1-2 of the generated SSE2 `compress_pre` against `Spec.round` (kernel-checked, ~13 s each) -/
import B3.Simd.Sse2Base
namespace B3.Simd.Sse2
open B3 B3.Simd B3.Gen.RsSse2

/-- round 1 of `compress_pre`: one `Spec.round` with the block in its original order; leaves the block
in grouped order -/
theorem round1_eq (s w : St) :
    compress_pre_round1 (rows8r s w)
      = rows8 (Spec.round s w) w := by
  unfold Spec.round
  rw [← roundWithA_eq]
  atoms16 s; atoms16 w
  kernel_rfl
theorem round2_eq (s w : St) :
    compress_pre_round2 (rows8 s w)
      = rows8 (Spec.round s (Spec.permute w)) (Spec.permute w) := by round_tac2 compress_pre_round2 s w

end B3.Simd.Sse2
