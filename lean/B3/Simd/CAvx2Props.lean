/-
The theorems about the C AVX2 kernels of c/blake3_avx2.c (as translated into `B3.Gen.CAvx2` by gen/ext_simd_c.py,
over the lane model `B3/Simd/Prim.lean` + `PrimC.lean` + `Prim256C.lean` of the intrinsics).  Every statement is
for ALL arguments.  Proofs: `B3/Simd/CAvx2*.lean`.  (The file has no single-block compression function.)
-/
import B3.Simd.CAvx2
import B3.Simd.CSse41Props
namespace B3.Simd
open B3.Simd.CI
open B3 B3.Gen.CAvx2
open B3.Gen.C (MSG_SCHEDULE)

/-! ### main theorems -/

/-- the four rotations of the C file (byte shuffles for 16 and 8, `or` of two shifts for 12 and 7) rotate every lane -/
theorem c_avx2_rotations (x : V8) :
    rot16 x = CAvx2.rotv8 16 x ∧ rot12 x = CAvx2.rotv8 12 x ∧ rot8 x = CAvx2.rotv8 8 x ∧ rot7 x = CAvx2.rotv8 7 x :=
  ⟨CAvx2.rot16_eq x, CAvx2.rot12_eq x, CAvx2.rot8_eq x, CAvx2.rot7_eq x⟩

/-- lane `l` of the 8-way `round_fn` is one round of the specification on lane `l` of the state, with the
message words of lane `l` taken in the order `MSG_SCHEDULE[r]`: eight independent rounds
(`lane8 l v = #v[v[0][l], …, v[15][l]]`) -/
theorem c_avx2_round_lane (v m : Vector V8 16) (r : Fin 7) :
    ∀ l : Fin 8, CAvx2.lane8 l (round_fn v m r)
      = Spec.roundWith (CAvx2.lane8 l v) (fun i => (CAvx2.lane8 l m)[MSG_SCHEDULE[r][i]]) :=
  fun l => CAvx2.round_lane l v m r

/-- in the vocabulary of the portable C code -/
theorem c_avx2_round_lane_portable (v m : Vector V8 16) (r : Fin 7) (l : Fin 8) :
    CAvx2.lane8 l (round_fn v m r) = Gen.C.round_fn (CAvx2.lane8 l v) (CAvx2.lane8 l m) r := by
  rw [c_avx2_round_lane, CSse41.c_round_with]

/-- the 8x8 transpose (32-bit unpacks, 64-bit unpacks, 128-bit permutes) -/
theorem c_avx2_transpose_vecs (vs : Vector V8 8) (i j : Fin 8) : (transpose_vecs vs)[i][j] = vs[j][i] :=
  CAvx2.transpose_vecs_get vs i j

/-- message vector `k`, lane `i` = little-endian word `k` of the 64 bytes at `block_offset` of input `i`
(whatever the uninitialised output array held) -/
theorem c_avx2_transpose_msg_vecs (inputs : PtrArr) (block_offset : Nat) (out : Vector V8 16) (k : Fin 16) (i : Fin 8) :
    (transpose_msg_vecs inputs block_offset out)[k][i] = (inputs i.val).word (block_offset + 4 * k.val) := by
  rw [← CAvx2.lane8_get, CAvx2.transpose_msg_vecs_lane, blockAt_get]

/-- lane `i` of the low / high counter vector = low / high 32 bits of `counter + i` (wrapping) when incrementing,
of `counter` otherwise -/
theorem c_avx2_load_counters (counter : UInt64) (incr : Bool) (lo hi : V8) (i : Fin 8) :
    (load_counters counter incr lo hi).1[i]
        = (counter + (if incr then UInt64.ofNat i.val else 0)).toUInt32 ∧
    (load_counters counter incr lo hi).2[i]
        = ((counter + (if incr then UInt64.ofNat i.val else 0)) >>> 32).toUInt32 :=
  CAvx2.load_counters_lane counter incr lo hi i

/-- `blake3_hash8_avx2` stores, at the output pointer, the eight chaining values one after the other (8 x 32 bytes;
every other byte of memory is unchanged) and leaves the pointer where it was; chaining value `i` is that of the
`blocks` blocks of input `i`, with counter `counter + i` (wrapping) when `increment_counter`, else `counter` -/
theorem c_avx2_hash8_eq (inputs : PtrArr) (blocks : Nat) (key : CV) (counter : UInt64) (incr : Bool)
    (flags flags_start flags_end : UInt8) (out : BytePtr) :
    blake3_hash8_avx2 inputs blocks key counter incr flags flags_start flags_end out
      = ⟨out.mem.write out.off ((List.range 8).flatMap fun i =>
            bytesOfWords (specHashBlocks key (blockOfMem (inputs i)) blocks
              (counter + (if incr then UInt64.ofNat i else 0)) flags flags_start flags_end)), out.off⟩ := by
  rw [CAvx2.hash8_eq_write, CAvx2.hash8_bytes, CSse41.outBytesC_eq_flatMap]
  simp only [CSse41.cvOfC_eq, advN_eq]

/-- **blake3_hash_many_avx2.**  For ANY number of inputs, block count, counter and flags: the memory after the call
is the memory before with the `32 * num_inputs` bytes at the output pointer replaced by the chaining values of the
inputs in order -- input `k` hashed with counter `counter + k` (wrapping) if `increment_counter`, else `counter` --
groups of eight through `blake3_hash8_avx2`, the rest through `blake3_hash_many_sse41` (the default build, in which
`BLAKE3_NO_SSE41` is not defined).  Exactly 32 bytes are written per input and nothing else. -/
theorem c_avx2_hash_many_eq (inputs : PtrArr) (num_inputs blocks : Nat) (key : CV) (counter : UInt64) (incr : Bool)
    (flags fs fe : UInt8) (out : BytePtr) :
    (blake3_hash_many_avx2 inputs num_inputs blocks key counter incr flags fs fe out).mem
      = out.mem.write out.off ((List.range num_inputs).flatMap fun k =>
          bytesOfWords (specHashBlocks key (blockOfMem (inputs k)) blocks
            (counter + (if incr then UInt64.ofNat k else 0)) flags fs fe)) := by
  rw [CAvx2.hash_many_eq, CSse41.outBytesC_eq_flatMap]
  simp only [CSse41.cvOfC_eq, advN_eq]

/-- everything outside `[out, out + 32 * num_inputs)` is unchanged -/
theorem c_avx2_hash_many_frame (inputs : PtrArr) (num_inputs blocks : Nat) (key : CV) (counter : UInt64) (incr : Bool)
    (flags fs fe : UInt8) (out : BytePtr) (j : Nat) (hj : j < out.off ∨ out.off + 32 * num_inputs ≤ j) :
    (blake3_hash_many_avx2 inputs num_inputs blocks key counter incr flags fs fe out).mem j = out.mem j := by
  rw [CAvx2.hash_many_eq]
  apply Mem.write_outside
  rw [CSse41.outBytesC_length]
  exact hj

/-- the `while` loop of `blake3_hash_many_avx2` ends because its condition becomes false -/
theorem c_avx2_hash_many_terminates (inputs : PtrArr) (num_inputs blocks : Nat) (key : CV) (counter : UInt64) (incr : Bool)
    (flags fs fe : UInt8) (out : BytePtr) :
    ∃ st, whileFuel (num_inputs + 1) blake3_hash_many_avx2_cond1
        (blake3_hash_many_avx2_loop2 blocks key incr flags fs fe) (out, counter, inputs, num_inputs) = st ∧
      blake3_hash_many_avx2_cond1 st = false :=
  (CAvx2.many_loop blocks key incr flags fs fe num_inputs out counter inputs (num_inputs + 1) (by omega)).2

/-- no input: memory is unchanged -/
example (inputs : PtrArr) (blocks : Nat) (key : CV) (counter : UInt64) (incr : Bool) (fl fs fe : UInt8) (out : BytePtr) :
    (blake3_hash_many_avx2 inputs 0 blocks key counter incr fl fs fe out).mem = out.mem := by
  rw [c_avx2_hash_many_eq]; exact Mem.write_nil _ _

/-- a non-trivial instance: eleven one-block inputs, 352 bytes are written at the output pointer -/
example (inputs : PtrArr) (key : CV) (counter : UInt64) (fl fs fe : UInt8) (out : BytePtr) :
    ∃ bs : List UInt8, bs.length = 352 ∧
      (blake3_hash_many_avx2 inputs 11 1 key counter true fl fs fe out).mem = out.mem.write out.off bs := by
  refine ⟨_, ?_, c_avx2_hash_many_eq inputs 11 1 key counter true fl fs fe out⟩
  simp [List.range_succ, bytesOfWords_length]

end B3.Simd
