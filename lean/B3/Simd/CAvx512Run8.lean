/- `round_fn8` (translated) is the interpretation of its statement list (kernel check) -/
import B3.Simd.CAvx512Base
import B3.Gen.CAvx512Prog
namespace B3.Simd.C512
open B3 B3.Gen.CAvx512

def ops8 : ROps V8 := ⟨add_256, xor_256, rot16_256, rot12_256, rot8_256, rot7_256⟩

theorem round_fn8_eq_run (v m : Vector V8 16) (r : Fin 7) :
    round_fn8 v m r = rrun ops8 round_fn8_prog v (schedN m r) := by
  unfold round_fn8 round_fn8_part1 round_fn8_part2
  kernel_rfl

end B3.Simd.C512
