/-
The theorems about the Wasm SIMD kernels of src/wasm32_simd.rs (as translated into `B3.Gen.RsWasm` by
gen/ext_simd_wasm.py, over the TRUSTED lane model `B3/Simd/WasmPrim.lean` of the `core::arch::wasm32` intrinsics;
memory model of `B3/Simd/Prim.lean`).  The kernels cannot be run on this machine: the theorems are about the
translated text and the lane model.  Every statement is for ALL arguments.  Proofs: `B3/Simd/Wasm*.lean`.  The reference functions
(`specHashBlocks`, `blockOfMem`, `blockOfBytes`, `specManyCV`, `lane`, `outCV`) are those of
`Sse41Props.lean` / `Sse41PropsMany.lean`.
-/
import B3.Simd.Sse41PropsMany
import B3.Simd.Wasm
namespace B3.Simd
open B3
open B3.Gen.Rs (MSG_SCHEDULE)

/-! ### main theorems -/

/-! #### `blend_epi16` -/

/-- the Wasm SIMD emulation `blend_epi16` (`i16x8` / `i16x8_splat` / `v128_and` / `i16x8_eq` / `v128_bitselect`) computes what
the SSE4.1 instruction `_mm_blend_epi16` (lane model of `Prim.lean`) computes, for every immediate (both ignore bits 8 and above) -/
theorem wasm_blend_epi16_eq (a b : V4) (imm8 : UInt32) :
    Gen.RsWasm.blend_epi16 a b imm8 = _mm_blend_epi16 a b imm8.toNat :=
  Wasm.blend_epi16_eq a b imm8

example (a b : V4) : Gen.RsWasm.blend_epi16 a b 0xCC = #v[a[0], b[1], a[2], b[3]] := by
  rw [wasm_blend_epi16_eq]; rfl

/-! #### rotations -/

/-- the four rotations of the Wasm file (`i8x16_shuffle::<2, 3, 0, 1, …>(a, a)` / `<1, 2, 3, 0, …>` for 16 and 8,
`v128_or(u32x4_shr(a, n), u32x4_shl(a, 32 - n))` with run-time counts for 12 and 7) rotate every lane right -/
theorem wasm_rotations (x : V4) :
    Gen.RsWasm.rot16 x = CI.rotv 16 x ∧ Gen.RsWasm.rot12 x = CI.rotv 12 x ∧
    Gen.RsWasm.rot8 x = CI.rotv 8 x ∧ Gen.RsWasm.rot7 x = CI.rotv 7 x :=
  ⟨Wasm.rot16_eq x, Wasm.rot12_eq x, Wasm.rot8_eq x, Wasm.rot7_eq x⟩

/-! #### single-block compression -/

/-- `compress_in_place` (Wasm SIMD) is the specification's compression function, first 8 words -/
theorem wasm_compress_in_place_eq (cv : CV) (block : St) (bl : UInt8) (t : UInt64) (fl : UInt8) :
    Gen.RsWasm.compress_in_place cv block bl t fl = first8 (Spec.compress cv block t bl.toUInt32 fl.toUInt32) :=
  Wasm.compress_in_place_eq cv block bl t fl

/-- `compress_xof` (Wasm SIMD) is the specification's compression function, all 16 words -/
theorem wasm_compress_xof_eq (cv : CV) (block : St) (bl : UInt8) (t : UInt64) (fl : UInt8) :
    Gen.RsWasm.compress_xof cv block bl t fl = Spec.compress cv block t bl.toUInt32 fl.toUInt32 :=
  Wasm.compress_xof_eq cv block bl t fl

/-- hence the Wasm SIMD and the portable Rust kernels agree -/
theorem wasm_compress_in_place_eq_portable (cv : CV) (block : St) (bl : UInt8) (t : UInt64) (fl : UInt8) :
    Gen.RsWasm.compress_in_place cv block bl t fl = Gen.Rs.compress_in_place cv block bl t fl := by
  rw [wasm_compress_in_place_eq, Proofs.rs_compress_in_place_eq]

theorem wasm_compress_xof_eq_portable (cv : CV) (block : St) (bl : UInt8) (t : UInt64) (fl : UInt8) :
    Gen.RsWasm.compress_xof cv block bl t fl = Gen.Rs.compress_xof cv block bl t fl := by
  rw [wasm_compress_xof_eq, Proofs.rs_compress_xof_eq]

/-- a concrete instance, evaluated by the kernel: IV, the all-zero block, length 0, counter 0, flags 0
(the value is what the real crate returns, see the run-time comparison) -/
example : bytesOfWords (Gen.RsWasm.compress_in_place Spec.IV (Vector.replicate 16 0) 0 0 0)
    = [0xa0, 0xe7, 0x0a, 0x97, 0xc4, 0x1b, 0xa5, 0xd7, 0x78, 0xf8, 0xba, 0x5f, 0x79, 0x7f, 0xec, 0x1b,
       0x21, 0x2f, 0xe3, 0x4a, 0xde, 0x99, 0xad, 0x4c, 0x13, 0x00, 0x62, 0x1e, 0x54, 0x65, 0x13, 0x27] := by
  decide +kernel

/-! #### the 4-way round -/

/-- lane `l` of the 4-way `round` is one round of the specification on lane `l` of the state, with the
message words of lane `l` taken in the order `MSG_SCHEDULE[r]`: four independent rounds -/
theorem wasm_round_lane (v m : Vector V4 16) (r : Fin 7) :
    ∀ l : Fin 4, lane l (Gen.RsWasm.round v m r)
      = Spec.roundWith (lane l v) (fun i => (lane l m)[MSG_SCHEDULE[r][i]]) :=
  fun l => Wasm.round_lane l v m r

/-- in the vocabulary of the portable code: lane `l` of the 4-way round = the portable `round` on lane `l` -/
theorem wasm_round_lane_portable (v m : Vector V4 16) (r : Fin 7) (l : Fin 4) :
    lane l (Gen.RsWasm.round v m r) = Gen.Rs.round (lane l v) (lane l m) r := by
  rw [wasm_round_lane, Proofs.rs_round_with]

/-! #### transposes -/

theorem wasm_transpose_vecs (vs : Vector V4 4) (i j : Fin 4) :
    (Gen.RsWasm.transpose_vecs vs)[i][j] = vs[j][i] :=
  Wasm.transpose_vecs_get vs i j

/-- message vector `k`, lane `i` = little-endian word `k` of the 64 bytes at `block_offset` of input `i` -/
theorem wasm_transpose_msg_vecs (inputs : Vector Mem 4) (block_offset : Nat) (k : Fin 16) (i : Fin 4) :
    (Gen.RsWasm.transpose_msg_vecs inputs block_offset)[k][i] = (inputs[i]).word (block_offset + 4 * k.val) := by
  rw [← lane_get, Wasm.transpose_msg_vecs_lane, blockAt_get]

/-! #### counters -/

/-- lane `i` of the low / high counter vector = low / high 32 bits of `counter + i` (UInt64 wrapping `+`:
the Rust code would panic in a debug build if it wrapped) when incrementing, of `counter` otherwise -/
theorem wasm_load_counters (counter : UInt64) (incr : Bool) (i : Fin 4) :
    (Gen.RsWasm.load_counters counter incr).1[i]
        = (counter + (if incr then UInt64.ofNat i.val else 0)).toUInt32 ∧
    (Gen.RsWasm.load_counters counter incr).2[i]
        = ((counter + (if incr then UInt64.ofNat i.val else 0)) >>> 32).toUInt32 :=
  Wasm.load_counters_lane counter incr i

example : (Gen.RsWasm.load_counters 0xFFFFFFFF true).1 = #v[0xFFFFFFFF, 0, 1, 2] ∧
          (Gen.RsWasm.load_counters 0xFFFFFFFF true).2 = #v[0, 1, 1, 1] := by decide

/-! #### hash4 -/

/-- Output `i` of `hash4` (words `8i … 8i+7` of the 128 output bytes, whatever `out` held before) is the
chaining value of the `blocks` blocks of input `i` (`specHashBlocks`, `Sse41Props.lean`), with counter
`counter + i` (wrapping) when `increment_counter` and `counter` otherwise. -/
theorem wasm_hash4_eq (inputs : Vector Mem 4) (blocks : Nat) (key : CV) (counter : UInt64) (incr : Bool)
    (flags flags_start flags_end : UInt8) (out : Vector UInt32 32) (i : Fin 4) :
    outCV i (Gen.RsWasm.hash4 inputs blocks key counter incr flags flags_start flags_end out)
      = specHashBlocks key (blockOfMem inputs[i]) blocks
          (counter + (if incr then UInt64.ofNat i.val else 0)) flags flags_start flags_end := by
  rw [Wasm.hash4_lane]
  unfold foldBlocksN specHashBlocks flagsAt ctr
  simp only [blockAt_eq_blockOfMem]

/-- `blocks = 0`: the loop body never runs and `hash4` stores the key four times -/
example (inputs : Vector Mem 4) (key : CV) (counter : UInt64) (incr : Bool) (fl fs fe : UInt8)
    (out : Vector UInt32 32) (i : Fin 4) :
    outCV i (Gen.RsWasm.hash4 inputs 0 key counter incr fl fs fe out) = key := by
  rw [wasm_hash4_eq]; rfl

/-! #### hash1 and hash_many -/

/-- `hash1` = the reference fold over the blocks of its input, whose length is a multiple of 64 (the
`debug_assert`; otherwise the trailing partial block is ignored and `flags_end` is never applied) -/
theorem wasm_hash1_eq (N : Nat) (input : List UInt8) (key : CV) (counter : UInt64) (flags fs fe : UInt8) (out : CV)
    (h64 : input.length % 64 = 0) :
    Gen.RsWasm.hash1 N input key counter flags fs fe out
      = specHashBlocks key (blockOfBytes input) (input.length / 64) counter flags fs fe := by
  rw [Wasm.hash1_eq N input key counter flags fs fe out (input.length / 64) (by omega)]
  rfl

/-- **hash_many (Wasm SIMD).**  If every input has `N` bytes, `N` is a multiple of 64, the output slice lies inside
its buffer and has room for 32 bytes per input (the `debug_assert`), then `hash_many` overwrites bytes
`off … off + 32·count` of the buffer with the chaining values of the inputs in order -- input `k` hashed
with counter `counter + k` (wrapping) if `increment_counter`, else `counter` (`specManyCV`) -- and changes
nothing else.  (Satisfiable hypotheses: see the `example` below.) -/
theorem wasm_hash_many_eq (N : Nat) (inputs : List (List UInt8)) (key : CV) (counter : UInt64) (incr : Bool)
    (flags fs fe : UInt8) (out : MutSlice) (hN : ∀ x ∈ inputs, x.length = N) (h64 : N % 64 = 0)
    (hwf : out.off + out.len ≤ out.buf.length) (hlen : 32 * inputs.length ≤ out.len) :
    (Gen.RsWasm.hash_many N inputs key counter incr flags fs fe out).buf
      = out.buf.take out.off
        ++ (List.range inputs.length).flatMap (fun k => bytesOfWords (specManyCV N inputs key counter incr flags fs fe k))
        ++ out.buf.drop (out.off + 32 * inputs.length) := by
  rw [Wasm.hash_many_eq N inputs key counter incr flags fs fe out hN h64 hwf hlen, writeAt, outBytes_length,
    outBytes_eq_flatMap]
  simp only [cvOf, specManyCV, specHashBlocks, foldBlocksN, flagsAt, advN_eq]

/-- the hypotheses of `wasm_hash_many_eq` are satisfiable and the conclusion is not vacuous: six two-block inputs (one
group of four through `hash4`, two through `hash1`), a 200-byte window at offset 8 of a 300-byte buffer: 192 bytes are
replaced by the six chaining values, bytes 0 … 7 and 200 … 299 are kept -/
example (key : CV) (counter : UInt64) (fl fs fe : UInt8) :
    ∃ cvs : List UInt8, cvs.length = 192 ∧
      (Gen.RsWasm.hash_many 128 (List.replicate 6 (List.replicate 128 0)) key counter true fl fs fe
        ⟨List.replicate 300 7, 8, 200⟩).buf = List.replicate 8 7 ++ cvs ++ List.replicate 100 7 := by
  have h := wasm_hash_many_eq 128 (List.replicate 6 (List.replicate 128 0)) key counter true fl fs fe
    ⟨List.replicate 300 7, 8, 200⟩ (by intro x hx; rw [List.eq_of_mem_replicate hx, List.length_replicate]) (by decide)
    (by show 8 + 200 ≤ (List.replicate 300 (7 : UInt8)).length; rw [List.length_replicate]; omega)
    (by show 32 * (List.replicate 6 (List.replicate 128 (0 : UInt8))).length ≤ 200; rw [List.length_replicate]; omega)
  refine ⟨(List.range 6).flatMap (fun k => bytesOfWords
    (specManyCV 128 (List.replicate 6 (List.replicate 128 0)) key counter true fl fs fe k)), ?_, ?_⟩
  · simp [List.range_succ, bytesOfWords_length]
  · rw [h]
    show List.take 8 (List.replicate 300 (7 : UInt8)) ++ _
      ++ List.drop (8 + 32 * (List.replicate 6 (List.replicate 128 (0 : UInt8))).length) (List.replicate 300 7) = _
    rw [List.take_replicate, List.length_replicate, List.drop_replicate, show min 8 300 = 8 from by decide,
      show 300 - (8 + 32 * 6) = 100 from by decide]
/-- the `while` loop of `hash_many` ends because its condition becomes false, not because of the iteration
bound of the translation -/
theorem wasm_hash_many_loop_exits (N : Nat) (inputs : List (List UInt8)) (key : CV) (counter : UInt64) (incr : Bool)
    (flags fs fe : UInt8) (out : MutSlice) (hN : ∀ x ∈ inputs, x.length = N) (h64 : N % 64 = 0)
    (hwf : out.off + out.len ≤ out.buf.length) (hlen : 32 * inputs.length ≤ out.len) :
    Gen.RsWasm.hash_many_cond1
      (whileFuel (inputs.length + 1) Gen.RsWasm.hash_many_cond1 (Gen.RsWasm.hash_many_loop2 N key incr flags fs fe)
        (out, counter, inputs)) = false := by
  obtain ⟨st, h1, h2⟩ := (Wasm.many_loop N key incr flags fs fe h64 inputs.length out counter inputs (inputs.length + 1)
    rfl hN hwf hlen (Nat.le_refl _)).2
  rw [h1]; exact h2

end B3.Simd
