/- `transpose_vecs_128`, `transpose_msg_vecs4`, `load_counters4` and `blake3_hash4_neon` (C) against the specification -/
import B3.Simd.CNeonWide
import B3.Simd.Sse41Hash4
namespace B3.Simd.CNeon
open B3.Simd.CI B3.Simd.Neon
open B3 B3.Simd B3.Gen.CNeon
open B3.Gen.C (MSG_SCHEDULE IV)

/-! ### transposes -/

theorem transpose_vecs_get (vs : Vector V4 4) (i j : Fin 4) : (transpose_vecs_128 vs)[i][j] = vs[j][i] := by
  rw [vec4_eta vs]
  generalize vs[0] = a; generalize vs[1] = b; generalize vs[2] = c; generalize vs[3] = d
  match i, j with
  | 0, 0 | 0, 1 | 0, 2 | 0, 3 | 1, 0 | 1, 1 | 1, 2 | 1, 3
  | 2, 0 | 2, 1 | 2, 2 | 2, 3 | 3, 0 | 3, 1 | 3, 2 | 3, 3 => rfl

/-- after the transposition, lane `i` of the 16 message vectors is the block of input `i`, whatever the
(uninitialised) array held before -/
theorem transpose_msg_vecs_lane (inputs : PtrArr) (off : Nat) (out : Vector V4 16) (i : Fin 4) :
    lane i (transpose_msg_vecs4 inputs off out) = blockAt (inputs i.val) off := by
  have hi : inputs i.val = (#v[inputs 0, inputs 1, inputs 2, inputs 3] : Vector Mem 4)[i] := by
    match i with
    | 0 | 1 | 2 | 3 => rfl
  rw [hi]
  unfold transpose_msg_vecs4
  generalize inputs 0 = p0; generalize inputs 1 = p1; generalize inputs 2 = p2; generalize inputs 3 = p3
  vatoms16 out
  match i with
  | 0 => kernel_rfl
  | 1 => kernel_rfl
  | 2 => kernel_rfl
  | 3 => kernel_rfl

/-! ### counters -/

/-- the two counter vectors, lane by lane: the NEON file computes them as the Rust code does, in 64 bits
(`counter + (mask & k)` with `mask` = all ones or zero), whatever the (uninitialised) output objects held -/
theorem load_counters_lane (counter : UInt64) (incr : Bool) (a b : V4) (i : Fin 4) :
    (load_counters4 counter incr a b).1[i] = (ctr counter incr i).toUInt32 ∧
    (load_counters4 counter incr a b).2[i] = ((ctr counter incr i) >>> 32).toUInt32 := by
  cases incr <;> (match i with | 0 | 1 | 2 | 3 => exact ⟨rfl, rfl⟩)

/-! ### hash4 -/

theorem lane_init' (i : Fin 4) (hv : Vector V4 8) (lo hi : V4) (bl fl : UInt32) :
    lane i #v[hv[0], hv[1], hv[2], hv[3], hv[4], hv[5], hv[6], hv[7],
              set1_128 IV[0], set1_128 IV[1], set1_128 IV[2], set1_128 IV[3], lo, hi, set1_128 bl, set1_128 fl]
      = #v[hv[0][i], hv[1][i], hv[2][i], hv[3][i], hv[4][i], hv[5][i], hv[6][i], hv[7][i],
           IV[0], IV[1], IV[2], IV[3], lo[i], hi[i], bl, fl] := by
  vatoms8 hv
  match i with
  | 0 | 1 | 2 | 3 => rfl

/-- lane `i` of the initial 4-way state is the specification's initial state of input `i` -/
theorem lane_init (i : Fin 4) (hv : Vector V4 8) (lo hi : V4) (t : UInt64) (bl fl : UInt32)
    (hlo : lo[i] = t.toUInt32) (hhi : hi[i] = (t >>> 32).toUInt32) :
    lane i #v[hv[0], hv[1], hv[2], hv[3], hv[4], hv[5], hv[6], hv[7],
              set1_128 IV[0], set1_128 IV[1], set1_128 IV[2], set1_128 IV[3], lo, hi, set1_128 bl, set1_128 fl]
      = Spec.initState (cvLane i hv) t bl fl := by
  rw [lane_init', hlo, hhi]
  unfold Spec.initState cvLane
  rw [← Proofs.c_iv]
  rfl

/-- the output transformation `h_vecs[j] = xor_128(v[j], v[j+8])`, lane by lane -/
theorem cvLane_out (i : Fin 4) (hv : Vector V4 8) (v : Vector V4 16) (cv : CV) :
    cvLane i ((((((((hv.set 0 (xor_128 v[0] v[8])).set 1 (xor_128 v[1] v[9])).set 2 (xor_128 v[2] v[10])).set 3 (xor_128 v[3] v[11])).set 4
        (xor_128 v[4] v[12])).set 5 (xor_128 v[5] v[13])).set 6 (xor_128 v[6] v[14])).set 7 (xor_128 v[7] v[15]))
      = first8 (Spec.feedForward cv (lane i v)) := by
  vatoms8 hv; vatoms16 v
  match i with
  | 0 => kernel_rfl
  | 1 => kernel_rfl
  | 2 => kernel_rfl
  | 3 => kernel_rfl

/-- one iteration of the block loop of `blake3_hash4_neon` -/
theorem loop_body (inputs : PtrArr) (blocks : Nat) (flags fe : UInt8) (lo hi : V4)
    (bf : UInt8) (hv : Vector V4 8) (b : Nat) :
    (blake3_hash4_neon_loop1 inputs blocks flags fe lo hi (bf, hv) b).1 = flags ∧
    ∀ (i : Fin 4) (t : UInt64), lo[i] = t.toUInt32 → hi[i] = (t >>> 32).toUInt32 →
      cvLane i (blake3_hash4_neon_loop1 inputs blocks flags fe lo hi (bf, hv) b).2
        = first8 (Spec.compress (cvLane i hv) (blockAt (inputs i.val) (b * 64)) t 64
            (if b + 1 = blocks then bf ||| fe else bf).toUInt32) := by
  refine ⟨rfl, ?_⟩
  intro i t hlo hhi
  unfold blake3_hash4_neon_loop1 Spec.compress
  simp only []
  rw [cvLane_out i _ _ (cvLane i hv), rounds_lane, transpose_msg_vecs_lane, lane_init i hv lo hi t _ _ hlo hhi]

/-- the loop of `blake3_hash4_neon` after `n` iterations -/
theorem loop_inv (inputs : PtrArr) (blocks : Nat) (flags fs fe : UInt8) (lo hi : V4) (hv0 : Vector V4 8) (n : Nat) :
    ((List.range n).foldl (blake3_hash4_neon_loop1 inputs blocks flags fe lo hi) (flags ||| fs, hv0)).1
        = (if n = 0 then flags ||| fs else flags) ∧
    ∀ (i : Fin 4) (t : UInt64), lo[i] = t.toUInt32 → hi[i] = (t >>> 32).toUInt32 →
      cvLane i ((List.range n).foldl (blake3_hash4_neon_loop1 inputs blocks flags fe lo hi) (flags ||| fs, hv0)).2
        = foldBlocksN (cvLane i hv0) (fun b => blockAt (inputs i.val) (b * 64)) blocks t flags fs fe n := by
  induction n with
  | zero => exact ⟨rfl, fun _ _ _ _ => rfl⟩
  | succ n ih =>
    obtain ⟨ih1, ih2⟩ := ih
    rw [List.range_succ, List.foldl_append]
    generalize (List.range n).foldl (blake3_hash4_neon_loop1 inputs blocks flags fe lo hi) (flags ||| fs, hv0) = L at ih1 ih2 ⊢
    obtain ⟨bf, hv⟩ := L
    simp only at ih1 ih2
    simp only [List.foldl_cons, List.foldl_nil]
    obtain ⟨b1, b2⟩ := loop_body inputs blocks flags fe lo hi bf hv n
    refine ⟨by rw [b1]; simp, ?_⟩
    intro i t hlo hhi
    rw [b2 i t hlo hhi, ih2 i t hlo hhi, ih1, flags_step]
    unfold foldBlocksN
    rw [List.range_succ, List.foldl_append]
    rfl

/-- the initial chaining-value vectors and the loop of `blake3_hash4_neon` -/
def hash4Loop (inputs : PtrArr) (blocks : Nat) (key : CV) (counter : UInt64) (incr : Bool) (flags fs fe : UInt8) :
    UInt8 × Vector V4 8 :=
  (List.range blocks).foldl
    (blake3_hash4_neon_loop1 inputs blocks flags fe (load_counters4 counter incr uninit uninit).1
      (load_counters4 counter incr uninit uninit).2)
    (flags ||| fs, #v[set1_128 key[0], set1_128 key[1], set1_128 key[2], set1_128 key[3], set1_128 key[4], set1_128 key[5], set1_128 key[6], set1_128 key[7]])

/-- eight adjacent 16-byte stores are one 128-byte store -/
theorem store8 (m : Mem) (a : Nat) (v0 v1 v2 v3 v4 v5 v6 v7 : V4) :
    ((((((((m.write (a + 0) (bytesOfWords v0)).write (a + 16) (bytesOfWords v1)).write (a + 32) (bytesOfWords v2)).write (a + 48)
      (bytesOfWords v3)).write (a + 64) (bytesOfWords v4)).write (a + 80) (bytesOfWords v5)).write (a + 96) (bytesOfWords v6)).write
      (a + 112) (bytesOfWords v7))
      = m.write a (bytesOfWords v0 ++ bytesOfWords v1 ++ bytesOfWords v2 ++ bytesOfWords v3 ++ bytesOfWords v4
          ++ bytesOfWords v5 ++ bytesOfWords v6 ++ bytesOfWords v7) := by
  have len : ∀ v : V4, (bytesOfWords v).length = 16 := fun v => by rw [v4_eta v]; rfl
  have step : ∀ (xs : List UInt8) (k : Nat) (v : V4), xs.length = k →
      (m.write a xs).write (a + k) (bytesOfWords v) = m.write a (xs ++ bytesOfWords v) := by
    intro xs k v hk; subst hk; exact Mem.write_write_adj m a xs _
  rw [Nat.add_zero, step _ 16 v1 (len v0), step _ 32 v2 (by simp [len]), step _ 48 v3 (by simp [len]),
    step _ 64 v4 (by simp [len]), step _ 80 v5 (by simp [len]), step _ 96 v6 (by simp [len]), step _ 112 v7 (by simp [len])]

/-- the bytes of the four transposed halves in the order in which they are stored = the four chaining values -/
theorem out_bytes (hv : Vector V4 8) :
    bytesOfWords (transpose_vecs_128 (slice4 hv 0))[0] ++ bytesOfWords (transpose_vecs_128 (slice4 hv 4))[0]
        ++ bytesOfWords (transpose_vecs_128 (slice4 hv 0))[1] ++ bytesOfWords (transpose_vecs_128 (slice4 hv 4))[1]
        ++ bytesOfWords (transpose_vecs_128 (slice4 hv 0))[2] ++ bytesOfWords (transpose_vecs_128 (slice4 hv 4))[2]
        ++ bytesOfWords (transpose_vecs_128 (slice4 hv 0))[3] ++ bytesOfWords (transpose_vecs_128 (slice4 hv 4))[3]
      = bytesOfWords (outWords hv) := by
  vatoms8 hv
  kernel_rfl

/-- what follows the loop (two 4x4 transposes, eight stores) writes the four chaining values one after the
other at the output pointer: 128 bytes, nothing else; the pointer itself is unchanged -/
theorem hash4_eq_write (inputs : PtrArr) (blocks : Nat) (key : CV) (counter : UInt64) (incr : Bool)
    (flags fs fe : UInt8) (out : BytePtr) :
    blake3_hash4_neon inputs blocks key counter incr flags fs fe out
      = ⟨out.mem.write out.off (bytesOfWords (outWords (hash4Loop inputs blocks key counter incr flags fs fe).2)), out.off⟩ := by
  unfold blake3_hash4_neon hash4Loop
  simp only []
  generalize (List.range blocks).foldl _ _ = L
  obtain ⟨bf, hv⟩ := L
  simp only [storeu_ptr]
  rw [store8]
  apply congrArg (fun bs => BytePtr.mk (out.mem.write out.off bs) out.off)
  vatoms8 hv
  kernel_rfl

theorem cvLane_key (i : Fin 4) (key : CV) :
    cvLane i #v[set1_128 key[0], set1_128 key[1], set1_128 key[2], set1_128 key[3], set1_128 key[4], set1_128 key[5], set1_128 key[6], set1_128 key[7]] = key := by
  conv => rhs; rw [Proofs.vec8_eta key]
  match i with
  | 0 | 1 | 2 | 3 => rfl

/-- chaining value `i` left by the loop of `blake3_hash4_neon` is the specification's fold over the blocks of input `i` -/
theorem hash4Loop_lane (inputs : PtrArr) (blocks : Nat) (key : CV) (counter : UInt64) (incr : Bool)
    (flags fs fe : UInt8) (i : Fin 4) :
    outCV i (outWords (hash4Loop inputs blocks key counter incr flags fs fe).2)
      = foldBlocksN key (fun b => blockAt (inputs i.val) (b * 64)) blocks (ctr counter incr i) flags fs fe blocks := by
  rw [outCV_outWords]
  unfold hash4Loop
  have h := (loop_inv inputs blocks flags fs fe (load_counters4 counter incr uninit uninit).1 (load_counters4 counter incr uninit uninit).2
    #v[set1_128 key[0], set1_128 key[1], set1_128 key[2], set1_128 key[3], set1_128 key[4], set1_128 key[5], set1_128 key[6], set1_128 key[7]] blocks).2
    i (ctr counter incr i) (load_counters_lane counter incr _ _ i).1 (load_counters_lane counter incr _ _ i).2
  rw [h, cvLane_key]

end B3.Simd.CNeon
