/-
Bit-level facts used by the proofs about the C intrinsics kernels: the four rotations as the C files
compute them (byte shuffles, 16-bit shuffles, `xor` of the two shifted halves instead of `or`) equal
`rotr`; the signed-compare trick of `load_counters`; stores into byte-addressed memory.
No generated code is mentioned here.
-/
import B3.Simd.PrimC
namespace B3.Simd.CI
open B3

/-! ### lane-wise rotation, the reference form -/

/-- every lane rotated right by `n` -/
def rotv (n : UInt32) (x : V4) : V4 := #v[rotr x[0] n, rotr x[1] n, rotr x[2] n, rotr x[3] n]

theorem v4_eta (s : V4) : s = #v[s[0], s[1], s[2], s[3]] := by
  apply Vector.ext
  intro i hi
  match i, hi with
  | 0, _ | 1, _ | 2, _ | 3, _ => rfl
  | n + 4, h => omega

/-! ### `xor` of disjoint shifts is `or` -/

theorem bv_xor_eq_or {w} (a b : BitVec w) (h : a &&& b = 0#w) : a ^^^ b = a ||| b := by
  apply BitVec.eq_of_getLsbD_eq
  intro i hi
  have h2 : (a &&& b).getLsbD i = false := by rw [h]; simp
  rw [BitVec.getLsbD_and] at h2
  rw [BitVec.getLsbD_xor, BitVec.getLsbD_or]
  cases ha : a.getLsbD i <;> cases hb : b.getLsbD i <;> simp_all

theorem shr_and_shl (x : BitVec 32) (n : Nat) (hn : n ≤ 32) : (x >>> n) &&& (x <<< (32 - n)) = 0#32 := by
  apply BitVec.eq_of_getLsbD_eq
  intro i hi
  simp only [BitVec.getLsbD_and, BitVec.getLsbD_ushiftRight, BitVec.getLsbD_shiftLeft, BitVec.getLsbD_zero]
  by_cases h : i < 32 - n
  · simp [h]
  · have : 32 ≤ n + i := by omega
    simp [BitVec.getLsbD_of_ge _ _ this]

theorem xor_rot12 (x : UInt32) : srl32 x 12 ^^^ sll32 x 20 = rotr x 12 := by
  show (x >>> 12) ^^^ (x <<< 20) = (x >>> 12) ||| (x <<< 20)
  apply UInt32.toBitVec_inj.mp
  simp only [UInt32.toBitVec_xor, UInt32.toBitVec_or, UInt32.toBitVec_shiftRight, UInt32.toBitVec_shiftLeft]
  exact bv_xor_eq_or _ _ (shr_and_shl x.toBitVec 12 (by omega))

theorem xor_rot7 (x : UInt32) : srl32 x 7 ^^^ sll32 x 25 = rotr x 7 := by
  show (x >>> 7) ^^^ (x <<< 25) = (x >>> 7) ||| (x <<< 25)
  apply UInt32.toBitVec_inj.mp
  simp only [UInt32.toBitVec_xor, UInt32.toBitVec_or, UInt32.toBitVec_shiftRight, UInt32.toBitVec_shiftLeft]
  exact bv_xor_eq_or _ _ (shr_and_shl x.toBitVec 7 (by omega))

theorem xor_rot8 (x : UInt32) : srl32 x 8 ^^^ sll32 x 24 = rotr x 8 := by
  show (x >>> 8) ^^^ (x <<< 24) = (x >>> 8) ||| (x <<< 24)
  apply UInt32.toBitVec_inj.mp
  simp only [UInt32.toBitVec_xor, UInt32.toBitVec_or, UInt32.toBitVec_shiftRight, UInt32.toBitVec_shiftLeft]
  exact bv_xor_eq_or _ _ (shr_and_shl x.toBitVec 8 (by omega))

/-! ### rotations by whole bytes / half words, arithmetically -/

theorem rotr_toNat16 (x : UInt32) : (rotr x 16).toNat = x.toNat / 65536 + (x.toNat % 65536) * 65536 := by
  have hx := x.toNat_lt
  unfold rotr
  simp only [UInt32.toNat_or, UInt32.toNat_shiftRight, UInt32.toNat_shiftLeft]
  have e1 : (16 : UInt32).toNat % 32 = 16 := by decide
  have e2 : ((32 : UInt32) - 16).toNat % 32 = 16 := by decide
  rw [e1, e2, Nat.shiftRight_eq_div_pow, Nat.shiftLeft_eq]
  have h3 : x.toNat * 2 ^ 16 % 2 ^ 32 = 2 ^ 16 * (x.toNat % 65536) := by omega
  rw [h3, Nat.or_comm, ← Nat.two_pow_add_eq_or_of_lt (by omega)]
  omega

theorem rotr_toNat8 (x : UInt32) : (rotr x 8).toNat = x.toNat / 256 + (x.toNat % 256) * 16777216 := by
  have hx := x.toNat_lt
  unfold rotr
  simp only [UInt32.toNat_or, UInt32.toNat_shiftRight, UInt32.toNat_shiftLeft]
  have e1 : (8 : UInt32).toNat % 32 = 8 := by decide
  have e2 : ((32 : UInt32) - 8).toNat % 32 = 24 := by decide
  rw [e1, e2, Nat.shiftRight_eq_div_pow, Nat.shiftLeft_eq]
  have h3 : x.toNat * 2 ^ 24 % 2 ^ 32 = 2 ^ 24 * (x.toNat % 256) := by omega
  rw [h3, Nat.or_comm, ← Nat.two_pow_add_eq_or_of_lt (by omega)]
  omega

theorem le32_toNat (b0 b1 b2 b3 : UInt8) :
    (le32 b0 b1 b2 b3).toNat = b0.toNat + 256 * b1.toNat + 65536 * b2.toNat + 16777216 * b3.toNat := by
  have h0 := b0.toNat_lt; have h1 := b1.toNat_lt; have h2 := b2.toNat_lt; have h3 := b3.toNat_lt
  simp only [le32, UInt32.toNat_ofNat']
  omega

theorem byteOf_toNat (w : UInt32) (i : Nat) : (byteOf w i).toNat = w.toNat / 256 ^ i % 256 := by
  simp only [byteOf, UInt8.toNat_ofNat']
  omega

/-- the four bytes of a word as numbers -/
theorem bytes_nat (n : Nat) (h : n < 4294967296) :
    ∃ b0 b1 b2 b3, b0 < 256 ∧ b1 < 256 ∧ b2 < 256 ∧ b3 < 256 ∧
      n = b0 + 256 * b1 + 65536 * b2 + 16777216 * b3 ∧
      n / 256 ^ 0 % 256 = b0 ∧ n / 256 ^ 1 % 256 = b1 ∧ n / 256 ^ 2 % 256 = b2 ∧ n / 256 ^ 3 % 256 = b3 :=
  ⟨n % 256, n / 256 % 256, n / 65536 % 256, n / 16777216, by omega, by omega, by omega, by omega, by omega,
    by omega, by omega, by omega, by omega⟩

/-- bytes 2 3 0 1 of a word: the word rotated by 16 -/
theorem bytes_rot16 (x : UInt32) : le32 (byteOf x 2) (byteOf x 3) (byteOf x 0) (byteOf x 1) = rotr x 16 := by
  apply UInt32.toNat_inj.mp
  obtain ⟨b0, b1, b2, b3, h0, h1, h2, h3, hn, e0, e1, e2, e3⟩ := bytes_nat x.toNat x.toNat_lt
  rw [rotr_toNat16, le32_toNat, byteOf_toNat, byteOf_toNat, byteOf_toNat, byteOf_toNat, e0, e1, e2, e3, hn]
  omega

/-- bytes 1 2 3 0 of a word: the word rotated by 8 -/
theorem bytes_rot8 (x : UInt32) : le32 (byteOf x 1) (byteOf x 2) (byteOf x 3) (byteOf x 0) = rotr x 8 := by
  apply UInt32.toNat_inj.mp
  obtain ⟨b0, b1, b2, b3, h0, h1, h2, h3, hn, e0, e1, e2, e3⟩ := bytes_nat x.toNat x.toNat_lt
  rw [rotr_toNat8, le32_toNat, byteOf_toNat, byteOf_toNat, byteOf_toNat, byteOf_toNat, e0, e1, e2, e3, hn]
  omega

/-- the two halves of a word swapped: the word rotated by 16 -/
theorem le16x2_toNat (lo hi : UInt16) : (le16x2 lo hi).toNat = lo.toNat + 65536 * hi.toNat := by
  have h0 := lo.toNat_lt; have h1 := hi.toNat_lt
  simp only [le16x2, UInt32.toNat_ofNat']
  omega

theorem halfOf_toNat (w : UInt32) (i : Nat) : (halfOf w i).toNat = w.toNat / 65536 ^ i % 65536 := by
  simp only [halfOf, UInt16.toNat_ofNat']
  omega

theorem halves_nat (n : Nat) (h : n < 4294967296) :
    ∃ l u, l < 65536 ∧ u < 65536 ∧ n = l + 65536 * u ∧ n / 65536 ^ 0 % 65536 = l ∧ n / 65536 ^ 1 % 65536 = u :=
  ⟨n % 65536, n / 65536, by omega, by omega, by omega, by omega, by omega⟩

theorem halves_rot16 (x : UInt32) : le16x2 (halfOf x 1) (halfOf x 0) = rotr x 16 := by
  apply UInt32.toNat_inj.mp
  obtain ⟨l, u, hl, hu, hn, e0, e1⟩ := halves_nat x.toNat x.toNat_lt
  rw [rotr_toNat16, le16x2_toNat, halfOf_toNat, halfOf_toNat, e0, e1, hn]
  omega

/-! ### byte shuffles with a known control register -/

theorem shufb_lit (a : V4) (c : UInt8) (k : Nat) (h : (c &&& 0x80 = 0x80) = False ∧ (c &&& 15).toNat = k) :
    shufb a c = byte16 a k := by
  unfold shufb
  rw [h.2]
  simp only [h.1, if_false]

/-- control byte `j` of `m` selects byte `k` -/
def shufbOk (m : V4) (j k : Nat) : Prop := (byte16 m j &&& 0x80 = 0x80) = False ∧ (byte16 m j &&& 15).toNat = k

instance (m : V4) (j k : Nat) : Decidable (shufbOk m j k) := by unfold shufbOk; exact inferInstance

/-- a byte shuffle whose control bytes are known: control byte `j` selects byte `kj` -/
theorem shuffle_epi8_lit (x m : V4) (k0 k1 k2 k3 k4 k5 k6 k7 k8 k9 k10 k11 k12 k13 k14 k15 : Nat)
    (h : shufbOk m 0 k0 ∧ shufbOk m 1 k1 ∧ shufbOk m 2 k2 ∧ shufbOk m 3 k3 ∧ shufbOk m 4 k4 ∧ shufbOk m 5 k5 ∧ shufbOk m 6 k6 ∧ shufbOk m 7 k7 ∧ shufbOk m 8 k8 ∧ shufbOk m 9 k9 ∧ shufbOk m 10 k10 ∧ shufbOk m 11 k11 ∧ shufbOk m 12 k12 ∧ shufbOk m 13 k13 ∧ shufbOk m 14 k14 ∧ shufbOk m 15 k15) :
    _mm_shuffle_epi8 x m =
      #v[le32 (byte16 x k0) (byte16 x k1) (byte16 x k2) (byte16 x k3),
         le32 (byte16 x k4) (byte16 x k5) (byte16 x k6) (byte16 x k7),
         le32 (byte16 x k8) (byte16 x k9) (byte16 x k10) (byte16 x k11),
         le32 (byte16 x k12) (byte16 x k13) (byte16 x k14) (byte16 x k15)] := by
  obtain ⟨h0, h1, h2, h3, h4, h5, h6, h7, h8, h9, h10, h11, h12, h13, h14, h15⟩ := h
  have e0 : shufb x (byte16 m 0) = byte16 x k0 := shufb_lit x _ _ h0
  have e1 : shufb x (byte16 m 1) = byte16 x k1 := shufb_lit x _ _ h1
  have e2 : shufb x (byte16 m 2) = byte16 x k2 := shufb_lit x _ _ h2
  have e3 : shufb x (byte16 m 3) = byte16 x k3 := shufb_lit x _ _ h3
  have e4 : shufb x (byte16 m 4) = byte16 x k4 := shufb_lit x _ _ h4
  have e5 : shufb x (byte16 m 5) = byte16 x k5 := shufb_lit x _ _ h5
  have e6 : shufb x (byte16 m 6) = byte16 x k6 := shufb_lit x _ _ h6
  have e7 : shufb x (byte16 m 7) = byte16 x k7 := shufb_lit x _ _ h7
  have e8 : shufb x (byte16 m 8) = byte16 x k8 := shufb_lit x _ _ h8
  have e9 : shufb x (byte16 m 9) = byte16 x k9 := shufb_lit x _ _ h9
  have e10 : shufb x (byte16 m 10) = byte16 x k10 := shufb_lit x _ _ h10
  have e11 : shufb x (byte16 m 11) = byte16 x k11 := shufb_lit x _ _ h11
  have e12 : shufb x (byte16 m 12) = byte16 x k12 := shufb_lit x _ _ h12
  have e13 : shufb x (byte16 m 13) = byte16 x k13 := shufb_lit x _ _ h13
  have e14 : shufb x (byte16 m 14) = byte16 x k14 := shufb_lit x _ _ h14
  have e15 : shufb x (byte16 m 15) = byte16 x k15 := shufb_lit x _ _ h15
  unfold _mm_shuffle_epi8
  simp only [e0, e1, e2, e3, e4, e5, e6, e7, e8, e9, e10, e11, e12, e13, e14, e15]

theorem v4_congr {a b c d a' b' c' d' : UInt32} (h0 : a = a') (h1 : b = b') (h2 : c = c') (h3 : d = d') :
    (#v[a, b, c, d] : V4) = #v[a', b', c', d'] := by
  subst h0 h1 h2 h3; rfl

/-- byte `k` of a register given by its lanes -/
theorem byte16_lanes (a b c d : UInt32) :
    byte16 #v[a, b, c, d] 0 = byteOf a 0 ∧
    byte16 #v[a, b, c, d] 1 = byteOf a 1 ∧
    byte16 #v[a, b, c, d] 2 = byteOf a 2 ∧
    byte16 #v[a, b, c, d] 3 = byteOf a 3 ∧
    byte16 #v[a, b, c, d] 4 = byteOf b 0 ∧
    byte16 #v[a, b, c, d] 5 = byteOf b 1 ∧
    byte16 #v[a, b, c, d] 6 = byteOf b 2 ∧
    byte16 #v[a, b, c, d] 7 = byteOf b 3 ∧
    byte16 #v[a, b, c, d] 8 = byteOf c 0 ∧
    byte16 #v[a, b, c, d] 9 = byteOf c 1 ∧
    byte16 #v[a, b, c, d] 10 = byteOf c 2 ∧
    byte16 #v[a, b, c, d] 11 = byteOf c 3 ∧
    byte16 #v[a, b, c, d] 12 = byteOf d 0 ∧
    byte16 #v[a, b, c, d] 13 = byteOf d 1 ∧
    byte16 #v[a, b, c, d] 14 = byteOf d 2 ∧
    byte16 #v[a, b, c, d] 15 = byteOf d 3 := by
  refine ⟨rfl, rfl, rfl, rfl, rfl, rfl, rfl, rfl, rfl, rfl, rfl, rfl, rfl, rfl, rfl, rfl⟩

/-- 16-bit word `k` of a register given by its lanes -/
theorem word8_lanes (a b c d : UInt32) :
    word8 #v[a, b, c, d] 0 = halfOf a 0 ∧ word8 #v[a, b, c, d] 1 = halfOf a 1 ∧
    word8 #v[a, b, c, d] 2 = halfOf b 0 ∧ word8 #v[a, b, c, d] 3 = halfOf b 1 ∧
    word8 #v[a, b, c, d] 4 = halfOf c 0 ∧ word8 #v[a, b, c, d] 5 = halfOf c 1 ∧
    word8 #v[a, b, c, d] 6 = halfOf d 0 ∧ word8 #v[a, b, c, d] 7 = halfOf d 1 := by
  refine ⟨rfl, rfl, rfl, rfl, rfl, rfl, rfl, rfl⟩

/-- bitwise select with an all-zero / all-one mask -/
theorem sel_zero (a b : UInt32) : (0 &&& b) ||| (~~~ 0 &&& a) = a := by
  apply UInt32.toBitVec_inj.mp
  simp

theorem sel_ones (a b : UInt32) : (0xFFFFFFFF &&& b) ||| (~~~ 0xFFFFFFFF &&& a) = b := by
  apply UInt32.toBitVec_inj.mp
  have h1 : (0xFFFFFFFF : UInt32) = ~~~ 0 := by decide
  rw [h1]
  simp

/-! ### signed compare after flipping the sign bits = unsigned compare -/

theorem xor_signbit_nat (n : Nat) (h : n < 4294967296) :
    n ^^^ 2147483648 = if n < 2147483648 then n + 2147483648 else n - 2147483648 := by
  have hm : (n ^^^ 2147483648) % 2 ^ 31 = n % 2 ^ 31 := by
    rw [Nat.xor_mod_two_pow]
    simp
  have hd : (n ^^^ 2147483648) >>> 31 = (n >>> 31) ^^^ 1 := by
    rw [Nat.shiftRight_xor_distrib]
    rfl
  rw [Nat.shiftRight_eq_div_pow, Nat.shiftRight_eq_div_pow] at hd
  have hq : n / 2 ^ 31 = 0 ∨ n / 2 ^ 31 = 1 := by omega
  rcases hq with hq | hq
  · rw [hq] at hd
    have : (0 : Nat) ^^^ 1 = 1 := by decide
    rw [this] at hd
    split <;> omega
  · rw [hq] at hd
    have : (1 : Nat) ^^^ 1 = 0 := by decide
    rw [this] at hd
    split <;> omega

theorem toInt_flip (a : UInt32) : (a ^^^ 0x80000000).toBitVec.toInt = (a.toNat : Int) - 2147483648 := by
  have ha := xor_signbit_nat a.toNat a.toNat_lt
  have e : (0x80000000 : UInt32).toNat = 2147483648 := by decide
  have ha' : (a ^^^ 0x80000000).toBitVec.toNat
      = if a.toNat < 2147483648 then a.toNat + 2147483648 else a.toNat - 2147483648 := by
    rw [← ha, ← e]; rfl
  have hx := a.toNat_lt
  rw [BitVec.toInt_eq_toNat_cond, ha']
  by_cases h : a.toNat < 2147483648
  · simp only [h, if_true]
    split <;> omega
  · simp only [h, if_false]
    split <;> omega

/-- `_mm_cmpgt_epi32(a ^ 0x80000000, b ^ 0x80000000)` is the unsigned `a > b` -/
theorem sgt32_flip (a b : UInt32) : sgt32 (a ^^^ 0x80000000) (b ^^^ 0x80000000) = decide (b < a) := by
  unfold sgt32 BitVec.slt
  rw [toInt_flip, toInt_flip]
  simp only [UInt32.lt_iff_toNat_lt]
  apply decide_eq_decide.mpr
  omega

/-- the carry trick of `load_counters`: low and high word of `counter + c` for a small constant `c` -/
theorem counter_add_words (counter : UInt64) (c : UInt32) (hc : c.toNat < 256) :
    counter.toUInt32 + c = (counter + c.toUInt64).toUInt32 ∧
    (counter >>> 32).toUInt32 - (if sgt32 (c ^^^ 0x80000000) ((counter.toUInt32 + c) ^^^ 0x80000000) then (0xFFFFFFFF : UInt32) else 0)
      = ((counter + c.toUInt64) >>> 32).toUInt32 := by
  have hx := counter.toNat_lt
  constructor
  · apply UInt32.toNat_inj.mp
    simp only [UInt32.toNat_add, UInt64.toNat_toUInt32, UInt64.toNat_add, UInt32.toNat_toUInt64]
    omega
  · rw [sgt32_flip]
    apply UInt32.toNat_inj.mp
    have hlo : (counter.toUInt32 + c).toNat = (counter.toNat % 4294967296 + c.toNat) % 4294967296 := by
      simp only [UInt32.toNat_add, UInt64.toNat_toUInt32]
    have e32 : (32 : UInt64).toNat % 64 = 32 := by decide
    by_cases hlt : counter.toUInt32 + c < c
    · have hlt' := UInt32.lt_iff_toNat_lt.mp hlt
      rw [hlo] at hlt'
      simp only [hlt, decide_true, if_true]
      have hff : (0xFFFFFFFF : UInt32).toNat = 4294967295 := by decide
      simp only [UInt32.toNat_sub, UInt64.toNat_toUInt32, UInt64.toNat_shiftRight, UInt64.toNat_add,
        UInt32.toNat_toUInt64, hff, e32, Nat.shiftRight_eq_div_pow]
      omega
    · have hlt' : ¬ (counter.toUInt32 + c).toNat < c.toNat := fun h => hlt (UInt32.lt_iff_toNat_lt.mpr h)
      rw [hlo] at hlt'
      simp only [hlt, decide_false, Bool.false_eq_true, if_false]
      simp only [UInt32.toNat_sub, UInt64.toNat_toUInt32, UInt64.toNat_shiftRight, UInt64.toNat_add,
        UInt32.toNat_toUInt64, e32, Nat.shiftRight_eq_div_pow]
      have h0 : (0 : UInt32).toNat = 0 := by decide
      rw [h0]
      omega

/-! ### stores into byte-addressed memory -/

theorem _root_.B3.Simd.Mem.write_nil (m : Mem) (a : Nat) : m.write a [] = m := by
  funext i
  simp only [Mem.write, List.length_nil, Nat.add_zero]
  have : ¬ (a ≤ i ∧ i < a) := by omega
  rw [if_neg this]

/-- two adjacent stores are one store of the concatenation -/
theorem _root_.B3.Simd.Mem.write_write_adj (m : Mem) (a : Nat) (xs ys : List UInt8) :
    (m.write a xs).write (a + xs.length) ys = m.write a (xs ++ ys) := by
  funext i
  simp only [Mem.write, List.length_append]
  by_cases h1 : a + xs.length ≤ i ∧ i < a + xs.length + ys.length
  · have h2 : a ≤ i ∧ i < a + (xs.length + ys.length) := by omega
    rw [if_pos h1, if_pos h2]
    have e : i - a = xs.length + (i - (a + xs.length)) := by omega
    rw [e, List.getD_eq_getElem?_getD, List.getD_eq_getElem?_getD, List.getElem?_append_right (by omega)]
    congr 2
    omega
  · rw [if_neg h1]
    by_cases h3 : a ≤ i ∧ i < a + xs.length
    · have h2 : a ≤ i ∧ i < a + (xs.length + ys.length) := by omega
      rw [if_pos h3, if_pos h2, List.getD_eq_getElem?_getD, List.getD_eq_getElem?_getD,
        List.getElem?_append_left (by omega)]
    · have h2 : ¬ (a ≤ i ∧ i < a + (xs.length + ys.length)) := by omega
      rw [if_neg h3, if_neg h2]

/-- a store changes nothing outside the stored range -/
theorem _root_.B3.Simd.Mem.write_outside (m : Mem) (a : Nat) (bs : List UInt8) (i : Nat) (h : i < a ∨ a + bs.length ≤ i) :
    (m.write a bs) i = m i := by
  have : ¬ (a ≤ i ∧ i < a + bs.length) := by omega
  simp only [Mem.write, this, if_false]

/-- inside the stored range a store yields the stored bytes -/
theorem _root_.B3.Simd.Mem.write_inside (m : Mem) (a : Nat) (bs : List UInt8) (j : Nat) (h : j < bs.length) :
    (m.write a bs) (a + j) = bs.getD j 0 := by
  have : a ≤ a + j ∧ a + j < a + bs.length := by omega
  simp only [Mem.write, this, and_self, if_true, Nat.add_sub_cancel_left]

end B3.Simd.CI
