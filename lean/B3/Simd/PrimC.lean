/-
Additions to the lane model `B3/Simd/Prim.lean` needed by the C intrinsics kernels
(c/blake3_sse41.c, c/blake3_sse2.c): the SSE2 / SSSE3 / SSE4.1 intrinsics those files use and the
Rust file does not, and the C view of memory (raw pointers without lengths).

THIS FILE IS TRUSTED, like `Prim.lean`: it states what the instructions do (Intel Intrinsics Guide
pseudo-code in the comments) and what a pointer is.  It is validated at run time by
`B3/Simd/RunC.lean` (the generated kernels evaluated with these definitions against the compiled C
files running on the CPU).

Conventions as in `Prim.lean`: a 128-bit register is four 32-bit lanes, lane 0 = bits 31:0; signed
elements (`int32_t`, `int16_t`, `char`) are represented by their bit patterns.  Byte `k` of a
register (k = 0 .. 15, bits 8k+7 : 8k) is byte `k % 4` of lane `k / 4`; 16-bit word `k`
(k = 0 .. 7) is half `k % 2` of lane `k / 2`.
-/
import B3.Prim
import B3.Arith
import B3.Simd.Prim
namespace B3.Simd.CI
open B3

/-! ### bytes and 16-bit words of a register -/

/-- byte `k` (0 = bits 7:0, … 15 = bits 127:120) of a register -/
def byte16 (a : V4) (k : Nat) : UInt8 := byteOf (select4 a (k >>> 2)) (k &&& 3)

/-- 16-bit half `i` (0 = low) of a 32-bit lane -/
def halfOf (w : UInt32) (i : Nat) : UInt16 := UInt16.ofNat (w.toNat / 65536 ^ i % 65536)

/-- a 32-bit lane from its two 16-bit halves -/
def le16x2 (lo hi : UInt16) : UInt32 := UInt32.ofNat (lo.toNat + 65536 * hi.toNat)

/-- 16-bit word `k` (0 = bits 15:0, … 7 = bits 127:112) of a register -/
def word8 (a : V4) (k : Nat) : UInt16 := halfOf (select4 a (k >>> 1)) (k &&& 1)

/-! ### logic, arithmetic, compare -/

/-- `dst[127:0] := (a[127:0] AND b[127:0])` -/
def _mm_and_si128 (a b : V4) : V4 := #v[a[0] &&& b[0], a[1] &&& b[1], a[2] &&& b[2], a[3] &&& b[3]]

/-- `dst[127:0] := ((NOT a[127:0]) AND b[127:0])` -/
def _mm_andnot_si128 (a b : V4) : V4 :=
  #v[~~~ a[0] &&& b[0], ~~~ a[1] &&& b[1], ~~~ a[2] &&& b[2], ~~~ a[3] &&& b[3]]

/-- `FOR j := 0 to 3: dst.dword[j] := a.dword[j] - b.dword[j]` (wrapping) -/
def _mm_sub_epi32 (a b : V4) : V4 := #v[a[0] - b[0], a[1] - b[1], a[2] - b[2], a[3] - b[3]]

/-- signed `a > b` on the bit patterns of two `int32_t`s -/
def sgt32 (a b : UInt32) : Bool := BitVec.slt b.toBitVec a.toBitVec

/-- `FOR j := 0 to 3: dst.dword[j] := (a.dword[j] > b.dword[j]) ? 0xFFFFFFFF : 0` (signed compare) -/
def _mm_cmpgt_epi32 (a b : V4) : V4 :=
  #v[if sgt32 a[0] b[0] then 0xFFFFFFFF else 0, if sgt32 a[1] b[1] then 0xFFFFFFFF else 0,
     if sgt32 a[2] b[2] then 0xFFFFFFFF else 0, if sgt32 a[3] b[3] then 0xFFFFFFFF else 0]

/-- one 16-bit element of `_mm_cmpeq_epi16` -/
def cmpeq16 (a b : UInt16) : UInt16 := if a = b then 0xFFFF else 0

/-- `FOR j := 0 to 7: dst.word[j] := (a.word[j] == b.word[j]) ? 0xFFFF : 0` -/
def _mm_cmpeq_epi16 (a b : V4) : V4 :=
  #v[le16x2 (cmpeq16 (word8 a 0) (word8 b 0)) (cmpeq16 (word8 a 1) (word8 b 1)),
     le16x2 (cmpeq16 (word8 a 2) (word8 b 2)) (cmpeq16 (word8 a 3) (word8 b 3)),
     le16x2 (cmpeq16 (word8 a 4) (word8 b 4)) (cmpeq16 (word8 a 5) (word8 b 5)),
     le16x2 (cmpeq16 (word8 a 6) (word8 b 6)) (cmpeq16 (word8 a 7) (word8 b 7))]

/-! ### set -/

/-- `dst[31:0] := e0; dst[63:32] := e1; dst[95:64] := e2; dst[127:96] := e3` (arguments highest first) -/
def _mm_set_epi32 (e3 e2 e1 e0 : UInt32) : V4 := #v[e0, e1, e2, e3]

/-- `dst[7:0] := e0; dst[15:8] := e1; …; dst[127:120] := e15` (arguments highest first) -/
def _mm_set_epi8 (e15 e14 e13 e12 e11 e10 e9 e8 e7 e6 e5 e4 e3 e2 e1 e0 : UInt8) : V4 :=
  #v[le32 e0 e1 e2 e3, le32 e4 e5 e6 e7, le32 e8 e9 e10 e11, le32 e12 e13 e14 e15]

/-- `dst[15:0] := e0; …; dst[127:112] := e7` (arguments highest first) -/
def _mm_set_epi16 (e7 e6 e5 e4 e3 e2 e1 e0 : UInt16) : V4 :=
  #v[le16x2 e0 e1, le16x2 e2 e3, le16x2 e4 e5, le16x2 e6 e7]

/-- `FOR j := 0 to 7: dst.word[j] := a` -/
def _mm_set1_epi16 (a : UInt16) : V4 := #v[le16x2 a a, le16x2 a a, le16x2 a a, le16x2 a a]

/-! ### byte and 16-bit shuffles -/

/-- one byte of `_mm_shuffle_epi8`: `IF c[7] THEN 0 ELSE a.byte[c[3:0]]` -/
def shufb (a : V4) (c : UInt8) : UInt8 := if c &&& 0x80 = 0x80 then 0 else byte16 a (c &&& 15).toNat

/-- `FOR j := 0 to 15: IF b.byte[j][7] THEN dst.byte[j] := 0 ELSE dst.byte[j] := a.byte[b.byte[j][3:0]]` -/
def _mm_shuffle_epi8 (a b : V4) : V4 :=
  #v[le32 (shufb a (byte16 b 0)) (shufb a (byte16 b 1)) (shufb a (byte16 b 2)) (shufb a (byte16 b 3)),
     le32 (shufb a (byte16 b 4)) (shufb a (byte16 b 5)) (shufb a (byte16 b 6)) (shufb a (byte16 b 7)),
     le32 (shufb a (byte16 b 8)) (shufb a (byte16 b 9)) (shufb a (byte16 b 10)) (shufb a (byte16 b 11)),
     le32 (shufb a (byte16 b 12)) (shufb a (byte16 b 13)) (shufb a (byte16 b 14)) (shufb a (byte16 b 15))]

/-- `dst[15:0] := (a >> (imm8[1:0] * 16))[15:0]; dst[31:16] := (a >> (imm8[3:2] * 16))[15:0];
dst[47:32] := (a >> (imm8[5:4] * 16))[15:0]; dst[63:48] := (a >> (imm8[7:6] * 16))[15:0]` on the low
64 bits; `dst[127:64] := a[127:64]` -/
def _mm_shufflelo_epi16 (a : V4) (imm8 : Nat) : V4 :=
  #v[le16x2 (word8 a (imm8 &&& 3)) (word8 a ((imm8 >>> 2) &&& 3)),
     le16x2 (word8 a ((imm8 >>> 4) &&& 3)) (word8 a ((imm8 >>> 6) &&& 3)), a[2], a[3]]

/-- the same on the high 64 bits (`dst[79:64] := (a[127:64] >> (imm8[1:0] * 16))[15:0]` …);
`dst[63:0] := a[63:0]` -/
def _mm_shufflehi_epi16 (a : V4) (imm8 : Nat) : V4 :=
  #v[a[0], a[1], le16x2 (word8 a (4 + (imm8 &&& 3))) (word8 a (4 + ((imm8 >>> 2) &&& 3))),
     le16x2 (word8 a (4 + ((imm8 >>> 4) &&& 3))) (word8 a (4 + ((imm8 >>> 6) &&& 3)))]

/-! ### memory as C sees it

* `const uint8_t *p` is `Mem` (`Prim.lean`): byte-addressed, offset 0 = the pointer; `p + k` / `&p[k]` is
  `Mem.add p k`.
* `const uint8_t *const *inputs` is `PtrArr`: entry `i` is the pointer `inputs[i]`; `inputs + k` is `PtrArr.add`.
* `uint8_t *out` (written through) is `BytePtr`: the memory and the offset of the pointer in it; a store
  changes `mem` only, `out + k` changes `off` only.  Memory is total (no bounds): the theorems say
  exactly which addresses a kernel changes.
* an array parameter `const uint8_t block[64]` / `uint8_t out[32]` / `uint32_t cv[8]` is the value of
  those bytes as little-endian words (`Vector UInt32 n`), read at the pointer by the caller and -- when
  the callee writes to it -- written back by the caller (`Mem.words`, `BytePtr.readWords/writeWords`).
* an uninitialised local (`__m128i rows[4];`) has the arbitrary value `uninit`: an opaque constant, so
  that nothing can be proved about it except what holds for every value.
-/

/-- `p + k` for a read-only byte pointer -/
def _root_.B3.Simd.Mem.add (p : Mem) (k : Nat) : Mem := fun i => p (k + i)

/-- the `n` little-endian words at byte offset `o` -/
def _root_.B3.Simd.Mem.words (n : Nat) (p : Mem) (o : Nat) : Vector UInt32 n := Vector.ofFn fun i : Fin n => p.word (o + 4 * i.val)

/-- an array of byte pointers seen through `const uint8_t *const *` -/
abbrev PtrArr := Nat → Mem

/-- `inputs + k` -/
def PtrArr.add (p : PtrArr) (k : Nat) : PtrArr := fun i => p (k + i)

/-- memory with the bytes `bs` stored at address `a` -/
def _root_.B3.Simd.Mem.write (m : Mem) (a : Nat) (bs : List UInt8) : Mem :=
  fun i => if a ≤ i ∧ i < a + bs.length then bs.getD (i - a) 0 else m i

/-- a writable byte pointer: the memory and the offset the pointer designates -/
structure BytePtr where
  mem : Mem
  off : Nat

/-- `p + k` / `&p[k]` -/
def BytePtr.add (p : BytePtr) (k : Nat) : BytePtr := ⟨p.mem, p.off + k⟩

/-- after a callee has written through (a copy of) the pointer: its memory, the caller's offset -/
def BytePtr.back (caller callee : BytePtr) : BytePtr := ⟨callee.mem, caller.off⟩

/-- `_mm_storeu_si128((__m128i *)&p[k], a)`: `MEM[p+k+127 : p+k] := a[127:0]` -/
def storeu_ptr (a : V4) (p : BytePtr) (k : Nat) : BytePtr := ⟨p.mem.write (p.off + k) (bytesOfWords a), p.off⟩

/-- the `n` little-endian words at byte offset `o` of a writable pointer -/
def BytePtr.readWords (p : BytePtr) (o n : Nat) : Vector UInt32 n := Mem.words n p.mem (p.off + o)

/-- store `n` little-endian words at byte offset `o` -/
def BytePtr.writeWords {n : Nat} (p : BytePtr) (o : Nat) (w : Vector UInt32 n) : BytePtr :=
  ⟨p.mem.write (p.off + o) (bytesOfWords w), p.off⟩

/-- the value of an uninitialised object -/
opaque uninit {α : Type} [Inhabited α] : α

instance : Inhabited BytePtr := ⟨⟨fun _ => 0, 0⟩⟩

end B3.Simd.CI
