/- definitions for the lane-by-lane statements about the 4-way kernels -/
import B3.Simd.Sse41Base
namespace B3.Simd
open B3 B3.Gen.RsSse41
open B3.Gen.Rs (MSG_SCHEDULE)

theorem vec16_eta' {α : Type} (s : Vector α 16) : s = #v[s[0], s[1], s[2], s[3], s[4], s[5], s[6], s[7],
    s[8], s[9], s[10], s[11], s[12], s[13], s[14], s[15]] := by
  apply Vector.ext
  intro i hi
  match i, hi with
  | 0, _ | 1, _ | 2, _ | 3, _ | 4, _ | 5, _ | 6, _ | 7, _
  | 8, _ | 9, _ | 10, _ | 11, _ | 12, _ | 13, _ | 14, _ | 15, _ => rfl
  | n + 16, h => omega

theorem vec8_eta' {α : Type} (s : Vector α 8) : s = #v[s[0], s[1], s[2], s[3], s[4], s[5], s[6], s[7]] := by
  apply Vector.ext
  intro i hi
  match i, hi with
  | 0, _ | 1, _ | 2, _ | 3, _ | 4, _ | 5, _ | 6, _ | 7, _ => rfl
  | n + 8, h => omega

theorem vec4_eta {α : Type} (s : Vector α 4) : s = #v[s[0], s[1], s[2], s[3]] := by
  apply Vector.ext
  intro i hi
  match i, hi with
  | 0, _ | 1, _ | 2, _ | 3, _ => rfl
  | n + 4, h => omega

macro "vatoms16 " s:ident : tactic => `(tactic|
  (rw [vec16_eta' $s]
   generalize $s[0] = a0; generalize $s[1] = a1; generalize $s[2] = a2; generalize $s[3] = a3
   generalize $s[4] = a4; generalize $s[5] = a5; generalize $s[6] = a6; generalize $s[7] = a7
   generalize $s[8] = a8; generalize $s[9] = a9; generalize $s[10] = a10; generalize $s[11] = a11
   generalize $s[12] = a12; generalize $s[13] = a13; generalize $s[14] = a14; generalize $s[15] = a15))

/-- lane `l` of sixteen vectors: the state / message block of input `l` -/
def lane (l : Fin 4) (v : Vector V4 16) : St :=
  #v[v[0][l], v[1][l], v[2][l], v[3][l], v[4][l], v[5][l], v[6][l], v[7][l],
     v[8][l], v[9][l], v[10][l], v[11][l], v[12][l], v[13][l], v[14][l], v[15][l]]

/-- the sixteen message vectors in the order in which round `r` consumes them -/
def sched (m : Vector V4 16) (r : Fin 7) : Vector V4 16 :=
  #v[m[MSG_SCHEDULE[r][0]], m[MSG_SCHEDULE[r][1]], m[MSG_SCHEDULE[r][2]], m[MSG_SCHEDULE[r][3]],
     m[MSG_SCHEDULE[r][4]], m[MSG_SCHEDULE[r][5]], m[MSG_SCHEDULE[r][6]], m[MSG_SCHEDULE[r][7]],
     m[MSG_SCHEDULE[r][8]], m[MSG_SCHEDULE[r][9]], m[MSG_SCHEDULE[r][10]], m[MSG_SCHEDULE[r][11]],
     m[MSG_SCHEDULE[r][12]], m[MSG_SCHEDULE[r][13]], m[MSG_SCHEDULE[r][14]], m[MSG_SCHEDULE[r][15]]]

/-- lane `l` (a literal) of the generated 4-way round against the (re-associated) specification round:
one kernel check per lane, ~30 s each, so each lane lives in its own module (`Sse41Lane0` .. `Sse41Lane3`) -/
macro "round_lane_tac " v:ident m:ident r:ident : tactic => `(tactic|
  (unfold round round_part1 round_part2 sched
   generalize $m[MSG_SCHEDULE[$r][0]] = x0; generalize $m[MSG_SCHEDULE[$r][1]] = x1
   generalize $m[MSG_SCHEDULE[$r][2]] = x2; generalize $m[MSG_SCHEDULE[$r][3]] = x3
   generalize $m[MSG_SCHEDULE[$r][4]] = x4; generalize $m[MSG_SCHEDULE[$r][5]] = x5
   generalize $m[MSG_SCHEDULE[$r][6]] = x6; generalize $m[MSG_SCHEDULE[$r][7]] = x7
   generalize $m[MSG_SCHEDULE[$r][8]] = x8; generalize $m[MSG_SCHEDULE[$r][9]] = x9
   generalize $m[MSG_SCHEDULE[$r][10]] = x10; generalize $m[MSG_SCHEDULE[$r][11]] = x11
   generalize $m[MSG_SCHEDULE[$r][12]] = x12; generalize $m[MSG_SCHEDULE[$r][13]] = x13
   generalize $m[MSG_SCHEDULE[$r][14]] = x14; generalize $m[MSG_SCHEDULE[$r][15]] = x15
   vatoms16 $v
   kernel_rfl))

end B3.Simd
