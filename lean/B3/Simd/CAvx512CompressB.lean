/- round pieces 3-4 of the generated `compress_pre` (c/blake3_avx512.c) against `Spec.round` (kernel-checked) -/
import B3.Simd.CAvx512CompressA
namespace B3.Simd.C512
open B3 B3.Gen.CAvx512

theorem c_round3_eq (s w : St) :
    compress_pre_part4 (rowsV s) (grp0 w) (grp1 w) (grp2 w) (grp3 w)
      = crows (Spec.round s (Spec.permute w)) (Spec.permute w) := by c_round_tac s w

theorem c_round4_eq (s w : St) :
    compress_pre_part5 (rowsV s) (grp0 w) (grp1 w) (grp2 w) (grp3 w)
      = crows (Spec.round s (Spec.permute w)) (Spec.permute w) := by c_round_tac s w

end B3.Simd.C512
